/-
  C02 — source tie.  `TaurexModel/Gen/SrcC02.lean` is regenerated on every run by `harness/translate.py` from the source
  text of taurex/util/emission.py, taurex/model/emission.py, taurex/model/directimage.py, taurex/contributions/
  contribution.py, cia.py and taurex/data/stellar/star.py.  The theorems below state, for EVERY carrier (no algebra is
  used: `rfl`, or induction over the loops), that each regenerated definition is the hand-written model function of
  `TaurexModel/Emission.lean` that the C02 theorems are about and that `driver_c02` executes.
  A source change that alters one of these functions makes the corresponding theorem fail to check.
  Besides the intensity, `evaluate_emission` is tied for its fourth component, the contribution function `tau` that
  `path_integral` / `model()` hand to the user (`src_evaluate_emission_tau`, `src_path_integral_tau`), and the
  orchestration of `partial_model` is tied through the `dyn` dialect (`src_partial_model`: the sequence of calls on the
  model, its star and its contributions, oracle in `Proofs/C02SrcPartial.lean`).
-/
import TaurexModel.Gen.SrcC02
import TaurexModel.Emission
import Proofs.C02SrcLemmas
import Proofs.C02SrcPartial
set_option linter.unusedSectionVars false

namespace Taurex.C02Src
open Taurex.Emission Taurex.SrcLemmas

section
variable {α : Type} [Add α] [Sub α] [Mul α] [Div α] [Neg α] [LT α] [LE α]
  [DecidableLT α] [DecidableLE α] [Taurex.Transc α] [OfNat α 0] [OfNat α 1] [OfNat α 2] [OfNat α 4] [OfNat α 10]
  [OfNat α 10000]

/-- `_convert_lamb`: wavenumber (cm⁻¹) → wavelength (m), the `wl` of `planck` -/
theorem src_convert_lamb (pi h c kb lit nu : α) :
    Gen.SrcC02.convert_lamb nu lit = (pcOf pi h c kb lit).conv / nu := rfl

/-- `_black_body_vec(wl, temp)` is the Planck expression of `planck` at `wl = conv/nu` -/
theorem src_black_body_vec (pi h c kb lit nu t : α) :
    Gen.SrcC02.black_body_vec ((pcOf pi h c kb lit).conv / nu) t kb pi h c lit = planck (pcOf pi h c kb lit) nu t := rfl

/-- `black_body` (whatever kernel the module binds to that name: today `black_body_numba`) is `planck` -/
theorem src_black_body (pi h c kb lit nu t : α) :
    Gen.SrcC02.black_body nu t kb pi h c lit = planck (pcOf pi h c kb lit) nu t := rfl

/-- `EmissionModel.compute_final_flux` is `eclipse` -/
theorem src_emission_final_flux (f sed rp rs : α) :
    Gen.SrcC02.emission_final_flux f rp rs sed = eclipse f sed rp rs := rfl

/-- `DirectImageModel.compute_final_flux` is `direct` (`pc` = the literal `3.08567758e16`) -/
theorem src_direct_final_flux (pi f rp dist pc : α) :
    Gen.SrcC02.direct_final_flux f pi pc rp dist = direct pi f rp dist pc := rfl

/-! ### the optical-depth kernels and the `contribute` methods -/

/-- `contribute_tau(lo, hi, 0, sigma, density, path, …, layer=0, tau)` (one wavenumber) leaves in `tau[0]` what
    `tauAcc` of a `σ·dz·ρ` contribution computes from the previous `tau[0]` — the call `evaluate_emission` makes.
    (Generic induction over the loop; no algebra.) -/
theorem src_contribute_tau (sig dz dens : List α) (lo hi : Nat) (tau : Nat → α) :
    Gen.SrcC02.contribute_tau lo hi 0 (fn sig) (fn dens) (fn dz) 0 tau 0
      = tauAcc (Kind.lin, sig) dz dens lo hi (tau 0) :=
  foldl_update_at (fun k => fn sig (k + 0) * fn dz k * fn dens (k + 0)) 0 _ tau

/-- `contribute_cia` likewise, for a `σ·dz·ρ·ρ` contribution -/
theorem src_contribute_cia (sig dz dens : List α) (lo hi : Nat) (tau : Nat → α) :
    Gen.SrcC02.contribute_cia lo hi 0 (fn sig) (fn dens) (fn dz) 0 tau 0
      = tauAcc (Kind.sq, sig) dz dens lo hi (tau 0) :=
  foldl_update_at (fun k => fn sig (k + 0) * fn dz k * fn dens (k + 0) * fn dens (k + 0)) 0 _ tau

/-- `Contribution.contribute` passes its arguments and `self.sigma_xsec` on to `contribute_tau` -/
theorem src_contribution_contribute (sig dz dens : List α) (lo hi : Nat) (tau : Nat → α) :
    Gen.SrcC02.contribution_contribute lo hi 0 0 (fn dens) tau (fn dz) (fn sig) 0
      = tauAcc (Kind.lin, sig) dz dens lo hi (tau 0) :=
  src_contribute_tau sig dz dens lo hi tau

/-- `CIAContribution.contribute` with at least one pair (`self._total_cia > 0`) passes them on to `contribute_cia` -/
theorem src_cia_contribute (sig dz dens : List α) (lo hi ncia : Nat) (hn : 0 < ncia) (tau : Nat → α) :
    Gen.SrcC02.cia_contribute lo hi 0 0 (fn dens) tau (fn dz) (fn sig) ncia 0
      = tauAcc (Kind.sq, sig) dz dens lo hi (tau 0) := by
  unfold Gen.SrcC02.cia_contribute
  simp only [hn, decide_true, if_true]
  exact src_contribute_cia sig dz dens lo hi tau

/-! ### the layer loop of `EmissionModel.evaluate_emission` -/

/-- what `contrib.contribute(self, lo, hi, off, layer, density, tau, path_length=path)` runs for the contribution at
    position `ci` of `contribution_list`, on a `tau` buffer of shape `(1, nw)`: Python's method dispatch selects
    `Contribution.contribute` (absorption, Rayleigh, …: kind `lin`) or `CIAContribution.contribute` (kind `sq`; at least
    one pair), both as regenerated from the source, column by column (`sigma_xsec[:, j]` = the column's `sig`). -/
def dispatch (cols : List (Col α)) (ci lo hi off layer : Nat) (density buf path : Nat → α) : Nat → α := fun j =>
  let c := ((cols.getD j ⟨0, []⟩).sig.getD ci (Kind.lin, []))
  match c.1 with
  | .lin => Gen.SrcC02.contribution_contribute lo hi off layer density (fun _ => buf j) path (fn c.2) layer
  | .sq => Gen.SrcC02.cia_contribute lo hi off layer density (fun _ => buf j) path (fn c.2) 1 layer

theorem dispatch_eq (cols : List (Col α)) (dz dens : List α) (ci lo hi j : Nat) (buf : Nat → α) :
    dispatch cols ci lo hi 0 0 (fn dens) buf (fn dz) j
      = tauAcc ((cols.getD j ⟨0, []⟩).sig.getD ci (Kind.lin, [])) dz dens lo hi (buf j) := by
  unfold dispatch
  generalize (cols.getD j ⟨0, []⟩).sig.getD ci (Kind.lin, []) = c
  obtain ⟨kd, sg⟩ := c
  cases kd
  · exact src_contribution_contribute sg dz dens lo hi (fun _ => buf j)
  · exact src_cia_contribute sg dz dens lo hi 1 (by decide) (fun _ => buf j)

/-- the loop `for contrib in self.contribution_list: contrib.contribute(self, lo, hi, 0, 0, density, buf, path_length=dz)`
    leaves in column `j` of the buffer the model's fold over that column's contributions -/
theorem contrib_loop (cols : List (Col α)) (dz dens : List α) (nc lo hi j : Nat) (buf : Nat → α)
    (hn : (cols.getD j ⟨0, []⟩).sig.length = nc) :
    ((List.range' 0 nc).foldl (fun (b : Nat → α) ci => dispatch cols ci lo hi 0 0 (fn dens) b (fn dz)) buf) j
      = (cols.getD j ⟨0, []⟩).sig.foldl (fun a c => tauAcc c dz dens lo hi a) (buf j) := by
  rw [foldl_proj (fun (b : Nat → α) ci => dispatch cols ci lo hi 0 0 (fn dens) b (fn dz)) (fun b => b j)
    (fun a ci => tauAcc ((cols.getD j ⟨0, []⟩).sig.getD ci (Kind.lin, [])) dz dens lo hi a) _
    (fun b ci => dispatch_eq cols dz dens ci lo hi j b)]
  rw [← hn]
  exact foldl_range'_getD (fun a c => tauAcc c dz dens lo hi a) _ _ _

/-- the `(1, nw)` buffer after `for contrib in self.contribution_list: contrib.contribute(self, lo, hi, 0, 0, density, buf,
    path_length=dz)` on a zeroed buffer -/
def allContrib (cols : List (Col α)) (dz dens : List α) (nc lo hi : Nat) : Nat → α :=
  (List.range' 0 nc).foldl (fun (b : Nat → α) ci => dispatch cols ci lo hi 0 0 (fn dens) b (fn dz)) (fun _ => (0 : α))

theorem ite_app {β γ : Type} (c : Prop) [Decidable c] (f g : β → γ) (x : β) :
    (if c then f else g) x = if c then f x else g x := by
  split <;> rfl

/-- **`EmissionModel.evaluate_emission`** (cross-section branch, `usingKTables = False`), component `I` of the returned
    tuple, for all wavenumbers at once and one emission angle (`self._mu_quads[q] = mq`), is the model's `intensity`:
    for every column `j` of the wavenumber grid
      `evaluate_emission(wngrid, …)[0][q, j] = intensity k cols dz dens temps (1/mq) cols[j]`.
    Instantiation of what the code reads: `wngrid[j]` = the column's wavenumber, `self._clamp = 10` (set in `__init__`),
    `contribution_list` = `nc` contributions dispatched as in `dispatch` (every column lists the same `nc`
    contributions: `hsig`), `deltaz / densityProfile / temperatureProfile` = the model's lists, `nLayers` = their length.
    The statements that only feed the `tau` component of the result are sliced away by the translator.
    Generic in the carrier: induction over the loops, the clamp tests `x.min() < self._clamp` included; no algebra. -/
theorem src_evaluate_emission (pi h c kb lit mq : α) (cols : List (Col α)) (dz dens temps : List α) (nc : Nat)
    (hsig : ∀ j, j < cols.length → (cols.getD j ⟨0, []⟩).sig.length = nc) (ktI : Nat → α) (j : Nat)
    (hj : j < cols.length) :
    Gen.SrcC02.evaluate_emission (fun j => (cols.getD j ⟨0, []⟩).nu) cols.length kb pi h c lit (10 : α)
        (dispatch cols) (fn dz) (fn dens) ktI mq temps.length nc (fn temps) false j
      = intensity (pcOf pi h c kb lit) cols dz dens temps ((1 : α) / mq) (cols.getD j ⟨0, []⟩) := by
  have hne : cols ≠ [] := by intro h0; subst h0; exact absurd hj (Nat.not_lt_zero _)
  -- the contribution loops, column by column
  have hloop : ∀ lo hi j', j' < cols.length →
      allContrib cols dz dens nc lo hi j' = tauRange (cols.getD j' ⟨0, []⟩).sig dz dens lo hi :=
    fun lo hi j' hj' => contrib_loop cols dz dens nc lo hi j' _ (hsig j' hj')
  have hpair : ∀ lo1 hi1 lo2 hi2 : Nat,
      (List.range' 0 nc).foldl (fun (st : (Nat → α) × (Nat → α)) ci =>
        (dispatch cols ci lo1 hi1 0 0 (fn dens) st.1 (fn dz), dispatch cols ci lo2 hi2 0 0 (fn dens) st.2 (fn dz)))
        (fun _ => (0 : α), fun _ => (0 : α))
      = (allContrib cols dz dens nc lo1 hi1, allContrib cols dz dens nc lo2 hi2) :=
    fun lo1 hi1 lo2 hi2 => foldl_pair (fun (b : Nat → α) ci => dispatch cols ci lo1 hi1 0 0 (fn dens) b (fn dz))
      (fun (b : Nat → α) ci => dispatch cols ci lo2 hi2 0 0 (fn dens) b (fn dz)) _ _ _
  have kL : ∀ l, decide (foldMin cols.length (allContrib cols dz dens nc (l + 1) temps.length) < (10 : α))
      = keepLOf cols dz dens temps.length l := by
    intro l
    unfold keepLOf layerTau
    rw [foldMin_eq_vmin cols (fun c => tauRange c.sig dz dens (l + 1) temps.length) _ ⟨0, []⟩
      (fun j' hj' => hloop _ _ j' hj') hne]
  have kD : ∀ l, decide (foldMin cols.length (fun r => allContrib cols dz dens nc l (l + 1) r
      + allContrib cols dz dens nc (l + 1) temps.length r) < (10 : α)) = keepDOf cols dz dens temps.length l := by
    intro l
    unfold keepDOf dTau layerTau
    rw [foldMin_eq_vmin cols (fun c => tauRange c.sig dz dens l (l + 1) + tauRange c.sig dz dens (l + 1) temps.length)
      _ ⟨0, []⟩ (fun j' hj' => by rw [hloop _ _ j' hj', hloop _ _ j' hj']) hne]
  unfold Gen.SrcC02.evaluate_emission intensity intensityRows rowsOf rowsWith
  simp only [Bool.false_eq_true, if_false, List.foldl_map, List.range_eq_range', hpair]
  -- the layer loop, observed at column j
  refine (foldl_proj_mem _ (fun (st : (Nat → α) × (Nat → α) × (Nat → α) × (Nat → α)) => st.2.2.2 j)
    (fun i l => i + (planck (pcOf pi h c kb lit) (cols.getD j ⟨0, []⟩).nu (temps.getD l 0) / pi)
      * (trans (keepLOf cols dz dens temps.length l) (layerTau (cols.getD j ⟨0, []⟩).sig dz dens temps.length l) ((1 : α) / mq)
        - trans (keepDOf cols dz dens temps.length l) (dTau (cols.getD j ⟨0, []⟩).sig dz dens temps.length l) ((1 : α) / mq)))
    (List.range' 0 temps.length) ?_ _).trans ?_
  · intro st l _
    show st.2.2.2 j + (planck (pcOf pi h c kb lit) (cols.getD j ⟨0, []⟩).nu (temps.getD l 0) / pi)
      * ((if decide (foldMin cols.length (allContrib cols dz dens nc (l + 1) temps.length) < (10 : α)) = true
            then (fun j' => Transc.exp ((-(allContrib cols dz dens nc (l + 1) temps.length j')) * ((1 : α) / mq)))
            else fun _ => (0 : α)) j
        - (if decide (foldMin cols.length (fun r => allContrib cols dz dens nc l (l + 1) r
              + allContrib cols dz dens nc (l + 1) temps.length r) < (10 : α)) = true
            then (fun j' => Transc.exp ((-(allContrib cols dz dens nc l (l + 1) j'
              + allContrib cols dz dens nc (l + 1) temps.length j')) * ((1 : α) / mq)))
            else fun _ => (0 : α)) j) = _
    rw [ite_app, ite_app, kL, kD, hloop _ _ j hj, hloop _ _ j hj]
    rfl
  · show List.foldl _ ((Gen.SrcC02.black_body (cols.getD j ⟨0, []⟩).nu (fn temps 0) kb pi h c lit / pi)
        * Transc.exp ((-(allContrib cols dz dens nc 0 temps.length j)) * ((1 : α) / mq))) _ = _
    rw [hloop _ _ j hj]
    refine foldl_proj_mem _ id _ _ (fun i l hl => ?_) _
    have hl' : l < temps.length := by have := List.mem_range'_1.1 hl; omega
    unfold flagsOf
    rw [getD_map_range _ _ _ _ hl']
    rfl

/-- the property `usingKTables`: `GlobalCache()['opacity_method'] == 'ktables'` (`'ktables'` coded as 1, any other value
    of the setting as another number) -/
theorem src_usingKTables (m : Nat) : Gen.SrcC02.usingKTables m = decide (m = 1) := rfl

/-- the mode switch of `evaluate_emission`: with the setting `'ktables'` the result is whatever
    `self.evaluate_emission_ktables(wngrid, return_contrib)` returns (component `I`: `ktI`; tied to `KTau.emissionK` in
    `Props/C20Src.lean`), for any other setting the cross-section loop of `src_evaluate_emission` runs -/
theorem src_evaluate_emission_switch (pi h c kb lit mq clamp : α) (nus dz dens temps ktI : Nat → α) (nw n nc m : Nat)
    (contribute : Nat → Nat → Nat → Nat → Nat → (Nat → α) → (Nat → α) → (Nat → α) → (Nat → α)) :
    Gen.SrcC02.evaluate_emission nus nw kb pi h c lit clamp contribute dz dens ktI mq n nc temps
        (Gen.SrcC02.usingKTables m)
      = if m = 1 then ktI
        else Gen.SrcC02.evaluate_emission nus nw kb pi h c lit clamp contribute dz dens ktI mq n nc temps false := by
  unfold Gen.SrcC02.usingKTables
  by_cases hm : m = 1
  · subst hm; rfl
  · simp only [hm, decide_false, if_false]

/-- `Star.initialize` stores `black_body(wngrid, T*)`, which `spectralEmissionDensity` returns: the stellar SED the
    driver evaluates as `planck k nu tstar` -/
theorem src_star_sed (pi h c kb lit nu ts : α) :
    Gen.SrcC02.star_sed (Gen.SrcC02.star_initialize nu kb pi h c lit ts) = planck (pcOf pi h c kb lit) nu ts := rfl

/-! ### angles: quadrature nodes, the other components of `evaluate_emission`, `path_integral` -/

/-- `set_num_gauss`: with `mu, weight = leggauss(n)` (one node `x`, weight `wt`) the new `(_mu_quads, _wi_quads)` -/
theorem src_set_num_gauss (x wt : α) : Gen.SrcC02.set_num_gauss wt x = (muOf x, wOf wt) := rfl

/-- `set_quadratures` maps user-supplied nodes the same way -/
theorem src_set_quadratures (x wt : α) : Gen.SrcC02.set_quadratures x wt = (muOf x, wOf wt) := rfl

/-- component `_mu` of `evaluate_emission` (cross-section branch) is `1/_mu_quads`: `muInvOf x` after `set_num_gauss` -/
theorem src_evaluate_emission_mu (x kt : α) :
    Gen.SrcC02.evaluate_emission_mu kt (muOf x) false = muInvOf x := rfl

/-- component `_w` of `evaluate_emission` is `_wi_quads`: `wOf wt` after `set_num_gauss` -/
theorem src_evaluate_emission_w (wt kt : α) :
    Gen.SrcC02.evaluate_emission_w kt false (wOf wt) = wOf wt := rfl

/-- **`EmissionModel.path_integral`** for one wavenumber: with `I, _mu, _w` as `evaluate_emission` returns them for the
    `leggauss` nodes `xs` / weights `wts` (`_mu = 1/_mu_quads`, `_w = _wi_quads`, one entry per angle; `np.pi = npPi`) the
    returned spectrum is `compute_final_flux` of the model's `fluxOf`.  `final` is whatever `self.compute_final_flux`
    dispatches to (see the two corollaries).  Generic induction over the angle sum (Python's `sum`: `0 + …`, left to
    right). -/
theorem src_path_integral (npPi tauE : α) (is xs wts : List α) (final : α → α) (h1 : xs.length = is.length)
    (h2 : wts.length = is.length) :
    Gen.SrcC02.path_integral (fn is) final (fun q => muInvOf (xs.getD q 0)) is.length npPi tauE
        (fun q => wOf (wts.getD q 0)) = final (fluxOf npPi is xs wts) := by
  unfold Gen.SrcC02.path_integral fluxOf fluxTotal angleSum
  simp only [List.foldl_map]
  have hlen : (is.zip (xs.zip wts)).length = is.length := by simp [List.length_zip, h1, h2]
  rw [← hlen]
  congr 2
  apply foldl_range'_eq (fun a (q : α × α × α) => a + q.1 * (wOf q.2.2 / muInvOf q.2.1)) (is.zip (xs.zip wts))
    (fun r => (fn is r, xs.getD r 0, wts.getD r 0)) 0
  intro i hi
  simp only [List.length_zip, Nat.lt_min] at hi
  simp [fn, List.getD_eq_getElem?_getD, hi.1, hi.2.1, hi.2.2]

/-- eclipse: `path_integral` followed by `EmissionModel.compute_final_flux` is `eclipse (fluxOf …)` -/
theorem src_path_integral_eclipse (npPi tauE sed rp rs : α) (is xs wts : List α) (h1 : xs.length = is.length)
    (h2 : wts.length = is.length) :
    Gen.SrcC02.path_integral (fn is) (fun f => Gen.SrcC02.emission_final_flux f rp rs sed)
        (fun q => muInvOf (xs.getD q 0)) is.length npPi tauE (fun q => wOf (wts.getD q 0))
      = eclipse (fluxOf npPi is xs wts) sed rp rs :=
  src_path_integral npPi tauE is xs wts _ h1 h2

/-- direct image: `path_integral` followed by `DirectImageModel.compute_final_flux` is `direct … (fluxOf …)` -/
theorem src_path_integral_direct (npPi tauE pi rp dist pc : α) (is xs wts : List α) (h1 : xs.length = is.length)
    (h2 : wts.length = is.length) :
    Gen.SrcC02.path_integral (fn is) (fun f => Gen.SrcC02.direct_final_flux f pi pc rp dist)
        (fun q => muInvOf (xs.getD q 0)) is.length npPi tauE (fun q => wOf (wts.getD q 0))
      = direct pi (fluxOf npPi is xs wts) rp dist pc :=
  src_path_integral npPi tauE is xs wts _ h1 h2

/-- **`EmissionModel.evaluate_emission`** (cross-section branch), component `tau` of the returned tuple — the CONTRIBUTION
    FUNCTION that `path_integral` and `model()` hand on to the user —, for all wavenumbers at once: entry `[l, j]` is the
    model's `contribFn` (`contribOf` of the row of layer `l` in column `j`): `exp(-layer_tau) - exp(-dtau)` with each term
    dropped (`0.0`) when its optical depth is ≥ `self._clamp = 10` at EVERY wavenumber (`x.min() < self._clamp`), added to the
    zeroed table.  The code's `if isinstance(_tau, float): tau[layer] += _tau else: tau[layer] += _tau[0]` (both terms
    dropped: a Python float; otherwise an array of shape `(1, nw)`) has ONE translation for both branches.  The statements
    that only feed the intensity are sliced away.  Instantiations as in `src_evaluate_emission`; the black-body constants do
    not enter (`k` arbitrary).  Generic in the carrier. -/
theorem src_evaluate_emission_tau (k : PC α) (cols : List (Col α)) (dz dens temps : List α) (nc : Nat)
    (hsig : ∀ j, j < cols.length → (cols.getD j ⟨0, []⟩).sig.length = nc) (ktT : Nat → Nat → α) (l j : Nat)
    (hl : l < temps.length) (hj : j < cols.length) :
    Gen.SrcC02.evaluate_emission_tau cols.length (10 : α) (dispatch cols) (fn dz) (fn dens) ktT temps.length nc false l j
      = (contribFn k cols dz dens temps (cols.getD j ⟨0, []⟩)).getD l 0 := by
  have hne : cols ≠ [] := by intro h0; subst h0; exact absurd hj (Nat.not_lt_zero _)
  have hloop : ∀ lo hi j', j' < cols.length →
      allContrib cols dz dens nc lo hi j' = tauRange (cols.getD j' ⟨0, []⟩).sig dz dens lo hi :=
    fun lo hi j' hj' => contrib_loop cols dz dens nc lo hi j' _ (hsig j' hj')
  have hpair : ∀ lo1 hi1 lo2 hi2 : Nat,
      (List.range' 0 nc).foldl (fun (st : (Nat → α) × (Nat → α)) ci =>
        (dispatch cols ci lo1 hi1 0 0 (fn dens) st.1 (fn dz), dispatch cols ci lo2 hi2 0 0 (fn dens) st.2 (fn dz)))
        (fun _ => (0 : α), fun _ => (0 : α))
      = (allContrib cols dz dens nc lo1 hi1, allContrib cols dz dens nc lo2 hi2) :=
    fun lo1 hi1 lo2 hi2 => foldl_pair (fun (b : Nat → α) ci => dispatch cols ci lo1 hi1 0 0 (fn dens) b (fn dz))
      (fun (b : Nat → α) ci => dispatch cols ci lo2 hi2 0 0 (fn dens) b (fn dz)) _ _ _
  have kL : ∀ l, decide (foldMin cols.length (allContrib cols dz dens nc (l + 1) temps.length) < (10 : α))
      = keepLOf cols dz dens temps.length l := by
    intro l
    unfold keepLOf layerTau
    rw [foldMin_eq_vmin cols (fun c => tauRange c.sig dz dens (l + 1) temps.length) _ ⟨0, []⟩
      (fun j' hj' => hloop _ _ j' hj') hne]
  have kD : ∀ l, decide (foldMin cols.length (fun r => allContrib cols dz dens nc l (l + 1) r
      + allContrib cols dz dens nc (l + 1) temps.length r) < (10 : α)) = keepDOf cols dz dens temps.length l := by
    intro l
    unfold keepDOf dTau layerTau
    rw [foldMin_eq_vmin cols (fun c => tauRange c.sig dz dens l (l + 1) + tauRange c.sig dz dens (l + 1) temps.length)
      _ ⟨0, []⟩ (fun j' hj' => by rw [hloop _ _ j' hj', hloop _ _ j' hj']) hne]
  let F : Nat → α := fun l' =>
    cut (keepLOf cols dz dens temps.length l') (layerTau (cols.getD j ⟨0, []⟩).sig dz dens temps.length l')
      - cut (keepDOf cols dz dens temps.length l') (dTau (cols.getD j ⟨0, []⟩).sig dz dens temps.length l')
  unfold Gen.SrcC02.evaluate_emission_tau
  simp only [Bool.false_eq_true, if_false, hpair]
  refine (congrFun (foldl_proj_mem _ (fun (st : (Nat → α) × (Nat → α) × (Nat → Nat → α)) => fun i => st.2.2 i j)
    (fun (tt : Nat → α) g => fun i => if i = g then tt g + F g else tt i)
    (List.range' 0 temps.length) ?_ _) l).trans ?_
  · intro st l' _
    funext i
    show (if i = l' then st.2.2 i j +
        ((if decide (foldMin cols.length (allContrib cols dz dens nc (l' + 1) temps.length) < (10 : α)) = true
            then (fun j' => Transc.exp (-(allContrib cols dz dens nc (l' + 1) temps.length j')))
            else fun _ => (0 : α)) j
        - (if decide (foldMin cols.length (fun r => allContrib cols dz dens nc l' (l' + 1) r
              + allContrib cols dz dens nc (l' + 1) temps.length r) < (10 : α)) = true
            then (fun j' => Transc.exp (-(allContrib cols dz dens nc l' (l' + 1) j'
              + allContrib cols dz dens nc (l' + 1) temps.length j')))
            else fun _ => (0 : α)) j)
        else st.2.2 i j) = _
    rw [ite_app, ite_app, kL, kD, hloop _ _ j hj, hloop _ _ j hj]
    by_cases hi : i = l'
    · subst hi; simp only [if_true]; rfl
    · simp only [hi, if_false]
  · rw [foldl_update_each F temps.length 0 (fun _ => (0 : α)) l]
    have h0 : (0 ≤ l ∧ l < 0 + temps.length) := ⟨Nat.zero_le _, by omega⟩
    rw [if_pos h0]
    unfold contribFn rowsOf rowsWith flagsOf
    simp only [List.map_map, List.getD_eq_getElem?_getD, List.getElem?_map, List.getElem?_range hl, Option.map_some,
      Option.getD_some, Function.comp, contribOf]
    rfl

/-- `path_integral(...)[1]`, the second value `model()` receives, is the `tau` of `evaluate_emission`, untouched -/
theorem src_path_integral_tau (I mu w : Nat → α) (tauE : α) : Gen.SrcC02.path_integral_tau I mu tauE w = tauE := rfl

end

/-! ### the orchestration of `partial_model` -/

section partialModel
open Taurex.Gen Taurex.Gen.Dyn
variable {φ : Type} [FloatLike φ]

/-- the two ways `partial_model` is called: without `wngrid` (`None`), or with one -/
def wnArg (given : Bool) : PV φ := if given then .obj .wn else .none

/-- **`EmissionModel.partial_model(wngrid, cutoff_grid)`** (dialect `dyn`, oracle `pext n`: a model with `n` contributions,
    `Proofs/C02SrcPartial.lean`): it calls, in this order, `self.initialize_profiles()`, `self._star.initialize(grid)`,
    `contrib.prepare(self, grid)` for every contribution in list order, and returns `self.evaluate_emission(grid, False)` —
    the model's `partialModelSteps` —, where `grid` is `self.nativeWavenumberGrid`, clipped by
    `clip_native_to_wngrid(native_grid, wngrid)` exactly when a `wngrid` is passed and `cutoff_grid` is true.  No call is
    made before, between or after these (the log is exactly the list). -/
theorem src_partial_model (n : Nat) (given cutoff : Bool) (s : List Step) :
    Gen.SrcC02.partial_model (pext (α := φ) n) (.obj .model) (wnArg given) (.bool cutoff) s
      = (.ok (.obj (.result (if (given && cutoff) then 1 else 0))), s ++ partialModelSteps n (given && cutoff)) := by
  have hinit : ∀ s : List Step, (pext (α := φ) n).method .model "initialize_profiles" [] [] s
      = (.ok .none, s ++ [Step.initProfiles]) := fun _ => rfl
  have hgrid : ∀ s : List Step, (pext (α := φ) n).getattr .model "nativeWavenumberGrid" s = (.ok (.obj (.grid 0)), s) :=
    fun _ => rfl
  have hstar : ∀ s : List Step, (pext (α := φ) n).getattr .model "_star" s = (.ok (.obj .star), s) := fun _ => rfl
  have hlist : ∀ s : List Step, (pext (α := φ) n).getattr .model "contribution_list" s
      = (.ok (.list ((List.range n).map (fun i => .obj (.contrib i)))), s) := fun _ => rfl
  have hsi : ∀ (g : Nat) (s : List Step), (pext (α := φ) n).method .star "initialize" [.obj (.grid g)] [] s
      = (.ok .none, s ++ [Step.starInit g]) := fun _ _ => rfl
  have hev : ∀ (g : Nat) (s : List Step),
      (pext (α := φ) n).method .model "evaluate_emission" [.obj (.grid g), .bool false] [] s
      = (.ok (.obj (.result g)), s ++ [Step.evaluate g]) := fun _ _ => rfl
  have hclipg : ∀ s : List Step, (pext (α := φ) n).global "clip_native_to_wngrid" s = (.ok (.obj .clipFn), s) :=
    fun _ => rfl
  have hclip : ∀ s : List Step, (pext (α := φ) n).call .clipFn [.obj (.grid 0), .obj .wn] [] s
      = (.ok (.obj (.grid 1)), s) := fun _ => rfl
  unfold Gen.SrcC02.partial_model partialModelSteps
  cases given <;> cases cutoff <;>
    simp only [wnArg, peff_bind, peff_pure, Dyn.callMethod, Dyn.getAttr, Dyn.call, Dyn.iter, Dyn.truthy, Dyn.Val.isNone,
      hinit, hgrid, hstar, hlist, hsi, hev, hclipg, hclip, Bool.not_true, Bool.not_false, Bool.false_eq_true,
      if_true, if_false, Bool.and_false, Bool.and_true, Bool.and_self]
  all_goals (
    rw [forM_prepare n _ _ (fun i s => rfl)]
    simp only [List.append_assoc, List.cons_append, List.nil_append])
end partialModel

end Taurex.C02Src
