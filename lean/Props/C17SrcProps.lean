/-
  C17 — the property theorems restated about the REGENERATED source.  `Props/C17Src.lean` proves that the definitions
  translated on every run from `ArraySpectrum.__init__` (with `_sort_spectrum`, `_process_spectrum`, `manual_binning`,
  `wnwidth_to_wlwidth`, `compute_bin_edges`), the public properties `wavenumberGrid`, `spectrum`, `errorBar`, `binWidths`,
  `binEdges`, `BaseSpectrum.create_binner` (→ `FluxBinner.__init__`) and `Binner.bin_model` (→ `FluxBinner.bindown`) compute
  the fields and accessors of the model's `load fourCol rows`; `Props/C17.lean` proves the property about `load`.  The
  corollaries below compose the two: they are statements about the text of the code as it is now, at the real carrier.

  What is composed.  The observation array handed to the constructor is `rows.map (encode fc)` (one inner list
  `[wl, value, error(, width)]` per row) and `rawData.shape[1]` is `ncols fc`, exactly as in the tie theorems.
    * `srcInit fc rows` = the attributes `(_obs_spectrum, _bin_widths, _bin_edges, _wnwidths)` the regenerated
      `ArraySpectrum.__init__` leaves behind; `srcObs`, `srcBw`, `srcEdgesWl` its components.
    * `srcWn`, `srcSpectrum`, `srcErrorBar`, `srcBinWidths`, `srcBinEdges` = the regenerated public properties read on that
      object.
    * `srcBinner fc rows` = the `(_wngrid, _wngrid_width)` of the binner the regenerated `create_binner()` builds from that
      object; `srcBinModel fc rows native` = `obs.create_binner().bin_model((native_wn, native_spectrum))[1]`.
  The stored rows are named, as in `Props/C17.lean`, `(load fc rows).rows`; `src_rows_integrity` adds the conjunct that the
  array the source stores (`_obs_spectrum`) is exactly the encoding of those rows, so every statement "of row `i` itself" is
  a statement about row `i` of the source's array.

  The file loaders (tied in `Props/C17Src.lean`: `src_load_from_hdf5`, `src_taurexspectrum_init`,
  `src_observedspectrum_init`).  A TauREx HDF5 file is described by the rows `file` = `(wn, spectrum, noise, wn width)` of
  its four `Output/Spectra/instrument_*` datasets; a text file by the rows of the array `np.loadtxt` returns for its name.
    * `srcHdf5 fn file` = the array the regenerated `TaurexSpectrum._load_from_hdf5(fn)` returns; `src_taurex_roundtrip`
      is `taurex_roundtrip` about it, read back through the regenerated properties.
    * `srcTaurexInit fn file` / `srcObservedInit fc fn loadtxt` = the attributes after the regenerated
      `TaurexSpectrum.__init__` / `ObservedSpectrum.__init__`; they ARE `srcInit` of the file's rows
      (`srcTaurexInit_eq`, `srcObservedInit_eq`), so every statement below about `srcInit …` is a statement about the two
      loaders; order independence is restated for each (`src_taurex_perm_invariant`, `src_observed_perm_invariant`).

  Not restated (no tie)
    * `midEdges_is_midpoint`: about the model's `midEdges`, a helper inside `computeBinEdges`; the tie is for the whole of
      `compute_bin_edges` (the conjunct of `edges_consistent3` that names `computeBinEdges` is restated).
-/
import Props.C17
import Props.C17Src
set_option linter.unusedSectionVars false

namespace Taurex.C17SrcProps
open Taurex.Observation Taurex.Binning Taurex.Gen Taurex.C17 Taurex.C17Src List

/-! ### the instantiated source expressions -/

/-- the attributes `(_obs_spectrum, _bin_widths, _bin_edges, _wnwidths)` after the regenerated
    `ArraySpectrum.__init__(spectrum)` -/
noncomputable def srcInit (fc : Bool) (rows : List (ORow ℝ)) : List (List ℝ) × List ℝ × List ℝ × List ℝ :=
  SrcC17.arrayspectrum_init (rows.map (encode fc)) (ncols fc)

theorem srcInit_eq (fc : Bool) (rows : List (ORow ℝ)) :
    srcInit fc rows
      = ((load fc rows).rows.map (encode fc), (load fc rows).bw, (load fc rows).edgesWl, (load fc rows).wnWidths) :=
  src_init fc rows

/-- `_obs_spectrum` (the sorted array) -/
noncomputable def srcObs (fc : Bool) (rows : List (ORow ℝ)) : List (List ℝ) := (srcInit fc rows).1
/-- `_bin_widths` (µm) -/
noncomputable def srcBw (fc : Bool) (rows : List (ORow ℝ)) : List ℝ := (srcInit fc rows).2.1
/-- `_bin_edges` (µm) -/
noncomputable def srcEdgesWl (fc : Bool) (rows : List (ORow ℝ)) : List ℝ := (srcInit fc rows).2.2.1
/-- the property `wavenumberGrid` of the loaded object -/
noncomputable def srcWn (fc : Bool) (rows : List (ORow ℝ)) : List ℝ := SrcC17.wavenumberGrid (srcInit fc rows).1
/-- the property `spectrum` -/
noncomputable def srcSpectrum (fc : Bool) (rows : List (ORow ℝ)) : List ℝ := SrcC17.spectrum (srcInit fc rows).1
/-- the property `errorBar` -/
noncomputable def srcErrorBar (fc : Bool) (rows : List (ORow ℝ)) : List ℝ := SrcC17.errorBar (srcInit fc rows).1
/-- the property `binWidths` -/
noncomputable def srcBinWidths (fc : Bool) (rows : List (ORow ℝ)) : List ℝ := SrcC17.binWidths (srcInit fc rows).2.2.2
/-- the property `binEdges` -/
noncomputable def srcBinEdges (fc : Bool) (rows : List (ORow ℝ)) : List ℝ := SrcC17.binEdges (srcInit fc rows).2.2.1
/-- `(_wngrid, _wngrid_width)` of `create_binner()` -/
noncomputable def srcBinner (fc : Bool) (rows : List (ORow ℝ)) : List ℝ × List ℝ :=
  SrcC17.create_binner (srcInit fc rows).1 (srcInit fc rows).2.2.2
/-- `create_binner().bin_model((native_wn, native_spectrum))[1]` -/
noncomputable def srcBinModel (fc : Bool) (rows : List (ORow ℝ)) (native : List (Row ℝ)) : List ℝ :=
  (SrcC17.bin_model (native.map Row.c, native.map Row.s) (srcBinner fc rows).1 (srcBinner fc rows).2).2.1

theorem srcObs_eq (fc : Bool) (rows : List (ORow ℝ)) : srcObs fc rows = (load fc rows).rows.map (encode fc) := by
  unfold srcObs; rw [srcInit_eq]

theorem srcBw_eq (fc : Bool) (rows : List (ORow ℝ)) : srcBw fc rows = (load fc rows).bw := by
  unfold srcBw; rw [srcInit_eq]

theorem srcEdgesWl_eq (fc : Bool) (rows : List (ORow ℝ)) : srcEdgesWl fc rows = (load fc rows).edgesWl := by
  unfold srcEdgesWl; rw [srcInit_eq]

theorem srcWn_eq (fc : Bool) (rows : List (ORow ℝ)) : srcWn fc rows = (load fc rows).wavenumberGrid := by
  unfold srcWn; rw [srcInit_eq]; exact src_wavenumberGrid fc (load fc rows)

theorem srcSpectrum_eq (fc : Bool) (rows : List (ORow ℝ)) : srcSpectrum fc rows = (load fc rows).spectrum := by
  unfold srcSpectrum; rw [srcInit_eq]; exact src_spectrum fc (load fc rows)

theorem srcErrorBar_eq (fc : Bool) (rows : List (ORow ℝ)) : srcErrorBar fc rows = (load fc rows).errorBar := by
  unfold srcErrorBar; rw [srcInit_eq]; exact src_errorBar fc (load fc rows)

theorem srcBinWidths_eq (fc : Bool) (rows : List (ORow ℝ)) : srcBinWidths fc rows = (load fc rows).binWidths := by
  unfold srcBinWidths; rw [srcInit_eq]; exact src_binWidths (load fc rows)

theorem srcBinEdges_eq (fc : Bool) (rows : List (ORow ℝ)) : srcBinEdges fc rows = (load fc rows).binEdges := by
  unfold srcBinEdges; rw [srcInit_eq]; exact src_binEdges (load fc rows)

theorem srcBinner_eq (fc : Bool) (rows : List (ORow ℝ)) :
    srcBinner fc rows = ((load fc rows).createBinner.map TBin.c, (load fc rows).createBinner.map TBin.w) := by
  unfold srcBinner; rw [srcInit_eq]
  exact src_create_binner fc (load fc rows) (load_widths_length fc rows)

theorem srcBinModel_eq (fc : Bool) (rows : List (ORow ℝ)) (native : List (Row ℝ)) :
    srcBinModel fc rows native = (load fc rows).binModel native := by
  unfold srcBinModel srcBinner; rw [srcInit_eq]
  exact src_bin_model_obs fc (load fc rows) (load_widths_length fc rows) native

/-! ### the property -/

/-- **rows_integrity**, about the regenerated `ArraySpectrum.__init__` and properties: the array the source stores is the
    encoding of a permutation of the input rows — sorting moves whole rows — and `wavenumberGrid`, `spectrum`, `errorBar`
    are `10000/wl`, value, error of the *same* stored row. -/
theorem src_rows_integrity (fc : Bool) (rows : List (ORow ℝ)) :
    (load fc rows).rows ~ rows ∧
    srcObs fc rows = (load fc rows).rows.map (encode fc) ∧
    srcWn fc rows = (load fc rows).rows.map (fun r => 10000 / r.wl) ∧
    srcSpectrum fc rows = (load fc rows).rows.map ORow.v ∧
    srcErrorBar fc rows = (load fc rows).rows.map ORow.e := by
  rw [srcObs_eq, srcWn_eq, srcSpectrum_eq, srcErrorBar_eq]
  obtain ⟨h1, h2, h3, h4⟩ := rows_integrity fc rows
  exact ⟨h1, rfl, h2, h3, h4⟩

/-- the array the regenerated `__init__` stores is a permutation of the input array (whole rows) -/
theorem src_rows_perm (fc : Bool) (rows : List (ORow ℝ)) : srcObs fc rows ~ rows.map (encode fc) := by
  rw [srcObs_eq]
  exact (rows_integrity fc rows).1.map _

/-- **widths_attached** (4 columns), about the regenerated `binWidths`: entry `i` is `10000·bw/wl²` of stored row `i`
    itself -/
theorem src_widths_attached (rows : List (ORow ℝ)) :
    srcBinWidths true rows = (load true rows).rows.map (fun r => 10000 * r.bw / (r.wl * r.wl)) := by
  rw [srcBinWidths_eq]; exact widths_attached rows

/-- **perm_invariant**, about the regenerated `ArraySpectrum.__init__`: any two orders of the same rows (distinct
    wavelengths) leave the same four attributes behind -/
theorem src_perm_invariant (fc : Bool) (rows₁ rows₂ : List (ORow ℝ)) (hp : rows₁ ~ rows₂)
    (hd : (rows₁.map ORow.wl).Nodup) : srcInit fc rows₁ = srcInit fc rows₂ := by
  rw [srcInit_eq, srcInit_eq, perm_invariant fc rows₁ rows₂ hp hd]

/-- … hence the same public properties and the same binner -/
theorem src_perm_invariant_public (fc : Bool) (rows₁ rows₂ : List (ORow ℝ)) (hp : rows₁ ~ rows₂)
    (hd : (rows₁.map ORow.wl).Nodup) :
    srcWn fc rows₁ = srcWn fc rows₂ ∧ srcSpectrum fc rows₁ = srcSpectrum fc rows₂ ∧
    srcErrorBar fc rows₁ = srcErrorBar fc rows₂ ∧ srcBinWidths fc rows₁ = srcBinWidths fc rows₂ ∧
    srcBinEdges fc rows₁ = srcBinEdges fc rows₂ ∧ srcBinner fc rows₁ = srcBinner fc rows₂ := by
  simp only [srcWn, srcSpectrum, srcErrorBar, srcBinWidths, srcBinEdges, srcBinner,
    src_perm_invariant fc rows₁ rows₂ hp hd, and_self]

/-- **wn_ascending**, about the regenerated `wavenumberGrid`: strictly ascending (distinct positive wavelengths) -/
theorem src_wn_ascending (fc : Bool) (rows : List (ORow ℝ)) (hd : (rows.map ORow.wl).Nodup)
    (hpos : ∀ r ∈ rows, 0 < r.wl) : (srcWn fc rows).Pairwise (· < ·) := by
  rw [srcWn_eq]; exact wn_ascending fc rows hd hpos

/-- **edges_consistent** (4 columns), about the regenerated `_bin_edges` / `binEdges`: row by row in the stored order
    `wl + bw/2`, `wl - bw/2`; `binEdges` is `10000/` that -/
theorem src_edges_consistent (rows : List (ORow ℝ)) :
    srcEdgesWl true rows = (load true rows).rows.flatMap (fun r => [r.wl + r.bw / 2, r.wl - r.bw / 2]) ∧
    srcBinEdges true rows =
      (load true rows).rows.flatMap (fun r => [10000 / (r.wl + r.bw / 2), 10000 / (r.wl - r.bw / 2)]) := by
  rw [srcEdgesWl_eq, srcBinEdges_eq]; exact edges_consistent rows

/-- **edges_consistent** (3 columns), about the regenerated `_bin_widths` / `_bin_edges`: widths are the absolute
    differences of consecutive edges, the edges the mid-point edges of the stored wavelengths, one more edge than rows -/
theorem src_edges_consistent3 (rows : List (ORow ℝ)) (h : 1 ≤ rows.length) :
    srcBw false rows = (diffs (srcEdgesWl false rows)).map absv ∧
    srcEdgesWl false rows = (computeBinEdges ((load false rows).rows.map ORow.wl)).1 ∧
    (srcEdgesWl false rows).length = rows.length + 1 ∧ (srcBw false rows).length = rows.length := by
  rw [srcBw_eq, srcEdgesWl_eq]; exact edges_consistent3 rows h

/-- **binner_aligned**, about the regenerated `create_binner` / `bin_model`: the binner holds exactly the observation's
    centres and widths in the observation's order, so output index `i` of `bin_model` is the bin of observation `i` -/
theorem src_binner_aligned (fc : Bool) (rows : List (ORow ℝ)) (hd : (rows.map ORow.wl).Nodup)
    (hpos : ∀ r ∈ rows, 0 < r.wl) (hlen : 1 ≤ rows.length) (native : List (Row ℝ)) :
    (srcBinner fc rows).1 = srcWn fc rows ∧
    (srcBinner fc rows).2 = srcBinWidths fc rows ∧
    srcBinModel fc rows native =
      (List.zipWith (fun c w => ({ c := c, w := w } : TBin ℝ)) (srcWn fc rows)
        (srcBinWidths fc rows)).map (fun t => fluxBinVal Row.s (nativeBins false native) t.lo t.hi) := by
  rw [srcBinner_eq, srcWn_eq, srcBinWidths_eq, srcBinModel_eq]
  exact binner_aligned fc rows hd hpos hlen native

/-! ### the file loaders -/

/-- the array the regenerated `TaurexSpectrum._load_from_hdf5(fn)` returns for a file whose datasets
    `Output/Spectra/instrument_wngrid / _spectrum / _noise / _wnwidth` are the columns of `file` -/
noncomputable def srcHdf5 (fn : String) (file : List (ORow ℝ)) : List (List ℝ) :=
  SrcC17.load_from_hdf5 fn (h5_Output_Spectra_instrument_wngrid := some (file.map ORow.wl))
    (h5_Output_Spectra_instrument_spectrum := some (file.map ORow.v))
    (h5_Output_Spectra_instrument_noise := some (file.map ORow.e))
    (h5_Output_Spectra_instrument_wnwidth := some (file.map ORow.bw))

theorem srcHdf5_eq (fn : String) (file : List (ORow ℝ)) :
    srcHdf5 fn file = (file.map fromTaurex).map (encode true) := src_load_from_hdf5 fn file

/-- **taurex_roundtrip**, about the regenerated `_load_from_hdf5` and the regenerated properties: the array rows built
    from a TauREx file, read back (`wavenumberGrid`; `wnwidth_to_wlwidth` of the wavelength column and the width column —
    what `__init__` stores as `_wnwidths`; `spectrum`; `errorBar`), give the stored wavenumbers, the stored wavenumber
    widths, spectrum and noise, element by element in file order (positive wavenumbers) -/
theorem src_taurex_roundtrip (fn : String) (file : List (ORow ℝ)) (hpos : ∀ r ∈ file, 0 < r.wl) :
    SrcC17.wavenumberGrid (srcHdf5 fn file) = file.map ORow.wl ∧
    SrcC17.wnwidth_to_wlwidth (SrcC17.wavelengthGrid (srcHdf5 fn file))
        ((srcHdf5 fn file).map (fun r => r.getD 3 0)) = file.map ORow.bw ∧
    SrcC17.spectrum (srcHdf5 fn file) = file.map ORow.v ∧
    SrcC17.errorBar (srcHdf5 fn file) = file.map ORow.e := by
  rw [srcHdf5_eq]
  let o : Obs ℝ := ⟨file.map fromTaurex, [], [], []⟩
  have hw := src_wavenumberGrid true o
  have hs := src_spectrum true o
  have he := src_errorBar true o
  have c3 : ((file.map fromTaurex).map (encode true)).map (fun r : List ℝ => r.getD 3 0)
      = (file.map fromTaurex).map ORow.bw := by
    simp [encode, List.map_map, Function.comp_def]
  refine ⟨?_, ?_, ?_, ?_⟩
  · rw [show (file.map fromTaurex) = o.rows from rfl, hw]
    simp only [Obs.wavenumberGrid, o, List.map_map]
    exact List.map_congr_left (fun r hr => (taurex_roundtrip r (hpos r hr)).1)
  · rw [src_wavelengthGrid, c3, src_wnwidth_to_wlwidth _ _ (Or.inl (by simp)), zipWith_map_same, List.map_map]
    exact List.map_congr_left (fun r hr => (taurex_roundtrip r (hpos r hr)).2.1)
  · rw [show (file.map fromTaurex) = o.rows from rfl, hs]
    simp [Obs.spectrum, o, List.map_map, Function.comp_def, fromTaurex]
  · rw [show (file.map fromTaurex) = o.rows from rfl, he]
    simp [Obs.errorBar, o, List.map_map, Function.comp_def, fromTaurex]

/-- the attributes `(_obs_spectrum, _bin_widths, _bin_edges, _wnwidths)` after the regenerated
    `TaurexSpectrum.__init__(fn)` -/
noncomputable def srcTaurexInit (fn : String) (file : List (ORow ℝ)) : List (List ℝ) × List ℝ × List ℝ × List ℝ :=
  SrcC17.taurexspectrum_init fn (h5_Output_Spectra_instrument_wngrid := some (file.map ORow.wl))
    (h5_Output_Spectra_instrument_spectrum := some (file.map ORow.v))
    (h5_Output_Spectra_instrument_noise := some (file.map ORow.e))
    (h5_Output_Spectra_instrument_wnwidth := some (file.map ORow.bw)) (ncols := ncols true)

/-- … are those of the regenerated `ArraySpectrum.__init__` on the converted rows -/
theorem srcTaurexInit_eq (fn : String) (file : List (ORow ℝ)) :
    srcTaurexInit fn file = srcInit true (file.map fromTaurex) := by
  unfold srcTaurexInit; rw [src_taurexspectrum_init, srcInit_eq]

/-- the loaded object's `wavenumberGrid` is a re-ordering of the stored `instrument_wngrid` (positive wavenumbers) -/
theorem src_taurex_wn_perm (fn : String) (file : List (ORow ℝ)) (hpos : ∀ r ∈ file, 0 < r.wl) :
    SrcC17.wavenumberGrid (srcTaurexInit fn file).1 ~ file.map ORow.wl := by
  rw [srcTaurexInit_eq]
  have h := srcWn_eq true (file.map fromTaurex)
  unfold srcWn at h
  rw [h, (rows_integrity true (file.map fromTaurex)).2.1]
  have hp := ((rows_integrity true (file.map fromTaurex)).1).map (fun r : ORow ℝ => 10000 / r.wl)
  refine hp.trans ?_
  rw [List.map_map]
  exact List.Perm.of_eq (List.map_congr_left (fun r hr => (taurex_roundtrip r (hpos r hr)).1))

/-- **perm_invariant** for the HDF5 loader: two files holding the same rows in any two orders (distinct positive
    wavenumbers) load to the same attributes -/
theorem src_taurex_perm_invariant (fn₁ fn₂ : String) (file₁ file₂ : List (ORow ℝ)) (hp : file₁ ~ file₂)
    (hd : (file₁.map ORow.wl).Nodup) (hpos : ∀ r ∈ file₁, 0 < r.wl) :
    srcTaurexInit fn₁ file₁ = srcTaurexInit fn₂ file₂ := by
  rw [srcTaurexInit_eq, srcTaurexInit_eq]
  refine src_perm_invariant true _ _ (hp.map _) ?_
  have e : (file₁.map fromTaurex).map ORow.wl = (file₁.map ORow.wl).map (fun x => 10000 / x) := by
    simp [List.map_map, Function.comp_def, fromTaurex]
  rw [e]
  refine List.Nodup.map_on ?_ hd
  intro x hx y hy hxy
  obtain ⟨r, hr, rfl⟩ := List.mem_map.1 hx
  obtain ⟨r', hr', rfl⟩ := List.mem_map.1 hy
  have h1 := ne_of_gt (hpos r hr)
  have h2 := ne_of_gt (hpos r' hr')
  field_simp at hxy
  linarith

/-- the attributes after the regenerated `ObservedSpectrum.__init__(fn)`; `loadtxt` stands for `np.loadtxt` -/
noncomputable def srcObservedInit (fc : Bool) (fn : String) (loadtxt : String → List (List ℝ)) :
    List (List ℝ) × List ℝ × List ℝ × List ℝ :=
  SrcC17.observedspectrum_init fn loadtxt (ncols fc)

/-- … are those of the regenerated `ArraySpectrum.__init__` on the array `np.loadtxt` returned -/
theorem srcObservedInit_eq (fc : Bool) (fn : String) (loadtxt : String → List (List ℝ)) (rows : List (ORow ℝ))
    (h : loadtxt fn = rows.map (encode fc)) : srcObservedInit fc fn loadtxt = srcInit fc rows := by
  unfold srcObservedInit; rw [src_observedspectrum_init fc fn loadtxt rows h, srcInit_eq]

/-- **perm_invariant** for the text loader: two files whose arrays hold the same rows in any two orders (distinct
    wavelengths) load to the same attributes -/
theorem src_observed_perm_invariant (fc : Bool) (fn₁ fn₂ : String) (loadtxt : String → List (List ℝ))
    (rows₁ rows₂ : List (ORow ℝ)) (h₁ : loadtxt fn₁ = rows₁.map (encode fc)) (h₂ : loadtxt fn₂ = rows₂.map (encode fc))
    (hp : rows₁ ~ rows₂) (hd : (rows₁.map ORow.wl).Nodup) :
    srcObservedInit fc fn₁ loadtxt = srcObservedInit fc fn₂ loadtxt := by
  rw [srcObservedInit_eq fc fn₁ loadtxt rows₁ h₁, srcObservedInit_eq fc fn₂ loadtxt rows₂ h₂]
  exact src_perm_invariant fc rows₁ rows₂ hp hd

end Taurex.C17SrcProps
