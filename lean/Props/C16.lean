/-
  C16 — output files hold what was computed and reload to the same model.
  Property theorems about `TaurexModel/Output.lean` (the definitions `driver_c16` executes).
  Storage theorems hold for every float payload type `α` (no arithmetic on it is used).
-/
import Proofs.C16Lemmas
import Mathlib.Analysis.Calculus.Deriv.Inv
import Mathlib.Tactic.FieldSimp
import Mathlib.Tactic.Ring
import Mathlib.Tactic.Positivity

namespace Taurex.C16
open Taurex.Output

section storage
variable {α : Type} [OfInt α]

/-- **load ∘ store = id on well-formed dictionaries.** Every scalar, array (dimension ≥ 1), string, clean
string list and nested dictionary is read back unchanged, under the same names in the same nesting:
the group written for `d` has exactly the entry names of `d` (one entry per key, in order) and decodes to `d`. -/
theorem load_store (d : List (String × Value α)) (h : WF (Value.dict d) = true) :
    ∃ ch, store (Value.dict d) = .ok (.group ch) ∧ ch.map Prod.fst = d.map Prod.fst ∧
      load (.group ch) = Value.dict d := by
  obtain ⟨ch, hc, hl, hk⟩ := storeEntries_wf d h
  exact ⟨ch, by simp [store, hc], hk, by simp [load, hl]⟩

/-- the same as an equation about `store` followed by `load` -/
theorem load_store_eq (v : Value α) (h : WF v = true) : (store v).map load = .ok v := by
  cases v <;> simp [WF] at h
  rename_i d
  obtain ⟨ch, hc, -, hl⟩ := load_store d h
  simp [hc, Except.map, hl]

example : WF (Value.dict [("T", .float (1500.0 : Float)), ("n", .int 3), ("flag", .bool true),
    ("grid", .array ⟨[2, 2], .floats [1.0, 2.0, 3.0, 4.0]⟩), ("name", .str [72, 50, 79]),
    ("gases", .list [.str [72, 50], .str [72, 101]]),
    ("sub", .dict [("mask", .array ⟨[2], .bools [true, false]⟩), ("idx", .array ⟨[1], .ints [7]⟩)])]) = true := by
  rfl

/-- **lists and tuples:** a dictionary whose lists/tuples are homogeneous (numpy builds one numeric array from
them) or clean string sequences is stored one entry per key, under the same names, and is read back as its
canonical form `canon`: tuple ↦ list, numeric list ↦ the ndarray of the same numbers and shape, 0-d array ↦
scalar; everything else unchanged. -/
theorem load_store_canon (d : List (String × Value α)) (h : regEntries d = true) :
    ∃ ch, store (Value.dict d) = .ok (.group ch) ∧ ch.map Prod.fst = d.map Prod.fst ∧
      load (.group ch) = canon (Value.dict d) := by
  obtain ⟨ch, hc, hl, hk⟩ := storeEntries_reg d h
  exact ⟨ch, by simp [store, hc], hk, by simp [load, hl, canon]⟩

/-- **a flat numeric list / tuple is read back as the 1-D array of the same numbers** (same length, same order,
same dtype) -/
theorem numeric_list_same_numbers (k k' : String) (l : List Int) (h : l ≠ []) (x : List α) (hx : x ≠ []) :
    (store (Value.dict [(k, .list (l.map .int)), (k', .tuple (x.map .float))] : Value α)).map load =
      .ok (Value.dict [(k, .array ⟨[l.length], .ints l⟩), (k', .array ⟨[x.length], .floats x⟩)]) := by
  simp [store, storeEntries, storeThing_int_list k l h, storeThing_float_tuple k' x hx, Except.map, load,
    loadEntries]

/-- on well-formed dictionaries the canonical form is the dictionary itself -/
theorem canon_wf (v : Value α) (h : WF v = true) : canon v = v := by
  cases v <;> simp [WF] at h
  rename_i d
  simp [canon, canonEntries_of_wf d h]

example : regEntries [("a", Value.list [.int 1, .int 2, .bool true]), ("b", .tuple [.str [72], .str [101]]),
    ("c", .list [.list [.int 1, .int 2], .tuple [.int 3, .int 4]]), ("z", .array (⟨[], .ints [5]⟩ : Arr Float))] = true := by
  rfl
example : canon (Value.dict [("a", Value.list [.int 1, .int 2, .bool true]), ("b", .tuple [.str [72], .str [101]]),
    ("c", .list [.list [.int 1, .int 2], .tuple [.int 3, .int 4]]), ("z", .array (⟨[], .ints [5]⟩ : Arr Float))]) =
    Value.dict [("a", .array ⟨[3], .ints [1, 2, 1]⟩), ("b", .list [.str [72], .str [101]]),
      ("c", .array ⟨[2, 2], .ints [1, 2, 3, 4]⟩), ("z", .int 5)] := by
  rfl

/-- **exactly the unsupported inputs raise.** `store` fails iff its argument is not a dictionary, or the
traversal of `store_thing` reaches an unsupported type (`None`, `np.float32`, …) or a string list with a
non-string element. -/
theorem store_error_iff (v : Value α) :
    (∃ e, store v = .error e) ↔ ¬ (isDict v = true ∧ supported v = true) := by
  cases v <;> try (simp [store, isDict]; done)
  rename_i d
  have h := storeEntries_ok_iff d
  unfold IsOk at h
  cases hd : storeEntries d with
  | ok ch =>
    rw [hd] at h
    have : supportedEntries d = true := h.1 ⟨ch, rfl⟩
    simp [store, hd, isDict, supported, this]
  | error e =>
    rw [hd] at h
    have : ¬ supportedEntries d = true := fun hs => by
      obtain ⟨x, hx⟩ := h.2 hs
      cases hx
    simp [store, hd, isDict, supported, this]

example : (∃ e, store (Value.dict [("a", .float (1.0 : Float)), ("b", .list [.float 2.0, .unsupported])]) = .error e) :=
  ⟨.unsupported, rfl⟩
example : supported (Value.dict [("a", .list [.array ⟨[2], .floats [(1.0 : Float), 2.0]⟩, .array ⟨[1], .floats [3.0]⟩])]) = true := by
  rfl

/-- **a list of differently shaped arrays is stored element by element** (regression of the ragged-list
defect): `key ↦ [a₀, a₁, …]` with unequal shapes creates exactly `key0 ↦ a₀, key1 ↦ a₁, …`. -/
theorem store_ragged_arrays (k : String) (as : List (Arr α)) (h : stack as = none) :
    storeThing k (Value.list (as.map Value.array)) = .ok (expandArrays k 0 as) := by
  unfold storeThing
  rw [if_neg (by rw [any_isStr_arrays]; simp), toNdList_arrays]
  simp [h, storeSeq_arrays]

example : stack [(⟨[2], .floats [(1.0 : Float), 2.0]⟩ : Arr Float), ⟨[3], .floats [1.0, 2.0, 3.0]⟩] = none := by
  rfl

omit [OfInt α] in
/-- `HDF5OutputGroup.write_array(name, [a₀, a₁, …])` writes `name0 ↦ a₀, name1 ↦ a₁, …` -/
theorem writeArray_list (k : String) (as : List (Arr α)) :
    writeArray k (Value.list (as.map Value.array)) = some (expandArrays k 0 as) := by
  simp [writeArray, writeArray_go_arrays]

/-- **string arrays of any length and alphabet are read back unchanged** (the former defect K3: ASCII-only
'S64' cells). The only remaining restriction is the one `WF` states: an element must not end in U+0000,
because a fixed-width cell does not return trailing NUL bytes — and that restriction is necessary. -/
theorem string_array_faithful (k : String) (strs : List (List Nat)) (hne : strs ≠ [])
    (hc : ∀ s ∈ strs, cleanStr s = true) :
    (store (Value.dict [(k, .list (strs.map .str))] : Value α)).map load =
      .ok (Value.dict [(k, .list (strs.map .str))]) := by
  apply load_store_eq
  simp only [WF, wfEntries, wfVal, Bool.and_true, Bool.and_eq_true, Bool.not_eq_true']
  constructor
  · cases strs with
    | nil => exact absurd rfl hne
    | cons a as => rfl
  · rw [List.all_eq_true]
    intro v hv
    obtain ⟨s, hs, rfl⟩ := List.mem_map.1 hv
    exact hc s hs

theorem string_array_trailing_nul_dropped :
    (store (Value.dict [("k", .list [.str [65, 0]])] : Value α)).map load = .ok (Value.dict [("k", .list [.str [65]])]) := by
  rfl

example : ∀ s ∈ [List.replicate 65 65, [84, 95, 233, 113], []], cleanStr s = true := by decide

/-- **a component written with all its constructor keywords reloads with the same keyword values.**
`entries` is what `write()` stores besides the type string; `ctorKw` are the keyword arguments of the
constructor (`get_klass_args`). Every keyword that was written (with a well-formed value) is passed back
with its value, in constructor order; the class name is the one written. -/
theorem reload_same_kwargs (typeKey : String) (klass : List Nat) (entries : List (String × Value α))
    (ctorKw : List String) (hwf : wfEntries entries = true) (hk : ∀ kw ∈ ctorKw, kw ≠ typeKey) :
    reloadComponent typeKey ctorKw (writeComponent typeKey klass entries) =
      .ok (some (.str klass), ctorKw.filterMap (fun kw => (entries.lookup kw).map (fun v => (kw, v)))) := by
  have hwf' : wfEntries ((typeKey, Value.str klass) :: entries) = true := by simp [wfEntries, wfVal, hwf]
  obtain ⟨ch, hc, hl, -⟩ := storeEntries_wf _ hwf'
  unfold reloadComponent writeComponent store
  simp only [hc]
  rw [loadKwargs_eq, hl]
  have h1 : (ch.lookup typeKey).map load = some (.str klass) := by
    rw [← lookup_loadEntries, hl]; simp
  rw [h1]
  congr 2
  apply List.filterMap_congr
  intro kw hkw
  have : (kw == typeKey) = false := by simpa using hk kw hkw
  simp [List.lookup_cons, this]

/-- **a constructor keyword that `write()` omits is not passed on reload** (the constructor default is
used: the defect class "write omits a constructor argument"). -/
theorem reload_omitted_kwarg (typeKey : String) (klass : List Nat) (entries : List (String × Value α))
    (ctorKw : List String) (hwf : wfEntries entries = true) (hk : ∀ kw ∈ ctorKw, kw ≠ typeKey)
    (kw : String) (hom : entries.lookup kw = none) :
    ∀ c kws, reloadComponent typeKey ctorKw (writeComponent typeKey klass entries) = .ok (c, kws) →
      kw ∉ kws.map Prod.fst := by
  intro c kws h
  rw [reload_same_kwargs typeKey klass entries ctorKw hwf hk] at h
  cases h
  intro hm
  simp only [List.mem_map, List.mem_filterMap] at hm
  obtain ⟨⟨k', v⟩, ⟨a, _, ha⟩, rfl⟩ := hm
  cases hl : entries.lookup a with
  | none => simp [hl] at ha
  | some w =>
    simp [hl] at ha
    obtain ⟨rfl, rfl⟩ := ha
    simp [hom] at hl

example : reloadComponent "temperature_type" ["T_irr", "kappa_irr", "T_int"]
    (writeComponent "temperature_type" [71] [("T_irr", .float (1500.0 : Float)), ("kappa_irr", .float 0.01)]) =
    .ok (some (.str [71]), [("T_irr", .float 1500.0), ("kappa_irr", .float 0.01)]) := by
  rfl

end storage

section spectrum
variable {α : Type} [Add α] [Sub α] [Mul α] [Div α] [Neg α] [LT α] [DecidableLT α]
  [OfNat α 0] [OfNat α 2] [OfNat α 10000]
variable (grid width : List α) (bd : List α → List α → List α)
  (bdTau : List α → List (List α) → List (List α)) (size : Nat) (wn flux : List α) (tau : List (List α))

/-- **optical depths are present according to the requested output size** (FluxBinner, SimpleBinner):
`binned_tau` ⇔ size > lighter, `native_tau` ⇔ size > light. -/
theorem tau_keys (kind : BinnerKind) (hk : kind ≠ .native) :
    ("binned_tau" ∈ keysOf (spectrumOutput kind grid width bd bdTau size wn flux tau) ↔ size > sizeLighter) ∧
    ("native_tau" ∈ keysOf (spectrumOutput kind grid width bd bdTau size wn flux tau) ↔ size > sizeLight) := by
  have h13 : sizeLighter = 1 := rfl
  have h3 : sizeLight = 3 := rfl
  cases kind <;> simp at hk <;>
  · simp only [spectrumOutput, baseOutput, keysOf, h13, h3]
    by_cases h1 : size > 1 <;> by_cases h2 : size > 3 <;> simp [h1, h2] <;> omega

/-- NativeBinner: no binned optical depth, `native_tau` ⇔ size > light -/
theorem tau_keys_native :
    "binned_tau" ∉ keysOf (spectrumOutput .native grid width bd bdTau size wn flux tau) ∧
    ("native_tau" ∈ keysOf (spectrumOutput .native grid width bd bdTau size wn flux tau) ↔ size > sizeLight) := by
  have h3 : sizeLight = 3 := rfl
  simp only [spectrumOutput, keysOf, h3]
  by_cases h2 : size > 3 <;> simp [h2]

example : sizeHeavy > sizeLight ∧ sizeLight > sizeLighter ∧ ¬ sizeLighter > sizeLighter := by decide

/-- **stored wavelength grids are 10000/wavenumber** (native grid of every binner, binned grid of the binning
binners) -/
theorem wl_of_wn (kind : BinnerKind) :
    let out := spectrumOutput kind grid width bd bdTau size wn flux tau
    out.lookup "native_wngrid" = some (.vec wn) ∧
    out.lookup "native_wlgrid" = some (.vec (wn.map (fun x => 10000 / x))) ∧
    (kind ≠ .native → out.lookup "binned_wngrid" = some (.vec grid) ∧
      out.lookup "binned_wlgrid" = some (.vec (grid.map (fun x => 10000 / x)))) := by
  cases kind <;> simp [spectrumOutput, baseOutput, wlOfWn, List.lookup] <;>
    (split <;> try split) <;> simp [List.lookup]

/-- **binned wavelength widths are the wavenumber widths of the same bins converted at the bin centre:**
`binned_wlwidth[i] = 10000·binned_wnwidth[i] / binned_wngrid[i]²`, where `binned_wngrid`, `binned_wnwidth` are
the binner's own bin centres and widths. -/
theorem wlwidth_formula (kind : BinnerKind) (hk : kind ≠ .native) :
    let out := spectrumOutput kind grid width bd bdTau size wn flux tau
    out.lookup "binned_wngrid" = some (.vec grid) ∧ out.lookup "binned_wnwidth" = some (.vec width) ∧
    out.lookup "binned_wlwidth" = some (.vec (List.zipWith (fun g w => 10000 * w / (g * g)) grid width)) := by
  have hz : wnwidthToWlwidth grid width = List.zipWith (fun g w => 10000 * w / (g * g)) grid width := rfl
  cases kind <;> simp at hk <;>
  · simp [spectrumOutput, baseOutput, List.lookup, hz]
    (split <;> try split) <;> simp [List.lookup]

/-- **the stored binned spectrum is the binner applied to the stored native spectrum** (and, when present,
the binned optical depth is the binner applied to the optical depth) -/
theorem binned_is_bindown (kind : BinnerKind) (hk : kind ≠ .native) :
    let out := spectrumOutput kind grid width bd bdTau size wn flux tau
    out.lookup "native_wngrid" = some (.vec wn) ∧ out.lookup "native_spectrum" = some (.vec flux) ∧
    out.lookup "binned_spectrum" = some (.vec (bd wn flux)) ∧
    (size > sizeLighter → out.lookup "binned_tau" = some (.mat (bdTau wn tau))) ∧
    (size > sizeLight → out.lookup "native_tau" = some (.mat tau)) := by
  have h13 : sizeLighter = 1 := rfl
  have h3 : sizeLight = 3 := rfl
  cases kind <;> simp at hk <;>
  · simp only [spectrumOutput, baseOutput, h13, h3]
    by_cases h1 : size > 1 <;> by_cases h2 : size > 3 <;> simp [h1, h2, List.lookup] <;> omega

end spectrum

section real

/-- over ℝ the wavelength/wavenumber conversion is its own inverse on non-zero grids -/
theorem wlOfWn_involutive (wn : List ℝ) (h : ∀ x ∈ wn, x ≠ 0) : wlOfWn (wlOfWn wn) = wn := by
  unfold wlOfWn
  rw [List.map_map]
  conv_rhs => rw [← List.map_id wn]
  apply List.map_congr_left
  intro x hx
  have := h x hx
  simp only [Function.comp, id]
  field_simp

/-- "converted at the bin centre": `10000·w/wn²` is the wavenumber width times the local rate of change
`|d(10000/ν)/dν|` at the bin centre `ν = wn` -/
theorem wlwidth_is_centre_conversion (wn w : ℝ) (h : wn ≠ 0) :
    wlwidthAt wn w = w * |deriv (fun x : ℝ => 10000 / x) wn| := by
  have hd : deriv (fun x : ℝ => 10000 / x) wn = -(10000 / wn ^ 2) := by
    have := (hasDerivAt_inv h).const_mul (10000 : ℝ)
    have e : (fun x : ℝ => 10000 / x) = fun x => 10000 * x⁻¹ := by funext x; rw [div_eq_mul_inv]
    rw [e, this.deriv]; ring
  rw [hd, abs_neg, abs_of_nonneg (by positivity)]
  unfold wlwidthAt
  rw [pow_two]; ring

/-- it never exceeds, and for narrow bins equals to second order, the exact wavelength extent of the bin
`[wn - w/2, wn + w/2]`: `10000/(wn-w/2) - 10000/(wn+w/2) = wlwidthAt wn w · wn²/(wn² - w²/4)` -/
theorem wlwidth_vs_exact (wn w : ℝ) (hw : 0 ≤ w) (h : w / 2 < wn) :
    10000 / (wn - w / 2) - 10000 / (wn + w / 2) = wlwidthAt wn w * (wn ^ 2 / (wn ^ 2 - w ^ 2 / 4)) ∧
    wlwidthAt wn w ≤ 10000 / (wn - w / 2) - 10000 / (wn + w / 2) := by
  have h1 : 0 < wn - w / 2 := by linarith
  have h2 : 0 < wn + w / 2 := by linarith
  have h3 : 0 < wn := by linarith
  have h4 : 0 < wn ^ 2 - w ^ 2 / 4 := by nlinarith
  have e : 10000 / (wn - w / 2) - 10000 / (wn + w / 2) = wlwidthAt wn w * (wn ^ 2 / (wn ^ 2 - w ^ 2 / 4)) := by
    unfold wlwidthAt
    have : wn ^ 2 - w ^ 2 / 4 = (wn - w / 2) * (wn + w / 2) := by ring
    have hp1 : 0 < (wn - w / 2) * (wn + w / 2) := mul_pos h1 h2
    have hp2 : 0 < wn * wn * ((wn - w / 2) * (wn + w / 2)) := by positivity
    rw [this, div_sub_div _ _ h1.ne' h2.ne', div_mul_div_comm, div_eq_div_iff hp1.ne' hp2.ne']
    ring
  refine ⟨e, ?_⟩
  rw [e]
  have hq : 1 ≤ wn ^ 2 / (wn ^ 2 - w ^ 2 / 4) := by
    rw [le_div_iff₀ h4]; nlinarith [sq_nonneg w]
  have hp : 0 ≤ wlwidthAt wn w := by unfold wlwidthAt; positivity
  nlinarith

example : (2 : ℝ) / 2 < 10 ∧ (0 : ℝ) ≤ 2 := by norm_num

end real

end Taurex.C16
