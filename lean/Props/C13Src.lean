/-
  C13 — source tie.  `TaurexModel/Gen/SrcC13.lean` is regenerated on every run by the list dialect of the source translator
  (`harness/translate_list.py`) from the source text of taurex/util/util.py and taurex/opacity/opacity.py.  The theorems
  below state that each regenerated definition computes the hand-written model function of `TaurexModel/Grid.lean` that
  the C13 theorems are about and that `driver_c13` executes.  numpy's primitives are the definitions of
  `TaurexModel/Gen/Prelude.lean`; helper lemmas in `Proofs/C05SrcNp.lean`, `Proofs/C13SrcNp.lean`.
-/
import TaurexModel.Gen.SrcC13
import TaurexModel.Grid
import Proofs.C05SrcNp
import Proofs.C13SrcNp
import TaurexModel.NpInterp
import Proofs.C13SrcReal
set_option linter.unusedSectionVars false
set_option linter.unusedSimpArgs false

namespace Taurex.C13Src
open Taurex.Binning Taurex.Grid Taurex.Gen

section
variable {α : Type} [Add α] [Sub α] [Mul α] [Div α] [Neg α] [LT α] [LE α]
  [DecidableLT α] [DecidableLE α] [Taurex.Transc α] [OfNat α 0] [OfNat α 1] [OfNat α 2] [OfNat α 4] [OfNat α 5]

/-- `compute_bin_edges` (the same source function as in C05) is `computeBinEdges` -/
theorem src_compute_bin_edges (g : List α) : SrcC13.compute_bin_edges g = computeBinEdges g := by
  simp only [SrcC13.compute_bin_edges, Np.midEdges_eq]
  simp only [Np.diff_eq]
  rfl

/-- **`clip_native_to_wngrid(native_grid, wngrid)`** is `clipNative`: the boolean mask
    `(native >= wn_min) & (native <= wn_max)` selects exactly `native.filter (inClip wngrid)`, with
    `wn_min/max = wngrid.min()/max() ∓ 1.25*compute_bin_edges(wngrid)[-1].max()`; the float literal `1.25` of the
    source is the parameter `c1p25`, instantiated with the model's `5/4`.  Every carrier. -/
theorem src_clip_native (native wngrid : List α) :
    SrcC13.clip_native_to_wngrid native wngrid (c1p25 := 5 / 4) = clipNative native wngrid := by
  simp only [SrcC13.clip_native_to_wngrid, src_compute_bin_edges, Np.zip2_map_map, Np.compress_map]
  rfl

set_option hygiene false in
/-- the common proof of the two `opacity` ties (`Opacity.opacity`, `KTable.opacity`: the same selection logic, a different
    interpolation call; the names are those of the theorem statements): unfold the regenerated definition `d`, turn masks / `np.where` / `take` / `np.arange` into the
    model's `filter` / `drop` / `take`, then follow the outcome of the first `np.array_equal` test -/
local macro "opacity_tie" d:ident : tactic => `(tactic| (
  have hpos : 0 < nativeWn.length := List.length_pos_iff.2 hne
  have hmask : ∀ (x : α), (decide (Np.amin 0 req ≤ x) && decide (x ≤ Np.amax 0 req)) = inRange req x := fun _ => rfl
  have hsl : ∀ (l : List α) (v : α), Np.searchsortedLeft l v = Interp.searchLeft l v := fun _ _ => rfl
  have hsr : ∀ (l : List α) (v : α), Np.searchsortedRight l v = Interp.searchRight l v := fun _ _ => rfl
  have hmin : Np.amin 0 req = minL req := rfl
  have hmax : Np.amax 0 req = maxL req := rfl
  simp only [$d:ident, Np.zip2_map_map, hmask]
  simp only [Np.arrayEqual_eq, hsl, hsr, hmin, hmax, Nat.max_zero]
  have hF : Np.take 0 nativeWn (Np.where_ (List.map (fun x => inRange req x) nativeWn))
      = nativeWn.filter (inRange req) := by
    rw [Np.take_where 0 _ nativeWn (by simp), Np.compress_map]
  have hV : Np.take 0 vals (Np.where_ (List.map (fun x => inRange req x) nativeWn))
      = ((nativeWn.zip vals).filter (fun p => inRange req p.1)).map (·.2) := by
    rw [Np.take_where 0 _ vals (by simp; omega), Np.compress_zip]
  simp only [opacityOnGrid, Np.filter_zip_fst (inRange req) nativeWn vals (by omega)]
  cases h1 : eqL (nativeWn.filter (inRange req)) req
  · have hb := h2 h1
    simp only [bracketEq] at hb
    have hk : ∀ (l : List α), l.length = nativeWn.length →
        Np.take 0 l (List.range' (Interp.searchRight nativeWn (minL req) - 1)
          (min (Interp.searchLeft nativeWn (maxL req)) (nativeWn.length - 1) + 1 - (Interp.searchRight nativeWn (minL req) - 1)))
        = (l.drop (Interp.searchRight nativeWn (minL req) - 1)).take
          (min (Interp.searchLeft nativeWn (maxL req)) (nativeWn.length - 1) + 1 - (Interp.searchRight nativeWn (minL req) - 1)) := by
      intro l hl
      by_cases hle : Interp.searchRight nativeWn (minL req) - 1 ≤ min (Interp.searchLeft nativeWn (maxL req)) (nativeWn.length - 1) + 1
      · exact Np.take_range' 0 l _ _ (by omega)
      · have : min (Interp.searchLeft nativeWn (maxL req)) (nativeWn.length - 1) + 1 - (Interp.searchRight nativeWn (minL req) - 1) = 0 := by omega
        rw [this]; simp [Np.take]
    simp only [hF, h1, Bool.not_false, if_true, hk nativeWn rfl, hk vals hlen, hb, Bool.false_eq_true, if_false]
  · simp only [hF, hV, h1, Bool.not_true, Bool.false_eq_true, if_false, if_true]
))

/-- **`Opacity.opacity(T, P, wngrid=req)`** is `opacityOnGrid`, for every carrier.  The externals are instantiated with what
    the model assumes of them: `compute_opacity(T, P, idx)` returns the native values `vals` at the indices `idx`
    (point-wise in wavenumber: C04), `np.interp` is `NpInterp.npInterp`.  Guards: `vals` has one value per native point and
    the native grid is not empty (the code raises otherwise).  `h2`: the code tests `np.array_equal` a second time, on the
    bracketing index range, where the model re-uses the outcome of the first test; on a strictly increasing native grid
    the two tests agree (`second_test_agrees`, over ℝ). -/
theorem src_opacity_on_grid (nativeWn vals req : List α) (hlen : vals.length = nativeWn.length) (hne : nativeWn ≠ [])
    (h2 : eqL (nativeWn.filter (inRange req)) req = false → bracketEq nativeWn req = false) :
    SrcC13.opacity_on_grid req (fun idx => Np.take 0 vals idx) (fun x xp fp => NpInterp.npInterp xp fp x) nativeWn
      = opacityOnGrid nativeWn vals req := by
  opacity_tie SrcC13.opacity_on_grid


/-- **`KTable.opacity(T, P, wngrid=req)`**, one g-point column: the same selection of native points as `Opacity.opacity`,
    then scipy's `interp1d(x, y, axis=0, bounds_error=False, fill_value=(y[0], y[-1]), assume_sorted=True)`, instantiated
    with what the model assumes of it: linear interpolation with clamped ends, i.e. `npInterp` mapped over the request
    (the harness validates this numerically against the real scipy). -/
theorem src_ktable_opacity_on_grid (nativeWn vals req : List α) (hlen : vals.length = nativeWn.length)
    (hne : nativeWn ≠ [])
    (h2 : eqL (nativeWn.filter (inRange req)) req = false → bracketEq nativeWn req = false) :
    SrcC13.ktable_opacity_on_grid req (fun idx => Np.take 0 vals idx)
        (fun xp fp _ _ _ _ _ r => r.map (NpInterp.npInterp xp fp)) nativeWn
      = opacityOnGrid nativeWn vals req := by
  opacity_tie SrcC13.ktable_opacity_on_grid

end

/-- **`Opacity.opacity` over ℝ, unconditionally**: on a strictly increasing native grid and a non-empty request the second
    `np.array_equal` test agrees with the first (`second_test_agrees`, Proofs/C13SrcReal.lean), so the regenerated function
    is the model `opacityOnGrid` that `own_grid_identity` / `other_grid_between` (Props/C13.lean) are about. -/
theorem src_opacity_on_grid_real (nativeWn vals req : List ℝ) (hlen : vals.length = nativeWn.length)
    (hs : nativeWn.Pairwise (· < ·)) (hne : nativeWn ≠ []) (hreq : req ≠ []) :
    SrcC13.opacity_on_grid req (fun idx => Np.take 0 vals idx) (fun x xp fp => NpInterp.npInterp xp fp x) nativeWn
      = opacityOnGrid nativeWn vals req :=
  src_opacity_on_grid nativeWn vals req hlen hne (second_test_agrees nativeWn req hs hreq)

/-- `KTable.opacity` over ℝ, unconditionally (strictly increasing native grid, non-empty request) -/
theorem src_ktable_opacity_on_grid_real (nativeWn vals req : List ℝ) (hlen : vals.length = nativeWn.length)
    (hs : nativeWn.Pairwise (· < ·)) (hne : nativeWn ≠ []) (hreq : req ≠ []) :
    SrcC13.ktable_opacity_on_grid req (fun idx => Np.take 0 vals idx)
        (fun xp fp _ _ _ _ _ r => r.map (NpInterp.npInterp xp fp)) nativeWn
      = opacityOnGrid nativeWn vals req :=
  src_ktable_opacity_on_grid nativeWn vals req hlen hne (second_test_agrees nativeWn req hs hreq)

end Taurex.C13Src
