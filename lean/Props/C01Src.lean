/-
  C01 — source tie.  `TaurexModel/Gen/SrcC01.lean` is regenerated on every run by `harness/translate.py` (dialect
  `shaped`, harness/translate_shaped.py) from the source text of
      taurex/contributions/contribution.py   contribute_tau, Contribution.contribute
      taurex/contributions/cia.py            contribute_cia, CIAContribution.contribute
      taurex/contributions/simpleclouds.py   SimpleCloudsContribution.contribute
      taurex/model/transmission.py           compute_path_length_old, compute_path_length, compute_absorption,
                                             path_integral
      taurex/util/geometry.py                parallel_vector
  The theorems below state, for EVERY carrier (no algebra is used: only the shape of the loops is reasoned about, by
  induction), that each regenerated definition computes the hand-written model function of
  `TaurexModel/Transmission.lean` that the C01 theorems are about and that `driver_c01` executes.  A source change that
  alters one of these functions makes the corresponding theorem fail to check.

  Form of the statements.  The kernels mutate the table `tau[layer, wn]` in place; the generated definition returns the
  whole new table.  `src_contribute_tau` & co. give it in closed form (row `layer`, columns `< ngrid` receive the
  accumulated sum, everything else is untouched); the `_call` theorems instantiate the arguments with what
  `path_integral` passes (`startK = 0`, `endK = nLayers - layer`, `density_offset = layer`) and identify the new row with
  `addContrib`.  `src_path_integral*` is the whole method: the loop over the layers, the loop over the contribution list
  with its `tau[layer].min() > 10` break, `compute_absorption`; Python's dynamic dispatch `contrib.contribute(…)` is
  supplied as `dispatch` (the three translated `contribute` methods, selected by the model's `Kind`).
-/
import TaurexModel.Gen.SrcC01
import TaurexModel.Transmission
import TaurexModel.Geometry
import Proofs.C01SrcLemmas
set_option linter.unusedSectionVars false

namespace Taurex.C01Src
open Taurex.Transmission

section
variable {α : Type} [Add α] [Sub α] [Mul α] [Div α] [Neg α] [LT α] [LE α]
  [DecidableLT α] [DecidableLE α] [OfNat α 0] [OfNat α 1] [OfNat α 2] [OfNat α 10] [Transc α]

/-! ### the optical-depth kernels -/

/-- `contribute_tau` (both loops): row `layer`, columns below `ngrid`, receive
    `Σ_{k = startK}^{endK-1} sigma[k+layer, wn] * path[k] * density[k+density_offset]` added in that order; every other
    entry of `tau` is untouched -/
theorem src_contribute_tau (s e off : Nat) (sigma : Nat → Nat → α) (dens path : Nat → α) (ngrid l : Nat)
    (tau : Nat → Nat → α) :
    Gen.SrcC01.contribute_tau s e off sigma dens path ngrid l tau
      = fun i j => if i = l ∧ j < ngrid then
          (List.range' s (e - s)).foldl (fun acc k => acc + sigma (k + l) j * path k * dens (k + off)) (tau l j)
        else tau i j :=
  fold_kernel l ngrid s (e - s) (fun k wn => sigma (k + l) wn * path k * dens (k + off)) tau

/-- `contribute_cia`: the same with the density squared -/
theorem src_contribute_cia (s e off : Nat) (sigma : Nat → Nat → α) (dens path : Nat → α) (ngrid l : Nat)
    (tau : Nat → Nat → α) :
    Gen.SrcC01.contribute_cia s e off sigma dens path ngrid l tau
      = fun i j => if i = l ∧ j < ngrid then
          (List.range' s (e - s)).foldl
            (fun acc k => acc + sigma (k + l) j * path k * dens (k + off) * dens (k + off)) (tau l j)
        else tau i j :=
  fold_kernel l ngrid s (e - s) (fun k wn => sigma (k + l) wn * path k * dens (k + off) * dens (k + off)) tau

/-- `Contribution.contribute` hands `self.sigma_xsec`, `self._ngrid` to `contribute_tau` -/
theorem src_contribution_contribute (s e off l : Nat) (dens path : Nat → α) (tau sigma : Nat → Nat → α) (ngrid : Nat) :
    Gen.SrcC01.contribution_contribute s e off l dens tau path ngrid sigma
      = Gen.SrcC01.contribute_tau s e off sigma dens path ngrid l tau := rfl

/-- `CIAContribution.contribute` with at least one pair (`self._total_cia > 0`) runs `contribute_cia`; with no pair it
    leaves `tau` alone (its `sigma_xsec` is then identically zero) -/
theorem src_cia_contribute (s e off l : Nat) (dens path : Nat → α) (tau sigma : Nat → Nat → α) (ngrid total : Nat) :
    Gen.SrcC01.cia_contribute s e off l dens tau path ngrid sigma total
      = if 0 < total then Gen.SrcC01.contribute_cia s e off sigma dens path ngrid l tau else tau := by
  unfold Gen.SrcC01.cia_contribute
  by_cases h : 0 < total <;> simp [h]

/-- the kernel as `path_integral` calls it, for a prepared contribution of kind `lin`: the new row is `addContrib` -/
theorem src_contribute_tau_call (n l ngrid : Nat) (sigma : Nat → Nat → α) (dens path : Nat → α) (tau : Nat → Nat → α) :
    Gen.SrcC01.contribute_tau 0 (n - l) l sigma dens path ngrid l tau
      = fun i j => if i = l ∧ j < ngrid then addContrib ⟨.lin, sigma⟩ n path dens l (tau l) j else tau i j := by
  rw [src_contribute_tau]
  simp only [addContrib, accFrom, nTerms, term, Nat.sub_zero, List.range_eq_range']

theorem src_contribute_cia_call (n l ngrid : Nat) (sigma : Nat → Nat → α) (dens path : Nat → α) (tau : Nat → Nat → α) :
    Gen.SrcC01.contribute_cia 0 (n - l) l sigma dens path ngrid l tau
      = fun i j => if i = l ∧ j < ngrid then addContrib ⟨.sq, sigma⟩ n path dens l (tau l) j else tau i j := by
  rw [src_contribute_cia]
  simp only [addContrib, accFrom, nTerms, term, Nat.sub_zero, List.range_eq_range']

/-- `SimpleCloudsContribution.contribute`: `tau[layer] += self.sigma_xsec[layer, :]` — kind `layerOnly` (the whole row) -/
theorem src_clouds_contribute (n l nL nW : Nat) (sigma : Nat → Nat → α) (dens path : Nat → α) (tau : Nat → Nat → α) :
    Gen.SrcC01.clouds_contribute l tau nL nW sigma
      = fun i j => if i = l then addContrib ⟨.layerOnly, sigma⟩ n path dens l (tau l) j else tau i j := rfl

/-! ### transit depth and chord lengths -/

/-- `compute_absorption(tau, dz)`: the pair (`depth` per wavenumber, `exp(-tau)`) -/
theorem src_compute_absorption (n nW : Nat) (rp rs : α) (z dz : Nat → α) (tau : Nat → Nat → α) :
    Gen.SrcC01.compute_absorption tau dz n nW rp rs z
      = (fun wn => depth rp rs n z dz (fun l => trans (tau l wn)), fun l wn => trans (tau l wn)) := rfl

/-- `compute_path_length_old(dz)`: the list, layer by layer, of the chord segments `chordOld` (as whole functions of the
    segment index: also the slice arithmetic `k[1:] = …[layer+1:]`, `k[1:] -= …[layer:nLayers-1]` is matched) -/
theorem src_compute_path_length_old (n : Nat) (rp : α) (z dz : Nat → α) :
    Gen.SrcC01.compute_path_length_old dz n rp z = (List.range n).map (fun l => chordOld rp z dz l) := by
  unfold Gen.SrcC01.compute_path_length_old
  simp only [Nat.sub_zero]
  rw [foldl_append_singleton]
  simp only [List.nil_append]
  congr 1
  funext l k
  unfold chordOld oldHalf oldMid oldP sq
  cases k with
  | zero => simp
  | succ k =>
    have e3 : l + 1 + k = l + (k + 1) := by omega
    simp [e3]

/-- the slices combined element-wise in `compute_path_length_old` have equal lengths (what numpy requires; hence no
    length-1 slice is silently broadcast) -/
theorem src_compute_path_length_old_shapes (n : Nat) (rp : α) (z dz : Nat → α) :
    Gen.SrcC01.compute_path_length_old_shapes dz n rp z := by
  unfold Gen.SrcC01.compute_path_length_old_shapes
  refine ⟨?_, ?_, ?_⟩ <;> intros <;> omega

/-! ### new path method: what is handed to the 3-D geometry -/

/-- a `(3, n)` numpy array whose columns are the vectors `f j` -/
def rows (f : Nat → Geometry.V3 α) : Nat → Nat → α :=
  fun r j => if r = 1 then (f j).y else if r = 0 then (f j).x else (f j).z

/-- `parallel_vector(R, alt, max_alt)` (for an array `alt`): column `j` of `viewer` / `tangent` is the model's
    `Geometry.parallelVector R alt[j] max_alt` — in particular the ray origin `-(R + 2·max_alt)` -/
theorem src_parallel_vector (R maxAlt : α) (alt : Nat → α) (nA : Nat) :
    Gen.SrcC01.parallel_vector R alt maxAlt nA
      = (rows (fun j => (Geometry.parallelVector R (alt j) maxAlt).1),
         rows (fun j => (Geometry.parallelVector R (alt j) maxAlt).2)) := by
  unfold Gen.SrcC01.parallel_vector rows Geometry.parallelVector
  refine Prod.ext ?_ ?_ <;> funext r j <;> by_cases h1 : r = 1 <;> by_cases h0 : r = 0 <;> simp [h1, h0]

/-- `TransmissionModel.compute_path_length`: the rows come from `planet.compute_path_length` (→
    `compute_path_length_3d`, a parameter) called with the altitude boundaries and, for tangent layer `l`, the line of
    sight `parallelVector rp (z[l] + dz[l]/2) (max of the boundaries)` — the inputs of the model's
    `Geometry.layerDists` -/
theorem src_compute_path_length (n : Nat) (rp : α) (zb z dz : Nat → α)
    (planetPaths : (Nat → α) → (Nat → Nat → α) → (Nat → Nat → α) → List (Nat → α)) :
    Gen.SrcC01.compute_path_length dz n planetPaths rp zb z
      = planetPaths zb
          (rows (fun l => (Geometry.parallelVector rp (z l + dz l / 2) (Geometry.arrMax n zb)).1))
          (rows (fun l => (Geometry.parallelVector rp (z l + dz l / 2) (Geometry.arrMax n zb)).2)) := by
  unfold Gen.SrcC01.compute_path_length
  simp only [src_parallel_vector]
  rfl

/-! ### the whole `path_integral` -/

/-- what `contrib.contribute(self, s, e, off, layer, density, tau, path_length=dl)` executes (Python's dynamic
    dispatch) for a prepared contribution of each model kind: `Contribution.contribute` (absorption, Rayleigh, hazes:
    kernel `contribute_tau`), `CIAContribution.contribute`, `SimpleCloudsContribution.contribute`; `ngrid` is the
    contributions' `self._ngrid` (= `wngrid.shape[0]`, set by `prepare`), `total` is `CIAContribution._total_cia` -/
def dispatch (ngrid total nL : Nat) (c : Contrib α) (s e off layer : Nat) (dens : Nat → α) (tau : Nat → Nat → α)
    (path : Nat → α) : Nat → Nat → α :=
  match c.kind with
  | .lin => Gen.SrcC01.contribution_contribute s e off layer dens tau path ngrid c.sigma
  | .sq => Gen.SrcC01.cia_contribute s e off layer dens tau path ngrid c.sigma total
  | .layerOnly => Gen.SrcC01.clouds_contribute layer tau nL ngrid c.sigma

/-- one dispatched call, as `path_integral` makes it: rows other than `l` are untouched, row `l` below `nwn` is
    `addContrib` -/
theorem dispatch_row (n nwn total : Nat) (ht : 0 < total) (c : Contrib α) (l : Nat) (dens path : Nat → α)
    (tau : Nat → Nat → α) :
    (∀ i j, i ≠ l → dispatch nwn total n c 0 (n - l) l l dens tau path i j = tau i j) ∧
    (∀ j < nwn, dispatch nwn total n c 0 (n - l) l l dens tau path l j = addContrib c n path dens l (tau l) j) := by
  obtain ⟨kind, sigma⟩ := c
  cases kind
  · simp only [dispatch, src_contribution_contribute, src_contribute_tau_call]
    exact ⟨fun i j hi => by simp [hi], fun j hj => by simp [hj]⟩
  · simp only [dispatch, src_cia_contribute, if_pos ht, src_contribute_cia_call]
    exact ⟨fun i j hi => by simp [hi], fun j hj => by simp [hj]⟩
  · simp only [dispatch, src_clouds_contribute n l n nwn sigma dens path]
    exact ⟨fun i j hi => by simp [hi], fun j _ => by simp⟩

/-- the loop over the contribution list (with its break) on row `l` of the table -/
theorem layer_loop (n nwn total : Nat) (ht : 0 < total) (l : Nat) (dens path : Nat → α) (cs : List (Contrib α))
    (tau : Nat → Nat → α) :
    (∀ i j, i ≠ l →
      cutLoop (fun t : Nat → Nat → α => saturated nwn (t l))
        (fun c t => dispatch nwn total n c 0 (n - l) l l dens t path) cs tau i j = tau i j) ∧
    (∀ j < nwn,
      cutLoop (fun t : Nat → Nat → α => saturated nwn (t l))
        (fun c t => dispatch nwn total n c 0 (n - l) l l dens t path) cs tau l j
        = tauCutFrom n nwn path dens l cs (tau l) j) := by
  induction cs generalizing tau with
  | nil => exact ⟨fun _ _ _ => rfl, fun _ _ => rfl⟩
  | cons c cs ih =>
    simp only [cutLoop, tauCutFrom]
    cases hs : saturated nwn (tau l)
    · simp only [Bool.false_eq_true, if_false]
      have hd := dispatch_row n nwn total ht c l dens path tau
      have h := ih (dispatch nwn total n c 0 (n - l) l l dens tau path)
      refine ⟨fun i j hi => ?_, fun j hj => ?_⟩
      · rw [h.1 i j hi, hd.1 i j hi]
      · rw [h.2 j hj]
        exact tauCutFrom_congr n nwn path dens l cs _ _ hd.2 j hj
    · simp only [if_true]
      exact ⟨fun _ _ _ => trivial, fun _ _ => trivial⟩

/-- **`path_integral`, optical depth part**: for whatever list of chord rows `paths` the code computed, entry
    `(l, wn)` of the returned `exp(-tau)` is the transmittance of the model's loop with the early exit, `tauCut`, and the
    returned absorption is `depth` of these.  (`0 < total`: a CIA contribution, if present, has at least one pair.) -/
theorem src_path_integral (n nwn total : Nat) (ht : 0 < total) (rp rs : α) (z dz dens : Nat → α)
    (zb : Nat → α) (cs : List (Contrib α)) (newMethod : Bool)
    (planetPaths : (Nat → α) → (Nat → Nat → α) → (Nat → Nat → α) → List (Nat → α)) :
    let paths := if newMethod then Gen.SrcC01.compute_path_length dz n planetPaths rp zb z
      else Gen.SrcC01.compute_path_length_old dz n rp z
    let r := Gen.SrcC01.path_integral nwn cs (dispatch nwn total n) dz dens n newMethod planetPaths rp rs zb z
    (∀ l < n, ∀ wn < nwn,
        r.2 l wn = trans (tauCut n nwn (paths.getD l (fun _ => 0)) dens l cs wn)) ∧
    (∀ wn < nwn,
        r.1 wn = depth rp rs n z dz (fun l => trans (tauCut n nwn (paths.getD l (fun _ => 0)) dens l cs wn))) := by
  intro paths r
  -- the table after the loop over the layers
  have key : ∀ l wn, l < n → wn < nwn →
      (List.range' 0 n).foldl (fun (T : Nat → Nat → α) (l : Nat) =>
          cutLoop (fun t : Nat → Nat → α => saturated nwn (t l))
            (fun c t => dispatch nwn total n c 0 (n - l) l l dens t (paths.getD l (fun _ => 0))) cs T)
        (fun _ _ => (0 : α)) l wn
      = tauCut n nwn (paths.getD l (fun _ => 0)) dens l cs wn := by
    intro l wn hl hwn
    refine ((fold_layers n nwn _ (fun _ _ => (0 : α))
      (fun l wn => tauCut n nwn (paths.getD l (fun _ => 0)) dens l cs wn) ?_ ?_) l wn).1 hl hwn
    · intro l T i j hi
      exact (layer_loop n nwn total ht l dens _ cs T).1 i j hi
    · intro l T hT j hj
      rw [(layer_loop n nwn total ht l dens _ cs T).2 j hj]
      unfold tauCut
      exact tauCutFrom_congr n nwn _ dens l cs _ _ (fun w _ => hT w) j hj
  have hr : r = Gen.SrcC01.compute_absorption
      ((List.range' 0 n).foldl (fun (T : Nat → Nat → α) (l : Nat) =>
          cutLoop (fun t : Nat → Nat → α => saturated nwn (t l))
            (fun c t => dispatch nwn total n c 0 (n - l) l l dens t (paths.getD l (fun _ => 0))) cs T)
        (fun _ _ => (0 : α))) dz n nwn rp rs z := by
    show Gen.SrcC01.path_integral nwn cs (dispatch nwn total n) dz dens n newMethod planetPaths rp rs zb z = _
    unfold Gen.SrcC01.path_integral
    simp only [← foldl_break]
    cases newMethod <;> rfl
  rw [hr, src_compute_absorption]
  refine ⟨fun l hl wn hwn => ?_, fun wn hwn => ?_⟩
  · simp only [key l wn hl hwn]
  · simp only
    exact depth_congr rp rs n z dz _ _ (fun l hl => by rw [key l wn hl hwn])

theorem chord_old (rp : α) (zb z dz : Nat → α) (l : Nat) : chord false rp zb z dz l = chordOld rp z dz l := by
  funext k; simp [chord]

theorem chord_new (rp : α) (zb z dz : Nat → α) (l : Nat) : chord true rp zb z dz l = chordNew rp zb z dz l := by
  funext k; simp [chord]

/-- **`path_integral` with the old path method** (`new_path_method=False`) is the model `modelTrans` / `modelDepth` with
    the early exit -/
theorem src_path_integral_old (n nwn total : Nat) (ht : 0 < total) (rp rs : α) (zb z dz dens : Nat → α)
    (cs : List (Contrib α)) (planetPaths : (Nat → α) → (Nat → Nat → α) → (Nat → Nat → α) → List (Nat → α)) :
    let r := Gen.SrcC01.path_integral nwn cs (dispatch nwn total n) dz dens n false planetPaths rp rs zb z
    (∀ l < n, ∀ wn < nwn, r.2 l wn = modelTrans true false rp n nwn zb z dz dens cs l wn) ∧
    (∀ wn < nwn, r.1 wn = modelDepth true false rp rs n nwn zb z dz dens cs wn) := by
  intro r
  have h := src_path_integral n nwn total ht rp rs z dz dens zb cs false planetPaths
  simp only [Bool.false_eq_true, if_false, src_compute_path_length_old] at h
  have hp : ∀ l < n, ((List.range n).map (fun l => chordOld rp z dz l)).getD l (fun _ => 0) = chordOld rp z dz l := by
    intro l hl
    simp [List.getD, hl]
  refine ⟨fun l hl wn hwn => ?_, fun wn hwn => ?_⟩
  · rw [h.1 l hl wn hwn, hp l hl]
    simp only [modelTrans, chord_old, if_true]
  · rw [h.2 wn hwn]
    simp only [modelDepth, modelTrans, chord_old, if_true]
    exact depth_congr rp rs n z dz _ _ (fun l hl => by rw [hp l hl])

/-- **`path_integral` with the new path method**: if the rows `planet.compute_path_length` returns for the lines of sight
    of `src_compute_path_length` (the 3-D geometry: modelled by `Geometry.pathRow3d` and proved equal to the closed form
    in `C01.path3d_eq_chordNew`) are the chords `chordNew` on their `n - l` segments, the result is the model with
    `newMethod = true` -/
theorem src_path_integral_new (n nwn total : Nat) (ht : 0 < total) (rp rs : α) (zb z dz dens : Nat → α)
    (cs : List (Contrib α)) (planetPaths : (Nat → α) → (Nat → Nat → α) → (Nat → Nat → α) → List (Nat → α))
    (hnew : ∀ l < n, ∀ k < n - l,
      (planetPaths zb
          (rows (fun l => (Geometry.parallelVector rp (z l + dz l / 2) (Geometry.arrMax n zb)).1))
          (rows (fun l => (Geometry.parallelVector rp (z l + dz l / 2) (Geometry.arrMax n zb)).2))).getD l (fun _ => 0) k
        = chordNew rp zb z dz l k) :
    let r := Gen.SrcC01.path_integral nwn cs (dispatch nwn total n) dz dens n true planetPaths rp rs zb z
    (∀ l < n, ∀ wn < nwn, r.2 l wn = modelTrans true true rp n nwn zb z dz dens cs l wn) ∧
    (∀ wn < nwn, r.1 wn = modelDepth true true rp rs n nwn zb z dz dens cs wn) := by
  intro r
  have h := src_path_integral n nwn total ht rp rs z dz dens zb cs true planetPaths
  simp only [if_true, src_compute_path_length] at h
  have hp : ∀ l < n, tauCut n nwn ((planetPaths zb
          (rows (fun l => (Geometry.parallelVector rp (z l + dz l / 2) (Geometry.arrMax n zb)).1))
          (rows (fun l => (Geometry.parallelVector rp (z l + dz l / 2) (Geometry.arrMax n zb)).2))).getD l
            (fun _ => 0)) dens l cs
      = tauCut n nwn (chordNew rp zb z dz l) dens l cs := by
    intro l hl
    unfold tauCut
    exact tauCutFrom_congr_path n nwn _ _ dens l cs _ (hnew l hl)
  refine ⟨fun l hl wn hwn => ?_, fun wn hwn => ?_⟩
  · rw [h.1 l hl wn hwn, hp l hl]
    simp only [modelTrans, chord_new, if_true]
  · rw [h.2 wn hwn]
    simp only [modelDepth, modelTrans, chord_new, if_true]
    exact depth_congr rp rs n z dz _ _ (fun l hl => by rw [hp l hl])

end

end Taurex.C01Src
