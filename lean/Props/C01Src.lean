/-
  C01 — source tie.  `TaurexModel/Gen/SrcC01.lean` is regenerated on every run by `harness/translate.py` (dialect
  `shaped`, harness/translate_shaped.py) from the source text of
      taurex/contributions/contribution.py   contribute_tau, Contribution.contribute
      taurex/contributions/cia.py            contribute_cia, CIAContribution.contribute
      taurex/contributions/simpleclouds.py   SimpleCloudsContribution.contribute
      taurex/model/transmission.py           compute_path_length_old, compute_path_length, compute_absorption,
                                             path_integral
      taurex/util/geometry.py                parallel_vector, normalize, compute_line_3d, multi_dot, compute_intersection_3d,
                                             compute_path_length_3d
      taurex/data/planet.py                  BasePlanet.compute_path_length
  The theorems below state, for EVERY carrier (no algebra is used: only the shape of the loops is reasoned about, by
  induction), that each regenerated definition computes the hand-written model function of
  `TaurexModel/Transmission.lean` that the C01 theorems are about and that `driver_c01` executes.  A source change that
  alters one of these functions makes the corresponding theorem fail to check.

  Form of the statements.  The kernels mutate the table `tau[layer, wn]` in place; the generated definition returns the
  whole new table.  `src_contribute_tau` & co. give it in closed form (row `layer`, columns `< ngrid` receive the
  accumulated sum, everything else is untouched); the `_call` theorems instantiate the arguments with what
  `path_integral` passes (`startK = 0`, `endK = nLayers - layer`, `density_offset = layer`) and identify the new row with
  `addContrib`.  `src_path_integral*` is the whole method: the loop over the layers, the loop over the contribution list
  with its `tau[layer].min() > 10` break, `compute_absorption`; Python's dynamic dispatch `contrib.contribute(…)` is
  supplied as `dispatch` (the three translated `contribute` methods, selected by the model's `Kind`).
-/
import TaurexModel.Gen.SrcC01
import TaurexModel.Transmission
import TaurexModel.Geometry
import Proofs.C01SrcLemmas
set_option linter.unusedSectionVars false

namespace Taurex.C01Src
open Taurex.Transmission

section
variable {α : Type} [Add α] [Sub α] [Mul α] [Div α] [Neg α] [LT α] [LE α]
  [DecidableLT α] [DecidableLE α] [OfNat α 0] [OfNat α 1] [OfNat α 2] [OfNat α 10] [Transc α]

/-! ### the optical-depth kernels -/

/-- `contribute_tau` (both loops): row `layer`, columns below `ngrid`, receive
    `Σ_{k = startK}^{endK-1} sigma[k+layer, wn] * path[k] * density[k+density_offset]` added in that order; every other
    entry of `tau` is untouched -/
theorem src_contribute_tau (s e off : Nat) (sigma : Nat → Nat → α) (dens path : Nat → α) (ngrid l : Nat)
    (tau : Nat → Nat → α) :
    Gen.SrcC01.contribute_tau s e off sigma dens path ngrid l tau
      = fun i j => if i = l ∧ j < ngrid then
          (List.range' s (e - s)).foldl (fun acc k => acc + sigma (k + l) j * path k * dens (k + off)) (tau l j)
        else tau i j :=
  fold_kernel l ngrid s (e - s) (fun k wn => sigma (k + l) wn * path k * dens (k + off)) tau

/-- `contribute_cia`: the same with the density squared -/
theorem src_contribute_cia (s e off : Nat) (sigma : Nat → Nat → α) (dens path : Nat → α) (ngrid l : Nat)
    (tau : Nat → Nat → α) :
    Gen.SrcC01.contribute_cia s e off sigma dens path ngrid l tau
      = fun i j => if i = l ∧ j < ngrid then
          (List.range' s (e - s)).foldl
            (fun acc k => acc + sigma (k + l) j * path k * dens (k + off) * dens (k + off)) (tau l j)
        else tau i j :=
  fold_kernel l ngrid s (e - s) (fun k wn => sigma (k + l) wn * path k * dens (k + off) * dens (k + off)) tau

/-- `Contribution.contribute` hands `self.sigma_xsec`, `self._ngrid` to `contribute_tau` -/
theorem src_contribution_contribute (s e off l : Nat) (dens path : Nat → α) (tau sigma : Nat → Nat → α) (ngrid : Nat) :
    Gen.SrcC01.contribution_contribute s e off l dens tau path ngrid sigma
      = Gen.SrcC01.contribute_tau s e off sigma dens path ngrid l tau := rfl

/-- `CIAContribution.contribute` with at least one pair (`self._total_cia > 0`) runs `contribute_cia`; with no pair it
    leaves `tau` alone (its `sigma_xsec` is then identically zero) -/
theorem src_cia_contribute (s e off l : Nat) (dens path : Nat → α) (tau sigma : Nat → Nat → α) (ngrid total : Nat) :
    Gen.SrcC01.cia_contribute s e off l dens tau path ngrid sigma total
      = if 0 < total then Gen.SrcC01.contribute_cia s e off sigma dens path ngrid l tau else tau := by
  unfold Gen.SrcC01.cia_contribute
  by_cases h : 0 < total <;> simp [h]

/-- the kernel as `path_integral` calls it, for a prepared contribution of kind `lin`: the new row is `addContrib` -/
theorem src_contribute_tau_call (n l ngrid : Nat) (sigma : Nat → Nat → α) (dens path : Nat → α) (tau : Nat → Nat → α) :
    Gen.SrcC01.contribute_tau 0 (n - l) l sigma dens path ngrid l tau
      = fun i j => if i = l ∧ j < ngrid then addContrib ⟨.lin, sigma⟩ n path dens l (tau l) j else tau i j := by
  rw [src_contribute_tau]
  simp only [addContrib, accFrom, nTerms, term, Nat.sub_zero, List.range_eq_range']

theorem src_contribute_cia_call (n l ngrid : Nat) (sigma : Nat → Nat → α) (dens path : Nat → α) (tau : Nat → Nat → α) :
    Gen.SrcC01.contribute_cia 0 (n - l) l sigma dens path ngrid l tau
      = fun i j => if i = l ∧ j < ngrid then addContrib ⟨.sq, sigma⟩ n path dens l (tau l) j else tau i j := by
  rw [src_contribute_cia]
  simp only [addContrib, accFrom, nTerms, term, Nat.sub_zero, List.range_eq_range']

/-- `SimpleCloudsContribution.contribute`: `tau[layer] += self.sigma_xsec[layer, :]` — kind `layerOnly` (the whole row) -/
theorem src_clouds_contribute (n l nL nW : Nat) (sigma : Nat → Nat → α) (dens path : Nat → α) (tau : Nat → Nat → α) :
    Gen.SrcC01.clouds_contribute l tau nL nW sigma
      = fun i j => if i = l then addContrib ⟨.layerOnly, sigma⟩ n path dens l (tau l) j else tau i j := rfl

/-! ### transit depth and chord lengths -/

/-- `compute_absorption(tau, dz)`: the pair (`depth` per wavenumber, `exp(-tau)`) -/
theorem src_compute_absorption (n nW : Nat) (rp rs : α) (z dz : Nat → α) (tau : Nat → Nat → α) :
    Gen.SrcC01.compute_absorption tau dz n nW rp rs z
      = (fun wn => depth rp rs n z dz (fun l => trans (tau l wn)), fun l wn => trans (tau l wn)) := rfl

/-- `compute_path_length_old(dz)`: the list, layer by layer, of the chord segments `chordOld` (as whole functions of the
    segment index: also the slice arithmetic `k[1:] = …[layer+1:]`, `k[1:] -= …[layer:nLayers-1]` is matched) -/
theorem src_compute_path_length_old (n : Nat) (rp : α) (z dz : Nat → α) :
    Gen.SrcC01.compute_path_length_old dz n rp z = (List.range n).map (fun l => chordOld rp z dz l) := by
  unfold Gen.SrcC01.compute_path_length_old
  simp only [Nat.sub_zero]
  rw [foldl_append_singleton]
  simp only [List.nil_append]
  congr 1
  funext l k
  unfold chordOld oldHalf oldMid oldP sq
  cases k with
  | zero => simp
  | succ k =>
    have e3 : l + 1 + k = l + (k + 1) := by omega
    simp [e3]

/-- the slices combined element-wise in `compute_path_length_old` have equal lengths (what numpy requires; hence no
    length-1 slice is silently broadcast) -/
theorem src_compute_path_length_old_shapes (n : Nat) (rp : α) (z dz : Nat → α) :
    Gen.SrcC01.compute_path_length_old_shapes dz n rp z := by
  unfold Gen.SrcC01.compute_path_length_old_shapes
  refine ⟨?_, ?_, ?_⟩ <;> intros <;> omega

/-! ### new path method: what is handed to the 3-D geometry -/

/-- a `(3, n)` numpy array whose columns are the vectors `f j` -/
def rows (f : Nat → Geometry.V3 α) : Nat → Nat → α :=
  fun r j => if r = 1 then (f j).y else if r = 0 then (f j).x else (f j).z

/-- `parallel_vector(R, alt, max_alt)` (for an array `alt`): column `j` of `viewer` / `tangent` is the model's
    `Geometry.parallelVector R alt[j] max_alt` — in particular the ray origin `-(R + 2·max_alt)` -/
theorem src_parallel_vector (R maxAlt : α) (alt : Nat → α) (nA : Nat) :
    Gen.SrcC01.parallel_vector R alt maxAlt nA
      = (rows (fun j => (Geometry.parallelVector R (alt j) maxAlt).1),
         rows (fun j => (Geometry.parallelVector R (alt j) maxAlt).2)) := by
  unfold Gen.SrcC01.parallel_vector rows Geometry.parallelVector
  refine Prod.ext ?_ ?_ <;> funext r j <;> by_cases h1 : r = 1 <;> by_cases h0 : r = 0 <;> simp [h1, h0]

/-- `TransmissionModel.compute_path_length`: the rows come from `planet.compute_path_length` (→
    `compute_path_length_3d`, a parameter) called with the altitude boundaries and, for tangent layer `l`, the line of
    sight `parallelVector rp (z[l] + dz[l]/2) (max of the boundaries)` — the inputs of the model's
    `Geometry.layerDists` -/
theorem src_compute_path_length (n : Nat) (rp : α) (zb z dz : Nat → α)
    (planetPaths : (Nat → α) → (Nat → Nat → α) → (Nat → Nat → α) → List (Nat → α)) :
    Gen.SrcC01.compute_path_length dz n planetPaths rp zb z
      = planetPaths zb
          (rows (fun l => (Geometry.parallelVector rp (z l + dz l / 2) (Geometry.arrMax n zb)).1))
          (rows (fun l => (Geometry.parallelVector rp (z l + dz l / 2) (Geometry.arrMax n zb)).2)) := by
  unfold Gen.SrcC01.compute_path_length
  simp only [src_parallel_vector]
  rfl

/-! ### the whole `path_integral` -/

/-- what `contrib.contribute(self, s, e, off, layer, density, tau, path_length=dl)` executes (Python's dynamic
    dispatch) for a prepared contribution of each model kind: `Contribution.contribute` (absorption, Rayleigh, hazes:
    kernel `contribute_tau`), `CIAContribution.contribute`, `SimpleCloudsContribution.contribute`; `ngrid` is the
    contributions' `self._ngrid` (= `wngrid.shape[0]`, set by `prepare`), `total` is `CIAContribution._total_cia` -/
def dispatch (ngrid total nL : Nat) (c : Contrib α) (s e off layer : Nat) (dens : Nat → α) (tau : Nat → Nat → α)
    (path : Nat → α) : Nat → Nat → α :=
  match c.kind with
  | .lin => Gen.SrcC01.contribution_contribute s e off layer dens tau path ngrid c.sigma
  | .sq => Gen.SrcC01.cia_contribute s e off layer dens tau path ngrid c.sigma total
  | .layerOnly => Gen.SrcC01.clouds_contribute layer tau nL ngrid c.sigma

/-- one dispatched call, as `path_integral` makes it: rows other than `l` are untouched, row `l` below `nwn` is
    `addContrib` -/
theorem dispatch_row (n nwn total : Nat) (ht : 0 < total) (c : Contrib α) (l : Nat) (dens path : Nat → α)
    (tau : Nat → Nat → α) :
    (∀ i j, i ≠ l → dispatch nwn total n c 0 (n - l) l l dens tau path i j = tau i j) ∧
    (∀ j < nwn, dispatch nwn total n c 0 (n - l) l l dens tau path l j = addContrib c n path dens l (tau l) j) := by
  obtain ⟨kind, sigma⟩ := c
  cases kind
  · simp only [dispatch, src_contribution_contribute, src_contribute_tau_call]
    exact ⟨fun i j hi => by simp [hi], fun j hj => by simp [hj]⟩
  · simp only [dispatch, src_cia_contribute, if_pos ht, src_contribute_cia_call]
    exact ⟨fun i j hi => by simp [hi], fun j hj => by simp [hj]⟩
  · simp only [dispatch, src_clouds_contribute n l n nwn sigma dens path]
    exact ⟨fun i j hi => by simp [hi], fun j _ => by simp⟩

/-- the loop over the contribution list (with its break) on row `l` of the table -/
theorem layer_loop (n nwn total : Nat) (ht : 0 < total) (l : Nat) (dens path : Nat → α) (cs : List (Contrib α))
    (tau : Nat → Nat → α) :
    (∀ i j, i ≠ l →
      cutLoop (fun t : Nat → Nat → α => saturated nwn (t l))
        (fun c t => dispatch nwn total n c 0 (n - l) l l dens t path) cs tau i j = tau i j) ∧
    (∀ j < nwn,
      cutLoop (fun t : Nat → Nat → α => saturated nwn (t l))
        (fun c t => dispatch nwn total n c 0 (n - l) l l dens t path) cs tau l j
        = tauCutFrom n nwn path dens l cs (tau l) j) := by
  induction cs generalizing tau with
  | nil => exact ⟨fun _ _ _ => rfl, fun _ _ => rfl⟩
  | cons c cs ih =>
    simp only [cutLoop, tauCutFrom]
    cases hs : saturated nwn (tau l)
    · simp only [Bool.false_eq_true, if_false]
      have hd := dispatch_row n nwn total ht c l dens path tau
      have h := ih (dispatch nwn total n c 0 (n - l) l l dens tau path)
      refine ⟨fun i j hi => ?_, fun j hj => ?_⟩
      · rw [h.1 i j hi, hd.1 i j hi]
      · rw [h.2 j hj]
        exact tauCutFrom_congr n nwn path dens l cs _ _ hd.2 j hj
    · simp only [if_true]
      exact ⟨fun _ _ _ => trivial, fun _ _ => trivial⟩

/-- **`path_integral`, optical depth part**: for whatever list of chord rows `paths` the code computed, entry
    `(l, wn)` of the returned `exp(-tau)` is the transmittance of the model's loop with the early exit, `tauCut`, and the
    returned absorption is `depth` of these.  (`0 < total`: a CIA contribution, if present, has at least one pair.) -/
theorem src_path_integral (n nwn total : Nat) (ht : 0 < total) (rp rs : α) (z dz dens : Nat → α)
    (zb : Nat → α) (cs : List (Contrib α)) (newMethod : Bool)
    (planetPaths : (Nat → α) → (Nat → Nat → α) → (Nat → Nat → α) → List (Nat → α)) :
    let paths := if newMethod then Gen.SrcC01.compute_path_length dz n planetPaths rp zb z
      else Gen.SrcC01.compute_path_length_old dz n rp z
    let r := Gen.SrcC01.path_integral nwn cs (dispatch nwn total n) dz dens n newMethod planetPaths rp rs zb z
    (∀ l < n, ∀ wn < nwn,
        r.2 l wn = trans (tauCut n nwn (paths.getD l (fun _ => 0)) dens l cs wn)) ∧
    (∀ wn < nwn,
        r.1 wn = depth rp rs n z dz (fun l => trans (tauCut n nwn (paths.getD l (fun _ => 0)) dens l cs wn))) := by
  intro paths r
  -- the table after the loop over the layers
  have key : ∀ l wn, l < n → wn < nwn →
      (List.range' 0 n).foldl (fun (T : Nat → Nat → α) (l : Nat) =>
          cutLoop (fun t : Nat → Nat → α => saturated nwn (t l))
            (fun c t => dispatch nwn total n c 0 (n - l) l l dens t (paths.getD l (fun _ => 0))) cs T)
        (fun _ _ => (0 : α)) l wn
      = tauCut n nwn (paths.getD l (fun _ => 0)) dens l cs wn := by
    intro l wn hl hwn
    refine ((fold_layers n nwn _ (fun _ _ => (0 : α))
      (fun l wn => tauCut n nwn (paths.getD l (fun _ => 0)) dens l cs wn) ?_ ?_) l wn).1 hl hwn
    · intro l T i j hi
      exact (layer_loop n nwn total ht l dens _ cs T).1 i j hi
    · intro l T hT j hj
      rw [(layer_loop n nwn total ht l dens _ cs T).2 j hj]
      unfold tauCut
      exact tauCutFrom_congr n nwn _ dens l cs _ _ (fun w _ => hT w) j hj
  have hr : r = Gen.SrcC01.compute_absorption
      ((List.range' 0 n).foldl (fun (T : Nat → Nat → α) (l : Nat) =>
          cutLoop (fun t : Nat → Nat → α => saturated nwn (t l))
            (fun c t => dispatch nwn total n c 0 (n - l) l l dens t (paths.getD l (fun _ => 0))) cs T)
        (fun _ _ => (0 : α))) dz n nwn rp rs z := by
    show Gen.SrcC01.path_integral nwn cs (dispatch nwn total n) dz dens n newMethod planetPaths rp rs zb z = _
    unfold Gen.SrcC01.path_integral
    simp only [← foldl_break]
    cases newMethod <;> rfl
  rw [hr, src_compute_absorption]
  refine ⟨fun l hl wn hwn => ?_, fun wn hwn => ?_⟩
  · simp only [key l wn hl hwn]
  · simp only
    exact depth_congr rp rs n z dz _ _ (fun l hl => by rw [key l wn hl hwn])

theorem chord_old (rp : α) (zb z dz : Nat → α) (l : Nat) : chord false rp zb z dz l = chordOld rp z dz l := by
  funext k; simp [chord]

theorem chord_new (rp : α) (zb z dz : Nat → α) (l : Nat) : chord true rp zb z dz l = chordNew rp zb z dz l := by
  funext k; simp [chord]

/-- **`path_integral` with the old path method** (`new_path_method=False`) is the model `modelTrans` / `modelDepth` with
    the early exit -/
theorem src_path_integral_old (n nwn total : Nat) (ht : 0 < total) (rp rs : α) (zb z dz dens : Nat → α)
    (cs : List (Contrib α)) (planetPaths : (Nat → α) → (Nat → Nat → α) → (Nat → Nat → α) → List (Nat → α)) :
    let r := Gen.SrcC01.path_integral nwn cs (dispatch nwn total n) dz dens n false planetPaths rp rs zb z
    (∀ l < n, ∀ wn < nwn, r.2 l wn = modelTrans true false rp n nwn zb z dz dens cs l wn) ∧
    (∀ wn < nwn, r.1 wn = modelDepth true false rp rs n nwn zb z dz dens cs wn) := by
  intro r
  have h := src_path_integral n nwn total ht rp rs z dz dens zb cs false planetPaths
  simp only [Bool.false_eq_true, if_false, src_compute_path_length_old] at h
  have hp : ∀ l < n, ((List.range n).map (fun l => chordOld rp z dz l)).getD l (fun _ => 0) = chordOld rp z dz l := by
    intro l hl
    simp [List.getD, hl]
  refine ⟨fun l hl wn hwn => ?_, fun wn hwn => ?_⟩
  · rw [h.1 l hl wn hwn, hp l hl]
    simp only [modelTrans, chord_old, if_true]
  · rw [h.2 wn hwn]
    simp only [modelDepth, modelTrans, chord_old, if_true]
    exact depth_congr rp rs n z dz _ _ (fun l hl => by rw [hp l hl])

/-- **`path_integral` with the new path method**: if the rows `planet.compute_path_length` returns for the lines of sight
    of `src_compute_path_length` (the 3-D geometry: modelled by `Geometry.pathRow3d` and proved equal to the closed form
    in `C01.path3d_eq_chordNew`) are the chords `chordNew` on their `n - l` segments, the result is the model with
    `newMethod = true` -/
theorem src_path_integral_new (n nwn total : Nat) (ht : 0 < total) (rp rs : α) (zb z dz dens : Nat → α)
    (cs : List (Contrib α)) (planetPaths : (Nat → α) → (Nat → Nat → α) → (Nat → Nat → α) → List (Nat → α))
    (hnew : ∀ l < n, ∀ k < n - l,
      (planetPaths zb
          (rows (fun l => (Geometry.parallelVector rp (z l + dz l / 2) (Geometry.arrMax n zb)).1))
          (rows (fun l => (Geometry.parallelVector rp (z l + dz l / 2) (Geometry.arrMax n zb)).2))).getD l (fun _ => 0) k
        = chordNew rp zb z dz l k) :
    let r := Gen.SrcC01.path_integral nwn cs (dispatch nwn total n) dz dens n true planetPaths rp rs zb z
    (∀ l < n, ∀ wn < nwn, r.2 l wn = modelTrans true true rp n nwn zb z dz dens cs l wn) ∧
    (∀ wn < nwn, r.1 wn = modelDepth true true rp rs n nwn zb z dz dens cs wn) := by
  intro r
  have h := src_path_integral n nwn total ht rp rs z dz dens zb cs true planetPaths
  simp only [if_true, src_compute_path_length] at h
  have hp : ∀ l < n, tauCut n nwn ((planetPaths zb
          (rows (fun l => (Geometry.parallelVector rp (z l + dz l / 2) (Geometry.arrMax n zb)).1))
          (rows (fun l => (Geometry.parallelVector rp (z l + dz l / 2) (Geometry.arrMax n zb)).2))).getD l
            (fun _ => 0)) dens l cs
      = tauCut n nwn (chordNew rp zb z dz l) dens l cs := by
    intro l hl
    unfold tauCut
    exact tauCutFrom_congr_path n nwn _ _ dens l cs _ (hnew l hl)
  refine ⟨fun l hl wn hwn => ?_, fun wn hwn => ?_⟩
  · rw [h.1 l hl wn hwn, hp l hl]
    simp only [modelTrans, chord_new, if_true]
  · rw [h.2 wn hwn]
    simp only [modelDepth, modelTrans, chord_new, if_true]
    exact depth_congr rp rs n z dz _ _ (fun l hl => by rw [hp l hl])

/-! ### the 3-D line/sphere geometry behind `new_path_method=True` (`taurex/util/geometry.py`, `BasePlanet.compute_path_length`)

  Model: `TaurexModel/Geometry.lean` (vectors as records `V3`, one ray and one sphere at a time).  The code works on whole
  `(3, nR)` arrays of column vectors; `rows f` is the array whose column `j` is `f j`.  Hypotheses of these ties, all explicit:
    * `h0 : ∀ x, 0 + x = x` — numpy's `np.sum(…, axis=0)` / `np.linalg.norm` are translated as the left fold from `0`, the
      model writes `x + y + z`; the two agree in every carrier in which `0 + x = x` (ℝ, and IEEE floats up to the sign of zero);
    * `hfin` — NaN is not a value of the carrier.  In the code `np.sqrt` of a negative discriminant is NaN, it propagates to
      the sphere's distance, and `np.isfinite` drops the sphere; the translation has `isfinite` as a parameter and the tie
      INSTANTIATES it: a sphere's distance is finite exactly when its discriminant is `≥ 0` (the model's test);
    * `hany` — some sphere is hit by some ray (otherwise `compute_intersection_3d` returns `None`);
    * `hnc` — no ray crosses the planet itself.  The body of that branch is not translated (the parameter `crossing`: an
      abstract function of everything the branch reads); its TEST is, and under `hnc` the branch is not entered.  (The model
      treats that branch ray by ray, the code compares sums over all crossing rays: they are not the same function.) -/

open Taurex.Geometry

/-- row `c` of a column vector, as `rows` lays it out -/
def comp (c : Nat) (v : V3 α) : α := if c = 1 then v.y else if c = 0 then v.x else v.z

theorem rows_apply (f : Nat → V3 α) (c j : Nat) : rows f c j = comp c (f j) := rfl

theorem fold3 (g : Nat → α) (a : α) : (List.range 3).foldl (fun acc s => acc + g s) a = a + g 0 + g 1 + g 2 := rfl

theorem src_multi_dot (h0 : ∀ x : α, 0 + x = x) (a b : Nat → V3 α) (nR i : Nat) :
    Gen.SrcC01.multi_dot (rows a) (rows b) nR i = dot (a i) (b i) := by
  unfold Gen.SrcC01.multi_dot
  rw [fold3, h0]
  rfl

@[simp] theorem comp_zero (v : V3 α) : comp 0 v = v.x := rfl
@[simp] theorem comp_one (v : V3 α) : comp 1 v = v.y := rfl
@[simp] theorem comp_two (v : V3 α) : comp 2 v = v.z := rfl

theorem comp_ite (c : Nat) (p : Prop) [Decidable p] (a b : V3 α) : comp c (if p then a else b) = if p then comp c a else comp c b := by
  split <;> rfl

theorem src_normalize (h0 : ∀ x : α, 0 + x = x) (v : Nat → V3 α) (nR : Nat) :
    Gen.SrcC01.normalize (rows v) nR = rows (fun j => Geometry.normalize (v j)) := by
  unfold Gen.SrcC01.normalize
  funext c j
  simp only [fold3, h0, rows_apply, comp_zero, comp_one, comp_two]
  have hn : sqrt ((v j).x * (v j).x + (v j).y * (v j).y + (v j).z * (v j).z) = norm (v j) := rfl
  simp only [hn, Geometry.normalize, Bool.and_eq_true, decide_eq_true_eq, comp_ite]
  by_cases hz : norm (v j) ≤ 0 ∧ 0 ≤ norm (v j)
  · simp only [hz, and_self, if_true]
  · simp only [hz, if_false]
    unfold comp
    split
    · rfl
    · split <;> rfl

theorem rows_sub (t v : Nat → V3 α) : (fun i j => rows t i j - rows v i j) = rows (fun j => (t j).sub (v j)) := by
  funext c j
  simp only [rows_apply]
  unfold comp V3.sub
  split
  · rfl
  · split <;> rfl

theorem src_compute_line_3d (h0 : ∀ x : α, 0 + x = x) (v t : Nat → V3 α) (nR : Nat) :
    Gen.SrcC01.compute_line_3d (rows v) (rows t) nR
      = (rows (fun j => (line3d (v j) (t j)).1), rows (fun j => (line3d (v j) (t j)).2)) := by
  unfold Gen.SrcC01.compute_line_3d line3d
  simp only [rows_sub, src_normalize h0]

/-- the discriminant of the planet itself for one ray (the test of the "planet crossing" branch) -/
def deltaP (R : α) (u o : V3 α) : α := dot u o * dot u o - normSq o + R * R

theorem comp_add (c : Nat) (a b : V3 α) : comp c (a.add b) = comp c a + comp c b := by
  unfold comp V3.add; split
  · rfl
  · split <;> rfl

theorem comp_smul (c : Nat) (d : α) (a : V3 α) : comp c (V3.smul d a) = d * comp c a := by
  unfold comp V3.smul; split
  · rfl
  · split <;> rfl

theorem any_range_true (n : Nat) (p : Nat → Bool) (i : Nat) (hi : i < n) (h : p i = true) : (List.range n).any p = true :=
  List.any_eq_true.2 ⟨i, List.mem_range.2 hi, h⟩

theorem any_range_false (n : Nat) (p : Nat → Bool) (h : ∀ i < n, p i = false) : (List.range n).any p = false := by
  rw [Bool.eq_false_iff]
  intro ht
  obtain ⟨i, hi, hp⟩ := List.any_eq_true.1 ht
  rw [h i (List.mem_range.1 hi)] at hp
  exact Bool.false_ne_true hp

theorem src_compute_intersection_3d (h0 : ∀ x : α, 0 + x = x) (R : α) (h : Nat → α) (u o : Nat → V3 α)
    (crossing : (Nat → α) → (Nat → Bool) → (Nat → α) → (Nat → Nat → α) → (Nat → Nat → α) → (Nat → Nat → Nat → Nat → α) → (Nat → Nat → Nat → Nat → α))
    (nH nR : Nat) (nan : α)
    (hany : ∃ j < nH, ∃ i < nR, 0 < (intersect R (h j) (u i) (o i)).delta)
    (hnc : ∀ i < nR, ¬ 0 < deltaP R (u i) (o i)) :
    ∃ S, Gen.SrcC01.compute_intersection_3d R h (rows u) (rows o) crossing nH nR nan = some S ∧
      ∀ j < nH, ∀ i < nR, ∀ c, S 0 c j i = comp c (intersect R (h j) (u i) (o i)).near ∧
        S 1 c j i = comp c (intersect R (h j) (u i) (o i)).far := by
  unfold Gen.SrcC01.compute_intersection_3d
  extract_lets h' sd dotres delta Sz z3 Snan filt d1a d1 sol1 d2a d2 sol2 v1 v2 mf af bf Sa1 Sa2 Sa Sb1 Sb2 Sb dP fP Sc
  have hdot : ∀ i, dotres i = dot (u i) (o i) * dot (u i) (o i) - normSq (o i) := by
    intro i
    simp only [dotres, sd, src_multi_dot h0, fold3, h0, rows_apply, comp_zero, comp_one, comp_two]
    rfl
  have hdelta : ∀ j i, delta j i = (intersect R (h j) (u i) (o i)).delta := by
    intro j i
    simp only [delta, hdot, h']
    rfl
  -- some sphere is hit: the function does not return None
  have hsome : (!(List.range nH).any fun j => (List.range nR).any fun i => filt j i) = false := by
    obtain ⟨j, hj, i, hi, hd⟩ := hany
    rw [Bool.not_eq_false']
    refine any_range_true nH _ j hj (any_range_true nR _ i hi ?_)
    simp only [filt, hdelta, decide_eq_true_eq]
    exact hd
  rw [if_neg (by rw [hsome]; exact Bool.false_ne_true)]
  refine ⟨_, rfl, ?_⟩
  -- no ray crosses the planet: the crossing branch is not entered
  have hcross : ((List.range nR).any fun i => fP i) = false := by
    refine any_range_false nR _ fun i hi => ?_
    simp only [fP, dP, hdot, decide_eq_false_iff_not]
    exact hnc i hi
  have hSc : Sc = Sb := if_neg (by rw [hcross]; exact Bool.false_ne_true)
  rw [hSc]
  intro j hj i hi c
  -- which of the two stored points is nearer
  have hsel : Sb 0 c j i = (if mf j i = true then sol1 c j i else sol2 c j i) ∧
      Sb 1 c j i = (if mf j i = true then sol2 c j i else sol1 c j i) := by
    cases hm : mf j i
    · have hb : ((List.range nH).any fun a => (List.range nR).any fun b => bf a b) = true :=
        any_range_true nH _ j hj (any_range_true nR _ i hi (by simp only [bf, hm]; rfl))
      simp only [Sb, hb, if_true, Sb2, Sb1, bf, hm, Bool.not_false, and_true, if_true, Bool.false_eq_true, if_false]
      simp
    · have ha : ((List.range nH).any fun a => (List.range nR).any fun b => af a b) = true :=
        any_range_true nH _ j hj (any_range_true nR _ i hi (by simp only [af]; exact hm))
      have hSa : Sa 0 c j i = sol1 c j i ∧ Sa 1 c j i = sol2 c j i := by
        simp only [Sa, ha, if_true, Sa2, Sa1, af, hm, and_true, if_true]
        constructor <;> simp
      have hSb : ∀ r, Sb r c j i = Sa r c j i := by
        intro r
        simp only [Sb]
        split
        · simp only [Sb2, Sb1, bf, hm, Bool.not_true, Bool.false_eq_true, and_false, if_false]
        · rfl
      simp only [hSb, hSa, if_true]
      exact ⟨trivial, trivial⟩
  rw [hsel.1, hsel.2]
  have hd1 : ∀ c, sol1 c j i = comp c ((o i).add (V3.smul (clamp0 (-dot (u i) (o i) + sqrt (intersect R (h j) (u i) (o i)).delta)) (u i))) := by
    intro c
    simp only [sol1, d1, d1a, sd, src_multi_dot h0, hdelta, rows_apply, comp_add, comp_smul, clamp0, decide_eq_true_eq]
  have hd2 : ∀ c, sol2 c j i = comp c ((o i).add (V3.smul (clamp0 (-dot (u i) (o i) - sqrt (intersect R (h j) (u i) (o i)).delta)) (u i))) := by
    intro c
    simp only [sol2, d2, d2a, sd, src_multi_dot h0, hdelta, rows_apply, comp_add, comp_smul, clamp0, decide_eq_true_eq]
  have hv1 : v1 j i = normSq ((o i).sub ((o i).add (V3.smul (clamp0 (-dot (u i) (o i) + sqrt (intersect R (h j) (u i) (o i)).delta)) (u i)))) := by
    simp only [v1, fold3, h0, rows_apply, comp_zero, comp_one, comp_two, hd1]
    rfl
  have hv2 : v2 j i = normSq ((o i).sub ((o i).add (V3.smul (clamp0 (-dot (u i) (o i) - sqrt (intersect R (h j) (u i) (o i)).delta)) (u i)))) := by
    simp only [v2, fold3, h0, rows_apply, comp_zero, comp_one, comp_two, hd2]
    rfl
  have hmf : (mf j i = true) = (v1 j i < v2 j i) := by simp only [mf, decide_eq_true_eq]
  have hP : ¬ 0 < dot (u i) (o i) * dot (u i) (o i) - normSq (o i) + R * R := hnc i hi
  simp only [hmf, hv1, hv2, hd1, hd2]
  unfold intersect
  simp only [if_neg hP, comp_ite]
  exact ⟨trivial, trivial⟩

/-- the rows of a list of (length, array) pairs, as lists -/
def rowLists (L : List (Nat × (Nat → α))) : List (List α) := L.map (fun r => (List.range r.1).map r.2)

theorem getD_map_lt {β γ : Type} (l : List β) (f : β → γ) (k : Nat) (h : k < l.length) (d : γ) (d' : β) :
    (l.map f).getD k d = f (l.getD k d') := by
  simp [List.getD_eq_getElem?_getD, List.getElem?_map, List.getElem?_eq_getElem h]

/-- the loop of `compute_path_length_3d` over the lines of sight, for any table of distances `D[j, i]` and any selection
    mask `F[j, i]`: row `i` holds the first selected distance and the differences of consecutive selected distances -/
theorem ray_rows (nH nR : Nat) (D : Nat → Nat → α) (F : Nat → Nat → Bool) :
    rowLists ((List.range' 0 nR).foldl (fun (all_distances : List (Nat × (Nat → α))) (i : Nat) =>
          let layer_filt : Nat → Bool := fun i__ => (F i__ i)
          let nsel3__ := ((List.range nH).filter (fun j__ => (layer_filt j__))).length
          let dists : Nat → α := fun i__ => (D (((List.range nH).filter (fun j__ => (layer_filt j__))).getD i__ 0) i)
          let final_distances : Nat → α := fun _ => (0 : α)
          let final_distances : Nat → α := fun i__ => if i__ = 0 then (dists 0) else final_distances i__
          let final_distances : Nat → α := fun i__ => if 1 ≤ i__ then ((dists (1 + (i__ - 1))) - (dists (i__ - 1))) else final_distances i__
          let all_distances : List (Nat × (Nat → α)) := all_distances ++ [(nsel3__, final_distances)]
          all_distances
        ) [])
      = (List.range nR).map (fun i =>
          (List.range (((List.range nH).filter (fun j => F j i)).map (fun j => D j i)).length).map
            (segs (((List.range nH).filter (fun j => F j i)).map (fun j => D j i)))) := by
  simp only []
  rw [foldl_append_singleton]
  simp only [List.nil_append, rowLists, List.map_map, List.length_map]
  apply List.map_congr_left
  intro i _
  simp only [Function.comp]
  apply List.map_congr_left
  intro k hk
  have hk' : k < ((List.range nH).filter (fun j => F j i)).length := List.mem_range.1 hk
  unfold segs
  by_cases h0 : k = 0
  · subst h0
    simp only [Nat.le_zero_eq, Nat.succ_ne_zero, if_false, if_true]
    rw [getD_map_lt _ _ _ hk' 0 0]
  · have h1 : 1 ≤ k := Nat.one_le_iff_ne_zero.2 h0
    have e : 1 + (k - 1) = k := by omega
    simp only [h1, h0, if_true, if_false, e]
    rw [getD_map_lt _ _ _ hk' 0 0, getD_map_lt _ _ _ (by omega : k - 1 < _) 0 0]


theorem src_compute_path_length_3d (h0 : ∀ x : α, 0 + x = x) (R : α) (alt : Nat → α) (v t : Nat → V3 α)
    (crossing : (Nat → α) → (Nat → Bool) → (Nat → α) → (Nat → Nat → α) → (Nat → Nat → α) → (Nat → Nat → Nat → Nat → α) → (Nat → Nat → Nat → Nat → α))
    (isfinite : α → Bool) (nH nR : Nat) (nan : α)
    (hfin : ∀ i < nR, ∀ j < nH,
      isfinite (hitDistance (intersect R (alt j) (line3d (v i) (t i)).2 (line3d (v i) (t i)).1))
        = decide (0 ≤ (intersect R (alt j) (line3d (v i) (t i)).2 (line3d (v i) (t i)).1).delta))
    (hany : ∃ j < nH, ∃ i < nR, 0 < (intersect R (alt j) (line3d (v i) (t i)).2 (line3d (v i) (t i)).1).delta)
    (hnc : ∀ i < nR, ¬ 0 < deltaP R (line3d (v i) (t i)).2 (line3d (v i) (t i)).1) :
    ∃ L, Gen.SrcC01.compute_path_length_3d R alt (rows v) (rows t) crossing isfinite nH nR nan = some L ∧
      rowLists L = (List.range nR).map (fun i =>
        (List.range (rayDists R nH alt (line3d (v i) (t i)).2 (line3d (v i) (t i)).1).length).map
          (segs (rayDists R nH alt (line3d (v i) (t i)).2 (line3d (v i) (t i)).1))) := by
  obtain ⟨S, hS, hpt⟩ := src_compute_intersection_3d h0 R alt (fun i => (line3d (v i) (t i)).2) (fun i => (line3d (v i) (t i)).1)
    crossing nH nR nan hany hnc
  unfold Gen.SrcC01.compute_path_length_3d
  extract_lets uv ut alt' r1 o u inter
  have hinter : inter = some S := by
    simp only [inter, o, u, r1, uv, ut, alt', src_compute_line_3d h0]
    exact hS
  simp -zeta only [hinter]
  extract_lets distances filt
  refine ⟨_, rfl, ?_⟩
  rw [ray_rows nH nR distances filt]
  apply List.map_congr_left
  intro i hi
  have hi' : i < nR := List.mem_range.1 hi
  have hdist : ∀ j < nH, distances j i = hitDistance (intersect R (alt j) (line3d (v i) (t i)).2 (line3d (v i) (t i)).1) := by
    intro j hj
    simp only [distances, fold3, h0, (hpt j hj i hi' _).1, (hpt j hj i hi' _).2, comp_zero, comp_one, comp_two]
    rfl
  have hlist : ((List.range nH).filter (fun j => filt j i)).map (fun j => distances j i)
      = rayDists R nH alt (line3d (v i) (t i)).2 (line3d (v i) (t i)).1 := by
    unfold rayDists goodSpheres
    have hf : (List.range nH).filter (fun j => filt j i)
        = (List.range nH).filter (fun j => decide (0 ≤ (intersect R (alt j) (line3d (v i) (t i)).2 (line3d (v i) (t i)).1).delta)) := by
      apply List.filter_congr
      intro j hj
      have hj' : j < nH := List.mem_range.1 hj
      simp only [filt, hdist j hj', hfin i hi' j hj']
    rw [hf]
    apply List.map_congr_left
    intro j hj
    exact hdist j (List.mem_range.1 (List.mem_filter.1 hj).1)
  rw [hlist]

/-- the one slice bound of `compute_path_length_3d` (`dists[:-1]`) stays inside the array -/
theorem src_compute_path_length_3d_shapes (R : α) (alt : Nat → α) (v t : Nat → Nat → α)
    (crossing : (Nat → α) → (Nat → Bool) → (Nat → α) → (Nat → Nat → α) → (Nat → Nat → α) → (Nat → Nat → Nat → Nat → α) → (Nat → Nat → Nat → Nat → α))
    (isfinite : α → Bool) (nH nR : Nat) (nan : α) :
    Gen.SrcC01.compute_path_length_3d_shapes R alt v t crossing isfinite nH nR nan := by
  unfold Gen.SrcC01.compute_path_length_3d_shapes
  intros
  exact Nat.sub_le _ _

/-- `BasePlanet.compute_path_length` hands `self.fullRadius` and its arguments to `compute_path_length_3d` -/
theorem src_planet_compute_path_length (rp : α) (alt : Nat → α) (v t : Nat → Nat → α)
    (crossing : (Nat → α) → (Nat → Bool) → (Nat → α) → (Nat → Nat → α) → (Nat → Nat → α) → (Nat → Nat → Nat → Nat → α) → (Nat → Nat → Nat → Nat → α))
    (isfinite : α → Bool) (nH nR : Nat) (nan : α) :
    Gen.SrcC01.planet_compute_path_length alt v t crossing isfinite nH nR nan rp
      = Gen.SrcC01.compute_path_length_3d rp alt v t crossing isfinite nH nR nan := rfl

/-- **the whole 3-D geometry as `TransmissionModel.compute_path_length` calls it** (`src_compute_path_length`: the
    altitude boundaries `zb[0..n]` and, for tangent layer `l`, the line of sight `parallelVector rp (z[l] + dz[l]/2) max(zb)`):
    `planet.compute_path_length` returns, row by row, the model's `Geometry.pathRow3d` — what `driver_c01` serves as
    `c01.paths3d` and the harness compares with `model.path_length` -/
theorem src_planet_paths (h0 : ∀ x : α, 0 + x = x) (rp : α) (n : Nat) (zb z dz : Nat → α)
    (crossing : (Nat → α) → (Nat → Bool) → (Nat → α) → (Nat → Nat → α) → (Nat → Nat → α) → (Nat → Nat → Nat → Nat → α) → (Nat → Nat → Nat → Nat → α))
    (isfinite : α → Bool) (nan : α)
    (hfin : ∀ l < n, ∀ j < n + 1,
      isfinite (hitDistance (intersect rp (zb j)
          (line3d (parallelVector rp (z l + dz l / 2) (arrMax n zb)).1 (parallelVector rp (z l + dz l / 2) (arrMax n zb)).2).2
          (line3d (parallelVector rp (z l + dz l / 2) (arrMax n zb)).1 (parallelVector rp (z l + dz l / 2) (arrMax n zb)).2).1))
        = decide (0 ≤ (intersect rp (zb j)
          (line3d (parallelVector rp (z l + dz l / 2) (arrMax n zb)).1 (parallelVector rp (z l + dz l / 2) (arrMax n zb)).2).2
          (line3d (parallelVector rp (z l + dz l / 2) (arrMax n zb)).1 (parallelVector rp (z l + dz l / 2) (arrMax n zb)).2).1).delta))
    (hany : ∃ j < n + 1, ∃ l < n, 0 < (intersect rp (zb j)
          (line3d (parallelVector rp (z l + dz l / 2) (arrMax n zb)).1 (parallelVector rp (z l + dz l / 2) (arrMax n zb)).2).2
          (line3d (parallelVector rp (z l + dz l / 2) (arrMax n zb)).1 (parallelVector rp (z l + dz l / 2) (arrMax n zb)).2).1).delta)
    (hnc : ∀ l < n, ¬ 0 < deltaP rp
          (line3d (parallelVector rp (z l + dz l / 2) (arrMax n zb)).1 (parallelVector rp (z l + dz l / 2) (arrMax n zb)).2).2
          (line3d (parallelVector rp (z l + dz l / 2) (arrMax n zb)).1 (parallelVector rp (z l + dz l / 2) (arrMax n zb)).2).1) :
    ∃ L, Gen.SrcC01.planet_compute_path_length zb
        (rows (fun l => (parallelVector rp (z l + dz l / 2) (arrMax n zb)).1))
        (rows (fun l => (parallelVector rp (z l + dz l / 2) (arrMax n zb)).2)) crossing isfinite (n + 1) n nan rp = some L ∧
      rowLists L = (List.range n).map (fun l => pathRow3d rp n zb z dz l) := by
  rw [src_planet_compute_path_length]
  exact src_compute_path_length_3d h0 rp zb _ _ crossing isfinite (n + 1) n nan hfin hany hnc

end

end Taurex.C01Src
