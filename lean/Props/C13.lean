/-
  C13 — restricting the spectral grid never changes the values computed on it.
  Theorems about `Taurex.Grid` (clip of the native grid, opacity on a requested grid) and about the forward
  models of C01/C02 (`Taurex.Transmission`, `Taurex.Emission`): they are column-wise, the saturation cut-off
  being the only coupling between wavenumbers.
-/
import Proofs.C13Lemmas

namespace Taurex.C13
open Taurex.Grid Taurex.C13L

/-- the clipped grid is an ordered sub-list of the native grid -/
theorem clip_sub (native wngrid : List ℝ) : (clipNative native wngrid).Sublist native := by
  unfold clipNative; exact List.filter_sublist

/-- exactly the native points within the request range widened by the margin survive the clip -/
theorem clip_mem_iff (native wngrid : List ℝ) (x : ℝ) :
    x ∈ clipNative native wngrid ↔
      x ∈ native ∧ minL wngrid - clipMargin wngrid ≤ x ∧ x ≤ maxL wngrid + clipMargin wngrid := by
  unfold clipNative inClip
  simp [List.mem_filter]

/-- every native point inside the requested range (between the smallest and largest requested wavenumber)
    is kept: the margin is never negative -/
theorem clip_keeps_requested (native wngrid : List ℝ) (x : ℝ) (hx : x ∈ native)
    (hlo : minL wngrid ≤ x) (hhi : x ≤ maxL wngrid) : x ∈ clipNative native wngrid := by
  rw [clip_mem_iff]
  have := clipMargin_nonneg wngrid
  exact ⟨hx, by linarith, by linarith⟩

/-- clipping twice with the same request is clipping once (the restricted run is stable) -/
theorem clip_idem (native wngrid : List ℝ) :
    clipNative (clipNative native wngrid) wngrid = clipNative native wngrid := by
  unfold clipNative; simp [List.filter_filter]

/-- **own_grid_identity**: when the native points inside the requested range are the request itself, the
    opacities of those points are returned unchanged (no interpolation) -/
theorem own_grid_identity (nativeWn vals req : List ℝ)
    (h : ((nativeWn.zip vals).filter (fun p => inRange req p.1)).map (·.1) = req) :
    opacityOnGrid nativeWn vals req = ((nativeWn.zip vals).filter (fun p => inRange req p.1)).map (·.2) := by
  unfold opacityOnGrid
  simp only
  rw [if_pos ((eqL_iff _ _).2 h)]

/-- **other_grid_between**: on any other request every returned opacity lies between the smallest and largest of
    the native values it was interpolated from (native grid non-decreasing, request overlapping it) -/
theorem other_grid_between (nativeWn vals req : List ℝ) (lo hi : ℝ)
    (hlen : nativeWn.length = vals.length) (hs : nativeWn.Pairwise (· ≤ ·))
    (hv : ∀ v ∈ vals, lo ≤ v ∧ v ≤ hi)
    (hne : 0 < ((nativeWn.drop (Interp.searchRight nativeWn (minL req) - 1)).take
      (min (Interp.searchLeft nativeWn (maxL req)) (nativeWn.length - 1) + 1 -
        (Interp.searchRight nativeWn (minL req) - 1))).length) :
    ∀ y ∈ opacityOnGrid nativeWn vals req, lo ≤ y ∧ y ≤ hi := by
  intro y hy
  unfold opacityOnGrid at hy
  simp only at hy
  split at hy
  · -- identity branch: a selection of `vals`
    rw [List.mem_map] at hy
    obtain ⟨p, hp, rfl⟩ := hy
    have hp' := (List.mem_filter.1 hp).1
    exact hv _ (List.of_mem_zip hp').2
  · rw [List.mem_map] at hy
    obtain ⟨x, _, rfl⟩ := hy
    apply NpInterp.npInterp_between (lo := lo) (hi := hi)
    · simp only [List.length_take, List.length_drop]; omega
    · exact hne
    · exact (hs.sublist (List.drop_sublist _ _)).sublist (List.take_sublist _ _)
    · intro v hvm
      exact hv v (List.mem_of_mem_drop (List.mem_of_mem_take hvm))

-- non-vacuity: a request between native points of a 4-point grid satisfies the hypotheses of `other_grid_between`
example : ([1, 2, 3, 4] : List ℝ).Pairwise (· ≤ ·) := by norm_num

end Taurex.C13
