/-
  C13 — restricting the spectral grid never changes the values computed on it.
  Theorems about `Taurex.Grid` (clip of the native grid, opacity on a requested grid) and about the forward
  models of C01/C02 (`Taurex.Transmission`, `Taurex.Emission`): they are column-wise, the saturation cut-off
  being the only coupling between wavenumbers.
-/
import Proofs.C13Lemmas
import Proofs.C13Columns
import Props.C01
import Props.C02
import Proofs.C13Binning
import Proofs.C13Clip
import Proofs.C13Final
import Proofs.C13Cond
import Props.C05

namespace Taurex.C13
open Taurex.Grid Taurex.C13L

/-- the clipped grid is an ordered sub-list of the native grid -/
theorem clip_sub (native wngrid : List ℝ) : (clipNative native wngrid).Sublist native := by
  unfold clipNative; exact List.filter_sublist

/-- exactly the native points within the request range widened by the margin survive the clip -/
theorem clip_mem_iff (native wngrid : List ℝ) (x : ℝ) :
    x ∈ clipNative native wngrid ↔
      x ∈ native ∧ minL wngrid - clipMargin wngrid ≤ x ∧ x ≤ maxL wngrid + clipMargin wngrid := by
  unfold clipNative inClip
  simp [List.mem_filter]

/-- every native point inside the requested range (between the smallest and largest requested wavenumber)
    is kept: the margin is never negative -/
theorem clip_keeps_requested (native wngrid : List ℝ) (x : ℝ) (hx : x ∈ native)
    (hlo : minL wngrid ≤ x) (hhi : x ≤ maxL wngrid) : x ∈ clipNative native wngrid := by
  rw [clip_mem_iff]
  have := clipMargin_nonneg wngrid
  exact ⟨hx, by linarith, by linarith⟩

/-- clipping twice with the same request is clipping once (the restricted run is stable) -/
theorem clip_idem (native wngrid : List ℝ) :
    clipNative (clipNative native wngrid) wngrid = clipNative native wngrid := by
  unfold clipNative; simp [List.filter_filter]

/-- **own_grid_identity**: when the native points inside the requested range are the request itself, the
    opacities of those points are returned unchanged (no interpolation) -/
theorem own_grid_identity (nativeWn vals req : List ℝ)
    (h : ((nativeWn.zip vals).filter (fun p => inRange req p.1)).map (·.1) = req) :
    opacityOnGrid nativeWn vals req = ((nativeWn.zip vals).filter (fun p => inRange req p.1)).map (·.2) := by
  unfold opacityOnGrid
  simp only
  rw [if_pos ((eqL_iff _ _).2 h)]

/-- **other_grid_between**: on any other request every returned opacity lies between the smallest and largest of
    the native values it was interpolated from (native grid non-decreasing, request overlapping it) -/
theorem other_grid_between (nativeWn vals req : List ℝ) (lo hi : ℝ)
    (hlen : nativeWn.length = vals.length) (hs : nativeWn.Pairwise (· ≤ ·))
    (hv : ∀ v ∈ vals, lo ≤ v ∧ v ≤ hi)
    (hne : 0 < ((nativeWn.drop (Interp.searchRight nativeWn (minL req) - 1)).take
      (min (Interp.searchLeft nativeWn (maxL req)) (nativeWn.length - 1) + 1 -
        (Interp.searchRight nativeWn (minL req) - 1))).length) :
    ∀ y ∈ opacityOnGrid nativeWn vals req, lo ≤ y ∧ y ≤ hi := by
  intro y hy
  unfold opacityOnGrid at hy
  simp only at hy
  split at hy
  · -- identity branch: a selection of `vals`
    rw [List.mem_map] at hy
    obtain ⟨p, hp, rfl⟩ := hy
    have hp' := (List.mem_filter.1 hp).1
    exact hv _ (List.of_mem_zip hp').2
  · rw [List.mem_map] at hy
    obtain ⟨x, _, rfl⟩ := hy
    apply NpInterp.npInterp_between (lo := lo) (hi := hi)
    · simp only [List.length_take, List.length_drop]; omega
    · exact hne
    · exact (hs.sublist (List.drop_sublist _ _)).sublist (List.take_sublist _ _)
    · intro v hvm
      exact hv v (List.mem_of_mem_drop (List.mem_of_mem_take hvm))

-- non-vacuity: a request between native points of a 4-point grid satisfies the hypotheses of `other_grid_between`
example : ([1, 2, 3, 4] : List ℝ).Pairwise (· ≤ ·) := by norm_num

/-! ### the forward model is column-wise (transmission; the C01 model) -/

open Taurex.Transmission in
/-- **column_independent (no early exit)**: evaluating the transmission model on any selection `σ` of the
    wavenumber columns (a sub-range, a clipped grid, any subset in any order) gives, at every selected column,
    exactly the value of the full computation at that wavenumber — optical depth and transit depth alike. -/
theorem column_independent_trans (σ : ℕ → ℕ) (newMethod : Bool) (rp rs : ℝ) (n nwn nwn' : ℕ)
    (zb z dz dens : ℕ → ℝ) (cs : List (Contrib ℝ)) (w : ℕ) :
    (∀ l, modelTrans false newMethod rp n nwn' zb z dz dens (cs.map (reindex σ)) l w
        = modelTrans false newMethod rp n nwn zb z dz dens cs l (σ w)) ∧
    modelDepth false newMethod rp rs n nwn' zb z dz dens (cs.map (reindex σ)) w
      = modelDepth false newMethod rp rs n nwn zb z dz dens cs (σ w) := by
  have h : ∀ l, modelTrans false newMethod rp n nwn' zb z dz dens (cs.map (reindex σ)) l w
        = modelTrans false newMethod rp n nwn zb z dz dens cs l (σ w) := by
    intro l
    simp only [modelTrans, Bool.false_eq_true, if_false, tauFull]
    rw [tauFullFrom_reindex σ n _ dens l cs (fun _ => 0) (fun _ => 0) (fun _ => rfl) w]
  refine ⟨h, ?_⟩
  unfold modelDepth
  simp only [h]

open Taurex.Transmission in
/-- **column_within_cutoff**: with the `tau.min() > 10` early exit (the only coupling between wavenumbers), the
    optical depth of a selected column in the restricted run and in the full run are both bounded by the full
    sum and each either equals it or is already above 10 — so the two transmittances differ by at most
    `exp(-10)` (the licensed band of C01). -/
theorem column_within_cutoff (σ : ℕ → ℕ) (n nwn nwn' : ℕ) (path dens : ℕ → ℝ) (l : ℕ)
    (hp : ∀ k < n - l, 0 ≤ path k) (hd : ∀ j < n, 0 ≤ dens j) (cs : List (Contrib ℝ))
    (hcs : ∀ c ∈ cs, c.Nonneg) (w : ℕ) (hw : w < nwn') (hσ : σ w < nwn) :
    let full := tauFull n path dens l cs (σ w)
    let tR := tauCut n nwn' path dens l (cs.map (reindex σ)) w
    let tF := tauCut n nwn path dens l cs (σ w)
    tR ≤ full ∧ (tR = full ∨ 10 < tR) ∧ tF ≤ full ∧ (tF = full ∨ 10 < tF) := by
  have hcs' : ∀ c ∈ cs.map (reindex σ), c.Nonneg := by
    intro c hc
    obtain ⟨c0, h0, rfl⟩ := List.mem_map.1 hc
    intro l' wn'; exact hcs c0 h0 l' (σ wn')
  obtain ⟨a1, a2⟩ := Taurex.C01.cutoff_licensed n nwn' path dens l hp hd (cs.map (reindex σ)) hcs'
  obtain ⟨b1, b2⟩ := Taurex.C01.cutoff_licensed n nwn path dens l hp hd cs hcs
  have e : tauFull n path dens l (cs.map (reindex σ)) w = tauFull n path dens l cs (σ w) := by
    unfold tauFull
    exact tauFullFrom_reindex σ n path dens l cs (fun _ => 0) (fun _ => 0) (fun _ => rfl) w
  refine ⟨by rw [← e]; exact a1 w, ?_, b1 (σ w), ?_⟩
  · rcases a2 with h | h
    · left; rw [← e]; exact h w
    · right; exact h w hw
  · rcases b2 with h | h
    · left; exact h (σ w)
    · right; exact h (σ w) hσ

/-! ### emission (the C02 model) -/

open Taurex.Emission in
/-- **column_within_clamp (emission)**: the documented (unclamped) emission intensity of a column,
    `intensityUncut`, does not take the other columns as an argument at all; the code's clamped intensity does, only
    through the `x.min() < 10` clamp, and for any two sets of computed columns `cols₁`, `cols₂` (the full native grid
    and a restricted grid, say) containing the column the two results differ by at most `exp(-10)` times the source
    functions of the layers clamped in either run. -/
theorem column_within_clamp_emission (k : PC ℝ) (cols₁ cols₂ : List (Col ℝ)) (dz dens temps : List ℝ) (col : Col ℝ)
    (tmin tmax m : ℝ) (hv₁ : Taurex.C02.Valid k cols₁ dz dens temps col tmin tmax)
    (hv₂ : Taurex.C02.Valid k cols₂ dz dens temps col tmin tmax) (hm : 1 ≤ m) :
    |intensity k cols₁ dz dens temps m col - intensity k cols₂ dz dens temps m col|
      ≤ Real.exp (-10) * (((rowsOf k cols₁ dz dens temps col).map (fun r => if r.keepD then 0 else r.b)).sum
          + ((rowsOf k cols₂ dz dens temps col).map (fun r => if r.keepD then 0 else r.b)).sum) := by
  have h1 := Taurex.C02.clamp_band k cols₁ dz dens temps col tmin tmax m hv₁ hm
  have h2 := Taurex.C02.clamp_band k cols₂ dz dens temps col tmin tmax m hv₂ hm
  have e : intensity k cols₁ dz dens temps m col - intensity k cols₂ dz dens temps m col
      = (intensity k cols₁ dz dens temps m col - intensityUncut k dz dens temps m col)
        - (intensity k cols₂ dz dens temps m col - intensityUncut k dz dens temps m col) := by ring
  rw [e, mul_add]
  exact le_trans (abs_sub _ _) (add_le_add h1 h2)

/-! ### binning the restricted run -/

open Taurex.Binning in
/-- **bin_sees_overlapping_only**: the value `FluxBinner` computes for a target bin `[a, b]` depends only on the
    native bins that overlap it.  Consequently (**bin_clip_eq_partial**) if the native bins of the full run and of
    the restricted run (both ordered, both overlapping the target) have the same overlapping bins — same centres,
    widths and values — the two binned values are equal.
    That the property's width condition (no observation bin wider than the widest mid-point bin `W`, native spacing
    below `W/2`) makes the overlapping bins of the clipped grid (margin `5/4·W`, edge bins re-derived from their
    neighbours) coincide with those of the full grid is `bin_clip_eq_property` below. -/
theorem bin_clip_eq_partial (val : Row ℝ → ℝ) (full clipped : List (Row ℝ)) (a b : ℝ) (hab : a < b)
    (hf : full ≠ []) (hc : clipped ≠ [])
    (hordF : OrderedBins full) (hordC : OrderedBins clipped)
    (hwF : ∀ r ∈ full, r.lo ≤ r.hi) (hwC : ∀ r ∈ clipped, r.lo ≤ r.hi)
    (hposF : 0 < sumL (full.map (overlap a b))) (hposC : 0 < sumL (clipped.map (overlap a b)))
    (hsame : overlapping a b full = overlapping a b clipped) :
    fluxBinVal val full a b = fluxBinVal val clipped a b := by
  rw [flux_eq_spec val full a b hf hordF hwF hab hposF, flux_eq_spec val clipped a b hc hordC hwC hab hposC,
      spec_overlapping val full, spec_overlapping val clipped, hsame]

open Taurex.Binning in
/-- **bin_clip_eq**: binning the restricted run equals binning the full run.  `full` are the native points in
    increasing wavenumber (with their spectrum values), the restricted run computes the contiguous sub-range
    `(full.drop i).take m`; in both runs the bins are the mid-point bins (`nativeBins false`).  If both grids satisfy
    the mid-point spacing condition of C05 (linear, logarithmic and constant-R grids do: `linear_spacing_ok`,
    `geometric_spacing_ok`), the target bin `[a, b]` overlaps the data, and it does not reach (i) the two outermost
    bins of the restricted run — the only ones whose width is re-derived from one neighbour — nor (ii) any bin of the
    full grid outside the interior of the sub-range, then the two binned values are equal.
    (The property's width condition — observation bins no wider than the widest mid-point bin `W`, clip margin
    `5/4·W`, native spacing at most `W/2` — makes (i) and (ii) true for every observation bin:
    `bin_clip_eq_condition`, `bin_clip_eq_property`.) -/
theorem bin_clip_eq (val : Row ℝ → ℝ) (full : List (Row ℝ)) (i m : Nat) (a b : ℝ) (hab : a < b)
    (hg : (full.map Row.c).Pairwise (· < ·)) (hm : 2 ≤ m) (him : i + m ≤ full.length)
    (hokF : MidpointSpacingOK (full.map Row.c))
    (hokC : MidpointSpacingOK (((full.drop i).take m).map Row.c))
    (hposF : 0 < sumL ((nativeBins false full).map (overlap a b)))
    (hposC : 0 < sumL ((nativeBins false ((full.drop i).take m)).map (overlap a b)))
    (hc1 : ∀ r ∈ (nativeBins false ((full.drop i).take m)).take 1, overlap a b r = 0)
    (hc2 : ∀ r ∈ (nativeBins false ((full.drop i).take m)).drop (m - 1), overlap a b r = 0)
    (hf1 : ∀ r ∈ (nativeBins false full).take (i + 1), overlap a b r = 0)
    (hf2 : ∀ r ∈ (nativeBins false full).drop (i + m - 1), overlap a b r = 0) :
    fluxBinVal val (nativeBins false full) a b = fluxBinVal val (nativeBins false ((full.drop i).take m)) a b := by
  have hlenF : 2 ≤ full.length := by omega
  have hlenC : ((full.drop i).take m).length = m := length_drop_take full i m him
  have hgC : (((full.drop i).take m).map Row.c).Pairwise (· < ·) := by
    rw [map_drop_take]; exact sub_increasing _ i m hg
  obtain ⟨oF, wF⟩ := Taurex.C05.midpoint_bins_ordered full hlenF hg hokF
  obtain ⟨oC, wC⟩ := Taurex.C05.midpoint_bins_ordered ((full.drop i).take m) (by omega) hgC hokC
  have neF : nativeBins false full ≠ [] := by
    intro h; have := length_nativeBins_false full (by omega); rw [h] at this; simp at this; omega
  have neC : nativeBins false ((full.drop i).take m) ≠ [] := by
    intro h; have := length_nativeBins_false ((full.drop i).take m) (by omega); rw [h] at this; simp at this; omega
  exact bin_clip_eq_partial val _ _ a b hab neF neC oF oC wF wC hposF hposC
    (clip_overlapping_eq full i m a b hg hm him hc1 hc2 hf1 hf2)

open Taurex.Binning in
/-- **bin_clip_eq (uniform native grid)**: with constant native spacing the restricted run has *exactly* the bins of
    the full run on the sub-range, so the binned values agree as soon as the target reaches no full-grid bin outside
    the sub-range — no condition on the outermost restricted bins. -/
theorem bin_clip_eq_uniform (val : Row ℝ → ℝ) (full : List (Row ℝ)) (i m : Nat) (a b d : ℝ) (hab : a < b) (hd0 : 0 < d)
    (hd : ∀ j, j + 1 < (full.map Row.c).length → spacing (full.map Row.c) j = d)
    (hm : 2 ≤ m) (him : i + m ≤ full.length)
    (hposF : 0 < sumL ((nativeBins false full).map (overlap a b)))
    (hposC : 0 < sumL ((nativeBins false ((full.drop i).take m)).map (overlap a b)))
    (hf1 : ∀ r ∈ (nativeBins false full).take i, overlap a b r = 0)
    (hf2 : ∀ r ∈ (nativeBins false full).drop (i + m), overlap a b r = 0) :
    fluxBinVal val (nativeBins false full) a b = fluxBinVal val (nativeBins false ((full.drop i).take m)) a b := by
  have hg : (full.map Row.c).Pairwise (· < ·) := linear_increasing _ d hd0 hd
  have hlenF : 2 ≤ full.length := by omega
  have hlenC : ((full.drop i).take m).length = m := length_drop_take full i m him
  have hgC : (((full.drop i).take m).map Row.c).Pairwise (· < ·) := by
    rw [map_drop_take]; exact sub_increasing _ i m hg
  have hdC : ∀ j, j + 1 < (((full.drop i).take m).map Row.c).length →
      spacing (((full.drop i).take m).map Row.c) j = d := by
    intro j hj
    rw [List.length_map, hlenC] at hj
    rw [map_drop_take, spacing_drop_take _ i m j hj]
    apply hd; rw [List.length_map]; omega
  obtain ⟨oF, wF⟩ := Taurex.C05.midpoint_bins_ordered full hlenF hg (linear_spacing_ok _ d hd0.le hd)
  obtain ⟨oC, wC⟩ := Taurex.C05.midpoint_bins_ordered ((full.drop i).take m) (by omega) hgC
    (linear_spacing_ok _ d hd0.le hdC)
  have neF : nativeBins false full ≠ [] := by
    intro h; have := length_nativeBins_false full (by omega); rw [h] at this; simp at this; omega
  have neC : nativeBins false ((full.drop i).take m) ≠ [] := by
    intro h; have := length_nativeBins_false ((full.drop i).take m) (by omega); rw [h] at this; simp at this; omega
  exact bin_clip_eq_partial val _ _ a b hab neF neC oF oC wF wC hposF hposC
    (clip_uniform_overlapping_eq full i m a b d hd0 hd hm him hf1 hf2)

open Taurex.Binning in
/-- **bin_clip_eq on a uniform native grid, interval form** — with no hypothesis about which bins overlap.
    `full` are the native points in increasing wavenumber with constant spacing `d`; the restricted run keeps the
    native points in a clip interval `[L, U]`.  If the target `[a, b]` stays `W/2` inside the interval
    (`L + W/2 ≤ a`, `b ≤ U - W/2`) for some `W ≥ d`, then binning the restricted run equals binning the full run.
    For the code (`L = min(obs) - 5/4·W'`, `U = max(obs) + 5/4·W'`, `W'` the widest requested bin, a requested bin
    reaching at most `W'/2` beyond the outermost centres) take `W = 3/2·W'`: `bin_clip_eq_uniform_property`. -/
theorem bin_clip_eq_uniform_condition (val : Row ℝ → ℝ) (full : List (Row ℝ)) (d W L U a b : ℝ)
    (hd0 : 0 < d) (hd : ∀ j, j + 1 < (full.map Row.c).length → spacing (full.map Row.c) j = d)
    (hdW : d ≤ W) (hab : a < b) (ha : L + W / 2 ≤ a) (hb : b ≤ U - W / 2)
    (hkept : 2 ≤ (full.filter (inside L U)).length)
    (hposF : 0 < sumL ((nativeBins false full).map (overlap a b)))
    (hposC : 0 < sumL ((nativeBins false (full.filter (inside L U))).map (overlap a b))) :
    fluxBinVal val (nativeBins false full) a b = fluxBinVal val (nativeBins false (full.filter (inside L U))) a b := by
  have hg : (full.map Row.c).Pairwise (· < ·) := linear_increasing _ d hd0 hd
  obtain ⟨i, m, him, hfil, hlo, hhi⟩ := filter_interval_sorted L U full hg
  have hm : 2 ≤ m := by
    rw [hfil, length_drop_take full i m him] at hkept; exact hkept
  have hn : 2 ≤ full.length := by omega
  rw [hfil] at hposC ⊢
  refine bin_clip_eq_uniform val full i m a b d hab hd0 hd hm him hposF hposC ?_ ?_
  · intro r hr
    obtain ⟨hw, r0, hr0, hc⟩ := uniform_rows_take full d hd0 hd hn i r hr
    apply overlap_zero_of_disjoint; left
    have := hlo r0 hr0
    unfold Row.hi; rw [hw, hc]; linarith
  · intro r hr
    obtain ⟨hw, r0, hr0, hc⟩ := uniform_rows_drop full d hd0 hd hn (i + m) r hr
    apply overlap_zero_of_disjoint; right
    have := hhi r0 hr0
    unfold Row.lo; rw [hw, hc]; linarith

-- non-vacuity of `bin_clip_eq_uniform_condition`: five native points 1..5 (d = 1), W = 1, clip interval [2, 4],
-- target [2.5, 3.5]: constant spacing, d ≤ W, the target sticks out of [3, 3] by W/2, and three points survive the clip
open Taurex.Binning in
example :
    let full : List (Row ℝ) := [⟨1, 0, 10, 0⟩, ⟨2, 0, 20, 0⟩, ⟨3, 0, 30, 0⟩, ⟨4, 0, 40, 0⟩, ⟨5, 0, 50, 0⟩]
    (∀ j, j + 1 < (full.map Row.c).length → spacing (full.map Row.c) j = 1) ∧ (1 : ℝ) ≤ 1 ∧ (2.5 : ℝ) < 3.5 ∧
    (2 : ℝ) + 1 / 2 ≤ 2.5 ∧ (3.5 : ℝ) ≤ 4 - 1 / 2 ∧ 2 ≤ (full.filter (inside 2 4)).length := by
  intro full
  refine ⟨?_, le_refl _, by norm_num, by norm_num, by norm_num, ?_⟩
  · intro j hj
    simp only [full, List.map_cons, List.map_nil, List.length_cons, List.length_nil] at hj
    have : j = 0 ∨ j = 1 ∨ j = 2 ∨ j = 3 := by omega
    rcases this with rfl | rfl | rfl | rfl <;> norm_num [full, spacing]
  · norm_num [full, inside, List.filter]

open Taurex.Binning in
/-- **bin_clip_eq on a uniform native grid, for the code's clip**: constant native spacing `d ≤ 3/2·W` (`W` the
    widest requested bin; the property asks for `d < W/2`), requested bin `[a, b]` reaching at most `W/2` beyond the
    outermost requested centres, the restricted run = the rows kept by `clip_native_to_wngrid` (margin `5/4·W`):
    binning the restricted run equals binning the full run. -/
theorem bin_clip_eq_uniform_property (val : Row ℝ → ℝ) (full : List (Row ℝ)) (obs : List ℝ) (d a b : ℝ)
    (hd0 : 0 < d) (hd : ∀ j, j + 1 < (full.map Row.c).length → spacing (full.map Row.c) j = d)
    (hdW : d ≤ 3 / 2 * widestBin obs) (hab : a < b)
    (ha : minL obs - widestBin obs / 2 ≤ a) (hb : b ≤ maxL obs + widestBin obs / 2)
    (hkept : 2 ≤ (clipNative (full.map Row.c) obs).length)
    (hposF : 0 < sumL ((nativeBins false full).map (overlap a b)))
    (hposC : 0 < sumL ((nativeBins false (full.filter (fun r => inClip obs r.c))).map (overlap a b))) :
    fluxBinVal val (nativeBins false full) a b =
      fluxBinVal val (nativeBins false (full.filter (fun r => inClip obs r.c))) a b := by
  have e : full.filter (fun r => inClip obs r.c) =
      full.filter (inside (minL obs - clipMargin obs) (maxL obs + clipMargin obs)) := rfl
  rw [e] at hposC ⊢
  rw [← filter_inside_clipNative, List.length_map] at hkept
  refine bin_clip_eq_uniform_condition val full d (3 / 2 * widestBin obs) _ _ a b hd0 hd hdW hab ?_ ?_ hkept hposF hposC
  · unfold clipMargin; linarith
  · unfold clipMargin; linarith

open Taurex.Binning in
/-- **bin_clip_eq, interval form (any native grid)** — the general geometric statement, with no hypothesis about
    which bins overlap.  `full` are the native points in strictly increasing wavenumber (linear, logarithmic,
    constant-R or arbitrary) whose mid-point bins are ordered: `MidpointSpacingOK` for the native grid and for the
    kept points (the end clauses of that condition look at one neighbour only, so a sub-range does not inherit it;
    `bin_clip_eq_condition_ratio` replaces both by one hereditary condition).  The restricted run keeps the native
    points of a clip interval `[L, U]`.  If every native spacing is at most `d` and the target `[a, b]` stays
    `3/2·d` inside the interval (`L + 3/2·d ≤ a`, `b ≤ U - 3/2·d`) and overlaps the data, then binning the
    restricted run equals binning the full run.
    Where the clip cuts nothing at an end, the outermost restricted bin *is* the outermost full bin; where it cuts,
    the re-derived edge bin (centre less than one spacing inside `[L, U]`, width one spacing) and its full-grid
    counterpart both end within `3/2·d` of the interval's end.
    Corollaries: `bin_clip_eq_property` (the code: margin `5/4·W`, spacing `≤ W/2`), `bin_clip_eq_pinned` (the
    pre-fix margin `W` needs spacing `≤ W/3`; `bin_clip_condition_sharp`: no weaker bound would do). -/
theorem bin_clip_eq_condition (val : Row ℝ → ℝ) (full : List (Row ℝ)) (d L U a b : ℝ)
    (hg : (full.map Row.c).Pairwise (· < ·))
    (hokF : MidpointSpacingOK (full.map Row.c))
    (hokC : MidpointSpacingOK ((full.filter (inside L U)).map Row.c))
    (hd : ∀ j, j + 1 < (full.map Row.c).length → spacing (full.map Row.c) j ≤ d)
    (hab : a < b) (ha : L + 3 / 2 * d ≤ a) (hb : b ≤ U - 3 / 2 * d)
    (hkept : 2 ≤ (full.filter (inside L U)).length)
    (hposF : 0 < sumL ((nativeBins false full).map (overlap a b))) :
    fluxBinVal val (nativeBins false full) a b = fluxBinVal val (nativeBins false (full.filter (inside L U))) a b := by
  obtain ⟨i, m, him, hfil, hlo, hhi⟩ := filter_interval_sorted L U full hg
  have hm : 2 ≤ m := by
    rw [hfil, length_drop_take full i m him] at hkept; exact hkept
  rw [hfil] at hokC ⊢
  have hsame := clip_condition_overlapping_eq full i m d L U a b hg hm him hd ha hb hlo hhi
  have hposC : 0 < sumL ((nativeBins false ((full.drop i).take m)).map (overlap a b)) := by
    rw [sum_overlap_overlapping, ← hsame, ← sum_overlap_overlapping]; exact hposF
  have hlenF : 2 ≤ full.length := by omega
  have hlenC : ((full.drop i).take m).length = m := length_drop_take full i m him
  have hgC : (((full.drop i).take m).map Row.c).Pairwise (· < ·) := by
    rw [map_drop_take]; exact sub_increasing _ i m hg
  obtain ⟨oF, wF⟩ := Taurex.C05.midpoint_bins_ordered full hlenF hg hokF
  obtain ⟨oC, wC⟩ := Taurex.C05.midpoint_bins_ordered ((full.drop i).take m) (by omega) hgC hokC
  have neF : nativeBins false full ≠ [] := by
    intro h; have := length_nativeBins_false full (by omega); rw [h] at this; simp at this; omega
  have neC : nativeBins false ((full.drop i).take m) ≠ [] := by
    intro h; have := length_nativeBins_false ((full.drop i).take m) (by omega); rw [h] at this; simp at this; omega
  exact bin_clip_eq_partial val _ _ a b hab neF neC oF oC wF wC hposF hposC hsame

open Taurex.Binning in
/-- the same with one hereditary hypothesis on the native grid instead of the two `MidpointSpacingOK`:
    neighbouring spacings within a factor 4 of each other (`RatioOK`; linear grids, and logarithmic / constant-R
    grids with step ratio `≤ 4`: `geometric_ratio_ok`) -/
theorem bin_clip_eq_condition_ratio (val : Row ℝ → ℝ) (full : List (Row ℝ)) (d L U a b : ℝ)
    (hg : (full.map Row.c).Pairwise (· < ·)) (hr : RatioOK (full.map Row.c))
    (hd : ∀ j, j + 1 < (full.map Row.c).length → spacing (full.map Row.c) j ≤ d)
    (hab : a < b) (ha : L + 3 / 2 * d ≤ a) (hb : b ≤ U - 3 / 2 * d)
    (hkept : 2 ≤ (full.filter (inside L U)).length)
    (hposF : 0 < sumL ((nativeBins false full).map (overlap a b))) :
    fluxBinVal val (nativeBins false full) a b = fluxBinVal val (nativeBins false (full.filter (inside L U))) a b := by
  refine bin_clip_eq_condition val full d L U a b hg (ratio_spacing_ok _ hg hr) ?_ hd hab ha hb hkept hposF
  obtain ⟨i, m, him, hfil, _, _⟩ := filter_interval_sorted L U full hg
  rw [hfil, map_drop_take]
  exact ratio_spacing_ok _ (sub_increasing _ i m hg) (ratio_sub _ i m (by rw [List.length_map]; exact him) hr)

/-- the rows whose centre survives the code's clip (`L = min(obs) - 5/4·W`, `U = max(obs) + 5/4·W`) have the
    centres `clipNative` (= `clip_native_to_wngrid`, `Props/C13Src.lean:src_clip_native`) returns -/
theorem clip_rows_eq_clipNative (full : List (Binning.Row ℝ)) (obs : List ℝ) :
    (full.filter (fun r => inClip obs r.c)).map Binning.Row.c = clipNative (full.map Binning.Row.c) obs :=
  filter_inside_clipNative full obs

/-- the same for the pre-fix clip (margin `W`) -/
theorem clip_rows_eq_clipNativePinned (full : List (Binning.Row ℝ)) (obs : List ℝ) :
    (full.filter (fun r => inClipPinned obs r.c)).map Binning.Row.c =
      clipNativePinned (full.map Binning.Row.c) obs :=
  filter_inside_clipNativePinned full obs

open Taurex.Binning in
/-- **bin_clip_eq — the property's statement, for the code as it is**: "binning the restricted result to the
    observation equals binning the full result whenever no observation bin is wider than the widest bin implied by
    the mid-points between neighbouring bin centres and the native grid is finer than half that width".
    `obs` are the requested bin centres, `W = widestBin obs` the widest mid-point bin; `full` the native points in
    strictly increasing wavenumber with ordered mid-point bins (native and kept grid), **every native spacing
    `≤ W/2`**; the restricted run holds the rows kept by `clip_native_to_wngrid` (`clipNative`: margin `5/4·W`,
    `clip_rows_eq_clipNative`); the observation bin `[a, b]` reaches at most `W/2` beyond the smallest / largest
    requested centre (its centre is one of the requested centres and it is no wider than `W`) and overlaps the data.
    Then the two binned values are equal. -/
theorem bin_clip_eq_property (val : Row ℝ → ℝ) (full : List (Row ℝ)) (obs : List ℝ) (a b : ℝ)
    (hg : (full.map Row.c).Pairwise (· < ·))
    (hokF : MidpointSpacingOK (full.map Row.c))
    (hokC : MidpointSpacingOK (clipNative (full.map Row.c) obs))
    (hsp : ∀ j, j + 1 < (full.map Row.c).length → spacing (full.map Row.c) j ≤ widestBin obs / 2)
    (hab : a < b) (ha : minL obs - widestBin obs / 2 ≤ a) (hb : b ≤ maxL obs + widestBin obs / 2)
    (hkept : 2 ≤ (clipNative (full.map Row.c) obs).length)
    (hposF : 0 < sumL ((nativeBins false full).map (overlap a b))) :
    fluxBinVal val (nativeBins false full) a b =
      fluxBinVal val (nativeBins false (full.filter (fun r => inClip obs r.c))) a b := by
  have e : full.filter (fun r => inClip obs r.c) =
      full.filter (inside (minL obs - clipMargin obs) (maxL obs + clipMargin obs)) := rfl
  rw [e]
  rw [← filter_inside_clipNative] at hokC hkept
  rw [List.length_map] at hkept
  refine bin_clip_eq_condition val full (widestBin obs / 2) _ _ a b hg hokF hokC hsp hab ?_ ?_ hkept hposF
  · unfold clipMargin; linarith
  · unfold clipMargin; linarith

open Taurex.Binning in
/-- the property's statement with the hereditary spacing condition `RatioOK` (linear, logarithmic and constant-R
    native grids with step ratio `≤ 4`) instead of the two `MidpointSpacingOK` -/
theorem bin_clip_eq_property_ratio (val : Row ℝ → ℝ) (full : List (Row ℝ)) (obs : List ℝ) (a b : ℝ)
    (hg : (full.map Row.c).Pairwise (· < ·)) (hr : RatioOK (full.map Row.c))
    (hsp : ∀ j, j + 1 < (full.map Row.c).length → spacing (full.map Row.c) j ≤ widestBin obs / 2)
    (hab : a < b) (ha : minL obs - widestBin obs / 2 ≤ a) (hb : b ≤ maxL obs + widestBin obs / 2)
    (hkept : 2 ≤ (clipNative (full.map Row.c) obs).length)
    (hposF : 0 < sumL ((nativeBins false full).map (overlap a b))) :
    fluxBinVal val (nativeBins false full) a b =
      fluxBinVal val (nativeBins false (full.filter (fun r => inClip obs r.c))) a b := by
  have e : full.filter (fun r => inClip obs r.c) =
      full.filter (inside (minL obs - clipMargin obs) (maxL obs + clipMargin obs)) := rfl
  rw [e]
  rw [← filter_inside_clipNative, List.length_map] at hkept
  refine bin_clip_eq_condition_ratio val full (widestBin obs / 2) _ _ a b hg hr hsp hab ?_ ?_ hkept hposF
  · unfold clipMargin; linarith
  · unfold clipMargin; linarith

open Taurex.Binning in
/-- **bin_clip_eq for the pre-fix clip** (margin = the widest bin `W`, `clipNativePinned`): the statement needs
    every native spacing `≤ W/3` — a third, not the property's half (`bin_clip_condition_sharp`: spacing `7/20·W`
    already breaks it).  This is the defect repaired in /repo by the margin `5/4·W`. -/
theorem bin_clip_eq_pinned (val : Row ℝ → ℝ) (full : List (Row ℝ)) (obs : List ℝ) (a b : ℝ)
    (hg : (full.map Row.c).Pairwise (· < ·))
    (hokF : MidpointSpacingOK (full.map Row.c))
    (hokC : MidpointSpacingOK (clipNativePinned (full.map Row.c) obs))
    (hsp : ∀ j, j + 1 < (full.map Row.c).length → spacing (full.map Row.c) j ≤ widestBin obs / 3)
    (hab : a < b) (ha : minL obs - widestBin obs / 2 ≤ a) (hb : b ≤ maxL obs + widestBin obs / 2)
    (hkept : 2 ≤ (clipNativePinned (full.map Row.c) obs).length)
    (hposF : 0 < sumL ((nativeBins false full).map (overlap a b))) :
    fluxBinVal val (nativeBins false full) a b =
      fluxBinVal val (nativeBins false (full.filter (fun r => inClipPinned obs r.c))) a b := by
  have e : full.filter (fun r => inClipPinned obs r.c) =
      full.filter (inside (minL obs - clipMarginPinned obs) (maxL obs + clipMarginPinned obs)) := rfl
  rw [e]
  rw [← filter_inside_clipNativePinned] at hokC hkept
  rw [List.length_map] at hkept
  refine bin_clip_eq_condition val full (widestBin obs / 3) _ _ a b hg hokF hokC hsp hab ?_ ?_ hkept hposF
  · unfold clipMarginPinned; linarith
  · unfold clipMarginPinned; linarith

-- non-vacuity of `bin_clip_eq_condition` / `…_ratio`: a log-spaced native grid 1024·(5/4)^k, k = 0…5 (spacings
-- 256 … 625 = d), clip interval [1100, 4975]: the clip cuts the first point only, so the first restricted bin is
-- re-derived while the last one is the last full bin; target [2100, 3900] (1100 + 937.5 ≤ 2100, 3900 ≤ 4975 - 937.5)
open Taurex.Binning in
example :
    let full : List (Row ℝ) := [⟨1024, 0, 10, 0⟩, ⟨1280, 0, 20, 0⟩, ⟨1600, 0, 30, 0⟩, ⟨2000, 0, 40, 0⟩,
      ⟨2500, 0, 50, 0⟩, ⟨3125, 0, 60, 0⟩]
    (full.map Row.c).Pairwise (· < ·) ∧ RatioOK (full.map Row.c) ∧
    (∀ j, j + 1 < (full.map Row.c).length → spacing (full.map Row.c) j ≤ (625 : ℝ)) ∧
    (2100 : ℝ) < 3900 ∧ (1100 : ℝ) + 3 / 2 * 625 ≤ 2100 ∧ (3900 : ℝ) ≤ 4975 - 3 / 2 * 625 ∧
    (full.filter (inside 1100 4975)).map Row.c = [1280, 1600, 2000, 2500, 3125] ∧
    0 < sumL ((nativeBins false full).map (overlap 2100 3900)) := by
  intro full
  have hg : (full.map Row.c).Pairwise (· < ·) := by norm_num [full]
  refine ⟨hg, ?_, ?_, by norm_num, by norm_num, by norm_num, by norm_num [full, inside, List.filter], ?_⟩
  · exact geometric_ratio_ok _ (5 / 4) (by norm_num [full]) (by norm_num) (by norm_num) (by
      intro j hj
      simp only [full, List.map_cons, List.map_nil, List.length_cons, List.length_nil] at hj
      have : j = 0 ∨ j = 1 ∨ j = 2 ∨ j = 3 ∨ j = 4 := by omega
      rcases this with rfl | rfl | rfl | rfl | rfl <;> norm_num [full])
  · intro j hj
    simp only [full, List.map_cons, List.map_nil, List.length_cons, List.length_nil] at hj
    have : j = 0 ∨ j = 1 ∨ j = 2 ∨ j = 3 ∨ j = 4 := by omega
    rcases this with rfl | rfl | rfl | rfl | rfl <;> norm_num [full, spacing]
  · rw [nativeBins_false_sorted full hg]
    norm_num [full, computeBinEdges, midEdges, diffs, absv, withWidths, overlap, mn, mx, sumL, Row.lo, Row.hi]

-- non-vacuity of `bin_clip_eq_property` / `…_ratio`: the same native grid, observation centres 2700 and 3950
-- (widest mid-point bin W = 1250 = 2·625, so every native spacing is ≤ W/2; margin 5/4·W = 1562.5, clip interval
-- [1137.5, 5512.5]: drops the native point 1024), observation bin [2075, 3325] = 2700 ± W/2
open Taurex.Binning in
example :
    let full : List (Row ℝ) := [⟨1024, 0, 10, 0⟩, ⟨1280, 0, 20, 0⟩, ⟨1600, 0, 30, 0⟩, ⟨2000, 0, 40, 0⟩,
      ⟨2500, 0, 50, 0⟩, ⟨3125, 0, 60, 0⟩]
    let obs : List ℝ := [2700, 3950]
    widestBin obs = 1250 ∧ minL obs = 2700 ∧ maxL obs = 3950 ∧
    (∀ j, j + 1 < (full.map Row.c).length → spacing (full.map Row.c) j ≤ widestBin obs / 2) ∧
    minL obs - widestBin obs / 2 ≤ 2075 ∧ (3325 : ℝ) ≤ maxL obs + widestBin obs / 2 ∧
    clipNative (full.map Row.c) obs = [1280, 1600, 2000, 2500, 3125] := by
  intro full obs
  have hW : widestBin obs = 1250 := by
    norm_num [obs, widestBin, maxL, computeBinEdges, midEdges, diffs, absv]
  have hmin : minL obs = 2700 := by norm_num [obs, minL]
  have hmax : maxL obs = 3950 := by norm_num [obs, maxL]
  refine ⟨hW, hmin, hmax, ?_, by rw [hW, hmin]; norm_num, by rw [hW, hmax]; norm_num, ?_⟩
  · intro j hj
    rw [hW]
    simp only [full, List.map_cons, List.map_nil, List.length_cons, List.length_nil] at hj
    have : j = 0 ∨ j = 1 ∨ j = 2 ∨ j = 3 ∨ j = 4 := by omega
    rcases this with rfl | rfl | rfl | rfl | rfl <;> norm_num [full, spacing]
  · unfold clipNative inClip clipMargin
    rw [hW, hmin, hmax]
    norm_num [full, List.filter]

/-- **the pre-fix margin `W` is not enough for the property's condition** (exact counter-example over ℚ; the
    regression statement of the defect repaired by the margin `5/4·W`).  Observation grid `[30, 50]`: widest
    mid-point bin `W = 20`, pre-fix clip interval `[10, 70]` (`clipNativePinned`); native grid 2.9, 9.9, 16.9, 23.7,
    30.7, … with spacings 7, 7, 6.8, 7, 7, … — all `≤ 7 = 7/20·W < W/2` (the property's condition holds) but above
    `W/3`; observation bin `[20, 40]` (centre 30 = min(obs), width `W`).  The pre-fix clip drops 2.9 and 9.9; the first
    restricted bin is `16.9 ± 3.4` and reaches to 20.3 into the target while the full run has `16.9 ± 3.45` there, so
    the overlap weights, and the binned values, differ (1967/401 against 491/100; the pre-fix `clip_native_to_wngrid`
    + `FluxBinner` gave the same two values).  With the code's margin `5/4·W = 25` the clip interval is `[5, 75]`,
    the point 9.9 is kept, and the two binned values agree. -/
theorem bin_clip_condition_sharp :
    let full : List (Binning.Row Rat) := [⟨29/10, 0, 1, 0⟩, ⟨99/10, 0, 2, 0⟩, ⟨169/10, 0, 3, 0⟩, ⟨237/10, 0, 5, 0⟩,
      ⟨307/10, 0, 4, 0⟩, ⟨377/10, 0, 6, 0⟩, ⟨447/10, 0, 2, 0⟩, ⟨517/10, 0, 1, 0⟩, ⟨587/10, 0, 3, 0⟩, ⟨657/10, 0, 2, 0⟩]
    let obs : List Rat := [30, 50]
    let W := widestBin obs
    let clippedPinned := full.filter (fun r => inClipPinned obs r.c)
    let clipped := full.filter (fun r => inClip obs r.c)
    W = 20 ∧ clipMarginPinned obs = 20 ∧ clipMargin obs = 25 ∧ minL obs - W / 2 = 20 ∧ 40 ≤ maxL obs + W / 2 ∧
    (Binning.diffs (full.map Binning.Row.c)).all (fun d => decide (0 < d) && decide (d ≤ 7 * W / 20)) = true ∧
    clippedPinned.map Binning.Row.c = clipNativePinned (full.map Binning.Row.c) obs ∧
    clipped.map Binning.Row.c = clipNative (full.map Binning.Row.c) obs ∧
    Binning.fluxBinVal Binning.Row.s (Binning.nativeBins false full) 20 40 = 1967 / 401 ∧
    Binning.fluxBinVal Binning.Row.s (Binning.nativeBins false clippedPinned) 20 40 = 491 / 100 ∧
    Binning.fluxBinVal Binning.Row.s (Binning.nativeBins false full) 20 40 ≠
      Binning.fluxBinVal Binning.Row.s (Binning.nativeBins false clippedPinned) 20 40 ∧
    Binning.fluxBinVal Binning.Row.s (Binning.nativeBins false clipped) 20 40 =
      Binning.fluxBinVal Binning.Row.s (Binning.nativeBins false full) 20 40 := by
  decide +kernel

end Taurex.C13
