import Proofs.RealInst
import TaurexModel.Grid

namespace Taurex.C13
open Taurex.Grid

/-- the clipped grid is an ordered sub-list of the native grid -/
theorem clip_sub (native wngrid : List ℝ) : (clipNative native wngrid).Sublist native := by
  unfold clipNative; exact List.filter_sublist

end Taurex.C13
