/-
  C13 — restricting the spectral grid never changes the values computed on it.
  Theorems about `Taurex.Grid` (clip of the native grid, opacity on a requested grid) and about the forward
  models of C01/C02 (`Taurex.Transmission`, `Taurex.Emission`): they are column-wise, the saturation cut-off
  being the only coupling between wavenumbers.
-/
import Proofs.C13Lemmas
import Proofs.C13Columns
import Props.C01
import Props.C02
import Proofs.C13Binning
import Proofs.C13Clip
import Proofs.C13Final
import Props.C05

namespace Taurex.C13
open Taurex.Grid Taurex.C13L

/-- the clipped grid is an ordered sub-list of the native grid -/
theorem clip_sub (native wngrid : List ℝ) : (clipNative native wngrid).Sublist native := by
  unfold clipNative; exact List.filter_sublist

/-- exactly the native points within the request range widened by the margin survive the clip -/
theorem clip_mem_iff (native wngrid : List ℝ) (x : ℝ) :
    x ∈ clipNative native wngrid ↔
      x ∈ native ∧ minL wngrid - clipMargin wngrid ≤ x ∧ x ≤ maxL wngrid + clipMargin wngrid := by
  unfold clipNative inClip
  simp [List.mem_filter]

/-- every native point inside the requested range (between the smallest and largest requested wavenumber)
    is kept: the margin is never negative -/
theorem clip_keeps_requested (native wngrid : List ℝ) (x : ℝ) (hx : x ∈ native)
    (hlo : minL wngrid ≤ x) (hhi : x ≤ maxL wngrid) : x ∈ clipNative native wngrid := by
  rw [clip_mem_iff]
  have := clipMargin_nonneg wngrid
  exact ⟨hx, by linarith, by linarith⟩

/-- clipping twice with the same request is clipping once (the restricted run is stable) -/
theorem clip_idem (native wngrid : List ℝ) :
    clipNative (clipNative native wngrid) wngrid = clipNative native wngrid := by
  unfold clipNative; simp [List.filter_filter]

/-- **own_grid_identity**: when the native points inside the requested range are the request itself, the
    opacities of those points are returned unchanged (no interpolation) -/
theorem own_grid_identity (nativeWn vals req : List ℝ)
    (h : ((nativeWn.zip vals).filter (fun p => inRange req p.1)).map (·.1) = req) :
    opacityOnGrid nativeWn vals req = ((nativeWn.zip vals).filter (fun p => inRange req p.1)).map (·.2) := by
  unfold opacityOnGrid
  simp only
  rw [if_pos ((eqL_iff _ _).2 h)]

/-- **other_grid_between**: on any other request every returned opacity lies between the smallest and largest of
    the native values it was interpolated from (native grid non-decreasing, request overlapping it) -/
theorem other_grid_between (nativeWn vals req : List ℝ) (lo hi : ℝ)
    (hlen : nativeWn.length = vals.length) (hs : nativeWn.Pairwise (· ≤ ·))
    (hv : ∀ v ∈ vals, lo ≤ v ∧ v ≤ hi)
    (hne : 0 < ((nativeWn.drop (Interp.searchRight nativeWn (minL req) - 1)).take
      (min (Interp.searchLeft nativeWn (maxL req)) (nativeWn.length - 1) + 1 -
        (Interp.searchRight nativeWn (minL req) - 1))).length) :
    ∀ y ∈ opacityOnGrid nativeWn vals req, lo ≤ y ∧ y ≤ hi := by
  intro y hy
  unfold opacityOnGrid at hy
  simp only at hy
  split at hy
  · -- identity branch: a selection of `vals`
    rw [List.mem_map] at hy
    obtain ⟨p, hp, rfl⟩ := hy
    have hp' := (List.mem_filter.1 hp).1
    exact hv _ (List.of_mem_zip hp').2
  · rw [List.mem_map] at hy
    obtain ⟨x, _, rfl⟩ := hy
    apply NpInterp.npInterp_between (lo := lo) (hi := hi)
    · simp only [List.length_take, List.length_drop]; omega
    · exact hne
    · exact (hs.sublist (List.drop_sublist _ _)).sublist (List.take_sublist _ _)
    · intro v hvm
      exact hv v (List.mem_of_mem_drop (List.mem_of_mem_take hvm))

-- non-vacuity: a request between native points of a 4-point grid satisfies the hypotheses of `other_grid_between`
example : ([1, 2, 3, 4] : List ℝ).Pairwise (· ≤ ·) := by norm_num

/-! ### the forward model is column-wise (transmission; the C01 model) -/

open Taurex.Transmission in
/-- **column_independent (no early exit)**: evaluating the transmission model on any selection `σ` of the
    wavenumber columns (a sub-range, a clipped grid, any subset in any order) gives, at every selected column,
    exactly the value of the full computation at that wavenumber — optical depth and transit depth alike. -/
theorem column_independent_trans (σ : ℕ → ℕ) (newMethod : Bool) (rp rs : ℝ) (n nwn nwn' : ℕ)
    (zb z dz dens : ℕ → ℝ) (cs : List (Contrib ℝ)) (w : ℕ) :
    (∀ l, modelTrans false newMethod rp n nwn' zb z dz dens (cs.map (reindex σ)) l w
        = modelTrans false newMethod rp n nwn zb z dz dens cs l (σ w)) ∧
    modelDepth false newMethod rp rs n nwn' zb z dz dens (cs.map (reindex σ)) w
      = modelDepth false newMethod rp rs n nwn zb z dz dens cs (σ w) := by
  have h : ∀ l, modelTrans false newMethod rp n nwn' zb z dz dens (cs.map (reindex σ)) l w
        = modelTrans false newMethod rp n nwn zb z dz dens cs l (σ w) := by
    intro l
    simp only [modelTrans, Bool.false_eq_true, if_false, tauFull]
    rw [tauFullFrom_reindex σ n _ dens l cs (fun _ => 0) (fun _ => 0) (fun _ => rfl) w]
  refine ⟨h, ?_⟩
  unfold modelDepth
  simp only [h]

open Taurex.Transmission in
/-- **column_within_cutoff**: with the `tau.min() > 10` early exit (the only coupling between wavenumbers), the
    optical depth of a selected column in the restricted run and in the full run are both bounded by the full
    sum and each either equals it or is already above 10 — so the two transmittances differ by at most
    `exp(-10)` (the licensed band of C01). -/
theorem column_within_cutoff (σ : ℕ → ℕ) (n nwn nwn' : ℕ) (path dens : ℕ → ℝ) (l : ℕ)
    (hp : ∀ k < n - l, 0 ≤ path k) (hd : ∀ j < n, 0 ≤ dens j) (cs : List (Contrib ℝ))
    (hcs : ∀ c ∈ cs, c.Nonneg) (w : ℕ) (hw : w < nwn') (hσ : σ w < nwn) :
    let full := tauFull n path dens l cs (σ w)
    let tR := tauCut n nwn' path dens l (cs.map (reindex σ)) w
    let tF := tauCut n nwn path dens l cs (σ w)
    tR ≤ full ∧ (tR = full ∨ 10 < tR) ∧ tF ≤ full ∧ (tF = full ∨ 10 < tF) := by
  have hcs' : ∀ c ∈ cs.map (reindex σ), c.Nonneg := by
    intro c hc
    obtain ⟨c0, h0, rfl⟩ := List.mem_map.1 hc
    intro l' wn'; exact hcs c0 h0 l' (σ wn')
  obtain ⟨a1, a2⟩ := Taurex.C01.cutoff_licensed n nwn' path dens l hp hd (cs.map (reindex σ)) hcs'
  obtain ⟨b1, b2⟩ := Taurex.C01.cutoff_licensed n nwn path dens l hp hd cs hcs
  have e : tauFull n path dens l (cs.map (reindex σ)) w = tauFull n path dens l cs (σ w) := by
    unfold tauFull
    exact tauFullFrom_reindex σ n path dens l cs (fun _ => 0) (fun _ => 0) (fun _ => rfl) w
  refine ⟨by rw [← e]; exact a1 w, ?_, b1 (σ w), ?_⟩
  · rcases a2 with h | h
    · left; rw [← e]; exact h w
    · right; exact h w hw
  · rcases b2 with h | h
    · left; exact h (σ w)
    · right; exact h (σ w) hσ

/-! ### emission (the C02 model) -/

open Taurex.Emission in
/-- **column_within_clamp (emission)**: the documented (unclamped) emission intensity of a column,
    `intensityUncut`, does not take the other columns as an argument at all; the code's clamped intensity does, only
    through the `x.min() < 10` clamp, and for any two sets of computed columns `cols₁`, `cols₂` (the full native grid
    and a restricted grid, say) containing the column the two results differ by at most `exp(-10)` times the source
    functions of the layers clamped in either run. -/
theorem column_within_clamp_emission (k : PC ℝ) (cols₁ cols₂ : List (Col ℝ)) (dz dens temps : List ℝ) (col : Col ℝ)
    (tmin tmax m : ℝ) (hv₁ : Taurex.C02.Valid k cols₁ dz dens temps col tmin tmax)
    (hv₂ : Taurex.C02.Valid k cols₂ dz dens temps col tmin tmax) (hm : 1 ≤ m) :
    |intensity k cols₁ dz dens temps m col - intensity k cols₂ dz dens temps m col|
      ≤ Real.exp (-10) * (((rowsOf k cols₁ dz dens temps col).map (fun r => if r.keepD then 0 else r.b)).sum
          + ((rowsOf k cols₂ dz dens temps col).map (fun r => if r.keepD then 0 else r.b)).sum) := by
  have h1 := Taurex.C02.clamp_band k cols₁ dz dens temps col tmin tmax m hv₁ hm
  have h2 := Taurex.C02.clamp_band k cols₂ dz dens temps col tmin tmax m hv₂ hm
  have e : intensity k cols₁ dz dens temps m col - intensity k cols₂ dz dens temps m col
      = (intensity k cols₁ dz dens temps m col - intensityUncut k dz dens temps m col)
        - (intensity k cols₂ dz dens temps m col - intensityUncut k dz dens temps m col) := by ring
  rw [e, mul_add]
  exact le_trans (abs_sub _ _) (add_le_add h1 h2)

/-! ### binning the restricted run -/

open Taurex.Binning in
/-- **bin_sees_overlapping_only**: the value `FluxBinner` computes for a target bin `[a, b]` depends only on the
    native bins that overlap it.  Consequently (**bin_clip_eq_partial**) if the native bins of the full run and of
    the restricted run (both ordered, both overlapping the target) have the same overlapping bins — same centres,
    widths and values — the two binned values are equal.
    What is *not* proved: that the property's width condition (no observation bin wider than the widest mid-point
    bin `W`, native spacing below `W/2`) makes the overlapping bins of the clipped grid (margin `W`, edge bins
    re-derived from their neighbours) coincide with those of the full grid; that step is evaluated on the real code
    for every generated observation (harness predicate `binned-restricted-differs`). -/
theorem bin_clip_eq_partial (val : Row ℝ → ℝ) (full clipped : List (Row ℝ)) (a b : ℝ) (hab : a < b)
    (hf : full ≠ []) (hc : clipped ≠ [])
    (hordF : OrderedBins full) (hordC : OrderedBins clipped)
    (hwF : ∀ r ∈ full, r.lo ≤ r.hi) (hwC : ∀ r ∈ clipped, r.lo ≤ r.hi)
    (hposF : 0 < sumL (full.map (overlap a b))) (hposC : 0 < sumL (clipped.map (overlap a b)))
    (hsame : overlapping a b full = overlapping a b clipped) :
    fluxBinVal val full a b = fluxBinVal val clipped a b := by
  rw [flux_eq_spec val full a b hf hordF hwF hab hposF, flux_eq_spec val clipped a b hc hordC hwC hab hposC,
      spec_overlapping val full, spec_overlapping val clipped, hsame]

open Taurex.Binning in
/-- **bin_clip_eq**: binning the restricted run equals binning the full run.  `full` are the native points in
    increasing wavenumber (with their spectrum values), the restricted run computes the contiguous sub-range
    `(full.drop i).take m`; in both runs the bins are the mid-point bins (`nativeBins false`).  If both grids satisfy
    the mid-point spacing condition of C05 (linear, logarithmic and constant-R grids do: `linear_spacing_ok`,
    `geometric_spacing_ok`), the target bin `[a, b]` overlaps the data, and it does not reach (i) the two outermost
    bins of the restricted run — the only ones whose width is re-derived from one neighbour — nor (ii) any bin of the
    full grid outside the interior of the sub-range, then the two binned values are equal.
    (The property's width condition — observation bins no wider than the widest mid-point bin `W`, clip margin `W`,
    native spacing below `W/2` — is what makes (i) and (ii) true for every observation bin; that last geometric step
    is evaluated on the real code for every generated observation, harness predicate `binned-restricted-differs`.) -/
theorem bin_clip_eq (val : Row ℝ → ℝ) (full : List (Row ℝ)) (i m : Nat) (a b : ℝ) (hab : a < b)
    (hg : (full.map Row.c).Pairwise (· < ·)) (hm : 2 ≤ m) (him : i + m ≤ full.length)
    (hokF : MidpointSpacingOK (full.map Row.c))
    (hokC : MidpointSpacingOK (((full.drop i).take m).map Row.c))
    (hposF : 0 < sumL ((nativeBins false full).map (overlap a b)))
    (hposC : 0 < sumL ((nativeBins false ((full.drop i).take m)).map (overlap a b)))
    (hc1 : ∀ r ∈ (nativeBins false ((full.drop i).take m)).take 1, overlap a b r = 0)
    (hc2 : ∀ r ∈ (nativeBins false ((full.drop i).take m)).drop (m - 1), overlap a b r = 0)
    (hf1 : ∀ r ∈ (nativeBins false full).take (i + 1), overlap a b r = 0)
    (hf2 : ∀ r ∈ (nativeBins false full).drop (i + m - 1), overlap a b r = 0) :
    fluxBinVal val (nativeBins false full) a b = fluxBinVal val (nativeBins false ((full.drop i).take m)) a b := by
  have hlenF : 2 ≤ full.length := by omega
  have hlenC : ((full.drop i).take m).length = m := length_drop_take full i m him
  have hgC : (((full.drop i).take m).map Row.c).Pairwise (· < ·) := by
    rw [map_drop_take]; exact sub_increasing _ i m hg
  obtain ⟨oF, wF⟩ := Taurex.C05.midpoint_bins_ordered full hlenF hg hokF
  obtain ⟨oC, wC⟩ := Taurex.C05.midpoint_bins_ordered ((full.drop i).take m) (by omega) hgC hokC
  have neF : nativeBins false full ≠ [] := by
    intro h; have := length_nativeBins_false full (by omega); rw [h] at this; simp at this; omega
  have neC : nativeBins false ((full.drop i).take m) ≠ [] := by
    intro h; have := length_nativeBins_false ((full.drop i).take m) (by omega); rw [h] at this; simp at this; omega
  exact bin_clip_eq_partial val _ _ a b hab neF neC oF oC wF wC hposF hposC
    (clip_overlapping_eq full i m a b hg hm him hc1 hc2 hf1 hf2)

open Taurex.Binning in
/-- **bin_clip_eq (uniform native grid)**: with constant native spacing the restricted run has *exactly* the bins of
    the full run on the sub-range, so the binned values agree as soon as the target reaches no full-grid bin outside
    the sub-range — no condition on the outermost restricted bins. -/
theorem bin_clip_eq_uniform (val : Row ℝ → ℝ) (full : List (Row ℝ)) (i m : Nat) (a b d : ℝ) (hab : a < b) (hd0 : 0 < d)
    (hd : ∀ j, j + 1 < (full.map Row.c).length → spacing (full.map Row.c) j = d)
    (hm : 2 ≤ m) (him : i + m ≤ full.length)
    (hposF : 0 < sumL ((nativeBins false full).map (overlap a b)))
    (hposC : 0 < sumL ((nativeBins false ((full.drop i).take m)).map (overlap a b)))
    (hf1 : ∀ r ∈ (nativeBins false full).take i, overlap a b r = 0)
    (hf2 : ∀ r ∈ (nativeBins false full).drop (i + m), overlap a b r = 0) :
    fluxBinVal val (nativeBins false full) a b = fluxBinVal val (nativeBins false ((full.drop i).take m)) a b := by
  have hg : (full.map Row.c).Pairwise (· < ·) := linear_increasing _ d hd0 hd
  have hlenF : 2 ≤ full.length := by omega
  have hlenC : ((full.drop i).take m).length = m := length_drop_take full i m him
  have hgC : (((full.drop i).take m).map Row.c).Pairwise (· < ·) := by
    rw [map_drop_take]; exact sub_increasing _ i m hg
  have hdC : ∀ j, j + 1 < (((full.drop i).take m).map Row.c).length →
      spacing (((full.drop i).take m).map Row.c) j = d := by
    intro j hj
    rw [List.length_map, hlenC] at hj
    rw [map_drop_take, spacing_drop_take _ i m j hj]
    apply hd; rw [List.length_map]; omega
  obtain ⟨oF, wF⟩ := Taurex.C05.midpoint_bins_ordered full hlenF hg (linear_spacing_ok _ d hd0.le hd)
  obtain ⟨oC, wC⟩ := Taurex.C05.midpoint_bins_ordered ((full.drop i).take m) (by omega) hgC
    (linear_spacing_ok _ d hd0.le hdC)
  have neF : nativeBins false full ≠ [] := by
    intro h; have := length_nativeBins_false full (by omega); rw [h] at this; simp at this; omega
  have neC : nativeBins false ((full.drop i).take m) ≠ [] := by
    intro h; have := length_nativeBins_false ((full.drop i).take m) (by omega); rw [h] at this; simp at this; omega
  exact bin_clip_eq_partial val _ _ a b hab neF neC oF oC wF wC hposF hposC
    (clip_uniform_overlapping_eq full i m a b d hd0 hd hm him hf1 hf2)

open Taurex.Binning in
/-- **bin_clip_eq under the property's width condition (uniform native grid)** — the complete statement for
    uniformly spaced native grids, with no hypothesis about which bins overlap.  `full` are the native points in
    increasing wavenumber with constant spacing `d`; the restricted run keeps the native points in the clip
    interval `[L, U]` (in the code `L = min(obs) - W`, `U = max(obs) + W`, `W` = the widest mid-point bin of the
    observation grid, `clipNative`).  If the native spacing does not exceed the margin (`d ≤ W`; the property asks
    for `d < W/2`) and the observation bin `[a, b]` sticks out of the observation range by at most `W/2`
    (`L + W/2 ≤ a`, `b ≤ U - W/2`: its centre lies in the range and it is no wider than `W`), then binning the
    restricted run equals binning the full run. -/
theorem bin_clip_eq_uniform_condition (val : Row ℝ → ℝ) (full : List (Row ℝ)) (d W L U a b : ℝ)
    (hd0 : 0 < d) (hd : ∀ j, j + 1 < (full.map Row.c).length → spacing (full.map Row.c) j = d)
    (hdW : d ≤ W) (hab : a < b) (ha : L + W / 2 ≤ a) (hb : b ≤ U - W / 2)
    (hkept : 2 ≤ (full.filter (inside L U)).length)
    (hposF : 0 < sumL ((nativeBins false full).map (overlap a b)))
    (hposC : 0 < sumL ((nativeBins false (full.filter (inside L U))).map (overlap a b))) :
    fluxBinVal val (nativeBins false full) a b = fluxBinVal val (nativeBins false (full.filter (inside L U))) a b := by
  have hg : (full.map Row.c).Pairwise (· < ·) := linear_increasing _ d hd0 hd
  obtain ⟨i, m, him, hfil, hlo, hhi⟩ := filter_interval_sorted L U full hg
  have hm : 2 ≤ m := by
    rw [hfil, length_drop_take full i m him] at hkept; exact hkept
  have hn : 2 ≤ full.length := by omega
  rw [hfil] at hposC ⊢
  refine bin_clip_eq_uniform val full i m a b d hab hd0 hd hm him hposF hposC ?_ ?_
  · intro r hr
    obtain ⟨hw, r0, hr0, hc⟩ := uniform_rows_take full d hd0 hd hn i r hr
    apply overlap_zero_of_disjoint; left
    have := hlo r0 hr0
    unfold Row.hi; rw [hw, hc]; linarith
  · intro r hr
    obtain ⟨hw, r0, hr0, hc⟩ := uniform_rows_drop full d hd0 hd hn (i + m) r hr
    apply overlap_zero_of_disjoint; right
    have := hhi r0 hr0
    unfold Row.lo; rw [hw, hc]; linarith

-- non-vacuity of `bin_clip_eq_uniform_condition`: five native points 1..5 (d = 1), margin W = 1, clip interval [2, 4],
-- target [2.5, 3.5]: constant spacing, d ≤ W, the target sticks out of [3, 3] by W/2, and three points survive the clip
open Taurex.Binning in
example :
    let full : List (Row ℝ) := [⟨1, 0, 10, 0⟩, ⟨2, 0, 20, 0⟩, ⟨3, 0, 30, 0⟩, ⟨4, 0, 40, 0⟩, ⟨5, 0, 50, 0⟩]
    (∀ j, j + 1 < (full.map Row.c).length → spacing (full.map Row.c) j = 1) ∧ (1 : ℝ) ≤ 1 ∧ (2.5 : ℝ) < 3.5 ∧
    (2 : ℝ) + 1 / 2 ≤ 2.5 ∧ (3.5 : ℝ) ≤ 4 - 1 / 2 ∧ 2 ≤ (full.filter (inside 2 4)).length := by
  intro full
  refine ⟨?_, le_refl _, by norm_num, by norm_num, by norm_num, ?_⟩
  · intro j hj
    simp only [full, List.map_cons, List.map_nil, List.length_cons, List.length_nil] at hj
    have : j = 0 ∨ j = 1 ∨ j = 2 ∨ j = 3 := by omega
    rcases this with rfl | rfl | rfl | rfl <;> norm_num [full, spacing]
  · norm_num [full, inside, List.filter]

end Taurex.C13
