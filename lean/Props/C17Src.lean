/-
  C17 — source tie.  `TaurexModel/Gen/SrcC17.lean` is regenerated on every run by the list dialect of the source translator
  (`harness/translate_list.py`) from the source text of taurex/data/spectrum/array.py, taurex/data/spectrum/spectrum.py,
  taurex/data/spectrum/taurex.py, taurex/data/spectrum/observed.py, taurex/binning/fluxbinner.py and taurex/util/util.py.  The theorems below state, for EVERY carrier (no algebra is used),
  that each regenerated definition computes the hand-written model function of `TaurexModel/Observation.lean` that the C17
  theorems are about and that `driver_c17` executes.  numpy's primitives are the definitions of
  `TaurexModel/Gen/Prelude.lean`; helper lemmas in `Proofs/C05SrcNp.lean`, `Proofs/C17SrcNp.lean`.

  The observation array is `rows.map (encode fourCol)` (one inner list `[wl, value, error(, width)]` per row) and
  `rawData.shape[1]` is `ncols fourCol` (4 or 3); an object is represented by the attributes its methods assign.
-/
import TaurexModel.Gen.SrcC17
import TaurexModel.Observation
import Proofs.C05SrcNp
import Proofs.C17SrcNp
set_option linter.unusedSectionVars false
set_option linter.unusedSimpArgs false

namespace Taurex.C17Src
open Taurex.Binning Taurex.Observation Taurex.Gen

section
variable {α : Type} [Add α] [Sub α] [Mul α] [Div α] [Neg α] [LT α] [LE α]
  [DecidableLT α] [DecidableLE α] [Taurex.Transc α] [OfNat α 0] [OfNat α 1] [OfNat α 2] [OfNat α 10000]

/-- `compute_bin_edges` (the same source function as in C05) is `computeBinEdges` -/
theorem src_compute_bin_edges (g : List α) : SrcC17.compute_bin_edges g = computeBinEdges g := by
  simp only [SrcC17.compute_bin_edges, Np.midEdges_eq]
  simp only [Np.diff_eq]
  rfl

/-- **`_sort_spectrum`**: `obs[obs[:, 0].argsort()[::-1]]` is `sortRowsDesc`: whole rows move together -/
theorem src_sort_spectrum (fc : Bool) (rows : List (ORow α)) :
    SrcC17.sort_spectrum (rows.map (encode fc)) = (sortRowsDesc rows).map (encode fc) := by
  simp only [SrcC17.sort_spectrum, col0, Np.take_reverse, Np.take_argsort, sortRowsDesc, List.map_reverse]

/-- `wnwidth_to_wlwidth(grid, width) = 10000*width/grid**2`, element by element (`widthConv`).  Guard: one width per grid
    point, or an empty grid (numpy broadcasts a single width over any grid; the model's `zipWith` would truncate). -/
theorem src_wnwidth_to_wlwidth (g w : List α) (h : g.length = w.length ∨ g = []) :
    SrcC17.wnwidth_to_wlwidth g w = List.zipWith widthConv g w := by
  simp only [SrcC17.wnwidth_to_wlwidth]
  rcases h with h | h
  · rw [Np.zip2_eq _ _ _ (by simp [h])]
    clear h
    induction g generalizing w with
    | nil => simp
    | cons a t ih =>
      cases w with
      | nil => simp
      | cons b s => simp only [List.map_cons, List.zipWith_cons_cons, ih s]; rfl
  · subst h
    cases w with
    | nil => rfl
    | cons b s =>
      cases s with
      | nil => rfl
      | cons c s => simp [Np.zip2]

/-- the properties `rawData` / `wavelengthGrid`: column 0 -/
theorem src_wavelengthGrid (fc : Bool) (rows : List (ORow α)) :
    SrcC17.wavelengthGrid (rows.map (encode fc)) = rows.map ORow.wl := by
  simp only [SrcC17.wavelengthGrid, SrcC17.rawData, col0]

/-- `_process_spectrum` (with `manual_binning` for 3 columns): `(_bin_widths, _bin_edges)` of the sorted rows -/
theorem src_process_spectrum (fc : Bool) (sorted : List (ORow α)) :
    SrcC17.process_spectrum (ncols fc) (sorted.map (encode fc))
      = if fc then (sorted.map ORow.bw, edges4 sorted) else ((computeBinEdges (sorted.map ORow.wl)).2, (computeBinEdges (sorted.map ORow.wl)).1) := by
  cases fc
  · simp only [SrcC17.process_spectrum, ncols, SrcC17.manual_binning, src_wavelengthGrid, src_compute_bin_edges]
    simp
  · have c3 : List.map (fun r__ : List α => r__.getD 3 0) (sorted.map (encode true)) = sorted.map ORow.bw := by
      simp [encode, List.map_map, Function.comp_def]
    simp only [SrcC17.process_spectrum, ncols, src_wavelengthGrid, c3, if_true, decide_true, ← List.map_reverse,
      List.map_map, Np.zip2_map_map, Function.comp_def, List.length_map]
    rw [← List.length_reverse, Np.setStride_interleave]
    simp [edges4]

/-- **`ArraySpectrum.__init__(spectrum)`** (`_sort_spectrum`, `_process_spectrum`, `manual_binning`,
    `wnwidth_to_wlwidth`): the attributes `(_obs_spectrum, _bin_widths, _bin_edges, _wnwidths)` it leaves behind are the
    fields of `load fourCol rows` -/
theorem src_init (fc : Bool) (rows : List (ORow α)) :
    SrcC17.arrayspectrum_init (rows.map (encode fc)) (ncols fc)
      = ((load fc rows).rows.map (encode fc), (load fc rows).bw, (load fc rows).edgesWl, (load fc rows).wnWidths) := by
  simp only [SrcC17.arrayspectrum_init, src_sort_spectrum, src_process_spectrum, src_wavelengthGrid, load]
  cases fc
  · simp only [Bool.false_eq_true, if_false]
    rw [src_wnwidth_to_wlwidth]
    rw [Np.length_widths, List.length_map]
    cases h : sortRowsDesc rows with
    | nil => right; rfl
    | cons a t => left; simp
  · simp only [if_true]
    rw [src_wnwidth_to_wlwidth _ _ (Or.inl (by simp))]

/-- the public properties read the same columns as the model's accessors -/
theorem src_wavenumberGrid (fc : Bool) (o : Obs α) :
    SrcC17.wavenumberGrid (o.rows.map (encode fc)) = o.wavenumberGrid := by
  simp only [SrcC17.wavenumberGrid, src_wavelengthGrid, List.map_map, Function.comp_def, Obs.wavenumberGrid]

theorem src_spectrum (fc : Bool) (o : Obs α) : SrcC17.spectrum (o.rows.map (encode fc)) = o.spectrum := by
  cases fc <;> simp [SrcC17.spectrum, encode, Obs.spectrum, List.map_map, Function.comp_def]

theorem src_errorBar (fc : Bool) (o : Obs α) : SrcC17.errorBar (o.rows.map (encode fc)) = o.errorBar := by
  cases fc <;> simp [SrcC17.errorBar, SrcC17.rawData, encode, Obs.errorBar, List.map_map, Function.comp_def]

theorem src_binWidths (o : Obs α) : SrcC17.binWidths o.wnWidths = o.binWidths := rfl

theorem src_binEdges (o : Obs α) : SrcC17.binEdges o.edgesWl = o.binEdges := rfl

/-- `FluxBinner.__init__(wngrid, wngrid_width=<array>)` (as in C05) -/
theorem src_fluxbinner_init (ts : List (TBin α)) :
    SrcC17.fluxbinner_init (ts.map TBin.c) (ts.map TBin.w)
      = ((targetBins WidthMode.array ts).map TBin.c, (targetBins WidthMode.array ts).map TBin.w) := by
  simp [SrcC17.fluxbinner_init, Np.take_argsort, targetBins, Np.length_sortBy]

/-- **`create_binner()`**: the binner built from the observation holds the sorted centres and widths of
    `Obs.createBinner`.  Guard: one width per row (true of every loaded observation: `load_widths_length`). -/
theorem src_create_binner (fc : Bool) (o : Obs α) (h : o.wnWidths.length = o.rows.length) :
    SrcC17.create_binner (o.rows.map (encode fc)) o.wnWidths
      = (o.createBinner.map TBin.c, o.createBinner.map TBin.w) := by
  have hl : o.wavenumberGrid.length = o.binWidths.length := by simp [Obs.wavenumberGrid, Obs.binWidths, h]
  have hc : ∀ (G W : List α), G.length = W.length →
      (List.zipWith (fun c w => ({ c := c, w := w } : TBin α)) G W).map TBin.c = G ∧
      (List.zipWith (fun c w => ({ c := c, w := w } : TBin α)) G W).map TBin.w = W := by
    intro G
    induction G with
    | nil => intro W hW; cases W with
      | nil => simp
      | cons _ _ => simp at hW
    | cons a t ih => intro W hW; cases W with
      | nil => simp at hW
      | cons b s =>
        have := ih s (by simpa using hW)
        simp [this.1, this.2]
  simp only [SrcC17.create_binner, src_wavenumberGrid, src_binWidths, Obs.createBinner]
  have hcw := hc _ _ hl
  have e := src_fluxbinner_init
    (List.zipWith (fun c w => ({ c := c, w := w } : TBin α)) o.wavenumberGrid o.binWidths)
  rw [hcw.1, hcw.2] at e
  exact e

/-- `FluxBinner.bindown(wngrid, spectrum)` (as in C05): `fluxBindown false` -/
theorem src_bindown_midpoint (rows : List (Row α)) (targets : List (TBin α)) :
    (SrcC17.fluxbinner_bindown (rows.map Row.c) (rows.map Row.s)
        (targets.map TBin.c) (targets.map TBin.w)).2.1 = fluxBindown false Row.s rows targets := by
  simp only [SrcC17.fluxbinner_bindown, Np.take_argsort, src_compute_bin_edges, fluxBindown, nativeBins,
    Bool.false_eq_true, if_false]
  generalize sortBy Row.c rows = R
  have hlen := Np.length_widths (R.map Row.c)
  rw [List.length_map] at hlen
  generalize (computeBinEdges (R.map Row.c)).2 = ws at hlen ⊢
  simp only [Np.zip2_withWidths _ _ R ws hlen]
  rw [← Np.withWidths_map Row.s (fun _ _ => rfl) R ws (by omega)]
  generalize withWidths R ws = R'
  bindown_loop α, R', (fun st : Nat × Nat × List α => st.2.2), (fun a b => fluxBinVal Row.s R' a b)

/-- **a forward model binned to the observation**: `obs.create_binner().bin_model((native_wn, native_spectrum))[1]`, with
    the binner state produced by the regenerated `create_binner`, is `Obs.binModel` — element by element aligned with
    `Obs.spectrum` (theorem `binner_aligned` of Props/C17.lean) -/
theorem src_bin_model_obs (fc : Bool) (o : Obs α) (h : o.wnWidths.length = o.rows.length) (native : List (Row α)) :
    (SrcC17.bin_model (native.map Row.c, native.map Row.s)
        (SrcC17.create_binner (o.rows.map (encode fc)) o.wnWidths).1
        (SrcC17.create_binner (o.rows.map (encode fc)) o.wnWidths).2).2.1 = o.binModel native := by
  rw [src_create_binner fc o h]
  exact src_bindown_midpoint native o.createBinner

/-! ### the file loaders `TaurexSpectrum` (HDF5) and `ObservedSpectrum` (text)

The content of the file is an input of the regenerated definitions: the four datasets `_load_from_hdf5` reads are the
parameters `h5_Output_Spectra_instrument_* : Option (List α)` (named after the path strings of the source text; `none`: the
file has no such object, the read raises KeyError), the array `np.loadtxt(self._filename)` returns is `loadtxt filename`.
A TauREx file is described by its rows `(wn, spectrum, noise, wn width)` — the four datasets are the four columns. -/

/-- **`TaurexSpectrum._load_from_hdf5(filename)`**: the array `np.vstack((10000/wn, spectrum, noise,
    wnwidth_to_wlwidth(wn, wnwidth))).T` it returns is, row by row, the model's `fromTaurex` (what `driver_c17` maps over
    the rows for `kind = 2`) -/
theorem src_load_from_hdf5 (fn : String) (rows : List (ORow α)) :
    SrcC17.load_from_hdf5 fn (h5_Output_Spectra_instrument_wngrid := some (rows.map ORow.wl))
        (h5_Output_Spectra_instrument_spectrum := some (rows.map ORow.v))
        (h5_Output_Spectra_instrument_noise := some (rows.map ORow.e))
        (h5_Output_Spectra_instrument_wnwidth := some (rows.map ORow.bw))
      = (rows.map fromTaurex).map (encode true) := by
  simp only [SrcC17.load_from_hdf5]
  rw [src_wnwidth_to_wlwidth _ _ (Or.inl (by simp)), Np.zipWith_map_map, List.map_map]
  have := Np.transpose_maps (0 : α) (fun r : ORow α => 10000 / r.wl) [ORow.v, ORow.e, fun r => widthConv r.wl r.bw] rows
  simp only [List.map_cons, List.map_nil] at this
  simp only [Function.comp_def]
  rw [this]
  simp [encode, fromTaurex, List.map_map, Function.comp_def]

/-- a file without one of the four instrument datasets (a retrieval output, or a forward model run without an
    instrument): every path ends in the `KeyError` (the declared total value `[]`), whichever dataset is missing -/
theorem src_load_from_hdf5_missing (fn : String) (wn sp no ww : Option (List α))
    (h : wn = none ∨ sp = none ∨ no = none ∨ ww = none) :
    SrcC17.load_from_hdf5 fn (h5_Output_Spectra_instrument_wngrid := wn)
        (h5_Output_Spectra_instrument_spectrum := sp) (h5_Output_Spectra_instrument_noise := no)
        (h5_Output_Spectra_instrument_wnwidth := ww) = [] := by
  cases wn <;> cases sp <;> cases no <;> cases ww <;> simp_all [SrcC17.load_from_hdf5]

/-- **`TaurexSpectrum.__init__(filename)`** = `super().__init__(self._load_from_hdf5(filename))`: the attributes are the
    fields of `load true (rows.map fromTaurex)` — exactly what `driver_c17` computes for `kind = 2`.  `ncols`
    (`rawData.shape[1]`) is 4: the transposed stack of four arrays. -/
theorem src_taurexspectrum_init (fn : String) (rows : List (ORow α)) :
    SrcC17.taurexspectrum_init fn (h5_Output_Spectra_instrument_wngrid := some (rows.map ORow.wl))
        (h5_Output_Spectra_instrument_spectrum := some (rows.map ORow.v))
        (h5_Output_Spectra_instrument_noise := some (rows.map ORow.e))
        (h5_Output_Spectra_instrument_wnwidth := some (rows.map ORow.bw)) (ncols := ncols true)
      = ((load true (rows.map fromTaurex)).rows.map (encode true), (load true (rows.map fromTaurex)).bw,
          (load true (rows.map fromTaurex)).edgesWl, (load true (rows.map fromTaurex)).wnWidths) := by
  simp only [SrcC17.taurexspectrum_init, src_load_from_hdf5, src_init]

/-- **`ObservedSpectrum.__init__(filename)`** = `super().__init__(np.loadtxt(self._filename))`: everything after
    `np.loadtxt` (sorting, column handling, bin edges, width conversion) is `load fourCol rows` of the rows of the array
    `np.loadtxt` returned for this file name -/
theorem src_observedspectrum_init (fc : Bool) (fn : String) (loadtxt : String → List (List α)) (rows : List (ORow α))
    (h : loadtxt fn = rows.map (encode fc)) :
    SrcC17.observedspectrum_init fn loadtxt (ncols fc)
      = ((load fc rows).rows.map (encode fc), (load fc rows).bw, (load fc rows).edgesWl, (load fc rows).wnWidths) := by
  simp only [SrcC17.observedspectrum_init, h, src_init]

end
end Taurex.C17Src
