/-
  C04 — source tie.  `TaurexModel/Gen/SrcC04.lean` is regenerated on every run by `harness/translate.py` from the source
  text of taurex/util/math.py, taurex/util/util.py and taurex/opacity/interpolateopacity.py.  The theorems below state, for
  EVERY carrier (no algebra is used: both sides unfold to the same term), that each regenerated definition is the
  hand-written model function of `TaurexModel/Interp.lean` that the C04 theorems are about and that `driver_c04` executes.
  A source change that alters one of these functions makes the corresponding theorem fail to check.
-/
import TaurexModel.Gen.SrcC04
import TaurexModel.Interp
set_option linter.unusedSectionVars false

namespace Taurex.C04Src
open Taurex.Interp

section
variable {α : Type} [Add α] [Sub α] [Mul α] [Div α] [Neg α] [LT α] [LE α]
  [DecidableLT α] [DecidableLE α] [Taurex.Transc α] [OfNat α 0]

/-- the code's interpolation-mode string, as the translator encodes it -/
def modeCode : Mode → Nat
  | .linear => 0
  | .exp => 1

/-- `interp_lin_only` (whatever implementation the module binds to that name) is `interpLin` -/
theorem src_interp_lin (x11 x12 p pmin pmax : α) :
    Gen.SrcC04.interp_lin_only x11 x12 p pmin pmax = interpLin x11 x12 p pmin pmax := rfl

theorem src_interp_exp (x11 x12 t tmin tmax : α) :
    Gen.SrcC04.interp_exp_only x11 x12 t tmin tmax = interpExp x11 x12 t tmin tmax := rfl

theorem src_interp_bilin (x11 x12 x21 x22 t tmin tmax p pmin pmax : α) :
    Gen.SrcC04.intepr_bilin x11 x12 x21 x22 t tmin tmax p pmin pmax
      = interpBilin x11 x12 x21 x22 t tmin tmax p pmin pmax := rfl

theorem src_interp_exp_lin (x11 x12 x21 x22 t tmin tmax p pmin pmax : α) :
    Gen.SrcC04.interp_exp_and_lin x11 x12 x21 x22 t tmin tmax p pmin pmax
      = interpExpLin x11 x12 x21 x22 t tmin tmax p pmin pmax := rfl

/-- `find_closest_pair(arr, value)` with `arr.searchsorted(value)` = number of elements `< value` (sorted `arr`) -/
theorem src_find_closest_pair (arr : List α) (v : α) :
    Gen.SrcC04.find_closest_pair arr.length (searchLeft arr v) = findClosestPair arr v := by
  simp [Gen.SrcC04.find_closest_pair, findClosestPair]

theorem src_interp_temp_only (mode : Mode) (tg : List α) (tab : List (List α)) (t : α) (tl tr pi : Nat) :
    Gen.SrcC04.interp_temp_only t tl tr pi (modeCode mode) (fun i => tg.getD i 0) (fun i j => at2 tab i j)
      = interpTempOnly mode tg tab t tl tr pi := by
  cases mode <;> rfl

theorem src_interp_pressure_only (pg : List α) (tab : List (List α)) (p : α) (pl pr ti : Nat) :
    Gen.SrcC04.interp_pressure_only p pl pr ti (fun i => pg.getD i 0) (fun i j => at2 tab i j)
      = interpPressOnly pg tab p pl pr ti := rfl

/-- **the whole dispatch** `InterpolatingOpacity.interp_bilinear_grid`, called as `compute_opacity` calls it (indices from
    `find_closest_pair`; `pressureBounds` / `temperatureBounds` = first and last node of the increasing grids), is
    `bilinearGrid`.  `pressureMax` / `temperatureMax` are read by the code but their tests are overwritten before use:
    the equality holds for any values `pm tm`. -/
theorem src_bilinear_grid (mode : Mode) (tg pg : List α) (tab : List (List α)) (t p pm tm : α) :
    Gen.SrcC04.interp_bilinear_grid t p (findClosestPair tg t).1 (findClosestPair tg t).2
        (findClosestPair pg p).1 (findClosestPair pg p).2
        (mode := modeCode mode) (nP := pg.length) (nT := tg.length)
        (pMaxB := pg.getD (pg.length - 1) 0) (pMinB := pg.getD 0 0) (pg := fun i => pg.getD i 0) (pressureMax := pm)
        (tMaxB := tg.getD (tg.length - 1) 0) (tMinB := tg.getD 0 0) (temperatureMax := tm)
        (tg := fun i => tg.getD i 0) (xsec := fun i j => at2 tab i j)
      = bilinearGrid mode tg pg tab t p := by
  cases mode <;> rfl

end

end Taurex.C04Src
