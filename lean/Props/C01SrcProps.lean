/-
  C01 — the property theorems restated about the REGENERATED source.  `Props/C01Src.lean` proves that the definitions
  translated on every run from `TransmissionModel.path_integral` (with `compute_path_length_old`, `compute_path_length`,
  `compute_absorption`, the kernels `contribute_tau` / `contribute_cia` and the three `contribute` methods reached through
  `dispatch`), from `compute_absorption`, `compute_path_length_old` and `parallel_vector` alone, compute the model's
  `modelDepth true` / `modelTrans true`, `depth`, `chordOld`, `Geometry.parallelVector`; `Props/C01.lean` proves the
  property about these.  The corollaries below compose the two: they are statements about the text of the code as it is
  now, at the real carrier.

  What is composed
    * `srcIntegral … = Gen.SrcC01.path_integral …` called as `TransmissionModel.model()` calls it; `.1 wn` is the returned
      depth, `.2 l wn` the returned `exp(-tau)`.  Tie hypotheses kept visible: `0 < total` (a CIA contribution has at least
      one pair), `wn < nwn`, `l < n` (the tie identifies the entries inside the arrays), and for `new_path_method=True`
      `planet.compute_path_length` (`planetPaths`) returning the chords `chordNew` (`NewPathsOK`: a hypothesis for an
      arbitrary `planetPaths`, a theorem — `newPathsOK_src` — for the regenerated 3-D geometry `srcPlanetPaths`).
    * `Gen.SrcC01.compute_absorption` for an arbitrary optical-depth table (no hypotheses in the tie).
    * `Gen.SrcC01.compute_path_length_old` (row `l` of the returned list).
    * `Gen.SrcC01.parallel_vector` (column `j` of the returned `viewer`).
    * the 3-D geometry of `new_path_method=True`: `srcPlanetPaths` / `srcRow3d` = what the regenerated
      `BasePlanet.compute_path_length` → `compute_path_length_3d` → `compute_line_3d`, `normalize`, `compute_intersection_3d`,
      `multi_dot` return when called as the regenerated `TransmissionModel.compute_path_length` calls them
      (`C01Src.src_planet_paths`: row by row the model's `Geometry.pathRow3d`).  `path3d_eq_chordNew`, `pathRow3d_length` and
      `src_path_integral_new` are restated with that instantiation: `NewPathsOK` is no longer an external hypothesis but the
      theorem `newPathsOK_src`, from `GeomOK` (the well-formed shell grid of `C01.path3d_eq_chordNew`), `0 < n`, and the
      explicit instantiation `NanSel` of `np.isfinite` (NaN is not a real number: a sphere's distance counts as finite exactly
      when its discriminant is `≥ 0`; `nanSel_witness` shows the instantiation is consistent).  `nan` (the fill value
      `np.nan`, overwritten everywhere) and `crossing` (the body of the planet-crossing branch of `compute_intersection_3d`,
      whose test is translated and false on a well-formed grid) are arbitrary.  Every `src_*` theorem below that assumes
      `NewPathsOK` holds for the regenerated geometry by `newPathsOK_src`.

  Not restated (no tie)
    * `tau_nonneg`, `tau_mono_sigma`, `cutoff_licensed`: they speak of `tauFull`, the sum WITHOUT the early exit, which the
      code does not contain (the source only has the loop with the `break`, tied to `tauCut`); `tauCut` itself is tied only
      inside `path_integral` (through `exp(-tau)`), not as a separate source expression.
    * `depth_mono_scale` (both sides are the uncut `modelDepth false`).  Its returned-depth form
      `depth_cut_mono_scale_within` is restated; in `src_depth_cut_within` the documented integral stays the model's
      `modelDepth false`, the returned depth is the source.
    * `opaque_le_disc` (a statement about the altitude grid only, no function of the code in it).
    * `chordNew_radicand_nonneg`: about the radicand inside the closed form, an intermediate value no translated function
      returns (`chordNew_nonneg`, `chordNew_sum` are restated about the rows the regenerated geometry returns).
    * `sphere_chord`, `origin_inside_clips`: one sphere and one ray of the model's `intersect` with symbolic `X`, `b`; the
      regenerated `compute_intersection_3d` is tied to `intersect` as a whole table (`C01Src.src_compute_intersection_3d`),
      under the hypothesis that some sphere is hit (it returns `None` otherwise), so a single-sphere statement has no
      source counterpart of its own.
    * `chordOld_radicand_nonneg`: about the radicand inside the model's `oldHalf`, an intermediate value the translated
      `compute_path_length_old` does not return.
    * `wellFormed_of_shells`, `nvContribs_nonneg`: hypothesis builders, no function of the code in the conclusion.
-/
import Props.C01
import Props.C01Src
set_option linter.unusedSectionVars false

open Finset

namespace Taurex.C01SrcProps
open Taurex.Transmission Taurex.C01 Taurex.C01Src

/-! ### `compute_absorption` -/

/-- the depth `compute_absorption(tau, dz)` returns at wavenumber `wn` -/
noncomputable def srcAbsorption (rp rs : ℝ) (n nW : ℕ) (z dz : ℕ → ℝ) (tau : ℕ → ℕ → ℝ) (wn : ℕ) : ℝ :=
  (Gen.SrcC01.compute_absorption tau dz n nW rp rs z).1 wn

theorem srcAbsorption_eq (rp rs : ℝ) (n nW : ℕ) (z dz : ℕ → ℝ) (tau : ℕ → ℕ → ℝ) (wn : ℕ) :
    srcAbsorption rp rs n nW z dz tau wn = depth rp rs n z dz (fun l => Transmission.trans (tau l wn)) := by
  unfold srcAbsorption
  rw [src_compute_absorption]

/-- never below the bare-planet value `(Rp/Rs)^2`, about the regenerated `compute_absorption` -/
theorem src_depth_ge_bare (rp rs : ℝ) (hrs : 0 < rs) (n nW : ℕ) (z dz : ℕ → ℝ) (tau : ℕ → ℕ → ℝ) (wn : ℕ)
    (hz : ∀ l < n, 0 ≤ rp + z l) (hdz : ∀ l < n, 0 ≤ dz l) (ht : ∀ l < n, 0 ≤ tau l wn) :
    rp ^ 2 / rs ^ 2 ≤ srcAbsorption rp rs n nW z dz tau wn := by
  rw [srcAbsorption_eq]; exact depth_ge_bare rp rs hrs n z dz (fun l => tau l wn) hz hdz ht

/-- never above the value for an atmosphere opaque to its top, about the regenerated `compute_absorption` -/
theorem src_depth_le_opaque (rp rs : ℝ) (hrs : 0 < rs) (n nW : ℕ) (z dz : ℕ → ℝ) (tau : ℕ → ℕ → ℝ) (wn : ℕ)
    (hz : ∀ l < n, 0 ≤ rp + z l) (hdz : ∀ l < n, 0 ≤ dz l) :
    srcAbsorption rp rs n nW z dz tau wn ≤ (rp ^ 2 + ∑ l ∈ range n, 2 * (rp + z l) * dz l) / rs ^ 2 := by
  rw [srcAbsorption_eq]; exact depth_le_opaque rp rs hrs n z dz (fun l => tau l wn) hz hdz

/-- the depth never decreases when optical depths grow, about the regenerated `compute_absorption` -/
theorem src_depth_mono_tau (rp rs : ℝ) (hrs : 0 < rs) (n nW : ℕ) (z dz : ℕ → ℝ) (tau tau' : ℕ → ℕ → ℝ) (wn : ℕ)
    (hz : ∀ l < n, 0 ≤ rp + z l) (hdz : ∀ l < n, 0 ≤ dz l) (h : ∀ l < n, tau l wn ≤ tau' l wn) :
    srcAbsorption rp rs n nW z dz tau wn ≤ srcAbsorption rp rs n nW z dz tau' wn := by
  rw [srcAbsorption_eq, srcAbsorption_eq]
  exact depth_mono_tau rp rs hrs n z dz (fun l => tau l wn) (fun l => tau' l wn) hz hdz h

/-! ### the whole `path_integral` -/

/-- what the tie assumes of the external `planet.compute_path_length` when `new_path_method=True`: called with the
    altitude boundaries and the lines of sight `compute_path_length` builds, row `l` holds the chords `chordNew` on its
    `n - l` segments (for the modelled 3-D geometry this is `C01.path3d_eq_chordNew`); nothing is assumed for the old method -/
def NewPathsOK (newMethod : Bool) (rp : ℝ) (n : ℕ) (zb z dz : ℕ → ℝ)
    (planetPaths : (ℕ → ℝ) → (ℕ → ℕ → ℝ) → (ℕ → ℕ → ℝ) → List (ℕ → ℝ)) : Prop :=
  newMethod = true → ∀ l < n, ∀ k < n - l,
    (planetPaths zb
        (rows (fun l => (Geometry.parallelVector rp (z l + dz l / 2) (Geometry.arrMax n zb)).1))
        (rows (fun l => (Geometry.parallelVector rp (z l + dz l / 2) (Geometry.arrMax n zb)).2))).getD l (fun _ => 0) k
      = chordNew rp zb z dz l k

/-- what the regenerated `path_integral` returns (`(absorption, exp(-tau))`), with Python's dynamic dispatch
    `contrib.contribute(…)` resolved to the three regenerated `contribute` methods -/
noncomputable def srcIntegral (newMethod : Bool) (rp rs : ℝ) (n nwn total : ℕ) (zb z dz dens : ℕ → ℝ)
    (cs : List (Contrib ℝ)) (planetPaths : (ℕ → ℝ) → (ℕ → ℕ → ℝ) → (ℕ → ℕ → ℝ) → List (ℕ → ℝ)) :
    (ℕ → ℝ) × (ℕ → ℕ → ℝ) :=
  Gen.SrcC01.path_integral nwn cs (dispatch nwn total n) dz dens n newMethod planetPaths rp rs zb z

section model
variable {newMethod : Bool} {rp rs : ℝ} {n nwn total : ℕ} {zb z dz dens : ℕ → ℝ}
  {planetPaths : (ℕ → ℝ) → (ℕ → ℕ → ℝ) → (ℕ → ℕ → ℝ) → List (ℕ → ℝ)}

theorem srcIntegral_eq (ht : 0 < total) (cs : List (Contrib ℝ))
    (hP : NewPathsOK newMethod rp n zb z dz planetPaths) :
    (∀ l < n, ∀ wn < nwn, (srcIntegral newMethod rp rs n nwn total zb z dz dens cs planetPaths).2 l wn
        = modelTrans true newMethod rp n nwn zb z dz dens cs l wn) ∧
    (∀ wn < nwn, (srcIntegral newMethod rp rs n nwn total zb z dz dens cs planetPaths).1 wn
        = modelDepth true newMethod rp rs n nwn zb z dz dens cs wn) := by
  unfold srcIntegral
  cases newMethod
  · exact src_path_integral_old n nwn total ht rp rs zb z dz dens cs planetPaths
  · exact src_path_integral_new n nwn total ht rp rs zb z dz dens cs planetPaths (hP rfl)

/-- the returned depth lies between the bare planet and the opaque atmosphere, about the regenerated `path_integral` -/
theorem src_model_depth_bounds {cs : List (Contrib ℝ)} (W : WellFormed newMethod rp rs n zb z dz dens cs)
    (ht : 0 < total) (hP : NewPathsOK newMethod rp n zb z dz planetPaths) (wn : ℕ) (hwn : wn < nwn) :
    rp ^ 2 / rs ^ 2 ≤ (srcIntegral newMethod rp rs n nwn total zb z dz dens cs planetPaths).1 wn ∧
    (srcIntegral newMethod rp rs n nwn total zb z dz dens cs planetPaths).1 wn
      ≤ (rp ^ 2 + ∑ l ∈ range n, 2 * (rp + z l) * dz l) / rs ^ 2 := by
  rw [(srcIntegral_eq ht cs hP).2 wn hwn]; exact model_depth_bounds W true wn

/-- nothing absorbs ⇒ every returned transmittance is 1 and the returned depth is exactly the bare-planet value,
    about the regenerated `path_integral` -/
theorem src_depth_transparent (cs : List (Contrib ℝ)) (h0 : ∀ c ∈ cs, ∀ l wn, c.sigma l wn = 0)
    (ht : 0 < total) (hP : NewPathsOK newMethod rp n zb z dz planetPaths) (wn : ℕ) (hwn : wn < nwn) :
    (∀ l < n, (srcIntegral newMethod rp rs n nwn total zb z dz dens cs planetPaths).2 l wn = 1) ∧
    (srcIntegral newMethod rp rs n nwn total zb z dz dens cs planetPaths).1 wn = rp ^ 2 / rs ^ 2 := by
  have h := depth_transparent (newMethod := newMethod) (rp := rp) (rs := rs) (n := n) (nwn := nwn) (zb := zb) (z := z)
    (dz := dz) (dens := dens) cs h0 true wn
  refine ⟨fun l hl => ?_, ?_⟩
  · rw [(srcIntegral_eq ht cs hP).1 l hl wn hwn]; exact h.1 l
  · rw [(srcIntegral_eq ht cs hP).2 wn hwn]; exact h.2

/-- "to within that cut-off": the returned depth (the source, with its early exit) is never above the documented integral
    (`modelDepth false`: the model without the exit; the code has no such function) and falls short of it by at most
    `exp(-10)` times the opaque annulus -/
theorem src_depth_cut_within {cs : List (Contrib ℝ)} (W : WellFormed newMethod rp rs n zb z dz dens cs)
    (ht : 0 < total) (hP : NewPathsOK newMethod rp n zb z dz planetPaths) (wn : ℕ) (hwn : wn < nwn) :
    0 ≤ modelDepth false newMethod rp rs n nwn zb z dz dens cs wn
          - (srcIntegral newMethod rp rs n nwn total zb z dz dens cs planetPaths).1 wn ∧
    modelDepth false newMethod rp rs n nwn zb z dz dens cs wn
          - (srcIntegral newMethod rp rs n nwn total zb z dz dens cs planetPaths).1 wn
      ≤ Transmission.trans 10 * (∑ l ∈ range n, 2 * (rp + z l) * dz l) / rs ^ 2 := by
  rw [(srcIntegral_eq ht cs hP).2 wn hwn]; exact depth_cut_within W wn hwn

/-- scaling every opacity by `s ≥ 1` never decreases the RETURNED depth, to within the cut-off, about the regenerated
    `path_integral` (run on the contribution list and on the scaled list) -/
theorem src_depth_cut_mono_scale_within {cs : List (Contrib ℝ)} (W : WellFormed newMethod rp rs n zb z dz dens cs)
    (ht : 0 < total) (hP : NewPathsOK newMethod rp n zb z dz planetPaths) (s : ℝ) (hs : 1 ≤ s) (wn : ℕ)
    (hwn : wn < nwn) :
    (srcIntegral newMethod rp rs n nwn total zb z dz dens cs planetPaths).1 wn
      ≤ (srcIntegral newMethod rp rs n nwn total zb z dz dens (cs.map (Contrib.scale s)) planetPaths).1 wn
        + Transmission.trans 10 * (∑ l ∈ range n, 2 * (rp + z l) * dz l) / rs ^ 2 := by
  rw [(srcIntegral_eq ht cs hP).2 wn hwn, (srcIntegral_eq ht (cs.map (Contrib.scale s)) hP).2 wn hwn]
  exact depth_cut_mono_scale_within W s hs wn hwn

end model

/-! ### `compute_path_length_old` -/

/-- row `l` of the list `compute_path_length_old(dz)` returns (`k ↦ 0` past the end, as `path_integral` reads it) -/
noncomputable def srcChordOld (rp : ℝ) (n : ℕ) (z dz : ℕ → ℝ) (l : ℕ) : ℕ → ℝ :=
  (Gen.SrcC01.compute_path_length_old dz n rp z).getD l (fun _ => 0)

theorem srcChordOld_eq (rp : ℝ) (n : ℕ) (z dz : ℕ → ℝ) (l : ℕ) (hl : l < n) :
    srcChordOld rp n z dz l = chordOld rp z dz l := by
  unfold srcChordOld
  rw [src_compute_path_length_old]
  simp [List.getD, hl]

/-- old method: every segment of the regenerated `compute_path_length_old` is non-negative -/
theorem src_chordOld_nonneg (rp : ℝ) (n : ℕ) (zb z dz : ℕ → ℝ) (S : Shells rp n zb z dz) (l k : ℕ) (hl : l < n)
    (hk : k < n - l) : 0 ≤ srcChordOld rp n z dz l k := by
  rw [srcChordOld_eq rp n z dz l hl]; exact chordOld_nonneg rp n zb z dz S l k hl hk

/-- old method: the segments of the regenerated `compute_path_length_old` sum to the half-chord × 2 -/
theorem src_chordOld_sum (rp : ℝ) (n : ℕ) (z dz : ℕ → ℝ) (l : ℕ) (hl : l < n) :
    ∑ k ∈ range (n - l), srcChordOld rp n z dz l k = 2 * oldHalf rp z dz l (n - 1) := by
  rw [srcChordOld_eq rp n z dz l hl]; exact chordOld_sum rp n z dz l hl

/-! ### `parallel_vector` -/

/-- column `j` of the `viewer` array `parallel_vector(R, alt, max_alt)` returns (the ray origins) -/
noncomputable def srcViewer (R maxAlt : ℝ) (alt : ℕ → ℝ) (nA j : ℕ) : Geometry.V3 ℝ :=
  ⟨(Gen.SrcC01.parallel_vector R alt maxAlt nA).1 0 j, (Gen.SrcC01.parallel_vector R alt maxAlt nA).1 1 j,
   (Gen.SrcC01.parallel_vector R alt maxAlt nA).1 2 j⟩

theorem srcViewer_eq (R maxAlt : ℝ) (alt : ℕ → ℝ) (nA j : ℕ) :
    srcViewer R maxAlt alt nA j = (Geometry.parallelVector R (alt j) maxAlt).1 := by
  unfold srcViewer
  rw [src_parallel_vector]
  simp [rows]

open Taurex.Geometry in
/-- the ray origin the regenerated `parallel_vector` builds (called with `max_alt = max(altitude_boundaries)`, as
    `compute_path_length` calls it) lies outside (or on) every boundary sphere -/
theorem src_origin_outside (rp : ℝ) (n : ℕ) (zb z dz : ℕ → ℝ) (G : GeomOK rp n zb z dz) (alt : ℕ → ℝ) (nA k : ℕ)
    (j : ℕ) (hj : j ≤ n) :
    (rp + zb j) * (rp + zb j) ≤ normSq (srcViewer rp (arrMax n zb) alt nA k) := by
  rw [srcViewer_eq]; exact origin_outside rp n zb z dz G (alt k) j hj

open Taurex.Geometry

/-! ### the 3-D geometry: `planet.compute_path_length` regenerated -/

/-- the type of the abstract "planet crossing" branch of `compute_intersection_3d` -/
abbrev Crossing := (ℕ → ℝ) → (ℕ → Bool) → (ℕ → ℝ) → (ℕ → ℕ → ℝ) → (ℕ → ℕ → ℝ) → (ℕ → ℕ → ℕ → ℕ → ℝ) → (ℕ → ℕ → ℕ → ℕ → ℝ)

/-- origin of the line of sight of tangent layer `l` (what `compute_line_3d(parallel_vector(…))` gives; direction `(1,0,0)`) -/
noncomputable def rayOrigin (rp : ℝ) (n : ℕ) (zb z dz : ℕ → ℝ) (l : ℕ) : V3 ℝ := ⟨-(rp + arrMax n zb * 2), rp + (z l + dz l / 2), 0⟩

/-- the instantiation of `np.isfinite` (NaN is not a real number): for every line of sight and every boundary sphere, the
    distance the code computes is finite exactly when the sphere's discriminant is non-negative — in IEEE arithmetic
    `np.sqrt(delta)` is NaN exactly for `delta < 0` and the NaN propagates to the distance -/
def NanSel (isfinite : ℝ → Bool) (rp : ℝ) (n : ℕ) (zb z dz : ℕ → ℝ) : Prop :=
  ∀ l < n, ∀ j < n + 1,
    isfinite (hitDistance (intersect rp (zb j) ⟨1, 0, 0⟩ (rayOrigin rp n zb z dz l)))
      = decide (0 ≤ (intersect rp (zb j) ⟨1, 0, 0⟩ (rayOrigin rp n zb z dz l)).delta)

/-- what `TransmissionModel.compute_path_length` reads from `self.planet.compute_path_length(…)`
    (`[l for idx, l in path_lengths]`): the arrays of the regenerated `BasePlanet.compute_path_length` → `compute_path_length_3d`
    (`None`, which the list comprehension cannot iterate, is totalised to the empty list) -/
noncomputable def srcPlanetPaths (crossing : Crossing) (isfinite : ℝ → Bool) (nan rp : ℝ) (n : ℕ) :
    (ℕ → ℝ) → (ℕ → ℕ → ℝ) → (ℕ → ℕ → ℝ) → List (ℕ → ℝ) :=
  fun zb viewer tangent =>
    ((Gen.SrcC01.planet_compute_path_length zb viewer tangent crossing isfinite (n + 1) n nan rp).getD []).map (fun r => r.2)

theorem map_range_eq {β : Type} {f g : ℕ → β} {a b : ℕ} (h : (List.range a).map f = (List.range b).map g) :
    a = b ∧ ∀ k < a, f k = g k := by
  have hab : a = b := by simpa using congrArg List.length h
  subst hab
  refine ⟨rfl, fun k hk => ?_⟩
  have := congrArg (fun l => l[k]?) h
  simpa [hk] using this

section geom
variable {rp : ℝ} {n : ℕ} {zb z dz : ℕ → ℝ}

/-- **the regenerated 3-D geometry returns the model's rows** (`Geometry.pathRow3d`), for a well-formed shell grid -/
theorem src_planet_rows (G : GeomOK rp n zb z dz) (hn : 0 < n) (crossing : Crossing) (isfinite : ℝ → Bool) (nan : ℝ)
    (hF : NanSel isfinite rp n zb z dz) :
    ∃ L, Gen.SrcC01.planet_compute_path_length zb
        (rows (fun l => (parallelVector rp (z l + dz l / 2) (arrMax n zb)).1))
        (rows (fun l => (parallelVector rp (z l + dz l / 2) (arrMax n zb)).2)) crossing isfinite (n + 1) n nan rp = some L ∧
      rowLists L = (List.range n).map (fun l => pathRow3d rp n zb z dz l) := by
  have hline : ∀ l, line3d (parallelVector rp (z l + dz l / 2) (arrMax n zb)).1 (parallelVector rp (z l + dz l / 2) (arrMax n zb)).2
      = (rayOrigin rp n zb z dz l, ⟨1, 0, 0⟩) := fun l => line_of_parallel rp _ _ G.X_pos
  refine src_planet_paths (fun x => zero_add x) rp n zb z dz crossing isfinite nan ?_ ?_ ?_
  · intro l hl j hj
    rw [hline l]
    exact hF l hl j hj
  · refine ⟨n, by omega, 0, hn, ?_⟩
    rw [hline 0]
    simp only [rayOrigin]
    rw [intersect_delta]
    obtain ⟨_, hb2⟩ := G.b_bounds 0 hn
    have h1 := G.shells.zb_mono 1 n (by omega) (le_refl _)
    have h2 := G.zb_nonneg 0 (by omega)
    have h3 := (G.b_bounds 0 hn).1
    have hrp := G.rp_pos
    nlinarith
  · intro l hl
    rw [hline l]
    simp only [rayOrigin, deltaP, dot, normSq, V3.mul, V3.sum]
    obtain ⟨hb1, _⟩ := G.b_bounds l hl
    have h2 := G.zb_nonneg l (by omega)
    have hrp := G.rp_pos
    nlinarith

/-- row `l` of the regenerated geometry, as a list (`model.path_length[l]` for `new_path_method=True`) -/
noncomputable def srcRow3d (crossing : Crossing) (isfinite : ℝ → Bool) (nan rp : ℝ) (n : ℕ) (zb z dz : ℕ → ℝ) (l : ℕ) : List ℝ :=
  (rowLists ((Gen.SrcC01.planet_compute_path_length zb
        (rows (fun l => (parallelVector rp (z l + dz l / 2) (arrMax n zb)).1))
        (rows (fun l => (parallelVector rp (z l + dz l / 2) (arrMax n zb)).2)) crossing isfinite (n + 1) n nan rp).getD [])).getD l []

theorem srcRow3d_eq (G : GeomOK rp n zb z dz) (hn : 0 < n) (crossing : Crossing) (isfinite : ℝ → Bool) (nan : ℝ)
    (hF : NanSel isfinite rp n zb z dz) (l : ℕ) (hl : l < n) :
    srcRow3d crossing isfinite nan rp n zb z dz l = pathRow3d rp n zb z dz l := by
  obtain ⟨L, hL, hrows⟩ := src_planet_rows G hn crossing isfinite nan hF
  unfold srcRow3d
  rw [hL, Option.getD_some, hrows]
  simp [List.getD, hl]

/-- `pathRow3d_length` about the source: row `l` of what the regenerated 3-D geometry returns has exactly `n - l` segments -/
theorem src_pathRow3d_length (G : GeomOK rp n zb z dz) (hn : 0 < n) (crossing : Crossing) (isfinite : ℝ → Bool) (nan : ℝ)
    (hF : NanSel isfinite rp n zb z dz) (l : ℕ) (hl : l < n) :
    (srcRow3d crossing isfinite nan rp n zb z dz l).length = n - l := by
  rw [srcRow3d_eq G hn crossing isfinite nan hF l hl]
  exact pathRow3d_length rp n zb z dz G l hl

/-- `path3d_eq_chordNew` about the source: the rows `TransmissionModel.compute_path_length` reads from the regenerated
    `planet.compute_path_length` are the closed-form chords — the former external hypothesis `NewPathsOK`, now a theorem -/
theorem src_path3d_eq_chordNew (G : GeomOK rp n zb z dz) (hn : 0 < n) (crossing : Crossing) (isfinite : ℝ → Bool) (nan : ℝ)
    (hF : NanSel isfinite rp n zb z dz) (l k : ℕ) (hl : l < n) (hk : k < n - l) :
    (srcPlanetPaths crossing isfinite nan rp n zb
        (rows (fun l => (parallelVector rp (z l + dz l / 2) (arrMax n zb)).1))
        (rows (fun l => (parallelVector rp (z l + dz l / 2) (arrMax n zb)).2))).getD l (fun _ => 0) k
      = chordNew rp zb z dz l k := by
  obtain ⟨L, hL, hrows⟩ := src_planet_rows G hn crossing isfinite nan hF
  unfold srcPlanetPaths
  rw [hL, Option.getD_some]
  have hlen : L.length = n := by simpa [rowLists] using congrArg List.length hrows
  have hlL : l < L.length := by omega
  have hrow : (List.range (L[l]).1).map (L[l]).2 = pathRow3d rp n zb z dz l := by
    have := congrArg (fun x => x[l]?) hrows
    simpa [rowLists, hlL, hl] using this
  unfold pathRow3d at hrow
  obtain ⟨hlen', hval⟩ := map_range_eq hrow
  have hk' : k < (L[l]).1 := by
    rw [hlen']
    have := pathRow3d_length rp n zb z dz G l hl
    simp only [pathRow3d, List.length_map, List.length_range] at this
    omega
  have e : (L.map (fun r => r.2)).getD l (fun _ => 0) = (L[l]).2 := by
    simp [List.getD, hlL]
  rw [e, hval k hk']
  exact path3d_eq_chordNew rp n zb z dz G l k hl hk

/-- `NewPathsOK` for the regenerated geometry -/
theorem newPathsOK_src (newMethod : Bool) (crossing : Crossing) (isfinite : ℝ → Bool) (nan : ℝ)
    (hG : newMethod = true → GeomOK rp n zb z dz ∧ 0 < n ∧ NanSel isfinite rp n zb z dz) :
    NewPathsOK newMethod rp n zb z dz (srcPlanetPaths crossing isfinite nan rp n) := by
  intro hm l hl k hk
  obtain ⟨G, hn, hF⟩ := hG hm
  exact src_path3d_eq_chordNew G hn crossing isfinite nan hF l k hl hk

/-- **`path_integral` with the new path method, the 3-D geometry regenerated too** (`src_path_integral_new` without the
    external hypothesis): the whole of `TransmissionModel.path_integral`, `compute_path_length`, `parallel_vector`,
    `BasePlanet.compute_path_length`, `compute_path_length_3d`, `compute_line_3d`, `normalize`, `compute_intersection_3d`
    (but the body of its planet-crossing branch, not entered here), the kernels and `compute_absorption` compute the model -/
theorem src_path_integral_new_geom {rs : ℝ} {nwn total : ℕ} {dens : ℕ → ℝ} (G : GeomOK rp n zb z dz) (hn : 0 < n)
    (crossing : Crossing) (isfinite : ℝ → Bool) (nan : ℝ) (hF : NanSel isfinite rp n zb z dz) (ht : 0 < total)
    (cs : List (Contrib ℝ)) :
    (∀ l < n, ∀ wn < nwn,
      (srcIntegral true rp rs n nwn total zb z dz dens cs (srcPlanetPaths crossing isfinite nan rp n)).2 l wn
        = modelTrans true true rp n nwn zb z dz dens cs l wn) ∧
    (∀ wn < nwn,
      (srcIntegral true rp rs n nwn total zb z dz dens cs (srcPlanetPaths crossing isfinite nan rp n)).1 wn
        = modelDepth true true rp rs n nwn zb z dz dens cs wn) :=
  srcIntegral_eq ht cs (newPathsOK_src true crossing isfinite nan (fun _ => ⟨G, hn, hF⟩))

/-- `chordNew_nonneg` about the source: every segment of the rows the regenerated 3-D geometry returns is non-negative -/
theorem src_chordNew_nonneg (G : GeomOK rp n zb z dz) (hn : 0 < n) (crossing : Crossing) (isfinite : ℝ → Bool) (nan : ℝ)
    (hF : NanSel isfinite rp n zb z dz) (l k : ℕ) (hl : l < n) (hk : k < n - l) :
    0 ≤ (srcPlanetPaths crossing isfinite nan rp n zb
        (rows (fun l => (parallelVector rp (z l + dz l / 2) (arrMax n zb)).1))
        (rows (fun l => (parallelVector rp (z l + dz l / 2) (arrMax n zb)).2))).getD l (fun _ => 0) k := by
  rw [src_path3d_eq_chordNew G hn crossing isfinite nan hF l k hl hk]
  exact chordNew_nonneg rp n zb z dz G.shells l k hl hk

/-- `chordNew_sum` about the source: the segments of row `l` sum to the chord of the outermost sphere -/
theorem src_chordNew_sum (G : GeomOK rp n zb z dz) (hn : 0 < n) (crossing : Crossing) (isfinite : ℝ → Bool) (nan : ℝ)
    (hF : NanSel isfinite rp n zb z dz) (l : ℕ) (hl : l < n) :
    ∑ k ∈ range (n - l), (srcPlanetPaths crossing isfinite nan rp n zb
        (rows (fun l => (parallelVector rp (z l + dz l / 2) (arrMax n zb)).1))
        (rows (fun l => (parallelVector rp (z l + dz l / 2) (arrMax n zb)).2))).getD l (fun _ => 0) k
      = 2 * Transc.sqrt (Transmission.sq (rp + zb n) - Transmission.sq (newB rp z dz l)) := by
  rw [← chordNew_sum rp n zb z dz l hl]
  exact Finset.sum_congr rfl fun k hk =>
    src_path3d_eq_chordNew G hn crossing isfinite nan hF l k hl (Finset.mem_range.1 hk)

/-- a sphere the ray misses (negative discriminant; `Real.sqrt` of it is 0): both stored points coincide, distance 0 -/
theorem hitDistance_miss (R h X b : ℝ) (hX : 0 ≤ X) (hd : (R + h) * (R + h) - b * b < 0) (hc : R * R - b * b ≤ 0) :
    hitDistance (intersect R h ⟨1, 0, 0⟩ ⟨-X, b, 0⟩) = 0 := by
  have eD : (1 * -X + 0 * b + 0 * 0) * (1 * -X + 0 * b + 0 * 0) - (-X * -X + b * b + 0 * 0) + (R + h) * (R + h)
      = (R + h) * (R + h) - b * b := by ring
  have eP : (1 * -X + 0 * b + 0 * 0) * (1 * -X + 0 * b + 0 * 0) - (-X * -X + b * b + 0 * 0) + R * R
      = R * R - b * b := by ring
  have esd : -(1 * -X + 0 * b + 0 * 0) = X := by ring
  have hs : Real.sqrt ((R + h) * (R + h) - b * b) = 0 := Real.sqrt_eq_zero_of_nonpos hd.le
  simp only [intersect, hitDistance, dot, normSq, Geometry.norm, V3.mul, V3.sum, V3.add, V3.sub, V3.smul, sqrt_real, eD, eP, esd, hs,
    add_zero, sub_zero]
  rw [if_neg (not_lt.2 hc), clamp0_of_nonneg hX]
  simp

/-- the instantiation `NanSel` is consistent: on a well-formed grid "distance is positive" is such an `isfinite` (hit spheres
    have a positive chord, missed spheres distance 0 in real arithmetic) -/
theorem nanSel_witness (G : GeomOK rp n zb z dz) : NanSel (fun x => decide (0 < x)) rp n zb z dz := by
  intro l hl j hj
  have hrp := G.rp_pos
  obtain ⟨hb1, hb2⟩ := G.b_bounds l hl
  have hzl := G.zb_nonneg l (by omega)
  have hc : rp * rp - (rp + (z l + dz l / 2)) * (rp + (z l + dz l / 2)) ≤ 0 := by nlinarith
  apply decide_eq_decide.2
  simp only [rayOrigin, intersect_delta]
  by_cases hg : 0 ≤ (rp + zb j) * (rp + zb j) - (rp + (z l + dz l / 2)) * (rp + (z l + dz l / 2))
  · have hlj := (good_iff G l hl j hj).1 hg
    have hd := hitDistance_eq rp (zb j) _ _ G.X_pos.le hg (origin_outside_aux G _ j (by omega)) hc
    have h1 := G.shells.zb_mono (l + 1) j hlj (by omega)
    have hpos : 0 < (rp + zb j) * (rp + zb j) - (rp + (z l + dz l / 2)) * (rp + (z l + dz l / 2)) := by nlinarith
    have := Real.sqrt_pos.2 hpos
    exact ⟨fun _ => hg, fun _ => by rw [hd]; linarith⟩
  · have hd := hitDistance_miss rp (zb j) _ _ G.X_pos.le (not_le.1 hg) hc
    exact ⟨fun h => absurd h (by rw [hd]; exact lt_irrefl 0), fun h => absurd h hg⟩

end geom
end Taurex.C01SrcProps
