/-
  C01 — the property theorems restated about the REGENERATED source.  `Props/C01Src.lean` proves that the definitions
  translated on every run from `TransmissionModel.path_integral` (with `compute_path_length_old`, `compute_path_length`,
  `compute_absorption`, the kernels `contribute_tau` / `contribute_cia` and the three `contribute` methods reached through
  `dispatch`), from `compute_absorption`, `compute_path_length_old` and `parallel_vector` alone, compute the model's
  `modelDepth true` / `modelTrans true`, `depth`, `chordOld`, `Geometry.parallelVector`; `Props/C01.lean` proves the
  property about these.  The corollaries below compose the two: they are statements about the text of the code as it is
  now, at the real carrier.

  What is composed
    * `srcIntegral … = Gen.SrcC01.path_integral …` called as `TransmissionModel.model()` calls it; `.1 wn` is the returned
      depth, `.2 l wn` the returned `exp(-tau)`.  Tie hypotheses kept visible: `0 < total` (a CIA contribution has at least
      one pair), `wn < nwn`, `l < n` (the tie identifies the entries inside the arrays), and for `new_path_method=True`
      the external `planet.compute_path_length` (`planetPaths`) returning the chords `chordNew` (`NewPathsOK`: what
      `C01.path3d_eq_chordNew` proves of the modelled 3-D geometry).
    * `Gen.SrcC01.compute_absorption` for an arbitrary optical-depth table (no hypotheses in the tie).
    * `Gen.SrcC01.compute_path_length_old` (row `l` of the returned list).
    * `Gen.SrcC01.parallel_vector` (column `j` of the returned `viewer`).

  Not restated (no tie)
    * `tau_nonneg`, `tau_mono_sigma`, `cutoff_licensed`: they speak of `tauFull`, the sum WITHOUT the early exit, which the
      code does not contain (the source only has the loop with the `break`, tied to `tauCut`); `tauCut` itself is tied only
      inside `path_integral` (through `exp(-tau)`), not as a separate source expression.
    * `depth_mono_scale` (both sides are the uncut `modelDepth false`).  Its returned-depth form
      `depth_cut_mono_scale_within` is restated; in `src_depth_cut_within` the documented integral stays the model's
      `modelDepth false`, the returned depth is the source.
    * `opaque_le_disc` (a statement about the altitude grid only, no function of the code in it).
    * `chordNew_radicand_nonneg`, `chordNew_nonneg`, `chordNew_sum`, `sphere_chord`, `origin_inside_clips`,
      `path3d_eq_chordNew`, `pathRow3d_length`: `compute_path_length_3d` and `taurex/util/geometry.py` beyond
      `parallel_vector` are not translated (the 3-D geometry is the parameter `planetPaths`).
    * `chordOld_radicand_nonneg`: about the radicand inside the model's `oldHalf`, an intermediate value the translated
      `compute_path_length_old` does not return.
    * `wellFormed_of_shells`, `nvContribs_nonneg`: hypothesis builders, no function of the code in the conclusion.
-/
import Props.C01
import Props.C01Src
set_option linter.unusedSectionVars false

open Finset

namespace Taurex.C01SrcProps
open Taurex.Transmission Taurex.C01 Taurex.C01Src

/-! ### `compute_absorption` -/

/-- the depth `compute_absorption(tau, dz)` returns at wavenumber `wn` -/
noncomputable def srcAbsorption (rp rs : ℝ) (n nW : ℕ) (z dz : ℕ → ℝ) (tau : ℕ → ℕ → ℝ) (wn : ℕ) : ℝ :=
  (Gen.SrcC01.compute_absorption tau dz n nW rp rs z).1 wn

theorem srcAbsorption_eq (rp rs : ℝ) (n nW : ℕ) (z dz : ℕ → ℝ) (tau : ℕ → ℕ → ℝ) (wn : ℕ) :
    srcAbsorption rp rs n nW z dz tau wn = depth rp rs n z dz (fun l => Transmission.trans (tau l wn)) := by
  unfold srcAbsorption
  rw [src_compute_absorption]

/-- never below the bare-planet value `(Rp/Rs)^2`, about the regenerated `compute_absorption` -/
theorem src_depth_ge_bare (rp rs : ℝ) (hrs : 0 < rs) (n nW : ℕ) (z dz : ℕ → ℝ) (tau : ℕ → ℕ → ℝ) (wn : ℕ)
    (hz : ∀ l < n, 0 ≤ rp + z l) (hdz : ∀ l < n, 0 ≤ dz l) (ht : ∀ l < n, 0 ≤ tau l wn) :
    rp ^ 2 / rs ^ 2 ≤ srcAbsorption rp rs n nW z dz tau wn := by
  rw [srcAbsorption_eq]; exact depth_ge_bare rp rs hrs n z dz (fun l => tau l wn) hz hdz ht

/-- never above the value for an atmosphere opaque to its top, about the regenerated `compute_absorption` -/
theorem src_depth_le_opaque (rp rs : ℝ) (hrs : 0 < rs) (n nW : ℕ) (z dz : ℕ → ℝ) (tau : ℕ → ℕ → ℝ) (wn : ℕ)
    (hz : ∀ l < n, 0 ≤ rp + z l) (hdz : ∀ l < n, 0 ≤ dz l) :
    srcAbsorption rp rs n nW z dz tau wn ≤ (rp ^ 2 + ∑ l ∈ range n, 2 * (rp + z l) * dz l) / rs ^ 2 := by
  rw [srcAbsorption_eq]; exact depth_le_opaque rp rs hrs n z dz (fun l => tau l wn) hz hdz

/-- the depth never decreases when optical depths grow, about the regenerated `compute_absorption` -/
theorem src_depth_mono_tau (rp rs : ℝ) (hrs : 0 < rs) (n nW : ℕ) (z dz : ℕ → ℝ) (tau tau' : ℕ → ℕ → ℝ) (wn : ℕ)
    (hz : ∀ l < n, 0 ≤ rp + z l) (hdz : ∀ l < n, 0 ≤ dz l) (h : ∀ l < n, tau l wn ≤ tau' l wn) :
    srcAbsorption rp rs n nW z dz tau wn ≤ srcAbsorption rp rs n nW z dz tau' wn := by
  rw [srcAbsorption_eq, srcAbsorption_eq]
  exact depth_mono_tau rp rs hrs n z dz (fun l => tau l wn) (fun l => tau' l wn) hz hdz h

/-! ### the whole `path_integral` -/

/-- what the tie assumes of the external `planet.compute_path_length` when `new_path_method=True`: called with the
    altitude boundaries and the lines of sight `compute_path_length` builds, row `l` holds the chords `chordNew` on its
    `n - l` segments (for the modelled 3-D geometry this is `C01.path3d_eq_chordNew`); nothing is assumed for the old method -/
def NewPathsOK (newMethod : Bool) (rp : ℝ) (n : ℕ) (zb z dz : ℕ → ℝ)
    (planetPaths : (ℕ → ℝ) → (ℕ → ℕ → ℝ) → (ℕ → ℕ → ℝ) → List (ℕ → ℝ)) : Prop :=
  newMethod = true → ∀ l < n, ∀ k < n - l,
    (planetPaths zb
        (rows (fun l => (Geometry.parallelVector rp (z l + dz l / 2) (Geometry.arrMax n zb)).1))
        (rows (fun l => (Geometry.parallelVector rp (z l + dz l / 2) (Geometry.arrMax n zb)).2))).getD l (fun _ => 0) k
      = chordNew rp zb z dz l k

/-- what the regenerated `path_integral` returns (`(absorption, exp(-tau))`), with Python's dynamic dispatch
    `contrib.contribute(…)` resolved to the three regenerated `contribute` methods -/
noncomputable def srcIntegral (newMethod : Bool) (rp rs : ℝ) (n nwn total : ℕ) (zb z dz dens : ℕ → ℝ)
    (cs : List (Contrib ℝ)) (planetPaths : (ℕ → ℝ) → (ℕ → ℕ → ℝ) → (ℕ → ℕ → ℝ) → List (ℕ → ℝ)) :
    (ℕ → ℝ) × (ℕ → ℕ → ℝ) :=
  Gen.SrcC01.path_integral nwn cs (dispatch nwn total n) dz dens n newMethod planetPaths rp rs zb z

section model
variable {newMethod : Bool} {rp rs : ℝ} {n nwn total : ℕ} {zb z dz dens : ℕ → ℝ}
  {planetPaths : (ℕ → ℝ) → (ℕ → ℕ → ℝ) → (ℕ → ℕ → ℝ) → List (ℕ → ℝ)}

theorem srcIntegral_eq (ht : 0 < total) (cs : List (Contrib ℝ))
    (hP : NewPathsOK newMethod rp n zb z dz planetPaths) :
    (∀ l < n, ∀ wn < nwn, (srcIntegral newMethod rp rs n nwn total zb z dz dens cs planetPaths).2 l wn
        = modelTrans true newMethod rp n nwn zb z dz dens cs l wn) ∧
    (∀ wn < nwn, (srcIntegral newMethod rp rs n nwn total zb z dz dens cs planetPaths).1 wn
        = modelDepth true newMethod rp rs n nwn zb z dz dens cs wn) := by
  unfold srcIntegral
  cases newMethod
  · exact src_path_integral_old n nwn total ht rp rs zb z dz dens cs planetPaths
  · exact src_path_integral_new n nwn total ht rp rs zb z dz dens cs planetPaths (hP rfl)

/-- the returned depth lies between the bare planet and the opaque atmosphere, about the regenerated `path_integral` -/
theorem src_model_depth_bounds {cs : List (Contrib ℝ)} (W : WellFormed newMethod rp rs n zb z dz dens cs)
    (ht : 0 < total) (hP : NewPathsOK newMethod rp n zb z dz planetPaths) (wn : ℕ) (hwn : wn < nwn) :
    rp ^ 2 / rs ^ 2 ≤ (srcIntegral newMethod rp rs n nwn total zb z dz dens cs planetPaths).1 wn ∧
    (srcIntegral newMethod rp rs n nwn total zb z dz dens cs planetPaths).1 wn
      ≤ (rp ^ 2 + ∑ l ∈ range n, 2 * (rp + z l) * dz l) / rs ^ 2 := by
  rw [(srcIntegral_eq ht cs hP).2 wn hwn]; exact model_depth_bounds W true wn

/-- nothing absorbs ⇒ every returned transmittance is 1 and the returned depth is exactly the bare-planet value,
    about the regenerated `path_integral` -/
theorem src_depth_transparent (cs : List (Contrib ℝ)) (h0 : ∀ c ∈ cs, ∀ l wn, c.sigma l wn = 0)
    (ht : 0 < total) (hP : NewPathsOK newMethod rp n zb z dz planetPaths) (wn : ℕ) (hwn : wn < nwn) :
    (∀ l < n, (srcIntegral newMethod rp rs n nwn total zb z dz dens cs planetPaths).2 l wn = 1) ∧
    (srcIntegral newMethod rp rs n nwn total zb z dz dens cs planetPaths).1 wn = rp ^ 2 / rs ^ 2 := by
  have h := depth_transparent (newMethod := newMethod) (rp := rp) (rs := rs) (n := n) (nwn := nwn) (zb := zb) (z := z)
    (dz := dz) (dens := dens) cs h0 true wn
  refine ⟨fun l hl => ?_, ?_⟩
  · rw [(srcIntegral_eq ht cs hP).1 l hl wn hwn]; exact h.1 l
  · rw [(srcIntegral_eq ht cs hP).2 wn hwn]; exact h.2

/-- "to within that cut-off": the returned depth (the source, with its early exit) is never above the documented integral
    (`modelDepth false`: the model without the exit; the code has no such function) and falls short of it by at most
    `exp(-10)` times the opaque annulus -/
theorem src_depth_cut_within {cs : List (Contrib ℝ)} (W : WellFormed newMethod rp rs n zb z dz dens cs)
    (ht : 0 < total) (hP : NewPathsOK newMethod rp n zb z dz planetPaths) (wn : ℕ) (hwn : wn < nwn) :
    0 ≤ modelDepth false newMethod rp rs n nwn zb z dz dens cs wn
          - (srcIntegral newMethod rp rs n nwn total zb z dz dens cs planetPaths).1 wn ∧
    modelDepth false newMethod rp rs n nwn zb z dz dens cs wn
          - (srcIntegral newMethod rp rs n nwn total zb z dz dens cs planetPaths).1 wn
      ≤ Transmission.trans 10 * (∑ l ∈ range n, 2 * (rp + z l) * dz l) / rs ^ 2 := by
  rw [(srcIntegral_eq ht cs hP).2 wn hwn]; exact depth_cut_within W wn hwn

/-- scaling every opacity by `s ≥ 1` never decreases the RETURNED depth, to within the cut-off, about the regenerated
    `path_integral` (run on the contribution list and on the scaled list) -/
theorem src_depth_cut_mono_scale_within {cs : List (Contrib ℝ)} (W : WellFormed newMethod rp rs n zb z dz dens cs)
    (ht : 0 < total) (hP : NewPathsOK newMethod rp n zb z dz planetPaths) (s : ℝ) (hs : 1 ≤ s) (wn : ℕ)
    (hwn : wn < nwn) :
    (srcIntegral newMethod rp rs n nwn total zb z dz dens cs planetPaths).1 wn
      ≤ (srcIntegral newMethod rp rs n nwn total zb z dz dens (cs.map (Contrib.scale s)) planetPaths).1 wn
        + Transmission.trans 10 * (∑ l ∈ range n, 2 * (rp + z l) * dz l) / rs ^ 2 := by
  rw [(srcIntegral_eq ht cs hP).2 wn hwn, (srcIntegral_eq ht (cs.map (Contrib.scale s)) hP).2 wn hwn]
  exact depth_cut_mono_scale_within W s hs wn hwn

end model

/-! ### `compute_path_length_old` -/

/-- row `l` of the list `compute_path_length_old(dz)` returns (`k ↦ 0` past the end, as `path_integral` reads it) -/
noncomputable def srcChordOld (rp : ℝ) (n : ℕ) (z dz : ℕ → ℝ) (l : ℕ) : ℕ → ℝ :=
  (Gen.SrcC01.compute_path_length_old dz n rp z).getD l (fun _ => 0)

theorem srcChordOld_eq (rp : ℝ) (n : ℕ) (z dz : ℕ → ℝ) (l : ℕ) (hl : l < n) :
    srcChordOld rp n z dz l = chordOld rp z dz l := by
  unfold srcChordOld
  rw [src_compute_path_length_old]
  simp [List.getD, hl]

/-- old method: every segment of the regenerated `compute_path_length_old` is non-negative -/
theorem src_chordOld_nonneg (rp : ℝ) (n : ℕ) (zb z dz : ℕ → ℝ) (S : Shells rp n zb z dz) (l k : ℕ) (hl : l < n)
    (hk : k < n - l) : 0 ≤ srcChordOld rp n z dz l k := by
  rw [srcChordOld_eq rp n z dz l hl]; exact chordOld_nonneg rp n zb z dz S l k hl hk

/-- old method: the segments of the regenerated `compute_path_length_old` sum to the half-chord × 2 -/
theorem src_chordOld_sum (rp : ℝ) (n : ℕ) (z dz : ℕ → ℝ) (l : ℕ) (hl : l < n) :
    ∑ k ∈ range (n - l), srcChordOld rp n z dz l k = 2 * oldHalf rp z dz l (n - 1) := by
  rw [srcChordOld_eq rp n z dz l hl]; exact chordOld_sum rp n z dz l hl

/-! ### `parallel_vector` -/

/-- column `j` of the `viewer` array `parallel_vector(R, alt, max_alt)` returns (the ray origins) -/
noncomputable def srcViewer (R maxAlt : ℝ) (alt : ℕ → ℝ) (nA j : ℕ) : Geometry.V3 ℝ :=
  ⟨(Gen.SrcC01.parallel_vector R alt maxAlt nA).1 0 j, (Gen.SrcC01.parallel_vector R alt maxAlt nA).1 1 j,
   (Gen.SrcC01.parallel_vector R alt maxAlt nA).1 2 j⟩

theorem srcViewer_eq (R maxAlt : ℝ) (alt : ℕ → ℝ) (nA j : ℕ) :
    srcViewer R maxAlt alt nA j = (Geometry.parallelVector R (alt j) maxAlt).1 := by
  unfold srcViewer
  rw [src_parallel_vector]
  simp [rows]

open Taurex.Geometry in
/-- the ray origin the regenerated `parallel_vector` builds (called with `max_alt = max(altitude_boundaries)`, as
    `compute_path_length` calls it) lies outside (or on) every boundary sphere -/
theorem src_origin_outside (rp : ℝ) (n : ℕ) (zb z dz : ℕ → ℝ) (G : GeomOK rp n zb z dz) (alt : ℕ → ℝ) (nA k : ℕ)
    (j : ℕ) (hj : j ≤ n) :
    (rp + zb j) * (rp + zb j) ≤ normSq (srcViewer rp (arrMax n zb) alt nA k) := by
  rw [srcViewer_eq]; exact origin_outside rp n zb z dz G (alt k) j hj

end Taurex.C01SrcProps
