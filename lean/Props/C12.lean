/-
  C12 — temperature profiles are finite, positive and bounded by their control values.
  Every `theorem` of this file is an audited obligation about the definitions of TaurexModel/Temperature.lean
  (the ones `driver_c12` executes on Float), here at the real carrier.
-/
import Proofs.C12Lemmas
import Proofs.C12Guillot
import Proofs.C12Section

namespace Taurex.C12
open Taurex.NpInterp Taurex.Temperature

/-- Isothermal: one value per layer, all equal to the control temperature. -/
theorem iso_const (t : ℝ) (n : Nat) : (isothermal t n).length = n ∧ ∀ v ∈ isothermal t n, v = t := by
  unfold isothermal
  exact ⟨List.length_replicate, fun v hv => (List.mem_replicate.1 hv).2⟩

example : isothermal (1500 : ℝ) 3 = [1500, 1500, 1500] := rfl

/-- NPoint is rejected as an invalid model exactly when two consecutive pressure nodes are not strictly
    decreasing or a segment's slope |ΔT / Δlog10 P| reaches the limit — never NaN, never another error. -/
theorem npoint_rejects (q : NPointParams ℝ) (n : Nat) (pressure : List ℝ) :
    nPoint q n pressure = .invalid ↔
      (∃ i, ∃ h : i + 1 < (q.pNodes pressure).length, (q.pNodes pressure)[i] ≤ (q.pNodes pressure)[i + 1]) ∨
      (∃ i, ∃ hp : i + 1 < (q.pNodes pressure).length, ∃ ht : i + 1 < q.tNodes.length,
        q.limitSlope ≤ |(q.tNodes[i + 1] - q.tNodes[i]) /
          (log10 (q.pNodes pressure)[i + 1] - log10 (q.pNodes pressure)[i])|) := by
  rw [nPoint_invalid_iff, NPointParams.rejected, Bool.or_eq_true, pressureInverted_iff, slopeTooHigh_iff]

/-- the 4-node profile used in the non-vacuity examples: 9 layers, nodes 1e5 > 1e3 > 10 > 0.1 Pa -/
noncomputable def exampleNPoint : NPointParams ℝ :=
  { tSurface := 1500, tTop := 300, pSurface := some 100000, pTop := some (1 / 10), tPoints := [1200, 800],
    pPoints := [1000, 10], window := 34, limitSlope := 9999999 }

example : pressureInverted (exampleNPoint.pNodes []) = false := by
  simp only [exampleNPoint, NPointParams.pNodes, resolveP, pressureInverted, List.cons_append, List.nil_append]
  norm_num

/-- NPoint with a smoothing window that is a percentage (0..100) never fails for any layer count: a profile
    that passes the node check yields exactly one value per layer. -/
theorem npoint_len (q : NPointParams ℝ) (n : Nat) (pressure : List ℝ) (hn : n = pressure.length)
    (hw0 : 0 ≤ q.window) (hw1 : q.window ≤ 100) (hv : q.rejected pressure = false) :
    ∃ prof, nPoint q n pressure = .ok prof ∧ prof.length = n := by
  unfold nPoint
  simp only [hv, Bool.false_eq_true, if_false]
  obtain ⟨r, hr, hl, _⟩ := smooth_ok (q.interpolated pressure) n q.window
    (by rw [interpolated_length]; exact hn) hw0 hw1 _ rfl
  exact ⟨r, hr, by rw [hl, interpolated_length, hn]⟩

example : (0 : ℝ) ≤ exampleNPoint.window ∧ exampleNPoint.window ≤ 100 := by
  simp only [exampleNPoint]; norm_num

/-- NPoint, smoothing included, never leaves the range `[lo, hi]` spanned by its node temperatures (so positive
    nodes give a positive profile).  Guards: as many temperature as pressure points (enforced by the constructor)
    and a positive top pressure node (log10 is taken of the nodes; the accepted ones are strictly decreasing). -/
theorem npoint_between (q : NPointParams ℝ) (n : Nat) (pressure prof : List ℝ) (lo hi : ℝ)
    (hlen : q.tPoints.length = q.pPoints.length)
    (hpos : 0 < resolveP q.pTop (pressure.getD (pressure.length - 1) 0))
    (hT : ∀ t ∈ q.tNodes, lo ≤ t ∧ t ≤ hi) (hok : nPoint q n pressure = .ok prof) :
    ∀ t ∈ prof, lo ≤ t ∧ t ≤ hi := by
  unfold nPoint at hok
  split_ifs at hok with hrej
  have hv : pressureInverted (q.pNodes pressure) = false := by
    unfold NPointParams.rejected at hrej
    rw [Bool.not_eq_true, Bool.or_eq_false_iff] at hrej
    exact hrej.1
  have hraw : Within lo hi (q.interpolated pressure) :=
    interpolated_within q pressure hlen (pNodes_pos q pressure hv hpos) hv hT
  exact smooth_within _ _ _ hraw (movingAverage_between _ _ hraw) (assembleSmoothed_mem _ _ _ hok)

example : 0 < resolveP exampleNPoint.pTop (([] : List ℝ).getD (([] : List ℝ).length - 1) 0) := by
  simp only [exampleNPoint, resolveP]; norm_num

example : exampleNPoint.tPoints.length = exampleNPoint.pPoints.length ∧
    (∀ t ∈ exampleNPoint.tNodes, (300 : ℝ) ≤ t ∧ t ≤ 1500) := by
  refine ⟨rfl, ?_⟩
  intro t ht
  simp [exampleNPoint, NPointParams.tNodes] at ht
  rcases ht with rfl | rfl | rfl | rfl <;> norm_num

/-- all node temperatures equal ⇒ the NPoint profile is that constant -/
theorem npoint_const (q : NPointParams ℝ) (n : Nat) (pressure prof : List ℝ) (c : ℝ)
    (hlen : q.tPoints.length = q.pPoints.length)
    (hpos : 0 < resolveP q.pTop (pressure.getD (pressure.length - 1) 0))
    (hT : ∀ t ∈ q.tNodes, t = c) (hok : nPoint q n pressure = .ok prof) : ∀ t ∈ prof, t = c := by
  intro t ht
  have := npoint_between q n pressure prof c c hlen hpos
    (fun t ht => by rw [hT t ht]; exact ⟨le_refl _, le_refl _⟩) hok t ht
  linarith [this.1, this.2]

example : ∀ t ∈ ({ exampleNPoint with tSurface := 700, tTop := 700, tPoints := [700, 700] } : NPointParams ℝ).tNodes,
    t = 700 := by
  intro t ht
  simp [NPointParams.tNodes] at ht
  exact ht

/-- Rodgers 2000 with the default covariance: one value per layer, each inside the range of the layer
    temperatures.  Guards: positive pressures (log of ratios), one temperature per layer.  (The correlation length
    only has to be a number; `h = 0` is excluded by the harness because IEEE gives NaN where ℝ gives `x/0 = 0`.) -/
theorem rodgers_between (tl : List ℝ) (h : ℝ) (pressure : List ℝ) (lo hi : ℝ) (_hh : h ≠ 0)
    (hp : ∀ x ∈ pressure, 0 < x) (hlen : tl.length = pressure.length) (hT : ∀ t ∈ tl, lo ≤ t ∧ t ≤ hi) :
    (rodgers tl h none pressure).length = pressure.length ∧
      ∀ t ∈ rodgers tl h none pressure, lo ≤ t ∧ t ≤ hi :=
  ⟨rodgers_default_length tl h pressure, rodgers_default_within tl h pressure hp hlen hT⟩

example : (∀ x ∈ [(100000 : ℝ), 1000, 10], 0 < x) ∧ [(1500 : ℝ), 1000, 700].length = [(100000 : ℝ), 1000, 10].length ∧
    (∀ t ∈ [(1500 : ℝ), 1000, 700], (700 : ℝ) ≤ t ∧ t ≤ 1500) := by
  refine ⟨?_, rfl, ?_⟩
  · intro x hx; simp at hx; rcases hx with rfl | rfl | rfl <;> norm_num
  · intro x hx; simp at hx; rcases hx with rfl | rfl | rfl <;> norm_num

/-- Rodgers: equal layer temperatures give a constant profile -/
theorem rodgers_const (tl : List ℝ) (h : ℝ) (pressure : List ℝ) (c : ℝ) (hh : h ≠ 0)
    (hp : ∀ x ∈ pressure, 0 < x) (hlen : tl.length = pressure.length) (hT : ∀ t ∈ tl, t = c) :
    ∀ t ∈ rodgers tl h none pressure, t = c := by
  intro t ht
  have := (rodgers_between tl h pressure c c hh hp hlen
    (fun t ht => by rw [hT t ht]; exact ⟨le_refl _, le_refl _⟩)).2 t ht
  linarith [this.1, this.2]

example : ∀ t ∈ [(900 : ℝ), 900, 900], t = 900 := by
  intro t ht; simp at ht; exact ht

/-- Rodgers with a user covariance: row-normalised non-negative weights (row sums equal to the column sums the
    code divides by, e.g. any symmetric matrix) keep the profile inside the range of the layer temperatures. -/
theorem rodgers_user_between (tl : List ℝ) (h : ℝ) (cov : List (List ℝ)) (pressure : List ℝ) (lo hi : ℝ)
    (hnn : ∀ row ∈ cov, ∀ c ∈ row, 0 ≤ c) (hlen : ∀ row ∈ cov, row.length ≤ tl.length)
    (hbal : ∀ i (h1 : i < cov.length) (h2 : i < (colSums cov).length),
      (colSums cov)[i] = sumL cov[i] ∧ 0 < sumL cov[i])
    (hT : ∀ t ∈ tl, lo ≤ t ∧ t ≤ hi) : ∀ t ∈ rodgers tl h (some cov) pressure, lo ≤ t ∧ t ≤ hi := by
  unfold rodgers
  exact correlateTemp_within cov tl hnn hlen hbal hT

/- a symmetric 2×2 covariance: column sums [3, 4] = row sums, all positive -/
example : colSums [[(2 : ℝ), 1], [1, 3]] = [3, 4] ∧ sumL [(2 : ℝ), 1] = 3 ∧ sumL [(1 : ℝ), 3] = 4 := by
  refine ⟨?_, ?_, ?_⟩ <;> simp [colSums, sumL, List.range_succ] <;> norm_num

/-- TemperatureArray (both code paths, optional reversal): one value per layer, inside the range of the
    tabulated temperatures. -/
theorem array_between (tp : List ℝ) (pp : Option (List ℝ)) (rev : Bool) (n : Nat) (pressure : List ℝ)
    (lo hi : ℝ) (hne : 0 < tp.length) (hpp : ∀ pts, pp = some pts → 0 < pts.length)
    (hn : n = pressure.length) (hT : ∀ t ∈ tp, lo ≤ t ∧ t ≤ hi) :
    (tempArray tp pp rev n pressure).length = n ∧ ∀ t ∈ tempArray tp pp rev n pressure, lo ≤ t ∧ t ≤ hi := by
  have hT' : Within lo hi (if rev then tp.reverse else tp) := by
    split_ifs
    · exact within_reverse hT
    · exact hT
  have hne' : 0 < (if rev then tp.reverse else tp).length := by
    split_ifs <;> simpa using hne
  unfold tempArray
  cases pp with
  | none => exact ⟨tempArrayPlain_length _ _, tempArrayPlain_within _ _ hne' hT'⟩
  | some pts =>
    refine ⟨by rw [tempArrayPressure_length, hn], tempArrayPressure_within _ _ _ hne' ?_ hT'⟩
    have := hpp pts rfl
    split_ifs <;> simpa using this

example : (0 < [(2000 : ℝ), 1000].length) ∧ (∀ t ∈ [(2000 : ℝ), 1000], (1000 : ℝ) ≤ t ∧ t ≤ 2000) := by
  refine ⟨by simp, ?_⟩
  intro x hx; simp at hx; rcases hx with rfl | rfl <;> norm_num

/-- Guillot 2010 is rejected as an invalid model exactly for zero opacities (`kappa_ir = 0`, or a zero
    `gamma = kappa_v / kappa_ir`) or a negative irradiation / internal temperature; otherwise it returns a value
    for every layer for which an `E2` pair is supplied. -/
theorem guillot_rejects (q : GuillotParams ℝ) (g : ℝ) (pressure e21 e22 : List ℝ) :
    (guillot q g pressure e21 e22 = .invalid ↔
      q.kappaIr = 0 ∨ q.kappaV1 = 0 ∨ q.kappaV2 = 0 ∨ q.tIrr < 0 ∨ q.tInt < 0) ∧
    (guillot q g pressure e21 e22 ≠ .invalid →
      ∃ prof, guillot q g pressure e21 e22 = .ok prof ∧
        prof.length = min pressure.length (min e21.length e22.length)) := by
  have hrej := guillot_rejected_iff q
  unfold guillot
  by_cases hr : q.rejected = true
  · simp only [hr, if_true, true_iff, ne_eq, not_true_eq_false, false_implies, and_true]
    rcases hrej.1 hr with h | h | h | h | h
    · exact Or.inl h
    · rcases div_eq_zero_iff.1 h with h | h
      · exact Or.inr (Or.inl h)
      · exact Or.inl h
    · rcases div_eq_zero_iff.1 h with h | h
      · exact Or.inr (Or.inr (Or.inl h))
      · exact Or.inl h
    · exact Or.inr (Or.inr (Or.inr (Or.inl h)))
    · exact Or.inr (Or.inr (Or.inr (Or.inr h)))
  · simp only [hr, Bool.false_eq_true, if_false]
    refine ⟨⟨fun h => by simp at h, fun h => ?_⟩, fun _ => ⟨_, rfl, by simp⟩⟩
    exfalso
    apply hr
    rw [hrej]
    rcases h with h | h | h | h | h
    · exact Or.inl h
    · exact Or.inr (Or.inl (by rw [h, zero_div]))
    · exact Or.inr (Or.inr (Or.inl (by rw [h, zero_div])))
    · exact Or.inr (Or.inr (Or.inr (Or.inl h)))
    · exact Or.inr (Or.inr (Or.inr (Or.inr h)))

example : ¬ ((1 / 100 : ℝ) = 0 ∨ (5 / 1000 : ℝ) = 0 ∨ (5 / 1000 : ℝ) = 0 ∨ (1500 : ℝ) < 0 ∨ (100 : ℝ) < 0) := by
  norm_num

/-- **Guillot positivity**: for positive opacities, non-negative temperatures not both zero, `0 ≤ alpha ≤ 1`,
    positive gravity and non-negative pressures, and ANY function `E2` with the exponential-integral bounds
    `0 ≤ E2 x ≤ exp(-x)/(1+x)` on `x ≥ 0`, the profile is accepted and has one strictly positive temperature per layer. -/
theorem guillot_positive (q : GuillotParams ℝ) (g : ℝ) (pressure : List ℝ) (E2 : ℝ → ℝ)
    (hE : ∀ x, 0 ≤ x → 0 ≤ E2 x ∧ E2 x ≤ Real.exp (-x) / (1 + x))
    (hg : 0 < g) (hp : ∀ p ∈ pressure, 0 ≤ p)
    (hk : 0 < q.kappaIr) (h1 : 0 < q.kappaV1) (h2 : 0 < q.kappaV2)
    (hirr : 0 ≤ q.tIrr) (hint : 0 ≤ q.tInt) (hpos : q.tIrr ≠ 0 ∨ q.tInt ≠ 0)
    (ha0 : 0 ≤ q.alpha) (ha1 : q.alpha ≤ 1) :
    ∃ prof, guillot q g pressure
        (pressure.map fun p => E2 (q.kappaV1 / q.kappaIr * (q.kappaIr * p / g)))
        (pressure.map fun p => E2 (q.kappaV2 / q.kappaIr * (q.kappaIr * p / g))) = .ok prof ∧
      prof.length = pressure.length ∧ ∀ t ∈ prof, 0 < t := by
  have hnr : q.rejected = false := by
    rw [← Bool.not_eq_true, guillot_rejected_iff]
    have hg1 : 0 < q.kappaV1 / q.kappaIr := div_pos h1 hk
    have hg2 : 0 < q.kappaV2 / q.kappaIr := div_pos h2 hk
    rintro (h | h | h | h | h) <;> linarith
  unfold guillot
  simp only [hnr, Bool.false_eq_true, if_false]
  refine ⟨_, rfl, ?_, ?_⟩
  · simp
  · rw [C12G.zipWith_map_zip]
    intro t ht
    obtain ⟨p, hpm, rfl⟩ := List.mem_map.1 ht
    have hp0 := hp p hpm
    have htau : 0 ≤ q.kappaIr * p / g := div_nonneg (mul_nonneg hk.le hp0) hg.le
    have hg1 : 0 < q.kappaV1 / q.kappaIr := div_pos h1 hk
    have hg2 : 0 < q.kappaV2 / q.kappaIr := div_pos h2 hk
    have b1 := hE (q.kappaV1 / q.kappaIr * (q.kappaIr * p / g)) (mul_nonneg hg1.le htau)
    have b2 := hE (q.kappaV2 / q.kappaIr * (q.kappaIr * p / g)) (mul_nonneg hg2.le htau)
    have hT4 := C12G.guillotT4_pos q (q.kappaIr * p / g) _ _ hk h1 h2 hpos ha0 ha1 htau b1.1 b1.2 b2.1 b2.2
    simp only [sqrt_real]
    exact Real.sqrt_pos.2 (Real.sqrt_pos.2 hT4)

/-- non-vacuity: the documented default parameters (T_irr 1500, kappa_ir 0.01, kappa_v 0.005, alpha 0.5, T_int 100) -/
example : (0:ℝ) < 1/100 ∧ (0:ℝ) < 5/1000 ∧ (0:ℝ) ≤ 1500 ∧ (0:ℝ) ≤ 100 ∧ ((1500:ℝ) ≠ 0 ∨ (100:ℝ) ≠ 0) ∧ (0:ℝ) ≤ 1/2 ∧ (1/2:ℝ) ≤ 1 := by
  norm_num

/-- non-vacuity of the `E2` hypothesis: the upper bound itself is an admissible `E2` -/
example : ∀ x : ℝ, 0 ≤ x → 0 ≤ Real.exp (-x) / (1 + x) ∧ Real.exp (-x) / (1 + x) ≤ Real.exp (-x) / (1 + x) :=
  fun x hx => ⟨div_nonneg (Real.exp_pos _).le (by linarith), le_refl _⟩


/-! ### the scaling mixin (`tempscalar+<profile>`, `enhance_class(<profile>, TempScaler)`) -/

/-- `TempScaler` over any wrapped profile: one value per layer of the wrapped profile; for a scale factor `≥ 0` every value
    lies in the range spanned by the wrapped profile's control temperatures times the scale factor. -/
theorem scaler_between (s : ℝ) (prof : List ℝ) (lo hi : ℝ) (hs : 0 ≤ s) (hT : ∀ t ∈ prof, lo ≤ t ∧ t ≤ hi) :
    (tempScaler s prof).length = prof.length ∧ ∀ t ∈ tempScaler s prof, lo * s ≤ t ∧ t ≤ hi * s := by
  unfold tempScaler
  refine ⟨List.length_map _, ?_⟩
  intro t ht
  obtain ⟨x, hx, rfl⟩ := List.mem_map.1 ht
  exact ⟨mul_le_mul_of_nonneg_right (hT x hx).1 hs, mul_le_mul_of_nonneg_right (hT x hx).2 hs⟩

example : tempScaler (11 / 10 : ℝ) [1000, 2000] = [1100, 2200] := by
  simp [tempScaler]; norm_num

/-- a positive scale factor keeps a positive profile positive; equal wrapped temperatures stay equal (a constant profile
    scales to a constant profile) -/
theorem scaler_positive_const (s : ℝ) (prof : List ℝ) (hs : 0 < s) :
    ((∀ t ∈ prof, 0 < t) → ∀ t ∈ tempScaler s prof, 0 < t) ∧
    (∀ c, (∀ t ∈ prof, t = c) → ∀ t ∈ tempScaler s prof, t = c * s) := by
  unfold tempScaler
  refine ⟨?_, ?_⟩
  · intro h t ht
    obtain ⟨x, hx, rfl⟩ := List.mem_map.1 ht
    exact mul_pos (h x hx) hs
  · intro c h t ht
    obtain ⟨x, hx, rfl⟩ := List.mem_map.1 ht
    rw [h x hx]

example : (0 : ℝ) < 11 / 10 ∧ ∀ t ∈ [(1300 : ℝ), 1300], t = 1300 := by
  refine ⟨by norm_num, ?_⟩
  intro t ht; simp at ht; exact ht

/-- **the scaled TemperatureArray / TemperatureFile, however often it is evaluated**: every one of `k` successive
    evaluations of `.profile` has one value per layer inside the range of the tabulated temperatures times the scale factor
    (the k-th evaluation is the first one: evaluating the profile leaves the stored controls alone). -/
theorem scaler_array_reads (s : ℝ) (tp : List ℝ) (pp : Option (List ℝ)) (rev : Bool) (n : Nat) (pressure : List ℝ)
    (lo hi : ℝ) (k : Nat) (hs : 0 ≤ s) (hne : 0 < tp.length) (hpp : ∀ pts, pp = some pts → 0 < pts.length)
    (hn : n = pressure.length) (hT : ∀ t ∈ tp, lo ≤ t ∧ t ≤ hi) :
    (tempScalerReads s tp pp rev n pressure k).length = k ∧
    ∀ prof ∈ tempScalerReads s tp pp rev n pressure k,
      prof = tempScaler s (tempArray tp pp rev n pressure) ∧ prof.length = n ∧
        ∀ t ∈ prof, lo * s ≤ t ∧ t ≤ hi * s := by
  have ha := array_between tp pp rev n pressure lo hi hne hpp hn hT
  have hb := scaler_between s (tempArray tp pp rev n pressure) lo hi hs ha.2
  unfold tempScalerReads
  refine ⟨List.length_replicate, ?_⟩
  intro prof hprof
  obtain rfl := (List.mem_replicate.1 hprof).2
  exact ⟨rfl, by rw [hb.1, ha.1], hb.2⟩

example : tempScalerReads (11 / 10 : ℝ) [1000, 2000] none false 2 [100000, 10] 2 = [[1100, 2200], [1100, 2200]] := by
  simp [tempScalerReads, tempScaler, tempArray, tempArrayPlain, List.replicate]; norm_num

/-! ### the input-file route: `create_temperature_profile(section)` (taurex/parameter/factory.py)

A profile built from a `[Temperature]` section is the class's constructor applied to the section's values over the
constructor's defaults (`Section.resolve`).  The rule never inspects a value (`ν` is arbitrary): an explicit `0`, `0.0`,
`[]` or `False` is a value like any other; and the object built from a section does not depend on what was built before it
in the same session.  The closed forms, bounds and rejections above then apply to the resolved parameters. -/
section SectionRoute
open Taurex.Section

/-- **section_given**: a keyword the section gives reaches the constructor with the section's value — whatever the value
    is (zero, an empty list, `False`: `ν` is arbitrary). -/
theorem section_given {κ ν : Type} [BEq κ] [LawfulBEq κ] (defaults sec r : List (κ × ν))
    (h : resolve defaults sec = some r) (k : κ) (v : ν) (hk : known defaults k = true)
    (hv : sec.lookup k = some v) : r.lookup k = some v := by
  unfold resolve at h
  split at h
  · cases h
    rw [resolve_lookup, hv]
    unfold known at hk
    cases hd : defaults.lookup k with
    | none => rw [hd] at hk; simp at hk
    | some d => simp
  · cases h

-- an explicit zero (default 1) is what the constructor gets
example : ([("alpha", (0 : Nat)), ("T_int", 100)] : List (String × Nat)).lookup "alpha" = some 0 :=
  section_given [("alpha", 1), ("T_int", 100)] [("alpha", 0)] _ (by decide) "alpha" 0 (by decide) (by decide)

/-- **section_default**: a keyword the section omits reaches the constructor with the constructor's own default. -/
theorem section_default {κ ν : Type} [BEq κ] [LawfulBEq κ] (defaults sec r : List (κ × ν))
    (h : resolve defaults sec = some r) (k : κ) (d : ν) (hd : defaults.lookup k = some d)
    (hv : sec.lookup k = none) : r.lookup k = some d := by
  unfold resolve at h
  split at h
  · cases h
    rw [resolve_lookup, hv, hd]
    rfl
  · cases h

example : ([("alpha", (0 : Nat)), ("T_int", 100)] : List (String × Nat)).lookup "T_int" = some 100 :=
  section_default [("alpha", 1), ("T_int", 100)] [("alpha", 0)] _ (by decide) "T_int" 100 (by decide) (by decide)

/-- **section_keys**: the constructor gets each of its keywords exactly once, in its own order. -/
theorem section_keys {κ ν : Type} [BEq κ] (defaults sec r : List (κ × ν))
    (h : resolve defaults sec = some r) : r.map Prod.fst = defaults.map Prod.fst := by
  unfold resolve at h
  split at h
  · cases h
    simp [List.map_map, Function.comp_def]
  · cases h

example : ([("alpha", (0 : Nat)), ("T_int", 100)] : List (String × Nat)).map Prod.fst = ["alpha", "T_int"] :=
  section_keys [("alpha", 1), ("T_int", 100)] [("alpha", 0)] _ (by decide)

/-- **section_history**: what is built from a section does not depend on the sections built before it in the session. -/
theorem section_history {κ ν : Type} [BEq κ] (defaults : List (κ × ν)) (before : List (List (κ × ν)))
    (sec : List (κ × ν)) :
    (session defaults (before ++ [sec]))[before.length]? = some (resolve defaults sec) := by
  simp [session]

-- the second object of a session that first built one with alpha = 0, T_int = 7 and then one from a section giving only T_int
example : (session [("alpha", (1 : Nat)), ("T_int", 100)] ([[("alpha", 0), ("T_int", 7)]] ++ [[("T_int", 9)]]))[1]? =
    some (some [("alpha", 1), ("T_int", 9)]) := by
  rw [show (1 : Nat) = [[("alpha", (0 : Nat)), ("T_int", 7)]].length from rfl, section_history]
  decide

example : resolve [("alpha", (1 : Nat)), ("T_int", 100)] [("alpha", 0)] = some [("alpha", 0), ("T_int", 100)] := by
  decide

/-- a zero opacity given explicitly in a Guillot section reaches the constructor as zero, hence the profile is rejected as
    an invalid model (it is not replaced by the non-zero default) -/
theorem section_guillot_zero_rejected (defaults sec r : List (String × ℝ)) (h : resolve defaults sec = some r)
    (k : String) (hk : k = "kappa_irr" ∨ k = "kappa_v1" ∨ k = "kappa_v2") (hkn : known defaults k = true)
    (hz : sec.lookup k = some 0) (q : GuillotParams ℝ)
    (hq : r.lookup "kappa_irr" = some q.kappaIr ∧ r.lookup "kappa_v1" = some q.kappaV1 ∧
      r.lookup "kappa_v2" = some q.kappaV2) (g : ℝ) (pressure e21 e22 : List ℝ) :
    guillot q g pressure e21 e22 = .invalid := by
  have h0 := section_given defaults sec r h k 0 hkn hz
  refine (guillot_rejects q g pressure e21 e22).1.2 ?_
  rcases hk with rfl | rfl | rfl
  · rw [hq.1] at h0; exact Or.inl (Option.some.inj h0)
  · rw [hq.2.1] at h0; exact Or.inr (Or.inl (Option.some.inj h0))
  · rw [hq.2.2] at h0; exact Or.inr (Or.inr (Or.inl (Option.some.inj h0)))

example : resolve [("kappa_irr", (1 / 100 : ℝ)), ("kappa_v1", 5 / 1000), ("kappa_v2", 5 / 1000)] [("kappa_v1", 0)] =
    some [("kappa_irr", 1 / 100), ("kappa_v1", 0), ("kappa_v2", 5 / 1000)] := by
  simp [resolve, known, List.lookup]

end SectionRoute

end Taurex.C12
