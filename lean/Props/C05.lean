/-
  C05 — spectral binning is an overlap-weighted mean of the native spectrum.

  All theorems are about the definitions of `TaurexModel/Binning.lean` that `driver_c05` executes on `Float`
  (`fluxBinVal`, `fluxBinErr`, `fluxBindown`, `nativeBins`, `targetBins`, `window`, `histMean1`, `histMeanN`,
  `nativeBindown`), here at the carrier `ℝ`.  The non-vacuity examples use `nvRows` (`Proofs/C05NV.lean`): five
  contiguous native bins `[0.5,1.5] … [4.5,5.5]` with values 10 … 50; targets `[2,4]` (inside), `[4.5,7.5]`
  (straddling the upper end), `[6,8]` (outside).  Guard on the native grid ("ordered bins"): after sorting by centre
  the lower edges and the upper edges `centre ∓ width/2` are each non-decreasing, widths are non-negative; target
  bins have positive width.  The guard `0 < Σ overlap` is the property's "target bin that overlaps the native
  grid"; it also keeps the code's `weight/sum_weight` away from Mathlib's `x/0 = 0`.
-/
import Proofs.C05NV
import Proofs.C05Midpoint
import Proofs.C05Obs

namespace Taurex.C05
open Taurex.Binning List

/-- **window_is_overlap** (refinement).  On ordered native bins the two `searchsorted` calls, the clamps and the
    skip test of `FluxBinner.bindown` select exactly the native bins that can overlap the target `[a, b]`:
    a skipped target overlaps nothing; otherwise every bin before `start` and after `stop` has zero overlap, and
    every bin inside the slice `[start : stop+1]` gets the weight `overlap / (b - a)`. -/
theorem window_is_overlap (rows : List (Row ℝ)) (a b : ℝ) (hne : rows ≠ []) (hord : OrderedBins rows)
    (hw : ∀ r ∈ rows, r.lo ≤ r.hi) (hab : a < b) :
    (window rows a b = none → ∀ r ∈ rows, overlap a b r = 0) ∧
    (∀ s t, window rows a b = some (s, t) →
      (∀ r ∈ rows.take s, overlap a b r = 0) ∧ (∀ r ∈ rows.drop (t + 1), overlap a b r = 0) ∧
      (∀ r ∈ slice rows s t, weight a b r = overlap a b r / (b - a))) := by
  refine ⟨fun h => window_none rows a b hne hord h, fun s t h => ?_⟩
  obtain ⟨W1, W2, _⟩ := window_some rows a b hne hord s t h
  exact ⟨W1, W2, window_weights rows a b hne hord hw hab s t h⟩

example : window nvRows 2 4 = some (1, 3) := by
  norm_num [window, nvRows, Taurex.Interp.searchRight, Row.lo, Row.hi, List.countP_cons, List.getD]

/-- **flux_is_overlap_mean**: for every target bin that overlaps the native grid the code returns
    `Σ overlap·s / Σ overlap` over *all* native bins. -/
theorem flux_is_overlap_mean (val : Row ℝ → ℝ) (rows : List (Row ℝ)) (a b : ℝ) (hne : rows ≠ [])
    (hord : OrderedBins rows) (hw : ∀ r ∈ rows, r.lo ≤ r.hi) (hab : a < b)
    (hpos : 0 < sumL (rows.map (overlap a b))) :
    fluxBinVal val rows a b = overlapMeanSpec val rows a b :=
  flux_eq_spec val rows a b hne hord hw hab hpos

example : fluxBinVal Row.s nvRows 2 4 = overlapMeanSpec Row.s nvRows 2 4 :=
  flux_is_overlap_mean Row.s nvRows 2 4 (by simp [nvRows]) nvRows_ordered nvRows_widths (by norm_num) nv_inside_pos

/-- the straddling target `[4.5, 7.5]` sees only the last native bin: its value is 50 -/
example : overlapMeanSpec Row.s nvRows 4.5 7.5 = 50 := by
  norm_num [nvRows, overlapMeanSpec, sumL, overlap, mn, mx, Row.lo, Row.hi]

/-- **const_preserved**: a constant spectrum stays constant. -/
theorem const_preserved (val : Row ℝ → ℝ) (rows : List (Row ℝ)) (a b k : ℝ) (hne : rows ≠ [])
    (hord : OrderedBins rows) (hw : ∀ r ∈ rows, r.lo ≤ r.hi) (hab : a < b)
    (hpos : 0 < sumL (rows.map (overlap a b))) (hk : ∀ r ∈ rows, val r = k) :
    fluxBinVal val rows a b = k := by
  rw [flux_eq_spec val rows a b hne hord hw hab hpos]
  exact spec_const val rows a b k hk hpos

example : fluxBinVal (fun _ => 7) nvRows 2 4 = 7 :=
  const_preserved _ nvRows 2 4 7 (by simp [nvRows]) nvRows_ordered nvRows_widths (by norm_num) nv_inside_pos
    (fun _ _ => rfl)

/-- **between_min_max**: the binned value lies between the smallest and largest native values among the bins
    that overlap the target. -/
theorem between_min_max (val : Row ℝ → ℝ) (rows : List (Row ℝ)) (a b m M : ℝ) (hne : rows ≠ [])
    (hord : OrderedBins rows) (hw : ∀ r ∈ rows, r.lo ≤ r.hi) (hab : a < b)
    (hpos : 0 < sumL (rows.map (overlap a b)))
    (hb : ∀ r ∈ rows, 0 < overlap a b r → m ≤ val r ∧ val r ≤ M) :
    m ≤ fluxBinVal val rows a b ∧ fluxBinVal val rows a b ≤ M := by
  rw [flux_eq_spec val rows a b hne hord hw hab hpos]
  exact spec_between val rows a b m M hb hpos

/-- bins 2, 3, 4 overlap `[2, 4]`; the result is between 20 and 40 although the spectrum ranges over 10..50 -/
example : 20 ≤ fluxBinVal Row.s nvRows 2 4 ∧ fluxBinVal Row.s nvRows 2 4 ≤ 40 := by
  refine between_min_max Row.s nvRows 2 4 20 40 (by simp [nvRows]) nvRows_ordered nvRows_widths (by norm_num)
    nv_inside_pos ?_
  intro r hr hpos
  rw [overlap_pos_iff] at hpos
  simp only [nvRows, List.mem_cons, List.not_mem_nil, or_false] at hr
  rcases hr with rfl | rfl | rfl | rfl | rfl <;>
    first | (norm_num [Row.lo, Row.hi] at hpos; done) | norm_num

/-- **linear**: binning is linear in the spectrum (for the code this needs no guard at all: the weights do not
    depend on the spectrum). -/
theorem linear (x y : Row ℝ → ℝ) (rows : List (Row ℝ)) (a b k₁ k₂ : ℝ) :
    fluxBinVal (fun r => k₁ * x r + k₂ * y r) rows a b =
      k₁ * fluxBinVal x rows a b + k₂ * fluxBinVal y rows a b :=
  flux_linear x y rows a b k₁ k₂

example : fluxBinVal (fun r => 2 * r.s + 3 * r.e) nvRows 2 4 =
    2 * fluxBinVal Row.s nvRows 2 4 + 3 * fluxBinVal Row.e nvRows 2 4 := linear _ _ _ _ _ _ _

/-- **error_quadrature**: binned uncertainties follow the same weights in quadrature,
    `sqrt(Σ overlap²·e²) / Σ overlap`. -/
theorem error_quadrature (err : Row ℝ → ℝ) (rows : List (Row ℝ)) (a b : ℝ) (hne : rows ≠ [])
    (hord : OrderedBins rows) (hw : ∀ r ∈ rows, r.lo ≤ r.hi) (hab : a < b)
    (hpos : 0 < sumL (rows.map (overlap a b))) :
    fluxBinErr err rows a b = quadErrSpec err rows a b :=
  fluxErr_eq_quad err rows a b hne hord hw hab hpos

example : fluxBinErr Row.e nvRows 2 4 = quadErrSpec Row.e nvRows 2 4 :=
  error_quadrature Row.e nvRows 2 4 (by simp [nvRows]) nvRows_ordered nvRows_widths (by norm_num) nv_inside_pos

/-- **outside_is_zero**: a target bin strictly outside every native bin (beyond either end of the native range, or
    inside a gap) comes out as 0 — and it does so without any division: the bin is skipped or its slice is
    empty.  Beyond either end it is always skipped, so the binned error is 0 as well. -/
theorem outside_is_zero (val : Row ℝ → ℝ) (rows : List (Row ℝ)) (a b : ℝ) (hne : rows ≠ [])
    (hord : OrderedBins rows) (hout : ∀ r ∈ rows, r.hi < a ∨ b < r.lo) :
    fluxBinVal val rows a b = 0 ∧ (∀ s t, window rows a b = some (s, t) → slice rows s t = []) :=
  flux_outside_zero val rows a b hne hord hout

theorem outside_range_is_skipped (rows : List (Row ℝ)) (a b : ℝ) (hne : rows ≠ [])
    (hout : (∀ r ∈ rows, r.hi < a) ∨ (∀ r ∈ rows, b < r.lo)) :
    window rows a b = none ∧ (∀ val, fluxBinVal val rows a b = 0) ∧ (∀ err, fluxBinErr err rows a b = 0) := by
  have h := window_none_of_outside rows a b hne hout
  refine ⟨h, fun val => ?_, fun err => ?_⟩
  · unfold fluxBinVal; rw [h]
  · unfold fluxBinErr fluxBinNoise; rw [h]

/-- the target `[6, 8]` lies above the native range `[0.5, 5.5]` -/
example : fluxBinVal Row.s nvRows 6 8 = 0 :=
  ((outside_range_is_skipped nvRows 6 8 (by simp [nvRows]) (Or.inl (by
    intro r hr
    simp only [nvRows, List.mem_cons, List.not_mem_nil, or_false] at hr
    rcases hr with rfl | rfl | rfl | rfl | rfl <;> norm_num [Row.hi]))).2.1) Row.s

/-- **perm_native**: the result does not depend on the order of the native points (distinct wavenumbers); explicit
    widths, values and errors travel with their point. -/
theorem perm_native (explicit : Bool) (val : Row ℝ → ℝ) (rows₁ rows₂ : List (Row ℝ)) (targets : List (TBin ℝ))
    (hp : rows₁ ~ rows₂) (hd : (rows₁.map Row.c).Nodup) :
    fluxBindown explicit val rows₁ targets = fluxBindown explicit val rows₂ targets := by
  unfold fluxBindown
  rw [nativeBins_perm explicit hp hd]

example : fluxBindown true Row.s [(⟨2, 1, 20, 0⟩ : Row ℝ), ⟨1, 1, 10, 0⟩, ⟨3, 1, 30, 0⟩] [⟨2, 2⟩] =
    fluxBindown true Row.s [(⟨1, 1, 10, 0⟩ : Row ℝ), ⟨2, 1, 20, 0⟩, ⟨3, 1, 30, 0⟩] [⟨2, 2⟩] :=
  perm_native true Row.s _ _ _ (List.Perm.swap _ _ _) (by norm_num)

/-- **perm_target**: the binner built from a permuted target grid is the same binner (distinct wavenumbers), so the
    output — reported in ascending target order — is the same. -/
theorem perm_target (mode : WidthMode ℝ) (ts₁ ts₂ : List (TBin ℝ)) (hp : ts₁ ~ ts₂)
    (hd : (ts₁.map TBin.c).Nodup) (explicit : Bool) (val : Row ℝ → ℝ) (rows : List (Row ℝ)) :
    targetBins mode ts₁ = targetBins mode ts₂ ∧
    fluxBindown explicit val rows (targetBins mode ts₁) = fluxBindown explicit val rows (targetBins mode ts₂) := by
  rw [targetBins_perm mode hp hd]
  exact ⟨rfl, rfl⟩

example : targetBins WidthMode.array [(⟨5, 1⟩ : TBin ℝ), ⟨2, 3⟩] = targetBins WidthMode.array [⟨2, 3⟩, ⟨5, 1⟩] :=
  (perm_target WidthMode.array _ _ (List.Perm.swap _ _ _) (by norm_num) true Row.s []).1

/-- the sorted native bins and target bins are ascending in wavenumber and are a permutation of the input
    (nothing is dropped, no column is mixed) -/
theorem sorted_is_perm (rows : List (Row ℝ)) (ts : List (TBin ℝ)) :
    nativeBins true rows ~ rows ∧ (nativeBins true rows).Pairwise (fun r r' => r.c ≤ r'.c) ∧
    targetBins WidthMode.array ts ~ ts ∧ (targetBins WidthMode.array ts).Pairwise (fun t t' => t.c ≤ t'.c) :=
  ⟨sortBy_perm Row.c rows, sortBy_sorted Row.c rows, sortBy_perm TBin.c ts, sortBy_sorted TBin.c ts⟩

/-- the guard covers the property's "non-overlapping ordered bins": sorted bins of non-negative width that do not
    overlap (gaps allowed, touching allowed) are ordered bins.  (Mid-point widths of linear / logarithmic /
    constant-R grids overlap to second order: `midpoint_bins_ordered` and its corollaries below.) -/
theorem disjoint_bins_are_ordered (rows : List (Row ℝ)) (hw : ∀ r ∈ rows, r.lo ≤ r.hi)
    (hdis : rows.Pairwise (fun r r' => r.hi ≤ r'.lo)) : OrderedBins rows :=
  disjoint_bins_ordered rows hw hdis

example : OrderedBins nvRows := disjoint_bins_are_ordered nvRows nvRows_widths (by
  unfold nvRows; simp [Row.lo, Row.hi]; norm_num)

/-- **midpoint_bins_ordered**: for rows given in strictly increasing wavenumber (at least two), the mid-point bins
    that `FluxBinner.bindown` forms when no widths are passed (`compute_bin_edges`: `w_0 = d_0`,
    `w_{n-1} = d_{n-2}`, `w_i = (d_{i-1}+d_i)/2`, symmetrised about the centre) are ordered bins as soon as the
    successive spacings `d_i = g[i+1]-g[i]` satisfy `d_{i+1} ≤ 4 d_i + d_{i-1}` and `d_{i-1} ≤ 4 d_i + d_{i+1}`
    (`MidpointSpacingOK`; at the ends the missing neighbour is the end spacing itself). -/
theorem midpoint_bins_ordered (rows : List (Row ℝ)) (hn : 2 ≤ rows.length)
    (hg : (rows.map Row.c).Pairwise (· < ·)) (hok : MidpointSpacingOK (rows.map Row.c)) :
    OrderedBins (nativeBins false rows) ∧ (∀ r ∈ nativeBins false rows, r.lo ≤ r.hi) :=
  ⟨midpoint_ordered rows hn hg hok, midpoint_widths_nonneg rows⟩

/-- (a) **linear grids** (constant spacing `d > 0`) are ordered — and the mid-point bins are exactly contiguous. -/
theorem linear_grid_ordered (rows : List (Row ℝ)) (hn : 2 ≤ rows.length) (d : ℝ) (hd : 0 < d)
    (hlin : ∀ i, i + 1 < (rows.map Row.c).length → spacing (rows.map Row.c) i = d) :
    OrderedBins (nativeBins false rows) ∧
    (∀ i, i + 1 < (rows.map Row.c).length →
      (rows.map Row.c).getD i 0 + (computeBinEdges (rows.map Row.c)).2.getD i 0 / 2 =
        (rows.map Row.c).getD (i + 1) 0 - (computeBinEdges (rows.map Row.c)).2.getD (i + 1) 0 / 2) :=
  ⟨midpoint_ordered rows hn (linear_increasing _ d hd hlin) (linear_spacing_ok _ d hd.le hlin),
   linear_contiguous _ (by rw [List.length_map]; exact hn) d hd hlin⟩

/-- (b) **geometric grids** `g[i+1] = r·g[i]`, `g[0] > 0`, `1 < r ≤ 4` (logarithmic spacing; constant resolving
    power `R`: `r = 1 + 1/R`) are ordered. -/
theorem geometric_grid_ordered (rows : List (Row ℝ)) (hn : 2 ≤ rows.length) (r : ℝ)
    (h0 : 0 < (rows.map Row.c).getD 0 0) (hr1 : 1 < r) (hr4 : r ≤ 4)
    (hgeo : ∀ i, i + 1 < (rows.map Row.c).length →
      (rows.map Row.c).getD (i + 1) 0 = r * (rows.map Row.c).getD i 0) :
    OrderedBins (nativeBins false rows) :=
  midpoint_ordered rows hn (geometric_increasing _ r h0 hr1 hgeo) (geometric_spacing_ok _ r h0 hr1 hr4 hgeo)

/-- four points 1, 2, 3, 4 (linear, d = 1) and 1, 2, 4, 8 (geometric, r = 2) -/
example : OrderedBins (nativeBins false [(⟨1, 0, 10, 0⟩ : Row ℝ), ⟨2, 0, 20, 0⟩, ⟨3, 0, 30, 0⟩, ⟨4, 0, 40, 0⟩]) :=
  (linear_grid_ordered _ (by simp) 1 (by norm_num) (by
    intro i hi
    simp only [List.map_cons, List.map_nil, List.length_cons, List.length_nil] at hi
    have : i = 0 ∨ i = 1 ∨ i = 2 := by omega
    rcases this with rfl | rfl | rfl <;> norm_num [spacing])).1

example : OrderedBins (nativeBins false [(⟨1, 0, 10, 0⟩ : Row ℝ), ⟨2, 0, 20, 0⟩, ⟨4, 0, 30, 0⟩, ⟨8, 0, 40, 0⟩]) :=
  geometric_grid_ordered _ (by simp) 2 (by norm_num) (by norm_num) (by norm_num) (by
    intro i hi
    simp only [List.map_cons, List.map_nil, List.length_cons, List.length_nil] at hi
    have : i = 0 ∨ i = 1 ∨ i = 2 := by omega
    rcases this with rfl | rfl | rfl <;> norm_num)

/-- **flux_is_overlap_mean_linear / _geometric**: on the named grid families the code equals the overlap-weighted
    mean for every target that overlaps the grid — no per-case guard. -/
theorem flux_is_overlap_mean_linear (val : Row ℝ → ℝ) (rows : List (Row ℝ)) (a b d : ℝ) (hn : 2 ≤ rows.length)
    (hd : 0 < d) (hlin : ∀ i, i + 1 < (rows.map Row.c).length → spacing (rows.map Row.c) i = d) (hab : a < b)
    (hpos : 0 < sumL ((nativeBins false rows).map (overlap a b))) :
    fluxBinVal val (nativeBins false rows) a b = overlapMeanSpec val (nativeBins false rows) a b :=
  flux_midpoint_eq_spec val rows a b hn (linear_increasing _ d hd hlin) (linear_spacing_ok _ d hd.le hlin) hab hpos

theorem flux_is_overlap_mean_geometric (val : Row ℝ → ℝ) (rows : List (Row ℝ)) (a b r : ℝ)
    (hn : 2 ≤ rows.length) (h0 : 0 < (rows.map Row.c).getD 0 0) (hr1 : 1 < r) (hr4 : r ≤ 4)
    (hgeo : ∀ i, i + 1 < (rows.map Row.c).length →
      (rows.map Row.c).getD (i + 1) 0 = r * (rows.map Row.c).getD i 0) (hab : a < b)
    (hpos : 0 < sumL ((nativeBins false rows).map (overlap a b))) :
    fluxBinVal val (nativeBins false rows) a b = overlapMeanSpec val (nativeBins false rows) a b :=
  flux_midpoint_eq_spec val rows a b hn (geometric_increasing _ r h0 hr1 hgeo)
    (geometric_spacing_ok _ r h0 hr1 hr4 hgeo) hab hpos

example : fluxBinVal Row.s (nativeBins false [(⟨1, 0, 10, 0⟩ : Row ℝ), ⟨2, 0, 20, 0⟩, ⟨3, 0, 30, 0⟩, ⟨4, 0, 40, 0⟩]) 2 4 =
    overlapMeanSpec Row.s (nativeBins false [(⟨1, 0, 10, 0⟩ : Row ℝ), ⟨2, 0, 20, 0⟩, ⟨3, 0, 30, 0⟩, ⟨4, 0, 40, 0⟩]) 2 4 :=
  flux_is_overlap_mean_linear Row.s _ 2 4 1 (by simp) (by norm_num) (by
    intro i hi
    simp only [List.map_cons, List.map_nil, List.length_cons, List.length_nil] at hi
    have : i = 0 ∨ i = 1 ∨ i = 2 := by omega
    rcases this with rfl | rfl | rfl <;> norm_num [spacing]) (by norm_num) (by
    norm_num [nativeBins, sortBy, insertBy, withWidths, computeBinEdges, midEdges, diffs, absv, sumL, overlap,
      mn, mx, Row.lo, Row.hi])

example : fluxBinVal Row.s (nativeBins false [(⟨1, 0, 10, 0⟩ : Row ℝ), ⟨2, 0, 20, 0⟩, ⟨4, 0, 30, 0⟩, ⟨8, 0, 40, 0⟩]) 2 4 =
    overlapMeanSpec Row.s (nativeBins false [(⟨1, 0, 10, 0⟩ : Row ℝ), ⟨2, 0, 20, 0⟩, ⟨4, 0, 30, 0⟩, ⟨8, 0, 40, 0⟩]) 2 4 :=
  flux_is_overlap_mean_geometric Row.s _ 2 4 2 (by simp) (by norm_num) (by norm_num) (by norm_num) (by
    intro i hi
    simp only [List.map_cons, List.map_nil, List.length_cons, List.length_nil] at hi
    have : i = 0 ∨ i = 1 ∨ i = 2 := by omega
    rcases this with rfl | rfl | rfl <;> norm_num) (by norm_num) (by
    norm_num [nativeBins, sortBy, insertBy, withWidths, computeBinEdges, midEdges, diffs, absv, sumL, overlap,
      mn, mx, Row.lo, Row.hi])

/-- **perm_spec**: the overlap-weighted mean itself does not depend on the order of the native bins (no
    distinctness needed). -/
theorem perm_spec (val : Row ℝ → ℝ) (rows₁ rows₂ : List (Row ℝ)) (hp : rows₁ ~ rows₂) (a b : ℝ) :
    overlapMeanSpec val rows₁ a b = overlapMeanSpec val rows₂ a b :=
  spec_perm val hp a b

example : overlapMeanSpec Row.s [(⟨2, 1, 20, 0⟩ : Row ℝ), ⟨1, 1, 10, 0⟩] 0 3 =
    overlapMeanSpec Row.s [(⟨1, 1, 10, 0⟩ : Row ℝ), ⟨2, 1, 20, 0⟩] 0 3 :=
  perm_spec Row.s _ _ (List.Perm.swap _ _ _) 0 3

/-- **hist_perm**: the histogram binner does not depend on the order of the native points. -/
theorem hist_perm_native (val : Row ℝ → ℝ) (rows₁ rows₂ : List (Row ℝ)) (hp : rows₁ ~ rows₂) (nb : List ℝ) :
    histMean1 val rows₁ nb = histMean1 val rows₂ nb ∧ histMeanN val rows₁ nb = histMeanN val rows₂ nb :=
  hist_perm val hp nb

example : histMean1 Row.s [(⟨5, 0, 20, 0⟩ : Row ℝ), ⟨3, 0, 10, 0⟩] [4, 8] =
    histMean1 Row.s [(⟨3, 0, 10, 0⟩ : Row ℝ), ⟨5, 0, 20, 0⟩] [4, 8] :=
  (hist_perm_native Row.s _ _ (List.Perm.swap _ _ _) [4, 8]).1

/-- **hist_mean**: the histogram binner (`util.bindown`, both its 1-D `np.histogram` path and its N-D
    `np.digitize` path) returns, for every bin, the plain mean `Σ s / count` of the native points lying strictly
    between the two mid-point edges of the bin — provided no native point sits exactly on an edge (the two paths
    use different tie conventions there).  An empty bin is the code's 0/0; the harness reports it from the
    malformed stream. -/
theorem hist_mean (val : Row ℝ → ℝ) (rows : List (Row ℝ)) (nb : List ℝ)
    (hno : ∀ r ∈ rows, ∀ e ∈ histEdges nb, r.c ≠ e) :
    histMean1 val rows nb = (edgePairs (histEdges nb)).map (fun p =>
      ((rows.filter (fun r => decide (p.1 < r.c ∧ r.c < p.2.1))).map val).sum /
        ((rows.filter (fun r => decide (p.1 < r.c ∧ r.c < p.2.1))).length : ℝ)) ∧
    histMeanN val rows nb = histMean1 val rows nb := by
  have key : ∀ p ∈ edgePairs (histEdges nb),
      rows.filter (fun r => inHist p.1 p.2.1 p.2.2 r.c) = rows.filter (fun r => decide (p.1 < r.c ∧ r.c < p.2.1)) ∧
      rows.filter (fun r => inDigit p.1 p.2.1 r.c) = rows.filter (fun r => decide (p.1 < r.c ∧ r.c < p.2.1)) := by
    intro p hp
    have hm := mem_edgePairs (histEdges nb) p hp
    exact hist_filters_agree rows p.1 p.2.1 p.2.2 (fun r hr => ⟨hno r hr _ hm.1, hno r hr _ hm.2⟩)
  constructor
  · unfold histMean1
    apply List.map_congr_left
    intro p hp
    rw [(key p hp).1, meanOf_eq]
  · unfold histMean1 histMeanN
    apply List.map_congr_left
    intro p hp
    rw [(key p hp).1, (key p hp).2]

/-- target points 4, 8, 12 give the edges 2, 6, 10, 14; the native points 3, 5 / 7, 9 / 11 fall in the three bins
    and their plain means are 15, 35, 50 -/
example : histMean1 Row.s [(⟨3, 0, 10, 0⟩ : Row ℝ), ⟨5, 0, 20, 0⟩, ⟨7, 0, 30, 0⟩, ⟨9, 0, 40, 0⟩, ⟨11, 0, 50, 0⟩]
    [4, 8, 12] = [15, 35, 50] := by
  have e : histEdges ([4, 8, 12] : List ℝ) = [2, 6, 10, 14] := by
    norm_num [histEdges, midPts]
  unfold histMean1
  rw [e]
  norm_num [edgePairs, meanOf, sumL, inHist, List.filter_cons, List.replicate]

/-- **native_identity**: the native binner returns its input unchanged. -/
theorem native_identity {β : Type} (x : β) : nativeBindown x = x := rfl

example : nativeBindown ([1, 2, 3] : List ℝ) = [1, 2, 3] := native_identity _

/-! ### observation route: binners whose target grid comes from the rows of a file

  `BaseSpectrum.create_binner` (observation arrays / text files), `TaurexSpectrum` (instrument section of a TauREx output
  file) and `InstrumentFile` build the `FluxBinner` that the model is binned with.  "Binning onto an observation grid"
  is binning onto the bins the rows of that file declare: row `(wl, …, w)` declares the wavenumber bin
  `rowBin = (10000/wl, 10000·w/wl²)`.  `nvObs`: the rows (2, 20, 2, 1), (4, 40, 4, 2), (1, 10, 1, 1/2), not in
  descending-wavelength order, unequal widths. -/

open Taurex.Observation Taurex.ObsTargets

/-- three file rows `(wavelength, value, error, width)`, shuffled, widths unequal -/
noncomputable def nvObs : List (ORow ℝ) := [⟨2, 20, 2, 1⟩, ⟨4, 40, 4, 2⟩, ⟨1, 10, 1, 1 / 2⟩]

/-- **obs_targets_rowwise**: whatever the order of the rows in the file, the binner created from a 4-column observation
    and the binner of an instrument file hold exactly the bins the rows declare — every centre with the width of ITS OWN
    row (a permutation of `rows.map rowBin`, nothing dropped, no column mixed) — in ascending wavenumber. -/
theorem obs_targets_rowwise (rows : List (ORow ℝ)) :
    routeTargets Route.array4 rows ~ rows.map rowBin ∧ routeTargets Route.instrument rows ~ rows.map rowBin ∧
    (routeTargets Route.array4 rows).Pairwise (fun t t' => t.c ≤ t'.c) ∧
    (routeTargets Route.instrument rows).Pairwise (fun t t' => t.c ≤ t'.c) := by
  rw [array4_targets, instrument_targets]
  exact ⟨sorted_rowBins_perm rows, sorted_rowBins_perm rows, sortBy_sorted TBin.c _, sortBy_sorted TBin.c _⟩

example : routeTargets Route.array4 nvObs ~ [⟨5000, 2500⟩, ⟨2500, 1250⟩, ⟨10000, 5000⟩] := by
  have h := (obs_targets_rowwise nvObs).1
  have e : nvObs.map rowBin = [⟨5000, 2500⟩, ⟨2500, 1250⟩, ⟨10000, 5000⟩] := by
    norm_num [nvObs, rowBin]
  rwa [e] at h

/-- **taurex_targets_stored**: the binner created from the instrument section of a TauREx output file holds exactly the
    stored bins `(instrument_wngrid, instrument_wnwidth)`: the conversion to wavelength rows and back returns the stored
    wavenumber widths (non-zero wavenumbers). -/
theorem taurex_targets_stored (rows : List (ORow ℝ)) (h : ∀ r ∈ rows, r.wl ≠ 0) :
    routeTargets Route.taurex rows ~ rows.map (fun r => ({ c := r.wl, w := r.bw } : TBin ℝ)) := by
  have h1 : routeTargets Route.taurex rows = routeTargets Route.array4 (rows.map fromTaurex) := rfl
  rw [h1, array4_targets]
  refine (sorted_rowBins_perm _).trans ?_
  rw [List.map_map]
  exact List.Perm.of_eq (List.map_congr_left (fun r hr => rowBin_fromTaurex r (h r hr)))

/-- stored bins centred at 2500 and 5000 cm⁻¹ with widths 50 and 2000 (a broad photometric channel, R = 2.5) -/
example : routeTargets Route.taurex [(⟨5000, 1, 1, 2000⟩ : ORow ℝ), ⟨2500, 2, 1, 50⟩] ~ [⟨5000, 2000⟩, ⟨2500, 50⟩] :=
  taurex_targets_stored _ (by
    intro r hr
    simp only [List.mem_cons, List.not_mem_nil, or_false] at hr
    rcases hr with rfl | rfl <;> norm_num)

/-- **obs_row_order_irrelevant**: two files holding the same rows in different orders (distinct positive wavelengths /
    wavenumbers) give the same binner, on every route. -/
theorem obs_row_order_irrelevant (rt : Route) (rows₁ rows₂ : List (ORow ℝ)) (hp : rows₁ ~ rows₂)
    (hd : (rows₁.map ORow.wl).Nodup) (hpos : ∀ r ∈ rows₁, 0 < r.wl) :
    routeTargets rt rows₁ = routeTargets rt rows₂ := by
  cases rt with
  | array3 => unfold routeTargets load; simp only; rw [sortRowsDesc_eq_of_perm' hp hd]
  | array4 => rw [array4_targets, array4_targets, sortRowsDesc_eq_of_perm' hp hd]
  | instrument => rw [instrument_targets, instrument_targets, sortRowsDesc_eq_of_perm' hp hd]
  | taurex =>
    have h1 : ∀ rows : List (ORow ℝ), routeTargets Route.taurex rows = routeTargets Route.array4 (rows.map fromTaurex) :=
      fun _ => rfl
    rw [h1, h1, array4_targets, array4_targets,
      sortRowsDesc_eq_of_perm' (hp.map fromTaurex) (taurex_wl_nodup rows₁ hd hpos)]

example : routeTargets Route.array4 nvObs = routeTargets Route.array4 [⟨4, 40, 4, 2⟩, ⟨2, 20, 2, 1⟩, ⟨1, 10, 1, 1 / 2⟩] :=
  obs_row_order_irrelevant Route.array4 _ _ (List.Perm.swap _ _ _) (by norm_num [nvObs]) (by
    intro r hr
    simp only [nvObs, List.mem_cons, List.not_mem_nil, or_false] at hr
    rcases hr with rfl | rfl | rfl <;> norm_num)

/-- **obs_bin_is_overlap_mean**: every bin of the binner created from an observation (or an instrument file) is the bin
    declared by one of the file's rows, and the value binned into it is the overlap-weighted mean of the native spectrum over
    THAT row's bin (ordered native bins, the row's bin overlapping the native grid). -/
theorem obs_bin_is_overlap_mean (val : Row ℝ → ℝ) (native : List (Row ℝ)) (rows : List (ORow ℝ)) (hne : native ≠ [])
    (hord : OrderedBins native) (hw : ∀ r ∈ native, r.lo ≤ r.hi) (rt : Route) (hrt : rt = Route.array4 ∨ rt = Route.instrument) :
    ∀ t ∈ routeTargets rt rows, ∃ r ∈ rows, t = rowBin r ∧
      ((rowBin r).lo < (rowBin r).hi → 0 < sumL (native.map (overlap (rowBin r).lo (rowBin r).hi)) →
        fluxBinVal val native t.lo t.hi = overlapMeanSpec val native (rowBin r).lo (rowBin r).hi) := by
  intro t ht
  have hperm : routeTargets rt rows ~ rows.map rowBin := by
    rcases hrt with rfl | rfl
    · exact (obs_targets_rowwise rows).1
    · exact (obs_targets_rowwise rows).2.1
  have hm := hperm.subset ht
  rw [List.mem_map] at hm
  obtain ⟨r, hr, rfl⟩ := hm
  exact ⟨r, hr, rfl, fun hab hpos => flux_eq_spec val native _ _ hne hord hw hab hpos⟩

/-- on `nvRows` (native bins `[0.5,1.5] … [4.5,5.5]`): the observation row `(wl, w) = (2500, 625)` declares the bin
    `[3.5, 4.5]` (centre 4, width 1), whose binned value is the native value 40 -/
example : ∃ r ∈ [(⟨2500, 0, 0, 625⟩ : ORow ℝ), ⟨5000, 0, 0, 2500⟩], (⟨4, 1⟩ : TBin ℝ) = rowBin r := by
  refine ⟨⟨2500, 0, 0, 625⟩, by simp, ?_⟩
  norm_num [rowBin]

end Taurex.C05
