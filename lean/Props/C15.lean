/-
  C15 — an input file builds exactly the documented object graph.

  Theorems about `Taurex.Factory` (the definitions `driver_c15` executes) and about the tables
  `Gen/Registry.lean` / `Gen/Docs.lean`, which are REGENERATED from /repo on every run: the table theorems
  (`decide +kernel` over the whole table) are therefore re-proved against what the code and the documentation
  say now.  General lemmas lift them: the real code iterates Python `set`s of classes, `lookup_unique` makes the
  outcome independent of that order.
-/
import Proofs.C15Lemmas
import Proofs.C15Sort
import TaurexModel.Gen.Registry
import TaurexModel.Gen.Docs

namespace Taurex.C15
open Taurex.Factory Taurex.C15L Taurex.Gen

/-! ## general theorems -/

/-- Pairwise-disjoint keyword sets ⇒ the factory look-up does not depend on the order in which the class set is
    iterated, and what it returns is the unique class claiming the keyword. -/
theorem lookup_unique (cls cls' : List Klass) (kw : String) (hd : pairwiseDisjoint cls = true)
    (hp : cls'.Perm cls) :
    lookup cls' kw = lookup cls kw ∧ (∀ k, lookup cls kw = some k → candidates cls kw = [k]) := by
  have hle := disjoint_candidates_le_one cls kw hd
  constructor
  · rw [lookup_eq_head_candidates, lookup_eq_head_candidates]
    have hperm := (candidates_perm hp kw).symm
    rw [perm_length_le_one_eq hperm hle]
  · intro k hk
    rw [lookup_eq_head_candidates] at hk
    match hc : candidates cls kw, hle, hk with
    | [], _, hk => simp at hk
    | [x], _, hk => simp at hk; simp [hk]
    | _ :: _ :: _, hle, _ => simp at hle

example : pairwiseDisjoint Registry.temperature_classes = true ∧
    Registry.temperature_classes.reverse.Perm Registry.temperature_classes ∧
    (lookup Registry.temperature_classes "guillot").isSome = true :=
  ⟨by decide +kernel, List.reverse_perm _, by decide +kernel⟩

/-- `create_klass` is strict: it raises `KeyError` exactly when some config key is not a constructor keyword
    (and names such a key); otherwise, for a config with unique keys (a dict), the result is the defaults in
    their order, each overridden by the config value of the same key when there is one. -/
theorem create_strict (defaults cfg : Config) :
    ((∃ kv ∈ cfg, hasKey defaults kv.1 = false) ↔ ∃ k, createKlass defaults cfg = .error (.keyError k)) ∧
    (∀ e, createKlass defaults cfg = .error e → ∃ kv ∈ cfg, hasKey defaults kv.1 = false ∧ e = .keyError kv.1) ∧
    ((∀ kv ∈ cfg, hasKey defaults kv.1 = true) → (cfg.map (·.1)).Nodup →
      createKlass defaults cfg =
        .ok (defaults.map (fun kv => (kv.1, (cfg.lookup kv.1).getD kv.2)))) := by
  refine ⟨⟨?_, ?_⟩, createKlass_error defaults cfg, ?_⟩
  · rintro ⟨kv, hm, hk⟩; exact createKlass_unknown defaults cfg kv hm hk
  · rintro ⟨k, hk⟩
    obtain ⟨kv, hm, hf, _⟩ := createKlass_error defaults cfg _ hk
    exact ⟨kv, hm, hf⟩
  · intro hall hnd
    rw [createKlass_ok defaults cfg hall, fold_dictSet defaults cfg hall hnd]

example : createKlass [("T", .scalar (.int 1500))] [("T", .scalar (.dec false 14 2))] =
      .ok [("T", .scalar (.dec false 14 2))] ∧
    createKlass [("T", .scalar (.int 1500))] [("kappa_irr", .scalar (.dec false 1 (-2)))] =
      .error (.keyError "kappa_irr") := by
  constructor <;> decide +kernel

/-- `transform` types every raw value as exactly one of: boolean, number, string, list of numbers, list of
    strings (it is total: no raw string or string list makes it fail). -/
theorem transform_total :
    (∀ s : String, (∃ b, transform (.scalar (.str s)) = .scalar (.bool b)) ∨
      (∃ n, transform (.scalar (.str s)) = .scalar n ∧ isNum n = true) ∨
      transform (.scalar (.str s)) = .scalar (.str s)) ∧
    (∀ l : List Scalar, (∃ ns, transform (.list l) = .list ns ∧ ∀ n ∈ ns, isNum n = true) ∨
      transform (.list l) = .list l) := by
  constructor
  · intro s
    rw [transform_str]
    cases h1 : trueWords.contains (lower s) with
    | true => exact .inl ⟨true, rfl⟩
    | false =>
      cases h2 : falseWords.contains (lower s) with
      | true => exact .inl ⟨false, rfl⟩
      | false =>
        cases h : parseNumber s with
        | none => exact .inr (.inr rfl)
        | some n => exact .inr (.inl ⟨n, rfl, parseNumberL_isNum _ _ h⟩)
  · intro l
    rw [transform_list]
    cases h : l.mapM toFloat with
    | none => exact .inr rfl
    | some ns => exact .inl ⟨ns, rfl, mapM_toFloat_isNum l ns h⟩

/-- The branch order of `transform`: a word of the true list (any letter case) is `True`, a word of the false list
    is `False`, anything else that `float()` accepts is that number, the rest stays a string; a list becomes a list
    of numbers iff every element converts. -/
theorem transform_cases (s : String) (l : List Scalar) :
    (trueWords.contains (lower s) = true → transform (.scalar (.str s)) = .scalar (.bool true)) ∧
    (trueWords.contains (lower s) = false → falseWords.contains (lower s) = true →
      transform (.scalar (.str s)) = .scalar (.bool false)) ∧
    (trueWords.contains (lower s) = false → falseWords.contains (lower s) = false →
      transform (.scalar (.str s)) = match parseNumber s with
        | some n => .scalar n
        | none => .scalar (.str s)) ∧
    (transform (.list l) = match l.mapM toFloat with
        | some ns => .list ns
        | none => .list l) := by
  refine ⟨?_, ?_, ?_, rfl⟩
  · intro h; rw [transform_str, h]; rfl
  · intro h1 h2; rw [transform_str, h1, h2]; rfl
  · intro h1 h2; rw [transform_str, h1, h2]; rfl

example : transform (.scalar (.str "Yes")) = .scalar (.bool true) ∧
    transform (.scalar (.str "hell-no")) = .scalar (.bool false) ∧
    transform (.scalar (.str "1_0.5e-3")) = .scalar (.dec false 105 (-4)) ∧
    transform (.scalar (.str "1__0")) = .scalar (.str "1__0") ∧
    transform (.list [.str "1", .str "2.5"]) = .list [.dec false 1 0, .dec false 25 (-1)] ∧
    transform (.list [.str "H2", .str "1"]) = .list [.str "H2", .str "1"] := by
  refine ⟨?_, ?_, ?_, ?_, ?_, ?_⟩ <;> decide +kernel

/-- `transform` is idempotent: applying it to an already typed value (as `ConfigObj.walk` would on a second pass)
    changes nothing. -/
theorem transform_idem (v : Value) : transform (transform v) = transform v := by
  cases v with
  | list l =>
    cases h : l.mapM toFloat with
    | none => rw [transform_list, h]; simp only; rw [transform_list, h]
    | some ns =>
      have hn := mapM_toFloat_isNum l ns h
      rw [transform_list, h]; simp only
      rw [transform_list, mapM_toFloat_fix ns hn]
  | scalar sc =>
    cases sc with
    | str s =>
      rcases transform_total.1 s with ⟨b, hb⟩ | ⟨n, hn, hnum⟩ | hs
      · rw [hb]; rfl
      · rw [hn]; cases n <;> first | rfl | (simp [isNum] at hnum)
      · rw [hs, hs]
    | none => rfl
    | bool b => rfl
    | int i => rfl
    | dec a b c => rfl
    | inf a => rfl
    | nan => rfl
  | other r => rfl
  | ref w => rfl

/-- `klass_field.split('+')`: joining the parts with `+` gives the selector back and no part contains `+`;
    a selector with at least two parts whose last part names a class `base` and whose other parts name the
    mixins `ms` (no mixin twice) resolves to the mixed class `(ms…, base)`. -/
theorem mixin_split (sr : SectionReg) (customs : Customs) (sec field sel : String) (rest : Config)
    (p q : String) (ps : List String) (base : Klass) (ms : List Klass)
    (hc : lower sel ≠ "custom") (hparts : splitPlus (lower sel) = p :: q :: ps)
    (hb : factory sr (lastOf (p :: q :: ps)) = .ok base)
    (hm : (initOf (p :: q :: ps)).mapM (mixinFactory sr) = .ok ms)
    (hd : hasDup (ms.map (·.path)) = false) (hf : hasKey rest field = false) :
    (joinWith '+' (splitOnC '+' (lower sel).toList) = (lower sel).toList ∧
      ∀ part ∈ splitOnC '+' (lower sel).toList, '+' ∉ part) ∧
    determineKlass sr customs sec field ((field, .scalar (.str sel)) :: rest) = .ok (rest, .mixed ms base) := by
  refine ⟨⟨join_splitOnC _ _, splitOnC_no_sep _ _⟩, ?_⟩
  have hpop : popKey ((field, Value.scalar (.str sel)) :: rest) field = some (.scalar (.str sel), rest) := by
    have hfilter : rest.filter (fun kv => kv.1 != field) = rest := by
      rw [List.filter_eq_self]
      intro kv hkv
      have : ¬ (kv.1 = field) := by
        intro he
        have : hasKey rest field = true := by
          simp only [hasKey, List.any_eq_true]; exact ⟨kv, hkv, by simp [he]⟩
        rw [hf] at this; cases this
      simpa using this
    simp [popKey, hfilter]
  unfold determineKlass
  rw [hpop]
  simp [hc, hparts, hb, hm, hd, bind, Except.bind, pure, Except.pure]

example : determineKlass (Registry.registry.sec "temperature") [] "temperature" "profile_type"
      [("profile_type", .scalar (.str "TempScalar+Isothermal")), ("T", .scalar (.dec false 1 3))]
    = .ok ([("T", .scalar (.dec false 1 3))],
        .mixed ((Registry.registry.sec "temperature").mixins.take 1) ((Registry.registry.sec "temperature").classes.getD 2 default)) := by
  decide +kernel

/-- An unknown selector is an error: when no class of the section claims the (lower-cased) selector — and it is
    neither `custom` nor a `+` composite — `determine_klass` raises `NotImplementedError`; a selector that was typed
    as a number / boolean / list raises `AttributeError`; a missing selector raises `KeyError`. -/
theorem unknown_selector_error (sr : SectionReg) (customs : Customs) (sec field : String) (cfg : Config) :
    (∀ sel one, cfg.lookup field = some (.scalar (.str sel)) → lower sel ≠ "custom" →
      splitPlus (lower sel) = [one] → lookup sr.classes one = none →
      determineKlass sr customs sec field cfg = .error (.notImplemented one)) ∧
    (∀ v, cfg.lookup field = some v → (∀ s, v ≠ .scalar (.str s)) →
      determineKlass sr customs sec field cfg = .error (.attrError field)) ∧
    (cfg.lookup field = none → determineKlass sr customs sec field cfg = .error (.keyError field)) := by
  refine ⟨?_, ?_, ?_⟩
  · intro sel one hl hc hs hn
    simp [determineKlass, popKey, hl, hc, hs, factory, hn, Except.map]
  · intro v hl hv
    have hp : popKey cfg field = some (v, cfg.filter (·.1 != field)) := by simp [popKey, hl]
    unfold determineKlass
    rw [hp]
    cases v with
    | scalar sc =>
      cases sc with
      | str s => exact absurd rfl (hv s)
      | _ => rfl
    | _ => rfl
  · intro hl
    simp [determineKlass, popKey, hl]

example : determineKlass (Registry.registry.sec "temperature") [] "temperature" "profile_type"
      [("profile_type", .scalar (.str "isothermall"))] = .error (.notImplemented "isothermall") := by
  decide +kernel

/-- An unknown key is an error, strict sections (temperature, pressure, chemistry, gas profiles; contributions):
    for a plain class, a config key that is not a constructor keyword makes `create_profile` raise `KeyError`. -/
theorem unknown_key_error_strict (sr : SectionReg) (customs : Customs) (sec field : String) (cfg cfg1 : Config)
    (k : Klass) (kv : String × Value)
    (hr : determineKlass sr customs sec field cfg = .ok (cfg1, .plain k))
    (hm : kv ∈ cfg1) (hk : hasKey k.kwargs kv.1 = false) :
    ∃ key, createProfile sr customs sec field cfg = .error (.keyError key) := by
  obtain ⟨key, hkey⟩ := createKlass_unknown k.kwargs cfg1 kv hm hk
  refine ⟨key, ?_⟩
  simp [createProfile, hr, kwargDict, hkey, bind, Except.bind]

/-- An unknown key is an error, `klass(**config)` sections (planet, star, optimizer, observation, instrument,
    model): for a plain class without `**kwargs`, a key that is not a constructor parameter raises `TypeError`. -/
theorem unknown_key_error_lenient (sr : SectionReg) (customs : Customs) (sec field : String) (cfg cfg1 : Config)
    (k : Klass) (kv : String × Value)
    (hr : determineKlass sr customs sec field cfg = .ok (cfg1, .plain k))
    (hv : k.varkw = false) (hm : kv ∈ cfg1) (hk : k.args.contains kv.1 = false) :
    ∃ key, createLenient sr customs sec field cfg = .error (.typeError key) := by
  have : ∃ kv', cfg1.find? (fun kv => !(k.varkw || k.args.contains kv.1)) = some kv' := by
    cases h : cfg1.find? (fun kv => !(k.varkw || k.args.contains kv.1)) with
    | some kv' => exact ⟨kv', rfl⟩
    | none =>
      rw [List.find?_eq_none] at h
      have h' := h kv hm
      simp only [hv, hk, Bool.or_self, Bool.not_false, not_true_eq_false] at h'
  obtain ⟨kv', hkv'⟩ := this
  refine ⟨kv'.1, ?_⟩
  simp only [createLenient, hr, instantiate, bindArgs, hkv', bind, Except.bind, Except.map]

example : (createProfile (Registry.registry.sec "temperature") [] "temperature" "profile_type"
      [("profile_type", .scalar (.str "guillot")), ("kappa_ir", .scalar (.dec false 1 (-2)))]
      = .error (.keyError "kappa_ir")) ∧
    (createLenient (Registry.registry.sec "star") [] "star" "star_type"
      [("star_type", .scalar (.str "blackbody")), ("zzz", .scalar (.dec false 1 0))]
      = .error (.typeError "zzz")) := by
  constructor <;> decide +kernel

/-! ## theorems over the regenerated tables -/

/-- In every factory section (classes and mixins) no selector keyword is claimed by two classes. -/
theorem registry_disjoint :
    ∀ s ∈ Registry.registry, pairwiseDisjoint s.2.classes = true ∧ pairwiseDisjoint s.2.mixins = true := by
  decide +kernel

-- non-vacuity: the generated registry has every section, each with at least one class
example : Registry.registry.map (·.1) = Registry.sectionNames ∧
    (∀ s ∈ Registry.registry, s.2.classes ≠ []) := by decide +kernel

/-- documented selectors that are known not to resolve (recorded in known_findings.txt, not repaired) -/
def knownUnresolved : List (String × String) := [("gas", "twopoint")]

/-- documented selectors of components that are not part of the package (plugins): not judged -/
def pluginOnly : List (String × String) :=
  [("chemistry", "ace"), ("chemistry", "equilibrium"), ("contribution", "BHMie")]

/-- FULL STATEMENT (false today, see `twopoint_unresolved`): every documented selector of a component of the
    package has exactly one candidate class in its section, and it is the documented class.
    PROVED: the same for all documented selectors except the explicit list `knownUnresolved`. -/
theorem documented_resolve_partial :
    ∀ d ∈ Docs.selectors, d.inPackage = true → (d.sec, d.keyword) ∉ knownUnresolved →
      resolvesTo Registry.registry d = true := by
  decide +kernel

/-- the recorded exception is real: `gas_type = twopoint` has no candidate among the discovered gas classes
    (the day it is repaired this theorem fails and `knownUnresolved` must shrink) -/
theorem twopoint_unresolved :
    candidates (Registry.registry.sec "gas").classes "twopoint" = [] ∧
    (∃ d ∈ Docs.selectors, (d.sec, d.keyword) = ("gas", "twopoint") ∧ d.inPackage = true) := by
  decide +kernel

/-- the documented selectors that are not judged are exactly the pinned plugin list (so that a class deleted from
    the package cannot silently turn its documented selector into a "plugin") -/
theorem plugin_selectors_pinned :
    (Docs.selectors.filter (fun d => !d.inPackage)).map (fun d => (d.sec, d.keyword)) = pluginOnly := by
  decide +kernel

/-- Every documented selector, written as in the documentation in a section of its own, goes through
    `determine_klass` to exactly the class the table look-up gives (lower-casing, no `+`, not `custom`). -/
theorem documented_selector_builds :
    ∀ d ∈ Docs.selectors, d.inPackage = true → (d.sec, d.keyword) ∉ knownUnresolved →
      d.sec ≠ "prior" → d.sec ≠ "contribution" →
      (match determineKlass (Registry.registry.sec d.sec) [] d.sec "field" [("field", .scalar (.str d.keyword))] with
        | .ok ([], .plain k) => d.cls.all (· == k.path)
        | _ => false) = true := by
  decide +kernel

/-- Every key of a documented "Keywords" table is accepted: it is a constructor keyword of the class its selector
    resolves to, a key the parser consumes, or one of the `[Observation]` file keys. -/
theorem documented_keys_accepted :
    ∀ d ∈ Docs.keys, keyAccepted Registry.registry d = true := by
  decide +kernel

example : Docs.selectors.length ≥ 30 ∧ Docs.keys.length ≥ 60 := by decide +kernel

def lenientSections : List String := ["planet", "star", "optimizer", "observation", "instrument", "model"]

/-- In the sections built by `klass(**config)` no built-in class swallows unknown keys (`**kwargs`) and no
    built-in mixin exists (a mixed class would drop unknown keys silently in `mixed_init`): together with
    `unknown_key_error_lenient` every unknown key there is a `TypeError`. -/
theorem lenient_sections_bind_strictly :
    ∀ s ∈ lenientSections, (Registry.registry.sec s).mixins = [] ∧
      ∀ k ∈ (Registry.registry.sec s).classes, k.varkw = false := by
  decide +kernel

/-- **The class a custom file provides** (`[x] type = custom`, `python_file = …`): among the classes of the file that
    derive from the section's base class, the FIRST BY NAME (the order of `inspect.getmembers`) — it is one of them and no
    other candidate has a smaller name; the file is rejected exactly when it has no such class. -/
theorem custom_class_pick (members : List Klass) (sec : String) :
    (∀ k, detectKlass members sec = .ok k →
      k ∈ members ∧ k.sections.contains sec = true ∧
      ∀ k' ∈ members, k'.sections.contains sec = true → k.name ≤ k'.name) ∧
    ((∀ k ∈ members, k.sections.contains sec = false) →
      detectKlass members sec = .error (.generic "no class in custom file")) ∧
    ((∃ k ∈ members, k.sections.contains sec = true) → ∃ k, detectKlass members sec = .ok k) := by
  have hsorted := sortByName_sorted (members.filter (fun k => k.sections.contains sec))
  have hmem : ∀ y, y ∈ sortByName (members.filter (fun k => k.sections.contains sec))
      ↔ y ∈ members ∧ y.sections.contains sec = true := by
    intro y
    rw [mem_sortByName, List.mem_filter]
  refine ⟨?_, ?_, ?_⟩
  · intro k hk
    unfold detectKlass at hk
    cases hs : sortByName (members.filter (fun k => k.sections.contains sec)) with
    | nil => rw [hs] at hk; cases hk
    | cons x t =>
      rw [hs] at hk hsorted
      have hx : x = k := by injection hk
      subst hx
      have hxm := (hmem x).1 (by rw [hs]; simp)
      refine ⟨hxm.1, hxm.2, fun k' hk' hsec => ?_⟩
      have : k' ∈ x :: t := by rw [← hs]; exact (hmem k').2 ⟨hk', hsec⟩
      rcases List.mem_cons.1 this with rfl | ht
      · exact String.le_refl _
      · exact (List.pairwise_cons.1 hsorted).1 k' ht
  · intro hnone
    unfold detectKlass
    have : members.filter (fun k => k.sections.contains sec) = [] := by
      rw [List.filter_eq_nil_iff]
      intro k hk
      have := hnone k hk
      simpa using this
    rw [this]
    rfl
  · intro ⟨k, hk, hsec⟩
    unfold detectKlass
    cases hs : sortByName (members.filter (fun k => k.sections.contains sec)) with
    | nil =>
      have := (hmem k).2 ⟨hk, hsec⟩
      rw [hs] at this
      cases this
    | cons x t => exact ⟨x, rfl⟩

end Taurex.C15
