/-
  C10 — source tie.  `TaurexModel/Gen/SrcC10.lean` is regenerated on every run by `harness/translate.py` (idioms of
  `harness/translate_arr.py`) from the source text of taurex/data/profiles/chemistry/taurexchemistry.py, autochemistry.py
  and gas/constantgas.py.  The theorems below state, for EVERY carrier (no algebra: induction over the Python lists), that
  each regenerated definition computes the hand-written model function of `TaurexModel/Chemistry.lean` that the C10 theorems
  are about and that `driver_c10` executes.  The code's arrays are functions `Nat → α`, its lists of arrays `List (Nat → α)`;
  `listOf n` / `rowsOf n` (Proofs/C10Src.lean) cut them to the `n` layers to compare with the model's lists.
  The functions translated in the dialect `seq` (harness/translate_seq.py: `taurex.util.movingaverage`, the WHOLE
  `TwoLayerGas.initialize_profile`, `ArrayGas.initialize_profile`, `AutoChemistry.determine_active_inactive`,
  `Chemistry.__init__`) keep arrays and name lists as `List`s of run-time length and raise where Python / numpy raise
  (`Except.error "ValueError"`); `outcomeOf` reads that as the model's `Outcome`.  Externals are instantiated with the model's
  `npInterp` / `linspace` (TaurexModel/NpInterp.lean); Python's `int()` / int → float are the parameters `pyInt` / `toF`,
  whose properties are explicit hypotheses; the cumsum trick of `movingaverage` equals the model's window means over ℝ only
  (`src_movingaverage`), it enters the generic `src_two_layer_gas` as the hypothesis `hma`.
  `Chemistry.get_gas_mix_profile` is translated with the `@property` getters it reads (`activeGases`, `inactiveGases`,
  `activeGasMixProfile`, `inactiveGasMixProfile` of `AutoChemistry`: optional 2-D array, optional index array) and tied to the
  model's `getGasMixProfile` in the object state `determine_active_inactive` leaves (`src_get_gas_mix_profile`).
  A source change that alters one of these functions makes the corresponding theorem fail to check.
-/
import TaurexModel.Gen.SrcC10
import TaurexModel.Chemistry
import Proofs.C10Src
import Proofs.SeqSrcReal
import Proofs.C10Lemmas
set_option linter.unusedSectionVars false

namespace Taurex.C10Src
open Taurex Taurex.NpInterp Taurex.Chemistry
open Taurex.SeqSrc (outcomeOf outcomeOf_ok assemble_tie assemble_side ma_cumsum argmin_abs getInt_nat)

section
variable {α : Type} [Add α] [Sub α] [Mul α] [Div α] [Neg α] [LT α] [LE α]
  [DecidableLT α] [DecidableLE α] [Taurex.Transc α] [OfNat α 0] [OfNat α 1]

/-- `ConstantGas.initialize_profile` (`mix_ratio * np.ones(nlayers)`) is `constantGas`.  Generic. -/
theorem src_constant_gas (mix : α) (n : Nat) :
    listOf n (Gen.SrcC10.constant_gas n mix) = constantGas mix n := by
  unfold Gen.SrcC10.constant_gas constantGas
  exact listOf_const n _

/-- `TwoPointGas.initialize_profile` (straight line in (log10 P, log10 X) stored into `[1:-1]`, then the two end layers),
    with `nlayers = len(pressure_profile)`, is `twoPointGas`.  Generic. -/
theorem src_two_point_gas (surf top : α) (P : List α) :
    listOf P.length (Gen.SrcC10.two_point_gas P.length (fun i => P.getD i 0) P.length surf top)
      = twoPointGas surf top P := by
  unfold Gen.SrcC10.two_point_gas twoPointGas listOf
  apply List.map_congr_left
  intro i hmem
  have hlt : i < P.length := List.mem_range.mp hmem
  by_cases h1 : i = P.length - 1
  · simp [h1]
  · by_cases h0 : i = 0
    · simp [h0]
    · have hi : 1 ≤ i := Nat.one_le_iff_ne_zero.mpr h0
      have hc : 1 ≤ i ∧ i < P.length - 1 := ⟨hi, by omega⟩
      simp only [h1, h0, if_false, Nat.sub_add_cancel hi, hc, and_self, if_true]

/-- `PowerGas.initialize_profile`, the formula after the coefficient look-up (`P = pressure_profile*1e-5` … `self._mix_profile
    = mix`), is `powerGas` with `barFactor` = the literal `1e-5`; `np.power(P, alpha)` is read as `exp (alpha * log P)`
    (`hpow`, the model's definition of the real power; ASSUMPTIONS of harness/c10.py).  Generic. -/
theorem src_power_gas (ms a b c bf : α) (rpow : α → α → α) (hpow : ∀ x y, rpow x y = exp (y * log x))
    (P T : List α) (n : Nat) (hP : P.length = n) (hT : T.length = n) :
    listOf n (Gen.SrcC10.power_gas (fun i => T.getD i 0) (fun i => P.getD i 0) a b bf c ms rpow)
      = powerGas ms a b c bf P T := by
  unfold Gen.SrcC10.power_gas powerGas
  simp only [hpow]
  conv => rhs; rw [← listOf_getD_self P n hP, ← listOf_getD_self T n hT]
  rw [zipWith_listOf]

/-- **the remainder split among the fill gases** `TaurexChemistry.fill_atmosphere(mixratio_remainder)` with
    `len(self._fill_gases) = nFill` and `self._fill_ratio = ratios` is `fillAtmosphere` (rows: main fill gas first, then one
    row per ratio, `zip` stopping at the shorter of `fill_gases[1:]` and the ratios).  Generic: induction over the ratios. -/
theorem src_fill_atmosphere (nFill : Nat) (ratios : List α) (n : Nat) (rem : Nat → α) :
    rowsOf n (Gen.SrcC10.fill_atmosphere rem nFill ratios) = fillAtmosphere nFill ratios (listOf n rem) := by
  unfold Gen.SrcC10.fill_atmosphere fillAtmosphere
  by_cases h : nFill = 1
  · simp [h, rowsOf]
  · simp only [h, decide_false, Bool.false_eq_true, if_false]
    rw [foldl_append_singleton, List.nil_append, rowsOf_append]
    simp only [rowsOf, List.map_cons, List.map_nil, List.singleton_append, List.map_map, listOf_map]
    rfl

/-- **`initialize_chemistry` up to the row list** (trace profiles `gasMix k`, k < m, each of `n` layers; the constructor has
    enforced the ratio count `hcount`): the model `mixProfile` is `invalid` exactly when the code raises
    `InvalidChemistryException` (`np.any(sum(mix_profile) > 1.0)`), and otherwise its rows are the code's `mix_profile`
    (fill gases from `fill_atmosphere(1 - total)` first, then the traces).  Generic; the code's
    `mixratio_remainder += np.zeros(nlayers)` needs `x + 0 = x` (`h0`: true in ℝ, ℚ and for every float but `-0.0`). -/
theorem src_initialize_chemistry (h0 : ∀ x : α, x + 0 = x) (nFill : Nat) (ratios : List α) (n m : Nat)
    (gasMix : Nat → Nat → α) (hcount : ¬ (1 < nFill ∧ ratios.length ≠ nFill - 1)) :
    mixProfile nFill ratios (rowsOf n ((List.range m).map gasMix)) n
      = match Gen.SrcC10.initialize_chemistry n m ratios gasMix nFill with
        | none => Outcome.invalid
        | some rows => Outcome.ok (rowsOf n rows) := by
  unfold Gen.SrcC10.initialize_chemistry mixProfile
  simp only [hcount, if_false, ← List.range_eq_range']
  rw [foldl_append_singleton, List.nil_append, totalMix_rowsOf, any_listOf]
  split
  · rfl
  · simp only [h0]
    rw [rowsOf_append, src_fill_atmosphere, listOf_map]

/-- **mean molecular weight** `AutoChemistry.compute_mu_profile(nlayers)` (`mu += mixProfile[idx] * mass(gas_idx)` over all
    gases, `mixProfile` not None) is `muProfile` on the rows and masses cut from the code's arrays.  Generic. -/
theorem src_mu_profile (n m : Nat) (mix : Nat → Nat → α) (massAt : Nat → α) :
    listOf n (Gen.SrcC10.compute_mu_profile n m massAt mix)
      = muProfile (rowsOf n ((List.range m).map mix)) ((List.range m).map massAt) n := by
  unfold Gen.SrcC10.compute_mu_profile muProfile rowsOf
  simp only [← List.range_eq_range']
  rw [List.map_map, List.zip_map, List.foldl_map, ← listOf_const]
  simp only [Function.comp_def, Prod.map_fst, Prod.map_snd, listOf_map]
  have hz : (List.range m).zip (List.range m) = (List.range m).map (fun k => (k, k)) := by
    simp [List.zip_eq_zipWith, List.zipWith_self]
  rw [hz, List.foldl_map]
  rw [foldl_zipWith_listOf n (fun k i => mix k i * massAt k) (List.range m) (fun _ => 0)]
  apply listOf_congr
  intro i _
  exact foldl_fun_apply (fun k i => mix k i * massAt k) (List.range m) (fun _ => 0) i

/-! ### the whole `PowerGas.initialize_profile` (coefficient look-up + formula) -/

/-- the formula part of the `seq` translation of `PowerGas.initialize_profile`, with numpy's shape test of `P`-terms
    against `T`-terms, for resolved coefficients and profiles of equal length: `powerGas` -/
theorem power_formula (m a b g bf : α) (rpow : α → α → α) (hpow : ∀ x y, rpow x y = exp (y * log x))
    (P T : List α) (h : P.length = T.length) :
    outcomeOf "InvalidModelException"
      (if !(Gen.Np.bcastOk
            (List.length (List.map (fun x__ => ((pow10 (g * (-(1 : α)))) * x__))
              (List.map (fun x__ => (rpow x__ a)) (List.map (fun x__ => (x__ * bf)) P))))
            (List.length (List.map (fun x__ => (pow10 x__)) (List.map (fun x__ => (b / x__)) T))))
       then (Except.error "ValueError" : Except String (List α))
       else Except.ok (List.map (fun x__ => (x__ * x__)) (List.map (fun x__ => ((1 : α) / x__))
          (List.map (fun x__ => (((1 : α) / (sqrt m)) + x__)) (List.map (fun x__ => ((1 : α) / x__))
            (List.map (fun x__ => (sqrt x__))
              (Gen.Np.zip2 (fun x__ y__ => (x__ * y__))
                (List.map (fun x__ => ((pow10 (g * (-(1 : α)))) * x__))
                  (List.map (fun x__ => (rpow x__ a)) (List.map (fun x__ => (x__ * bf)) P)))
                (List.map (fun x__ => (pow10 x__)) (List.map (fun x__ => (b / x__)) T)))))))))
      = Outcome.ok (powerGas m a b g bf P T) := by
  have hb : Gen.Np.bcastOk
      (List.length (List.map (fun x__ => ((pow10 (g * (-(1 : α)))) * x__))
        (List.map (fun x__ => (rpow x__ a)) (List.map (fun x__ => (x__ * bf)) P))))
      (List.length (List.map (fun x__ => (pow10 x__)) (List.map (fun x__ => (b / x__)) T))) = true := by
    simp [Gen.Np.bcastOk, h]
  rw [hb]
  simp only [Bool.not_true, Bool.false_eq_true, if_false, outcomeOf_ok]
  congr 1
  unfold Gen.Np.zip2 powerGas
  rw [if_pos (by simp [h])]
  simp only [List.map_map, List.zipWith_map_left, List.zipWith_map_right, List.map_zipWith, Function.comp_def, hpow]

/-- **`PowerGas.initialize_profile`, the whole function**: every coefficient the constructor left `None` is taken from the
    tuple `check_known(profile_type)` returns (external `known`; its components are `(alpha, beta, gamma, A)`), a coefficient
    that is `None` there too raises ValueError (`error`), then the formula: `powerGasAuto`.  `np.power(P, alpha)` is read as
    `exp (alpha * log P)` (`hpow`); pressure and temperature profile have the same length.  Generic. -/
theorem src_power_gas_full (ms a b g : Option α) (known : String → Option α × Option α × Option α × Option α)
    (ptype : String) (bf : α) (rpow : α → α → α) (hpow : ∀ x y, rpow x y = exp (y * log x)) (P T : List α) (n : Nat)
    (h : P.length = T.length) :
    outcomeOf "InvalidModelException" (Gen.SrcC10.power_gas_full n T P a b bf known g ms ptype rpow)
      = powerGasAuto ms a b g (known ptype) bf P T := by
  unfold Gen.SrcC10.power_gas_full powerGasAuto powerCoeff
  dsimp only
  generalize known ptype = k
  obtain ⟨ka, kb, kg, kA⟩ := k
  cases ms <;> cases kA <;> cases a <;> cases ka <;> cases b <;> cases kb <;> cases g <;> cases kg <;>
    simp only [Option.elim_some, Option.elim_none] <;>
    first
      | exact power_formula _ _ _ _ bf rpow hpow P T h
      | rfl

/-! ### `ArrayGas` and the whole `TwoLayerGas.initialize_profile` (dialect `seq`: lists of run-time length, Python ints,
    numpy's shape tests as `Except.error "ValueError"`) -/

section
variable [NatConv α] [OfNat α 2] [OfNat α 100]

/-- `ArrayGas.initialize_profile` (`np.interp(np.linspace(0, 1, nlayers), np.linspace(0, 1, len(arr)), arr)`) is `arrayGas`;
    `np.linspace` / `np.interp` are the model's `linspace` / `npInterp` (TaurexModel/NpInterp.lean).  Generic. -/
theorem src_array_gas (arr : List α) (n : Nat) :
    Gen.SrcC10.array_gas n (fun x xp fp => npInterp xp fp x) (fun a b k => linspace a b k) arr = arrayGas arr n := by
  unfold Gen.SrcC10.array_gas arrayGas
  rfl

/-- `wsize = int(…); if wsize % 2 == 0: wsize += 1` on Python ints, for a non-negative truncation, is `oddWindow` -/
theorem odd_window_int (t : Nat) :
    (if decide ((Int.ofNat t) % 2 = (0 : Int)) then Int.ofNat t + (1 : Int) else Int.ofNat t)
      = Int.ofNat (if t % 2 = 0 then t + 1 else t) := by
  simp only [Int.ofNat_eq_natCast, decide_eq_true_eq]
  by_cases h : t % 2 = 0
  · have : ((t : Int) % 2 = 0) := by omega
    rw [if_pos this, if_pos h]; simp
  · have : ¬ ((t : Int) % 2 = 0) := by omega
    rw [if_neg this, if_neg h]

theorem oddWindow_odd_gen (n : Nat) (w : α) : oddWindow n w % 2 = 1 := by
  unfold oddWindow
  simp only []
  split <;> omega

/-- **`TwoLayerGas.initialize_profile`, the whole function** (the layer next to the boundary pressure by `argmin`, the
    transition layers `max(int(P_layer - w/2), 0)` / `min(int(P_layer + w/2), nlayers - 1)`, `np.interp` in log P through the
    four nodes, the odd smoothing window, `movingaverage` of `log10`, the border store into `self._mix_profile`) is
    `twoLayerGas`; numpy's ValueError at the slice store is `error`.  `np.interp` is the model's `npInterp`, `pyInt` is
    Python's `int()`, `toF` the int → float conversion.  Hypotheses (facts about numbers, none about the code):
    `hF` float(n) is the model's `ofNat'`; `hInt` the model's `truncNat` is the non-negative part of `int()`; `hend`, `hw`
    the upper transition layer and the window product are not negative (true for a non-negative smoothing window);
    `hn` at least one layer; `hhalf` `int(k / 2) = k // 2` for `k ≥ 0`; `hma` the cumsum trick of `movingaverage` gives the
    window means (`src_movingaverage`: exact over ℝ, up to rounding on floats).  Generic in the carrier. -/
theorem src_two_layer_gas (surf top pb w : α) (nlayers : Nat) (pressure : List α) (pyInt : α → Int) (toF : Int → α)
    (hn : 1 ≤ nlayers)
    (hF : ∀ n : Nat, toF (Int.ofNat n) = ofNat' n)
    (hInt : ∀ x : α, max (pyInt x) 0 = Int.ofNat (truncNat x))
    (hend : 0 ≤ pyInt (ofNat' (argminAbs pressure pb) + w / 2))
    (hw : 0 ≤ pyInt (ofNat' nlayers * (w / 100)))
    (hhalf : ∀ k : Nat, pyInt (toF (Int.ofNat k) / 2) = Int.ofNat (k / 2))
    (hma : Gen.SrcC10.movingaverage ((twoLayerRaw surf top pb w nlayers pressure).map log10)
        (Int.ofNat (oddWindow nlayers w)) toF
      = Except.ok (movingAverage ((twoLayerRaw surf top pb w nlayers pressure).map log10) (oddWindow nlayers w))) :
    outcomeOf "InvalidModelException"
      (Gen.SrcC10.two_layer_gas nlayers pressure (fun x xp fp => npInterp xp fp x) pb surf top pyInt w toF)
      = twoLayerGas surf top pb w nlayers pressure := by
  have hnonneg : ∀ x : α, 0 ≤ pyInt x → pyInt x = Int.ofNat (truncNat x) := by
    intro x hx
    rw [← hInt x]; omega
  have hchem : (List.map (fun x__ => pow10 x__)
        (List.map (fun x__ => npInterp
            (List.map (fun x__ => log x__) (List.reverse
              [pressure.getD 0 (0 : α),
               Gen.Np.getInt (0 : α) pressure (max (pyInt (toF (Int.ofNat (Gen.Np.argmin (List.map
                  (fun x__ => if x__ < (0 : α) then (-x__) else x__) (List.map (fun x__ => x__ - pb) pressure)))) - w / 2))
                  (0 : Int)),
               Gen.Np.getInt (0 : α) pressure (min (pyInt (toF (Int.ofNat (Gen.Np.argmin (List.map
                  (fun x__ => if x__ < (0 : α) then (-x__) else x__) (List.map (fun x__ => x__ - pb) pressure)))) + w / 2))
                  (Int.ofNat nlayers - (1 : Int))),
               pressure.getD (pressure.length - 1) (0 : α)]))
            (List.map (fun x__ => log10 x__) (List.reverse
              [Gen.SrcC10.two_layer_mixRatioSurface surf, Gen.SrcC10.two_layer_mixRatioSurface surf,
               Gen.SrcC10.two_layer_mixRatioTop top, Gen.SrcC10.two_layer_mixRatioTop top])) x__)
          (List.map (fun x__ => log x__) (List.reverse pressure))))
      = twoLayerRaw surf top pb w nlayers pressure := by
    unfold twoLayerRaw Gen.SrcC10.two_layer_mixRatioSurface Gen.SrcC10.two_layer_mixRatioTop
    rw [argmin_abs, hF, hInt, hnonneg _ hend]
    have hmin : min (Int.ofNat (truncNat (ofNat' (argminAbs pressure pb) + w / 2))) (Int.ofNat nlayers - (1 : Int))
        = Int.ofNat (min (truncNat (ofNat' (argminAbs pressure pb) + w / 2)) (nlayers - 1)) := by
      simp only [Int.ofNat_eq_natCast]; omega
    rw [hmin, getInt_nat, getInt_nat]
    simp only [List.map_map, List.map_reverse, Function.comp_def, List.reverse_cons, List.reverse_nil, List.nil_append,
      List.cons_append, List.map_cons, List.map_nil]
  unfold Gen.SrcC10.two_layer_gas twoLayerGas
  simp only [hchem]
  rw [hF, hnonneg _ hw, odd_window_int]
  have hodd : (if truncNat (ofNat' nlayers * (w / 100)) % 2 = 0
      then truncNat (ofNat' nlayers * (w / 100)) + 1 else truncNat (ofNat' nlayers * (w / 100)))
      = oddWindow nlayers w := rfl
  rw [hodd, hma]
  simp only []
  obtain ⟨hle, hone⟩ := assemble_side ((twoLayerRaw surf top pb w nlayers pressure).map log10) (oddWindow nlayers w)
    (oddWindow_odd_gen nlayers w)
  rw [List.length_map] at hle hone
  have hsub : Int.ofNat (twoLayerRaw surf top pb w nlayers pressure).length
      - Int.ofNat (List.map (fun x__ => pow10 x__) (movingAverage ((twoLayerRaw surf top pb w nlayers pressure).map log10)
          (oddWindow nlayers w))).length
      = Int.ofNat ((twoLayerRaw surf top pb w nlayers pressure).length
        - (List.map (fun x__ => pow10 x__) (movingAverage ((twoLayerRaw surf top pb w nlayers pressure).map log10)
          (oddWindow nlayers w))).length) := by
    simp only [Int.ofNat_eq_natCast, List.length_map]; omega
  rw [hsub, hhalf]
  exact assemble_tie "InvalidModelException" (by decide) _ _ (by simpa using hone)

end

end

/-! ### the active / inactive split -/

/-- the pairs `(name, position)` of the gases satisfying `keep`, as the comprehension over `enumerate` builds them: their
    names are the filtered list, their positions the model's `maskFrom` -/
theorem unzip_filter (keep : String → Bool) : ∀ (gs : List String) (k : Nat),
    (List.map (fun it => (it.1, it.2)) (List.filter (fun it => keep it.1) (List.zipIdx gs k))).map (fun p => p.1)
      = gs.filter keep ∧
    (List.map (fun it => (it.1, it.2)) (List.filter (fun it => keep it.1) (List.zipIdx gs k))).map (fun p => p.2)
      = maskFrom keep gs k
  | [], _ => by simp [maskFrom]
  | g :: gs, k => by
    have ih := unzip_filter keep gs (k + 1)
    rw [List.zipIdx_cons]
    by_cases h : keep g = true
    · simp only [List.filter_cons, h, if_true, List.map_cons, maskFrom]
      exact ⟨by rw [ih.1], by rw [ih.2]⟩
    · simp only [List.filter_cons, h, maskFrom]
      exact ih

/-- **`AutoChemistry.determine_active_inactive`** (`zip(*[(m, i) for i, m in enumerate(self.gases) if m in
    self.availableActive])`, the ValueError of unpacking an empty `zip` caught, the same with `not in`, then `np.array` of the
    masks that are not None) leaves in `_active`, `_inactive` the model's `activeGases`, `inactiveGases` and in `_active_mask`,
    `_inactive_mask` the model's `activeMask`, `inactiveMask` — `None` instead of an empty mask.  Core only. -/
theorem src_determine_active_inactive (gases avail : List String) :
    Gen.SrcC10.determine_active_inactive avail gases
      = (activeGases gases avail,
         (if (activeMask gases avail).isEmpty then none else some (activeMask gases avail)),
         inactiveGases gases avail,
         (if (inactiveMask gases avail).isEmpty then none else some (inactiveMask gases avail))) := by
  have key : ∀ keep : String → Bool,
      (if (List.map (fun it => (it.1, it.2)) (List.filter (fun it => keep it.1) (List.zipIdx gases))).isEmpty
        then (([] : List String), (none : Option (List Nat)))
        else ((List.map (fun it => (it.1, it.2)) (List.filter (fun it => keep it.1) (List.zipIdx gases))).map (fun p => p.1),
              some ((List.map (fun it => (it.1, it.2)) (List.filter (fun it => keep it.1) (List.zipIdx gases))).map
                (fun p => p.2))))
      = (gases.filter keep, if (maskFrom keep gases 0).isEmpty then none else some (maskFrom keep gases 0)) := by
    intro keep
    obtain ⟨h1, h2⟩ := unzip_filter keep gases 0
    have hemp : (List.map (fun it => (it.1, it.2)) (List.filter (fun it => keep it.1) (List.zipIdx gases))).isEmpty
        = (maskFrom keep gases 0).isEmpty := by
      rw [← h2]; simp
    rw [hemp, h2]
    by_cases he : (maskFrom keep gases 0).isEmpty = true
    · simp only [he, if_true]
      have : gases.filter keep = [] := by
        rw [← h1]
        have : (List.map (fun it => (it.1, it.2)) (List.filter (fun it => keep it.1) (List.zipIdx gases))).isEmpty = true :=
          hemp ▸ he
        rw [List.isEmpty_iff] at this
        rw [this]; rfl
      rw [this]
    · simp only [he, h1]
      rfl
  unfold Gen.SrcC10.determine_active_inactive activeGases inactiveGases activeMask inactiveMask
  simp only [Option.map_id', key (fun g => avail.contains g), key (fun g => !avail.contains g)]

/-- **`Chemistry.__init__`** (the molecule list of the k-table cache or of the cross-section cache, by the global option
    `opacity_method`, minus the names in the option `deactive_molecules` when it is a list) leaves in `_avail_active` the
    model's `availableActive`.  The caches and `GlobalCache` are externals (parameters).  Core only. -/
theorem src_chemistry_init (kt op : List String) (ktables : Bool) (deactive : Option (List String)) :
    Gen.SrcC10.chemistry_init deactive kt ktables op = availableActive (if ktables then kt else op) deactive := by
  unfold Gen.SrcC10.chemistry_init availableActive
  cases deactive <;> cases ktables <;> simp [Option.elim]

/-- the same with `deactive_molecules` given as ONE bare string: it names that molecule (`[deactive_list]`) -/
theorem src_chemistry_init_str (kt op : List String) (ktables : Bool) (d : String) :
    Gen.SrcC10.chemistry_init_str d kt ktables op = availableActive (if ktables then kt else op) (some [d]) := by
  unfold Gen.SrcC10.chemistry_init_str availableActive
  cases ktables <;> simp

/-- **`taurex.util.movingaverage`** (the cumsum trick `ret = cumsum(a); ret[n:] = ret[n:] - ret[:-n]; ret[n-1:] / n`, with
    the shape tests numpy makes at the subtraction and at the slice store) for a window `w ≥ 1` never raises and returns
    the `len(a) - w + 1` window means of the model's `movingAverage` (none when the window is longer than the array).
    An algebraic identity (telescoping sums): over ℝ. -/
theorem src_movingaverage (a : List ℝ) (w : Nat) (hw : 1 ≤ w) (toF : Int → ℝ)
    (hF : ∀ n : Nat, toF (Int.ofNat n) = (n : ℝ)) :
    Gen.SrcC10.movingaverage a (Int.ofNat w) toF = Except.ok (movingAverage a w) := by
  obtain ⟨h1, h2, h3⟩ := ma_cumsum a w hw (toF (Int.ofNat w)) (hF w)
  unfold Gen.SrcC10.movingaverage
  simp only [h1, h2, Bool.not_true, Bool.false_eq_true, if_false, h3]

/-! ### the look-up of one gas -/

/-- **`Chemistry.get_gas_mix_profile(name)`** with the `@property` getters it reads (`activeGases` / `inactiveGases`: the
    attributes `_active` / `_inactive`; `activeGasMixProfile` / `inactiveGasMixProfile`: `raise Exception` while
    `self.mixProfile` is None, `None` while the mask is None, else `self.mixProfile[mask]`), on an object whose attributes
    `(_active, _active_mask, _inactive, _inactive_mask)` are what the regenerated `determine_active_inactive` leaves and whose
    `mixProfile` is the 2-D array `mix`: the row the model's `getGasMixProfile` returns, `KeyError` where the model says
    `none`.  The other exits of the translated text (`ValueError` of `list.index`, `TypeError` of subscripting the `None` a
    getter returns for an empty mask, `Exception`) are unreachable in this state: a name found in `_active` makes the mask
    non-empty.  Generic in the element type, core only. -/
theorem src_get_gas_mix_profile {β : Type} (gases avail : List String) (mix : List (List β)) (name : String) :
    Gen.SrcC10.get_gas_mix_profile name
        (Gen.SrcC10.determine_active_inactive avail gases).1
        (Gen.SrcC10.determine_active_inactive avail gases).2.1
        (Gen.SrcC10.determine_active_inactive avail gases).2.2.1
        (Gen.SrcC10.determine_active_inactive avail gases).2.2.2 (some mix)
      = (getGasMixProfile gases avail mix name).elim (Except.error "KeyError") Except.ok := by
  rw [src_determine_active_inactive]
  unfold Gen.SrcC10.get_gas_mix_profile Gen.SrcC10.auto_activeGases Gen.SrcC10.auto_inactiveGases
    Gen.SrcC10.auto_activeGasMixProfile Gen.SrcC10.auto_inactiveGasMixProfile getGasMixProfile
  have hne : ∀ (keep : String → Bool), (gases.filter keep).contains name = true →
      (maskFrom keep gases 0).isEmpty = false := by
    intro keep h
    have hl := maskFrom_length keep gases 0
    cases hm : maskFrom keep gases 0 with
    | nil =>
      rw [hm] at hl
      have : gases.filter keep = [] := List.length_eq_zero_iff.1 hl.symm
      rw [this] at h; simp at h
    | cons a t => rfl
  by_cases ha : (activeGases gases avail).contains name = true
  · have h1 : (activeMask gases avail).isEmpty = false := hne _ ha
    simp only [ha, h1, Bool.not_true, Bool.false_eq_true, ↓reduceIte, Option.elim, selectRows, Gen.Np.take]
  · have ha' : (activeGases gases avail).contains name = false := by simpa using ha
    by_cases hi : (inactiveGases gases avail).contains name = true
    · have h1 : (inactiveMask gases avail).isEmpty = false := hne _ hi
      simp only [ha', hi, h1, Bool.not_true, Bool.false_eq_true, ↓reduceIte, Option.elim, selectRows, Gen.Np.take]
    · have hi' : (inactiveGases gases avail).contains name = false := by simpa using hi
      simp only [ha', hi', Bool.false_eq_true, ↓reduceIte, Option.elim]

/-- the same before `initialize_chemistry` has run (`self.mixProfile` is None): the getter raises `Exception` for a gas of
    the mixture, and an unknown name is still a `KeyError` -/
theorem src_get_gas_mix_profile_uninit {β : Type} (gases avail : List String) (name : String) :
    Gen.SrcC10.get_gas_mix_profile (α := β) name
        (Gen.SrcC10.determine_active_inactive avail gases).1
        (Gen.SrcC10.determine_active_inactive avail gases).2.1
        (Gen.SrcC10.determine_active_inactive avail gases).2.2.1
        (Gen.SrcC10.determine_active_inactive avail gases).2.2.2 none
      = if gases.contains name then Except.error "Exception" else Except.error "KeyError" := by
  rw [src_determine_active_inactive]
  unfold Gen.SrcC10.get_gas_mix_profile Gen.SrcC10.auto_activeGases Gen.SrcC10.auto_inactiveGases
    Gen.SrcC10.auto_activeGasMixProfile Gen.SrcC10.auto_inactiveGasMixProfile
  by_cases hg : name ∈ gases
  · by_cases ha : avail.contains name = true
    · have h : (activeGases gases avail).contains name = true := by
        simpa [activeGases] using And.intro hg (by simpa using ha)
      have hc : gases.contains name = true := by simpa using hg
      simp only [h, hc, Bool.not_true, Bool.false_eq_true, ↓reduceIte, Option.elim]
    · have h : (activeGases gases avail).contains name = false := by
        simp [activeGases]; intro _; simpa using ha
      have h2 : (inactiveGases gases avail).contains name = true := by
        simpa [inactiveGases] using And.intro hg (by simpa using ha)
      have hc : gases.contains name = true := by simpa using hg
      simp only [h, h2, hc, Bool.not_true, Bool.false_eq_true, ↓reduceIte, Option.elim]
  · have h : (activeGases gases avail).contains name = false := by
      simp [activeGases]; intro h; exact absurd h hg
    have h2 : (inactiveGases gases avail).contains name = false := by
      simp [inactiveGases]; intro h; exact absurd h hg
    have hc : gases.contains name = false := by simpa using hg
    simp only [h, h2, hc, Bool.false_eq_true, ↓reduceIte]

end Taurex.C10Src
