/-
  C10 — source tie.  `TaurexModel/Gen/SrcC10.lean` is regenerated on every run by `harness/translate.py` (idioms of
  `harness/translate_arr.py`) from the source text of taurex/data/profiles/chemistry/taurexchemistry.py, autochemistry.py
  and gas/constantgas.py.  The theorems below state, for EVERY carrier (no algebra: induction over the Python lists), that
  each regenerated definition computes the hand-written model function of `TaurexModel/Chemistry.lean` that the C10 theorems
  are about and that `driver_c10` executes.  The code's arrays are functions `Nat → α`, its lists of arrays `List (Nat → α)`;
  `listOf n` / `rowsOf n` (Proofs/C10Src.lean) cut them to the `n` layers to compare with the model's lists.
  A source change that alters one of these functions makes the corresponding theorem fail to check.
-/
import TaurexModel.Gen.SrcC10
import TaurexModel.Chemistry
import Proofs.C10Src
set_option linter.unusedSectionVars false

namespace Taurex.C10Src
open Taurex Taurex.NpInterp Taurex.Chemistry

section
variable {α : Type} [Add α] [Sub α] [Mul α] [Div α] [Neg α] [LT α] [LE α]
  [DecidableLT α] [DecidableLE α] [Taurex.Transc α] [OfNat α 0] [OfNat α 1]

/-- `ConstantGas.initialize_profile` (`mix_ratio * np.ones(nlayers)`) is `constantGas`.  Generic. -/
theorem src_constant_gas (mix : α) (n : Nat) :
    listOf n (Gen.SrcC10.constant_gas n mix) = constantGas mix n := by
  unfold Gen.SrcC10.constant_gas constantGas
  exact listOf_const n _

/-- `TwoPointGas.initialize_profile` (straight line in (log10 P, log10 X) stored into `[1:-1]`, then the two end layers),
    with `nlayers = len(pressure_profile)`, is `twoPointGas`.  Generic. -/
theorem src_two_point_gas (surf top : α) (P : List α) :
    listOf P.length (Gen.SrcC10.two_point_gas P.length (fun i => P.getD i 0) P.length surf top)
      = twoPointGas surf top P := by
  unfold Gen.SrcC10.two_point_gas twoPointGas listOf
  apply List.map_congr_left
  intro i hmem
  have hlt : i < P.length := List.mem_range.mp hmem
  by_cases h1 : i = P.length - 1
  · simp [h1]
  · by_cases h0 : i = 0
    · simp [h0]
    · have hi : 1 ≤ i := Nat.one_le_iff_ne_zero.mpr h0
      have hc : 1 ≤ i ∧ i < P.length - 1 := ⟨hi, by omega⟩
      simp only [h1, h0, if_false, Nat.sub_add_cancel hi, hc, and_self, if_true]

/-- `PowerGas.initialize_profile`, the formula after the coefficient look-up (`P = pressure_profile*1e-5` … `self._mix_profile
    = mix`), is `powerGas` with `barFactor` = the literal `1e-5`; `np.power(P, alpha)` is read as `exp (alpha * log P)`
    (`hpow`, the model's definition of the real power; ASSUMPTIONS of harness/c10.py).  Generic. -/
theorem src_power_gas (ms a b c bf : α) (rpow : α → α → α) (hpow : ∀ x y, rpow x y = exp (y * log x))
    (P T : List α) (n : Nat) (hP : P.length = n) (hT : T.length = n) :
    listOf n (Gen.SrcC10.power_gas (fun i => T.getD i 0) (fun i => P.getD i 0) a b bf c ms rpow)
      = powerGas ms a b c bf P T := by
  unfold Gen.SrcC10.power_gas powerGas
  simp only [hpow]
  conv => rhs; rw [← listOf_getD_self P n hP, ← listOf_getD_self T n hT]
  rw [zipWith_listOf]

/-- **the remainder split among the fill gases** `TaurexChemistry.fill_atmosphere(mixratio_remainder)` with
    `len(self._fill_gases) = nFill` and `self._fill_ratio = ratios` is `fillAtmosphere` (rows: main fill gas first, then one
    row per ratio, `zip` stopping at the shorter of `fill_gases[1:]` and the ratios).  Generic: induction over the ratios. -/
theorem src_fill_atmosphere (nFill : Nat) (ratios : List α) (n : Nat) (rem : Nat → α) :
    rowsOf n (Gen.SrcC10.fill_atmosphere rem nFill ratios) = fillAtmosphere nFill ratios (listOf n rem) := by
  unfold Gen.SrcC10.fill_atmosphere fillAtmosphere
  by_cases h : nFill = 1
  · simp [h, rowsOf]
  · simp only [h, decide_false, Bool.false_eq_true, if_false]
    rw [foldl_append_singleton, List.nil_append, rowsOf_append]
    simp only [rowsOf, List.map_cons, List.map_nil, List.singleton_append, List.map_map, listOf_map]
    rfl

/-- **`initialize_chemistry` up to the row list** (trace profiles `gasMix k`, k < m, each of `n` layers; the constructor has
    enforced the ratio count `hcount`): the model `mixProfile` is `invalid` exactly when the code raises
    `InvalidChemistryException` (`np.any(sum(mix_profile) > 1.0)`), and otherwise its rows are the code's `mix_profile`
    (fill gases from `fill_atmosphere(1 - total)` first, then the traces).  Generic; the code's
    `mixratio_remainder += np.zeros(nlayers)` needs `x + 0 = x` (`h0`: true in ℝ, ℚ and for every float but `-0.0`). -/
theorem src_initialize_chemistry (h0 : ∀ x : α, x + 0 = x) (nFill : Nat) (ratios : List α) (n m : Nat)
    (gasMix : Nat → Nat → α) (hcount : ¬ (1 < nFill ∧ ratios.length ≠ nFill - 1)) :
    mixProfile nFill ratios (rowsOf n ((List.range m).map gasMix)) n
      = match Gen.SrcC10.initialize_chemistry n m ratios gasMix nFill with
        | none => Outcome.invalid
        | some rows => Outcome.ok (rowsOf n rows) := by
  unfold Gen.SrcC10.initialize_chemistry mixProfile
  simp only [hcount, if_false, ← List.range_eq_range']
  rw [foldl_append_singleton, List.nil_append, totalMix_rowsOf, any_listOf]
  split
  · rfl
  · simp only [h0]
    rw [rowsOf_append, src_fill_atmosphere, listOf_map]

/-- **mean molecular weight** `AutoChemistry.compute_mu_profile(nlayers)` (`mu += mixProfile[idx] * mass(gas_idx)` over all
    gases, `mixProfile` not None) is `muProfile` on the rows and masses cut from the code's arrays.  Generic. -/
theorem src_mu_profile (n m : Nat) (mix : Nat → Nat → α) (massAt : Nat → α) :
    listOf n (Gen.SrcC10.compute_mu_profile n m massAt mix)
      = muProfile (rowsOf n ((List.range m).map mix)) ((List.range m).map massAt) n := by
  unfold Gen.SrcC10.compute_mu_profile muProfile rowsOf
  simp only [← List.range_eq_range']
  rw [List.map_map, List.zip_map, List.foldl_map, ← listOf_const]
  simp only [Function.comp_def, Prod.map_fst, Prod.map_snd, listOf_map]
  have hz : (List.range m).zip (List.range m) = (List.range m).map (fun k => (k, k)) := by
    simp [List.zip_eq_zipWith, List.zipWith_self]
  rw [hz, List.foldl_map]
  rw [foldl_zipWith_listOf n (fun k i => mix k i * massAt k) (List.range m) (fun _ => 0)]
  apply listOf_congr
  intro i _
  exact foldl_fun_apply (fun k i => mix k i * massAt k) (List.range m) (fun _ => 0) i

end

end Taurex.C10Src
