/-
  C06 — source tie.  `TaurexModel/Gen/SrcC06.lean` is regenerated on every run by `harness/translate.py` (dialect `obj`,
  harness/translate_obj.py) from the source text of taurex/optimizer/{optimizer,nestle,multinest,polychord}.py.  The theorems
  below state that each regenerated function is the hand-written model function of `TaurexModel/Likelihood.lean` that the C06
  theorems are about and that `driver_c06` executes.  All of them hold for EVERY carrier (no algebra: `rfl`, or structural
  induction over the lists where the source has a loop).

  How the pieces are instantiated (what the calling code passes):
  * the three log-likelihood closures read `sqrtpi = np.sqrt(2*np.pi)` from the enclosing `compute_fit` (the translation
    executes that assignment first), `np.pi` is the parameter `pi`, the float literal `0.5` the parameter `c0p5`
    (instantiated with the carrier's `1/2`, which is what the model writes);
  * `self.chisq_trans(...)` inside the closures is the parameter `chisq_trans` (any function `f`): the theorems show which
    list it receives — MultiNest / PolyChord copy the first `len(fitting_parameters)` entries of the cube.  The closures
    are tied twice: at any NaN-free carrier `α` (`src_*_loglike`), and at the NaN-aware carrier `Option α` of `chisq_trans`
    below (`src_*_loglike_nan`: a NaN chi-square gives a NaN log-likelihood through the closure's own `-… - 0.5*chi_t`;
    `src_loglike_nan` / `src_loglike_chain*`: closure ∘ regenerated `chisq_trans` = the model's `loglike`, NaN included);
  * `chisq_trans` itself: the binned forward model (`self._binner.bin_model(self._model.model(wngrid=obs_bins))[1]`) is the
    parameter `final_model`, whether evaluating it raises `InvalidModelException` the Bool parameter
    `raised_InvalidModelException`, `np.isnan` the parameter `isnan`, `np.nan` the parameter `np_nan`.  The model speaks
    about NaN entries (`Option α`, `Val α`), so the tie is stated at the carrier `Option α` with IEEE NaN-propagating
    arithmetic (`Proofs/C06SrcLemmas.lean`: `none` is NaN), `isnan = Option.isNone`, `np_nan = none`, and observation /
    errors that are numbers (`map some`).  `self.update_model(fit_params)` is not part of the value: it acts on the forward
    model, whose output is `final_model`; it is translated and tied separately (`src_update_model`);
  * the prior callbacks and `update_model` loop over `self.fitting_priors` / `self.fitting_parameters`: lists of abstract
    objects; `prior.sample(u)` / `prior.prior(v)` are function parameters, instantiated with the model's `Prior.sample` /
    `Prior.prior`.  Python raises `IndexError` for `theta[idx]` beyond the list, the translation reads `getD … 0` and
    `List.set` there: the theorems carry the guard `len(fitting_priors) ≤ len(theta)` the samplers guarantee;
  * `update_model` returns nothing: its translation is the log of its effects, one entry `(param, 3, v)` per call
    `fset(v)` of component 3 (`fset`) of the parameter tuple `param`; `none` is the `ValueError` for a length mismatch.
-/
import TaurexModel.Gen.SrcC06
import Proofs.C06SrcLemmas
set_option linter.unusedSectionVars false
set_option linter.unusedVariables false

namespace Taurex.C06Src
open Taurex.Likelihood

section
variable {α : Type} [Add α] [Sub α] [Mul α] [Div α] [Neg α] [LT α] [LE α]
  [DecidableLT α] [DecidableLE α] [OfNat α 0] [OfNat α 1] [OfNat α 2] [Taurex.Transc α]

/-! ## the log-likelihood closures -/

/-- `nestle_loglike(params)` = `-np.sum(np.log(datastd*sqrtpi)) - 0.5*chisq_trans(params, data, datastd)` -/
theorem src_nestle_loglike (pi : α) (f : List α → List α → List α → α) (theta obs sig : List α) :
    Gen.SrcC06.nestle_loglike theta obs sig (c0p5 := 1 / 2) (chisq_trans := f) (pi := pi)
      = -(normTerm pi sig) - (1 / 2) * f theta obs sig := rfl

/-- `multinest_loglike(cube, ndim, nparams)`: the same expression on the first `len(fitting_parameters)` cube entries -/
theorem src_multinest_loglike (pi : α) (f : List α → List α → List α → α) (cube obs sig : List α) (nfit : Nat)
    (h : nfit ≤ cube.length) :
    Gen.SrcC06.multinest_loglike cube nfit (c0p5 := 1 / 2) (chisq_trans := f) (errorBar := sig) (pi := pi) (spectrum := obs)
      = -(normTerm pi sig) - (1 / 2) * f (cube.take nfit) obs sig := by
  unfold Gen.SrcC06.multinest_loglike
  simp only [map_getD_range _ _ _ h]
  rfl

/-- `polychord_loglike(cube)` returns `(loglike, [0.0])` -/
theorem src_polychord_loglike (pi : α) (f : List α → List α → List α → α) (cube obs sig : List α) (nfit : Nat)
    (h : nfit ≤ cube.length) :
    Gen.SrcC06.polychord_loglike cube obs sig nfit (c0p5 := 1 / 2) (chisq_trans := f) (pi := pi)
      = (-(normTerm pi sig) - (1 / 2) * f (cube.take nfit) obs sig, [0]) := by
  unfold Gen.SrcC06.polychord_loglike
  simp only [map_getD_range _ _ _ h]
  rfl

/-- the model's `loglike` is the translated closure applied to the chi-square the model computes (finite case; a NaN
    chi-square gives a NaN log-likelihood on both sides by IEEE propagation, which a NaN-free carrier cannot state) -/
theorem src_loglike (pi c : α) (obs sig theta : List α) (out : ModelOut α) (h : chisq obs sig out = .fin c) :
    loglike pi obs sig out
      = .fin (Gen.SrcC06.nestle_loglike theta obs sig (c0p5 := 1 / 2) (chisq_trans := fun _ _ _ => c) (pi := pi)) := by
  simp only [loglike, h]
  rfl

/-! ## chi-square -/

/-- `chisq_trans` on a model evaluation that succeeded, at the NaN-aware carrier: the model's `chisq` -/
theorem src_chisq (obs sig : List α) (m wn : List (Option α)) :
    Gen.SrcC06.chisq_trans (α := Option α) (datastd := sig.map some) (final_model := m) (isnan := Option.isNone)
        (np_nan := none) (raised_InvalidModelException := false) (spectrum := obs.map some) (wavenumberGrid := wn)
      = valOpt (chisq obs sig (.ok m)) := by
  simp only [Gen.SrcC06.chisq_trans, chisq, ← resid_eq, all_sq, valOpt_ite, Bool.false_eq_true, if_false]
  rw [show (0 : Option α) = some 0 from rfl, nansum_eq]
  rfl

/-- `chisq_trans` when the forward model raises `InvalidModelException`: NaN -/
theorem src_chisq_invalid (obs sig : List α) (m wn : List (Option α)) :
    Gen.SrcC06.chisq_trans (α := Option α) (datastd := sig.map some) (final_model := m) (isnan := Option.isNone)
        (np_nan := none) (raised_InvalidModelException := true) (spectrum := obs.map some) (wavenumberGrid := wn)
      = valOpt (chisq obs sig .invalid) := rfl

/-! ## the log-likelihood closures at the NaN-aware carrier

The same regenerated closures, instantiated at `Option α` (`none` = NaN) with the NaN-propagating arithmetic of
`Proofs/C06SrcLemmas.lean` (the carrier `chisq_trans` is tied at): observation / error bars / `np.pi` / `0.5` are numbers
(`some`), `self.chisq_trans(...)` is any function into possibly-NaN values.  The result is NaN exactly when the chi-square
is, and otherwise the number of the NaN-free ties above. -/

/-- `nestle_loglike(params)` when `chisq_trans` may return NaN -/
theorem src_nestle_loglike_nan (pi : α) (f : List (Option α) → List (Option α) → List (Option α) → Option α)
    (theta : List (Option α)) (obs sig : List α) :
    Gen.SrcC06.nestle_loglike (α := Option α) theta (obs.map some) (sig.map some) (c0p5 := some (1 / 2))
        (chisq_trans := f) (pi := some pi)
      = (f theta (obs.map some) (sig.map some)).map (fun c => -(normTerm pi sig) - (1 / 2) * c) := by
  unfold Gen.SrcC06.nestle_loglike
  dsimp only
  rw [normTerm_some]
  exact loglike_nan _ _ _

/-- `multinest_loglike(cube, ndim, nparams)` when `chisq_trans` may return NaN -/
theorem src_multinest_loglike_nan (pi : α) (f : List (Option α) → List (Option α) → List (Option α) → Option α)
    (cube : List (Option α)) (obs sig : List α) (nfit : Nat) (h : nfit ≤ cube.length) :
    Gen.SrcC06.multinest_loglike (α := Option α) cube nfit (c0p5 := some (1 / 2)) (chisq_trans := f)
        (errorBar := sig.map some) (pi := some pi) (spectrum := obs.map some)
      = (f (cube.take nfit) (obs.map some) (sig.map some)).map (fun c => -(normTerm pi sig) - (1 / 2) * c) := by
  unfold Gen.SrcC06.multinest_loglike
  dsimp only
  rw [normTerm_some, map_getD_range _ _ _ h]
  exact loglike_nan _ _ _

/-- `polychord_loglike(cube)` when `chisq_trans` may return NaN: `(loglike, [0.0])` -/
theorem src_polychord_loglike_nan (pi : α) (f : List (Option α) → List (Option α) → List (Option α) → Option α)
    (cube : List (Option α)) (obs sig : List α) (nfit : Nat) (h : nfit ≤ cube.length) :
    Gen.SrcC06.polychord_loglike (α := Option α) cube (obs.map some) (sig.map some) nfit (c0p5 := some (1 / 2))
        (chisq_trans := f) (pi := some pi)
      = ((f (cube.take nfit) (obs.map some) (sig.map some)).map (fun c => -(normTerm pi sig) - (1 / 2) * c),
          [some 0]) := by
  unfold Gen.SrcC06.polychord_loglike
  dsimp only
  rw [normTerm_some, map_getD_range _ _ _ h, loglike_nan]
  rfl

/-- the model's `loglike`, finite or not, is the translated closure applied to the chi-square the model computes: a NaN
    chi-square gives a NaN log-likelihood by the closure's own arithmetic -/
theorem src_loglike_nan (pi : α) (obs sig : List α) (theta : List (Option α)) (out : ModelOut α) :
    valOpt (loglike pi obs sig out)
      = Gen.SrcC06.nestle_loglike (α := Option α) theta (obs.map some) (sig.map some) (c0p5 := some (1 / 2))
          (chisq_trans := fun _ _ _ => valOpt (chisq obs sig out)) (pi := some pi) := by
  rw [src_nestle_loglike_nan]
  unfold loglike
  cases chisq obs sig out <;> rfl

/-- the closure calling the regenerated `chisq_trans` (which reads `datastd` from its argument and the observed spectrum
    from `self._observed`), forward model succeeded with binned spectrum `m`: the model's `loglike` -/
theorem src_loglike_chain (pi : α) (obs sig : List α) (theta m wn : List (Option α)) :
    Gen.SrcC06.nestle_loglike (α := Option α) theta (obs.map some) (sig.map some) (c0p5 := some (1 / 2)) (pi := some pi)
        (chisq_trans := fun _ _ std => Gen.SrcC06.chisq_trans (α := Option α) (datastd := std) (final_model := m)
          (isnan := Option.isNone) (np_nan := none) (raised_InvalidModelException := false) (spectrum := obs.map some)
          (wavenumberGrid := wn))
      = valOpt (loglike pi obs sig (.ok m)) := by
  rw [src_nestle_loglike_nan, src_loglike_nan pi obs sig theta, src_nestle_loglike_nan, src_chisq]

/-- … and when the forward model raises `InvalidModelException`: NaN -/
theorem src_loglike_chain_invalid (pi : α) (obs sig : List α) (theta m wn : List (Option α)) :
    Gen.SrcC06.nestle_loglike (α := Option α) theta (obs.map some) (sig.map some) (c0p5 := some (1 / 2)) (pi := some pi)
        (chisq_trans := fun _ _ std => Gen.SrcC06.chisq_trans (α := Option α) (datastd := std) (final_model := m)
          (isnan := Option.isNone) (np_nan := none) (raised_InvalidModelException := true) (spectrum := obs.map some)
          (wavenumberGrid := wn))
      = none := by
  rw [src_nestle_loglike_nan]
  rfl

/-! ## the prior callbacks -/

/-- `nestle_uniform_prior(theta)` = `tuple(prior.sample(theta[idx]) for idx, prior in enumerate(fitting_priors))` -/
theorem src_nestle_prior (priors : List (Prior α)) (theta : List α) (h : priors.length = theta.length) :
    Gen.SrcC06.nestle_uniform_prior theta priors (sample := fun p u => p.sample u) = priorTransform priors theta := by
  unfold Gen.SrcC06.nestle_uniform_prior priorTransform
  have := enum_append (fun (p : Prior α) u => p.sample u) priors theta 0 [] (by omega)
  simpa using this

/-- `multinest_uniform_prior(cube, ndim, nparams)` overwrites the first `len(fitting_priors)` cube entries in place -/
theorem src_multinest_prior (priors : List (Prior α)) (cube : List α) (h : priors.length ≤ cube.length) :
    Gen.SrcC06.multinest_uniform_prior cube priors (sample := fun p u => p.sample u)
      = priorTransform priors cube ++ cube.drop priors.length := by
  unfold Gen.SrcC06.multinest_uniform_prior priorTransform
  have := enum_set (fun (p : Prior α) u => p.sample u) priors (fun c i => c.getD i 0) [] cube cube h h (by
    intro pre' i hp hi
    have hi' : i < cube.length := by omega
    simp only [List.length_nil, Nat.zero_add] at hp ⊢
    simp [List.getD, ← hp, List.getElem?_append_right])
  simpa using this

/-- `polychord_uniform_prior(hypercube)` fills `[0.0]*ndim`, `ndim = len(fitting_parameters)` -/
theorem src_polychord_prior {ρ : Type} (params : List ρ) (priors : List (Prior α)) (hyper : List α)
    (hp : params.length = priors.length) (h : priors.length = hyper.length) :
    Gen.SrcC06.polychord_uniform_prior hyper params priors (sample := fun p u => p.sample u)
      = priorTransform priors hyper := by
  unfold Gen.SrcC06.polychord_uniform_prior priorTransform
  have := enum_set (fun (p : Prior α) u => p.sample u) priors (fun _ i => hyper.getD i 0) []
    (List.replicate params.length 0) hyper (by simp [hp]) (by omega) (by
    intro pre' i _ _
    simp)
  simpa [hp] using this

/-! ## update_model -/

/-- `update_model(fit_params)`: one write per fitted parameter, through component 3 (`fset`) of its tuple, of
    `prior.prior(value)` with the prior and the value at the same position; `none` (ValueError) on a length mismatch -/
theorem src_update_model_log {ρ : Type} (params : List ρ) (priors : List (Prior α)) (vals : List α) :
    Gen.SrcC06.update_model vals params priors (prior := fun p v => p.prior v)
      = if vals.length = params.length
          then some ((List.zip vals (List.zip params priors)).map (fun t => (t.2.1, 3, t.2.2.prior t.1)))
          else none := by
  unfold Gen.SrcC06.update_model
  by_cases h : vals.length = params.length
  · simp only [h, decide_true, Bool.not_true, Bool.false_eq_true, if_false, if_true]
    rw [foldl_append_map (fun (t : α × ρ × Prior α) => (t.2.1, 3, t.2.2.prior t.1))]
    simp
  · simp [h]

/-- the values written, in order, are the model's `updateModel` (`fitting_parameters` and `fitting_priors` are built in
    parallel by `compile_params`: equal lengths) -/
theorem src_update_model {ρ : Type} (params : List ρ) (priors : List (Prior α)) (vals : List α)
    (hp : params.length = priors.length) :
    (Gen.SrcC06.update_model vals params priors (prior := fun p v => p.prior v)).map (List.map (fun e => e.2.2))
      = updateModel priors vals := by
  rw [src_update_model_log, updateModel, hp]
  by_cases h : vals.length = priors.length
  · simp only [h, if_true, Option.map_some, List.map_map]
    congr 1
    induction vals generalizing params priors with
    | nil => cases priors <;> simp at h ⊢
    | cons v vs ih =>
      cases priors with
      | nil => simp at h
      | cons p ps =>
        cases params with
        | nil => simp at hp
        | cons q qs =>
          simp only [List.zip_cons_cons, List.map_cons, List.zipWith_cons_cons, Function.comp]
          congr 1
          exact ih qs ps (by simpa using hp) (by simpa using h)
  · simp [h]

/-- … and each value goes to the parameter at the same position -/
theorem src_update_model_targets {ρ : Type} (params : List ρ) (priors : List (Prior α)) (vals : List α)
    (hp : params.length = priors.length) (hv : vals.length = params.length) :
    (Gen.SrcC06.update_model vals params priors (prior := fun p v => p.prior v)).map (List.map (fun e => (e.1, e.2.1)))
      = some (params.map (fun q => (q, 3))) := by
  rw [src_update_model_log]
  simp only [hv, if_true, Option.map_some, List.map_map]
  congr 1
  induction vals generalizing params priors with
  | nil => cases params <;> simp at hv ⊢
  | cons v vs ih =>
    cases params with
    | nil => simp at hv
    | cons q qs =>
      cases priors with
      | nil => simp at hp
      | cons p ps =>
        simp only [List.zip_cons_cons, List.map_cons, Function.comp]
        congr 1
        exact ih qs ps (by simpa using hp) (by simpa using hv)

end

end Taurex.C06Src
