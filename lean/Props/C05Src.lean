/-
  C05 — source tie.  `TaurexModel/Gen/SrcC05.lean` is regenerated on every run by the list dialect of the source
  translator (`harness/translate_list.py`) from the source text of taurex/util/util.py and taurex/binning/fluxbinner.py
  (`FluxBinner.bindown` once per calling pattern: `grid_width` absent / an array / one number, `error` absent / an array;
  `util.bindown` for 1-D data and — one row, the leading axis lifted — for 2-D data).
  The theorems below state, for EVERY carrier (no algebra is used), that each regenerated definition computes the
  hand-written model function of `TaurexModel/Binning.lean` that the C05 theorems are about and that `driver_c05`
  executes.  numpy's primitives are the definitions of `TaurexModel/Gen/Prelude.lean` (`Np.*`); the helper lemmas are in
  `Proofs/C05SrcNp.lean`.  A source change that alters one of these functions makes the corresponding theorem fail.

  The arrays the code receives are the columns of the model's rows: `wngrid = rows.map Row.c`, `spectrum = rows.map Row.s`,
  `grid_width = rows.map Row.w`, `error = rows.map Row.e`; the binner's attributes are the columns of the target bins
  (`self._wngrid = targets.map TBin.c`, `self._wngrid_width = targets.map TBin.w`), which is what
  `FluxBinner.__init__` stores (`src_init_*`).
-/
import TaurexModel.Gen.SrcC05
import TaurexModel.Binning
import TaurexModel.Observation
import Proofs.C05SrcNp
set_option linter.unusedSectionVars false
set_option linter.unusedSimpArgs false

namespace Taurex.C05Src
open Taurex.Binning Taurex.Gen

section
variable {α : Type} [Add α] [Sub α] [Mul α] [Div α] [Neg α] [LT α] [LE α]
  [DecidableLT α] [DecidableLE α] [Taurex.Transc α] [OfNat α 0] [OfNat α 1] [OfNat α 2] [OfNat α 10000]

/-- `compute_bin_edges(wngrid)` is `computeBinEdges` (edges and widths) -/
theorem src_compute_bin_edges (g : List α) : SrcC05.compute_bin_edges g = computeBinEdges g := by
  simp only [SrcC05.compute_bin_edges, Np.midEdges_eq]
  simp only [Np.diff_eq]
  rfl

/-- **`FluxBinner.bindown(wngrid, spectrum, grid_width=<array>)`**: the binned spectrum (second component of the returned
    tuple) is `fluxBindown true`: argsort + fancy indexing is the model's `sortBy`, the loop is the map of `fluxBinVal`
    over the target bins (skipped bins keep the initial 0). -/
theorem src_bindown_widths (rows : List (Row α)) (targets : List (TBin α)) :
    (SrcC05.fluxbinner_bindown_w (rows.map Row.c) (rows.map Row.s) (rows.map Row.w)
        (targets.map TBin.c) (targets.map TBin.w)).2.1 = fluxBindown true Row.s rows targets := by
  simp only [SrcC05.fluxbinner_bindown_w, Np.take_argsort, fluxBindown, nativeBins, if_true]
  generalize sortBy Row.c rows = R
  bindown_loop α, R, (fun st : Nat × Nat × List α => st.2.2), (fun a b => fluxBinVal Row.s R a b)

/-- **`FluxBinner.bindown(wngrid, spectrum)`** (no `grid_width`: the widths are `compute_bin_edges(sorted wngrid)[-1]`) is
    `fluxBindown false` -/
theorem src_bindown_midpoint (rows : List (Row α)) (targets : List (TBin α)) :
    (SrcC05.fluxbinner_bindown (rows.map Row.c) (rows.map Row.s)
        (targets.map TBin.c) (targets.map TBin.w)).2.1 = fluxBindown false Row.s rows targets := by
  simp only [SrcC05.fluxbinner_bindown, Np.take_argsort, src_compute_bin_edges, fluxBindown, nativeBins,
    Bool.false_eq_true, if_false]
  generalize sortBy Row.c rows = R
  have hlen := Np.length_widths (R.map Row.c)
  rw [List.length_map] at hlen
  generalize (computeBinEdges (R.map Row.c)).2 = ws at hlen ⊢
  simp only [Np.zip2_withWidths _ _ R ws hlen]
  rw [← Np.withWidths_map Row.s (fun _ _ => rfl) R ws (by omega)]
  generalize withWidths R ws = R'
  bindown_loop α, R', (fun st : Nat × Nat × List α => st.2.2), (fun a b => fluxBinVal Row.s R' a b)

/-- `FluxBinner.bindown(wngrid, spectrum, grid_width=<array>, error=<array>)`: the binned spectrum -/
theorem src_bindown_widths_err_spectrum (rows : List (Row α)) (targets : List (TBin α)) :
    (SrcC05.fluxbinner_bindown_we (rows.map Row.c) (rows.map Row.s) (rows.map Row.w) (rows.map Row.e)
        (targets.map TBin.c) (targets.map TBin.w)).2.1 = fluxBindown true Row.s rows targets := by
  simp only [SrcC05.fluxbinner_bindown_we, Np.take_argsort, fluxBindown, nativeBins, if_true]
  generalize sortBy Row.c rows = R
  bindown_loop α, R, (fun st : Nat × Nat × List α × List α => st.2.2.1), (fun a b => fluxBinVal Row.s R a b)

/-- **`FluxBinner.bindown(wngrid, spectrum, grid_width=<array>, error=<array>)`: the binned error** (third component) is
    `fluxBindownErr true` (`sqrt(Σ w²·e² / Σw / Σw)` over the same window) -/
theorem src_bindown_widths_err (rows : List (Row α)) (targets : List (TBin α)) :
    (SrcC05.fluxbinner_bindown_we (rows.map Row.c) (rows.map Row.s) (rows.map Row.w) (rows.map Row.e)
        (targets.map TBin.c) (targets.map TBin.w)).2.2.1 = fluxBindownErr true Row.e rows targets := by
  simp only [SrcC05.fluxbinner_bindown_we, Np.take_argsort, fluxBindownErr, nativeBins, if_true]
  generalize sortBy Row.c rows = R
  bindown_loop α, R, (fun st : Nat × Nat × List α × List α => st.2.2.2), (fun a b => fluxBinErr Row.e R a b)

/-- `FluxBinner.bindown(wngrid, spectrum, error=<array>)` (mid-point widths): the binned spectrum -/
theorem src_bindown_midpoint_err_spectrum (rows : List (Row α)) (targets : List (TBin α)) :
    (SrcC05.fluxbinner_bindown_e (rows.map Row.c) (rows.map Row.s) (rows.map Row.e)
        (targets.map TBin.c) (targets.map TBin.w)).2.1 = fluxBindown false Row.s rows targets := by
  simp only [SrcC05.fluxbinner_bindown_e, Np.take_argsort, src_compute_bin_edges, fluxBindown, nativeBins,
    Bool.false_eq_true, if_false]
  generalize sortBy Row.c rows = R
  have hlen := Np.length_widths (R.map Row.c)
  rw [List.length_map] at hlen
  generalize (computeBinEdges (R.map Row.c)).2 = ws at hlen ⊢
  simp only [Np.zip2_withWidths _ _ R ws hlen]
  rw [← Np.withWidths_map Row.s (fun _ _ => rfl) R ws (by omega),
    ← Np.withWidths_map Row.e (fun _ _ => rfl) R ws (by omega)]
  generalize withWidths R ws = R'
  bindown_loop α, R', (fun st : Nat × Nat × List α × List α => st.2.2.1), (fun a b => fluxBinVal Row.s R' a b)

/-- `FluxBinner.bindown(wngrid, spectrum, error=<array>)` (mid-point widths): the binned error is `fluxBindownErr false` -/
theorem src_bindown_midpoint_err (rows : List (Row α)) (targets : List (TBin α)) :
    (SrcC05.fluxbinner_bindown_e (rows.map Row.c) (rows.map Row.s) (rows.map Row.e)
        (targets.map TBin.c) (targets.map TBin.w)).2.2.1 = fluxBindownErr false Row.e rows targets := by
  simp only [SrcC05.fluxbinner_bindown_e, Np.take_argsort, src_compute_bin_edges, fluxBindownErr, nativeBins,
    Bool.false_eq_true, if_false]
  generalize sortBy Row.c rows = R
  have hlen := Np.length_widths (R.map Row.c)
  rw [List.length_map] at hlen
  generalize (computeBinEdges (R.map Row.c)).2 = ws at hlen ⊢
  simp only [Np.zip2_withWidths _ _ R ws hlen]
  rw [← Np.withWidths_map Row.s (fun _ _ => rfl) R ws (by omega),
    ← Np.withWidths_map Row.e (fun _ _ => rfl) R ws (by omega)]
  generalize withWidths R ws = R'
  bindown_loop α, R', (fun st : Nat × Nat × List α × List α => st.2.2.2), (fun a b => fluxBinErr Row.e R' a b)

/-- `FluxBinner.bindown` returns the binner's own grid and widths next to the binned values -/
theorem src_bindown_grid (rows : List (Row α)) (targets : List (TBin α)) :
    (SrcC05.fluxbinner_bindown (rows.map Row.c) (rows.map Row.s) (targets.map TBin.c) (targets.map TBin.w)).1
        = targets.map TBin.c ∧
    (SrcC05.fluxbinner_bindown (rows.map Row.c) (rows.map Row.s) (targets.map TBin.c) (targets.map TBin.w)).2.2.2
        = targets.map TBin.w := ⟨rfl, rfl⟩

/-- **`FluxBinner.__init__(wngrid, wngrid_width=<array>)`** stores the columns of `targetBins .array`: grid and widths
    permuted together by the argsort of the grid (the length test of the code passes: both are columns of `ts`). -/
theorem src_init_array (ts : List (TBin α)) :
    SrcC05.fluxbinner_init_array (ts.map TBin.c) (ts.map TBin.w)
      = ((targetBins WidthMode.array ts).map TBin.c, (targetBins WidthMode.array ts).map TBin.w) := by
  simp [SrcC05.fluxbinner_init_array, Np.take_argsort, targetBins, Np.length_sortBy]

/-- `FluxBinner.__init__(wngrid, wngrid_width=<number>)`: `np.ones_like(grid) * width`.  The model stores the number
    itself, the code `1 * width`: the only algebraic fact used is `h1 : 1 * x = x` (true on ℝ and on floats). -/
theorem src_init_scalar (h1 : ∀ x : α, 1 * x = x) (ts : List (TBin α)) (w : α) :
    SrcC05.fluxbinner_init_scalar (ts.map TBin.c) w
      = ((targetBins (WidthMode.scalar w) ts).map TBin.c, (targetBins (WidthMode.scalar w) ts).map TBin.w) := by
  simp only [SrcC05.fluxbinner_init_scalar, Np.take_argsort, targetBins, List.map_map, Function.comp_def, h1]

/-- `FluxBinner.__init__(wngrid)` (no widths): mid-point widths of the sorted grid.  Guard: a non-empty grid (on an empty
    one `compute_bin_edges` raises IndexError). -/
theorem src_init_none (ts : List (TBin α)) (hne : ts ≠ []) :
    SrcC05.fluxbinner_init_none (ts.map TBin.c)
      = ((targetBins WidthMode.none ts).map TBin.c, (targetBins WidthMode.none ts).map TBin.w) := by
  simp only [SrcC05.fluxbinner_init_none, Np.take_argsort, src_compute_bin_edges, targetBins]
  have hl : (sortBy TBin.c ts).length = ts.length := Np.length_sortBy _ _
  have hpos : 0 < ts.length := List.length_pos_iff.2 hne
  have hlen := Np.length_widths ((sortBy TBin.c ts).map TBin.c)
  rw [List.length_map, hl] at hlen
  rw [Np.zipWith_tbin_c _ _ (by omega), Np.zipWith_tbin_w _ _ (by omega)]

/-- **`util.bindown(original_bin, original_data, new_bin)`** on 1-D data is `histMean1`: the edge array assembled by the
    element and slice stores is `histEdges`, and the quotient of the two `np.histogram` calls is the per-bin mean.
    `np.histogram` is an external: it is instantiated with its documented behaviour (`npHistogram`, `npHistogramW` in
    `Proofs/C05SrcNp.lean`: per-bin count / weighted sum over `[e_i, e_{i+1})`, last bin closed — the ASSUMPTION the harness
    validates numerically).  Guard: `new_bin` not empty (IndexError otherwise). -/
theorem src_util_bindown (rows : List (Row α)) (nb : List α) (hne : nb ≠ []) :
    SrcC05.util_bindown (rows.map Row.c) (rows.map Row.s) nb npHistogram npHistogramW = histMean1 Row.s rows nb := by
  have hn : 1 ≤ nb.length := List.length_pos_iff.2 hne
  simp only [SrcC05.util_bindown, List.length_set, List.length_replicate, Nat.add_sub_cancel, midPts_eq]
  have hget0 : ∀ (l : List α) (x : α), 0 < l.length → (l.set 0 x).getD 0 0 = x := by
    intro l x h; cases l with
    | nil => simp at h
    | cons y t => rfl
  have hgetn : ∀ (l : List α) (x : α), nb.length < l.length → (l.set nb.length x).getD nb.length 0 = x := by
    intro l x h
    simp [List.getD, h]
  rw [hget0 _ _ (by simp), hgetn _ _ (by simp)]
  rw [edges_assembled nb.length hn _ _ _ _ _ _ (length_midPts nb)]
  simp only [npHistogram, npHistogramW, Np.zip2_map_map, histMean1, histEdges, meanOf, List.zip_map', List.filter_map,
    List.map_map, Function.comp_def]

/-- `SimpleBinner.bindown(wngrid, spectrum)` returns its own grid, `util.bindown` of the spectrum, `None`, its widths -/
theorem src_simplebinner_bindown (rows : List (Row α)) (nb tw : List α) (hne : nb ≠ []) :
    SrcC05.simplebinner_bindown (rows.map Row.c) (rows.map Row.s) npHistogram npHistogramW (u_wn_width := tw)
        (u_wngrid := nb) = (nb, histMean1 Row.s rows nb, (), tw) := by
  simp only [SrcC05.simplebinner_bindown, src_util_bindown rows nb hne]

/-- `SimpleBinner.__init__`: the grid as given (not sorted) and the given or mid-point widths -/
theorem src_simplebinner_init (g w : List α) :
    SrcC05.simplebinner_init_array g w = (g, w) ∧ SrcC05.simplebinner_init_none g = (g, (computeBinEdges g).2) := by
  refine ⟨rfl, ?_⟩
  simp only [SrcC05.simplebinner_init_none, src_compute_bin_edges]

/-- `NativeBinner.bindown` returns its arguments (`nativeBindown`) -/
theorem src_nativebinner_bindown (wn s w e : List α) :
    SrcC05.nativebinner_bindown wn s w e = nativeBindown (wn, s, e, w) := rfl

/-- `Binner.bin_model(model_output)` = `self.bindown(model_output[0], model_output[1])` (here `FluxBinner.bindown`) -/
theorem src_bin_model (rows : List (Row α)) (targets : List (TBin α)) :
    (SrcC05.bin_model (rows.map Row.c, rows.map Row.s) (targets.map TBin.c) (targets.map TBin.w)).2.1
      = fluxBindown false Row.s rows targets :=
  src_bindown_midpoint rows targets

/-- `wnwidth_to_wlwidth(grid, width) = 10000*width/grid**2` element by element (`Observation.widthConv`, the C17 model).
    Guard: one width per grid point (numpy would broadcast a single width). -/
theorem src_wnwidth_to_wlwidth (g w : List α) (h : g.length = w.length) :
    SrcC05.wnwidth_to_wlwidth g w = List.zipWith Observation.widthConv g w := by
  simp only [SrcC05.wnwidth_to_wlwidth]
  rw [Np.zip2_eq _ _ _ (by simp [h])]
  clear h
  induction g generalizing w with
  | nil => simp
  | cons a t ih =>
    cases w with
    | nil => simp
    | cons b s => simp only [List.map_cons, List.zipWith_cons_cons, ih s]; rfl

/-! ### `FluxBinner.bindown` with one width for all native bins -/

/-- every native bin gets the width `w` -/
def setWidth (w : α) (r : Row α) : Row α := { r with w := w }

/-- **`FluxBinner.bindown(wngrid, spectrum, grid_width=<one number>)`**: `hasattr(grid_width, '__len__')` is False, the width
    is not permuted and broadcasts in `old_spect_wn ± old_spect_width/2` — `fluxBindown true` on the rows with every
    width set to that number -/
theorem src_bindown_scalar (rows : List (Row α)) (w : α) (targets : List (TBin α)) :
    (SrcC05.fluxbinner_bindown_s (rows.map Row.c) (rows.map Row.s) w
        (targets.map TBin.c) (targets.map TBin.w)).2.1 = fluxBindown true Row.s (rows.map (setWidth w)) targets := by
  have hc : rows.map Row.c = (rows.map (setWidth w)).map Row.c := by rw [List.map_map]; rfl
  have hs : rows.map Row.s = (rows.map (setWidth w)).map Row.s := by rw [List.map_map]; rfl
  rw [hc, hs]
  have hw : ∀ r ∈ sortBy Row.c (rows.map (setWidth w)), r.w = w := by
    intro r hr
    obtain ⟨r0, _, rfl⟩ := List.mem_map.1 ((Np.mem_sortBy Row.c r _).1 hr)
    rfl
  simp only [SrcC05.fluxbinner_bindown_s, Np.take_argsort, fluxBindown, nativeBins, if_true]
  generalize sortBy Row.c (rows.map (setWidth w)) = R at hw ⊢
  have hlo : List.map (fun x => x - w / 2) (R.map Row.c) = R.map (fun x : Row α => x.c - x.w / 2) := by
    rw [List.map_map]
    exact List.map_congr_left (fun r hr => by simp only [Function.comp, hw r hr])
  have hhi : List.map (fun x => x + w / 2) (R.map Row.c) = R.map (fun x : Row α => x.c + x.w / 2) := by
    rw [List.map_map]
    exact List.map_congr_left (fun r hr => by simp only [Function.comp, hw r hr])
  rw [hlo, hhi]
  bindown_loop α, R, (fun st : Nat × Nat × List α => st.2.2), (fun a b => fluxBinVal Row.s R a b)

/-- … with `error=<array>`: the binned spectrum -/
theorem src_bindown_scalar_err_spectrum (rows : List (Row α)) (w : α) (targets : List (TBin α)) :
    (SrcC05.fluxbinner_bindown_se (rows.map Row.c) (rows.map Row.s) w (rows.map Row.e)
        (targets.map TBin.c) (targets.map TBin.w)).2.1 = fluxBindown true Row.s (rows.map (setWidth w)) targets := by
  have hc : rows.map Row.c = (rows.map (setWidth w)).map Row.c := by rw [List.map_map]; rfl
  have hs : rows.map Row.s = (rows.map (setWidth w)).map Row.s := by rw [List.map_map]; rfl
  have he : rows.map Row.e = (rows.map (setWidth w)).map Row.e := by rw [List.map_map]; rfl
  rw [hc, hs, he]
  have hw : ∀ r ∈ sortBy Row.c (rows.map (setWidth w)), r.w = w := by
    intro r hr
    obtain ⟨r0, _, rfl⟩ := List.mem_map.1 ((Np.mem_sortBy Row.c r _).1 hr)
    rfl
  simp only [SrcC05.fluxbinner_bindown_se, Np.take_argsort, fluxBindown, nativeBins, if_true]
  generalize sortBy Row.c (rows.map (setWidth w)) = R at hw ⊢
  have hlo : List.map (fun x => x - w / 2) (R.map Row.c) = R.map (fun x : Row α => x.c - x.w / 2) := by
    rw [List.map_map]
    exact List.map_congr_left (fun r hr => by simp only [Function.comp, hw r hr])
  have hhi : List.map (fun x => x + w / 2) (R.map Row.c) = R.map (fun x : Row α => x.c + x.w / 2) := by
    rw [List.map_map]
    exact List.map_congr_left (fun r hr => by simp only [Function.comp, hw r hr])
  rw [hlo, hhi]
  bindown_loop α, R, (fun st : Nat × Nat × List α × List α => st.2.2.1), (fun a b => fluxBinVal Row.s R a b)

/-- … and the binned error, `fluxBindownErr true` on the same rows -/
theorem src_bindown_scalar_err (rows : List (Row α)) (w : α) (targets : List (TBin α)) :
    (SrcC05.fluxbinner_bindown_se (rows.map Row.c) (rows.map Row.s) w (rows.map Row.e)
        (targets.map TBin.c) (targets.map TBin.w)).2.2.1 = fluxBindownErr true Row.e (rows.map (setWidth w)) targets := by
  have hc : rows.map Row.c = (rows.map (setWidth w)).map Row.c := by rw [List.map_map]; rfl
  have hs : rows.map Row.s = (rows.map (setWidth w)).map Row.s := by rw [List.map_map]; rfl
  have he : rows.map Row.e = (rows.map (setWidth w)).map Row.e := by rw [List.map_map]; rfl
  rw [hc, hs, he]
  have hw : ∀ r ∈ sortBy Row.c (rows.map (setWidth w)), r.w = w := by
    intro r hr
    obtain ⟨r0, _, rfl⟩ := List.mem_map.1 ((Np.mem_sortBy Row.c r _).1 hr)
    rfl
  simp only [SrcC05.fluxbinner_bindown_se, Np.take_argsort, fluxBindownErr, nativeBins, if_true]
  generalize sortBy Row.c (rows.map (setWidth w)) = R at hw ⊢
  have hlo : List.map (fun x => x - w / 2) (R.map Row.c) = R.map (fun x : Row α => x.c - x.w / 2) := by
    rw [List.map_map]
    exact List.map_congr_left (fun r hr => by simp only [Function.comp, hw r hr])
  have hhi : List.map (fun x => x + w / 2) (R.map Row.c) = R.map (fun x : Row α => x.c + x.w / 2) := by
    rw [List.map_map]
    exact List.map_congr_left (fun r hr => by simp only [Function.comp, hw r hr])
  rw [hlo, hhi]
  bindown_loop α, R, (fun st : Nat × Nat × List α × List α => st.2.2.2), (fun a b => fluxBinErr Row.e R a b)

/-! ### `util.bindown` on N-D data: the `np.digitize` path -/

/-- `np.digitize(x, bins, right)` for increasing `bins`: numpy evaluates it as `np.searchsorted(bins, x, side='left')`
    (`right=True`: the index `i` with `bins[i-1] < x <= bins[i]`) resp. `side='right'` — the number of edges below (not
    above) each point -/
def npDigitize (x edges : List α) (right : Bool) : List Nat :=
  x.map (fun v => if right then Np.searchsortedLeft edges v else Np.searchsortedRight edges v)

theorem compress_map_map {β γ : Type} (f : β → γ) (p : β → Bool) (l : List β) :
    Np.compress (l.map f) (l.map p) = (l.filter p).map f := by
  induction l with
  | nil => rfl
  | cons x t ih =>
    simp only [Np.compress, List.map_cons, List.zip_cons_cons, List.filterMap_cons, List.filter_cons] at ih ⊢
    cases hp : p x <;> simp [hp, ih]

theorem length_histEdges (nb : List α) (hne : nb ≠ []) : (histEdges nb).length = nb.length + 1 := by
  have hn : 1 ≤ nb.length := List.length_pos_iff.2 hne
  simp only [histEdges, List.length_cons, List.length_append, length_midPts, List.length_cons, List.length_nil]
  omega

/-- **`util.bindown(original_bin, original_data, new_bin)` on 2-D data** (the `np.digitize` path; one row of the data, the
    leading axis lifted), in the form the code computes it: for every bin index `i = 1 … len(new_bin)` the mean
    (`Binning.meanOf`: sum / count) of the native points whose `np.digitize` index is `i`.  `np.digitize(…, right=True)` is an
    external, instantiated with numpy's evaluation for increasing edges (`npDigitize`: the number of edges below the
    point) — the ASSUMPTION the harness validates.  `Props/C05SrcProps.lean` turns this into the model's `histMeanN` (for
    increasing edges, over ℝ: `srcHistN_eq`).  Guard: `new_bin` not empty. -/
theorem src_util_bindown_nd (rows : List (Row α)) (nb : List α) (hne : nb ≠ []) :
    SrcC05.util_bindown_nd (rows.map Row.c) (rows.map Row.s) nb npDigitize
      = (List.range' 1 nb.length).map (fun i => meanOf Row.s (rows.filter (fun r =>
          decide ((histEdges nb).countP (fun e => decide (e < r.c)) = i)))) := by
  have hn : 1 ≤ nb.length := List.length_pos_iff.2 hne
  simp only [SrcC05.util_bindown_nd, List.length_set, List.length_replicate, Nat.add_sub_cancel, midPts_eq]
  have hget0 : ∀ (l : List α) (x : α), 0 < l.length → (l.set 0 x).getD 0 0 = x := by
    intro l x h; cases l with
    | nil => simp at h
    | cons y t => rfl
  have hgetn : ∀ (l : List α) (x : α), nb.length < l.length → (l.set nb.length x).getD nb.length 0 = x := by
    intro l x h
    simp [List.getD, h]
  rw [hget0 _ _ (by simp), hgetn _ _ (by simp)]
  rw [edges_assembled nb.length hn _ _ _ _ _ _ (length_midPts nb)]
  have hE : (nb.getD 0 0 - (nb.getD 1 0 - nb.getD 0 0) / 2) ::
      (midPts nb ++ [nb.getD (nb.length - 1) 0 + (nb.getD (nb.length - 1) 0 - nb.getD (nb.length - 2) 0) / 2])
      = histEdges nb := rfl
  rw [hE, length_histEdges nb hne, Nat.add_sub_cancel]
  apply List.map_congr_left
  intro i _
  simp only [npDigitize, if_true, List.map_map, Np.searchsortedLeft]
  rw [compress_map_map Row.s _ rows]
  simp only [Np.mean, meanOf, Np.sum, sumL, List.map_map, Function.comp_def]

end
end Taurex.C05Src
