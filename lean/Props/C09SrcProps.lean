/-
  C09 — the property theorems restated about the REGENERATED source.  `Props/C09Src.lean` proves that the definitions
  translated on every run from `taurex/util/util.py:quantile_corner` and from one iteration of the per-parameter loops of
  `store_nestle_output`, `store_nest_solutions`, `store_polychord_solutions`, `compute_derived_trace` equal the model's
  `quantileCorner`, `summary`, `column`, `gather`/`restoreOrder`; `Props/C09.lean` proves the property about those.  The
  corollaries below compose the two: statements about the text of the code as it is now, over ℝ.

  Source expressions (instantiated exactly as the tie theorems instantiate them: `np.add.accumulate = cumsum 0`,
  `np.argsort = argsortStable`, `np.interp = interpAll`, literals `0.16 0.5 0.84 = q16 q50 q84`, `weights.argmax() =
  argmaxFirst weights`, `np.average = wmean`):
  * `srcQuantile x w q`   — the one entry of `quantile_corner(x, [q], weights=w)`;
  * `srcNestle samples w mean i` — the record `(map, mean, sigma_m, sigma_p, trace, value)` stored for parameter `i` by
    `store_nestle_output`; `srcMultinest`, `srcPolychord` — the records `(…, sigma_m, sigma_p, trace, value)` of the other
    two samplers; `srcDerived trace w restore gt gw` — the record `(mean, sigma_m, sigma_p, trace, value)` of
    `compute_derived_trace`.
  Guards of the ties that stay visible: equal lengths of samples and weights (numpy raises otherwise; the translation is
  total), `hmean` (nestle's `mean_and_cov` is external: its entry `i` is assumed to be the weighted mean of column `i`),
  valid positions in `restore`.

  * `srcNestleStore names samples w mean logz logzerr pk` — the dict returned by the WHOLE `store_nestle_output` (flat
    record `(Stats/Log-Evidence, Stats/Log-Evidence-Error, Stats/Peakiness, solution/fitparams, solution/samples,
    solution/weights)`, `fitparams` = the list of its (fit name, record) stores), `weights.argmax()` instantiated with
    numpy's first index of the maximum (`argmaxFirst`); `srcMultinestMode`, `srcPolychordMode` — the dict
    `(fit_params, tracedata, weights)` the other two samplers store for one mode.
  `map_is_heaviest` is restated as `src_map_is_heaviest` (the `map` entries of the whole regenerated function are read
  at the first sample of greatest weight), `traces_unchanged` in full as `src_store_traces_unchanged` (nestle) and its
  `tracedata / weights / trace` parts as `src_mode_traces_unchanged` (MultiNest / PolyChord: their MAP is the sampler's
  own vector, passed through).

  * `srcNestStoreSingle`, `srcNestStoreModes`, `srcPolyStore` — the dict `solutions` the regenerated WHOLE
    `store_nest_solutions` (both calling patterns) / `store_polychord_solutions` return: the file-reading prefix
    (dialect `seq`: `np.loadtxt` tables, the lines of `post_separate.dat` with the two-empty-lines mode separator, the
    per-mode arrays), the loop over the modes with its keys `'solution{}'.format(nmode)`, the per-parameter loop and
    `quantile_corner`; the sampler's own statistics are pass-through inputs.  `chain_files_unchanged` (Props/C09.lean) and
    `traces_unchanged` are restated about them: `src_nest_store_single_unchanged`, `src_nest_store_modes_unchanged` (for a
    `post_separate.dat` in MultiNest's layout), `src_poly_store_unchanged`.

  Not restated (no tie):
  * `wmean_between` for the nestle record: its mean is the external `mean_and_cov` (hypothesis `hmean`); restated for the
    derived record, where `np.average` is instantiated by `wmean`;
  * `derived_trace_in_sample_order`, parts about `derivedTrace` (the generator closure that evaluates the model per sample
    is not translated) — the re-ordering part is restated.
-/
import Props.C09
import Props.C09Src
set_option linter.unusedSectionVars false

namespace Taurex.C09SrcProps
open Taurex.Posterior Taurex.C09 Taurex.C09Src

/-! ### the instantiated source expressions -/

/-- the single entry of `quantile_corner(x, [q], weights=w)`, regenerated source -/
noncomputable def srcQuantile (x w : List ℝ) (q : ℝ) : ℝ :=
  (Gen.SrcC09.quantile_corner x [q] w (accumulate := cumsum 0) (argsort := argsortStable)
    (interp := interpAll)).getD 0 0

/-- the record `store_nestle_output` stores for fitted parameter `i`: `(map, mean, sigma_m, sigma_p, trace, value)` -/
noncomputable def srcNestle (samples : List (List ℝ)) (w mean : List ℝ) (i : Nat) : ℝ × ℝ × ℝ × ℝ × List ℝ × ℝ :=
  Gen.SrcC09.nestle_param i samples w mean (argmaxFirst w) (accumulate := cumsum 0) (argsort := argsortStable)
    (c0p16 := q16) (c0p5 := q50) (c0p84 := q84) (interp := interpAll)

/-- the record `store_nest_solutions` stores: `(mean, nest_map, nest_sigma, sigma_m, sigma_p, trace, value)` -/
noncomputable def srcMultinest (trace : List (List ℝ)) (w nmap nmean nsig : List ℝ) (i : Nat) :
    ℝ × ℝ × ℝ × ℝ × ℝ × List ℝ × ℝ :=
  Gen.SrcC09.multinest_param i (accumulate := cumsum 0) (argsort := argsortStable) (c0p16 := q16) (c0p5 := q50)
    (c0p84 := q84) (interp := interpAll) (nest_map := nmap) (nest_mean := nmean) (nest_sigma := nsig)
    (tracedata := trace) (weights := w)

/-- the record `store_polychord_solutions` stores: `(nest_map, nest_mean, nest_sigma, sigma_m, sigma_p, trace, value)` -/
noncomputable def srcPolychord (trace : List (List ℝ)) (w nmap nmean nsig : List ℝ) (i : Nat) :
    ℝ × ℝ × ℝ × ℝ × ℝ × List ℝ × ℝ :=
  Gen.SrcC09.polychord_param i (accumulate := cumsum 0) (argsort := argsortStable) (c0p16 := q16) (c0p5 := q50)
    (c0p84 := q84) (interp := interpAll) (nest_map := nmap) (nest_mean := nmean) (nest_sigma := nsig)
    (tracedata := trace) (weights := w)

/-- the record `compute_derived_trace` stores for one derived parameter: `(mean, sigma_m, sigma_p, trace, value)`;
    `gt`/`gw` the gathered trace and weights, `restore` the index array putting them back into sample order -/
noncomputable def srcDerived (trace w : List ℝ) (restore : List Nat) (gt gw : List ℝ) : ℝ × ℝ × ℝ × List ℝ × ℝ :=
  Gen.SrcC09.derived_param trace w restore (accumulate := cumsum 0) (argsort := argsortStable) (average := wmean)
    (c0p16 := q16) (c0p5 := q50) (c0p84 := q84) (gathered_trace := gt) (gathered_w := gw) (interp := interpAll)

theorem srcQuantile_eq (x w : List ℝ) (q : ℝ) (h : x.length = w.length) :
    srcQuantile x w q = quantileCorner x w q := by
  unfold srcQuantile
  rw [src_quantile_corner x w [q] h]
  rfl

theorem srcNestle_eq (samples : List (List ℝ)) (w mean : List ℝ) (i : Nat) (h : samples.length = w.length)
    (hmean : mean.getD i 0 = wmean (column samples i) w) :
    srcNestle samples w mean i
      = ((column samples i).getD (argmaxFirst w) 0, (summary (column samples i) w).mean,
         (summary (column samples i) w).sigmaM, (summary (column samples i) w).sigmaP, column samples i,
         (summary (column samples i) w).value) := src_nestle_param samples w mean i h hmean

theorem srcMultinest_eq (trace : List (List ℝ)) (w nmap nmean nsig : List ℝ) (i : Nat) (h : trace.length = w.length) :
    srcMultinest trace w nmap nmean nsig i
      = (nmean.getD i 0, nmap.getD i 0, nsig.getD i 0, (summary (column trace i) w).sigmaM,
         (summary (column trace i) w).sigmaP, column trace i, (summary (column trace i) w).value) :=
  src_multinest_param trace w nmap nmean nsig i h

theorem srcPolychord_eq (trace : List (List ℝ)) (w nmap nmean nsig : List ℝ) (i : Nat) (h : trace.length = w.length) :
    srcPolychord trace w nmap nmean nsig i
      = (nmap.getD i 0, nmean.getD i 0, nsig.getD i 0, (summary (column trace i) w).sigmaM,
         (summary (column trace i) w).sigmaP, column trace i, (summary (column trace i) w).value) :=
  src_polychord_param trace w nmap nmean nsig i h

theorem srcDerived_eq (trace w : List ℝ) (restore : List Nat) (gt gw : List ℝ)
    (ht : ∀ j ∈ restore, j < gt.length) (hw : ∀ j ∈ restore, j < gw.length) :
    srcDerived trace w restore gt gw
      = ((summary (gather restore gt) (gather restore gw)).mean, (summary (gather restore gt) (gather restore gw)).sigmaM,
         (summary (gather restore gt) (gather restore gw)).sigmaP, gather restore gt,
         (summary (gather restore gt) (gather restore gw)).value) := src_derived_param gt gw trace w restore ht hw

/-- the restored trace and weights have the same length (both are indexed by `restore` at valid positions) -/
theorem gather_length_eq (restore : List Nat) (gt gw : List ℝ)
    (ht : ∀ j ∈ restore, j < gt.length) (hw : ∀ j ∈ restore, j < gw.length) :
    (gather restore gt).length = (gather restore gw).length := by
  rw [← map_getD_eq_gather gt restore ht, ← map_getD_eq_gather gw restore hw, List.length_map, List.length_map]

/-! ### the weighted quantile -/

/-- every weighted quantile lies between the smallest and the largest sample, about the regenerated `quantile_corner` -/
theorem src_quantile_between (x w : List ℝ) (q lo hi : ℝ) (hlen : x.length = w.length) (hne : x ≠ [])
    (hw : ∀ b ∈ w, 0 ≤ b) (htot : 0 < w.sum) (hlo : ∀ a ∈ x, lo ≤ a) (hhi : ∀ a ∈ x, a ≤ hi) :
    lo ≤ srcQuantile x w q ∧ srcQuantile x w q ≤ hi := by
  rw [srcQuantile_eq x w q hlen]; exact quantile_between x w q lo hi hlen hne hw htot hlo hhi

/-- the quantile is non-decreasing in `q`, about the regenerated `quantile_corner` -/
theorem src_quantile_mono_q (x w : List ℝ) (q q' : ℝ) (hlen : x.length = w.length)
    (hw : ∀ b ∈ w, 0 ≤ b) (htot : 0 < w.sum) (hq : q ≤ q') :
    srcQuantile x w q ≤ srcQuantile x w q' := by
  rw [srcQuantile_eq x w q hlen, srcQuantile_eq x w q' hlen]; exact quantile_mono_q x w q q' hlen hw htot hq

/-- with strictly positive weights the quantile at each cumulative weight fraction is exactly the corresponding sorted
    sample, about the regenerated `quantile_corner` -/
theorem src_quantile_at_node (x w : List ℝ) (hlen : x.length = w.length) (hw : ∀ b ∈ w, 0 < b) :
    ∀ p ∈ nodes x w, srcQuantile x w p.1 = p.2 := by
  intro p hp
  rw [srcQuantile_eq x w p.1 hlen]; exact quantile_at_node x w hw p hp

/-- between two consecutive nodes the regenerated `quantile_corner` is the linear interpolant, left of the first node
    the smallest sample, from the last node on the largest (`nodes x w` = (cumulative weight fraction, value) of the
    samples sorted by value) -/
theorem src_quantile_is_interp (x w : List ℝ) (hlen : x.length = w.length) (q : ℝ) (pre post : List (ℝ × ℝ))
    (a b : ℝ × ℝ) (ps : List (ℝ × ℝ)) :
    (nodes x w = pre ++ a :: b :: post → AbsSorted (nodes x w) → a.1 ≤ q → q < b.1 →
      srcQuantile x w q = if a.1 < q then ((b.2 - a.2) / (b.1 - a.1)) * (q - a.1) + a.2 else a.2) ∧
    (nodes x w = a :: ps → AbsSorted (nodes x w) → q < a.1 → srcQuantile x w q = a.2) ∧
    (∀ hne : nodes x w ≠ [], (∀ p ∈ nodes x w, p.1 ≤ q) → srcQuantile x w q = ((nodes x w).getLast hne).2) := by
  rw [srcQuantile_eq x w q hlen, quantileCorner_eq]
  refine ⟨fun hN hs ha hb => ?_, fun hN hs hx => ?_, fun hne hall => ?_⟩
  · rw [hN] at hs ⊢; exact (quantile_is_interp q pre post a b ps).1 hs ha hb
  · rw [hN] at hs ⊢; exact (quantile_is_interp q pre post a b ps).2.1 hs hx
  · exact (quantile_is_interp q pre post a b (nodes x w)).2.2 hne hall

/-- jointly permuting samples and weights changes no quantile when the sample values are distinct, about the
    regenerated `quantile_corner` -/
theorem src_quantile_perm (x w x' w' : List ℝ) (q : ℝ) (hlen : x.length = w.length) (hlen' : x'.length = w'.length)
    (hp : (List.zip x w).Perm (List.zip x' w')) (hd : x.Nodup) :
    srcQuantile x w q = srcQuantile x' w' q := by
  rw [srcQuantile_eq x w q hlen, srcQuantile_eq x' w' q hlen']; exact quantile_perm x w x' w' q hlen hp hd

/-! ### the stored records -/

/-- value / lower error / upper error of the nestle record are the 50 %, 50 − 16 %, 84 − 50 % weighted quantiles of
    the parameter's trace as the regenerated `quantile_corner` computes them, the mean the weighted mean -/
theorem src_nestle_is_quantiles (samples : List (List ℝ)) (w mean : List ℝ) (i : Nat) (h : samples.length = w.length)
    (hmean : mean.getD i 0 = wmean (column samples i) w) :
    (srcNestle samples w mean i).2.2.2.2.2 = srcQuantile (column samples i) w (50 / 100) ∧
    (srcNestle samples w mean i).2.2.1
      = srcQuantile (column samples i) w (50 / 100) - srcQuantile (column samples i) w (16 / 100) ∧
    (srcNestle samples w mean i).2.2.2.1
      = srcQuantile (column samples i) w (84 / 100) - srcQuantile (column samples i) w (50 / 100) ∧
    (srcNestle samples w mean i).2.1 = wmean (column samples i) w := by
  have hl : (column samples i).length = w.length := by rw [column_length]; exact h
  rw [srcNestle_eq samples w mean i h hmean, srcQuantile_eq _ _ _ hl, srcQuantile_eq _ _ _ hl, srcQuantile_eq _ _ _ hl]
  exact summary_is_quantiles (column samples i) w

/-- the same for the MultiNest record (value, sigma_m, sigma_p) -/
theorem src_multinest_is_quantiles (trace : List (List ℝ)) (w nmap nmean nsig : List ℝ) (i : Nat)
    (h : trace.length = w.length) :
    (srcMultinest trace w nmap nmean nsig i).2.2.2.2.2.2 = srcQuantile (column trace i) w (50 / 100) ∧
    (srcMultinest trace w nmap nmean nsig i).2.2.2.1
      = srcQuantile (column trace i) w (50 / 100) - srcQuantile (column trace i) w (16 / 100) ∧
    (srcMultinest trace w nmap nmean nsig i).2.2.2.2.1
      = srcQuantile (column trace i) w (84 / 100) - srcQuantile (column trace i) w (50 / 100) := by
  have hl : (column trace i).length = w.length := by rw [column_length]; exact h
  rw [srcMultinest_eq trace w nmap nmean nsig i h, srcQuantile_eq _ _ _ hl, srcQuantile_eq _ _ _ hl,
    srcQuantile_eq _ _ _ hl]
  obtain ⟨h1, h2, h3, _⟩ := summary_is_quantiles (column trace i) w
  exact ⟨h1, h2, h3⟩

/-- the same for the PolyChord record (value, sigma_m, sigma_p) -/
theorem src_polychord_is_quantiles (trace : List (List ℝ)) (w nmap nmean nsig : List ℝ) (i : Nat)
    (h : trace.length = w.length) :
    (srcPolychord trace w nmap nmean nsig i).2.2.2.2.2.2 = srcQuantile (column trace i) w (50 / 100) ∧
    (srcPolychord trace w nmap nmean nsig i).2.2.2.1
      = srcQuantile (column trace i) w (50 / 100) - srcQuantile (column trace i) w (16 / 100) ∧
    (srcPolychord trace w nmap nmean nsig i).2.2.2.2.1
      = srcQuantile (column trace i) w (84 / 100) - srcQuantile (column trace i) w (50 / 100) := by
  have hl : (column trace i).length = w.length := by rw [column_length]; exact h
  rw [srcPolychord_eq trace w nmap nmean nsig i h, srcQuantile_eq _ _ _ hl, srcQuantile_eq _ _ _ hl,
    srcQuantile_eq _ _ _ hl]
  obtain ⟨h1, h2, h3, _⟩ := summary_is_quantiles (column trace i) w
  exact ⟨h1, h2, h3⟩

/-- the summaries of a derived parameter are computed by the same quantile rule on the restored trace and weights, the
    mean is their weighted mean, about the regenerated loop body of `compute_derived_trace` -/
theorem src_derived_is_quantiles (trace w : List ℝ) (restore : List Nat) (gt gw : List ℝ)
    (ht : ∀ j ∈ restore, j < gt.length) (hw : ∀ j ∈ restore, j < gw.length) :
    (srcDerived trace w restore gt gw).2.2.2.2 = srcQuantile (gather restore gt) (gather restore gw) (50 / 100) ∧
    (srcDerived trace w restore gt gw).2.1
      = srcQuantile (gather restore gt) (gather restore gw) (50 / 100)
        - srcQuantile (gather restore gt) (gather restore gw) (16 / 100) ∧
    (srcDerived trace w restore gt gw).2.2.1
      = srcQuantile (gather restore gt) (gather restore gw) (84 / 100)
        - srcQuantile (gather restore gt) (gather restore gw) (50 / 100) ∧
    (srcDerived trace w restore gt gw).1 = wmean (gather restore gt) (gather restore gw) := by
  have hl := gather_length_eq restore gt gw ht hw
  rw [srcDerived_eq trace w restore gt gw ht hw, srcQuantile_eq _ _ _ hl, srcQuantile_eq _ _ _ hl,
    srcQuantile_eq _ _ _ hl]
  exact summary_is_quantiles _ _

/-- both errors of every stored record are non-negative (weights `≥ 0` with positive sum), regenerated loop bodies of
    the three samplers -/
theorem src_sampler_signs (samples : List (List ℝ)) (w mean nmap nmean nsig : List ℝ) (i : Nat)
    (h : samples.length = w.length) (hmean : mean.getD i 0 = wmean (column samples i) w)
    (hw : ∀ b ∈ w, 0 ≤ b) (htot : 0 < w.sum) :
    (0 ≤ (srcNestle samples w mean i).2.2.1 ∧ 0 ≤ (srcNestle samples w mean i).2.2.2.1) ∧
    (0 ≤ (srcMultinest samples w nmap nmean nsig i).2.2.2.1 ∧ 0 ≤ (srcMultinest samples w nmap nmean nsig i).2.2.2.2.1) ∧
    (0 ≤ (srcPolychord samples w nmap nmean nsig i).2.2.2.1 ∧
      0 ≤ (srcPolychord samples w nmap nmean nsig i).2.2.2.2.1) := by
  have hl : (column samples i).length = w.length := by rw [column_length]; exact h
  rw [srcNestle_eq samples w mean i h hmean, srcMultinest_eq samples w nmap nmean nsig i h,
    srcPolychord_eq samples w nmap nmean nsig i h]
  exact ⟨summary_signs _ w hl hw htot, summary_signs _ w hl hw htot, summary_signs _ w hl hw htot⟩

/-- both errors of a derived parameter are non-negative, regenerated loop body of `compute_derived_trace` -/
theorem src_derived_signs (trace w : List ℝ) (restore : List Nat) (gt gw : List ℝ)
    (ht : ∀ j ∈ restore, j < gt.length) (hw : ∀ j ∈ restore, j < gw.length)
    (hpos : ∀ b ∈ gather restore gw, 0 ≤ b) (htot : 0 < (gather restore gw).sum) :
    0 ≤ (srcDerived trace w restore gt gw).2.1 ∧ 0 ≤ (srcDerived trace w restore gt gw).2.2.1 := by
  rw [srcDerived_eq trace w restore gt gw ht hw]
  exact summary_signs _ _ (gather_length_eq restore gt gw ht hw) hpos htot

/-- the mean stored for a derived parameter lies between the smallest and the largest entry of its trace -/
theorem src_derived_mean_between (trace w : List ℝ) (restore : List Nat) (gt gw : List ℝ) (lo hi : ℝ)
    (ht : ∀ j ∈ restore, j < gt.length) (hw : ∀ j ∈ restore, j < gw.length)
    (hpos : ∀ b ∈ gather restore gw, 0 ≤ b) (htot : 0 < (gather restore gw).sum)
    (hlo : ∀ a ∈ gather restore gt, lo ≤ a) (hhi : ∀ a ∈ gather restore gt, a ≤ hi) :
    lo ≤ (srcDerived trace w restore gt gw).1 ∧ (srcDerived trace w restore gt gw).1 ≤ hi := by
  rw [srcDerived_eq trace w restore gt gw ht hw]
  exact wmean_between _ _ lo hi (gather_length_eq restore gt gw ht hw) hpos htot hlo hhi

/-- what is stored per parameter is the sampler's output unchanged: the `trace` of parameter `i` is column `i` of the
    samples (entry `k` = entry `i` of sample `k`) for all three samplers, and nestle's `map` entry is entry `i` of the
    sample of greatest weight; regenerated loop bodies -/
theorem src_traces_unchanged (samples : List (List ℝ)) (w mean nmap nmean nsig : List ℝ) (i : Nat)
    (h : samples.length = w.length) (hmean : mean.getD i 0 = wmean (column samples i) w) :
    (srcNestle samples w mean i).2.2.2.2.1 = column samples i ∧
    (srcMultinest samples w nmap nmean nsig i).2.2.2.2.2.1 = column samples i ∧
    (srcPolychord samples w nmap nmean nsig i).2.2.2.2.2.1 = column samples i ∧
    (srcNestle samples w mean i).1 = (samples.getD (argmaxFirst w) []).getD i 0 ∧
    (∀ k : Nat, (column samples i)[k]? = (samples[k]?).map (fun (row : List ℝ) => row.getD i 0)) := by
  obtain ⟨_, _, hmap, _, hcol⟩ := traces_unchanged (i + 1) samples w
  rw [srcNestle_eq samples w mean i h hmean, srcMultinest_eq samples w nmap nmean nsig i h,
    srcPolychord_eq samples w nmap nmean nsig i h]
  refine ⟨rfl, rfl, rfl, ?_, hcol i⟩
  show (column samples i).getD (argmaxFirst w) 0 = _
  rw [src_nestle_map samples w (i + 1) i, hmap]

/-- `all_index.argsort()` only holds valid positions of the gathered arrays -/
theorem argsortNat_lt (index : List Nat) : ∀ j ∈ argsortNat index, j < index.length := by
  intro j hj
  unfold argsortNat at hj
  obtain ⟨p, hp, rfl⟩ := List.mem_map.1 hj
  have hz : p ∈ index.zipIdx := (sortKeys_perm _).mem_iff.1 hp
  have := List.mem_zipIdx hz
  simp at this
  exact this.1

/-- A derived trace is stored in sample order for **every** gather order: if entry `k` of the gathered list is the value
    `g` of sample `index[k]` and `index` lists every sample once, the `trace` the regenerated loop body of
    `compute_derived_trace` stores with `restore = all_index.argsort()` is `g 0, g 1, …, g (n-1)`; in one process
    (`index = 0 … n-1`) the gathered trace is stored as it is. -/
theorem src_derived_trace_in_sample_order (trace w : List ℝ) (g : Nat → ℝ) (index : List Nat) (n : Nat)
    (gw : List ℝ) (hgw : gw.length = index.length) (hp : index.Perm (List.range n)) (gt : List ℝ) :
    (srcDerived trace w (argsortNat index) (index.map g) gw).2.2.2.1 = (List.range n).map g ∧
    (gw.length = gt.length →
      (srcDerived trace w (argsortNat (List.range gt.length)) gt gw).2.2.2.1 = gt) := by
  constructor
  · rw [srcDerived_eq trace w (argsortNat index) (index.map g) gw
      (by intro j hj; rw [List.length_map]; exact argsortNat_lt index j hj)
      (by intro j hj; rw [hgw]; exact argsortNat_lt index j hj)]
    show gather (argsortNat index) (index.map g) = _
    rw [src_derived_restore]
    exact (derived_trace_in_sample_order (fun x : ℝ => x) [] g index n hp).2.2.1
  · intro hl
    rw [srcDerived_eq trace w (argsortNat (List.range gt.length)) gt gw
      (by intro j hj; simpa using argsortNat_lt _ j hj)
      (by intro j hj; rw [hl]; simpa using argsortNat_lt _ j hj)]
    show gather (argsortNat (List.range gt.length)) gt = _
    rw [src_derived_restore]
    exact restoreOrder_range gt

/-! ### the whole `store_nestle_output` and the per-mode dicts of MultiNest / PolyChord -/

/-- the dict returned by the WHOLE `store_nestle_output`, regenerated source, as the flat record
    `(Stats/Log-Evidence, Stats/Log-Evidence-Error, Stats/Peakiness, solution/fitparams, solution/samples,
    solution/weights)`; `weights.argmax()` instantiated with numpy's first index of the maximum -/
noncomputable def srcNestleStore {Name : Type} (names : List Name) (samples : List (List ℝ)) (w mean : List ℝ)
    (logz logzerr pk : ℝ) : ℝ × ℝ × ℝ × List (Name × (ℝ × ℝ × ℝ × ℝ × List ℝ × ℝ)) × List (List ℝ) × List ℝ :=
  Gen.SrcC09.nestle_store (accumulate := cumsum 0) (argmax := argmaxFirst) (argsort := argsortStable) (c0p16 := q16)
    (c0p5 := q50) (c0p84 := q84) (fit_names := names) (interp := interpAll) (logz := logz) (logzerr := logzerr)
    (nestle_mean := mean) (peakiness := pk) (result_samples := samples) (result_weights := w)

/-- the dict `store_nest_solutions` stores for one mode: `(fit_params, tracedata, weights)` -/
noncomputable def srcMultinestMode {Name : Type} (names : List Name) (trace : List (List ℝ)) (w nmap nmean nsig : List ℝ) :
    List (Name × (ℝ × ℝ × ℝ × ℝ × ℝ × List ℝ × ℝ)) × List (List ℝ) × List ℝ :=
  Gen.SrcC09.multinest_mode (accumulate := cumsum 0) (argsort := argsortStable) (c0p16 := q16) (c0p5 := q50)
    (c0p84 := q84) (fit_names := names) (interp := interpAll) (nest_map := nmap) (nest_mean := nmean)
    (nest_sigma := nsig) (tracedata := trace) (weights := w)

/-- the dict `store_polychord_solutions` stores for one mode: `(fit_params, tracedata, weights)` -/
noncomputable def srcPolychordMode {Name : Type} (names : List Name) (trace : List (List ℝ)) (w nmap nmean nsig : List ℝ) :
    List (Name × (ℝ × ℝ × ℝ × ℝ × ℝ × List ℝ × ℝ)) × List (List ℝ) × List ℝ :=
  Gen.SrcC09.polychord_mode (accumulate := cumsum 0) (argsort := argsortStable) (c0p16 := q16) (c0p5 := q50)
    (c0p84 := q84) (fit_names := names) (interp := interpAll) (nest_map := nmap) (nest_mean := nmean)
    (nest_sigma := nsig) (tracedata := trace) (weights := w)

theorem srcNestleStore_eq {Name : Type} (names : List Name) (samples : List (List ℝ)) (w mean : List ℝ)
    (logz logzerr pk : ℝ) (h : samples.length = w.length)
    (hmean : ∀ i, i < names.length → mean.getD i 0 = wmean (column samples i) w) :
    srcNestleStore names samples w mean logz logzerr pk
      = (logz, logzerr, pk,
         names.zipIdx.map (fun it => (it.1,
           ((column samples it.2).getD (storeOutput names.length samples w).mapIndex 0,
            (summary (column samples it.2) w).mean, (summary (column samples it.2) w).sigmaM,
            (summary (column samples it.2) w).sigmaP, column samples it.2, (summary (column samples it.2) w).value))),
         (storeOutput names.length samples w).tracedata, (storeOutput names.length samples w).weights) :=
  src_nestle_store names samples w mean logz logzerr pk h hmean

/-- entry `i` of a list built by mapping over `zipIdx` -/
theorem zipIdx_map_getElem? {β γ : Type} (l : List β) (f : β × Nat → γ) (i : Nat) :
    (l.zipIdx.map f)[i]? = (l[i]?).map (fun a => f (a, i)) := by
  simp [Function.comp_def]

/-- The MAP of the WHOLE regenerated `store_nestle_output`, with `weights.argmax()` = numpy's first index of the maximum:
    there is a sample index `k` — a valid index, no weight exceeds the weight there, every earlier weight is smaller: the
    first sample of greatest weight — such that the `map` entry stored for every fit parameter `i` is entry `i` of
    sample `k`. -/
theorem src_map_is_heaviest {Name : Type} (names : List Name) (samples : List (List ℝ)) (w mean : List ℝ)
    (logz logzerr pk : ℝ) (h : samples.length = w.length)
    (hmean : ∀ i, i < names.length → mean.getD i 0 = wmean (column samples i) w) (hne : w ≠ []) :
    ∃ k, k < w.length ∧ (∀ j, j < w.length → w.getD j 0 ≤ w.getD k 0) ∧ (∀ j, j < k → w.getD j 0 < w.getD k 0) ∧
      ∀ i, i < names.length →
        ((srcNestleStore names samples w mean logz logzerr pk).2.2.2.1[i]?).map (fun e => e.2.1)
          = some ((samples.getD k []).getD i 0) := by
  obtain ⟨h1, h2, h3⟩ := map_is_heaviest w hne
  refine ⟨argmaxFirst w, h1, h2, h3, ?_⟩
  intro i hi
  rw [srcNestleStore_eq names samples w mean logz logzerr pk h hmean]
  show ((names.zipIdx.map _)[i]?).map _ = _
  rw [zipIdx_map_getElem?, List.getElem?_eq_getElem hi]
  show some ((column samples i).getD (argmaxFirst w) 0) = _
  rw [src_nestle_map samples w names.length i]
  rfl

/-- the hypotheses are satisfiable: two fit names, three samples with a tie for the greatest weight, `mean` the weighted
    column means -/
example : ∃ (names : List String) (samples : List (List ℝ)) (w mean : List ℝ), samples.length = w.length ∧ w ≠ [] ∧
    (∀ i, i < names.length → mean.getD i 0 = wmean (column samples i) w) :=
  ⟨["T", "R"], [[1, 2], [3, 4], [5, 6]], [1, 3, 3],
    [wmean (column [[1, 2], [3, 4], [5, 6]] 0) [1, 3, 3], wmean (column [[1, 2], [3, 4], [5, 6]] 1) [1, 3, 3]],
    rfl, by simp, by
      intro i hi
      have : i = 0 ∨ i = 1 := by simp at hi; omega
      rcases this with rfl | rfl <;> rfl⟩

theorem srcMultinestMode_eq {Name : Type} (names : List Name) (trace : List (List ℝ)) (w nmap nmean nsig : List ℝ)
    (h : trace.length = w.length) :
    srcMultinestMode names trace w nmap nmean nsig
      = (names.zipIdx.map (fun it => (it.1,
           (nmean.getD it.2 0, nmap.getD it.2 0, nsig.getD it.2 0, (summary (column trace it.2) w).sigmaM,
            (summary (column trace it.2) w).sigmaP, column trace it.2, (summary (column trace it.2) w).value))),
         (storeOutput names.length trace w).tracedata, (storeOutput names.length trace w).weights) :=
  src_multinest_mode names trace w nmap nmean nsig h

theorem srcPolychordMode_eq {Name : Type} (names : List Name) (trace : List (List ℝ)) (w nmap nmean nsig : List ℝ)
    (h : trace.length = w.length) :
    srcPolychordMode names trace w nmap nmean nsig
      = (names.zipIdx.map (fun it => (it.1,
           (nmap.getD it.2 0, nmean.getD it.2 0, nsig.getD it.2 0, (summary (column trace it.2) w).sigmaM,
            (summary (column trace it.2) w).sigmaP, column trace it.2, (summary (column trace it.2) w).value))),
         (storeOutput names.length trace w).tracedata, (storeOutput names.length trace w).weights) :=
  src_polychord_mode names trace w nmap nmean nsig h

/-- the keys of a dict filled by mapping over `zipIdx` are the list itself -/
theorem zipIdx_map_keys {β γ : Type} (l : List β) (f : β × Nat → γ) :
    (l.zipIdx.map (fun it => (it.1, f it))).map Prod.fst = l := by
  rw [List.map_map]
  apply List.ext_getElem?
  intro i
  rw [zipIdx_map_getElem?]
  cases l[i]? <;> rfl

/-- `traces_unchanged` about the WHOLE regenerated `store_nestle_output`: what is stored is the sampler's output
    unchanged — `solution/samples` are the samples, `solution/weights` the weights, `solution/fitparams` has one entry
    per fit name, in order; the entry of parameter `i` holds as `map` entry `i` of the sample of greatest weight, as
    `value / sigma_m / sigma_p / mean` the model's summary of column `i` (the `params[i]` of `storeOutput`), as `trace`
    column `i` of the samples; the MAP vector assembled from the `map` entries is `storeOutput`'s `mapVector` (when the
    sample of greatest weight has one entry per fit name). -/
theorem src_store_traces_unchanged {Name : Type} (names : List Name) (samples : List (List ℝ)) (w mean : List ℝ)
    (logz logzerr pk : ℝ) (h : samples.length = w.length)
    (hmean : ∀ i, i < names.length → mean.getD i 0 = wmean (column samples i) w) :
    (srcNestleStore names samples w mean logz logzerr pk).2.2.2.2.1 = samples ∧
    (srcNestleStore names samples w mean logz logzerr pk).2.2.2.2.2 = w ∧
    (srcNestleStore names samples w mean logz logzerr pk).2.2.2.1.map Prod.fst = names ∧
    (∀ i (hi : i < names.length), (srcNestleStore names samples w mean logz logzerr pk).2.2.2.1[i]? = some (names[i],
        ((samples.getD (argmaxFirst w) []).getD i 0, (summary (column samples i) w).mean,
         (summary (column samples i) w).sigmaM, (summary (column samples i) w).sigmaP, column samples i,
         (summary (column samples i) w).value))) ∧
    (∀ i, i < names.length → (storeOutput names.length samples w).params[i]? = some (summary (column samples i) w)) ∧
    ((samples.getD (argmaxFirst w) []).length = names.length →
      (srcNestleStore names samples w mean logz logzerr pk).2.2.2.1.map (fun e => e.2.1)
        = mapVector (storeOutput names.length samples w)) ∧
    (∀ i k : Nat, (column samples i)[k]? = (samples[k]?).map (fun (row : List ℝ) => row.getD i 0)) := by
  obtain ⟨htr, hwt, hmap, hpar, hcol⟩ := traces_unchanged names.length samples w
  rw [srcNestleStore_eq names samples w mean logz logzerr pk h hmean]
  refine ⟨htr, hwt, zipIdx_map_keys names _, ?_, hpar, ?_, hcol⟩
  · intro i hi
    show (names.zipIdx.map _)[i]? = _
    rw [zipIdx_map_getElem?, List.getElem?_eq_getElem hi]
    show some (names[i], (column samples i).getD (argmaxFirst w) 0, _) = _
    rw [src_nestle_map samples w names.length i, hmap]
  · intro hrow
    show (names.zipIdx.map _).map _ = _
    rw [hmap, List.map_map]
    apply List.ext_getElem?
    intro i
    rw [zipIdx_map_getElem?]
    show (names[i]?).map (fun _ => (column samples i).getD (argmaxFirst w) 0) = _
    rw [src_nestle_map samples w names.length i, hmap]
    by_cases hi : i < names.length
    · rw [List.getElem?_eq_getElem hi, List.getElem?_eq_getElem (by rw [hrow]; exact hi)]
      simp [List.getD, List.getElem?_eq_getElem (show i < (samples[argmaxFirst w]?.getD []).length by
        simpa [List.getD] using (by rw [hrow]; exact hi : i < (samples.getD (argmaxFirst w) []).length))]
    · rw [List.getElem?_eq_none (by omega), List.getElem?_eq_none (by rw [hrow]; omega)]
      rfl

/-- the same for one mode of MultiNest / PolyChord (regenerated iteration of the per-mode loops of `store_nest_solutions`
    / `store_polychord_solutions`): `tracedata` and `weights` of the stored dict are the mode's samples and weights
    unchanged, `fit_params` has one entry per fit name, in order, whose `trace` is column `i` of the samples -/
theorem src_mode_traces_unchanged {Name : Type} (names : List Name) (trace : List (List ℝ)) (w nmap nmean nsig : List ℝ)
    (h : trace.length = w.length) :
    ((srcMultinestMode names trace w nmap nmean nsig).2.1 = trace ∧
     (srcMultinestMode names trace w nmap nmean nsig).2.2 = w ∧
     (srcMultinestMode names trace w nmap nmean nsig).1.map Prod.fst = names ∧
     ∀ i, i < names.length →
       ((srcMultinestMode names trace w nmap nmean nsig).1[i]?).map (fun e => e.2.2.2.2.2.2.1) = some (column trace i)) ∧
    ((srcPolychordMode names trace w nmap nmean nsig).2.1 = trace ∧
     (srcPolychordMode names trace w nmap nmean nsig).2.2 = w ∧
     (srcPolychordMode names trace w nmap nmean nsig).1.map Prod.fst = names ∧
     ∀ i, i < names.length →
       ((srcPolychordMode names trace w nmap nmean nsig).1[i]?).map (fun e => e.2.2.2.2.2.2.1) = some (column trace i)) := by
  obtain ⟨htr, hwt, _⟩ := traces_unchanged names.length trace w
  rw [srcMultinestMode_eq names trace w nmap nmean nsig h, srcPolychordMode_eq names trace w nmap nmean nsig h]
  refine ⟨⟨htr, hwt, zipIdx_map_keys names _, ?_⟩, ⟨htr, hwt, zipIdx_map_keys names _, ?_⟩⟩
  · intro i hi
    show ((names.zipIdx.map _)[i]?).map _ = _
    rw [zipIdx_map_getElem?, List.getElem?_eq_getElem hi]
    rfl
  · intro i hi
    show ((names.zipIdx.map _)[i]?).map _ = _
    rw [zipIdx_map_getElem?, List.getElem?_eq_getElem hi]
    rfl

/-! ### the whole store functions of the MultiNest / PolyChord wrappers, from the chains files to the solutions -/

/-- the dict `solutions` the regenerated WHOLE `store_nest_solutions` returns, `multimodes = False`: `data` is the table
    `np.loadtxt(<base>.txt)`; `nmap k`, `nmean k`, `nsig k` the sampler's own statistics of mode `k` (pass-through) -/
noncomputable def srcNestStoreSingle {Name : Type} (names : List Name) (data : List (List ℝ))
    (nmap nmean nsig : Nat → List ℝ) :=
  Gen.SrcC09.multinest_store_single (accumulate := cumsum 0) (argsort := argsortStable) (c0p16 := q16) (c0p5 := q50)
    (c0p84 := q84) (data := data) (fit_names := names) (interp := interpAll) (nest_map := nmap) (nest_mean := nmean)
    (nest_sigma := nsig)

/-- … `multimodes = True`: `lines` are the lines of `<base>post_separate.dat`, `splitWs` / `parseFloat` Python's
    `str.split()` / `float()` -/
noncomputable def srcNestStoreModes {Name : Type} (names : List Name) (data : List (List ℝ)) (lines : List String)
    (splitWs : String → List String) (parseFloat : String → ℝ) (nmap nmean nsig : Nat → List ℝ) :=
  Gen.SrcC09.multinest_store_modes (accumulate := cumsum 0) (argsort := argsortStable) (c0p16 := q16) (c0p5 := q50)
    (c0p84 := q84) (data := data) (fit_names := names) (interp := interpAll) (lines := lines) (nest_map := nmap)
    (nest_mean := nmean) (nest_sigma := nsig) (parseFloat := parseFloat) (splitWs := splitWs)

/-- the dict `solutions` the regenerated WHOLE `store_polychord_solutions` returns: `data` = `1-.txt`, `cluster k` =
    `clusters/1-_{k+1}.txt`, `nClusters` = `get_poly_cluster_number`, `dc` = `do_clustering`, `nFit` = `len(fit_names)` -/
noncomputable def srcPolyStore {Name : Type} (names : List Name) (data : List (List ℝ)) (nClusters : Nat)
    (cluster : Nat → List (List ℝ)) (dc : Bool) (nFit : Nat) (nmap nmean nsig : Nat → List ℝ) :=
  Gen.SrcC09.polychord_store (accumulate := cumsum 0) (argsort := argsortStable) (c0p16 := q16) (c0p5 := q50)
    (c0p84 := q84) (clusterNumber := nClusters) (clusterTable := cluster) (data := data) (do_clustering := dc)
    (fit_names := names) (interp := interpAll) (nFit := nFit) (nest_map := nmap) (nest_mean := nmean) (nest_sigma := nsig)

/-- what `solutionsOf` stores for `count` modes: entry `k` is `("solution<k>", rec k arrays[k] weights[k])` -/
theorem solutionsOf_spec {ρ : Type} (rec : Nat → List (List ℝ) → List ℝ → ρ) (arrays : List (List (List ℝ)))
    (weights : List (List ℝ)) (count : Nat) :
    (solutionsOf rec arrays weights count).length = count ∧
    ∀ k, k < count → (solutionsOf rec arrays weights count)[k]?
      = some ("solution" ++ toString k, rec k (arrays.getD k []) (weights.getD k [])) := by
  unfold solutionsOf
  exact ⟨by simp, fun k hk => by simp [hk]⟩

/-- the record of one stored mode: its samples and weights unchanged, one entry per fit name in order, the trace of
    parameter `i` = column `i` of the samples, its value / errors the weighted quantiles of that column -/
theorem nestModeRec_spec {Name : Type} (names : List Name) (nmap nmean nsig : List ℝ) (trace : List (List ℝ)) (w : List ℝ) :
    (nestModeRec names nmap nmean nsig trace w).2.1 = trace ∧ (nestModeRec names nmap nmean nsig trace w).2.2 = w ∧
    (nestModeRec names nmap nmean nsig trace w).1.map Prod.fst = names ∧
    ∀ i, i < names.length → ((nestModeRec names nmap nmean nsig trace w).1[i]?).map (fun e => (e.2.2.2.2.2.2.1, e.2.2.2.2.2.2.2))
      = some (column trace i, (summary (column trace i) w).value) := by
  obtain ⟨htr, hwt, _⟩ := traces_unchanged names.length trace w
  refine ⟨htr, hwt, zipIdx_map_keys names _, ?_⟩
  intro i hi
  show ((names.zipIdx.map _)[i]?).map _ = _
  rw [zipIdx_map_getElem?, List.getElem?_eq_getElem hi]
  rfl

theorem polyModeRec_spec {Name : Type} (names : List Name) (nmap nmean nsig : List ℝ) (trace : List (List ℝ)) (w : List ℝ) :
    (polyModeRec names nmap nmean nsig trace w).2.1 = trace ∧ (polyModeRec names nmap nmean nsig trace w).2.2 = w ∧
    (polyModeRec names nmap nmean nsig trace w).1.map Prod.fst = names ∧
    ∀ i, i < names.length → ((polyModeRec names nmap nmean nsig trace w).1[i]?).map (fun e => (e.2.2.2.2.2.2.1, e.2.2.2.2.2.2.2))
      = some (column trace i, (summary (column trace i) w).value) := by
  obtain ⟨htr, hwt, _⟩ := traces_unchanged names.length trace w
  refine ⟨htr, hwt, zipIdx_map_keys names _, ?_⟩
  intro i hi
  show ((names.zipIdx.map _)[i]?).map _ = _
  rw [zipIdx_map_getElem?, List.getElem?_eq_getElem hi]
  rfl

/-- **traces unchanged, the whole MultiNest wrapper without mode separation**, about the regenerated
    `store_nest_solutions` (file prefix, loop over the modes, per-parameter loop, `quantile_corner`): exactly one solution,
    stored under `solution0`; its `tracedata` / `weights` are the columns `2:` / column `0` of `<base>.txt`, and every
    `fit_params` entry holds the column of the stored samples and its weighted median -/
theorem src_nest_store_single_unchanged {Name : Type} (names : List Name) (data : List (List ℝ))
    (nmap nmean nsig : Nat → List ℝ) :
    ∃ r, srcNestStoreSingle names data nmap nmean nsig = [("solution0", r)] ∧
      r.2.1 = data.map (fun row => row.drop 2) ∧ r.2.2 = data.map (fun row => row.getD 0 0) ∧
      r.1.map Prod.fst = names ∧
      ∀ i, i < names.length → (r.1[i]?).map (fun e => (e.2.2.2.2.2.2.1, e.2.2.2.2.2.2.2))
        = some (column r.2.1 i, (summary (column r.2.1 i) r.2.2).value) := by
  unfold srcNestStoreSingle
  rw [src_multinest_store_single]
  obtain ⟨h1, h2, h3, h4⟩ := nestModeRec_spec names (nmap 0) (nmean 0) (nsig 0) (data.map (fun row => row.drop 2))
    (data.map (fun row => row.getD 0 0))
  refine ⟨_, rfl, h1, h2, h3, ?_⟩
  intro i hi
  have := h4 i hi
  rw [h1, h2] at *
  exact this

/-- **traces unchanged, the whole MultiNest wrapper with mode separation**: when `<base>post_separate.dat` is in MultiNest's
    layout (its lines parse to `fileOf blocks`: before every mode two empty lines, then one line per sample; non-empty modes,
    `n ≥ 1` parameters per line), the regenerated `store_nest_solutions` stores one solution per mode, in file order, under
    `solution0`, `solution1`, …; solution `k` holds the samples (columns `2:`) and weights (column `0`) of the lines of mode
    `k` unchanged, one `fit_params` entry per fit name whose trace is the column of these samples and whose value is its
    weighted median -/
theorem src_nest_store_modes_unchanged {Name : Type} (names : List Name) (data : List (List ℝ)) (lines : List String)
    (splitWs : String → List String) (parseFloat : String → ℝ) (nmap nmean nsig : Nat → List ℝ)
    (blocks : List (List (List ℝ))) (n : ℕ) (hfile : lines.map (toPLine splitWs parseFloat) = fileOf blocks)
    (hne : blocks ≠ []) (hb : ∀ b ∈ blocks, b ≠ []) (hn : 1 ≤ n) (hlen : ∀ b ∈ blocks, ∀ r ∈ b, r.length = n + 2) :
    (srcNestStoreModes names data lines splitWs parseFloat nmap nmean nsig).length = blocks.length ∧
    ∀ k, k < blocks.length → ∃ r,
      (srcNestStoreModes names data lines splitWs parseFloat nmap nmean nsig)[k]? = some ("solution" ++ toString k, r) ∧
      r.2.1 = (blocks.getD k []).map (fun row => row.drop 2) ∧ r.2.2 = (blocks.getD k []).map (fun row => row.getD 0 0) ∧
      r.1.map Prod.fst = names ∧
      ∀ i, i < names.length → (r.1[i]?).map (fun e => (e.2.2.2.2.2.2.1, e.2.2.2.2.2.2.2))
        = some (column r.2.1 i, (summary (column r.2.1 i) r.2.2).value) := by
  unfold srcNestStoreModes
  rw [src_multinest_store_modes, hfile, (chain_files_unchanged.2.1 blocks n hne hb hn hlen)]
  have hrows : ∀ b ∈ blocks, ∀ r ∈ b, 2 < r.length := fun b hb' r hr => by rw [hlen b hb' r hr]; omega
  rw [splitModes_fileOf blocks hne hb hrows]
  simp only [List.length_map]
  obtain ⟨hl, hk⟩ := solutionsOf_spec (fun k => nestModeRec names (nmap k) (nmean k) (nsig k))
    (blocks.map (fun b => b.map (fun r => r.drop 2))) (blocks.map (fun b => b.map (fun r => r.getD 0 0))) blocks.length
  refine ⟨hl, fun k hkk => ?_⟩
  have ea : (blocks.map (fun b => b.map (fun r => r.drop 2))).getD k [] = (blocks.getD k []).map (fun row => row.drop 2) := by
    simp [List.getD_eq_getElem?_getD, hkk]
  have ew : (blocks.map (fun b => b.map (fun r => r.getD 0 0))).getD k [] = (blocks.getD k []).map (fun row => row.getD 0 0) := by
    simp [List.getD_eq_getElem?_getD, hkk]
  obtain ⟨h1, h2, h3, h4⟩ := nestModeRec_spec names (nmap k) (nmean k) (nsig k)
    ((blocks.getD k []).map (fun row => row.drop 2)) ((blocks.getD k []).map (fun row => row.getD 0 0))
  refine ⟨_, by rw [hk k hkk, ea, ew], h1, h2, h3, ?_⟩
  intro i hi
  have := h4 i hi
  rw [h1, h2] at *
  exact this

/-- **traces unchanged, the whole PolyChord wrapper**: without clustering (or with one cluster) one solution from `1-.txt`,
    otherwise one solution per cluster file in order; solution `k` holds the columns `2:nFit+2` and column `0` of its table -/
theorem src_poly_store_unchanged {Name : Type} (names : List Name) (data : List (List ℝ)) (nClusters : Nat)
    (cluster : Nat → List (List ℝ)) (dc : Bool) (nFit : Nat) (nmap nmean nsig : Nat → List ℝ) :
    let table : Nat → List (List ℝ) := fun k => if dc = true ∧ nClusters ≠ 1 then cluster k else data
    let count := if dc = true ∧ nClusters ≠ 1 then nClusters else 1
    (srcPolyStore names data nClusters cluster dc nFit nmap nmean nsig).length = count ∧
    ∀ k, k < count → ∃ r,
      (srcPolyStore names data nClusters cluster dc nFit nmap nmean nsig)[k]? = some ("solution" ++ toString k, r) ∧
      r.2.1 = (table k).map (fun row => (row.drop 2).take nFit) ∧ r.2.2 = (table k).map (fun row => row.getD 0 0) ∧
      r.1.map Prod.fst = names ∧
      ∀ i, i < names.length → (r.1[i]?).map (fun e => (e.2.2.2.2.2.2.1, e.2.2.2.2.2.2.2))
        = some (column r.2.1 i, (summary (column r.2.1 i) r.2.2).value) := by
  intro table count
  unfold srcPolyStore
  rw [src_polychord_store]
  have hc : polyChains nFit dc nClusters data cluster
      = ((List.range count).map (fun k => (table k).map (fun row => (row.drop 2).take nFit)),
         (List.range count).map (fun k => (table k).map (fun row => row.getD 0 0)), count) := by
    by_cases h : dc = true ∧ nClusters ≠ 1
    · obtain ⟨hd, h1⟩ := h
      have := chain_files_unchanged.2.2.1 nFit nClusters data cluster h1
      simp only [count, table, hd, h1, ne_eq, not_false_eq_true, and_self, if_true]
      exact this
    · have h' : dc = false ∨ nClusters = 1 := by
        by_cases hd : dc = true
        · right; by_contra h1; exact h ⟨hd, h1⟩
        · left; simpa using hd
      have := chain_files_unchanged.2.2.2 nFit nClusters dc data cluster h'
      simp only [count, table, h, if_false]
      rw [this]; rfl
  rw [hc]
  obtain ⟨hl, hk⟩ := solutionsOf_spec (fun k => polyModeRec names (nmap k) (nmean k) (nsig k))
    ((List.range count).map (fun k => (table k).map (fun row => (row.drop 2).take nFit)))
    ((List.range count).map (fun k => (table k).map (fun row => row.getD 0 0))) count
  refine ⟨hl, fun k hkk => ?_⟩
  have ea : ((List.range count).map (fun k => (table k).map (fun row => (row.drop 2).take nFit))).getD k []
      = (table k).map (fun row => (row.drop 2).take nFit) := by
    simp [List.getD_eq_getElem?_getD, hkk]
  have ew : ((List.range count).map (fun k => (table k).map (fun row => row.getD 0 0))).getD k []
      = (table k).map (fun row => row.getD 0 0) := by
    simp [List.getD_eq_getElem?_getD, hkk]
  obtain ⟨h1, h2, h3, h4⟩ := polyModeRec_spec names (nmap k) (nmean k) (nsig k)
    ((table k).map (fun row => (row.drop 2).take nFit)) ((table k).map (fun row => row.getD 0 0))
  refine ⟨_, by rw [hk k hkk, ea, ew], h1, h2, h3, ?_⟩
  intro i hi
  have := h4 i hi
  rw [h1, h2] at *
  exact this

end Taurex.C09SrcProps
