/-
  C16 — the property theorems restated about the REGENERATED source.  `Props/C16Src.lean` proves that the definitions
  translated on every run (dialect `dyn`: dynamically typed Python values `Dyn.Val`, one oracle `ext` for what the code
  asks of numpy / h5py / the other objects, instantiated by the worlds `SWorld`, `HWorld`, `GWorld`, `LWorld` of the
  tie) from `recursively_save_dict_contents_to_output` / `store_thing` (taurex/util/util.py), `HDF5OutputGroup.write_array`
  / `write_string_array`, the `generate_spectrum_output` of `FluxBinner` / `SimpleBinner` / `NativeBinner`, and
  `load_generic_profile_from_hdf5` (with `get_klass_args`, `decode_string_array`) compute the model's `storeEntries` /
  `storeThing`, `writeArray`, `stringNode`, `spectrumOutput`, `loadKwargs`; `Props/C16.lean` proves the property about
  these.  The corollaries below compose the two: they are statements about the text of the code as it is now.  Like
  `Props/C16.lean` they are generic in the float payload `α`.

  What is composed
    * `srcSave w fuel q d s` = the regenerated `recursively_save_dict_contents_to_output(output, dic)` — its callee the
      regenerated `store_thing` — run on the group at path `q` with `dic` = the Python dict of the model dictionary `d`
      (`embD`), from the file state `s` (the log of created entries); it returns `(outcome, file state afterwards)`.  This
      is what `Output.store_dictionary` runs after creating the group (the model's `store (Value.dict d)`).  Tie hypotheses
      kept visible: `SWorldOK w` (strings are represented faithfully; what numpy raises for a ragged list is one of the
      two classes the code catches) and `depthD d < fuel` (the recursion of `store_thing` is translated with fuel).
      `flat q ch` = the log entries that creating the entries `ch` in the group at `q` leaves.  Reading back stays the
      model's `load` (h5py's `ds[()]`; the decoding the loader adds is tied in `load_generic_profile`).
    * `SrcC16.store_thing`, `SrcC16.write_array`, `SrcC16.write_string_array` applied as in their ties.
    * `srcGso kind w grid width wn flux tau n` = the regenerated `generate_spectrum_output(model_output, output_size)` of
      the binner class `kind`; it returns a Python `dict`, read with the dialect's own `Dyn.dictHas` (`key in d`) and
      `Dyn.dictGet?` (`d[key]`).  `bd`, `bdTau` of `Props/C16.lean` are `w.bd`, `w.bdTau` (what `self.bindown(…)[1]`
      returns).
    * the regenerated `load_generic_profile_from_hdf5` applied to the group `ch` the writer created; `wl.call` is the
      constructor call it ends in.  Tie hypotheses kept visible: the stored type string names a class with the keywords
      `ctorKw` (`hkl`), distinct keywords (`hn`), no constructor keyword is stored as a sub-group (`hds`).

    * write → load ROUND TRIPS OF COMPONENTS, both sides regenerated (`src_isothermal_roundtrip`, `src_guillot_roundtrip`,
      `src_npoint_roundtrip`, `src_taurexchemistry_roundtrip`, `src_transmission_model_roundtrip`): the component's own
      regenerated `write` (`Isothermal.write`, `Guillot2010.write`, `NPoint.write` over `TemperatureProfile.write`;
      `TaurexChemistry.write` over `Chemistry.write`; `TransmissionModel.write` over `SimpleForwardModel.write` over
      `ForwardModel.write`) run in the writer world `WWorld` (`Proofs/C16SrcWrite.lean`: a component instance with its data
      attributes and the components it holds) DERIVES the written group content, and the regenerated loader
      (`load_temperature_from_hdf5`, `load_chemistry_from_hdf5`, `load_model_from_hdf5`, all over
      `load_generic_profile_from_hdf5`) applied to exactly that group calls the class of the written name with the written
      entries that are constructor keywords.  `src_reload_same_kwargs` below is the older, generic form for a record
      written with `store_dictionary` (there the written group is the model's `store` of the record).  Tie hypotheses kept
      visible: the class table of the loader's world (`hkl`: the written name is a class with keywords `ctorKw`), distinct
      keywords, the type key is not a constructor keyword.
    * the same round trips for the remaining components (`src_star_roundtrip`, `src_planet_roundtrip`,
      `src_pressure_roundtrip`, `src_simplepressure_roundtrip`, `src_constantgas_roundtrip`, `src_twolayergas_roundtrip`,
      `src_twopointgas_roundtrip`, `src_powergas_roundtrip`, `src_contribution_roundtrip` (absorption / Rayleigh),
      `src_simpleclouds_roundtrip`, `src_flatmie_roundtrip`, `src_cia_roundtrip`): regenerated `Star.write`,
      `BasePlanet.write`, `PressureProfile.write`, `SimplePressureProfile.write`, `Gas.write` + subclasses,
      `Contribution.write` + subclasses against the regenerated `load_star_from_hdf5`, `load_planet_from_hdf5`,
      `load_pressure_from_hdf5`, `load_gas_from_hdf5`, `load_contrib_from_hdf5`.  Scalars are any Python scalar
      (`Scalar`), `x/CONST` is the writer world's `div` on the attribute and the module constant (`consts`, non-zero).

  Not restated (no tie)
    * `canon_wf`: about the specification `canon` alone.  `load_store_eq`: the equation form of `load_store` (restated).
    * `store_error_iff` for a non-dictionary argument (`Err.notDict`): the test is `Output.store_dictionary`'s, not in the
      translated functions; the dictionary case is restated.
    * `wlOfWn_involutive`, `wlwidth_is_centre_conversion`, `wlwidth_vs_exact`: about `wlOfWn` / `wlwidthAt`, which in this
      tie are the ORACLE's reading of numpy's `10000/array` and of the module function `wnwidth_to_wlwidth` (the latter is
      translated and tied for C17), not regenerated definitions.
-/
import Props.C16
import Props.C16Src
set_option linter.unusedSectionVars false

namespace Taurex.C16SrcProps
open Taurex.Gen Taurex.Gen.Dyn Taurex.Output Taurex.C16 Taurex.C16Src

/-! ## storage -/

section storage
variable {α : Type} [OfInt α] [FloatLike α]

/-- the regenerated `recursively_save_dict_contents_to_output` (callee: the regenerated `store_thing`) on the group at
    `q` and the Python dict of `d`, from the file state `s` -/
def srcSave (w : SWorld α) (fuel : Nat) (q : List String) (d : List (String × Value α)) (s : Log α) :
    Except Exc (SV α) × Log α :=
  SrcC16.recursively_save w.ext (fun a b c => SrcC16.store_thing w.ext fuel a b c) (.obj (.group q))
    (.dict (embD w.enc d)) s

theorem srcSave_ok (w : SWorld α) (hw : SWorldOK w) (fuel : Nat) (q : List String) (d : List (String × Value α))
    (hf : depthD d < fuel) (s : Log α) (ch : List (String × Node α)) (h : storeEntries d = .ok ch) :
    srcSave w fuel q d s = (.ok .none, s ++ flat q ch) :=
  outcome_ok h (src_recursively_save w hw fuel d hf q s)

theorem srcSave_err (w : SWorld α) (hw : SWorldOK w) (fuel : Nat) (q : List String) (d : List (String × Value α))
    (hf : depthD d < fuel) (s : Log α) (e : Err) (h : storeEntries d = .error e) :
    ∃ e' s', srcSave w fuel q d s = (.error e', s') ∧ errOK' e e' :=
  outcome_err h (src_recursively_save w hw fuel d hf q s)

/-- the model's `store` of a dictionary succeeds exactly with the entries `storeEntries` gives -/
theorem store_dict_ok {d : List (String × Value α)} {ch : List (String × Node α)}
    (h : store (Value.dict d) = .ok (.group ch)) : storeEntries d = .ok ch := by
  cases hs : storeEntries d with
  | ok c => simp [store, hs] at h; rw [h]
  | error e => simp [store, hs] at h

theorem store_dict_err {d : List (String × Value α)} {e : Err}
    (h : store (Value.dict d) = .error e) : storeEntries d = .error e := by
  cases hs : storeEntries d with
  | ok c => simp [store, hs] at h
  | error e' => simp [store, hs] at h; rw [h]

theorem store_map_load {d : List (String × Value α)} {v : Value α}
    (h : (store (Value.dict d)).map load = .ok v) : ∃ ch, storeEntries d = .ok ch ∧ load (.group ch) = v := by
  cases hs : storeEntries d with
  | ok c =>
    simp [store, hs, Except.map] at h
    exact ⟨c, rfl, h⟩
  | error e => simp [store, hs, Except.map] at h

section
variable (w : SWorld α) (hw : SWorldOK w) (fuel : Nat) (q : List String) (s : Log α)
include hw

/-- **load_store**, about the regenerated writer: on a well-formed dictionary it returns `None` having created entries
    `ch` with exactly the names of `d` (one per key, in order) that read back as `d` -/
theorem src_load_store (d : List (String × Value α)) (h : WF (Value.dict d) = true) (hf : depthD d < fuel) :
    ∃ ch, srcSave w fuel q d s = (.ok .none, s ++ flat q ch) ∧ ch.map Prod.fst = d.map Prod.fst ∧
      load (.group ch) = Value.dict d := by
  obtain ⟨ch, hc, hk, hl⟩ := load_store d h
  exact ⟨ch, srcSave_ok w hw fuel q d hf s ch (store_dict_ok hc), hk, hl⟩

/-- **load_store_canon**, about the regenerated writer: homogeneous lists / tuples and clean string sequences are stored
    one entry per key under the same names and read back as the canonical form -/
theorem src_load_store_canon (d : List (String × Value α)) (h : regEntries d = true) (hf : depthD d < fuel) :
    ∃ ch, srcSave w fuel q d s = (.ok .none, s ++ flat q ch) ∧ ch.map Prod.fst = d.map Prod.fst ∧
      load (.group ch) = canon (Value.dict d) := by
  obtain ⟨ch, hc, hk, hl⟩ := load_store_canon d h
  exact ⟨ch, srcSave_ok w hw fuel q d hf s ch (store_dict_ok hc), hk, hl⟩

/-- **numeric_list_same_numbers**, about the regenerated writer: a flat numeric list / tuple is read back as the 1-D
    array of the same numbers -/
theorem src_numeric_list_same_numbers (k k' : String) (l : List Int) (h : l ≠ []) (x : List α) (hx : x ≠ [])
    (hf : depthD [(k, Value.list (l.map .int)), (k', Value.tuple (x.map .float))] < fuel) :
    ∃ ch, srcSave w fuel q [(k, .list (l.map .int)), (k', .tuple (x.map .float))] s = (.ok .none, s ++ flat q ch) ∧
      load (.group ch)
        = Value.dict [(k, .array ⟨[l.length], .ints l⟩), (k', .array ⟨[x.length], .floats x⟩)] := by
  obtain ⟨ch, hc, hl⟩ := store_map_load (numeric_list_same_numbers k k' l h x hx)
  exact ⟨ch, srcSave_ok w hw fuel q _ hf s ch hc, hl⟩

/-- **store_error_iff** (dictionary argument), about the regenerated writer: it raises iff the traversal reaches an
    unsupported type or a string list with a non-string element -/
theorem src_store_error_iff (d : List (String × Value α)) (hf : depthD d < fuel) :
    (∃ e' s', srcSave w fuel q d s = (.error e', s')) ↔ ¬ supported (Value.dict d) = true := by
  have hiff := store_error_iff (Value.dict d)
  simp only [isDict, true_and] at hiff
  constructor
  · rintro ⟨e', s', he⟩
    apply hiff.1
    cases hs : store (Value.dict d) with
    | error e => exact ⟨e, rfl⟩
    | ok n =>
      exfalso
      cases hse : storeEntries d with
      | ok ch =>
        rw [srcSave_ok w hw fuel q d hf s ch hse] at he
        cases he
      | error e => simp [store, hse] at hs
  · intro hns
    obtain ⟨e, he⟩ := hiff.2 hns
    obtain ⟨e', s', h1, _⟩ := srcSave_err w hw fuel q d hf s e (store_dict_err he)
    exact ⟨e', s', h1⟩

/-- **store_ragged_arrays**, about the regenerated `store_thing`: a list of differently shaped arrays is stored element by
    element, `key ↦ [a₀, a₁, …]` creates exactly `key0 ↦ a₀, key1 ↦ a₁, …` -/
theorem src_store_ragged_arrays (k : String) (as : List (Arr α)) (h : stack as = none)
    (hf : depth (Value.list (as.map Value.array)) < fuel) :
    SrcC16.store_thing w.ext fuel (.obj (.group q)) (.str k) (embV w.enc (Value.list (as.map Value.array))) s
      = (.ok .none, s ++ flat q (expandArrays k 0 as)) :=
  src_store_thing_ok w hw fuel _ hf q k s _ (store_ragged_arrays k as h)

/-- **string_array_faithful**, about the regenerated writer: string arrays of any length and alphabet are read back
    unchanged (elements not ending in U+0000) -/
theorem src_string_array_faithful (k : String) (strs : List (List Nat)) (hne : strs ≠ [])
    (hc : ∀ t ∈ strs, cleanStr t = true) (hf : depthD [(k, (Value.list (strs.map .str) : Value α))] < fuel) :
    ∃ ch, srcSave w fuel q [(k, .list (strs.map .str))] s = (.ok .none, s ++ flat q ch) ∧
      load (.group ch) = Value.dict [(k, .list (strs.map .str))] := by
  obtain ⟨ch, hch, hl⟩ := store_map_load (string_array_faithful (α := α) k strs hne hc)
  exact ⟨ch, srcSave_ok w hw fuel q _ hf s ch hch, hl⟩

/-- **string_array_trailing_nul_dropped**, about the regenerated writer: the restriction is necessary — a trailing NUL
    does not come back -/
theorem src_string_array_trailing_nul_dropped
    (hf : depthD [("k", (Value.list [.str [65, 0]] : Value α))] < fuel) :
    ∃ ch, srcSave w fuel q [("k", (Value.list [.str [65, 0]] : Value α))] s = (.ok .none, s ++ flat q ch) ∧
      load (.group ch) = Value.dict [("k", .list [.str [65]])] := by
  obtain ⟨ch, hch, hl⟩ := store_map_load (string_array_trailing_nul_dropped (α := α))
  exact ⟨ch, srcSave_ok w hw fuel q _ hf s ch hch, hl⟩

end

/-! ### the HDF5 group methods -/

omit [OfInt α] in
/-- **writeArray_list**, about the regenerated `HDF5OutputGroup.write_array`: `write_array(name, [a₀, a₁, …])` writes
    `name0 ↦ a₀, name1 ↦ a₁, …` -/
theorem src_writeArray_list (w : HWorld α) (fuel : Nat) (p : List String) (k : String) (as : List (Arr α))
    (s : Log α) :
    SrcC16.write_array w.ext (fuel + 2) (.obj (.grp p)) (.str k) (embA (Value.list (as.map Value.array))) .none s
      = (.ok .none, s ++ (expandArrays k 0 as).map (fun e => (p, e.1, e.2))) :=
  src_write_array w fuel p k _ _ (writeArray_list k as) s

omit [OfInt α] in
/-- **string_array_faithful** at the level of the regenerated `HDF5OutputGroup.write_string_array`: the dataset it creates
    reads back as the list of the strings (elements not ending in U+0000), whatever their length and alphabet -/
theorem src_write_string_array_faithful (w : HWorld α) (hw : HWorldOK w) (p : List String) (name : String)
    (strs : List (List Nat)) (hc : ∀ t ∈ strs, cleanStr t = true) (s : Log α) :
    ∃ n : Node α,
      SrcC16.write_string_array w.ext (.obj (.grp p)) (.str name) (.list (strs.map (fun c => .str (w.enc c)))) .none s
        = (.ok .none, s ++ [(p, name, n)]) ∧ load n = Value.list (strs.map .str) := by
  refine ⟨stringNode strs, src_write_string_array w hw p name strs s, ?_⟩
  simp only [stringNode, load, List.map_map]
  congr 1
  apply List.map_congr_left
  intro t ht
  simp only [Function.comp, sCell_clean t (hc t ht)]

/-! ### reload of a component -/

theorem load_eq_str {n : Node α} {t : List Nat} (h : load n = Value.str t) : n = .vstr t := by
  cases n with
  | num a =>
    exfalso
    simp only [load] at h
    cases hs : a.shape with
    | nil =>
      rw [hs] at h
      simp only [] at h
      cases hd : scalarOf a.data with
      | none => rw [hd] at h; cases h
      | some v =>
        rw [hd] at h
        simp only [Option.getD_some] at h
        subst h
        unfold scalarOf at hd
        split at hd <;> cases hd
    | cons _ _ => rw [hs] at h; cases h
  | vstr u => simp only [load, Value.str.injEq] at h; rw [h]
  | sfix wd rows => simp only [load] at h; cases h
  | group ch => simp only [load] at h; cases h

section reload
variable (ws : SWorld α) (hws : SWorldOK ws) (wl : LWorld α) (fuel : Nat) (q : List String) (s : Log α)
  (typeKey : String) (klass : List Nat) (entries : List (String × Value α)) (ctorKw : List String)
  (hwf : wfEntries entries = true) (hk : ∀ kw ∈ ctorKw, kw ≠ typeKey)
  (hf : depthD ((typeKey, Value.str klass) :: entries) < fuel)
  (ch : List (String × Node α)) (hch : store (writeComponent typeKey klass entries) = .ok (.group ch))
  (hkl : wl.klassOf klass = some ctorKw) (hn : ctorKw.Nodup)
  (hds : ∀ kw ∈ ctorKw, ∀ n, ch.lookup kw = some n → isGroup n = false) (module : LV α)
include hws hwf hk hf hch hkl hn hds

/-- **reload_same_kwargs**, about the regenerated writer and loader: a component written with its type string and
    entries (`ch`: the group the model says is written — the regenerated writer creates exactly it) is reloaded by the
    regenerated `load_generic_profile_from_hdf5` by calling the class of the written name with, for every constructor
    keyword that was written, its written value, in constructor order -/
theorem src_reload_same_kwargs :
    srcSave ws fuel q ((typeKey, Value.str klass) :: entries) s = (.ok .none, s ++ flat q ch) ∧
    SrcC16.load_generic_profile wl.ext (.obj (.h5 ch)) module (.str typeKey) .none .none .none
      = wl.call (.klass klass ctorKw) []
          (embKwL wl.enc (ctorKw.filterMap (fun kw => (entries.lookup kw).map (fun v => (kw, v))))) := by
  have hse : storeEntries ((typeKey, Value.str klass) :: entries) = .ok ch := store_dict_ok hch
  refine ⟨srcSave_ok ws hws fuel q _ hf s ch hse, ?_⟩
  have hr := reload_same_kwargs typeKey klass entries ctorKw hwf hk
  unfold reloadComponent at hr
  rw [hch] at hr
  simp only [Except.ok.injEq, Prod.mk.injEq] at hr
  obtain ⟨h1, h2⟩ := hr
  have htype : ch.lookup typeKey = some (.vstr klass) := by
    cases hl : ch.lookup typeKey with
    | none => rw [hl] at h1; cases h1
    | some n =>
      rw [hl] at h1
      simp only [Option.map_some, Option.some.injEq] at h1
      rw [load_eq_str h1]
  rw [src_load_generic_profile wl ch typeKey klass ctorKw module htype hkl hn hds, h2]

/-- **reload_omitted_kwarg**, about the regenerated loader: a constructor keyword that `write()` omits is not passed on
    reload (the constructor default is used) -/
theorem src_reload_omitted_kwarg (kw : String) (hom : entries.lookup kw = none) :
    ∃ kws : List (String × Value α),
      SrcC16.load_generic_profile wl.ext (.obj (.h5 ch)) module (.str typeKey) .none .none .none
        = wl.call (.klass klass ctorKw) [] (embKwL wl.enc kws) ∧ kw ∉ kws.map Prod.fst := by
  refine ⟨_, (src_reload_same_kwargs ws hws wl fuel [] [] typeKey klass entries ctorKw hwf hk hf ch hch hkl hn hds
    module).2, ?_⟩
  exact reload_omitted_kwarg typeKey klass entries ctorKw hwf hk kw hom _ _
    (reload_same_kwargs typeKey klass entries ctorKw hwf hk)

end reload

end storage

/-! ## write → load round trips of components -/

section roundtrip
variable {α : Type} [OfInt α] [FloatLike α]

theorem lookup_mem {β : Type} {l : List (String × β)} {k : String} {v : β} (h : l.lookup k = some v) :
    (k, v) ∈ l := by
  induction l with
  | nil => cases h
  | cons x t ih =>
    obtain ⟨k', v'⟩ := x
    simp only [List.lookup_cons] at h
    cases hb : (k == k') with
    | true =>
      rw [hb] at h
      simp only [Option.some.injEq] at h
      have : k = k' := by simpa using hb
      subst this h
      exact List.mem_cons_self
    | false =>
      rw [hb] at h
      exact List.mem_cons_of_mem _ (ih h)

/-- the stored form of a component record (`Output.writeComponent`: the class name under `typeKey`, then `entries` — none
    of them a dictionary) is a group the loader accepts: the type string is there, no constructor keyword is a
    sub-group, and the keyword arguments it collects are the written entries that are constructor keywords, in constructor
    order -/
theorem written_reloadable (wl : LWorld α) (typeKey : String) (c : List Nat) (entries : List (String × Value α))
    (ctorKw : List String) (hwf : wfEntries entries = true) (hnd : ∀ e ∈ entries, isDict e.2 = false)
    (hk : ∀ kw ∈ ctorKw, kw ≠ typeKey) (name : String) (es : List (String × Node α))
    (hm : storeThing name (writeComponent typeKey c entries) = .ok es)
    (hkl : wl.klassOf c = some ctorKw) (hn : ctorKw.Nodup) :
    ∃ ch, es = [(name, .group ch)] ∧ ch.lookup typeKey = some (.vstr c) ∧ Reloadable wl ch c ctorKw ∧
      loadKwargs ch ctorKw = ctorKw.filterMap (fun kw => (entries.lookup kw).map (fun v => (kw, v))) := by
  obtain ⟨ch, hch, rfl⟩ := storeThing_dict_ok hm
  have hwf' : wfEntries ((typeKey, Value.str c) :: entries) = true := by simp [wfEntries, wfVal, hwf]
  obtain ⟨ch', hc', hl, -⟩ := storeEntries_wf _ hwf'
  have e : ch' = ch := by
    have := hc'.symm.trans hch
    simpa using this
  subst e
  have hstore : store (writeComponent typeKey c entries) = .ok (.group ch') := by
    simp [store, writeComponent, hch]
  have hr := reload_same_kwargs typeKey c entries ctorKw hwf hk
  unfold reloadComponent at hr
  rw [hstore] at hr
  simp only [Except.ok.injEq, Prod.mk.injEq] at hr
  obtain ⟨h1, h2⟩ := hr
  have htype : ch'.lookup typeKey = some (.vstr c) := by
    cases hlk : ch'.lookup typeKey with
    | none => rw [hlk] at h1; cases h1
    | some n =>
      rw [hlk] at h1
      simp only [Option.map_some, Option.some.injEq] at h1
      rw [load_eq_str h1]
  refine ⟨ch', rfl, htype, ⟨hkl, hn, ?_⟩, h2⟩
  intro kw hkw n hlk
  cases n with
  | group g =>
    exfalso
    have h3 : (loadEntries ch').lookup kw = some (.dict (loadEntries g)) := by
      rw [lookup_loadEntries, hlk]; simp [load]
    rw [hl] at h3
    have hne : (kw == typeKey) = false := by simpa using hk kw hkw
    simp only [List.lookup_cons, hne] at h3
    have := hnd _ (lookup_mem h3)
    simp [isDict] at this
  | _ => rfl

/-- a temperature-profile record: what its `write` stores (the model's `storeThing` of its `writeComponent`) is one group
    `Temperature`, and the regenerated `load_temperature_from_hdf5` applied to any file holding that group calls the class
    of the written name with the written entries that are constructor keywords, in constructor order -/
theorem temperature_reload (wl : LWorld α) (c : List Nat) (entries : List (String × Value α)) (ctorKw : List String)
    (hwf : wfEntries entries = true) (hnd : ∀ e ∈ entries, isDict e.2 = false)
    (hk : ∀ kw ∈ ctorKw, kw ≠ "temperature_type") (hkl : wl.klassOf c = some ctorKw) (hn : ctorKw.Nodup) :
    ∃ ch, storeThing "Temperature" (writeComponent "temperature_type" c entries) = .ok [("Temperature", .group ch)] ∧
      ∀ top : List (String × Node α), top.lookup "Temperature" = some (.group ch) →
        SrcC16.load_temperature wl.ext (.obj (.h5 top)) .none
          = wl.call (.klass c ctorKw) []
              (embKwL wl.enc (ctorKw.filterMap (fun kw => (entries.lookup kw).map (fun v => (kw, v))))) := by
  have hwf' : wfVal (writeComponent "temperature_type" c entries) = true := by
    simp [writeComponent, wfVal, wfEntries, hwf]
  obtain ⟨n, hst, -⟩ := storeThing_wf "Temperature" _ hwf'
  obtain ⟨ch, he, htype, hr, hkw⟩ := written_reloadable wl "temperature_type" c entries ctorKw hwf hnd hk
    "Temperature" _ hst hkl hn
  refine ⟨ch, by rw [hst, he], fun top htop => ?_⟩
  rw [src_load_temperature wl top ch c ctorKw htop htype hr, hkw]

section
variable (ww : WWorld α) (hww : WWorldOK ww) (wl : LWorld α) (c : List Nat) (attr : String → Option (Value α))
  (part : String → Option (SubComp α)) (ctorKw : List String) (hk : ∀ kw ∈ ctorKw, kw ≠ "temperature_type")
  (hkl : wl.klassOf c = some ctorKw) (hn : ctorKw.Nodup) (q : List String) (s : Log α)
include hww hk hkl hn

/-- **write → load round trip of `Isothermal`**, both sides regenerated: `Isothermal.write` creates one group
    `Temperature` (`ch`), and `load_temperature_from_hdf5` on any file holding that group calls the class of the written
    name with `T = self._iso_temp` if `T` is a constructor keyword (and with nothing else) -/
theorem src_isothermal_roundtrip (T : α) (hT : attr "_iso_temp" = some (.float T)) :
    ∃ ch, SrcC16.isothermal_write ww.ext (.obj (.comp c attr part)) (.obj (.group q)) s
        = (.ok (.obj (.group (q ++ ["Temperature"]))), s ++ flat q [("Temperature", .group ch)]) ∧
      ∀ top : List (String × Node α), top.lookup "Temperature" = some (.group ch) →
        SrcC16.load_temperature wl.ext (.obj (.h5 top)) .none
          = wl.call (.klass c ctorKw) []
              (embKwL wl.enc (ctorKw.filterMap (fun kw => ([("T", Value.float T)].lookup kw).map (fun v => (kw, v))))) := by
  obtain ⟨ch, hst, hload⟩ := temperature_reload wl c [("T", Value.float T)] ctorKw (by simp [wfEntries, wfVal])
    (by simp [isDict]) hk hkl hn
  exact ⟨ch, src_isothermal_write ww hww c attr part T hT q s _ hst, hload⟩

/-- **write → load round trip of `Guillot2010`**: the six written parameters come back as the constructor keywords of the
    same names.  (The attribute `kappa_ir` is written as `kappa_irr`, the constructor's name for it.) -/
theorem src_guillot_roundtrip (Tirr kir kv1 kv2 al Tint : α)
    (h1 : attr "T_irr" = some (.float Tirr)) (h2 : attr "kappa_ir" = some (.float kir))
    (h3 : attr "kappa_v1" = some (.float kv1)) (h4 : attr "kappa_v2" = some (.float kv2))
    (h5 : attr "alpha" = some (.float al)) (h6 : attr "T_int" = some (.float Tint)) :
    ∃ ch, SrcC16.guillot_write ww.ext (.obj (.comp c attr part)) (.obj (.group q)) s
        = (.ok (.obj (.group (q ++ ["Temperature"]))), s ++ flat q [("Temperature", .group ch)]) ∧
      ∀ top : List (String × Node α), top.lookup "Temperature" = some (.group ch) →
        SrcC16.load_temperature wl.ext (.obj (.h5 top)) .none
          = wl.call (.klass c ctorKw) []
              (embKwL wl.enc (ctorKw.filterMap (fun kw =>
                ([("T_irr", Value.float Tirr), ("kappa_irr", .float kir), ("kappa_v1", .float kv1),
                  ("kappa_v2", .float kv2), ("alpha", .float al), ("T_int", .float Tint)].lookup kw).map
                  (fun v => (kw, v))))) := by
  obtain ⟨ch, hst, hload⟩ := temperature_reload wl c
    [("T_irr", Value.float Tirr), ("kappa_irr", .float kir), ("kappa_v1", .float kv1), ("kappa_v2", .float kv2),
     ("alpha", .float al), ("T_int", .float Tint)] ctorKw (by simp [wfEntries, wfVal]) (by simp [isDict]) hk hkl hn
  exact ⟨ch, src_guillot_write ww hww c attr part Tirr kir kv1 kv2 al Tint h1 h2 h3 h4 h5 h6 q s _ hst, hload⟩

/-- **write → load round trip of `NPoint`**: temperatures, the point lists (as the arrays `np.array` makes of them),
    pressures (`-1` for an unset one), smoothing window and slope limit come back under the constructor's names -/
theorem src_npoint_roundtrip (Ts Tt ls : α) (tp pp : List α) (ps pt : Value α) (sw : Int)
    (hps : ps = .unsupported ∨ ∃ x, ps = .float x) (hpt : pt = .unsupported ∨ ∃ x, pt = .float x)
    (h1 : attr "_T_surface" = some (.float Ts)) (h2 : attr "_T_top" = some (.float Tt))
    (h3 : attr "_t_points" = some (.list (tp.map .float))) (h4 : attr "_P_surface" = some ps)
    (h5 : attr "_P_top" = some pt) (h6 : attr "_p_points" = some (.list (pp.map .float)))
    (h7 : attr "_smooth_window" = some (.int sw)) (h8 : attr "_limit_slope" = some (.float ls)) :
    ∃ ch, SrcC16.npoint_write ww.ext (.obj (.comp c attr part)) (.obj (.group q)) s
        = (.ok (.obj (.group (q ++ ["Temperature"]))), s ++ flat q [("Temperature", .group ch)]) ∧
      ∀ top : List (String × Node α), top.lookup "Temperature" = some (.group ch) →
        SrcC16.load_temperature wl.ext (.obj (.h5 top)) .none
          = wl.call (.klass c ctorKw) []
              (embKwL wl.enc (ctorKw.filterMap (fun kw =>
                ([("T_surface", Value.float Ts), ("T_top", .float Tt), ("temperature_points", .array (arrOf tp)),
                  ("P_surface", orMinus1 ps), ("P_top", orMinus1 pt), ("pressure_points", .array (arrOf pp)),
                  ("smoothing_window", .int sw), ("limit_slope", .float ls)].lookup kw).map (fun v => (kw, v))))) := by
  have hw1 : wfVal (orMinus1 ps) = true ∧ isDict (orMinus1 ps) = false := by
    rcases hps with rfl | ⟨x, rfl⟩
    · exact ⟨rfl, rfl⟩
    · simp only [orMinus1]; split <;> exact ⟨rfl, rfl⟩
  have hw2 : wfVal (orMinus1 pt) = true ∧ isDict (orMinus1 pt) = false := by
    rcases hpt with rfl | ⟨x, rfl⟩
    · exact ⟨rfl, rfl⟩
    · simp only [orMinus1]; split <;> exact ⟨rfl, rfl⟩
  obtain ⟨ch, hst, hload⟩ := temperature_reload wl c
    [("T_surface", Value.float Ts), ("T_top", .float Tt), ("temperature_points", .array (arrOf tp)),
     ("P_surface", orMinus1 ps), ("P_top", orMinus1 pt), ("pressure_points", .array (arrOf pp)),
     ("smoothing_window", .int sw), ("limit_slope", .float ls)] ctorKw
    (by simp [wfEntries, wfVal, arrOf, hw1.1, hw2.1])
    (by
      intro e he
      simp only [List.mem_cons, List.not_mem_nil, or_false] at he
      rcases he with rfl | rfl | rfl | rfl | rfl | rfl | rfl | rfl <;> first | rfl | exact hw1.2 | exact hw2.2)
    hk hkl hn
  exact ⟨ch, src_npoint_write ww hww c attr part Ts Tt ls tp pp ps pt sw hps hpt h1 h2 h3 h4 h5 h6 h7 h8 q s _ hst, hload⟩

end

/-- **write → load round trip of a `TaurexChemistry`**, both sides regenerated: `TaurexChemistry.write` creates the group
    `Chemistry` with exactly the entries `chemG` (class name, active / inactive gas names, condensates, fill ratios, fill
    gases, then what every gas profile's `write` stores), and `load_chemistry_from_hdf5` on any file holding that group
    reloads the class of the written name and re-adds the gases named in the WRITTEN active / inactive lists (as the
    fixed-width cells return them: `sCell`, the identity on names not ending in NUL) that are not fill gases -/
theorem src_taurexchemistry_roundtrip (ww : WWorld α) (hww : WWorldOK ww) (wl : LWorld α) (c : List Nat)
    (attr : String → Option (Value α)) (part : String → Option (SubComp α)) (act inact : List (List Nat))
    (cond : Option (List (List Nat))) (hc : ChemAttrs attr act inact cond) (fg : List (List Nat)) (fr : List α)
    (gs : List (String × Value α)) (hfg : attr "_fill_gases" = some (.list (fg.map .str)))
    (hfr : attr "_fill_ratio" = some (.list (fr.map .float))) (hga : attr "_gases" = none)
    (hgs : part "_gases" = some (.many gs)) (ges : List (String × Node α)) (hges : storeEntries gs = .ok ges)
    (q : List String) (s : Log α) :
    let chemG := chemEntries c act inact cond ++ [("ratio", .num (arrOf fr)), ("fill_gases", stringNode fg)] ++ ges
    SrcC16.taurexchemistry_write ww.ext (.obj (.comp c attr part)) (.obj (.group q)) s
        = (.ok (.obj (.group (q ++ ["Chemistry"]))), s ++ flat q [("Chemistry", .group chemG)]) ∧
      ∀ (top : List (String × Node α)) (kws : List String), top.lookup "Chemistry" = some (.group chemG) →
        Reloadable wl chemG c kws →
        (∀ r ∈ act.map sCell ++ inact.map sCell, GasGood wl chemG (wl.enc r)) →
        SrcC16.load_chemistry wl.ext (.obj (.h5 top)) .none
          = chemistrySpec wl chemG c kws (act.map sCell) (inact.map sCell) := by
  intro chemG
  refine ⟨src_taurexchemistry_write ww hww c attr part act inact cond hc fg fr gs hfg hfr hga hgs ges hges q s, ?_⟩
  intro top kws htop hr hgas
  have ht : chemG.lookup "chemistry_type" = some (.vstr c) := by
    simp [chemG, chemEntries]
  have ha' : chemG.lookup "active_gases" = some (.sfix (cellWidth act) (act.map sCell)) := by
    simp [chemG, chemEntries, List.lookup, stringNode]
  have hi' : chemG.lookup "inactive_gases" = some (.sfix (cellWidth inact) (inact.map sCell)) := by
    simp [chemG, chemEntries, List.lookup, stringNode]
  exact src_load_chemistry wl top chemG c kws _ _ _ _ htop ht hr ha' hi' hgas

/-! ### the whole model -/

/-- the group `ModelParameters` that `TransmissionModel.write` creates, given the groups its parts create -/
def modelGroup (c : List Nat) (ces g1 g2 g3 g4 g5 : List (String × Node α)) (b : Bool) : List (String × Node α) :=
  [("model_type", .vstr c), ("Contributions", .group ces), ("Chemistry", .group g1), ("Temperature", .group g2),
   ("Pressure", .group g3), ("Planet", .group g4), ("Star", .group g5), ("new_path_method", .num ⟨[], .bools [b]⟩)]

/-- **write → load round trip of a `TransmissionModel`**, both sides regenerated.  The model holds a chemistry, a
    temperature profile, a pressure profile, a planet and a star whose own `write` create the groups `Chemistry`,
    `Temperature`, `Pressure`, `Planet`, `Star` with the entries `g1 … g5` (`storeEntries dᵢ`), and contributions whose
    `write` create the entries `ces`.  Then `TransmissionModel.write` (through `SimpleForwardModel.write` and
    `ForwardModel.write`) creates exactly the group `modelGroup …`, and `load_model_from_hdf5` applied to that group reads
    THOSE groups: whatever description `f` of the file the loader's world admits, its component groups are the written ones
    and the loader does `modelSpec` on them (each component reloaded by the class of its stored type string with
    `Output.loadKwargs` of its written group, the model class called with them and its own stored keywords, every
    contribution group reloaded and added in written order). -/
theorem src_transmission_model_roundtrip (ww : WWorld α) (hww : WWorldOK ww) (wl : LWorld α) (c : List Nat)
    (attr : String → Option (Value α)) (part : String → Option (SubComp α)) (cs : List (String × Value α))
    (ha : attr "contribution_list" = none) (hp : part "contribution_list" = some (.many cs))
    (d1 d2 d3 d4 d5 : List (String × Value α))
    (hh : Held attr part ("Chemistry", .dict d1) ("Temperature", .dict d2) ("Pressure", .dict d3) ("Planet", .dict d4)
      ("Star", .dict d5))
    (b : Bool) (hb : attr "new_method" = some (.bool b))
    (ces g1 g2 g3 g4 g5 : List (String × Node α)) (hces : storeEntries cs = .ok ces)
    (h1 : storeEntries d1 = .ok g1) (h2 : storeEntries d2 = .ok g2) (h3 : storeEntries d3 = .ok g3)
    (h4 : storeEntries d4 = .ok g4) (h5 : storeEntries d5 = .ok g5) (q : List String) (s : Log α) :
    SrcC16.transmission_write ww.ext (.obj (.comp c attr part)) (.obj (.group q)) s
        = (.ok (.obj (.group (q ++ ["ModelParameters"]))),
           s ++ flat q [("ModelParameters", .group (modelGroup c ces g1 g2 g3 g4 g5 b))]) ∧
      ∀ f : ModelFile wl (modelGroup c ces g1 g2 g3 g4 g5 b),
        f.chem = g1 ∧ f.temp = g2 ∧ f.press = g3 ∧ f.planet = g4 ∧ f.star = g5 ∧ f.contribs = ces ∧ f.mnm = c ∧
        SrcC16.load_model wl.ext (.obj (.h5 (modelGroup c ces g1 g2 g3 g4 g5 b))) .none
          = modelSpec wl (modelGroup c ces g1 g2 g3 g4 g5 b) f := by
  constructor
  · apply src_transmission_write ww hww c attr part cs ha hp _ _ _ _ _ hh b hb q s
    simp [modelValue, writeComponent, storeThing, storeEntries, hces, h1, h2, h3, h4, h5, modelGroup]
  · intro f
    have e1 := f.hchem
    have e2 := f.htemp
    have e3 := f.hpress
    have e4 := f.hplanet
    have e5 := f.hstar
    have e6 := f.hcontribs
    have e7 := f.hmtype
    simp [modelGroup, List.lookup] at e1 e2 e3 e4 e5 e6 e7
    exact ⟨e1.symm, e2.symm, e3.symm, e4.symm, e5.symm, e6.symm, e7.symm, src_load_model wl _ f⟩

/-! ### star, planet, pressure profile, gas profiles, contributions -/

/-- a component record written under the group `name` with its class name under `typeKey` and entries that are scalars,
    arrays of dimension ≥ 1 and strings (`WfLeaf`): it is stored as one group whose content the loader accepts -/
theorem typed_written (wl : LWorld α) (name typeKey : String) (c : List Nat) (entries : List (String × Value α))
    (ctorKw : List String) (hl : ∀ e ∈ entries, WfLeaf e.2) (hk : ∀ kw ∈ ctorKw, kw ≠ typeKey)
    (hkl : wl.klassOf c = some ctorKw) (hn : ctorKw.Nodup) :
    ∃ ch, storeThing name (writeComponent typeKey c entries) = .ok [(name, .group ch)] ∧
      ch.lookup typeKey = some (.vstr c) ∧ Reloadable wl ch c ctorKw ∧
      loadKwargs ch ctorKw = ctorKw.filterMap (fun kw => (entries.lookup kw).map (fun v => (kw, v))) := by
  have hwf := wfEntries_wfl entries hl
  have hwf' : wfVal (writeComponent typeKey c entries) = true := by
    simp [writeComponent, wfVal, wfEntries, hwf]
  obtain ⟨n, hst, -⟩ := storeThing_wf name _ hwf'
  obtain ⟨ch, he, htype, hr, hkw⟩ := written_reloadable wl typeKey c entries ctorKw hwf (notDict_wfl entries hl) hk
    name _ hst hkl hn
  exact ⟨ch, by rw [hst, he], htype, hr, hkw⟩

/-- a dictionary (no type string: a contribution's group) written under the group `name` with `WfLeaf` entries -/
theorem untyped_written (wl : LWorld α) (name : String) (c : List Nat) (entries : List (String × Value α))
    (ctorKw : List String) (hl : ∀ e ∈ entries, WfLeaf e.2) (hkl : wl.klassOf c = some ctorKw) (hn : ctorKw.Nodup) :
    ∃ ch, storeThing name (.dict entries) = .ok [(name, .group ch)] ∧ Reloadable wl ch c ctorKw ∧
      loadKwargs ch ctorKw = ctorKw.filterMap (fun kw => (entries.lookup kw).map (fun v => (kw, v))) := by
  obtain ⟨ch, hc, hld, -⟩ := storeEntries_wf entries (wfEntries_wfl entries hl)
  refine ⟨ch, by rw [storeThing_dict, hc], ⟨hkl, hn, ?_⟩, by rw [loadKwargs_eq, hld]⟩
  intro kw hkw n hlk
  cases n with
  | group g =>
    exfalso
    have h3 : (loadEntries ch).lookup kw = some (.dict (loadEntries g)) := by
      rw [lookup_loadEntries, hlk]; simp [load]
    rw [hld] at h3
    have := notDict_wfl entries hl _ (lookup_mem h3)
    simp [isDict] at this
  | _ => rfl

section
variable (ww : WWorld α) (hww : WWorldOK ww) (wl : LWorld α) (c : List Nat) (attr : String → Option (Value α))
  (part : String → Option (SubComp α)) (ctorKw : List String) (hkl : wl.klassOf c = some ctorKw) (hn : ctorKw.Nodup)
  (q : List String) (s : Log α)
include hww hkl hn

/-- **write → load round trip of `Star` / `BlackbodyStar`**, both sides regenerated: `Star.write` creates one group `Star`
    (`ch`), and `load_star_from_hdf5` on any file holding that group calls the class of the written name with those of the
    written entries (temperature, radius and mass in solar units, distance, K magnitude, metallicity, …) that are
    constructor keywords, in constructor order -/
theorem src_star_roundtrip (hk : ∀ kw ∈ ctorKw, kw ≠ "star_type") (T D mK met R : Value α) (r m rsol msol : α)
    (sed : Arr α) (hT : Scalar T) (hD : Scalar D) (hmK : Scalar mK) (hmet : Scalar met) (hR : Scalar R)
    (hsed : (sed.shape != []) = true)
    (h1 : attr "temperature" = some T) (h2 : attr "_radius" = some (.float r)) (h3 : attr "distance" = some D)
    (h4 : attr "_mass" = some (.float m)) (h5 : attr "magnitudeK" = some mK) (h6 : attr "_metallicity" = some met)
    (h7 : attr "radius" = some R) (h8 : attr "spectralEmissionDensity" = some (.array sed))
    (hc1 : ww.consts "RSOL" = some rsol) (hc2 : ww.consts "MSOL" = some msol)
    (hz1 : FloatLike.isZero rsol = false) (hz2 : FloatLike.isZero msol = false) :
    ∃ ch, SrcC16.star_write ww.ext (.obj (.comp c attr part)) (.obj (.group q)) s
        = (.ok (.obj (.group (q ++ ["Star"]))), s ++ flat q [("Star", .group ch)]) ∧
      ∀ top : List (String × Node α), top.lookup "Star" = some (.group ch) →
        SrcC16.load_star wl.ext (.obj (.h5 top)) .none
          = wl.call (.klass c ctorKw) []
              (embKwL wl.enc (ctorKw.filterMap (fun kw =>
                ([("temperature", T), ("radius", .float (ww.div r rsol)), ("distance", D),
                  ("mass", .float (ww.div m msol)), ("magnitudeK", mK), ("metallicity", met), ("radius_m", R),
                  ("SED", .array sed), ("mass_kg", .float m)].lookup kw).map (fun v => (kw, v))))) := by
  obtain ⟨ch, hst, htype, hr, hkw⟩ := typed_written wl "Star" "star_type" c
    [("temperature", T), ("radius", .float (ww.div r rsol)), ("distance", D), ("mass", .float (ww.div m msol)),
     ("magnitudeK", mK), ("metallicity", met), ("radius_m", R), ("SED", .array sed), ("mass_kg", .float m)] ctorKw
    (wfl_cons (wfLeaf_scalar hT) (wfl_cons (wfLeaf_scalar (scalar_float _)) (wfl_cons (wfLeaf_scalar hD)
      (wfl_cons (wfLeaf_scalar (scalar_float _)) (wfl_cons (wfLeaf_scalar hmK) (wfl_cons (wfLeaf_scalar hmet)
      (wfl_cons (wfLeaf_scalar hR) (wfl_cons (wfLeaf_array _ hsed) (wfl_cons (wfLeaf_scalar (scalar_float _))
      wfl_nil))))))))) hk hkl hn
  refine ⟨ch, src_star_write ww hww c attr part T D mK met R r m rsol msol sed hT hD hmK hmet hR h1 h2 h3 h4 h5 h6 h7 h8
    hc1 hc2 hz1 hz2 q s _ hst, fun top htop => ?_⟩
  rw [src_load_star wl top ch c ctorKw htop htype hr, hkw]

/-- **write → load round trip of `Planet`**: `BasePlanet.write` creates one group `Planet`; `load_planet_from_hdf5` does
    not read the stored `planet_type` but always calls the class the loader's world knows as `Planet` — so the round trip
    holds for an instance of THAT class (`hnm`; an `Earth` / `Mars` instance is reloaded as a `Planet`), with mass, radius
    and distance in Jupiter / AU units, the impact parameter, orbital period, albedo and transit time as keywords -/
theorem src_planet_roundtrip (hnm : wl.dec "Planet" = c) (hk : ∀ kw ∈ ctorKw, kw ≠ "planet_type")
    (imp per alb tt M R g : Value α) (pm pr pd mjup rjup au : α)
    (himp : Scalar imp) (hper : Scalar per) (halb : Scalar alb) (htt : Scalar tt) (hM : Scalar M) (hR : Scalar R)
    (hg : Scalar g)
    (h1 : attr "_mass" = some (.float pm)) (h2 : attr "_radius" = some (.float pr))
    (h3 : attr "_distance" = some (.float pd)) (h4 : attr "_impact" = some imp) (h5 : attr "orbitalPeriod" = some per)
    (h6 : attr "albedo" = some alb) (h7 : attr "transitTime" = some tt) (h8 : attr "mass" = some M)
    (h9 : attr "radius" = some R) (h10 : attr "gravity" = some g)
    (hc1 : ww.consts "MJUP" = some mjup) (hc2 : ww.consts "RJUP" = some rjup) (hc3 : ww.consts "AU" = some au)
    (hz1 : FloatLike.isZero mjup = false) (hz2 : FloatLike.isZero rjup = false) (hz3 : FloatLike.isZero au = false) :
    ∃ ch, SrcC16.planet_write ww.ext (.obj (.comp c attr part)) (.obj (.group q)) s
        = (.ok (.obj (.group (q ++ ["Planet"]))), s ++ flat q [("Planet", .group ch)]) ∧
      ∀ top : List (String × Node α), top.lookup "Planet" = some (.group ch) →
        SrcC16.load_planet wl.ext (.obj (.h5 top)) .none
          = wl.call (.klass c ctorKw) []
              (embKwL wl.enc (ctorKw.filterMap (fun kw =>
                ([("planet_mass", Value.float (ww.div pm mjup)), ("planet_radius", .float (ww.div pr rjup)),
                  ("planet_distance", .float (ww.div pd au)), ("impact_param", imp), ("orbital_period", per),
                  ("albedo", alb), ("transit_time", tt), ("mass_kg", M), ("radius_m", R),
                  ("surface_gravity", g)].lookup kw).map (fun v => (kw, v))))) := by
  obtain ⟨ch, hst, htype, hr, hkw⟩ := typed_written wl "Planet" "planet_type" c
    [("planet_mass", Value.float (ww.div pm mjup)), ("planet_radius", .float (ww.div pr rjup)),
     ("planet_distance", .float (ww.div pd au)), ("impact_param", imp), ("orbital_period", per), ("albedo", alb),
     ("transit_time", tt), ("mass_kg", M), ("radius_m", R), ("surface_gravity", g)] ctorKw
    (wfl_cons (wfLeaf_scalar (scalar_float _)) (wfl_cons (wfLeaf_scalar (scalar_float _))
      (wfl_cons (wfLeaf_scalar (scalar_float _)) (wfl_cons (wfLeaf_scalar himp) (wfl_cons (wfLeaf_scalar hper)
      (wfl_cons (wfLeaf_scalar halb) (wfl_cons (wfLeaf_scalar htt) (wfl_cons (wfLeaf_scalar hM)
      (wfl_cons (wfLeaf_scalar hR) (wfl_cons (wfLeaf_scalar hg) wfl_nil)))))))))) hk hkl hn
  refine ⟨ch, src_planet_write ww hww c attr part imp per alb tt M R g pm pr pd mjup rjup au himp hper halb htt hM hR hg
    h1 h2 h3 h4 h5 h6 h7 h8 h9 h10 hc1 hc2 hc3 hz1 hz2 hz3 q s _ hst, fun top htop => ?_⟩
  rw [src_load_planet wl top ch c ctorKw htop hnm hr, hkw]

/-- **write → load round trip of `SimplePressureProfile`**: number of layers, maximum and minimum pressure come back as
    the constructor keywords `nlayers`, `atm_max_pressure`, `atm_min_pressure` (the stored `profile` array only if the
    class takes a keyword of that name) -/
theorem src_simplepressure_roundtrip (hk : ∀ kw ∈ ctorKw, kw ≠ "pressure_type") (nl pmax pmin : Value α)
    (prof : Arr α) (hnl : Scalar nl) (hmax : Scalar pmax) (hmin : Scalar pmin) (hprof : (prof.shape != []) = true)
    (h1 : attr "_nlayers" = some nl) (h2 : attr "profile" = some (.array prof))
    (h3 : attr "_atm_max_pressure" = some pmax) (h4 : attr "_atm_min_pressure" = some pmin) :
    ∃ ch, SrcC16.simplepressure_write ww.ext (.obj (.comp c attr part)) (.obj (.group q)) s
        = (.ok (.obj (.group (q ++ ["Pressure"]))), s ++ flat q [("Pressure", .group ch)]) ∧
      ∀ top : List (String × Node α), top.lookup "Pressure" = some (.group ch) →
        SrcC16.load_pressure wl.ext (.obj (.h5 top)) .none
          = wl.call (.klass c ctorKw) []
              (embKwL wl.enc (ctorKw.filterMap (fun kw =>
                ([("nlayers", nl), ("profile", .array prof), ("atm_max_pressure", pmax),
                  ("atm_min_pressure", pmin)].lookup kw).map (fun v => (kw, v))))) := by
  obtain ⟨ch, hst, htype, hr, hkw⟩ := typed_written wl "Pressure" "pressure_type" c
    [("nlayers", nl), ("profile", .array prof), ("atm_max_pressure", pmax), ("atm_min_pressure", pmin)] ctorKw
    (wfl_cons (wfLeaf_scalar hnl) (wfl_cons (wfLeaf_array _ hprof) (wfl_cons (wfLeaf_scalar hmax)
      (wfl_cons (wfLeaf_scalar hmin) wfl_nil)))) hk hkl hn
  refine ⟨ch, src_simplepressure_write ww hww c attr part nl pmax pmin prof hnl hmax hmin h1 h2 h3 h4 q s _ hst,
    fun top htop => ?_⟩
  rw [src_load_pressure wl top ch c ctorKw htop htype hr, hkw]

/-- **write → load round trip of a `PressureProfile`** that does not override `write` -/
theorem src_pressure_roundtrip (hk : ∀ kw ∈ ctorKw, kw ≠ "pressure_type") (nl : Value α) (prof : Arr α)
    (hnl : Scalar nl) (hprof : (prof.shape != []) = true)
    (h1 : attr "_nlayers" = some nl) (h2 : attr "profile" = some (.array prof)) :
    ∃ ch, SrcC16.pressure_write ww.ext (.obj (.comp c attr part)) (.obj (.group q)) s
        = (.ok (.obj (.group (q ++ ["Pressure"]))), s ++ flat q [("Pressure", .group ch)]) ∧
      ∀ top : List (String × Node α), top.lookup "Pressure" = some (.group ch) →
        SrcC16.load_pressure wl.ext (.obj (.h5 top)) .none
          = wl.call (.klass c ctorKw) []
              (embKwL wl.enc (ctorKw.filterMap (fun kw =>
                ([("nlayers", nl), ("profile", Value.array prof)].lookup kw).map (fun v => (kw, v))))) := by
  obtain ⟨ch, hst, htype, hr, hkw⟩ := typed_written wl "Pressure" "pressure_type" c
    [("nlayers", nl), ("profile", .array prof)] ctorKw
    (wfl_cons (wfLeaf_scalar hnl) (wfl_cons (wfLeaf_array _ hprof) wfl_nil)) hk hkl hn
  refine ⟨ch, src_pressure_write ww hww c attr part nl prof hnl h1 h2 q s _ hst, fun top htop => ?_⟩
  rw [src_load_pressure wl top ch c ctorKw htop htype hr, hkw]

/-- **write → load round trip of `ConstantGas`**: the group is named like the molecule (`ww.enc mol`);
    `load_gas_from_hdf5(loc, molecule)` with that name calls the class of the written name with `molecule_name` and
    `mix_ratio` -/
theorem src_constantgas_roundtrip (hk : ∀ kw ∈ ctorKw, kw ≠ "gas_type") (mol : List Nat) (mr : Value α)
    (hmr : Scalar mr) (h1 : attr "molecule" = some (.str mol)) (h2 : attr "_molecule_name" = some (.str mol))
    (h3 : attr "_mix_ratio" = some mr) :
    ∃ ch, SrcC16.constantgas_write ww.ext (.obj (.comp c attr part)) (.obj (.group q)) s
        = (.ok (.obj (.group (q ++ [ww.enc mol]))), s ++ flat q [(ww.enc mol, .group ch)]) ∧
      ∀ top : List (String × Node α), top.lookup (ww.enc mol) = some (.group ch) →
        SrcC16.load_gas wl.ext (.obj (.h5 top)) (.str (ww.enc mol)) .none
          = wl.call (.klass c ctorKw) []
              (embKwL wl.enc (ctorKw.filterMap (fun kw =>
                ([("molecule_name", Value.str mol), ("mix_ratio", mr)].lookup kw).map (fun v => (kw, v))))) := by
  obtain ⟨ch, hst, htype, hr, hkw⟩ := typed_written wl (ww.enc mol) "gas_type" c
    [("molecule_name", Value.str mol), ("mix_ratio", mr)] ctorKw
    (wfl_cons (wfLeaf_str _) (wfl_cons (wfLeaf_scalar hmr) wfl_nil)) hk hkl hn
  refine ⟨ch, src_constantgas_write ww hww c attr part mol mr hmr h1 h2 h3 q s _ hst, fun top htop => ?_⟩
  rw [src_load_gas wl top ch c ctorKw (ww.enc mol) htop htype hr, hkw]

/-- **write → load round trip of `TwoLayerGas`** -/
theorem src_twolayergas_roundtrip (hk : ∀ kw ∈ ctorKw, kw ≠ "gas_type") (mol : List Nat) (top' surf P sm : Value α)
    (htop' : Scalar top') (hsurf : Scalar surf) (hP : Scalar P) (hsm : Scalar sm)
    (h1 : attr "molecule" = some (.str mol)) (h2 : attr "_molecule_name" = some (.str mol))
    (h3 : attr "mixRatioTop" = some top') (h4 : attr "mixRatioSurface" = some surf)
    (h5 : attr "mixRatioPressure" = some P) (h6 : attr "mixRatioSmoothing" = some sm) :
    ∃ ch, SrcC16.twolayergas_write ww.ext (.obj (.comp c attr part)) (.obj (.group q)) s
        = (.ok (.obj (.group (q ++ [ww.enc mol]))), s ++ flat q [(ww.enc mol, .group ch)]) ∧
      ∀ top : List (String × Node α), top.lookup (ww.enc mol) = some (.group ch) →
        SrcC16.load_gas wl.ext (.obj (.h5 top)) (.str (ww.enc mol)) .none
          = wl.call (.klass c ctorKw) []
              (embKwL wl.enc (ctorKw.filterMap (fun kw =>
                ([("molecule_name", Value.str mol), ("mix_ratio_top", top'), ("mix_ratio_surface", surf),
                  ("mix_ratio_P", P), ("mix_ratio_smoothing", sm)].lookup kw).map (fun v => (kw, v))))) := by
  obtain ⟨ch, hst, htype, hr, hkw⟩ := typed_written wl (ww.enc mol) "gas_type" c
    [("molecule_name", Value.str mol), ("mix_ratio_top", top'), ("mix_ratio_surface", surf), ("mix_ratio_P", P),
     ("mix_ratio_smoothing", sm)] ctorKw
    (wfl_cons (wfLeaf_str _) (wfl_cons (wfLeaf_scalar htop') (wfl_cons (wfLeaf_scalar hsurf) (wfl_cons (wfLeaf_scalar hP)
      (wfl_cons (wfLeaf_scalar hsm) wfl_nil))))) hk hkl hn
  refine ⟨ch, src_twolayergas_write ww hww c attr part mol top' surf P sm htop' hsurf hP hsm h1 h2 h3 h4 h5 h6 q s _ hst,
    fun top htop => ?_⟩
  rw [src_load_gas wl top ch c ctorKw (ww.enc mol) htop htype hr, hkw]

/-- **write → load round trip of `TwoPointGas`** -/
theorem src_twopointgas_roundtrip (hk : ∀ kw ∈ ctorKw, kw ≠ "gas_type") (mol : List Nat) (top' surf : Value α)
    (htop' : Scalar top') (hsurf : Scalar surf)
    (h1 : attr "molecule" = some (.str mol)) (h2 : attr "_molecule_name" = some (.str mol))
    (h3 : attr "mixRatioTop" = some top') (h4 : attr "mixRatioSurface" = some surf) :
    ∃ ch, SrcC16.twopointgas_write ww.ext (.obj (.comp c attr part)) (.obj (.group q)) s
        = (.ok (.obj (.group (q ++ [ww.enc mol]))), s ++ flat q [(ww.enc mol, .group ch)]) ∧
      ∀ top : List (String × Node α), top.lookup (ww.enc mol) = some (.group ch) →
        SrcC16.load_gas wl.ext (.obj (.h5 top)) (.str (ww.enc mol)) .none
          = wl.call (.klass c ctorKw) []
              (embKwL wl.enc (ctorKw.filterMap (fun kw =>
                ([("molecule_name", Value.str mol), ("mix_ratio_top", top'),
                  ("mix_ratio_surface", surf)].lookup kw).map (fun v => (kw, v))))) := by
  obtain ⟨ch, hst, htype, hr, hkw⟩ := typed_written wl (ww.enc mol) "gas_type" c
    [("molecule_name", Value.str mol), ("mix_ratio_top", top'), ("mix_ratio_surface", surf)] ctorKw
    (wfl_cons (wfLeaf_str _) (wfl_cons (wfLeaf_scalar htop') (wfl_cons (wfLeaf_scalar hsurf) wfl_nil))) hk hkl hn
  refine ⟨ch, src_twopointgas_write ww hww c attr part mol top' surf htop' hsurf h1 h2 h3 h4 q s _ hst,
    fun top htop => ?_⟩
  rw [src_load_gas wl top ch c ctorKw (ww.enc mol) htop htype hr, hkw]

/-- **write → load round trip of `PowerGas`**: the profile type and exactly those coefficients that were not `None` come
    back as keywords (a coefficient left to the automatic profile stays unset, so the reloaded profile recomputes it) -/
theorem src_powergas_roundtrip (hk : ∀ kw ∈ ctorKw, kw ≠ "gas_type") (mol pt : List Nat) (al surf be ga : Value α)
    (hal : al = .unsupported ∨ Scalar al) (hsurf : surf = .unsupported ∨ Scalar surf)
    (hbe : be = .unsupported ∨ Scalar be) (hga : ga = .unsupported ∨ Scalar ga)
    (h1 : attr "molecule" = some (.str mol)) (h2 : attr "_molecule_name" = some (.str mol))
    (h3 : attr "_profile_type" = some (.str pt)) (h4 : attr "alpha" = some al) (h5 : attr "mixRatioSurface" = some surf)
    (h6 : attr "beta" = some be) (h7 : attr "gamma" = some ga) :
    ∃ ch, SrcC16.powergas_write ww.ext (.obj (.comp c attr part)) (.obj (.group q)) s
        = (.ok (.obj (.group (q ++ [ww.enc mol]))), s ++ flat q [(ww.enc mol, .group ch)]) ∧
      ∀ top : List (String × Node α), top.lookup (ww.enc mol) = some (.group ch) →
        SrcC16.load_gas wl.ext (.obj (.h5 top)) (.str (ww.enc mol)) .none
          = wl.call (.klass c ctorKw) []
              (embKwL wl.enc (ctorKw.filterMap (fun kw =>
                (([("molecule_name", Value.str mol), ("profile_type", .str pt)] ++
                  present [("alpha", al), ("mix_ratio_surface", surf), ("beta", be), ("gamma", ga)]).lookup kw).map
                  (fun v => (kw, v))))) := by
  have hopt : ∀ e ∈ [("alpha", al), ("mix_ratio_surface", surf), ("beta", be), ("gamma", ga)],
      e.2 = Value.unsupported ∨ Scalar e.2 := by
    intro e he
    simp only [List.mem_cons, List.not_mem_nil, or_false] at he
    rcases he with rfl | rfl | rfl | rfl <;> assumption
  obtain ⟨ch, hst, htype, hr, hkw⟩ := typed_written wl (ww.enc mol) "gas_type" c
    ([("molecule_name", Value.str mol), ("profile_type", .str pt)] ++
      present [("alpha", al), ("mix_ratio_surface", surf), ("beta", be), ("gamma", ga)]) ctorKw
    (wfl_append (wfl_cons (wfLeaf_str _) (wfl_cons (wfLeaf_str _) wfl_nil))
      (fun e he => wfLeaf_scalar (present_leaves _ hopt e he))) hk hkl hn
  refine ⟨ch, src_powergas_write ww hww c attr part mol pt al surf be ga hal hsurf hbe hga h1 h2 h3 h4 h5 h6 h7 q s _ hst,
    fun top htop => ?_⟩
  rw [src_load_gas wl top ch c ctorKw (ww.enc mol) htop htype hr, hkw]

/-- **write → load round trip of a contribution that stores nothing** (`Contribution.write`: `AbsorptionContribution`,
    `RayleighContribution`): the group is named like the class and `load_contrib_from_hdf5(loc, name)` calls the class
    the loader's world knows under that name (`hnm`: the same class) with no keyword -/
theorem src_contribution_roundtrip (hnm : wl.dec (ww.enc c) = c) :
    ∃ ch, SrcC16.contribution_write ww.ext (.obj (.comp c attr part)) (.obj (.group q)) s
        = (.ok (.obj (.group (q ++ [ww.enc c]))), s ++ flat q [(ww.enc c, .group ch)]) ∧
      ∀ top : List (String × Node α), top.lookup (ww.enc c) = some (.group ch) →
        SrcC16.load_contrib wl.ext (.obj (.h5 top)) (.str (ww.enc c)) .none
          = wl.call (.klass c ctorKw) []
              (embKwL wl.enc (ctorKw.filterMap (fun kw =>
                (([] : List (String × Value α)).lookup kw).map (fun v => (kw, v))))) := by
  obtain ⟨ch, hst, hr, hkw⟩ := untyped_written wl (ww.enc c) c [] ctorKw wfl_nil hkl hn
  refine ⟨ch, src_contribution_write ww hww c attr part q s _ hst, fun top htop => ?_⟩
  rw [src_load_contrib wl top ch c ctorKw (ww.enc c) htop hnm hr, hkw]

/-- **write → load round trip of `SimpleCloudsContribution`**: the cloud-top pressure comes back as `clouds_pressure` -/
theorem src_simpleclouds_roundtrip (hnm : wl.dec (ww.enc c) = c) (P : Value α) (hP : Scalar P)
    (h1 : attr "_cloud_pressure" = some P) :
    ∃ ch, SrcC16.simpleclouds_write ww.ext (.obj (.comp c attr part)) (.obj (.group q)) s
        = (.ok (.obj (.group (q ++ [ww.enc c]))), s ++ flat q [(ww.enc c, .group ch)]) ∧
      ∀ top : List (String × Node α), top.lookup (ww.enc c) = some (.group ch) →
        SrcC16.load_contrib wl.ext (.obj (.h5 top)) (.str (ww.enc c)) .none
          = wl.call (.klass c ctorKw) []
              (embKwL wl.enc (ctorKw.filterMap (fun kw =>
                ([("clouds_pressure", P)].lookup kw).map (fun v => (kw, v))))) := by
  obtain ⟨ch, hst, hr, hkw⟩ := untyped_written wl (ww.enc c) c [("clouds_pressure", P)] ctorKw
    (wfl_cons (wfLeaf_scalar hP) wfl_nil) hkl hn
  refine ⟨ch, src_simpleclouds_write ww hww c attr part P hP h1 q s _ hst, fun top htop => ?_⟩
  rw [src_load_contrib wl top ch c ctorKw (ww.enc c) htop hnm hr, hkw]

/-- **write → load round trip of `FlatMieContribution`** -/
theorem src_flatmie_roundtrip (hnm : wl.dec (ww.enc c) = c) (mix bot top' : Value α) (hmix : Scalar mix)
    (hbot : Scalar bot) (htop' : Scalar top') (h1 : attr "_mie_mix" = some mix)
    (h2 : attr "_mie_bottom_pressure" = some bot) (h3 : attr "_mie_top_pressure" = some top') :
    ∃ ch, SrcC16.flatmie_write ww.ext (.obj (.comp c attr part)) (.obj (.group q)) s
        = (.ok (.obj (.group (q ++ [ww.enc c]))), s ++ flat q [(ww.enc c, .group ch)]) ∧
      ∀ top : List (String × Node α), top.lookup (ww.enc c) = some (.group ch) →
        SrcC16.load_contrib wl.ext (.obj (.h5 top)) (.str (ww.enc c)) .none
          = wl.call (.klass c ctorKw) []
              (embKwL wl.enc (ctorKw.filterMap (fun kw =>
                ([("flat_mix_ratio", mix), ("flat_bottomP", bot), ("flat_topP", top')].lookup kw).map
                  (fun v => (kw, v))))) := by
  obtain ⟨ch, hst, hr, hkw⟩ := untyped_written wl (ww.enc c) c
    [("flat_mix_ratio", mix), ("flat_bottomP", bot), ("flat_topP", top')] ctorKw
    (wfl_cons (wfLeaf_scalar hmix) (wfl_cons (wfLeaf_scalar hbot) (wfl_cons (wfLeaf_scalar htop') wfl_nil))) hkl hn
  refine ⟨ch, src_flatmie_write ww hww c attr part mix bot top' hmix hbot htop' h1 h2 h3 q s _ hst, fun top htop => ?_⟩
  rw [src_load_contrib wl top ch c ctorKw (ww.enc c) htop hnm hr, hkw]

/-- **write → load of `CIAContribution`**: `CIAContribution.write` creates the group named like the class holding the
    pair names as ONE fixed-width string array `cia_pairs`; `load_contrib_from_hdf5` on it calls the class with what
    `Output.loadKwargs` collects from that group.  (The stored array reads back as the list of the cells, `sCell` of the
    names: the identity on names not ending in NUL.) -/
theorem src_cia_roundtrip (hnm : wl.dec (ww.enc c) = c) (pairs : List (List Nat))
    (h1 : attr "ciaPairs" = some (.list (pairs.map .str))) :
    let g : List (String × Node α) := if pairs = [] then [] else [("cia_pairs", stringNode pairs)]
    SrcC16.cia_write ww.ext (.obj (.comp c attr part)) (.obj (.group q)) s
        = (.ok (.obj (.group (q ++ [ww.enc c]))), s ++ flat q [(ww.enc c, .group g)]) ∧
      ∀ top : List (String × Node α), top.lookup (ww.enc c) = some (.group g) →
        SrcC16.load_contrib wl.ext (.obj (.h5 top)) (.str (ww.enc c)) .none
          = wl.call (.klass c ctorKw) [] (embKwL wl.enc (loadKwargs g ctorKw)) := by
  intro g
  have hst : storeThing (ww.enc c)
      (.dict (if pairs = [] then [] else [("cia_pairs", Value.list (pairs.map .str))])) = .ok [(ww.enc c, .group g)] := by
    cases pairs with
    | nil => simp [g, storeThing, storeEntries]
    | cons p ps =>
      have hne : (p :: ps = []) = False := by simp
      have hany : (List.map Value.str (p :: ps) : List (Value α)).any isStr = true := by simp [isStr]
      have he : storeEntries [("cia_pairs", Value.list (List.map Value.str (p :: ps) : List (Value α)))]
          = .ok [("cia_pairs", stringNode (p :: ps))] := by
        simp only [storeEntries, storeThing, hany, if_true, stringList_strs]
        rfl
      simp only [g, hne, if_false, storeThing_dict, he]
  refine ⟨src_cia_write ww hww c attr part pairs h1 q s _ hst, fun top htop => ?_⟩
  refine src_load_contrib wl top g c ctorKw (ww.enc c) htop hnm ⟨hkl, hn, ?_⟩
  intro kw hkw n hlk
  cases pairs with
  | nil => simp [g] at hlk
  | cons p ps =>
    have hne : (p :: ps = []) = False := by simp
    simp only [g, hne, if_false, List.lookup_cons] at hlk
    cases hb : (kw == "cia_pairs") with
    | true =>
      rw [hb] at hlk
      simp only [Option.some.injEq] at hlk
      subst hlk
      rfl
    | false =>
      rw [hb] at hlk
      simp at hlk

end

end roundtrip

/-! ## spectrum dictionaries -/

section spectrum
variable {α : Type} [Add α] [Sub α] [Mul α] [Div α] [Neg α] [LT α] [DecidableLT α]
  [OfNat α 0] [OfNat α 2] [OfNat α 10000] [BEq α] [FloatLike α]

/-- the regenerated `generate_spectrum_output(model_output, output_size)` of the binner class `kind` -/
def srcGso (kind : BinnerKind) (w : GWorld α) (grid width wn flux : List α) (tau : List (List α)) (n : Nat) :
    GM (GV α) :=
  match kind with
  | .flux => SrcC16.fluxbinner_gso w.ext (.obj (.binner grid width)) (modelOutput wn flux tau) (.obj (.size n))
  | .simple => SrcC16.simplebinner_gso w.ext (.obj (.binner grid width)) (modelOutput wn flux tau) (.obj (.size n))
  | .native => SrcC16.nativebinner_gso w.ext (modelOutput wn flux tau) (.obj (.size n))

theorem srcGso_eq (kind : BinnerKind) (w : GWorld α) (grid width wn flux : List α) (tau : List (List α)) (n : Nat) :
    srcGso kind w grid width wn flux tau n
      = .ok (embOut (spectrumOutput kind grid width w.bd w.bdTau n wn flux tau)) := by
  cases kind
  · exact src_fluxbinner_gso w grid width wn flux tau n
  · exact src_simplebinner_gso w grid width wn flux tau n
  · exact src_nativebinner_gso w grid width wn flux tau n

/-- `d[key]` on the Python dict of a spectrum dictionary -/
theorem dictGet_embOut (out : List (String × Entry α)) (k : String) :
    Dyn.dictGet? (out.map (fun kv => ((.str kv.1 : GV α), embEntry kv.2))) (.str k) = (out.lookup k).map embEntry := by
  induction out with
  | nil => rfl
  | cons kv t ih =>
    obtain ⟨a, e⟩ := kv
    by_cases h : a = k
    · subst h
      simp [Dyn.dictGet?, Dyn.Val.beq, List.lookup]
    · have h' : (k == a) = false := by simpa using fun hh : k = a => h hh.symm
      simp [Dyn.dictGet?, Dyn.Val.beq, List.lookup, h, h', ih]

/-- `key in d` on the Python dict of a spectrum dictionary -/
theorem dictHas_embOut (out : List (String × Entry α)) (k : String) :
    Dyn.dictHas (out.map (fun kv => ((.str kv.1 : GV α), embEntry kv.2))) (.str k) = true ↔ k ∈ keysOf out := by
  induction out with
  | nil => simp [Dyn.dictHas, keysOf]
  | cons kv t ih =>
    obtain ⟨a, e⟩ := kv
    simp only [Dyn.dictHas, keysOf, List.map_cons, List.any_cons, List.mem_cons, Bool.or_eq_true] at ih ⊢
    rw [ih]
    have e : Dyn.Val.beq (.str a : GV α) (.str k) = (a == k) := by simp only [Dyn.Val.beq]
    rw [e, beq_iff_eq]
    exact or_congr eq_comm Iff.rfl

variable (w : GWorld α) (grid width wn flux : List α) (tau : List (List α)) (size : Nat)

/-- **tau_keys**, about the regenerated `generate_spectrum_output` of FluxBinner / SimpleBinner: optical depths are
    present according to the requested output size -/
theorem src_tau_keys (kind : BinnerKind) (hk : kind ≠ .native) :
    ∃ d, srcGso kind w grid width wn flux tau size = .ok (.dict d) ∧
      (Dyn.dictHas d (.str "binned_tau") = true ↔ size > sizeLighter) ∧
      (Dyn.dictHas d (.str "native_tau") = true ↔ size > sizeLight) := by
  refine ⟨_, srcGso_eq kind w grid width wn flux tau size, ?_⟩
  rw [dictHas_embOut, dictHas_embOut]
  exact tau_keys grid width w.bd w.bdTau size wn flux tau kind hk

/-- **tau_keys_native**, about the regenerated `NativeBinner.generate_spectrum_output` -/
theorem src_tau_keys_native :
    ∃ d, srcGso .native w grid width wn flux tau size = .ok (.dict d) ∧
      ¬ Dyn.dictHas d (.str "binned_tau") = true ∧
      (Dyn.dictHas d (.str "native_tau") = true ↔ size > sizeLight) := by
  refine ⟨_, srcGso_eq .native w grid width wn flux tau size, ?_⟩
  rw [dictHas_embOut, dictHas_embOut]
  exact tau_keys_native grid width w.bd w.bdTau size wn flux tau

/-- **wl_of_wn**, about the regenerated `generate_spectrum_output`: the stored wavelength grids are 10000/wavenumber -/
theorem src_wl_of_wn (kind : BinnerKind) :
    ∃ d, srcGso kind w grid width wn flux tau size = .ok (.dict d) ∧
      Dyn.dictGet? d (.str "native_wngrid") = some (.obj (.vec wn)) ∧
      Dyn.dictGet? d (.str "native_wlgrid") = some (.obj (.vec (wn.map (fun x => 10000 / x)))) ∧
      (kind ≠ .native → Dyn.dictGet? d (.str "binned_wngrid") = some (.obj (.vec grid)) ∧
        Dyn.dictGet? d (.str "binned_wlgrid") = some (.obj (.vec (grid.map (fun x => 10000 / x))))) := by
  refine ⟨_, srcGso_eq kind w grid width wn flux tau size, ?_⟩
  obtain ⟨h1, h2, h3⟩ := wl_of_wn grid width w.bd w.bdTau size wn flux tau kind
  refine ⟨?_, ?_, fun hk => ⟨?_, ?_⟩⟩
  · rw [dictGet_embOut, h1]; rfl
  · rw [dictGet_embOut, h2]; rfl
  · rw [dictGet_embOut, (h3 hk).1]; rfl
  · rw [dictGet_embOut, (h3 hk).2]; rfl

/-- **wlwidth_formula**, about the regenerated `generate_spectrum_output`: `binned_wlwidth[i] =
    10000·binned_wnwidth[i] / binned_wngrid[i]²` on the binner's own centres and widths -/
theorem src_wlwidth_formula (kind : BinnerKind) (hk : kind ≠ .native) :
    ∃ d, srcGso kind w grid width wn flux tau size = .ok (.dict d) ∧
      Dyn.dictGet? d (.str "binned_wngrid") = some (.obj (.vec grid)) ∧
      Dyn.dictGet? d (.str "binned_wnwidth") = some (.obj (.vec width)) ∧
      Dyn.dictGet? d (.str "binned_wlwidth")
        = some (.obj (.vec (List.zipWith (fun g w => 10000 * w / (g * g)) grid width))) := by
  refine ⟨_, srcGso_eq kind w grid width wn flux tau size, ?_⟩
  obtain ⟨h1, h2, h3⟩ := wlwidth_formula grid width w.bd w.bdTau size wn flux tau kind hk
  refine ⟨?_, ?_, ?_⟩
  · rw [dictGet_embOut, h1]; rfl
  · rw [dictGet_embOut, h2]; rfl
  · rw [dictGet_embOut, h3]; rfl

/-- **binned_is_bindown**, about the regenerated `generate_spectrum_output`: the stored binned spectrum is the binner
    applied to the stored native spectrum (and, when present, the binned optical depth the binner applied to the optical
    depth) -/
theorem src_binned_is_bindown (kind : BinnerKind) (hk : kind ≠ .native) :
    ∃ d, srcGso kind w grid width wn flux tau size = .ok (.dict d) ∧
      Dyn.dictGet? d (.str "native_wngrid") = some (.obj (.vec wn)) ∧
      Dyn.dictGet? d (.str "native_spectrum") = some (.obj (.vec flux)) ∧
      Dyn.dictGet? d (.str "binned_spectrum") = some (.obj (.vec (w.bd wn flux))) ∧
      (size > sizeLighter → Dyn.dictGet? d (.str "binned_tau") = some (.obj (.mat (w.bdTau wn tau)))) ∧
      (size > sizeLight → Dyn.dictGet? d (.str "native_tau") = some (.obj (.mat tau))) := by
  refine ⟨_, srcGso_eq kind w grid width wn flux tau size, ?_⟩
  obtain ⟨h1, h2, h3, h4, h5⟩ := binned_is_bindown grid width w.bd w.bdTau size wn flux tau kind hk
  refine ⟨?_, ?_, ?_, fun hs => ?_, fun hs => ?_⟩
  · rw [dictGet_embOut, h1]; rfl
  · rw [dictGet_embOut, h2]; rfl
  · rw [dictGet_embOut, h3]; rfl
  · rw [dictGet_embOut, h4 hs]; rfl
  · rw [dictGet_embOut, h5 hs]; rfl

end spectrum

end Taurex.C16SrcProps
