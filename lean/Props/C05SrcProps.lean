/-
  C05 — the property theorems restated about the REGENERATED source.  `Props/C05Src.lean` proves that the definitions
  translated on every run from `FluxBinner.bindown` (its four calling patterns: with / without `grid_width`, with / without
  `error`), `FluxBinner.__init__` (three width modes), `util.bindown` and `NativeBinner.bindown` compute the model's
  `fluxBindown`, `fluxBindownErr`, `targetBins`, `histMean1`, `nativeBindown`; `Props/C05.lean` proves the property about
  these.  The corollaries below compose the two: they are statements about the text of the code as it is now, at the real
  carrier.

  What is composed.  The arrays the code receives are the columns of the rows (`wngrid = rows.map Row.c`, `spectrum =
  rows.map Row.s`, `grid_width = rows.map Row.w`, `error = rows.map Row.e`), exactly as in the tie theorems.
    * `srcBindown explicit rows targets` = the binned spectrum `FluxBinner.bindown(…)[1]` of the regenerated method
      (`explicit`: `grid_width` passed; otherwise mid-point widths from the regenerated `compute_bin_edges`), for a binner
      whose attributes are the columns of `targets`; `srcBin … i` its entry `i`, the model's `fluxBinVal Row.s (nativeBins
      explicit rows) t.lo t.hi` for the target `t = targets[i]` (hypothesis `targets[i]? = some t` kept visible).
      `srcErr … i`: entry `i` of the binned error `…[2]` when `error` is passed.
    * `srcInit mode ts` = what the regenerated `FluxBinner.__init__` stores (`_wngrid`, `_wngrid_width`); tie hypothesis:
      a non-empty grid when no widths are given.
    * `srcHist rows nb` = the regenerated `util.bindown` on 1-D data, with `np.histogram` instantiated by its documented
      behaviour (`npHistogram`, `npHistogramW`: the ASSUMPTION of the tie); tie hypothesis `nb ≠ []`.
    * `Gen.SrcC05.nativebinner_bindown`.
    * `srcHistN rows nb` = the regenerated `util.bindown` on ONE ROW of 2-D data (the `np.digitize` path: the leading axis is
      lifted by the translator, the code is point-wise in it), `np.digitize(…, right=True)` instantiated by numpy's
      evaluation for increasing edges (`npDigitize`: the number of edges below the point — the ASSUMPTION of the tie);
      `= histMeanN` for strictly increasing edges (`srcHistN_eq`; tie hypotheses `nb ≠ []`, `(histEdges nb).Pairwise (<)`);
      the `histMeanN` conjuncts of `hist_mean` / `hist_perm_native` are restated (`src_hist_mean_nd`,
      `src_hist_perm_native_nd`).
    * `Gen.SrcC05.fluxbinner_bindown_s`: `FluxBinner.bindown` called with ONE number as `grid_width`; it is `srcBindown true`
      of the rows with every width set to that number (`src_bindown_scalar_eq`), so every statement about `srcBindown true`
      applies.
  The spectrum of the source is always the column `Row.s`, the error the column `Row.e` (the model theorems quantify over
  an arbitrary `val : Row ℝ → ℝ`; every such spectrum is the `s` column of some rows).  `src_linear` therefore takes the two
  spectra to be the columns `s` and `e` of the rows (two arbitrary spectra on one grid) and `withSpectrum` to put a
  combination of them in the spectrum column; `fluxBinVal_map` / `nativeBins_map` (the binned value only reads a row's
  spectrum through `val`) carry this through the sort.

  Not restated (no tie)
    * `window_is_overlap`, the second conjunct of `outside_is_zero` and the first of `outside_range_is_skipped`: about the
      model's `window` / `slice`, loop-internal values `bindown` does not return (the conjuncts about the returned value ARE
      restated, the others kept as they are, about the model).
    * `sorted_is_perm`: the source sorts columns, not rows; there is no regenerated expression for the sorted row list.
    * `Binner.generate_spectrum_output`: no statement of C05 is about it; it is regenerated and tied for all four binner classes
      in `Props/C16Src.lean` / `Props/C16SrcProps.lean` (generic in `self.bindown`, which is the function tied here).
    * `disjoint_bins_are_ordered`, `midpoint_bins_ordered`, `linear_grid_ordered`, `geometric_grid_ordered`, `perm_spec`:
      statements about the guard `OrderedBins` / the specification `overlapMeanSpec` only (no function of the code in the
      conclusion); the grid-family results they feed, `flux_is_overlap_mean_linear / _geometric`, are restated.
-/
import Props.C05
import Props.C05Src
set_option linter.unusedSectionVars false

namespace Taurex.C05SrcProps
open Taurex.Binning Taurex.Gen Taurex.C05 Taurex.C05Src

/-! ### `FluxBinner.bindown` -/

/-- `FluxBinner.bindown(wngrid, spectrum[, grid_width])[1]` of the regenerated method for a binner with attributes
    `attrs = (_wngrid, _wngrid_width)` -/
noncomputable def srcBindownAttr (explicit : Bool) (rows : List (Row ℝ)) (attrs : List ℝ × List ℝ) : List ℝ :=
  if explicit then
    (SrcC05.fluxbinner_bindown_w (rows.map Row.c) (rows.map Row.s) (rows.map Row.w) attrs.1 attrs.2).2.1
  else (SrcC05.fluxbinner_bindown (rows.map Row.c) (rows.map Row.s) attrs.1 attrs.2).2.1

/-- … for the binner whose (sorted) bins are `targets` -/
noncomputable def srcBindown (explicit : Bool) (rows : List (Row ℝ)) (targets : List (TBin ℝ)) : List ℝ :=
  srcBindownAttr explicit rows (targets.map TBin.c, targets.map TBin.w)

theorem srcBindown_eq (explicit : Bool) (rows : List (Row ℝ)) (targets : List (TBin ℝ)) :
    srcBindown explicit rows targets = fluxBindown explicit Row.s rows targets := by
  cases explicit
  · simp only [srcBindown, srcBindownAttr, Bool.false_eq_true, if_false]
    exact src_bindown_midpoint rows targets
  · simp only [srcBindown, srcBindownAttr, if_true]
    exact src_bindown_widths rows targets

/-- entry `i` of the binned spectrum -/
noncomputable def srcBin (explicit : Bool) (rows : List (Row ℝ)) (targets : List (TBin ℝ)) (i : ℕ) : ℝ :=
  (srcBindown explicit rows targets).getD i 0

theorem srcBin_eq (explicit : Bool) (rows : List (Row ℝ)) (targets : List (TBin ℝ)) (i : ℕ) (t : TBin ℝ)
    (ht : targets[i]? = some t) :
    srcBin explicit rows targets i = fluxBinVal Row.s (nativeBins explicit rows) t.lo t.hi := by
  unfold srcBin
  rw [srcBindown_eq]
  simp [fluxBindown, List.getD_eq_getElem?_getD, List.getElem?_map, ht]

/-- entry `i` of the binned error `FluxBinner.bindown(wngrid, spectrum[, grid_width], error=…)[2]` -/
noncomputable def srcErr (explicit : Bool) (rows : List (Row ℝ)) (targets : List (TBin ℝ)) (i : ℕ) : ℝ :=
  (if explicit then
    (SrcC05.fluxbinner_bindown_we (rows.map Row.c) (rows.map Row.s) (rows.map Row.w) (rows.map Row.e)
      (targets.map TBin.c) (targets.map TBin.w)).2.2.1
   else (SrcC05.fluxbinner_bindown_e (rows.map Row.c) (rows.map Row.s) (rows.map Row.e)
      (targets.map TBin.c) (targets.map TBin.w)).2.2.1).getD i 0

theorem srcErr_eq (explicit : Bool) (rows : List (Row ℝ)) (targets : List (TBin ℝ)) (i : ℕ) (t : TBin ℝ)
    (ht : targets[i]? = some t) :
    srcErr explicit rows targets i = fluxBinErr Row.e (nativeBins explicit rows) t.lo t.hi := by
  cases explicit
  · simp only [srcErr, Bool.false_eq_true, if_false]
    rw [src_bindown_midpoint_err]
    simp [fluxBindownErr, List.getD_eq_getElem?_getD, List.getElem?_map, ht]
  · simp only [srcErr, if_true]
    rw [src_bindown_widths_err]
    simp [fluxBindownErr, List.getD_eq_getElem?_getD, List.getElem?_map, ht]

section bin
variable (explicit : Bool) (rows : List (Row ℝ)) (targets : List (TBin ℝ)) (i : ℕ) (t : TBin ℝ)

/-- **flux_is_overlap_mean**, about the regenerated `FluxBinner.bindown`: for every target bin that overlaps the native
    grid the code returns `Σ overlap·s / Σ overlap` over all native bins -/
theorem src_flux_is_overlap_mean (ht : targets[i]? = some t) (hne : nativeBins explicit rows ≠ [])
    (hord : OrderedBins (nativeBins explicit rows)) (hw : ∀ r ∈ nativeBins explicit rows, r.lo ≤ r.hi)
    (hab : t.lo < t.hi) (hpos : 0 < sumL ((nativeBins explicit rows).map (overlap t.lo t.hi))) :
    srcBin explicit rows targets i = overlapMeanSpec Row.s (nativeBins explicit rows) t.lo t.hi := by
  rw [srcBin_eq explicit rows targets i t ht]
  exact flux_is_overlap_mean Row.s _ _ _ hne hord hw hab hpos

/-- **const_preserved**, about the regenerated `FluxBinner.bindown`: a constant spectrum stays constant -/
theorem src_const_preserved (ht : targets[i]? = some t) (k : ℝ) (hne : nativeBins explicit rows ≠ [])
    (hord : OrderedBins (nativeBins explicit rows)) (hw : ∀ r ∈ nativeBins explicit rows, r.lo ≤ r.hi)
    (hab : t.lo < t.hi) (hpos : 0 < sumL ((nativeBins explicit rows).map (overlap t.lo t.hi)))
    (hk : ∀ r ∈ nativeBins explicit rows, r.s = k) :
    srcBin explicit rows targets i = k := by
  rw [srcBin_eq explicit rows targets i t ht]
  exact const_preserved Row.s _ _ _ k hne hord hw hab hpos hk

/-- **between_min_max**, about the regenerated `FluxBinner.bindown`: the binned value lies between the smallest and largest
    native values among the bins that overlap the target -/
theorem src_between_min_max (ht : targets[i]? = some t) (m M : ℝ) (hne : nativeBins explicit rows ≠ [])
    (hord : OrderedBins (nativeBins explicit rows)) (hw : ∀ r ∈ nativeBins explicit rows, r.lo ≤ r.hi)
    (hab : t.lo < t.hi) (hpos : 0 < sumL ((nativeBins explicit rows).map (overlap t.lo t.hi)))
    (hb : ∀ r ∈ nativeBins explicit rows, 0 < overlap t.lo t.hi r → m ≤ r.s ∧ r.s ≤ M) :
    m ≤ srcBin explicit rows targets i ∧ srcBin explicit rows targets i ≤ M := by
  rw [srcBin_eq explicit rows targets i t ht]
  exact between_min_max Row.s _ _ _ m M hne hord hw hab hpos hb

/-- **error_quadrature**, about the regenerated `FluxBinner.bindown(…, error=…)`: `sqrt(Σ overlap²·e²) / Σ overlap` -/
theorem src_error_quadrature (ht : targets[i]? = some t) (hne : nativeBins explicit rows ≠ [])
    (hord : OrderedBins (nativeBins explicit rows)) (hw : ∀ r ∈ nativeBins explicit rows, r.lo ≤ r.hi)
    (hab : t.lo < t.hi) (hpos : 0 < sumL ((nativeBins explicit rows).map (overlap t.lo t.hi))) :
    srcErr explicit rows targets i = quadErrSpec Row.e (nativeBins explicit rows) t.lo t.hi := by
  rw [srcErr_eq explicit rows targets i t ht]
  exact error_quadrature Row.e _ _ _ hne hord hw hab hpos

/-- **outside_is_zero**, about the regenerated `FluxBinner.bindown`: a target bin strictly outside every native bin comes
    out as 0 (second conjunct: about the model's loop, the slice is empty — no division happened) -/
theorem src_outside_is_zero (ht : targets[i]? = some t) (hne : nativeBins explicit rows ≠ [])
    (hord : OrderedBins (nativeBins explicit rows))
    (hout : ∀ r ∈ nativeBins explicit rows, r.hi < t.lo ∨ t.hi < r.lo) :
    srcBin explicit rows targets i = 0 ∧
    (∀ s u, window (nativeBins explicit rows) t.lo t.hi = some (s, u) → slice (nativeBins explicit rows) s u = []) := by
  rw [srcBin_eq explicit rows targets i t ht]
  exact outside_is_zero Row.s _ _ _ hne hord hout

/-- beyond either end of the native range the bin is skipped: the regenerated `FluxBinner.bindown` returns 0 for the
    spectrum and 0 for the error -/
theorem src_outside_range_is_skipped (ht : targets[i]? = some t) (hne : nativeBins explicit rows ≠ [])
    (hout : (∀ r ∈ nativeBins explicit rows, r.hi < t.lo) ∨ (∀ r ∈ nativeBins explicit rows, t.hi < r.lo)) :
    window (nativeBins explicit rows) t.lo t.hi = none ∧ srcBin explicit rows targets i = 0 ∧
    srcErr explicit rows targets i = 0 := by
  rw [srcBin_eq explicit rows targets i t ht, srcErr_eq explicit rows targets i t ht]
  have h := outside_range_is_skipped (nativeBins explicit rows) t.lo t.hi hne hout
  exact ⟨h.1, h.2.1 Row.s, h.2.2 Row.e⟩

end bin

/-- **flux_is_overlap_mean_linear**, about the regenerated `FluxBinner.bindown(wngrid, spectrum)` (mid-point widths from the
    regenerated `compute_bin_edges`): on a linear native grid no per-case guard is needed -/
theorem src_flux_is_overlap_mean_linear (rows : List (Row ℝ)) (targets : List (TBin ℝ)) (i : ℕ) (t : TBin ℝ)
    (ht : targets[i]? = some t) (d : ℝ) (hn : 2 ≤ rows.length) (hd : 0 < d)
    (hlin : ∀ i, i + 1 < (rows.map Row.c).length → spacing (rows.map Row.c) i = d) (hab : t.lo < t.hi)
    (hpos : 0 < sumL ((nativeBins false rows).map (overlap t.lo t.hi))) :
    srcBin false rows targets i = overlapMeanSpec Row.s (nativeBins false rows) t.lo t.hi := by
  rw [srcBin_eq false rows targets i t ht]
  exact flux_is_overlap_mean_linear Row.s rows _ _ d hn hd hlin hab hpos

/-- **flux_is_overlap_mean_geometric**, likewise on a geometric native grid (`1 < r ≤ 4`) -/
theorem src_flux_is_overlap_mean_geometric (rows : List (Row ℝ)) (targets : List (TBin ℝ)) (i : ℕ) (t : TBin ℝ)
    (ht : targets[i]? = some t) (r : ℝ) (hn : 2 ≤ rows.length) (h0 : 0 < (rows.map Row.c).getD 0 0) (hr1 : 1 < r)
    (hr4 : r ≤ 4)
    (hgeo : ∀ i, i + 1 < (rows.map Row.c).length →
      (rows.map Row.c).getD (i + 1) 0 = r * (rows.map Row.c).getD i 0) (hab : t.lo < t.hi)
    (hpos : 0 < sumL ((nativeBins false rows).map (overlap t.lo t.hi))) :
    srcBin false rows targets i = overlapMeanSpec Row.s (nativeBins false rows) t.lo t.hi := by
  rw [srcBin_eq false rows targets i t ht]
  exact flux_is_overlap_mean_geometric Row.s rows _ _ r hn h0 hr1 hr4 hgeo hab hpos

/-! ### linearity in the spectrum -/

/-- the same native points with `h(spectrum, error)` in the spectrum column -/
def withSpectrum (h : ℝ → ℝ → ℝ) (r : Row ℝ) : Row ℝ := { r with s := h r.s r.e }

/-- the binned value reads a row's spectrum only through `val` -/
theorem fluxBinVal_map (g : Row ℝ → Row ℝ) (hlo : ∀ r, (g r).lo = r.lo) (hhi : ∀ r, (g r).hi = r.hi)
    (val : Row ℝ → ℝ) (R : List (Row ℝ)) (a b : ℝ) :
    fluxBinVal val (R.map g) a b = fluxBinVal (fun r => val (g r)) R a b := by
  have hw : ∀ r, weight a b (g r) = weight a b r := by
    intro r; simp only [weight, hlo, hhi]
  have h1 : (R.map g).map Row.hi = R.map Row.hi := by
    rw [List.map_map]; exact List.map_congr_left (fun r _ => hhi r)
  have h2 : (R.map g).map Row.lo = R.map Row.lo := by
    rw [List.map_map]; exact List.map_congr_left (fun r _ => hlo r)
  have hwin : window (R.map g) a b = window R a b := by
    simp only [window, h1, h2, List.length_map]
  unfold fluxBinVal
  rw [hwin]
  cases window R a b with
  | none => rfl
  | some st =>
    obtain ⟨s, u⟩ := st
    simp only [slice, ← List.map_drop, ← List.map_take, List.map_map, Function.comp_def, hw]

/-- sorting by wavenumber and attaching the mid-point widths commute with rewriting the spectrum column -/
theorem nativeBins_map (explicit : Bool) (h : ℝ → ℝ → ℝ) (rows : List (Row ℝ)) :
    nativeBins explicit (rows.map (withSpectrum h)) = (nativeBins explicit rows).map (withSpectrum h) := by
  have hs : sortBy Row.c (rows.map (withSpectrum h)) = (sortBy Row.c rows).map (withSpectrum h) :=
    Np.sortBy_map Row.c (withSpectrum h) rows
  have hc : ∀ R : List (Row ℝ), (R.map (withSpectrum h)).map Row.c = R.map Row.c := by
    intro R; rw [List.map_map]; exact List.map_congr_left (fun r _ => rfl)
  cases explicit
  · simp only [nativeBins, Bool.false_eq_true, if_false, hs, hc]
    simp only [withWidths, List.zipWith_map_left, List.map_zipWith]
    rfl
  · simp only [nativeBins, if_true, hs]

/-- **linear**, about the regenerated `FluxBinner.bindown`: binning `k₁·x + k₂·y` (the two spectra `x`, `y` being the
    columns `s` and `e` of the rows) gives `k₁·bin(x) + k₂·bin(y)` — no guard at all -/
theorem src_linear (explicit : Bool) (rows : List (Row ℝ)) (targets : List (TBin ℝ)) (i : ℕ) (t : TBin ℝ)
    (ht : targets[i]? = some t) (k₁ k₂ : ℝ) :
    srcBin explicit (rows.map (withSpectrum (fun x y => k₁ * x + k₂ * y))) targets i
      = k₁ * srcBin explicit rows targets i
        + k₂ * srcBin explicit (rows.map (withSpectrum (fun _ y => y))) targets i := by
  rw [srcBin_eq explicit _ targets i t ht, srcBin_eq explicit _ targets i t ht, srcBin_eq explicit _ targets i t ht,
    nativeBins_map, nativeBins_map,
    fluxBinVal_map (withSpectrum (fun x y => k₁ * x + k₂ * y)) (fun _ => rfl) (fun _ => rfl),
    fluxBinVal_map (withSpectrum (fun _ y => y)) (fun _ => rfl) (fun _ => rfl)]
  exact linear Row.s Row.e (nativeBins explicit rows) t.lo t.hi k₁ k₂

/-! ### order independence -/

/-- **perm_native**, about the regenerated `FluxBinner.bindown`: the binned spectrum does not depend on the order of the
    native points (distinct wavenumbers) -/
theorem src_perm_native (explicit : Bool) (rows₁ rows₂ : List (Row ℝ)) (targets : List (TBin ℝ))
    (hp : List.Perm rows₁ rows₂) (hd : (rows₁.map Row.c).Nodup) :
    srcBindown explicit rows₁ targets = srcBindown explicit rows₂ targets := by
  rw [srcBindown_eq, srcBindown_eq]
  exact perm_native explicit Row.s rows₁ rows₂ targets hp hd

/-- what the regenerated `FluxBinner.__init__` stores as `(_wngrid, _wngrid_width)` for each way of giving the widths -/
noncomputable def srcInit (mode : WidthMode ℝ) (ts : List (TBin ℝ)) : List ℝ × List ℝ :=
  match mode with
  | .array => SrcC05.fluxbinner_init_array (ts.map TBin.c) (ts.map TBin.w)
  | .scalar w => SrcC05.fluxbinner_init_scalar (ts.map TBin.c) w
  | .none => SrcC05.fluxbinner_init_none (ts.map TBin.c)

theorem srcInit_eq (mode : WidthMode ℝ) (ts : List (TBin ℝ)) (hne : mode = WidthMode.none → ts ≠ []) :
    srcInit mode ts = ((targetBins mode ts).map TBin.c, (targetBins mode ts).map TBin.w) := by
  cases mode with
  | none => exact src_init_none ts (hne rfl)
  | scalar w => exact src_init_scalar one_mul ts w
  | array => exact src_init_array ts

/-- **perm_target**, about the regenerated `FluxBinner.__init__` and `bindown`: the binner built from a permuted target grid
    (distinct wavenumbers) stores the same attributes, so the output is the same -/
theorem src_perm_target (mode : WidthMode ℝ) (ts₁ ts₂ : List (TBin ℝ)) (hp : List.Perm ts₁ ts₂)
    (hd : (ts₁.map TBin.c).Nodup) (hne : mode = WidthMode.none → ts₁ ≠ []) (explicit : Bool) (rows : List (Row ℝ)) :
    srcInit mode ts₁ = srcInit mode ts₂ ∧
    srcBindownAttr explicit rows (srcInit mode ts₁) = srcBindownAttr explicit rows (srcInit mode ts₂) := by
  have hne₂ : mode = WidthMode.none → ts₂ ≠ [] := by
    intro hm h2
    rw [h2] at hp
    exact hne hm hp.eq_nil
  have e : srcInit mode ts₁ = srcInit mode ts₂ := by
    rw [srcInit_eq mode ts₁ hne, srcInit_eq mode ts₂ hne₂, (perm_target mode ts₁ ts₂ hp hd true Row.s []).1]
  exact ⟨e, by rw [e]⟩

/-! ### histogram binner, native binner -/

/-- the regenerated `util.bindown(original_bin, original_data, new_bin)` on 1-D data -/
noncomputable def srcHist (rows : List (Row ℝ)) (nb : List ℝ) : List ℝ :=
  SrcC05.util_bindown (rows.map Row.c) (rows.map Row.s) nb npHistogram npHistogramW

theorem srcHist_eq (rows : List (Row ℝ)) (nb : List ℝ) (hne : nb ≠ []) : srcHist rows nb = histMean1 Row.s rows nb :=
  src_util_bindown rows nb hne

/-- **hist_mean** (1-D path), about the regenerated `util.bindown`: for every bin the plain mean `Σ s / count` of the native
    points strictly between the two mid-point edges (no native point exactly on an edge) -/
theorem src_hist_mean (rows : List (Row ℝ)) (nb : List ℝ) (hne : nb ≠ [])
    (hno : ∀ r ∈ rows, ∀ e ∈ histEdges nb, r.c ≠ e) :
    srcHist rows nb = (edgePairs (histEdges nb)).map (fun p =>
      ((rows.filter (fun r => decide (p.1 < r.c ∧ r.c < p.2.1))).map Row.s).sum /
        ((rows.filter (fun r => decide (p.1 < r.c ∧ r.c < p.2.1))).length : ℝ)) := by
  rw [srcHist_eq rows nb hne]
  exact (hist_mean Row.s rows nb hno).1

/-- **hist_perm_native** (1-D path), about the regenerated `util.bindown`: independent of the order of the native points -/
theorem src_hist_perm_native (rows₁ rows₂ : List (Row ℝ)) (hp : List.Perm rows₁ rows₂) (nb : List ℝ) (hne : nb ≠ []) :
    srcHist rows₁ nb = srcHist rows₂ nb := by
  rw [srcHist_eq rows₁ nb hne, srcHist_eq rows₂ nb hne]
  exact (hist_perm_native Row.s rows₁ rows₂ hp nb).1

/-- **native_identity**, about the regenerated `NativeBinner.bindown`: it returns its input unchanged (in the order
    grid, spectrum, error, width) -/
theorem src_native_identity (wn s w e : List ℝ) : SrcC05.nativebinner_bindown wn s w e = (wn, s, e, w) := by
  rw [src_nativebinner_bindown]
  exact native_identity _

/-! ### `util.bindown` on N-D data (the `np.digitize` path) -/

/-- in a strictly increasing list the elements below `x` form a prefix -/
theorem sorted_prefix (x : ℝ) : ∀ (l : List ℝ), l.Pairwise (· < ·) →
    (∀ j, j < l.countP (fun e => decide (e < x)) → l.getD j 0 < x) ∧
    (∀ j, l.countP (fun e => decide (e < x)) ≤ j → j < l.length → x ≤ l.getD j 0)
  | [], _ => ⟨fun j hj => by simp at hj, fun j _ hj => by simp at hj⟩
  | a :: t, h => by
    have ht := (List.pairwise_cons.1 h).2
    have ha := (List.pairwise_cons.1 h).1
    obtain ⟨ih1, ih2⟩ := sorted_prefix x t ht
    by_cases hax : a < x
    · have hc : (a :: t).countP (fun e => decide (e < x)) = t.countP (fun e => decide (e < x)) + 1 := by
        simp [hax]
      rw [hc]
      refine ⟨fun j hj => ?_, fun j hj hjl => ?_⟩
      · cases j with
        | zero => simpa using hax
        | succ j => simpa using ih1 j (by omega)
      · cases j with
        | zero => omega
        | succ j => simpa using ih2 j (by omega) (by simpa using hjl)
    · have h0 : t.countP (fun e => decide (e < x)) = 0 := by
        rw [List.countP_eq_zero]
        intro e he
        have := ha e he
        simp only [decide_eq_true_eq, not_lt]
        linarith [not_lt.1 hax]
      have hc : (a :: t).countP (fun e => decide (e < x)) = 0 := by
        simp [hax, h0]
      rw [hc]
      refine ⟨fun j hj => by omega, fun j _ hjl => ?_⟩
      cases j with
      | zero => simpa using not_lt.1 hax
      | succ j =>
        have := ih2 j (by omega) (by simpa using hjl)
        simpa using this

/-- `np.digitize(x, edges, right=True) == i` for strictly increasing edges: `edges[i-1] < x <= edges[i]` -/
theorem sorted_countP_iff (x : ℝ) (l : List ℝ) (h : l.Pairwise (· < ·)) (i : ℕ) (h1 : 1 ≤ i) (hi : i < l.length) :
    l.countP (fun e => decide (e < x)) = i ↔ l.getD (i - 1) 0 < x ∧ x ≤ l.getD i 0 := by
  obtain ⟨p1, p2⟩ := sorted_prefix x l h
  constructor
  · intro hc
    exact ⟨p1 (i - 1) (by omega), p2 i (by omega) hi⟩
  · rintro ⟨ha, hb⟩
    have h3 : i - 1 < l.countP (fun e => decide (e < x)) := by
      by_contra hcon
      have := p2 (i - 1) (by omega) (by omega)
      linarith
    have h4 : ¬ i < l.countP (fun e => decide (e < x)) := by
      intro hcon
      have := p1 i hcon
      linarith
    omega

/-- the consecutive pairs of an edge list, by position -/
theorem edgePairs_map_range {β : Type} (H : ℝ → ℝ → β) : ∀ (E : List ℝ),
    (edgePairs E).map (fun p => H p.1 p.2.1)
      = (List.range' 1 (E.length - 1)).map (fun i => H (E.getD (i - 1) 0) (E.getD i 0))
  | [] => rfl
  | [_] => rfl
  | [a, b] => rfl
  | a :: b :: c :: t => by
    have ih := edgePairs_map_range H (b :: c :: t)
    simp only [edgePairs, List.map_cons, List.length_cons] at ih ⊢
    rw [ih]
    have hr : List.range' 1 (t.length + 1 + 1 + 1 - 1) = 1 :: List.range' 2 (t.length + 1 + 1 - 1) := by
      simp [List.range'_succ]
    rw [hr, List.map_cons]
    congr 1
    have hshift : List.range' 2 (t.length + 1 + 1 - 1) = (List.range' 1 (t.length + 1 + 1 - 1)).map (1 + ·) := by
      rw [List.map_add_range']
    rw [hshift, List.map_map]
    apply List.map_congr_left
    intro i hi
    have hi1 : 1 ≤ i := (List.mem_range'_1.1 hi).1
    obtain ⟨k, rfl⟩ : ∃ k, i = k + 1 := ⟨i - 1, by omega⟩
    simp [Function.comp, Nat.add_comm 1]

/-- the regenerated `util.bindown(original_bin, original_data, new_bin)` on one row of 2-D data (the `np.digitize` path;
    `np.digitize` instantiated by `npDigitize`) -/
noncomputable def srcHistN (rows : List (Row ℝ)) (nb : List ℝ) : List ℝ :=
  SrcC05.util_bindown_nd (rows.map Row.c) (rows.map Row.s) nb npDigitize

/-- for strictly increasing bin edges (a strictly increasing `new_bin` of at least two points) the regenerated N-D path is
    the model's `histMeanN`: selecting the points whose `np.digitize` index is `i` selects the points in `(e_{i-1}, e_i]` -/
theorem srcHistN_eq (rows : List (Row ℝ)) (nb : List ℝ) (hne : nb ≠ []) (hs : (histEdges nb).Pairwise (· < ·)) :
    srcHistN rows nb = histMeanN Row.s rows nb := by
  unfold srcHistN histMeanN
  rw [src_util_bindown_nd rows nb hne,
    edgePairs_map_range (fun lo hi => meanOf Row.s (rows.filter (fun r => inDigit lo hi r.c))) (histEdges nb),
    length_histEdges nb hne, Nat.add_sub_cancel]
  apply List.map_congr_left
  intro i hi
  have hi' := List.mem_range'_1.1 hi
  congr 1
  apply List.filter_congr
  intro r _
  have := sorted_countP_iff r.c (histEdges nb) hs i hi'.1 (by rw [length_histEdges nb hne]; omega)
  rw [Bool.eq_iff_iff]
  simp only [inDigit, Bool.and_eq_true, decide_eq_true_eq]
  exact this

/-- **hist_mean** (N-D path), about the regenerated `util.bindown`: with no native point exactly on an edge the
    `np.digitize` path returns what the regenerated 1-D `np.histogram` path returns — for every bin the plain mean of the
    native points strictly between its two mid-point edges -/
theorem src_hist_mean_nd (rows : List (Row ℝ)) (nb : List ℝ) (hne : nb ≠ []) (hs : (histEdges nb).Pairwise (· < ·))
    (hno : ∀ r ∈ rows, ∀ e ∈ histEdges nb, r.c ≠ e) :
    srcHistN rows nb = srcHist rows nb ∧
    srcHistN rows nb = (edgePairs (histEdges nb)).map (fun p =>
      ((rows.filter (fun r => decide (p.1 < r.c ∧ r.c < p.2.1))).map Row.s).sum /
        ((rows.filter (fun r => decide (p.1 < r.c ∧ r.c < p.2.1))).length : ℝ)) := by
  obtain ⟨h1, h2⟩ := hist_mean Row.s rows nb hno
  rw [srcHistN_eq rows nb hne hs, srcHist_eq rows nb hne, h2]
  exact ⟨rfl, h1⟩

/-- **hist_perm_native** (N-D path), about the regenerated `util.bindown`: independent of the order of the native points -/
theorem src_hist_perm_native_nd (rows₁ rows₂ : List (Row ℝ)) (hp : List.Perm rows₁ rows₂) (nb : List ℝ) (hne : nb ≠ [])
    (hs : (histEdges nb).Pairwise (· < ·)) : srcHistN rows₁ nb = srcHistN rows₂ nb := by
  rw [srcHistN_eq rows₁ nb hne hs, srcHistN_eq rows₂ nb hne hs]
  exact (hist_perm_native Row.s rows₁ rows₂ hp nb).2

/-- target points 4, 8, 12: the edges 2, 6, 10, 14 are strictly increasing -/
example : (histEdges ([4, 8, 12] : List ℝ)).Pairwise (· < ·) := by
  have e : histEdges ([4, 8, 12] : List ℝ) = [2, 6, 10, 14] := by norm_num [histEdges, midPts]
  rw [e]; norm_num

/-! ### `FluxBinner.bindown` with one width for all native bins -/

/-- the regenerated `FluxBinner.bindown(wngrid, spectrum, grid_width=<one number>)` returns what the array form returns for
    the rows with every width equal to that number: every statement above about `srcBindown true` applies to it -/
theorem src_bindown_scalar_eq (rows : List (Row ℝ)) (w : ℝ) (targets : List (TBin ℝ)) :
    (SrcC05.fluxbinner_bindown_s (rows.map Row.c) (rows.map Row.s) w (targets.map TBin.c) (targets.map TBin.w)).2.1
      = srcBindown true (rows.map (setWidth w)) targets := by
  rw [src_bindown_scalar, srcBindown_eq]

/-- … in particular the overlap-weighted mean, with native bins `[c - w/2, c + w/2]` -/
theorem src_scalar_width_bins (rows : List (Row ℝ)) (w : ℝ) :
    ∀ r ∈ nativeBins true (rows.map (setWidth w)), r.lo = r.c - w / 2 ∧ r.hi = r.c + w / 2 := by
  intro r hr
  simp only [nativeBins, if_true] at hr
  obtain ⟨r0, _, rfl⟩ := List.mem_map.1 ((Np.mem_sortBy Row.c r _).1 hr)
  exact ⟨rfl, rfl⟩

end Taurex.C05SrcProps
