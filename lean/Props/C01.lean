/-
  C01 — the transmission spectrum equals the documented transit-depth integral.
  All statements are about `Taurex.Transmission` (the definitions `driver_c01` executes on Float) at the carrier ℝ.
  Hypotheses: `Shells` (the altitude grid built by `calculate_scale_properties`: C11), non-negative densities and
  prepared opacities (`Contrib.Nonneg`), `0 < rs`.  `Real.sqrt`/division totalisations are guarded:
  `chord*_radicand_nonneg` show no negative radicand occurs, `0 < rs` is a hypothesis wherever `/ rs^2` matters.
-/
import Proofs.C01c
import Proofs.C01Geom
import Proofs.C01Abs

open Finset

namespace Taurex.C01
open Taurex.Transmission

/-! ### the depth integral between the bare planet and the opaque atmosphere -/

/-- never below the bare-planet value `(Rp/Rs)^2` -/
theorem depth_ge_bare (rp rs : ℝ) (hrs : 0 < rs) (n : ℕ) (z dz tau : ℕ → ℝ)
    (hz : ∀ l < n, 0 ≤ rp + z l) (hdz : ∀ l < n, 0 ≤ dz l) (ht : ∀ l < n, 0 ≤ tau l) :
    rp ^ 2 / rs ^ 2 ≤ depth rp rs n z dz (fun l => Transmission.trans (tau l)) := by
  have e : depth rp rs n z dz (fun _ => 1) = rp ^ 2 / rs ^ 2 := by rw [depth_eq]; simp
  rw [← e]
  exact depth_mono_tr rp rs hrs n z dz _ _ hz hdz (fun l hl => trans_le_one _ (ht l hl))

example : (1 : ℝ) ^ 2 / 2 ^ 2 ≤ depth 1 2 3 (fun l => (l : ℝ)) (fun _ => 1)
    (fun l => Transmission.trans (if l = 0 then (20 : ℝ) else 0)) :=
  depth_ge_bare 1 2 (by norm_num) 3 _ _ (fun l => if l = 0 then (20 : ℝ) else 0) (fun l _ => by positivity)
    (fun l _ => by norm_num) (fun l _ => by split <;> norm_num)

/-- never above the value for an atmosphere opaque to its top -/
theorem depth_le_opaque (rp rs : ℝ) (hrs : 0 < rs) (n : ℕ) (z dz tau : ℕ → ℝ)
    (hz : ∀ l < n, 0 ≤ rp + z l) (hdz : ∀ l < n, 0 ≤ dz l) :
    depth rp rs n z dz (fun l => Transmission.trans (tau l)) ≤ (rp ^ 2 + ∑ l ∈ range n, 2 * (rp + z l) * dz l) / rs ^ 2 := by
  have e : depth rp rs n z dz (fun _ => 0) = (rp ^ 2 + ∑ l ∈ range n, 2 * (rp + z l) * dz l) / rs ^ 2 := by
    rw [depth_eq]; simp
  rw [← e]
  exact depth_mono_tr rp rs hrs n z dz _ _ hz hdz (fun l _ => (trans_pos _).le)

example : depth 1 2 3 (fun l => (l : ℝ)) (fun _ => 1) (fun l => Transmission.trans (if l = 0 then (20 : ℝ) else 0))
    ≤ ((1 : ℝ) ^ 2 + ∑ l ∈ range 3, 2 * (1 + (l : ℝ)) * 1) / 2 ^ 2 :=
  depth_le_opaque 1 2 (by norm_num) 3 _ _ (fun l => if l = 0 then (20 : ℝ) else 0) (fun l _ => by positivity)
    (fun l _ => by norm_num)

/-- the opaque annulus is inside the disc of the top of the atmosphere -/
theorem opaque_le_disc (rp : ℝ) (n : ℕ) (zb z dz : ℕ → ℝ) (S : Shells rp n zb z dz) :
    ∑ l ∈ range n, 2 * (rp + z l) * dz l ≤ (rp + zb n) ^ 2 - (rp + zb 0) ^ 2 := by
  have key : ∀ m ≤ n, ∑ l ∈ range m, 2 * (rp + z l) * dz l ≤ (rp + zb m) ^ 2 - (rp + zb 0) ^ 2 := by
    intro m hm
    induction m with
    | zero => simp
    | succ m ih =>
      rw [Finset.sum_range_succ]
      have h1 := ih (by omega)
      have h2 := S.step m (by omega); have h3 := S.hz m (by omega); have h4 := S.thick m (by omega)
      rw [h2, h3]; nlinarith
  exact key n (le_refl _)

example : Shells (1 : ℝ) 3 (fun l => (l : ℝ)) (fun l => (l : ℝ)) (fun _ => 1) :=
  ⟨by norm_num, fun _ _ => rfl, fun l _ => by push_cast; ring, fun _ _ => by norm_num⟩

/-- the depth never decreases when optical depths grow -/
theorem depth_mono_tau (rp rs : ℝ) (hrs : 0 < rs) (n : ℕ) (z dz tau tau' : ℕ → ℝ)
    (hz : ∀ l < n, 0 ≤ rp + z l) (hdz : ∀ l < n, 0 ≤ dz l) (h : ∀ l < n, tau l ≤ tau' l) :
    depth rp rs n z dz (fun l => Transmission.trans (tau l)) ≤ depth rp rs n z dz (fun l => Transmission.trans (tau' l)) :=
  depth_mono_tr rp rs hrs n z dz _ _ hz hdz (fun l hl => trans_anti (h l hl))

example : depth 1 2 3 (fun l => (l : ℝ)) (fun _ => 1) (fun l => Transmission.trans (l : ℝ))
    ≤ depth 1 2 3 (fun l => (l : ℝ)) (fun _ => 1) (fun l => Transmission.trans (2 * (l : ℝ))) :=
  depth_mono_tau 1 2 (by norm_num) 3 _ _ (fun l => (l : ℝ)) (fun l => 2 * (l : ℝ)) (fun l _ => by positivity)
    (fun l _ => by norm_num)
    (fun l _ => by have : (0 : ℝ) ≤ l := by positivity
                   linarith)

/-! ### slant optical depth -/

/-- optical depths are non-negative (with and without the early exit) -/
theorem tau_nonneg (n nwn : ℕ) (path dens : ℕ → ℝ) (l : ℕ) (hp : ∀ k < n - l, 0 ≤ path k)
    (hd : ∀ j < n, 0 ≤ dens j) (cs : List (Contrib ℝ)) (hcs : ∀ c ∈ cs, c.Nonneg) (wn : ℕ) :
    0 ≤ tauFull n path dens l cs wn ∧ 0 ≤ tauCut n nwn path dens l cs wn :=
  ⟨tauFullFrom_ge n path dens l hp hd cs hcs (fun _ => 0) wn,
   tauCutFrom_ge n nwn path dens l hp hd cs hcs (fun _ => 0) wn⟩

/-- pointwise larger opacities (same kernels, same order) give pointwise larger optical depths -/
theorem tau_mono_sigma (n : ℕ) (path dens : ℕ → ℝ) (l : ℕ) (hp : ∀ k < n - l, 0 ≤ path k)
    (hd : ∀ j < n, 0 ≤ dens j) (cs cs' : List (Contrib ℝ)) (h : List.Forall₂ Contrib.Le cs cs') (wn : ℕ) :
    tauFull n path dens l cs wn ≤ tauFull n path dens l cs' wn :=
  tauFullFrom_mono n path dens l hp hd cs cs' h (fun _ => le_refl _) wn

/-- the two-layer, two-wavenumber, two-contribution instance used by the non-vacuity examples below:
    an absorber (kind `lin`) and a CIA-like term (kind `sq`), one saturated and one clear column -/
def nvContribs : List (Contrib ℝ) :=
  [{ kind := .lin, sigma := fun _ wn => if wn = 0 then 20 else 0 }, { kind := .sq, sigma := fun _ _ => 1 }]

theorem nvContribs_nonneg : ∀ c ∈ nvContribs, c.Nonneg := by
  intro c hc
  simp only [nvContribs, List.mem_cons, List.not_mem_nil, or_false] at hc
  rcases hc with rfl | rfl <;> intro l wn <;> simp only <;> [split <;> norm_num; norm_num]

example : 0 ≤ tauFull 2 (fun _ => 1) (fun _ => 1) 0 nvContribs 0 ∧ 0 ≤ tauCut 2 2 (fun _ => 1) (fun _ => 1) 0 nvContribs 0 :=
  tau_nonneg 2 2 _ _ 0 (fun _ _ => by norm_num) (fun _ _ => by norm_num) nvContribs nvContribs_nonneg 0

example : tauFull 2 (fun _ => 1) (fun _ => 1) 0 nvContribs 0
    ≤ tauFull 2 (fun _ => 1) (fun _ => 1) 0 (nvContribs.map (Contrib.scale 3)) 0 :=
  tau_mono_sigma 2 _ _ 0 (fun _ _ => by norm_num) (fun _ _ => by norm_num) _ _
    (scale_le 3 (by norm_num) _ nvContribs_nonneg) 0

/-- **the licensed deviation**: the loop with the `tau[layer].min() > 10` exit never exceeds the full sum, and
    either equals it at every wavenumber or is already above 10 at every wavenumber of the row -/
theorem cutoff_licensed (n nwn : ℕ) (path dens : ℕ → ℝ) (l : ℕ) (hp : ∀ k < n - l, 0 ≤ path k)
    (hd : ∀ j < n, 0 ≤ dens j) (cs : List (Contrib ℝ)) (hcs : ∀ c ∈ cs, c.Nonneg) :
    (∀ wn, tauCut n nwn path dens l cs wn ≤ tauFull n path dens l cs wn) ∧
    ((∀ wn, tauCut n nwn path dens l cs wn = tauFull n path dens l cs wn) ∨
      (∀ wn < nwn, 10 < tauCut n nwn path dens l cs wn)) :=
  cutoff_from n nwn path dens l hp hd cs hcs (fun _ => 0)

example := cutoff_licensed 2 2 (fun _ => (1 : ℝ)) (fun _ => (1 : ℝ)) 0 (fun _ _ => by norm_num) (fun _ _ => by norm_num)
  nvContribs nvContribs_nonneg

/-! ### the whole model: `modelTrans` / `modelDepth` (= `TransmissionModel.path_integral`) -/

section model
variable (newMethod : Bool) (rp rs : ℝ) (n nwn : ℕ) (zb z dz dens : ℕ → ℝ)

variable {newMethod rp rs n nwn zb z dz dens}

/-- with or without the early exit, the model depth lies between the bare planet and the opaque atmosphere -/
theorem model_depth_bounds {cs : List (Contrib ℝ)} (W : WellFormed newMethod rp rs n zb z dz dens cs)
    (cut : Bool) (wn : ℕ) :
    rp ^ 2 / rs ^ 2 ≤ modelDepth cut newMethod rp rs n nwn zb z dz dens cs wn ∧
    modelDepth cut newMethod rp rs n nwn zb z dz dens cs wn
      ≤ (rp ^ 2 + ∑ l ∈ range n, 2 * (rp + z l) * dz l) / rs ^ 2 := by
  unfold modelDepth modelTrans
  constructor
  · apply depth_ge_bare rp rs W.rs_pos n z dz _ (fun l hl => W.shells.z_radius_nonneg l hl) W.shells.thick
    intro l hl
    have := tau_nonneg n nwn (chord newMethod rp zb z dz l) dens l (W.path_nonneg l hl) W.dens_nonneg cs
      W.sigma_nonneg wn
    cases cut <;> simp [this.1, this.2]
  · exact depth_le_opaque rp rs W.rs_pos n z dz _ (fun l hl => W.shells.z_radius_nonneg l hl) W.shells.thick

/-- nothing absorbs ⇒ every transmittance is 1 and the depth is exactly the bare-planet value -/
theorem depth_transparent (cs : List (Contrib ℝ)) (h0 : ∀ c ∈ cs, ∀ l wn, c.sigma l wn = 0) (cut : Bool) (wn : ℕ) :
    (∀ l, modelTrans cut newMethod rp n nwn zb z dz dens cs l wn = 1) ∧
    modelDepth cut newMethod rp rs n nwn zb z dz dens cs wn = rp ^ 2 / rs ^ 2 := by
  have ht : ∀ l, modelTrans cut newMethod rp n nwn zb z dz dens cs l wn = 1 := by
    intro l
    simp only [modelTrans, tauCut, tauFull]
    rw [tauCutFrom_zero _ _ _ _ _ cs h0, tauFullFrom_zero _ _ _ _ cs h0]
    cases cut <;> simp [Transmission.trans]
  refine ⟨ht, ?_⟩
  unfold modelDepth
  simp only [ht]
  rw [depth_eq]; simp

/-- scaling every opacity by `s ≥ 1` never decreases the documented (uncut) depth -/
theorem depth_mono_scale {cs : List (Contrib ℝ)} (W : WellFormed newMethod rp rs n zb z dz dens cs)
    (s : ℝ) (hs : 1 ≤ s) (wn : ℕ) :
    modelDepth false newMethod rp rs n nwn zb z dz dens cs wn
      ≤ modelDepth false newMethod rp rs n nwn zb z dz dens (cs.map (Contrib.scale s)) wn := by
  unfold modelDepth modelTrans
  simp only [Bool.false_eq_true, if_false]
  apply depth_mono_tau rp rs W.rs_pos n z dz _ _ (fun l hl => W.shells.z_radius_nonneg l hl) W.shells.thick
  intro l hl
  exact tau_mono_sigma n _ dens l (W.path_nonneg l hl) W.dens_nonneg cs _ (scale_le s hs cs W.sigma_nonneg) wn

/-- what "to within that cut-off" means: the returned depth (early exit) is never above the documented integral
    and falls short of it by at most `exp(-10)` times the opaque annulus -/
theorem depth_cut_within {cs : List (Contrib ℝ)} (W : WellFormed newMethod rp rs n zb z dz dens cs)
    (wn : ℕ) (hwn : wn < nwn) :
    0 ≤ modelDepth false newMethod rp rs n nwn zb z dz dens cs wn
          - modelDepth true newMethod rp rs n nwn zb z dz dens cs wn ∧
    modelDepth false newMethod rp rs n nwn zb z dz dens cs wn
          - modelDepth true newMethod rp rs n nwn zb z dz dens cs wn
      ≤ Transmission.trans 10 * (∑ l ∈ range n, 2 * (rp + z l) * dz l) / rs ^ 2 := by
  unfold modelDepth modelTrans
  simp only [Bool.false_eq_true, if_false, if_true]
  apply depth_band rp rs W.rs_pos n z dz _ _ (trans 10) (fun l hl => W.shells.z_radius_nonneg l hl) W.shells.thick
  · intro l hl
    exact (trans_cut_band n nwn _ dens l (W.path_nonneg l hl) W.dens_nonneg cs W.sigma_nonneg wn hwn).1
  · intro l hl
    exact (trans_cut_band n nwn _ dens l (W.path_nonneg l hl) W.dens_nonneg cs W.sigma_nonneg wn hwn).2

/-- scaling monotonicity of the *returned* depth, to within the cut-off -/
theorem depth_cut_mono_scale_within {cs : List (Contrib ℝ)} (W : WellFormed newMethod rp rs n zb z dz dens cs)
    (s : ℝ) (hs : 1 ≤ s) (wn : ℕ) (hwn : wn < nwn) :
    modelDepth true newMethod rp rs n nwn zb z dz dens cs wn
      ≤ modelDepth true newMethod rp rs n nwn zb z dz dens (cs.map (Contrib.scale s)) wn
        + Transmission.trans 10 * (∑ l ∈ range n, 2 * (rp + z l) * dz l) / rs ^ 2 := by
  have W' : WellFormed newMethod rp rs n zb z dz dens (cs.map (Contrib.scale s)) :=
    ⟨W.rs_pos, W.shells, W.path_nonneg, W.dens_nonneg, scale_nonneg s (by linarith) cs W.sigma_nonneg⟩
  have h1 := depth_cut_within (nwn := nwn) W wn hwn
  have h2 := depth_cut_within (nwn := nwn) W' wn hwn
  have h3 := depth_mono_scale (nwn := nwn) W s hs wn
  linarith

end model

/-! ### chord lengths through the spherical shells (what `compute_path_length_3d` must return) -/

/-- old method: no negative radicand, every segment non-negative, segments sum to the half-chord × 2 -/
theorem chordOld_radicand_nonneg (rp : ℝ) (n : ℕ) (zb z dz : ℕ → ℝ) (S : Shells rp n zb z dz) (l j : ℕ)
    (hlj : l ≤ j) (hj : j < n) : 0 ≤ Transmission.sq (oldMid rp z dz j) - oldP rp z dz l := by
  have hl : l < n := by omega
  have hmid : ∀ i, l ≤ i → i < n → oldMid rp z dz l ≤ oldMid rp z dz i := by
    intro i hli hi
    induction i with
    | zero => have : l = 0 := by omega
              subst this; exact le_refl _
    | succ i ih =>
      rcases Nat.eq_or_lt_of_le hli with h | h
      · rw [← h]
      · exact le_trans (ih (by omega) (by omega)) (oldMid_step S i hi)
  have h1 := hmid j hlj hj
  have h0 : 0 < n := by omega
  have h2 : 0 ≤ rp + dz 0 / 2 + z l := by
    have := S.z_radius_nonneg l hl; have := S.thick 0 h0; linarith
  have h3 : rp + dz 0 / 2 + z l ≤ oldMid rp z dz l := by
    unfold oldMid; have := S.thick l hl; linarith
  unfold oldP Transmission.sq
  nlinarith

theorem chordOld_nonneg (rp : ℝ) (n : ℕ) (zb z dz : ℕ → ℝ) (S : Shells rp n zb z dz) (l k : ℕ) (hl : l < n)
    (hk : k < n - l) : 0 ≤ chordOld rp z dz l k := by
  unfold chordOld
  split
  · have : 0 ≤ oldHalf rp z dz l l := by unfold oldHalf; simp only [sqrt_real]; exact Real.sqrt_nonneg _
    linarith
  · rename_i hk0
    have e : l + k = (l + k - 1) + 1 := by omega
    have h1 := oldMid_step S (l + k - 1) (by omega)
    rw [← e] at h1
    have := oldHalf_mono rp z dz l (l + k - 1) (l + k) (oldMid_nonneg S _ (by omega)) h1
    linarith

theorem chordOld_sum (rp : ℝ) (n : ℕ) (z dz : ℕ → ℝ) (l : ℕ) (hl : l < n) :
    ∑ k ∈ range (n - l), chordOld rp z dz l k = 2 * oldHalf rp z dz l (n - 1) := by
  have e : n - l = (n - l - 1) + 1 := by omega
  rw [e, sum_chordOld]
  congr 2; omega

/-- new method: no negative radicand, every segment non-negative, segments sum to the full chord
    `2·sqrt((Rp + z_top)^2 - b_l^2)` -/
theorem chordNew_radicand_nonneg (rp : ℝ) (n : ℕ) (zb z dz : ℕ → ℝ) (S : Shells rp n zb z dz) (l i : ℕ)
    (hl : l < n) (hli : l + 1 ≤ i) (hi : i ≤ n) : 0 ≤ Transmission.sq (rp + zb i) - Transmission.sq (newB rp z dz l) := by
  have h1 := S.zb_mono (l + 1) i hli hi
  have h2 := S.step l hl; have h3 := S.hz l hl; have h4 := S.thick l hl
  have h5 := S.radius_nonneg l hl.le
  unfold newB Transmission.sq
  rw [h3]
  nlinarith

theorem chordNew_nonneg (rp : ℝ) (n : ℕ) (zb z dz : ℕ → ℝ) (S : Shells rp n zb z dz) (l k : ℕ) (hl : l < n)
    (hk : k < n - l) : 0 ≤ chordNew rp zb z dz l k := by
  unfold chordNew
  split
  · unfold newD; simp only [sqrt_real]
    have := Real.sqrt_nonneg (Transmission.sq (rp + zb (l + 1)) - Transmission.sq (newB rp z dz l)); linarith
  · have h1 := S.step (l + k) (by omega); have h2 := S.thick (l + k) (by omega)
    have e : l + 1 + k = l + k + 1 := by omega
    have := newD_mono rp zb z dz l (l + k) (l + 1 + k) (S.radius_nonneg _ (by omega)) (by rw [e, h1]; linarith)
    linarith

theorem chordNew_sum (rp : ℝ) (n : ℕ) (zb z dz : ℕ → ℝ) (l : ℕ) (hl : l < n) :
    ∑ k ∈ range (n - l), chordNew rp zb z dz l k = 2 * sqrt (Transmission.sq (rp + zb n) - Transmission.sq (newB rp z dz l)) := by
  have e : n - l = (n - l - 1) + 1 := by omega
  rw [e, sum_chordNew]
  have : l + 1 + (n - l - 1) = n := by omega
  rw [this]; rfl

example : 0 ≤ chordNew (1 : ℝ) (fun l => (l : ℝ)) (fun l => (l : ℝ)) (fun _ => 1) 1 1 :=
  chordNew_nonneg 1 3 _ _ _ ⟨by norm_num, fun _ _ => rfl, fun l _ => by push_cast; ring, fun _ _ => by norm_num⟩
    1 1 (by norm_num) (by norm_num)

example : 0 ≤ chordOld (1 : ℝ) (fun l => (l : ℝ)) (fun _ => 1) 1 1 :=
  chordOld_nonneg 1 3 (fun l => (l : ℝ)) _ _ ⟨by norm_num, fun _ _ => rfl, fun l _ => by push_cast; ring, fun _ _ => by norm_num⟩
    1 1 (by norm_num) (by norm_num)

/-- both chord methods satisfy the `path_nonneg` field of `WellFormed` on any `Shells` grid: the hypotheses of
    the model theorems are met by a concrete two-layer atmosphere with the contributions `nvContribs` -/
theorem wellFormed_of_shells (newMethod : Bool) (rp rs : ℝ) (hrs : 0 < rs) (n : ℕ) (zb z dz dens : ℕ → ℝ)
    (S : Shells rp n zb z dz) (hd : ∀ j < n, 0 ≤ dens j) (cs : List (Contrib ℝ)) (hcs : ∀ c ∈ cs, c.Nonneg) :
    WellFormed newMethod rp rs n zb z dz dens cs := by
  refine ⟨hrs, S, ?_, hd, hcs⟩
  intro l hl k hk
  unfold chord
  cases newMethod
  · simpa using chordOld_nonneg rp n zb z dz S l k hl hk
  · simpa using chordNew_nonneg rp n zb z dz S l k hl hk

example : WellFormed true (1 : ℝ) 2 2 (fun l => (l : ℝ)) (fun l => (l : ℝ)) (fun _ => 1) (fun _ => 1) nvContribs :=
  wellFormed_of_shells true 1 2 (by norm_num) 2 _ _ _ _
    ⟨by norm_num, fun _ _ => rfl, fun l _ => by push_cast; ring, fun _ _ => by norm_num⟩
    (fun _ _ => by norm_num) nvContribs nvContribs_nonneg

/-! ### the 3-D line/sphere geometry of `new_path_method=True` (`Taurex.Geometry`, mirroring taurex/util/geometry.py) -/

open Taurex.Geometry in
/-- the ray origin `(-(R + 2·max(zb)), b, 0)` the code uses lies outside (or on) every boundary sphere.
    (The seeded defect `-(R + 2·alt)` violates exactly this for tall atmospheres.) -/
theorem origin_outside (rp : ℝ) (n : ℕ) (zb z dz : ℕ → ℝ) (G : GeomOK rp n zb z dz) (alt : ℝ) (j : ℕ) (hj : j ≤ n) :
    (rp + zb j) * (rp + zb j) ≤ normSq (parallelVector rp alt (arrMax n zb)).1 := by
  have h := origin_outside_aux G (rp + alt) j hj
  simp only [parallelVector, normSq, V3.mul, V3.sum]
  nlinarith

open Taurex.Geometry in
/-- per sphere: for a ray `o = (-X, b, 0)`, `u = (1, 0, 0)` whose origin is outside the sphere of radius `R+h`
    (`(R+h)² - b² ≤ X²`), that hits it (`0 ≤ (R+h)² - b²`) and does not cross the planet (`R² ≤ b²`), the stored
    intersection distance is the full chord `2·sqrt((R+h)² - b²)` -/
theorem sphere_chord (R h X b : ℝ) (hX : 0 ≤ X) (hhit : 0 ≤ (R + h) * (R + h) - b * b)
    (hout : (R + h) * (R + h) - b * b ≤ X * X) (hc : R * R - b * b ≤ 0) :
    hitDistance (intersect R h ⟨1, 0, 0⟩ ⟨-X, b, 0⟩) = 2 * Real.sqrt ((R + h) * (R + h) - b * b) :=
  hitDistance_eq R h X b hX hhit hout hc

open Taurex.Geometry in
/-- … and what the code returns instead when the origin is strictly inside the sphere: the near parameter is
    clamped to 0 and the distance is `X + sqrt(…)`, not the chord -/
theorem origin_inside_clips (R h X b : ℝ) (hX : 0 ≤ X) (hin : X * X < (R + h) * (R + h) - b * b)
    (hc : R * R - b * b ≤ 0) :
    hitDistance (intersect R h ⟨1, 0, 0⟩ ⟨-X, b, 0⟩) = X + Real.sqrt ((R + h) * (R + h) - b * b) :=
  hitDistance_clipped R h X b hX hin hc

open Taurex.Geometry in
/-- **the 3-D geometry equals the closed form**: on a well-formed shell grid (`Shells`, positive planet radius,
    surface at non-negative altitude, layers of positive thickness) the geometric path length of tangent layer `l`,
    segment `k`, is `chordNew rp zb z dz l k`, and the row has exactly `n - l` segments -/
theorem path3d_eq_chordNew (rp : ℝ) (n : ℕ) (zb z dz : ℕ → ℝ) (G : GeomOK rp n zb z dz) (l k : ℕ) (hl : l < n)
    (hk : k < n - l) : path3d rp n zb z dz l k = chordNew rp zb z dz l k := by
  unfold path3d
  rw [layerDists_eq G l hl]
  unfold segs chordNew
  by_cases h0 : k = 0
  · subst h0
    simp only [if_true]
    rw [getD_map_range' _ _ _ _ _ (by omega)]
  · simp only [h0, if_false]
    rw [getD_map_range' _ _ _ _ _ hk, getD_map_range' _ _ _ _ _ (by omega)]
    have e : l + 1 + (k - 1) = l + k := by omega
    rw [e]

open Taurex.Geometry in
theorem pathRow3d_length (rp : ℝ) (n : ℕ) (zb z dz : ℕ → ℝ) (G : GeomOK rp n zb z dz) (l : ℕ) (hl : l < n) :
    (pathRow3d rp n zb z dz l).length = n - l := by
  simp only [pathRow3d, List.length_map, List.length_range]
  rw [layerDists_eq G l hl]; simp

open Taurex.Geometry in
example : GeomOK (1 : ℝ) 3 (fun l => (l : ℝ)) (fun l => (l : ℝ)) (fun _ => 1) :=
  ⟨⟨by norm_num, fun _ _ => rfl, fun l _ => by push_cast; ring, fun _ _ => by norm_num⟩, by norm_num, by norm_num,
   fun _ _ => by norm_num⟩

open Taurex.Geometry in
example : path3d (1 : ℝ) 3 (fun l => (l : ℝ)) (fun l => (l : ℝ)) (fun _ => 1) 1 1
    = chordNew (1 : ℝ) (fun l => (l : ℝ)) (fun l => (l : ℝ)) (fun _ => 1) 1 1 :=
  path3d_eq_chordNew 1 3 _ _ _
    ⟨⟨by norm_num, fun _ _ => rfl, fun l _ => by push_cast; ring, fun _ _ => by norm_num⟩, by norm_num, by norm_num,
     fun _ _ => by norm_num⟩ 1 1 (by norm_num) (by norm_num)

/-- the clipped case is not vacuous: origin at distance 1, sphere of radius 3, tangent radius 1 -/
example := origin_inside_clips 1 2 1 1 (by norm_num) (by norm_num) (by norm_num)

/-! ### the cross-section entering the optical depth at a wavenumber is the molecule's cross-section at that wavenumber

  `AbsorptionGrid.absSigma` is the `sigma_xsec` of `AbsorptionContribution` on the grid of the run when every active molecule
  is tabulated on its own wavenumber grid (`Opacity.opacity(T, P, wngrid)`: own points are selected, any other request is
  interpolated between the bracketing native points).  The harness compares it with the real contribution for molecules on
  equal, sub-sampled, shifted and equally long but different grids. -/

open Taurex.AbsorptionGrid in
/-- molecules tabulated on the grid of the run enter the optical depth with exactly their tabulated cross-sections,
    weighted by their mixing ratios: `sigma_xsec[l, w] = Σ_gas xsec_gas(T_l, P_l)[w] · mix_gas[l]` -/
theorem absSigma_own_grid (gases : List (Gas ℝ)) (req : List ℝ) (l w : ℕ)
    (h : ∀ g ∈ gases, g.wn = req ∧ (g.vals l).length = req.length) :
    absSigma gases req l w = (gases.map fun g => (g.vals l).getD w 0 * g.mix l).sum := by
  induction gases with
  | nil => simp [C01Abs.absSigma_nil]
  | cons g gs ih =>
    rw [C01Abs.absSigma_cons, ih (fun g' hg' => h g' (List.mem_cons_of_mem _ hg')), List.map_cons, List.sum_cons]
    obtain ⟨h1, h2⟩ := h g List.mem_cons_self
    unfold gasOnGrid
    rw [← h1, C01Abs.opacityOnGrid_self g.wn (g.vals l) (by rw [h2, h1])]

open Taurex.AbsorptionGrid in
example : absSigma [⟨[1, 2, 3], fun _ => [10, 20, 30], fun _ => 2⟩, ⟨[1, 2, 3], fun _ => [1, 2, 3], fun _ => 5⟩]
    ([1, 2, 3] : List ℝ) 0 1 = 20 * 2 + 2 * 5 := by
  rw [absSigma_own_grid _ _ _ _ (by intro g hg; simp at hg; rcases hg with rfl | rfl <;> simp)]
  simp

open Taurex.AbsorptionGrid in
/-- whatever grids the molecules are tabulated on (non-decreasing, overlapping the request), non-negative tables and
    mixing ratios give a non-negative absorption cross-section on the grid of the run: the hypothesis `Contrib.Nonneg`
    of every statement above (`depth_ge_bare`, `depth_le_opaque`, `cutoff_licensed`, `depth_mono_scale`, …) holds for
    the contribution built from the tables -/
theorem absSigma_nonneg (gases : List (Gas ℝ)) (req : List ℝ) (hi : ℝ)
    (h : ∀ g ∈ gases, ∀ l, g.wn.length = (g.vals l).length ∧ g.wn.Pairwise (· ≤ ·) ∧
      (∀ v ∈ g.vals l, 0 ≤ v ∧ v ≤ hi) ∧ 0 ≤ g.mix l ∧
      0 < ((g.wn.drop (Interp.searchRight g.wn (Grid.minL req) - 1)).take
        (min (Interp.searchLeft g.wn (Grid.maxL req)) (g.wn.length - 1) + 1 -
          (Interp.searchRight g.wn (Grid.minL req) - 1))).length) :
    Contrib.Nonneg { kind := Kind.lin, sigma := absSigma gases req } := by
  intro l w
  show 0 ≤ absSigma gases req l w
  induction gases with
  | nil => rw [C01Abs.absSigma_nil]
  | cons g gs ih =>
    rw [C01Abs.absSigma_cons]
    obtain ⟨a1, a2, a3, a4, a5⟩ := h g List.mem_cons_self l
    have := C01Abs.gasOnGrid_nonneg g req l w hi a1 a2 a3 a5
    have := ih (fun g' hg' => h g' (List.mem_cons_of_mem _ hg'))
    positivity

open Taurex.AbsorptionGrid in
/-- on its own native points a molecule's values are selected, on any other request each value lies between the smallest
    and the largest tabulated value it is interpolated from - also when the request has as many points as the table -/
theorem gasOnGrid_between (g : Gas ℝ) (req : List ℝ) (l w : ℕ) (lo hi : ℝ) (hw : w < (Grid.opacityOnGrid g.wn (g.vals l) req).length)
    (hlen : g.wn.length = (g.vals l).length) (hs : g.wn.Pairwise (· ≤ ·))
    (hv : ∀ v ∈ g.vals l, lo ≤ v ∧ v ≤ hi)
    (hne : 0 < ((g.wn.drop (Interp.searchRight g.wn (Grid.minL req) - 1)).take
      (min (Interp.searchLeft g.wn (Grid.maxL req)) (g.wn.length - 1) + 1 -
        (Interp.searchRight g.wn (Grid.minL req) - 1))).length) :
    lo ≤ gasOnGrid g req l w ∧ gasOnGrid g req l w ≤ hi := by
  unfold gasOnGrid
  rw [NpInterp.getD_eq _ _ hw]
  exact C01Abs.gasOnGrid_mem_between g req l lo hi hlen hs hv hne _ (List.getElem_mem _)

-- non-vacuity: a 3-point table requested on 3 OTHER points between the same limits (the selection is not empty)
open Taurex.AbsorptionGrid in
theorem nv_selection : 0 < ((([1, 2, 4] : List ℝ).drop (Interp.searchRight ([1, 2, 4] : List ℝ) (Grid.minL ([1, 3, 4] : List ℝ)) - 1)).take
    (min (Interp.searchLeft ([1, 2, 4] : List ℝ) (Grid.maxL ([1, 3, 4] : List ℝ))) (([1, 2, 4] : List ℝ).length - 1) + 1 -
      (Interp.searchRight ([1, 2, 4] : List ℝ) (Grid.minL ([1, 3, 4] : List ℝ)) - 1))).length := by
  have h1 : Grid.minL ([1, 3, 4] : List ℝ) = 1 := by norm_num [Grid.minL]
  have h2 : Grid.maxL ([1, 3, 4] : List ℝ) = 4 := by norm_num [Grid.maxL]
  rw [h1, h2]
  norm_num [Interp.searchRight, Interp.searchLeft, List.countP_cons]

open Taurex.AbsorptionGrid in
example : Contrib.Nonneg { kind := Kind.lin, sigma := absSigma [⟨[1, 2, 4], fun _ => [5, 0, 7], fun _ => 3⟩] ([1, 3, 4] : List ℝ) } :=
  absSigma_nonneg _ _ 7 (by
    intro g hg l
    simp only [List.mem_singleton] at hg
    subst hg
    refine ⟨rfl, by norm_num, ?_, by norm_num, nv_selection⟩
    intro v hv
    simp only [List.mem_cons, List.not_mem_nil, or_false] at hv
    rcases hv with rfl | rfl | rfl <;> norm_num)

open Taurex.AbsorptionGrid in
example : (5 : ℝ) ≤ gasOnGrid ⟨[1, 2, 4], fun _ => [5, 6, 7], fun _ => 3⟩ ([1, 3, 4] : List ℝ) 0 1 := by
  refine (gasOnGrid_between _ _ 0 1 5 7 ?_ rfl (by norm_num) ?_ nv_selection).1
  · have h1 : Grid.minL ([1, 3, 4] : List ℝ) = 1 := by norm_num [Grid.minL]
    have h2 : Grid.maxL ([1, 3, 4] : List ℝ) = 4 := by norm_num [Grid.maxL]
    simp only [Grid.opacityOnGrid, List.length_map, apply_ite List.length]
    split
    · norm_num [Grid.inRange, h1, h2, List.filter_cons]
    · simp
  · intro v hv
    simp only [List.mem_cons, List.not_mem_nil, or_false] at hv
    rcases hv with rfl | rfl | rfl <;> norm_num

/-! ### Rayleigh scattering and CIA: the cross-section of a layer is weighted with the abundances IN THAT LAYER -/

open Taurex.AbsorptionGrid in
/-- the Rayleigh cross-section of layer `l` at wavenumber `w` is the sum over the molecules of (law of the molecule at `w`) x
    (abundance of the molecule in layer `l`); the CIA cross-section the sum over the pairs of (pair cross-section at the
    layer's temperature) x (product of both partners' abundances in layer `l`) -/
theorem speciesSigma_eq_sum (gases : List ((ℕ → ℝ) × (ℕ → ℝ))) (pairs : List ((ℕ → ℕ → ℝ) × (ℕ → ℝ) × (ℕ → ℝ)))
    (l w : ℕ) :
    scaledSigma gases l w = (gases.map fun g => g.1 w * g.2 l).sum ∧
    ciaSigma pairs l w = (pairs.map fun p => p.1 l w * (p.2.1 l * p.2.2 l)).sum := by
  constructor
  · induction gases with
    | nil => simp [C01Abs.scaledSigma_nil]
    | cons g gs ih => rw [C01Abs.scaledSigma_cons, ih, List.map_cons, List.sum_cons]
  · induction pairs with
    | nil => simp [C01Abs.ciaSigma_nil]
    | cons p ps ih => rw [C01Abs.ciaSigma_cons, ih, List.map_cons, List.sum_cons]

open Taurex.AbsorptionGrid in
/-- … so it depends on the abundances of layer `l` ONLY: two abundance tables that agree in layer `l` give the same
    cross-section there, whatever they are elsewhere — a molecule that vanishes in other layers (confined below a cold trap,
    zero aloft in a chemistry file) scatters in the layers where it is present exactly as if it were present everywhere -/
theorem scaledSigma_layer_local (gases : List ((ℕ → ℝ) × (ℕ → ℝ) × (ℕ → ℝ))) (l w : ℕ)
    (h : ∀ g ∈ gases, g.2.1 l = g.2.2 l) :
    scaledSigma (gases.map fun g => (g.1, g.2.1)) l w = scaledSigma (gases.map fun g => (g.1, g.2.2)) l w := by
  rw [(speciesSigma_eq_sum _ [] l w).1, (speciesSigma_eq_sum _ [] l w).1, List.map_map, List.map_map]
  congr 1
  apply List.map_congr_left
  intro g hg
  simp only [Function.comp_apply, h g hg]

-- non-vacuity: N2 (law 5 at this wavenumber) with abundance 3/10 in layers 0, 1 and none above scatters in layer 1 exactly
-- as N2 at 3/10 everywhere does; H2 (law 2) fills the rest
open Taurex.AbsorptionGrid in
example : scaledSigma [(fun _ => (5 : ℝ), fun l => if l < 2 then 3 / 10 else 0), (fun _ => 2, fun _ => 7 / 10)] 1 0
    = 5 * (3 / 10) + 2 * (7 / 10) := by
  have := scaledSigma_layer_local
    [(fun _ => (5 : ℝ), fun l => if l < 2 then 3 / 10 else 0, fun _ => 3 / 10), (fun _ => 2, fun _ => 7 / 10, fun _ => 7 / 10)]
    1 0 (by intro g hg; simp at hg; rcases hg with rfl | rfl <;> simp)
  simp only [List.map_cons, List.map_nil] at this
  rw [this, (speciesSigma_eq_sum _ [] 1 0).1]
  simp

open Taurex.AbsorptionGrid in
/-- non-negative laws / pair cross-sections and abundances give contributions that satisfy `Contrib.Nonneg`, the hypothesis
    of `depth_ge_bare`, `depth_le_opaque`, `cutoff_licensed`, `depth_mono_scale` -/
theorem speciesSigma_nonneg (gases : List ((ℕ → ℝ) × (ℕ → ℝ))) (pairs : List ((ℕ → ℕ → ℝ) × (ℕ → ℝ) × (ℕ → ℝ)))
    (hg : ∀ g ∈ gases, (∀ w, 0 ≤ g.1 w) ∧ ∀ l, 0 ≤ g.2 l)
    (hp : ∀ p ∈ pairs, (∀ l w, 0 ≤ p.1 l w) ∧ (∀ l, 0 ≤ p.2.1 l) ∧ ∀ l, 0 ≤ p.2.2 l) :
    Contrib.Nonneg { kind := Kind.lin, sigma := scaledSigma gases } ∧
    Contrib.Nonneg { kind := Kind.sq, sigma := ciaSigma pairs } := by
  constructor
  · intro l w
    show 0 ≤ scaledSigma gases l w
    rw [(speciesSigma_eq_sum gases [] l w).1]
    apply List.sum_nonneg
    intro x hx
    simp only [List.mem_map] at hx
    obtain ⟨g, hgm, rfl⟩ := hx
    exact mul_nonneg ((hg g hgm).1 w) ((hg g hgm).2 l)
  · intro l w
    show 0 ≤ ciaSigma pairs l w
    rw [(speciesSigma_eq_sum [] pairs l w).2]
    apply List.sum_nonneg
    intro x hx
    simp only [List.mem_map] at hx
    obtain ⟨p, hpm, rfl⟩ := hx
    obtain ⟨a, b, c⟩ := hp p hpm
    exact mul_nonneg (a l w) (mul_nonneg (b l) (c l))

open Taurex.AbsorptionGrid in
example : Contrib.Nonneg { kind := Kind.lin, sigma := scaledSigma [(fun _ => (5 : ℝ), fun l => if l < 2 then 3 / 10 else 0)] } :=
  (speciesSigma_nonneg _ [] (by
    intro g hg
    simp only [List.mem_singleton] at hg
    subst hg
    refine ⟨fun _ => by norm_num, fun l => ?_⟩
    simp only
    split <;> norm_num) (by simp)).1

end Taurex.C01
