/-
  C03 — optical depth composes additively over contributions and species.
  Statements about `Taurex.Transmission` (tau loop, with and without the C01 early exit) and `Taurex.Sigma`
  (how `sigma_xsec` is assembled from per-species components) at the carrier ℝ.
-/
import Proofs.C03
import Proofs.C03Mix
import Proofs.C20

open Finset

namespace Taurex.C03
open Taurex.Transmission Taurex.Sigma

/-- the optical depth of a concatenated contribution list is the sum of the parts -/
theorem tauFull_append (n : ℕ) (path dens : ℕ → ℝ) (l : ℕ) (cs ds : List (Contrib ℝ)) (wn : ℕ) :
    tauFull n path dens l (cs ++ ds) wn = tauFull n path dens l cs wn + tauFull n path dens l ds wn := by
  simp [tauFull_eq_sum]

/-- … and does not depend on the order in which contributions were added -/
theorem tauFull_perm (n : ℕ) (path dens : ℕ → ℝ) (l : ℕ) (cs cs' : List (Contrib ℝ)) (h : cs.Perm cs') (wn : ℕ) :
    tauFull n path dens l cs wn = tauFull n path dens l cs' wn := by
  rw [tauFull_eq_sum, tauFull_eq_sum]
  exact (h.map _).sum_eq

/-- transmittance of the whole = product of the transmittances of each contribution alone -/
theorem transmittance_mul (n : ℕ) (path dens : ℕ → ℝ) (l : ℕ) (cs : List (Contrib ℝ)) (wn : ℕ) :
    Transmission.trans (tauFull n path dens l cs wn)
      = (cs.map (fun c => Transmission.trans (tauFull n path dens l [c] wn))).prod := by
  rw [tauFull_eq_sum, trans_sum, List.map_map]
  rfl

/-- the two-contribution instance used by the examples: an absorber and a CIA-like term -/
def nv : List (Contrib ℝ) :=
  [{ kind := .lin, sigma := fun _ wn => if wn = 0 then 20 else 0 }, { kind := .sq, sigma := fun _ _ => 1 }]

theorem nv_nonneg : ∀ c ∈ nv, c.Nonneg := by
  intro c hc
  simp only [nv, List.mem_cons, List.not_mem_nil, or_false] at hc
  rcases hc with rfl | rfl <;> intro l wn <;> simp only <;> [split <;> norm_num; norm_num]

example := tauFull_perm 2 (fun _ => (1 : ℝ)) (fun _ => (1 : ℝ)) 0 nv nv.reverse (List.reverse_perm nv).symm 0
example := transmittance_mul 2 (fun _ => (1 : ℝ)) (fun _ => (1 : ℝ)) 0 nv 1

/-- each contribution's optical depth is the sum over its components (one per molecule / pair), so its
    transmittance is the product over the components (what `model_full_contrib` returns) -/
theorem component_sum (n : ℕ) (path dens : ℕ → ℝ) (l : ℕ) (κ : Kind) (comps : List (ℕ → ℕ → ℝ)) (wn : ℕ) :
    tauFull n path dens l [{ kind := κ, sigma := sumComps comps }] wn
      = (comps.map (fun s => tauFull n path dens l [{ kind := κ, sigma := s }] wn)).sum := by
  simp only [tauFull_eq_sum, List.map_cons, List.map_nil, List.sum_cons, List.sum_nil, add_zero]
  induction comps with
  | nil => rw [sumComps_nil]; simpa using inc_zero n path dens l κ wn
  | cons s comps ih =>
    rw [sumComps_cons, inc_add n path dens l κ s (sumComps comps) wn, ih]
    simp

theorem component_product (n : ℕ) (path dens : ℕ → ℝ) (l : ℕ) (κ : Kind) (comps : List (ℕ → ℕ → ℝ)) (wn : ℕ) :
    Transmission.trans (tauFull n path dens l [{ kind := κ, sigma := sumComps comps }] wn)
      = (comps.map (fun s => Transmission.trans (tauFull n path dens l [{ kind := κ, sigma := s }] wn))).prod := by
  rw [component_sum, trans_sum, List.map_map]; rfl

example := component_product 2 (fun _ => (1 : ℝ)) (fun _ => (1 : ℝ)) 0 .lin
  [compAbs (fun _ _ => 3) (fun _ => 1 / 2), compAbs (fun _ wn => wn) (fun _ => 1 / 4)] 1

/-- a species at zero abundance contributes a zero component, and a zero component changes nothing -/
theorem zero_abundance (xsec : ℕ → ℕ → ℝ) (mix1 : ℕ → ℝ) (comps : List (ℕ → ℕ → ℝ)) :
    compAbs xsec (fun _ => 0) = (fun _ _ => 0) ∧ compCIA xsec (fun _ => 0) mix1 = (fun _ _ => 0) ∧
    compCIA xsec mix1 (fun _ => 0) = (fun _ _ => 0) ∧
    sumComps ((fun _ _ => (0 : ℝ)) :: comps) = sumComps comps := by
  refine ⟨?_, ?_, ?_, ?_⟩
  · funext l wn; simp [compAbs]
  · funext l wn; simp [compCIA]
  · funext l wn; simp [compCIA]
  · rw [sumComps_cons]; funext l wn; simp

example := zero_abundance (fun _ wn => (wn : ℝ) + 1) (fun _ => 1 / 2) [compAbs (fun _ _ => 3) (fun _ => 1 / 2)]

/-- a component's weighted opacity is proportional to its abundance (bilinear in the two partners for CIA),
    and so is its optical depth -/
theorem sigma_prop (xsec : ℕ → ℕ → ℝ) (mix mix2 : ℕ → ℝ) (s : ℝ) (l wn : ℕ) :
    compAbs xsec (fun j => s * mix j) l wn = s * compAbs xsec mix l wn ∧
    compCIA xsec (fun j => s * mix j) mix2 l wn = s * compCIA xsec mix mix2 l wn ∧
    compCIA xsec mix (fun j => s * mix2 j) l wn = s * compCIA xsec mix mix2 l wn ∧
    compScaled (fun w => xsec 0 w) (fun j => s * mix j) l wn = s * compScaled (fun w => xsec 0 w) mix l wn := by
  refine ⟨?_, ?_, ?_, ?_⟩ <;> simp only [compAbs, compCIA, compScaled] <;> ring

theorem tau_prop (n : ℕ) (path dens : ℕ → ℝ) (l : ℕ) (κ : Kind) (sig : ℕ → ℕ → ℝ) (s : ℝ) (wn : ℕ) :
    tauFull n path dens l [{ kind := κ, sigma := fun a b => s * sig a b }] wn
      = s * tauFull n path dens l [{ kind := κ, sigma := sig }] wn := by
  simp only [tauFull_eq_sum, List.map_cons, List.map_nil, List.sum_cons, List.sum_nil, add_zero]
  exact inc_smul n path dens l κ s sig wn

example := sigma_prop (fun _ wn => (wn : ℝ) + 1) (fun _ => 1 / 2) (fun _ => 1 / 3) 2 0 1

/-! ### with the early exit of `path_integral` (C01): "to within the saturation cut-off" -/

/-- a single contribution is never cut (the row starts at 0 ≤ 10) -/
theorem tauCut_single (n nwn : ℕ) (hn : 0 < nwn) (path dens : ℕ → ℝ) (l : ℕ) (c : Contrib ℝ) :
    tauCut n nwn path dens l [c] = tauFull n path dens l [c] := by
  have : saturated nwn (fun _ => (0 : ℝ)) = false := by
    rw [Bool.eq_false_iff]; intro h
    have := (saturated_iff nwn _).1 h 0 hn
    norm_num at this
  simp [tauCut, tauFull, tauCutFrom, tauFullFrom, this]

/-- the returned transmittance of a multi-contribution model differs from the product of the transmittances of
    its contributions run alone (`model_contrib`) by less than `exp(-10)`, and is never below it -/
theorem product_within_cutoff (n nwn : ℕ) (path dens : ℕ → ℝ) (l : ℕ) (hp : ∀ k < n - l, 0 ≤ path k)
    (hd : ∀ j < n, 0 ≤ dens j) (cs : List (Contrib ℝ)) (hcs : ∀ c ∈ cs, c.Nonneg) (wn : ℕ) (hwn : wn < nwn) :
    (cs.map (fun c => Transmission.trans (tauCut n nwn path dens l [c] wn))).prod
        ≤ Transmission.trans (tauCut n nwn path dens l cs wn) ∧
    Transmission.trans (tauCut n nwn path dens l cs wn)
        - (cs.map (fun c => Transmission.trans (tauCut n nwn path dens l [c] wn))).prod ≤ Transmission.trans 10 := by
  have hn : 0 < nwn := by omega
  have e : (cs.map (fun c => Transmission.trans (tauCut n nwn path dens l [c] wn))).prod
      = Transmission.trans (tauFull n path dens l cs wn) := by
    rw [transmittance_mul]
    congr 1
    apply List.map_congr_left
    intro c _
    rw [tauCut_single n nwn hn]
  rw [e]
  exact trans_cut_band n nwn path dens l hp hd cs hcs wn hwn

example := product_within_cutoff 2 2 (fun _ => (1 : ℝ)) (fun _ => (1 : ℝ)) 0 (fun _ _ => by norm_num)
  (fun _ _ => by norm_num) nv nv_nonneg 1 (by norm_num)

/-- with the early exit, two insertion orders give transmittances within `exp(-10)` of each other -/
theorem order_within_cutoff (n nwn : ℕ) (path dens : ℕ → ℝ) (l : ℕ) (hp : ∀ k < n - l, 0 ≤ path k)
    (hd : ∀ j < n, 0 ≤ dens j) (cs cs' : List (Contrib ℝ)) (hcs : ∀ c ∈ cs, c.Nonneg) (h : cs.Perm cs')
    (wn : ℕ) (hwn : wn < nwn) :
    |Transmission.trans (tauCut n nwn path dens l cs wn) - Transmission.trans (tauCut n nwn path dens l cs' wn)|
      ≤ Transmission.trans 10 := by
  have hcs' : ∀ c ∈ cs', c.Nonneg := fun c hc => hcs c (h.mem_iff.2 hc)
  have a := trans_cut_band n nwn path dens l hp hd cs hcs wn hwn
  have b := trans_cut_band n nwn path dens l hp hd cs' hcs' wn hwn
  rw [tauFull_perm n path dens l cs cs' h wn] at a
  rw [abs_le]
  constructor <;> linarith [a.1, a.2, b.1, b.2]

example := order_within_cutoff 2 2 (fun _ => (1 : ℝ)) (fun _ => (1 : ℝ)) 0 (fun _ _ => by norm_num)
  (fun _ _ => by norm_num) nv nv.reverse nv_nonneg (List.reverse_perm nv).symm 0 (by norm_num)

/-! ### correlated-k opacities (`opacity_method = ktables`): the molecular absorption among other sources -/

open Taurex.KTau in
/-- the correlated-k kernel (`contribute_ktau`: `tau[layer,wn] += -log Σ_g w_g exp(-tau_g)`) ADDS the molecular optical depth to
    whatever the sources added earlier have put into the layer (`acc`) -/
theorem ktable_adds_to_earlier (sigma3 : List (List ℝ)) (path dens ws : List ℝ) (n l : ℕ) (acc : ℝ) :
    ktauRow sigma3 path dens ws n l acc = acc + ktauRow sigma3 path dens ws n l 0 := by
  unfold ktauRow; ring

example : KTau.ktauRow [[2, 5], [3, 7]] [1, 1] [1, 1] [(1/4 : ℝ), 3/4] 2 0 6
    = 6 + KTau.ktauRow [[2, 5], [3, 7]] [1, 1] [1, 1] [(1/4 : ℝ), 3/4] 2 0 0 := ktable_adds_to_earlier _ _ _ _ _ _ _

open Taurex.KTau in
/-- hence the layer's optical depth does not depend on whether a cross-section source (`contribute_tau`, `tauRowX`) was added
    before or after the k-table absorption -/
theorem ktable_order (sigma3 : List (List ℝ)) (sigma path dens ws : List ℝ) (n l : ℕ) (acc : ℝ) :
    ktauRow sigma3 path dens ws n l (tauRowX sigma path dens n l acc)
      = tauRowX sigma path dens n l (ktauRow sigma3 path dens ws n l acc) := by
  rw [tauRowX_acc, tauRowX_acc sigma path dens n l (ktauRow sigma3 path dens ws n l acc)]
  unfold ktauRow; ring

example : KTau.ktauRow [[2, 5], [3, 7]] [1, 1] [1, 1] [(1/4 : ℝ), 3/4] 2 0 (KTau.tauRowX [4, 9] [1, 1] [1, 1] 2 0 0)
    = KTau.tauRowX [4, 9] [1, 1] [1, 1] 2 0 (KTau.ktauRow [[2, 5], [3, 7]] [1, 1] [1, 1] [(1/4 : ℝ), 3/4] 2 0 0) :=
  ktable_order _ _ _ _ _ _ _ _

open Taurex.KTau in
/-- and the transmittance of the two sources together is the product of the transmittances of each alone -/
theorem ktable_product (sigma3 : List (List ℝ)) (sigma path dens ws : List ℝ) (n l : ℕ) :
    Transmission.trans (ktauRow sigma3 path dens ws n l (tauRowX sigma path dens n l 0))
      = Transmission.trans (tauRowX sigma path dens n l 0) * Transmission.trans (ktauRow sigma3 path dens ws n l 0) := by
  rw [ktable_adds_to_earlier]
  unfold Transmission.trans
  simp only [exp_real]
  rw [← Real.exp_add]; congr 1; ring

example := ktable_product [[2, 5], [3, 7]] [4, 9] [1, 1] [1, 1] [(1/4 : ℝ), 3/4] 2 0

/-! ### which abundance a component is weighted with: the look-up rule, and chemistries with freed molecules -/

open Taurex.MixLookup in
/-- `get_gas_mix_profile(name)` hands out the row of the ACTIVE table when the name is among the active gases, otherwise the
    row of the INACTIVE table (the row at `names.index(name)`: the first pair with that name) -/
theorem gasMix_rule (active inactive : List (String × (ℕ → ℝ))) (name : String) :
    (∀ pre post r, active = pre ++ (name, r) :: post → hasName pre name = false →
      gasMix active inactive name = some r) ∧
    (hasName active name = false → gasMix active inactive name = rowOf inactive name) := by
  constructor
  · intro pre post r h hpre
    have h0 : pre.find? (fun p => p.1 == name) = none := by
      rw [List.find?_eq_none]
      intro x hx hxn
      unfold hasName at hpre
      rw [List.any_eq_true.2 ⟨x, hx, hxn⟩] at hpre
      exact Bool.noConfusion hpre
    simp [gasMix, rowOf, h, List.find?_append, h0]
  · intro hA
    have h0 : active.find? (fun p => p.1 == name) = none := by
      rw [List.find?_eq_none]
      intro x hx hxn
      unfold hasName at hA
      rw [List.any_eq_true.2 ⟨x, hx, hxn⟩] at hA
      exact Bool.noConfusion hA
    simp [gasMix, rowOf, h0]

open Taurex.MixLookup in
example : gasMix [("H2O", fun _ => (1 / 100 : ℝ)), ("CH4", fun _ => 2 / 100)] [("H2", fun _ => 97 / 100)] "CH4"
    = some (fun _ => 2 / 100) :=
  (gasMix_rule _ _ "CH4").1 [("H2O", fun _ => 1 / 100)] [] _ rfl (by decide)

open Taurex.MixLookup in
/-- in a chemistry wrapped with `MakeFreeMixin`, a molecule of the wrapped chemistry that has been replaced by a free gas is
    looked up with the FREE gas's profile, renormalised by the column sum of the freed atmosphere — not with the row of the
    wrapped chemistry's own table; so its absorption component is `cross-section x (free abundance / column sum)`.
    Stated for a freed absorbing molecule (first part) and a freed non-absorbing one (second part). -/
theorem freed_weight (active inactive : List (String × (ℕ → ℝ))) (free : List (Free ℝ)) (f : Free ℝ)
    (hf : free.find? (fun g => g.mol == f.mol) = some f) :
    (hasName active f.mol = true →
      gasMix (freedActive active inactive free) (freedInactive active inactive free) f.mol
        = some (fun l => f.prof l / normFactor active inactive free l)) ∧
    (hasName active f.mol = false → hasName inactive f.mol = true →
      gasMix (freedActive active inactive free) (freedInactive active inactive free) f.mol
        = some (fun l => f.prof l / normFactor active inactive free l)) := by
  constructor
  · intro hA
    unfold gasMix freedActive
    rw [rowOf_normalised, rawActive_freed active inactive free f hf hA]
    rfl
  · intro hA hI
    unfold gasMix freedActive freedInactive
    rw [rowOf_normalised, rawActive_none active inactive free f.mol hA hI, rowOf_normalised,
      rawInactive_freed active inactive free f hf hI]
    rfl

open Taurex.MixLookup Taurex.Sigma in
/-- … and the absorption component of the freed molecule is its cross-section weighted with that renormalised free abundance,
    hence proportional to it -/
theorem freed_component (active inactive : List (String × (ℕ → ℝ))) (free : List (Free ℝ)) (f : Free ℝ)
    (hf : free.find? (fun g => g.mol == f.mol) = some f) (hA : hasName active f.mol = true) (xsec : ℕ → ℕ → ℝ) :
    ∃ mix, gasMix (freedActive active inactive free) (freedInactive active inactive free) f.mol = some mix ∧
      ∀ l wn, compAbs xsec mix l wn = xsec l wn * (f.prof l / normFactor active inactive free l) :=
  ⟨_, (freed_weight active inactive free f hf).1 hA, fun l wn => by simp [compAbs]⟩

-- non-vacuity: a file chemistry H2O (absorbing, 1e-5) / H2 / He in which H2O is replaced by a free gas at 1e-2: the
-- component weight is 1e-2 / (1e-2 + 0.85 + 0.15), not the file's 1e-5
open Taurex.MixLookup in
example : gasMix (freedActive [("H2O", fun _ => (1 / 100000 : ℝ))] [("H2", fun _ => 85 / 100), ("He", fun _ => 15 / 100)]
      [⟨"H2O", fun _ => 1 / 100, true⟩])
    (freedInactive [("H2O", fun _ => (1 / 100000 : ℝ))] [("H2", fun _ => 85 / 100), ("He", fun _ => 15 / 100)]
      [⟨"H2O", fun _ => 1 / 100, true⟩]) "H2O"
    = some (fun l => (1 / 100 : ℝ) / normFactor [("H2O", fun _ => (1 / 100000 : ℝ))]
        [("H2", fun _ => 85 / 100), ("He", fun _ => 15 / 100)] [⟨"H2O", fun _ => 1 / 100, true⟩] l) :=
  (freed_weight _ _ _ ⟨"H2O", fun _ => 1 / 100, true⟩ (by simp [List.find?])).1 (by decide)

open Taurex.MixLookup in
example : normFactor [("H2O", fun _ => (1 / 100000 : ℝ))] [("H2", fun _ => 85 / 100), ("He", fun _ => 15 / 100)]
    [⟨"H2O", fun _ => 1 / 100, true⟩] 0 = 1 / 100 + 85 / 100 + 15 / 100 := by
  simp [normFactor, colSum, rawActive, rawInactive, replaceRows, newGases, hasName, List.find?]
  norm_num

/-! ### a species at zero abundance changes nothing — also not the mean molecular weight (hence the scale height)

  `MixLookup.muOf` is the mean molecular weight of the mixture a makefree chemistry publishes (`MakeFreeMixin.compute_mu_profile`
  as repaired: on the pinned tree it weighed the WRAPPED chemistry's own table, so a molecule of a chemistry file freed to zero
  abundance kept the file's abundance in `mu` — found by the makefree stream of this check, DESIGN §6). -/

open Taurex.MixLookup in
/-- a species whose (freed) abundance is zero in a layer does not enter the mean molecular weight of that layer, whichever
    table it is listed in and wherever it stands: the atmosphere weighs what it weighs without the species -/
theorem zero_species_weighs_nothing (mass : String → ℝ) (pre post other : List (String × (ℕ → ℝ))) (n : String)
    (r : ℕ → ℝ) (l : ℕ) (h : r l = 0) :
    muOf mass (pre ++ (n, r) :: post) other l = muOf mass (pre ++ post) other l ∧
    muOf mass other (pre ++ (n, r) :: post) l = muOf mass other (pre ++ post) l := by
  unfold muOf
  rw [tableWeight_zero_row mass pre post n r l h]
  exact ⟨rfl, rfl⟩

open Taurex.MixLookup in
/-- the weight of the published (renormalised) mixture is the weight of the un-normalised tables divided by the column sum:
    renormalisation is not lost on the way to `mu` -/
theorem mu_of_renormalised (mass : String → ℝ) (active inactive : List (String × (ℕ → ℝ))) (c : ℝ) (l : ℕ) :
    muOf mass (active.map fun p => (p.1, fun k => p.2 k * c)) (inactive.map fun p => (p.1, fun k => p.2 k * c)) l
      = muOf mass active inactive l * c := by
  unfold muOf
  rw [tableWeight_scale, tableWeight_scale]; ring

-- non-vacuity (the reproducer `findings/c03_makefree_zero_abundance.py`): H2 6/7, He 1/7 published, CO2 freed to zero:
-- the weight is that of the H2/He mixture (masses 2, 4, 44 for the example)
open Taurex.MixLookup in
example : muOf (fun n => if n == "H2" then (2 : ℝ) else if n == "He" then 4 else 44)
    [("CO2", fun _ => 0)] [("H2", fun _ => 6 / 7), ("He", fun _ => 1 / 7)] 0 = 2 * (6 / 7) + 4 * (1 / 7) := by
  simp [muOf, tableWeight]; ring

end Taurex.C03
