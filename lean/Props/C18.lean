/-
  C18 — parallel post-processing is invariant to how samples are split across ranks.
  Theorems about `TaurexModel/Variance.lean` (the definitions `driver_c18` executes on Float), over ℝ
  (and one kernel-decided witness over ℚ).  A sample is a pair `(value, weight)`.
    accOf            = OnlineVariance.update over a rank's samples
    pooledVariance   = OnlineVariance.parallelVariance on every rank (NaN recognised by value, the current code),
                       `ser` = the pickle round trip of every gathered object, `id` = no mpi4py
    partition size   = the blocks `samples[rank::size]`, `splitVariance` = the whole post-processing loop
-/
import Proofs.C18
import Proofs.C18Partition
import Proofs.C18Derived
import Proofs.C18Sample

namespace Taurex.C18
open Taurex Taurex.Variance

/-- West's streaming update: after any samples whose non-empty weight prefixes have positive sums, the
    accumulators hold the count, the total weight, the weighted mean `Σwx/Σw` and `m2 = Σ w (x - mean)²`. -/
theorem update_invariant (l : List (ℝ × ℝ)) (hne : l ≠ [])
    (hpos : ∀ k, 0 < k → k ≤ l.length → 0 < wsum (l.take k)) :
    (accOf l).count = l.length ∧ (accOf l).wcount = wsum l ∧ (accOf l).mean = wmean l ∧
      (accOf l).m2 = sumBy (fun p => p.2 * ((p.1 - wmean l) * (p.1 - wmean l))) l := by
  have hp : PosPrefix l := fun k hk hkl => by have := hpos k hk hkl; rwa [wsum_eq] at this
  obtain ⟨h1, h2, h3⟩ := accOf_inv l hp
  obtain ⟨hm, hm2⟩ := h3 hne
  have hW : 0 < S0 l := hp.total hne
  refine ⟨h1, by rw [h2, wsum_eq], by rw [hm, wmean_eq], ?_⟩
  rw [hm2, sumBy_eq, wmean_eq, sum_sq_dev]
  field_simp; ring

example : (accOf [((1 : ℝ), (0.2 : ℝ)), (4, 0.3), (2, 0.5)]).mean = wmean [((1 : ℝ), (0.2 : ℝ)), (4, 0.3), (2, 0.5)] :=
  (update_invariant _ (by simp) (by
    intro k hk hkl
    rw [wsum_eq]
    exact posPrefix_of_pos (by intro p hp; simp at hp; rcases hp with rfl | rfl | rfl <;> norm_num) k hk hkl)).2.2.1

/-- Pooled = two-pass, for ANY assignment of the samples to ranks (blocks may be empty or hold one sample),
    through the serialisation of every gathered value: with positive weights and at least two samples in total,
    every rank's `parallelVariance` is the two-pass weighted variance of the concatenation of the blocks. -/
theorem combine_two_pass (parts : List (List (ℝ × ℝ))) (hpos : ∀ part ∈ parts, ∀ p ∈ part, 0 < p.2)
    (h2 : 2 ≤ parts.flatten.length) :
    pooledVariance ser parts = some (Val.fin (twoPassVar parts.flatten)) :=
  parallelVariance_eq exchange_ser (summ_forall hpos) h2

/-- non-vacuity: 3 ranks holding 2 / 1 / 0 samples -/
example : pooledVariance ser [[((1 : ℝ), (0.2 : ℝ)), (4, 0.3)], [(2, 0.5)], []] =
    some (Val.fin (twoPassVar [((1 : ℝ), (0.2 : ℝ)), (4, 0.3), (2, 0.5)])) :=
  combine_two_pass _ (by
    intro part hpart p hp
    simp at hpart
    rcases hpart with rfl | rfl | rfl <;> simp at hp
    · rcases hp with rfl | rfl <;> norm_num
    · subst hp; norm_num) (by simp)

/-- the pooled mean computed on the way is the weighted mean of all samples -/
theorem combine_mean (parts : List (List (ℝ × ℝ))) (hpos : ∀ part ∈ parts, ∀ p ∈ part, 0 < p.2)
    (hne : parts.flatten ≠ []) :
    parallelMean nanByValue ser (parts.map accOf) = some (Val.fin (wmean parts.flatten)) :=
  parallelMean_eq exchange_ser (summ_forall hpos) hne

/-- With fewer than two samples in total every rank reports NaN, as a single process does. -/
theorem pooled_lt2 (exch : Obj ℝ → Obj ℝ) (parts : List (List (ℝ × ℝ)))
    (hpos : ∀ part ∈ parts, ∀ p ∈ part, 0 < p.2) (h2 : parts.flatten.length < 2) :
    pooledVariance exch parts = some Val.nan :=
  parallelVariance_lt2 (summ_forall hpos) h2

example : pooledVariance ser [[], [((3 : ℝ), (1 : ℝ))], []] = some Val.nan :=
  pooled_lt2 _ _ (by
    intro part hpart p hp
    simp at hpart
    rcases hpart with rfl | rfl | rfl <;> simp at hp
    subst hp; norm_num) (by simp)

/-- The single process without mpi4py (nothing is serialised, one block) computes the same two-pass variance. -/
theorem single_process_two_pass (xs : List (ℝ × ℝ)) (hpos : ∀ p ∈ xs, 0 < p.2) (h2 : 2 ≤ xs.length) :
    pooledVariance id [xs] = some (Val.fin (twoPassVar xs)) := by
  have := parallelVariance_eq exchange_id (summ_forall (parts := [xs]) (by simpa using hpos)) (by simpa using h2)
  simpa [pooledVariance] using this

/-- The rank slices `xs[r::size]`, `r < size`, are a partition of the samples: concatenated they are a
    permutation of `xs` (each sample exactly once), there are `size` of them, and on the index list `range n`
    slice `r` is exactly the indices below `n` congruent to `r`. -/
theorem strided_partition {β : Type} {size : ℕ} (hs : 0 < size) (xs : List β) :
    (partition size xs).flatten.Perm xs ∧ (partition size xs).length = size ∧
      ∀ n r i, r < size → (i ∈ strided r size (List.range n) ↔ i < n ∧ i % size = r) :=
  ⟨partition_flatten_perm hs xs, partition_length size xs, fun _ _ _ hr => mem_strided_range hr⟩

example : (partition 2 [10, 11, 12]).flatten.Perm [10, 11, 12] ∧ partition 2 [10, 11, 12] = [[10, 12], [11]] :=
  ⟨(strided_partition (by norm_num) _).1, by decide⟩

/-- Invariance to the split: for every number of ranks the post-processing loop (strided blocks, streaming
    update on each rank, gather through pickling, pooled combination) returns what the single process returns:
    the two-pass weighted variance of all samples, or NaN when there are fewer than two. -/
theorem split_invariant {size : ℕ} (hs : 0 < size) (xs : List (ℝ × ℝ)) (hpos : ∀ p ∈ xs, 0 < p.2) :
    splitVariance size xs = pooledVariance id [xs] ∧
      splitVariance size xs = if xs.length < 2 then some Val.nan else some (Val.fin (twoPassVar xs)) := by
  have hperm := partition_flatten_perm hs xs
  have hpp : ∀ part ∈ partition size xs, ∀ p ∈ part, 0 < p.2 := by
    intro part hpart p hp
    exact hpos p (hperm.subset (List.mem_flatten.2 ⟨part, hpart, hp⟩))
  have hlen : (partition size xs).flatten.length = xs.length := hperm.length_eq
  by_cases h2 : xs.length < 2
  · have e1 : splitVariance size xs = some Val.nan := pooled_lt2 _ _ hpp (by omega)
    have e2 : pooledVariance id [xs] = some Val.nan :=
      pooled_lt2 _ _ (by simpa using hpos) (by simpa using h2)
    simp [e1, e2, h2]
  · have e1 : splitVariance size xs = some (Val.fin (twoPassVar xs)) := by
      have := combine_two_pass (partition size xs) hpp (by omega)
      rw [twoPassVar_perm hperm] at this
      exact this
    have e2 := single_process_two_pass xs hpos (by omega)
    simp [e1, e2, h2]

/-- … hence the same for any two rank counts -/
theorem split_invariant_sizes {s₁ s₂ : ℕ} (h₁ : 0 < s₁) (h₂ : 0 < s₂) (xs : List (ℝ × ℝ))
    (hpos : ∀ p ∈ xs, 0 < p.2) : splitVariance s₁ xs = splitVariance s₂ xs := by
  rw [(split_invariant h₁ xs hpos).1, (split_invariant h₂ xs hpos).1]

example : splitVariance 2 [((1 : ℝ), (0.2 : ℝ)), (4, 0.3), (2, 0.5)] =
    splitVariance 7 [((1 : ℝ), (0.2 : ℝ)), (4, 0.3), (2, 0.5)] :=
  split_invariant_sizes (by norm_num) (by norm_num) _ (by
    intro p hp; simp at hp; rcases hp with rfl | rfl | rfl <;> norm_num)

/-- What the model distinguishes (defect F7, repaired by 02e0331): had `combine_variance` recognised the NaN
    variance of a one-sample rank by *identity* with `np.nan`, the serialised exchange would poison the pooled
    variance — 2 ranks, 3 samples, exact rational arithmetic — while the value test gives the two-pass 14/9. -/
theorem nan_identity_witness :
    parallelVariance nanByIdentity ser ((partition 2 [((1 : Rat), (1 : Rat)), (2, 1), (4, 1)]).map accOf)
        = some Val.nan ∧
    parallelVariance nanByIdentity id ([[((1 : Rat), (1 : Rat)), (2, 1), (4, 1)]].map accOf)
        = some (Val.fin (14 / 9)) ∧
    parallelVariance nanByValue ser ((partition 2 [((1 : Rat), (1 : Rat)), (2, 1), (4, 1)]).map accOf)
        = some (Val.fin (14 / 9)) := by
  decide +kernel

/-- `compute_derived_trace` (current code): every rank evaluates the derived parameters of its slice
    `range(rank, n, size)`; the per-rank traces and the per-rank sample indices are concatenated in rank order and
    the trace is put back by the argsort of the gathered indices.  The stored trace is the trace in sample order
    for EVERY trace and weight list (the same `restore` is applied to both) and every number of ranks. -/
theorem derived_order {β : Type} [Inhabited β] {size : ℕ} (hs : 0 < size) (trace : List β) :
    derivedTraceGather size trace = trace :=
  derivedTraceGather_eq hs trace

/-- non-vacuity: the gather on 2 ranks really permutes (`[10, 12, 11]`) and the result is sample order -/
example : gatherLists (partition 2 [(10 : ℝ), 11, 12]) ≠ [10, 11, 12] ∧
    derivedTraceGather 2 [(10 : ℝ), 11, 12] = [10, 11, 12] :=
  ⟨by simp [gatherLists, partition, strided, List.range, List.range.loop, List.zipIdx], derived_order (by norm_num) _⟩

/-- Regression model of the pinned tree (before a42c6e3), which restored order by matching sorted weights:
    with pairwise distinct weights that was correct … -/
theorem derived_order_pinned {size : ℕ} (hs : 0 < size) {weights trace : List ℝ} (hn : weights.Nodup)
    (hlen : trace.length = weights.length) : derivedTraceGatherPinned size weights trace = trace :=
  derivedTraceGatherPinned_eq hs hn hlen

example : derivedTraceGatherPinned 2 [(0.2 : ℝ), 0.5, 0.3] [(10 : ℝ), 11, 12] = [10, 11, 12] :=
  derived_order_pinned (by norm_num) (by
    rw [List.nodup_cons, List.nodup_cons]
    refine ⟨?_, ?_, List.nodup_singleton _⟩ <;> simp <;> norm_num) rfl

/-- … and with tied weights it was not (defect K2): three samples of equal weight on two ranks were gathered as
    `[t0, t2, t1]` and stayed there, while the current index-based re-ordering returns sample order
    (exact rational arithmetic, kernel-decided). -/
theorem derived_order_tie_witness :
    derivedTraceGatherPinned 2 [(1 : Rat), 1, 1] [(10 : Rat), 11, 12] = [10, 12, 11] ∧
    derivedTraceGather 2 [(10 : Rat), 11, 12] = [10, 11, 12] := by
  decide +kernel

/-- **drawn_samples_once** (`Optimizer.sample_parameters` → `generate_profiles`): whatever list of indices below `n` is drawn
    (`random.sample(range(n), int(n*sigma_fraction))`), every drawn sample is yielded exactly once (weight raised by the
    positive floor `1e-300`), and for every number of ranks the pooled result is the single-process result: the two-pass
    weighted variance of the drawn samples, NaN with fewer than two. -/
theorem drawn_samples_once {size : ℕ} (hs : 0 < size) {floor : ℝ} (hf : 0 < floor) (samples : List (ℝ × ℝ))
    (hw : ∀ p ∈ samples, 0 ≤ p.2) (draw : List ℕ) (hlt : ∀ i ∈ draw, i < samples.length) :
    (sampleParameters draw floor samples).length = draw.length ∧
    postProcess size draw floor samples = pooledVariance id [sampleParameters draw floor samples] ∧
    postProcess size draw floor samples =
      if draw.length < 2 then some Val.nan else some (Val.fin (twoPassVar (sampleParameters draw floor samples))) := by
  have hl := sampleParameters_length floor samples hlt
  have := split_invariant hs (sampleParameters draw floor samples) (sampleParameters_pos hf hw)
  rw [hl] at this
  exact ⟨hl, this.1, this.2⟩

/-- non-vacuity: two of three samples drawn (a fraction below 1), three ranks (one of them empty) -/
example : postProcess 3 [2, 0] (1 / 2 : ℝ) [((1 : ℝ), (0 : ℝ)), (4, 1), (2, 3)] =
    pooledVariance id [sampleParameters [2, 0] (1 / 2 : ℝ) [((1 : ℝ), (0 : ℝ)), (4, 1), (2, 3)]] :=
  (drawn_samples_once (size := 3) (by norm_num) (by norm_num) _
    (by intro p hp; simp at hp; rcases hp with rfl | rfl | rfl <;> norm_num) [2, 0]
    (by intro i hi; simp at hi; rcases hi with rfl | rfl <;> simp)).2.1

/-- **sigma_fraction_one_all_samples**: an optimizer built with `sigma_fraction = 1` (through whichever concrete
    constructor: `heldFraction` is what reaches the base class) draws `int(n*1.0) = n` distinct indices below `n`, i.e.
    EVERY posterior sample exactly once, and for every number of ranks the pooled variance is the two-pass weighted
    variance of ALL samples (floored weights), NaN with fewer than two. -/
theorem sigma_fraction_one_all_samples {size : ℕ} (hs : 0 < size) {floor : ℝ} (hf : 0 < floor)
    (samples : List (ℝ × ℝ)) (hw : ∀ p ∈ samples, 0 ≤ p.2) (draw : List ℕ) (hnd : draw.Nodup)
    (hlt : ∀ i ∈ draw, i < samples.length)
    (hlen : draw.length = drawCount (fun k : ℕ => (k : ℝ)) (fun x : ℝ => ⌊x⌋₊) samples.length
      (heldFraction (0.1 : ℝ) (some 1))) :
    (sampleParameters draw floor samples).Perm (samples.map (fun p => (p.1, p.2 + floor))) ∧
    postProcess size draw floor samples =
      if samples.length < 2 then some Val.nan
      else some (Val.fin (twoPassVar (samples.map (fun p => (p.1, p.2 + floor))))) := by
  have hk : draw.length = samples.length := by
    rw [hlen]
    simp only [heldFraction, Option.getD_some]
    exact drawCount_one _
  have hperm : draw.Perm (List.range samples.length) := by
    refine (List.subperm_of_subset hnd ?_).perm_of_length_le ?_
    · intro i hi
      exact List.mem_range.2 (hlt i hi)
    · rw [List.length_range, hk]
  have hp := sampleParameters_perm floor samples hperm
  refine ⟨hp, ?_⟩
  have h := (drawn_samples_once hs hf samples hw draw hlt).2.2
  rw [h, hk, twoPassVar_perm hp]

/-- non-vacuity: three samples (one of weight 0), drawn in the order 2, 0, 1, on two ranks -/
example : (sampleParameters [2, 0, 1] (1 / 2 : ℝ) [((1 : ℝ), (0 : ℝ)), (4, 1), (2, 3)]).Perm
    ([((1 : ℝ), (0 : ℝ)), (4, 1), (2, 3)].map (fun p => (p.1, p.2 + 1 / 2))) :=
  (sigma_fraction_one_all_samples (size := 2) (by norm_num) (by norm_num) _
    (by intro p hp; simp at hp; rcases hp with rfl | rfl | rfl <;> norm_num) [2, 0, 1] (by decide)
    (by intro i hi; simp at hi; rcases hi with rfl | rfl | rfl <;> simp)
    (by simp [heldFraction, drawCount])).1

end Taurex.C18
