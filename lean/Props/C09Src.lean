/-
  C09 — source tie.  `TaurexModel/Gen/SrcC09.lean` is regenerated on every run by `harness/translate.py` (dialect `obj`,
  harness/translate_obj.py) from the source text of taurex/util/util.py:quantile_corner (weighted branch: `weights` is an
  array in every call of the optimizers) and of ONE ITERATION of the per-parameter loops of
  nestle.py:store_nestle_output, multinest.py:store_nest_solutions, polychord.py:store_polychord_solutions (the record they
  store for fitted parameter `idx`; components in the order of the dict keys, listed by the generated `…_keys`).
  The theorems below state, for EVERY carrier (no algebra), that these are the model functions of
  `TaurexModel/Posterior.lean` (`quantileCorner`, `summary`, `column`, `argmaxFirst`) that the C09 theorems are about and
  that `driver_c09` executes.

  Externals, instantiated with their documented behaviour (the model's reading, validated numerically by harness/c09.py):
  * `np.argsort(x)` = `argsortStable x` (`Proofs/C09SrcLemmas.lean`): the stable sorting permutation;
  * `np.add.accumulate` = `cumsum 0`; `np.interp(q, xp, fp)` = `npInterp` applied to every entry of `q`;
  * `weights.argmax()` (the free variable `max_weight` of the loop; the external `argmax` of the whole
    `store_nestle_output`, `nestle_store`) = `argmaxFirst weights`: numpy's first index of the maximum;
  * nestle's `mean_and_cov(samples, weights)[0][idx]` = the weighted mean of column `idx` (hypothesis `hmean`);
  * the float literals `0.16, 0.5, 0.84` = the model's `q16 q50 q84`.
  WHOLE FUNCTIONS (dialect `objrec`, harness/translate_objrec.py).  `nestle_store` is the whole `store_nestle_output`: the
  nested dict it returns as a flat record whose components are named by their key paths (`nestle_store_keys`); its
  per-parameter loop is the regenerated `nestle_param` mapped over the fit names (`fitparams` = the list of its
  (name, record) stores).  `multinest_mode` / `polychord_mode` are one iteration of the per-mode loops of
  `store_nest_solutions` / `store_polychord_solutions` (the dict stored as `solution<nmode>`; reading the samplers' files
  into `modes_array` / `modes_weights` is not translated).  They are tied to `storeOutput`: stored samples / weights /
  MAP index are its `tracedata` / `weights` / `mapIndex`.
  Guards: `x[idx]`, `weights[idx]`, `trace[max_weight]`, `a, b, c = …` are total in the translation (`getD … 0`); numpy
  raises unless `len(x) = len(weights)`, which the theorems assume.
-/
import TaurexModel.Gen.SrcC09
import Proofs.C09SrcLemmas
import Proofs.C09SrcChains
set_option linter.unusedSectionVars false
set_option linter.unusedVariables false

namespace Taurex.C09Src
open Taurex.Posterior

section
variable {α : Type} [Add α] [Sub α] [Mul α] [Div α] [Neg α] [LT α] [LE α]
  [DecidableLT α] [DecidableLE α] [Taurex.Transc α] [OfNat α 0]

/-- the model's `np.interp`, vectorised over the quantiles as numpy does -/
def interpAll (q xp fp : List α) : List α := q.map (fun t => npInterp t xp fp)

/-- `quantile_corner(x, q, weights)` is `quantileCorner x weights` at every requested quantile -/
theorem src_quantile_corner (x w q : List α) (h : x.length = w.length) :
    Gen.SrcC09.quantile_corner x q w (accumulate := cumsum 0) (argsort := argsortStable) (interp := interpAll)
      = q.map (quantileCorner x w) := by
  unfold Gen.SrcC09.quantile_corner
  simp only [gather_fst 0 x w (by omega), gather_snd 0 x w (by omega)]
  rfl

/-- the same with any `argsort` that sorts the pairs `(x[i], w[i])` the way the model does (e.g. an unstable sort on
    distinct values) -/
theorem src_quantile_corner_any (x w q : List α) (argsort : List α → List Nat)
    (hx : (argsort x).map (fun i => x.getD i 0) = (sortPairs (x.zip w)).map Prod.fst)
    (hw : (argsort x).map (fun i => w.getD i 0) = (sortPairs (x.zip w)).map Prod.snd) :
    Gen.SrcC09.quantile_corner x q w (accumulate := cumsum 0) (argsort := argsort) (interp := interpAll)
      = q.map (quantileCorner x w) := by
  unfold Gen.SrcC09.quantile_corner
  simp only [hx, hw]
  rfl

variable [OfNat α 16] [OfNat α 50] [OfNat α 84] [OfNat α 100]

theorem column_length (samples : List (List α)) (i : Nat) : (column samples i).length = samples.length := by
  simp [column]

/-- one iteration of the loop of `store_nestle_output`: the record of fitted parameter `i` is the model's `summary` of
    column `i`, its `trace` is that column, its `map` the column's entry at the greatest weight -/
theorem src_nestle_param (samples : List (List α)) (w mean : List α) (i : Nat) (h : samples.length = w.length)
    (hmean : mean.getD i 0 = wmean (column samples i) w) :
    Gen.SrcC09.nestle_param i samples w mean (argmaxFirst w) (accumulate := cumsum 0) (argsort := argsortStable)
        (c0p16 := q16) (c0p5 := q50) (c0p84 := q84) (interp := interpAll)
      = ((column samples i).getD (argmaxFirst w) 0, (summary (column samples i) w).mean,
         (summary (column samples i) w).sigmaM, (summary (column samples i) w).sigmaP, column samples i,
         (summary (column samples i) w).value) := by
  unfold Gen.SrcC09.nestle_param
  dsimp only
  rw [show (List.map (fun r => List.getD r i (0 : α)) samples) = column samples i from rfl,
    src_quantile_corner _ _ _ (by rw [column_length]; exact h), hmean]
  rfl

theorem src_nestle_param_keys :
    Gen.SrcC09.nestle_param_keys = ["map", "mean", "sigma_m", "sigma_p", "trace", "value"] := rfl

/-- the MAP entry is the entry of the stored MAP sample (`mapVector`) -/
theorem src_nestle_map (samples : List (List α)) (w : List α) (ndim i : Nat) :
    (column samples i).getD (argmaxFirst w) 0 = (mapVector (storeOutput ndim samples w)).getD i 0 := by
  simp only [mapVector, storeOutput, column, List.getD, List.getElem?_map]
  cases samples[argmaxFirst w]? <;> simp

/-- one iteration of the loop of `store_nest_solutions` for one mode (`tracedata = modes_array[nmode]`,
    `weights = modes_weights[nmode]`); `nest_map`, `mean`, `nest_sigma` pass MultiNest's own statistics through -/
theorem src_multinest_param (trace : List (List α)) (w nmap nmean nsig : List α) (i : Nat) (h : trace.length = w.length) :
    Gen.SrcC09.multinest_param i (accumulate := cumsum 0) (argsort := argsortStable) (c0p16 := q16) (c0p5 := q50)
        (c0p84 := q84) (interp := interpAll) (nest_map := nmap) (nest_mean := nmean) (nest_sigma := nsig)
        (tracedata := trace) (weights := w)
      = (nmean.getD i 0, nmap.getD i 0, nsig.getD i 0, (summary (column trace i) w).sigmaM,
         (summary (column trace i) w).sigmaP, column trace i, (summary (column trace i) w).value) := by
  unfold Gen.SrcC09.multinest_param
  dsimp only
  rw [show (List.map (fun r => List.getD r i (0 : α)) trace) = column trace i from rfl,
    src_quantile_corner _ _ _ (by rw [column_length]; exact h)]
  rfl

theorem src_multinest_param_keys :
    Gen.SrcC09.multinest_param_keys = ["mean", "nest_map", "nest_sigma", "sigma_m", "sigma_p", "trace", "value"] := rfl

/-- one iteration of the loop of `store_polychord_solutions` -/
theorem src_polychord_param (trace : List (List α)) (w nmap nmean nsig : List α) (i : Nat) (h : trace.length = w.length) :
    Gen.SrcC09.polychord_param i (accumulate := cumsum 0) (argsort := argsortStable) (c0p16 := q16) (c0p5 := q50)
        (c0p84 := q84) (interp := interpAll) (nest_map := nmap) (nest_mean := nmean) (nest_sigma := nsig)
        (tracedata := trace) (weights := w)
      = (nmap.getD i 0, nmean.getD i 0, nsig.getD i 0, (summary (column trace i) w).sigmaM,
         (summary (column trace i) w).sigmaP, column trace i, (summary (column trace i) w).value) := by
  unfold Gen.SrcC09.polychord_param
  dsimp only
  rw [show (List.map (fun r => List.getD r i (0 : α)) trace) = column trace i from rfl,
    src_quantile_corner _ _ _ (by rw [column_length]; exact h)]
  rfl

theorem src_polychord_param_keys :
    Gen.SrcC09.polychord_param_keys = ["nest_map", "nest_mean", "nest_sigma", "sigma_m", "sigma_p", "trace", "value"] :=
  rfl

/-- the positions `List.zipIdx` attaches are positions of the list -/
theorem zipIdx_snd_lt {β : Type} (l : List β) (it : β × Nat) (h : it ∈ l.zipIdx) : it.2 < l.length := by
  have := List.mem_zipIdx (x := it.1) (i := it.2) (k := 0) (xs := l) h
  omega

/-- The WHOLE `store_nestle_output(result)` with `weights.argmax()` = numpy's first index of the maximum
    (`argmaxFirst`): the returned dict — components `Stats/Log-Evidence`, `Stats/Log-Evidence-Error`, `Stats/Peakiness`,
    `solution/fitparams`, `solution/samples`, `solution/weights` — holds the sampler's statistics, per fit name (in the
    order of `fit_names`) the record `(map, mean, sigma_m, sigma_p, trace, value)` built from the model's `summary` of the
    parameter's column with `map` read at `storeOutput`'s `mapIndex`, and `storeOutput`'s `tracedata` and `weights`.
    `mean` is nestle's own `mean_and_cov(samples, weights)[0]` (external; `hmean`: its entries are the weighted means). -/
theorem src_nestle_store {Name : Type} (names : List Name) (samples : List (List α)) (w mean : List α)
    (logz logzerr pk : α) (h : samples.length = w.length)
    (hmean : ∀ i, i < names.length → mean.getD i 0 = wmean (column samples i) w) :
    Gen.SrcC09.nestle_store (accumulate := cumsum 0) (argmax := argmaxFirst) (argsort := argsortStable) (c0p16 := q16)
        (c0p5 := q50) (c0p84 := q84) (fit_names := names) (interp := interpAll) (logz := logz) (logzerr := logzerr)
        (nestle_mean := mean) (peakiness := pk) (result_samples := samples) (result_weights := w)
      = (logz, logzerr, pk,
         names.zipIdx.map (fun it => (it.1,
           ((column samples it.2).getD (storeOutput names.length samples w).mapIndex 0,
            (summary (column samples it.2) w).mean, (summary (column samples it.2) w).sigmaM,
            (summary (column samples it.2) w).sigmaP, column samples it.2, (summary (column samples it.2) w).value))),
         (storeOutput names.length samples w).tracedata, (storeOutput names.length samples w).weights) := by
  unfold Gen.SrcC09.nestle_store
  dsimp only
  congr 4
  apply List.map_congr_left
  intro it hit
  rw [src_nestle_param samples w mean it.2 h (hmean it.2 (zipIdx_snd_lt names it hit))]
  rfl

theorem src_nestle_store_keys :
    Gen.SrcC09.nestle_store_keys = ["Stats/Log-Evidence", "Stats/Log-Evidence-Error", "Stats/Peakiness",
      "solution/fitparams", "solution/samples", "solution/weights"] := rfl

/-- one iteration of the per-mode loop of `store_nest_solutions`: the dict stored for one mode (`tracedata =
    modes_array[nmode]`, `weights = modes_weights[nmode]`) holds `(fit_params, tracedata, weights)`: per fit name the
    record of `src_multinest_param`, and `storeOutput`'s `tracedata` and `weights` -/
theorem src_multinest_mode {Name : Type} (names : List Name) (trace : List (List α)) (w nmap nmean nsig : List α)
    (h : trace.length = w.length) :
    Gen.SrcC09.multinest_mode (accumulate := cumsum 0) (argsort := argsortStable) (c0p16 := q16) (c0p5 := q50)
        (c0p84 := q84) (fit_names := names) (interp := interpAll) (nest_map := nmap) (nest_mean := nmean)
        (nest_sigma := nsig) (tracedata := trace) (weights := w)
      = (names.zipIdx.map (fun it => (it.1,
           (nmean.getD it.2 0, nmap.getD it.2 0, nsig.getD it.2 0, (summary (column trace it.2) w).sigmaM,
            (summary (column trace it.2) w).sigmaP, column trace it.2, (summary (column trace it.2) w).value))),
         (storeOutput names.length trace w).tracedata, (storeOutput names.length trace w).weights) := by
  unfold Gen.SrcC09.multinest_mode
  dsimp only
  congr 1
  apply List.map_congr_left
  intro it _
  rw [src_multinest_param trace w nmap nmean nsig it.2 h]

theorem src_multinest_mode_keys : Gen.SrcC09.multinest_mode_keys = ["fit_params", "tracedata", "weights"] := rfl

/-- one iteration of the per-mode loop of `store_polychord_solutions` -/
theorem src_polychord_mode {Name : Type} (names : List Name) (trace : List (List α)) (w nmap nmean nsig : List α)
    (h : trace.length = w.length) :
    Gen.SrcC09.polychord_mode (accumulate := cumsum 0) (argsort := argsortStable) (c0p16 := q16) (c0p5 := q50)
        (c0p84 := q84) (fit_names := names) (interp := interpAll) (nest_map := nmap) (nest_mean := nmean)
        (nest_sigma := nsig) (tracedata := trace) (weights := w)
      = (names.zipIdx.map (fun it => (it.1,
           (nmap.getD it.2 0, nmean.getD it.2 0, nsig.getD it.2 0, (summary (column trace it.2) w).sigmaM,
            (summary (column trace it.2) w).sigmaP, column trace it.2, (summary (column trace it.2) w).value))),
         (storeOutput names.length trace w).tracedata, (storeOutput names.length trace w).weights) := by
  unfold Gen.SrcC09.polychord_mode
  dsimp only
  congr 1
  apply List.map_congr_left
  intro it _
  rw [src_polychord_param trace w nmap nmean nsig it.2 h]

theorem src_polychord_mode_keys : Gen.SrcC09.polychord_mode_keys = ["fit_params", "tracedata", "weights"] := rfl

/-- `a[idx]` with an index array whose entries are valid positions is the model's `gather` -/
theorem map_getD_eq_gather (a : List α) (perm : List Nat) (h : ∀ j ∈ perm, j < a.length) :
    perm.map (fun i => a.getD i 0) = gather perm a := by
  induction perm with
  | nil => rfl
  | cons j perm ih =>
    have hj : j < a.length := h j (by simp)
    simp only [gather, List.map_cons, List.filterMap_cons, List.getElem?_eq_getElem hj, List.getD,
      Option.getD_some]
    congr 1
    exact ih (fun k hk => h k (by simp [hk]))

/-- one iteration of the per-parameter loop of `compute_derived_trace`: `gt` / `gw` are the gathered trace and weights
    (`mpi.allreduce(…, op='SUM')`), `restore` the index array that puts them back into sample order
    (`all_index.argsort()`, the model's `argsortNat index`: then `gather restore gt = restoreOrder index gt`);
    `np.average(x, weights=w, axis=0)` = `wmean`.  The record is the model's `summary` of the restored trace. -/
theorem src_derived_param (gt gw trace w : List α) (restore : List Nat)
    (ht : ∀ j ∈ restore, j < gt.length) (hw : ∀ j ∈ restore, j < gw.length) :
    Gen.SrcC09.derived_param trace w restore (accumulate := cumsum 0) (argsort := argsortStable) (average := wmean)
        (c0p16 := q16) (c0p5 := q50) (c0p84 := q84) (gathered_trace := gt) (gathered_w := gw) (interp := interpAll)
      = ((summary (gather restore gt) (gather restore gw)).mean, (summary (gather restore gt) (gather restore gw)).sigmaM,
         (summary (gather restore gt) (gather restore gw)).sigmaP, gather restore gt,
         (summary (gather restore gt) (gather restore gw)).value) := by
  unfold Gen.SrcC09.derived_param
  dsimp only
  rw [map_getD_eq_gather gt restore ht, map_getD_eq_gather gw restore hw,
    src_quantile_corner _ _ _ (by
      rw [← map_getD_eq_gather gt restore ht, ← map_getD_eq_gather gw restore hw, List.length_map, List.length_map])]
  rfl

/-- with `restore = all_index.argsort()` the restored trace is the model's `restoreOrder` -/
theorem src_derived_restore (index : List Nat) (gt : List α) :
    gather (argsortNat index) gt = restoreOrder index gt := rfl

theorem src_derived_param_keys :
    Gen.SrcC09.derived_param_keys = ["mean", "sigma_m", "sigma_p", "trace", "value"] := rfl

end

/-! ### the chains files: what `store_nest_solutions` / `store_polychord_solutions` read back before they summarise

  The statements from `modes = []` (`modes_array = []`) up to the loop over the modes, translated in the dialect `seq` once per
  calling pattern.  File contents are inputs: `data` = `np.loadtxt` of the chains table, `lines` = `f.readlines()` of
  `<base>post_separate.dat`, `splitWs` / `parseFloat` = `str.split()` / `float(token)`; the model works on the parsed lines
  `toPLine` (is the line exactly `"\n"`, its numbers). -/

section
variable {α : Type} [OfNat α 0]

/-- **`store_nest_solutions`, `multimodes = False`**: one solution — the samples are the columns `2:` and the weights column
    `0` of `<base>.txt` (`nestChainsSingle`); `modes = [0]` (one mode) -/
theorem src_multinest_chains_single (data : List (List α)) :
    Gen.SrcC09.multinest_chains_single data
      = ((nestChainsSingle data).1, (nestChainsSingle data).2, [(0 : α)]) := rfl

/-- **`store_nest_solutions`, `multimodes = True`**: the line loop over `post_separate.dat` (from the fourth line on, two
    empty lines before a line close the mode; a line with more than two tokens is a sample with weight `tokens[0]`) and the
    per-mode arrays (`np.zeros((len(mode), len(mode[0])))` filled row by row) are the model's `nestChainsModes` of the parsed
    lines; the third component, `modes`, is the list of modes whose length the loop over the solutions runs over -/
theorem src_multinest_chains_modes (data : List (List α)) (lines : List String) (splitWs : String → List String)
    (parseFloat : String → α) :
    Gen.SrcC09.multinest_chains_modes data lines parseFloat splitWs
      = ((nestChainsModes (lines.map (toPLine splitWs parseFloat))).1,
         (nestChainsModes (lines.map (toPLine splitWs parseFloat))).2,
         (splitModes (lines.map (toPLine splitWs parseFloat))).1) := by
  have hloop := lineLoop_eq lines splitWs parseFloat lines []
    { modes := [], weights := [], chains := [], cw := [], prev1 := false, prev2 := false, idx := 0 } rfl rfl
    ⟨fun h => absurd h (Nat.not_succ_le_zero 0), fun h => absurd h (Nat.not_succ_le_zero 1)⟩
  have hgen : Gen.SrcC09.multinest_chains_modes data lines parseFloat splitWs
      = (let st := List.foldl (lineStep lines splitWs parseFloat) ([], [], [], []) (List.zipIdx lines)
         (List.foldl (fun (acc : List (List (List α))) (mode : List (List α)) => acc ++ [
            List.foldl (fun (M : List (List α)) (it : List α × Nat) => Gen.Np.setRow M it.2 it.1)
              (List.replicate mode.length (List.replicate (List.length (mode.getD 0 [])) (0 : α))) (List.zipIdx mode)])
            [] (st.1 ++ [st.2.2.1]),
          st.2.1 ++ [st.2.2.2], st.1 ++ [st.2.2.1])) := rfl
  rw [hgen]
  simp only [List.length_nil] at hloop
  have hl : listsOf ({ modes := [], weights := [], chains := [], cw := [], prev1 := false, prev2 := false, idx := 0 } :
      SplitState α) = ([], [], [], []) := rfl
  rw [hl] at hloop
  rw [hloop]
  dsimp only
  rw [foldl_append_map]
  simp only [listsOf, nestChainsModes, splitModes, modeArray_src, List.nil_append]

/-- `M[:, 2:n+2]` row by row -/
theorem slice_cols (n : Nat) (r : List α) : Gen.Np.slice r 2 (n + 2) = (r.drop 2).take n := by
  unfold Gen.Np.slice
  rw [Nat.add_sub_cancel]

/-- the loop over the cluster files: `modes_array` / `modes_weights` grow by one table per file -/
theorem cluster_loop (nfit : Nat) (cluster : Nat → List (List α)) (data : List (List α)) :
    ∀ (ks : List Nat) (d : List (List α)) (A : List (List (List α))) (W : List (List α)),
      ks ≠ [] ∨ d = data →
      (List.foldl (fun (st : List (List α) × List (List (List α)) × List (List α)) (midx : Nat) =>
          (cluster midx,
           st.2.1 ++ [List.map (fun r => Gen.Np.slice r 2 (nfit + 2)) (cluster midx)],
           st.2.2 ++ [List.map (fun r => r.getD 0 (0 : α)) (cluster midx)])) (d, A, W) ks).2
        = (A ++ ks.map (fun k => tableSamplesN nfit (cluster k)), W ++ ks.map (fun k => tableWeights (cluster k)))
  | [], d, A, W, _ => by simp
  | k :: ks, d, A, W, _ => by
    rw [List.foldl_cons]
    have ih := cluster_loop nfit cluster data ks (cluster k)
      (A ++ [List.map (fun r => Gen.Np.slice r 2 (nfit + 2)) (cluster k)])
      (W ++ [List.map (fun r => r.getD 0 (0 : α)) (cluster k)])
    by_cases hks : ks = []
    · subst hks
      simp [tableSamplesN, tableWeights, slice_cols]
    · rw [ih (Or.inl hks)]
      simp [tableSamplesN, tableWeights, slice_cols]

/-- **`store_polychord_solutions`**, from `modes_array = []` up to the loop over the clusters: without clustering, or with
    one cluster, the table `1-.txt` (samples = columns `2:num_fit_params+2`, weights = column `0`); otherwise one solution
    per cluster file — the model's `polyChains`.  `clusterTable k` = `np.loadtxt` of `clusters/1-_{k+1}.txt`, `nFit` =
    `len(self.fit_names)`. -/
theorem src_polychord_chains (data : List (List α)) (nClusters : Nat) (cluster : Nat → List (List α)) (dc : Bool)
    (nFit : Nat) :
    Gen.SrcC09.polychord_chains data nClusters cluster dc nFit
      = polyChains nFit dc nClusters data cluster := by
  unfold Gen.SrcC09.polychord_chains polyChains
  cases dc
  · simp [tableSamplesN, tableWeights, slice_cols]
  · by_cases h1 : nClusters = 1
    · simp [h1, tableSamplesN, tableWeights, slice_cols]
    · have hl := cluster_loop nFit cluster data (List.range' 0 nClusters) data [] [] (Or.inr rfl)
      simp only [h1, decide_false, Bool.false_eq_true, if_false, if_true]
      rw [Prod.ext_iff] at hl
      simp only [List.nil_append] at hl
      simp only [hl.1, hl.2, List.range_eq_range']

end

/-! ### the whole store functions of the MultiNest / PolyChord wrappers

  `NEST_out = {'solutions': {}}`, the chains (the statement range tied above, called as a function), the loop over the modes
  (`for nmode in range(…)`: one iteration = `multinest_mode` / `polychord_mode`, stored under `'solution{}'.format(nmode)`),
  `return NEST_out`.  The value is the sub-dict `solutions` as the list of its stores.  `nmap k`, `nmean k`, `nsig k` are the
  sampler's own `NEST_stats['modes'][k][…]` lists (pass-through inputs, functions of the mode index). -/

section
variable {α : Type} [Add α] [Sub α] [Mul α] [Div α] [Neg α] [LT α] [LE α] [DecidableLT α] [DecidableLE α]
  [Taurex.Transc α] [OfNat α 0] [OfNat α 16] [OfNat α 50] [OfNat α 84] [OfNat α 100]

/-- the dict MultiNest's wrapper stores for one mode, in terms of the model: per fit name `(mean, nest_map, nest_sigma,
    sigma_m, sigma_p, trace, value)`, then `tracedata`, `weights` -/
def nestModeRec {Name : Type} (names : List Name) (nmap nmean nsig : List α) (trace : List (List α)) (w : List α) :
    List (Name × (α × α × α × α × α × List α × α)) × List (List α) × List α :=
  (names.zipIdx.map (fun it => (it.1,
     (nmean.getD it.2 0, nmap.getD it.2 0, nsig.getD it.2 0, (summary (column trace it.2) w).sigmaM,
      (summary (column trace it.2) w).sigmaP, column trace it.2, (summary (column trace it.2) w).value))),
   (storeOutput names.length trace w).tracedata, (storeOutput names.length trace w).weights)

/-- the same for PolyChord: `(nest_map, nest_mean, nest_sigma, sigma_m, sigma_p, trace, value)` -/
def polyModeRec {Name : Type} (names : List Name) (nmap nmean nsig : List α) (trace : List (List α)) (w : List α) :
    List (Name × (α × α × α × α × α × List α × α)) × List (List α) × List α :=
  (names.zipIdx.map (fun it => (it.1,
     (nmap.getD it.2 0, nmean.getD it.2 0, nsig.getD it.2 0, (summary (column trace it.2) w).sigmaM,
      (summary (column trace it.2) w).sigmaP, column trace it.2, (summary (column trace it.2) w).value))),
   (storeOutput names.length trace w).tracedata, (storeOutput names.length trace w).weights)

/-- the solutions a wrapper stores for `count` modes whose samples / weights are `arrays[k]` / `weights[k]` -/
def solutionsOf {ρ : Type} (rec : Nat → List (List α) → List α → ρ) (arrays : List (List (List α)))
    (weights : List (List α)) (count : Nat) : List (String × ρ) :=
  (List.range count).map (fun k => ("solution" ++ toString k, rec k (arrays.getD k []) (weights.getD k [])))

theorem solutions_congr {ρ : Type} (f g : Nat → ρ) (count : Nat) (h : ∀ k < count, f k = g k) :
    (List.range count).map (fun k => ("solution" ++ toString k, f k))
      = (List.range count).map (fun k => ("solution" ++ toString k, g k)) := by
  apply List.map_congr_left
  intro k hk
  rw [h k (List.mem_range.1 hk)]

/-- every mode the line loop closes has as many weights as samples -/
theorem splitStep_lengths (st : SplitState α) (l : PLine α)
    (h : st.chains.length = st.cw.length ∧ st.modes.length = st.weights.length ∧
      ∀ k, (st.modes.getD k []).length = (st.weights.getD k []).length) :
    (splitStep st l).chains.length = (splitStep st l).cw.length ∧
    (splitStep st l).modes.length = (splitStep st l).weights.length ∧
      ∀ k, ((splitStep st l).modes.getD k []).length = ((splitStep st l).weights.getD k []).length := by
  obtain ⟨h1, h2, h3⟩ := h
  unfold splitStep
  by_cases hs : 2 < st.idx ∧ st.prev1 = true ∧ st.prev2 = true <;>
    by_cases hc : 0 < (List.drop 2 l.toks).length <;>
    simp only [hs, hc, if_true, if_false, List.length_append, List.length_nil, List.length_singleton, h1, h2,
      and_self, true_and] <;>
    first
      | exact h3
      | (intro k
         by_cases hk : k < st.modes.length
         · have hk' : k < st.weights.length := h2 ▸ hk
           have := h3 k
           simp only [List.getD_eq_getElem?_getD, List.getElem?_append_left hk, List.getElem?_append_left hk'] at this ⊢
           exact this
         · by_cases hk2 : k = st.modes.length
           · have hk3 : k = st.weights.length := h2 ▸ hk2
             simp only [List.getD_eq_getElem?_getD]
             rw [List.getElem?_append_right (by omega), List.getElem?_append_right (by omega)]
             simp [hk2, ← hk3, h1]
           · have e1 : (st.modes ++ [st.chains])[k]? = none := by
               rw [List.getElem?_eq_none_iff]; simp; omega
             have e2 : (st.weights ++ [st.cw])[k]? = none := by
               rw [List.getElem?_eq_none_iff]; simp; omega
             simp [List.getD_eq_getElem?_getD, e1, e2])

theorem splitFold_lengths (lines : List (PLine α)) : ∀ (st : SplitState α),
    (st.chains.length = st.cw.length ∧ st.modes.length = st.weights.length ∧
      ∀ k, (st.modes.getD k []).length = (st.weights.getD k []).length) →
    ((lines.foldl splitStep st).chains.length = (lines.foldl splitStep st).cw.length ∧
     (lines.foldl splitStep st).modes.length = (lines.foldl splitStep st).weights.length ∧
      ∀ k, ((lines.foldl splitStep st).modes.getD k []).length = ((lines.foldl splitStep st).weights.getD k []).length) := by
  induction lines with
  | nil => intro st h; exact h
  | cons l ls ih => intro st h; exact ih _ (splitStep_lengths st l h)

/-- every mode of `post_separate.dat` has as many weights as samples -/
theorem splitModes_lengths (lines : List (PLine α)) (k : Nat) :
    ((splitModes lines).1.getD k []).length = ((splitModes lines).2.getD k []).length := by
  obtain ⟨h1, h2, h3⟩ := splitFold_lengths lines
    { modes := [], weights := [], chains := [], cw := [], prev1 := false, prev2 := false, idx := 0 }
    ⟨rfl, rfl, fun k => by simp⟩
  unfold splitModes
  simp only
  generalize List.foldl splitStep _ lines = st at h1 h2 h3
  by_cases hk : k < st.modes.length
  · have hk' : k < st.weights.length := h2 ▸ hk
    have := h3 k
    simp only [List.getD_eq_getElem?_getD, List.getElem?_append_left hk, List.getElem?_append_left hk'] at this ⊢
    exact this
  · by_cases hk2 : k = st.modes.length
    · have hk3 : k = st.weights.length := h2 ▸ hk2
      simp only [List.getD_eq_getElem?_getD]
      rw [List.getElem?_append_right (by omega), List.getElem?_append_right (by omega)]
      simp [hk2, ← hk3, h1]
    · have e1 : (st.modes ++ [st.chains])[k]? = none := by
        rw [List.getElem?_eq_none_iff]; simp; omega
      have e2 : (st.weights ++ [st.cw])[k]? = none := by
        rw [List.getElem?_eq_none_iff]; simp; omega
      simp [List.getD_eq_getElem?_getD, e1, e2]

theorem nestChainsModes_lengths (lines : List (PLine α)) (k : Nat) :
    ((nestChainsModes lines).1.getD k []).length = ((nestChainsModes lines).2.getD k []).length := by
  have h := splitModes_lengths lines k
  unfold nestChainsModes
  simp only [List.getD_eq_getElem?_getD, List.getElem?_map] at h ⊢
  cases hm : (splitModes lines).1[k]? with
  | none => simpa [hm] using h
  | some m => simpa [hm, modeArray] using h

/-- **the whole `store_nest_solutions`, `multimodes = False`**: one solution, `solution0`, whose record is the model's for
    the samples / weights of `<base>.txt` -/
theorem src_multinest_store_single {Name : Type} (names : List Name) (data : List (List α))
    (nmap nmean nsig : Nat → List α) :
    Gen.SrcC09.multinest_store_single (accumulate := cumsum 0) (argsort := argsortStable) (c0p16 := q16) (c0p5 := q50)
        (c0p84 := q84) (data := data) (fit_names := names) (interp := interpAll) (nest_map := nmap)
        (nest_mean := nmean) (nest_sigma := nsig)
      = solutionsOf (fun k => nestModeRec names (nmap k) (nmean k) (nsig k)) (nestChainsSingle data).1
          (nestChainsSingle data).2 1 := by
  unfold Gen.SrcC09.multinest_store_single solutionsOf
  rw [src_multinest_chains_single]
  dsimp only [List.length_singleton]
  apply solutions_congr
  intro k hk
  have hk0 : k = 0 := by omega
  subst hk0
  rw [src_multinest_mode names _ _ _ _ _ (by simp [nestChainsSingle, tableSamples, tableWeights])]
  rfl

/-- **the whole `store_nest_solutions`, `multimodes = True`**: one solution per mode of `post_separate.dat`, in file order,
    stored under `solution0`, `solution1`, … -/
theorem src_multinest_store_modes {Name : Type} (names : List Name) (data : List (List α)) (lines : List String)
    (splitWs : String → List String) (parseFloat : String → α) (nmap nmean nsig : Nat → List α) :
    Gen.SrcC09.multinest_store_modes (accumulate := cumsum 0) (argsort := argsortStable) (c0p16 := q16) (c0p5 := q50)
        (c0p84 := q84) (data := data) (fit_names := names) (interp := interpAll) (lines := lines) (nest_map := nmap)
        (nest_mean := nmean) (nest_sigma := nsig) (parseFloat := parseFloat) (splitWs := splitWs)
      = solutionsOf (fun k => nestModeRec names (nmap k) (nmean k) (nsig k))
          (nestChainsModes (lines.map (toPLine splitWs parseFloat))).1
          (nestChainsModes (lines.map (toPLine splitWs parseFloat))).2
          (splitModes (lines.map (toPLine splitWs parseFloat))).1.length := by
  unfold Gen.SrcC09.multinest_store_modes solutionsOf
  rw [src_multinest_chains_modes]
  dsimp only
  apply solutions_congr
  intro k _
  rw [src_multinest_mode names _ _ _ _ _ (nestChainsModes_lengths _ k)]
  rfl

/-- **the whole `store_polychord_solutions`**: one solution per cluster (one when clustering is off or there is one cluster) -/
theorem src_polychord_store {Name : Type} (names : List Name) (data : List (List α)) (nClusters : Nat)
    (cluster : Nat → List (List α)) (dc : Bool) (nFit : Nat) (nmap nmean nsig : Nat → List α) :
    Gen.SrcC09.polychord_store (accumulate := cumsum 0) (argsort := argsortStable) (c0p16 := q16) (c0p5 := q50)
        (c0p84 := q84) (clusterNumber := nClusters) (clusterTable := cluster) (data := data) (do_clustering := dc)
        (fit_names := names) (interp := interpAll) (nFit := nFit) (nest_map := nmap) (nest_mean := nmean)
        (nest_sigma := nsig)
      = solutionsOf (fun k => polyModeRec names (nmap k) (nmean k) (nsig k)) (polyChains nFit dc nClusters data cluster).1
          (polyChains nFit dc nClusters data cluster).2.1 (polyChains nFit dc nClusters data cluster).2.2 := by
  unfold Gen.SrcC09.polychord_store solutionsOf
  rw [src_polychord_chains]
  dsimp only
  apply solutions_congr
  intro k _
  have hlen : ((polyChains nFit dc nClusters data cluster).1.getD k []).length
      = ((polyChains nFit dc nClusters data cluster).2.1.getD k []).length := by
    unfold polyChains
    by_cases hd : dc = true
    · by_cases h1 : nClusters = 1
      · simp only [hd, h1, if_true]
        cases k <;> simp [tableSamplesN, tableWeights]
      · simp only [hd, h1, if_true, if_false, List.getD_eq_getElem?_getD, List.getElem?_map]
        cases (List.range nClusters)[k]? <;> simp [tableSamplesN, tableWeights]
    · simp only [hd, Bool.false_eq_true, if_false]
      cases k <;> simp [tableSamplesN, tableWeights]
  rw [src_polychord_mode names _ _ _ _ _ hlen]
  rfl

theorem src_store_keys : Gen.SrcC09.multinest_store_single_keys = ["solutions"] ∧
    Gen.SrcC09.multinest_store_modes_keys = ["solutions"] ∧ Gen.SrcC09.polychord_store_keys = ["solutions"] :=
  ⟨rfl, rfl, rfl⟩

end

end Taurex.C09Src
