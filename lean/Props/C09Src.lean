/-
  C09 — source tie.  `TaurexModel/Gen/SrcC09.lean` is regenerated on every run by `harness/translate.py` (dialect `obj`,
  harness/translate_obj.py) from the source text of taurex/util/util.py:quantile_corner (weighted branch: `weights` is an
  array in every call of the optimizers) and of ONE ITERATION of the per-parameter loops of
  nestle.py:store_nestle_output, multinest.py:store_nest_solutions, polychord.py:store_polychord_solutions (the record they
  store for fitted parameter `idx`; components in the order of the dict keys, listed by the generated `…_keys`).
  The theorems below state, for EVERY carrier (no algebra), that these are the model functions of
  `TaurexModel/Posterior.lean` (`quantileCorner`, `summary`, `column`, `argmaxFirst`) that the C09 theorems are about and
  that `driver_c09` executes.

  Externals, instantiated with their documented behaviour (the model's reading, validated numerically by harness/c09.py):
  * `np.argsort(x)` = `argsortStable x` (`Proofs/C09SrcLemmas.lean`): the stable sorting permutation;
  * `np.add.accumulate` = `cumsum 0`; `np.interp(q, xp, fp)` = `npInterp` applied to every entry of `q`;
  * `weights.argmax()` (the free variable `max_weight` of the loop; the external `argmax` of the whole
    `store_nestle_output`, `nestle_store`) = `argmaxFirst weights`: numpy's first index of the maximum;
  * nestle's `mean_and_cov(samples, weights)[0][idx]` = the weighted mean of column `idx` (hypothesis `hmean`);
  * the float literals `0.16, 0.5, 0.84` = the model's `q16 q50 q84`.
  WHOLE FUNCTIONS (dialect `objrec`, harness/translate_objrec.py).  `nestle_store` is the whole `store_nestle_output`: the
  nested dict it returns as a flat record whose components are named by their key paths (`nestle_store_keys`); its
  per-parameter loop is the regenerated `nestle_param` mapped over the fit names (`fitparams` = the list of its
  (name, record) stores).  `multinest_mode` / `polychord_mode` are one iteration of the per-mode loops of
  `store_nest_solutions` / `store_polychord_solutions` (the dict stored as `solution<nmode>`; reading the samplers' files
  into `modes_array` / `modes_weights` is not translated).  They are tied to `storeOutput`: stored samples / weights /
  MAP index are its `tracedata` / `weights` / `mapIndex`.
  Guards: `x[idx]`, `weights[idx]`, `trace[max_weight]`, `a, b, c = …` are total in the translation (`getD … 0`); numpy
  raises unless `len(x) = len(weights)`, which the theorems assume.
-/
import TaurexModel.Gen.SrcC09
import Proofs.C09SrcLemmas
set_option linter.unusedSectionVars false
set_option linter.unusedVariables false

namespace Taurex.C09Src
open Taurex.Posterior

section
variable {α : Type} [Add α] [Sub α] [Mul α] [Div α] [Neg α] [LT α] [LE α]
  [DecidableLT α] [DecidableLE α] [Taurex.Transc α] [OfNat α 0]

/-- the model's `np.interp`, vectorised over the quantiles as numpy does -/
def interpAll (q xp fp : List α) : List α := q.map (fun t => npInterp t xp fp)

/-- `quantile_corner(x, q, weights)` is `quantileCorner x weights` at every requested quantile -/
theorem src_quantile_corner (x w q : List α) (h : x.length = w.length) :
    Gen.SrcC09.quantile_corner x q w (accumulate := cumsum 0) (argsort := argsortStable) (interp := interpAll)
      = q.map (quantileCorner x w) := by
  unfold Gen.SrcC09.quantile_corner
  simp only [gather_fst 0 x w (by omega), gather_snd 0 x w (by omega)]
  rfl

/-- the same with any `argsort` that sorts the pairs `(x[i], w[i])` the way the model does (e.g. an unstable sort on
    distinct values) -/
theorem src_quantile_corner_any (x w q : List α) (argsort : List α → List Nat)
    (hx : (argsort x).map (fun i => x.getD i 0) = (sortPairs (x.zip w)).map Prod.fst)
    (hw : (argsort x).map (fun i => w.getD i 0) = (sortPairs (x.zip w)).map Prod.snd) :
    Gen.SrcC09.quantile_corner x q w (accumulate := cumsum 0) (argsort := argsort) (interp := interpAll)
      = q.map (quantileCorner x w) := by
  unfold Gen.SrcC09.quantile_corner
  simp only [hx, hw]
  rfl

variable [OfNat α 16] [OfNat α 50] [OfNat α 84] [OfNat α 100]

theorem column_length (samples : List (List α)) (i : Nat) : (column samples i).length = samples.length := by
  simp [column]

/-- one iteration of the loop of `store_nestle_output`: the record of fitted parameter `i` is the model's `summary` of
    column `i`, its `trace` is that column, its `map` the column's entry at the greatest weight -/
theorem src_nestle_param (samples : List (List α)) (w mean : List α) (i : Nat) (h : samples.length = w.length)
    (hmean : mean.getD i 0 = wmean (column samples i) w) :
    Gen.SrcC09.nestle_param i samples w mean (argmaxFirst w) (accumulate := cumsum 0) (argsort := argsortStable)
        (c0p16 := q16) (c0p5 := q50) (c0p84 := q84) (interp := interpAll)
      = ((column samples i).getD (argmaxFirst w) 0, (summary (column samples i) w).mean,
         (summary (column samples i) w).sigmaM, (summary (column samples i) w).sigmaP, column samples i,
         (summary (column samples i) w).value) := by
  unfold Gen.SrcC09.nestle_param
  dsimp only
  rw [show (List.map (fun r => List.getD r i (0 : α)) samples) = column samples i from rfl,
    src_quantile_corner _ _ _ (by rw [column_length]; exact h), hmean]
  rfl

theorem src_nestle_param_keys :
    Gen.SrcC09.nestle_param_keys = ["map", "mean", "sigma_m", "sigma_p", "trace", "value"] := rfl

/-- the MAP entry is the entry of the stored MAP sample (`mapVector`) -/
theorem src_nestle_map (samples : List (List α)) (w : List α) (ndim i : Nat) :
    (column samples i).getD (argmaxFirst w) 0 = (mapVector (storeOutput ndim samples w)).getD i 0 := by
  simp only [mapVector, storeOutput, column, List.getD, List.getElem?_map]
  cases samples[argmaxFirst w]? <;> simp

/-- one iteration of the loop of `store_nest_solutions` for one mode (`tracedata = modes_array[nmode]`,
    `weights = modes_weights[nmode]`); `nest_map`, `mean`, `nest_sigma` pass MultiNest's own statistics through -/
theorem src_multinest_param (trace : List (List α)) (w nmap nmean nsig : List α) (i : Nat) (h : trace.length = w.length) :
    Gen.SrcC09.multinest_param i (accumulate := cumsum 0) (argsort := argsortStable) (c0p16 := q16) (c0p5 := q50)
        (c0p84 := q84) (interp := interpAll) (nest_map := nmap) (nest_mean := nmean) (nest_sigma := nsig)
        (tracedata := trace) (weights := w)
      = (nmean.getD i 0, nmap.getD i 0, nsig.getD i 0, (summary (column trace i) w).sigmaM,
         (summary (column trace i) w).sigmaP, column trace i, (summary (column trace i) w).value) := by
  unfold Gen.SrcC09.multinest_param
  dsimp only
  rw [show (List.map (fun r => List.getD r i (0 : α)) trace) = column trace i from rfl,
    src_quantile_corner _ _ _ (by rw [column_length]; exact h)]
  rfl

theorem src_multinest_param_keys :
    Gen.SrcC09.multinest_param_keys = ["mean", "nest_map", "nest_sigma", "sigma_m", "sigma_p", "trace", "value"] := rfl

/-- one iteration of the loop of `store_polychord_solutions` -/
theorem src_polychord_param (trace : List (List α)) (w nmap nmean nsig : List α) (i : Nat) (h : trace.length = w.length) :
    Gen.SrcC09.polychord_param i (accumulate := cumsum 0) (argsort := argsortStable) (c0p16 := q16) (c0p5 := q50)
        (c0p84 := q84) (interp := interpAll) (nest_map := nmap) (nest_mean := nmean) (nest_sigma := nsig)
        (tracedata := trace) (weights := w)
      = (nmap.getD i 0, nmean.getD i 0, nsig.getD i 0, (summary (column trace i) w).sigmaM,
         (summary (column trace i) w).sigmaP, column trace i, (summary (column trace i) w).value) := by
  unfold Gen.SrcC09.polychord_param
  dsimp only
  rw [show (List.map (fun r => List.getD r i (0 : α)) trace) = column trace i from rfl,
    src_quantile_corner _ _ _ (by rw [column_length]; exact h)]
  rfl

theorem src_polychord_param_keys :
    Gen.SrcC09.polychord_param_keys = ["nest_map", "nest_mean", "nest_sigma", "sigma_m", "sigma_p", "trace", "value"] :=
  rfl

/-- the positions `List.zipIdx` attaches are positions of the list -/
theorem zipIdx_snd_lt {β : Type} (l : List β) (it : β × Nat) (h : it ∈ l.zipIdx) : it.2 < l.length := by
  have := List.mem_zipIdx (x := it.1) (i := it.2) (k := 0) (xs := l) h
  omega

/-- The WHOLE `store_nestle_output(result)` with `weights.argmax()` = numpy's first index of the maximum
    (`argmaxFirst`): the returned dict — components `Stats/Log-Evidence`, `Stats/Log-Evidence-Error`, `Stats/Peakiness`,
    `solution/fitparams`, `solution/samples`, `solution/weights` — holds the sampler's statistics, per fit name (in the
    order of `fit_names`) the record `(map, mean, sigma_m, sigma_p, trace, value)` built from the model's `summary` of the
    parameter's column with `map` read at `storeOutput`'s `mapIndex`, and `storeOutput`'s `tracedata` and `weights`.
    `mean` is nestle's own `mean_and_cov(samples, weights)[0]` (external; `hmean`: its entries are the weighted means). -/
theorem src_nestle_store {Name : Type} (names : List Name) (samples : List (List α)) (w mean : List α)
    (logz logzerr pk : α) (h : samples.length = w.length)
    (hmean : ∀ i, i < names.length → mean.getD i 0 = wmean (column samples i) w) :
    Gen.SrcC09.nestle_store (accumulate := cumsum 0) (argmax := argmaxFirst) (argsort := argsortStable) (c0p16 := q16)
        (c0p5 := q50) (c0p84 := q84) (fit_names := names) (interp := interpAll) (logz := logz) (logzerr := logzerr)
        (nestle_mean := mean) (peakiness := pk) (result_samples := samples) (result_weights := w)
      = (logz, logzerr, pk,
         names.zipIdx.map (fun it => (it.1,
           ((column samples it.2).getD (storeOutput names.length samples w).mapIndex 0,
            (summary (column samples it.2) w).mean, (summary (column samples it.2) w).sigmaM,
            (summary (column samples it.2) w).sigmaP, column samples it.2, (summary (column samples it.2) w).value))),
         (storeOutput names.length samples w).tracedata, (storeOutput names.length samples w).weights) := by
  unfold Gen.SrcC09.nestle_store
  dsimp only
  congr 4
  apply List.map_congr_left
  intro it hit
  rw [src_nestle_param samples w mean it.2 h (hmean it.2 (zipIdx_snd_lt names it hit))]
  rfl

theorem src_nestle_store_keys :
    Gen.SrcC09.nestle_store_keys = ["Stats/Log-Evidence", "Stats/Log-Evidence-Error", "Stats/Peakiness",
      "solution/fitparams", "solution/samples", "solution/weights"] := rfl

/-- one iteration of the per-mode loop of `store_nest_solutions`: the dict stored for one mode (`tracedata =
    modes_array[nmode]`, `weights = modes_weights[nmode]`) holds `(fit_params, tracedata, weights)`: per fit name the
    record of `src_multinest_param`, and `storeOutput`'s `tracedata` and `weights` -/
theorem src_multinest_mode {Name : Type} (names : List Name) (trace : List (List α)) (w nmap nmean nsig : List α)
    (h : trace.length = w.length) :
    Gen.SrcC09.multinest_mode (accumulate := cumsum 0) (argsort := argsortStable) (c0p16 := q16) (c0p5 := q50)
        (c0p84 := q84) (fit_names := names) (interp := interpAll) (nest_map := nmap) (nest_mean := nmean)
        (nest_sigma := nsig) (tracedata := trace) (weights := w)
      = (names.zipIdx.map (fun it => (it.1,
           (nmean.getD it.2 0, nmap.getD it.2 0, nsig.getD it.2 0, (summary (column trace it.2) w).sigmaM,
            (summary (column trace it.2) w).sigmaP, column trace it.2, (summary (column trace it.2) w).value))),
         (storeOutput names.length trace w).tracedata, (storeOutput names.length trace w).weights) := by
  unfold Gen.SrcC09.multinest_mode
  dsimp only
  congr 1
  apply List.map_congr_left
  intro it _
  rw [src_multinest_param trace w nmap nmean nsig it.2 h]

theorem src_multinest_mode_keys : Gen.SrcC09.multinest_mode_keys = ["fit_params", "tracedata", "weights"] := rfl

/-- one iteration of the per-mode loop of `store_polychord_solutions` -/
theorem src_polychord_mode {Name : Type} (names : List Name) (trace : List (List α)) (w nmap nmean nsig : List α)
    (h : trace.length = w.length) :
    Gen.SrcC09.polychord_mode (accumulate := cumsum 0) (argsort := argsortStable) (c0p16 := q16) (c0p5 := q50)
        (c0p84 := q84) (fit_names := names) (interp := interpAll) (nest_map := nmap) (nest_mean := nmean)
        (nest_sigma := nsig) (tracedata := trace) (weights := w)
      = (names.zipIdx.map (fun it => (it.1,
           (nmap.getD it.2 0, nmean.getD it.2 0, nsig.getD it.2 0, (summary (column trace it.2) w).sigmaM,
            (summary (column trace it.2) w).sigmaP, column trace it.2, (summary (column trace it.2) w).value))),
         (storeOutput names.length trace w).tracedata, (storeOutput names.length trace w).weights) := by
  unfold Gen.SrcC09.polychord_mode
  dsimp only
  congr 1
  apply List.map_congr_left
  intro it _
  rw [src_polychord_param trace w nmap nmean nsig it.2 h]

theorem src_polychord_mode_keys : Gen.SrcC09.polychord_mode_keys = ["fit_params", "tracedata", "weights"] := rfl

/-- `a[idx]` with an index array whose entries are valid positions is the model's `gather` -/
theorem map_getD_eq_gather (a : List α) (perm : List Nat) (h : ∀ j ∈ perm, j < a.length) :
    perm.map (fun i => a.getD i 0) = gather perm a := by
  induction perm with
  | nil => rfl
  | cons j perm ih =>
    have hj : j < a.length := h j (by simp)
    simp only [gather, List.map_cons, List.filterMap_cons, List.getElem?_eq_getElem hj, List.getD,
      Option.getD_some]
    congr 1
    exact ih (fun k hk => h k (by simp [hk]))

/-- one iteration of the per-parameter loop of `compute_derived_trace`: `gt` / `gw` are the gathered trace and weights
    (`mpi.allreduce(…, op='SUM')`), `restore` the index array that puts them back into sample order
    (`all_index.argsort()`, the model's `argsortNat index`: then `gather restore gt = restoreOrder index gt`);
    `np.average(x, weights=w, axis=0)` = `wmean`.  The record is the model's `summary` of the restored trace. -/
theorem src_derived_param (gt gw trace w : List α) (restore : List Nat)
    (ht : ∀ j ∈ restore, j < gt.length) (hw : ∀ j ∈ restore, j < gw.length) :
    Gen.SrcC09.derived_param trace w restore (accumulate := cumsum 0) (argsort := argsortStable) (average := wmean)
        (c0p16 := q16) (c0p5 := q50) (c0p84 := q84) (gathered_trace := gt) (gathered_w := gw) (interp := interpAll)
      = ((summary (gather restore gt) (gather restore gw)).mean, (summary (gather restore gt) (gather restore gw)).sigmaM,
         (summary (gather restore gt) (gather restore gw)).sigmaP, gather restore gt,
         (summary (gather restore gt) (gather restore gw)).value) := by
  unfold Gen.SrcC09.derived_param
  dsimp only
  rw [map_getD_eq_gather gt restore ht, map_getD_eq_gather gw restore hw,
    src_quantile_corner _ _ _ (by
      rw [← map_getD_eq_gather gt restore ht, ← map_getD_eq_gather gw restore hw, List.length_map, List.length_map])]
  rfl

/-- with `restore = all_index.argsort()` the restored trace is the model's `restoreOrder` -/
theorem src_derived_restore (index : List Nat) (gt : List α) :
    gather (argsortNat index) gt = restoreOrder index gt := rfl

theorem src_derived_param_keys :
    Gen.SrcC09.derived_param_keys = ["mean", "sigma_m", "sigma_p", "trace", "value"] := rfl

end

end Taurex.C09Src
