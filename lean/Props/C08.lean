/-
  C08 — prior transforms are monotone inverse-CDF maps in the declared space.

  Theorems over ℝ about `Taurex.Priors` (`mkUniform`, `mkLogUniform`, `mkLogUniformLin`, `mkLogGaussian`, `defaultPrior`,
  `Prior.sample`, `Prior.back`, `Prior.boundaries`, `parseToks`/`printToks`), the same definitions `driver_c08` executes
  against `taurex.core.priors` / `parse_priors` / `create_prior` (harness/c08.py).

  Externals: `scipy.stats.uniform.ppf(u, loc, scale) = u*scale + loc`; `scipy.stats.norm.ppf(u, loc, scale) =
  ppf u * scale + loc` where `ppf` (= `scipy.special.ndtri`) is a parameter, assumed monotone (resp. a right inverse of
  the standard normal CDF `Φ`) exactly where a theorem says so.
-/
import Proofs.C08Lex
import Proofs.FittableTable
import Proofs.C08Objects
import Proofs.C08File

namespace Taurex.C08
open Taurex.Priors Taurex.FittableTable

/-! ### uniform priors -/

/-- the order of the two bounds is irrelevant -/
theorem uniform_order_free (a b : ℝ) :
    mkUniform a b = mkUniform b a ∧ mkLogUniform a b = mkLogUniform b a := by
  simp [mkUniform, mkLogUniform, pyMin_real, pyMax_real, min_comm, max_comm]

/-- the stored bounds are (min, max) whatever the order given -/
theorem uniform_boundaries (a b : ℝ) (ppf : ℝ → ℝ) :
    (mkUniform a b).boundaries ppf = (min a b, max a b) ∧ (mkLogUniform a b).boundaries ppf = (min a b, max a b) := by
  simp [mkUniform, mkLogUniform, Prior.boundaries, pyMin_real, pyMax_real]

/-- `sample` of a uniform prior is `low + (high - low) * u` -/
theorem uniform_sample (a b u : ℝ) (ppf : ℝ → ℝ) :
    (mkUniform a b).sample ppf u = min a b + (max a b - min a b) * u ∧
    (mkLogUniform a b).sample ppf u = min a b + (max a b - min a b) * u := by
  simp only [mkUniform, mkLogUniform, Prior.sample, uniformPpf, pyMin_real, pyMax_real]
  constructor <;> ring

/-- monotone in `u`, strictly when the bounds differ -/
theorem uniform_mono (a b : ℝ) (ppf : ℝ → ℝ) :
    Monotone ((mkUniform a b).sample ppf) ∧ (a ≠ b → StrictMono ((mkUniform a b).sample ppf)) ∧
    Monotone ((mkLogUniform a b).sample ppf) ∧ (a ≠ b → StrictMono ((mkLogUniform a b).sample ppf)) := by
  have hw : 0 ≤ max a b - min a b := sub_nonneg.2 (min_le_max)
  have hs : a ≠ b → 0 < max a b - min a b := by
    intro h
    rcases lt_or_gt_of_ne h with h | h
    · rw [max_eq_right h.le, min_eq_left h.le]; linarith
    · rw [max_eq_left h.le, min_eq_right h.le]; linarith
  refine ⟨?_, ?_, ?_, ?_⟩
  · intro u v huv
    simp only [(uniform_sample a b _ ppf).1]
    nlinarith [mul_le_mul_of_nonneg_left huv hw]
  · intro h u v huv
    simp only [(uniform_sample a b _ ppf).1]
    nlinarith [mul_lt_mul_of_pos_left huv (hs h)]
  · intro u v huv
    simp only [(uniform_sample a b _ ppf).2]
    nlinarith [mul_le_mul_of_nonneg_left huv hw]
  · intro h u v huv
    simp only [(uniform_sample a b _ ppf).2]
    nlinarith [mul_lt_mul_of_pos_left huv (hs h)]

/-- the unit interval is mapped onto `[low, high]`: end points, range, surjectivity -/
theorem uniform_onto (a b : ℝ) (ppf : ℝ → ℝ) :
    (mkUniform a b).sample ppf 0 = min a b ∧ (mkUniform a b).sample ppf 1 = max a b ∧
    (∀ u, 0 ≤ u → u ≤ 1 → min a b ≤ (mkUniform a b).sample ppf u ∧ (mkUniform a b).sample ppf u ≤ max a b) ∧
    (∀ x, min a b ≤ x → x ≤ max a b → ∃ u, 0 ≤ u ∧ u ≤ 1 ∧ (mkUniform a b).sample ppf u = x) := by
  have hw : 0 ≤ max a b - min a b := sub_nonneg.2 (min_le_max)
  refine ⟨?_, ?_, ?_, ?_⟩
  · rw [(uniform_sample a b 0 ppf).1]; ring
  · rw [(uniform_sample a b 1 ppf).1]; ring
  · intro u h0 h1
    rw [(uniform_sample a b u ppf).1]
    constructor
    · nlinarith [mul_nonneg hw h0]
    · nlinarith [mul_le_mul_of_nonneg_left h1 hw]
  · intro x hlo hhi
    by_cases h : max a b - min a b = 0
    · refine ⟨0, le_refl _, zero_le_one, ?_⟩
      rw [(uniform_sample a b 0 ppf).1]
      linarith
    · have hpos : 0 < max a b - min a b := lt_of_le_of_ne hw (Ne.symm h)
      refine ⟨(x - min a b) / (max a b - min a b), div_nonneg (by linarith) hw, ?_, ?_⟩
      · rw [div_le_one hpos]; linarith
      · rw [(uniform_sample a b _ ppf).1, mul_div_cancel₀ _ h]; ring

/-- inverse-CDF identity: the CDF of the uniform distribution on `[low, high]`, evaluated at `sample u`, is `u` -/
theorem uniform_inverse_cdf (a b u : ℝ) (ppf : ℝ → ℝ) (h : a ≠ b) :
    ((mkUniform a b).sample ppf u - min a b) / (max a b - min a b) = u := by
  have hs : max a b - min a b ≠ 0 := by
    rcases lt_or_gt_of_ne h with h | h
    · rw [max_eq_right h.le, min_eq_left h.le]; intro e; linarith
    · rw [max_eq_left h.le, min_eq_right h.le]; intro e; linarith
  rw [(uniform_sample a b u ppf).1]
  field_simp
  ring

/-! ### log space -/

/-- `lin_bounds = b` is the same prior as `bounds = log10 b`; non-positive linear bounds are refused -/
theorem log_lin_equiv (l0 l1 : ℝ) :
    (0 < l0 → 0 < l1 → mkLogUniformLin l0 l1 = some (mkLogUniform (log10 l0) (log10 l1))) ∧
    (¬ (0 < l0 ∧ 0 < l1) → mkLogUniformLin l0 l1 = none) := by
  constructor
  · intro h0 h1
    simp [mkLogUniformLin, log10?, h0, h1]
  · intro h
    unfold mkLogUniformLin log10?
    by_cases h0 : 0 < l0
    · have h1 : ¬ 0 < l1 := fun h1 => h ⟨h0, h1⟩
      simp [h0, h1]
    · simp [h0]

/-- `lin_mean = m` is the same prior as `mean = log10 m`, `lin_std = s` as `std = log10 s`; absent ones keep `mean`/`std` -/
theorem log_lin_equiv_gaussian (mean std lm ls : ℝ) (hm : 0 < lm) (hs : 0 < ls) :
    mkLogGaussian mean std (some lm) none = mkLogGaussian (log10 lm) std none none ∧
    mkLogGaussian mean std none (some ls) = mkLogGaussian mean (log10 ls) none none ∧
    mkLogGaussian mean std none none = some (.logGaussian mean std) := by
  simp [mkLogGaussian, log10?, hm, hs]

/-- what reaches the model: `x` for the linear classes, `10 ** x` for the log classes; so a log-space coordinate
    `log10 v` comes back as `v` -/
theorem prior_back (p : Prior ℝ) (x v : ℝ) (hv : 0 < v) :
    (p.mode = .linear → p.back x = x) ∧ (p.mode = .log → p.back x = (10 : ℝ) ^ x ∧ p.back (log10 v) = v) := by
  constructor
  · intro h; simp [Prior.back, h]
  · intro h
    have := pow10_log10 v hv
    simp only [Prior.back, h]
    exact ⟨rfl, this⟩

/-- the two `Log…` classes and only they live in log space -/
theorem mode_of_class (a b : ℝ) :
    (mkUniform a b).mode = .linear ∧ (mkLogUniform a b).mode = .log ∧ (mkGaussian a b).mode = .linear ∧
    (∀ p, mkLogGaussian a b none none = some p → p.mode = .log) := by
  simp [mkUniform, mkLogUniform, mkGaussian, mkLogGaussian, Prior.mode]

/-- a log-uniform prior given by linear bounds hands the model values from exactly `[min l, max l]`:
    the end points come back as the linear bounds and the map `u ↦ prior(sample u)` is monotone -/
theorem log_uniform_linear_range (l0 l1 : ℝ) (h0 : 0 < l0) (h1 : 0 < l1) (ppf : ℝ → ℝ) :
    ∃ p, mkLogUniformLin l0 l1 = some p ∧ p.back (p.sample ppf 0) = min l0 l1 ∧ p.back (p.sample ppf 1) = max l0 l1 ∧
      Monotone (fun u => p.back (p.sample ppf u)) := by
  refine ⟨mkLogUniform (log10 l0) (log10 l1), by simp [mkLogUniformLin, log10?, h0, h1], ?_, ?_, ?_⟩
  · simp only [mkLogUniform, Prior.sample, uniformPpf, Prior.back, Prior.mode, pyMin_real, pyMax_real]
    rcases le_total l0 l1 with h | h
    · rw [min_eq_left (log10_le_log10 l0 l1 h0 h), min_eq_left h]
      simpa using pow10_log10 l0 h0
    · rw [min_eq_right (log10_le_log10 l1 l0 h1 h), min_eq_right h]
      simpa using pow10_log10 l1 h1
  · simp only [mkLogUniform, Prior.sample, uniformPpf, Prior.back, Prior.mode, pyMin_real, pyMax_real]
    rcases le_total l0 l1 with h | h
    · rw [min_eq_left (log10_le_log10 l0 l1 h0 h), max_eq_right (log10_le_log10 l0 l1 h0 h), max_eq_right h]
      have : (1 : ℝ) * (log10 l1 - log10 l0) + log10 l0 = log10 l1 := by ring
      rw [this]; exact pow10_log10 l1 h1
    · rw [min_eq_right (log10_le_log10 l1 l0 h1 h), max_eq_left (log10_le_log10 l1 l0 h1 h), max_eq_left h]
      have : (1 : ℝ) * (log10 l0 - log10 l1) + log10 l1 = log10 l0 := by ring
      rw [this]; exact pow10_log10 l0 h0
  · intro u v huv
    simp only [mkLogUniform, Prior.sample, uniformPpf, Prior.back, Prior.mode, pyMin_real, pyMax_real, pow10_real]
    apply Real.rpow_le_rpow_of_exponent_le (by norm_num)
    have hw : 0 ≤ max (log10 l0 : ℝ) (log10 l1) - min (log10 l0) (log10 l1) := sub_nonneg.2 min_le_max
    nlinarith [mul_le_mul_of_nonneg_right huv hw]

/-! ### Gaussian priors -/

/-- with a positive width and a monotone standard-normal quantile function, `sample` is monotone (strictly if `ppf` is) -/
theorem gaussian_mono (mean std : ℝ) (hs : 0 < std) (ppf : ℝ → ℝ) :
    (Monotone ppf → Monotone ((mkGaussian mean std).sample ppf)) ∧
    (StrictMono ppf → StrictMono ((mkGaussian mean std).sample ppf)) ∧
    (Monotone ppf → Monotone ((Prior.logGaussian mean std).sample ppf)) := by
  refine ⟨?_, ?_, ?_⟩
  · intro hp u v huv
    simp only [mkGaussian, Prior.sample, normPpf]
    nlinarith [mul_le_mul_of_nonneg_right (hp huv) hs.le]
  · intro hp u v huv
    simp only [mkGaussian, Prior.sample, normPpf]
    nlinarith [mul_lt_mul_of_pos_right (hp huv) hs]
  · intro hp u v huv
    simp only [Prior.sample, normPpf]
    nlinarith [mul_le_mul_of_nonneg_right (hp huv) hs.le]

/-- inverse-CDF identity: if `ppf` is a right inverse of the standard normal CDF `Φ` at `u`, then the CDF of
    N(mean, std²) at `sample u` is `u` -/
theorem gaussian_inverse_cdf (mean std u : ℝ) (hs : 0 < std) (ppf Φ : ℝ → ℝ) (hΦ : Φ (ppf u) = u) :
    Φ (((mkGaussian mean std).sample ppf u - mean) / std) = u := by
  simp only [mkGaussian, Prior.sample, normPpf]
  have : (ppf u * std + mean - mean) / std = ppf u := by
    rw [add_sub_cancel_right, mul_div_cancel_right₀ _ (ne_of_gt hs)]
  rw [this, hΦ]

/-- `boundaries()` of a Gaussian are its 10 % and 90 % quantiles -/
theorem gaussian_boundaries (mean std : ℝ) (ppf : ℝ → ℝ) :
    (mkGaussian mean std).boundaries ppf = (ppf 0.1 * std + mean, ppf 0.9 * std + mean) := by
  simp [mkGaussian, Prior.boundaries, Prior.sample, normPpf]

/-! ### default priors -/

/-- the default prior derives from the parameter's mode and bounds: uniform between the bounds in linear mode,
    log-uniform between their log10 in log mode (positive bounds), and no default exists for a log-mode parameter
    with a non-positive bound -/
theorem default_from_bounds (b0 b1 : ℝ) :
    defaultPrior .linear b0 b1 = some (.uniform (min b0 b1) (max b0 b1)) ∧
    (0 < b0 → 0 < b1 → defaultPrior .log b0 b1 =
        some (.logUniform (min (log10 b0) (log10 b1)) (max (log10 b0) (log10 b1)))) ∧
    (¬ (0 < b0 ∧ 0 < b1) → defaultPrior .log b0 b1 = none) := by
  refine ⟨?_, ?_, ?_⟩
  · simp [defaultPrior, mkUniform, pyMin_real, pyMax_real]
  · intro h0 h1
    simp [defaultPrior, mkLogUniformLin, mkLogUniform, log10?, h0, h1, pyMin_real, pyMax_real]
  · intro h
    exact (log_lin_equiv b0 b1).2 h

/-! ### default priors of DECLARED parameters (decorator / `add_fittable_param`, then `modify_bounds`) -/

/-- declaration → tuple: keywords given are stored as given (whatever the route: `@fitparam(...)`, `fitparam(f, ...)`,
    `add_fittable_param`); keywords left out of the decorator take the signature defaults `'linear'`, `False`, `[0, 1]` -/
theorem declaration_tuple (name : String) (m : FitMode) (f : Bool) (b0 b1 : ℝ) :
    (Decl.entry ⟨name, some m, some f, some (b0, b1)⟩ = ⟨name, m, f, b0, b1⟩) ∧
    (Decl.entry (α := ℝ) ⟨name, none, none, none⟩ = ⟨name, .linear, false, 0, 1⟩) := ⟨rfl, rfl⟩

/-- **Defaults derive from the declared mode and the current bounds.**  For an object whose declarations and
    `modify_bounds` calls all succeed, the default prior `compile_params` builds for a declared parameter is
    `defaultPrior` of the mode it was DECLARED with and of the bounds of the LAST `modify_bounds` naming it (its declared
    bounds when there is none): no boundary change touches the mode, and no other parameter's change touches it. -/
theorem default_from_declaration (decls : List (Decl ℝ)) (hist : List (String × ℝ × ℝ)) (t : List (Entry ℝ))
    (h : declaredTable decls hist = some t) (d : Decl ℝ) (hd : d ∈ decls) :
    defaultOf t d.name = some (defaultPrior (d.mode.getD .linear)
      (lastBounds d.name hist (d.entry.b0, d.entry.b1)).1 (lastBounds d.name hist (d.entry.b0, d.entry.b1)).2) := by
  unfold defaultOf
  rw [(declaredTable_spec decls hist t h).2 d hd]
  rfl

/-- in particular a parameter declared `'log'` whose current bounds are positive gets the log-uniform prior between
    the log10 of the current bounds, one declared `'linear'` (or without a mode) the uniform prior between them -/
theorem default_from_declaration_classes (decls : List (Decl ℝ)) (hist : List (String × ℝ × ℝ)) (t : List (Entry ℝ))
    (h : declaredTable decls hist = some t) (d : Decl ℝ) (hd : d ∈ decls) (b0 b1 : ℝ)
    (hb : lastBounds d.name hist (d.entry.b0, d.entry.b1) = (b0, b1)) :
    (d.mode = some .log → 0 < b0 → 0 < b1 →
      defaultOf t d.name = some (some (.logUniform (min (log10 b0) (log10 b1)) (max (log10 b0) (log10 b1))))) ∧
    (d.mode ≠ some .log → defaultOf t d.name = some (some (.uniform (min b0 b1) (max b0 b1)))) := by
  have hm := default_from_declaration decls hist t h d hd
  rw [hb] at hm
  constructor
  · intro hlog h0 h1
    rw [hm, hlog]
    simp only [Option.getD_some]
    rw [(default_from_bounds b0 b1).2.1 h0 h1]
  · intro hlin
    rw [hm]
    have : d.mode.getD .linear = .linear := by
      cases hmo : d.mode with
      | none => rfl
      | some m => cases m with
        | linear => rfl
        | log => exact absurd hmo hlin
    rw [this, (default_from_bounds b0 b1).1]

/-! ### priors written as text are NEW objects (`create_prior`; one per `X:prior` line and per read of a file) -/

section objects
open Taurex.PriorObjects

/-- **Text builds a fresh object, exactly as a direct constructor call does.**  Whatever objects exist already (`h`) and
    whatever texts were parsed before, `create_prior` of a text the factory accepts (`createPrior … = .ok p`) adds ONE new
    object whose value is the one direct construction gives (`p`) and leaves every existing object as it is — also when the
    same text was parsed before.  From then on the new object is changed by `set_bounds` calls on ITSELF only: after any
    history `ops` it is `p` re-bounded by its own calls, and simply `p` when there are none. -/
theorem text_prior_is_fresh_object (half quarter : ℝ) (h : Heap ℝ) (c : Call ℝ) (p : Prior ℝ)
    (hc : createPrior half quarter c = .ok p) (ops : List (PriorObjects.Op ℝ)) :
    PriorObjects.step half quarter h (.create c) = h ++ [p] ∧
    (∀ j, j < h.length → (PriorObjects.step half quarter h (.create c))[j]? = h[j]?) ∧
    (PriorObjects.run half quarter (h ++ [p]) ops)[h.length]? = some (reboundAll p (ownCalls h.length ops)) ∧
    (ownCalls h.length ops = [] → (PriorObjects.run half quarter (h ++ [p]) ops)[h.length]? = some p) := by
  have hstep : PriorObjects.step half quarter h (.create c) = h ++ [p] := by simp [PriorObjects.step, hc]
  have hrun := getElem?_run half quarter ops (h ++ [p]) h.length (by simp)
  simp only [List.getElem?_concat_length, Option.map_some] at hrun
  refine ⟨hstep, ?_, hrun, ?_⟩
  · intro j hj
    rw [hstep, List.getElem?_append_left hj]
  · intro hown
    rw [hrun, hown]
    rfl

/-- **An object is changed by its own `set_bounds` calls only.**  After any history (texts parsed, bounds of any objects
    replaced) object `j` is what it was, re-bounded by the calls that name `j`, in order; a re-bounded uniform / log-uniform
    object is the prior of the new bounds (as freshly built), the Gaussian classes are not touched. -/
theorem object_changed_by_own_set_bounds_only (half quarter : ℝ) (h : Heap ℝ) (ops : List (PriorObjects.Op ℝ)) (j : ℕ)
    (hj : j < h.length) :
    (PriorObjects.run half quarter h ops)[j]? = (h[j]?).map (fun p => reboundAll p (ownCalls j ops)) ∧
    (∀ a b b0 b1 : ℝ, rebound (mkUniform a b) b0 b1 = mkUniform b0 b1 ∧
      rebound (mkLogUniform a b) b0 b1 = mkLogUniform b0 b1 ∧ rebound (mkGaussian a b) b0 b1 = mkGaussian a b) :=
  ⟨getElem?_run half quarter ops h j hj, fun _ _ _ _ => ⟨rfl, rfl, rfl⟩⟩

/-- the factory accepts the documented text `Uniform(bounds=(0.1, 10))` (hypothesis `hc`), and a history that re-bounds
    ANOTHER object and parses the same text again has no call on the object created first (hypothesis `ownCalls … = []`) -/
example : createPrior (1/2 : ℝ) (1/4) ⟨"Uniform", [("bounds", .tuple [1/10, 10])]⟩ = .ok (mkUniform (1/10) 10) := by
  have hk : resolveKlass "Uniform" = some "Uniform" := by decide +kernel
  simp [createPrior, hk, lookupArg, pairOf]

example (h : Heap ℝ) : ownCalls h.length
    [PriorObjects.Op.setBounds (h.length + 1) (6 : ℝ) 5, .create ⟨"Uniform", [("bounds", .tuple [1/10, 10])]⟩] = [] := by
  simp [ownCalls]

/-- two priors from the SAME text, the first one re-bounded, the text parsed a third time: the second and the third object
    are the prior the text describes -/
example : PriorObjects.run (1/2 : ℝ) (1/4) []
    [.create ⟨"Uniform", [("bounds", .tuple [1/10, 10])]⟩, .create ⟨"Uniform", [("bounds", .tuple [1/10, 10])]⟩,
     .setBounds 0 6 5, .create ⟨"Uniform", [("bounds", .tuple [1/10, 10])]⟩] =
    [mkUniform 6 5, mkUniform (1/10) 10, mkUniform (1/10) 10] := by
  have hk : resolveKlass "Uniform" = some "Uniform" := by decide +kernel
  simp [PriorObjects.run, PriorObjects.step, modifyAt, rebound, createPrior, hk, lookupArg, pairOf, mkUniform]

end objects

/-! ### the input-file route: `[Fitting]` section, `setup_optimizer`, `enable_fit`, `compile_params` -/

section file
open Taurex.OptimizerSM Taurex.FittingSection Taurex.C07

/-- **What an input file says about a parameter's prior holds whenever that parameter is fitted.**  On a fresh optimizer
    (names unique across the tables, derived names disjoint) let `setup_optimizer` run through on the sections, then switch
    on any parameters `en` with `enable_fit`, then compile.  The result is exactly `implied` of the settings the FILE
    describes with the fit flags of `en` set (`fileSettings`) — and in it a parameter the file mentions (record `r`) gets, once
    it is fitted — by the file's own `fit = True` or by a later `enable_fit` —,
      * the prior written for it as text (`X:prior = "…"`, built by `mkPrior` = `create_prior`) if there is one,
      * otherwise the default prior of the mode and bounds the file describes for it (`X:mode`, `X:bounds` — else the
        `X:factor` multiples of its value, else its declared ones),
    whether or not the file itself switches the fit on: options of a parameter with `fit = False` (or no `fit` line) are
    not dropped. -/
theorem file_prior_after_enable (mkPrior : OptVal ℝ → Option (Prior ℝ)) (model obs : List (Param String ℝ))
    (dm dob : List (Derived String)) (fitting derive : List (String × OptVal ℝ))
    (hwf : WF (initSt model obs dm dob)) (hdd : DisjD (initSt model obs dm dob : St String ℝ))
    (hok : (setupOptimizer mkPrior (initSt model obs dm dob) fitting derive).2.1 = .ok) (en : List String) :
    ∃ grp dl, parseFitting mkPrior fitting [] = .ok grp ∧ splitAll derive = some dl ∧
      (view (step (run (setupOptimizer mkPrior (initSt model obs dm dob) fitting derive).1 (enableOps en)) .compile).1,
       (step (run (setupOptimizer mkPrior (initSt model obs dm dob) fitting derive).1 (enableOps en)) .compile).2) =
        implied (fileSettings (initSt model obs dm dob) grp (deriveRecs dl []) en) ∧
      ∀ (o : Owner) (p : Param String ℝ) (r : Rec ℝ), getRec grp p.name = some r →
        (∀ pr, r.prior = some pr →
          impliedRow (describePriors grp) o (switchedOn (describeParam r p)) = some (entryOf o (describeParam r p), pr)) ∧
        (r.prior = none →
          impliedRow (describePriors grp) o (switchedOn (describeParam r p)) =
            (defaultPrior (describeParam r p).mode (describeParam r p).b0 (describeParam r p).b1).map
              (fun pr => (entryOf o (describeParam r p), pr))) := by
  obtain ⟨grp, dl, hp, hsd, hnd, hc⟩ :=
    setup_enable_compile mkPrior (initSt model obs dm dob) hwf hdd rfl fitting derive hok en
  exact ⟨grp, dl, hp, hsd, hc, fun o p r hr => impliedRow_described grp hnd o p r hr⟩

/-- non-vacuity: `T` is configured with a text prior but NOT switched on, `H2O` gets linear mode and bounds without a fit
    line; `setup_optimizer` runs through (hypothesis `hok`), and after `enable_fit` of both the file's settings have both
    fit flags set, the written bounds and mode in place and the text prior recorded for `T` -/
noncomputable def exFileInit : St String ℝ :=
  initSt [⟨"T", .linear, false, 100, 2000, 1500⟩, ⟨"H2O", .log, false, 1, 100, 10⟩] [] [] []

noncomputable def exFileFitting : List (String × OptVal ℝ) :=
  [("T:fit", .bool false), ("T:prior", .str "Gaussian(mean=1500, std=100)"), ("H2O:mode", .str "linear"),
   ("H2O:bounds", .nums [2, 50])]

noncomputable def exMkPrior : OptVal ℝ → Option (Prior ℝ)
  | .str _ => some (.gaussian 1500 100)
  | _ => none

example : WF exFileInit ∧ DisjD exFileInit := by
  constructor
  · simp [WF, exFileInit, initSt, names]
  · intro n hn; simp [exFileInit, initSt, dnames] at hn

example : (setupOptimizer exMkPrior exFileInit exFileFitting []).2.1 = .ok ∧
    (fileSettings exFileInit [("T", { fit := .bool false, prior := some (.gaussian 1500 100) }),
        ("H2O", { mode := some (.str "linear"), bounds := some (.nums [2, 50]) })] [] ["T", "H2O"]).model =
      [⟨"T", .linear, true, 100, 2000, 1500⟩, ⟨"H2O", .linear, true, 2, 50, 10⟩] := by
  have k1 : splitKey "T:fit" = some ("T", "fit") := by decide +kernel
  have k2 : splitKey "T:prior" = some ("T", "prior") := by decide +kernel
  have k3 : splitKey "H2O:mode" = some ("H2O", "mode") := by decide +kernel
  have k4 : splitKey "H2O:bounds" = some ("H2O", "bounds") := by decide +kernel
  have c1 : classify "fit" = .fit := by decide +kernel
  have c2 : classify "prior" = .prior := by decide +kernel
  have c3 : classify "mode" = .mode := by decide +kernel
  have c4 : classify "bounds" = .bounds := by decide +kernel
  have m1 : parseMode "linear" = some FitMode.linear := by decide +kernel
  have m2 : "linear".toLower = "linear" := by decide +kernel
  constructor
  · simp [setupOptimizer, exFileFitting, exFileInit, exMkPrior, initSt, parseFitting, k1, k2, k3, k4, setOpt, c1, c2, c3, c4,
      getRec, updRec, fittingOps, recOps, pairOpt, modeOpt, truthy, PairOpt.isBad, ModeOpt.isBad, fitOps, factorOps,
      boundsOps, modeOps, priorOps, runStop, step, withParam, ownerOf, hasName, table, setTable, modifyParam, m1, m2, splitAll,
      deriveRecs, deriveOps]
  · simp [fileSettings, enabled, switchedOn, describeTable, describeParam, exFileInit, initSt, getRec, pairOpt, modeOpt, truthy, m1, m2]

end file

/-! ### the scripting route: the optimizer's own setters in any order, then `compile_params` / `update_model` -/

section api
open Taurex.OptimizerSM Taurex.C07

/-- **Default priors derive from the CURRENT bounds and mode — after any calls, in any order, any number of compilations.**
    From any well-formed optimizer state run any history of `enable_fit` / `disable_fit` / `set_mode` / `set_boundary` /
    `set_factor_boundary` / `set_prior` / `compile_params` / `update_model` calls, then compile: the result is `implied` of the
    settings as they are NOW, in which a fitted parameter `p` (of the model or of the observation, `o`)
      * that has no explicit prior gets the default prior of the mode and bounds its tuple holds now
        (`Uniform(bounds)` / `LogUniform(lin_bounds=bounds)`), whatever an earlier compilation derived for it, and
      * that was given a prior with `set_prior` is fitted with that prior. -/
theorem api_prior_after_history (init : St String ℝ) (hwf : WF init) (ops : List (Op String ℝ)) :
    (view (run init (ops ++ [.compile])), (step (run init ops) .compile).2) = implied (settings (run init ops)) ∧
    ∀ (o : Owner) (p : Param String ℝ),
      (tget (run init ops).userPriors p.name = none →
        impliedRow (run init ops).userPriors o p = (defaultPrior p.mode p.b0 p.b1).map (fun pr => (entryOf o p, pr))) ∧
      (∀ pr, tget (run init ops).userPriors p.name = some pr →
        impliedRow (run init ops).userPriors o p = some (entryOf o p, pr)) := by
  refine ⟨?_, fun o p => ⟨fun h => by simp [impliedRow, h], fun pr h => by simp [impliedRow, h]⟩⟩
  rw [run_append]
  simp only [run]
  exact compile_eq_implied (run init ops) (WF_run init ops hwf)

/-- **Only `set_prior` touches the explicit priors.**  Every other call — the bound / mode / fit setters, a compilation, a
    write of a parameter vector — leaves the table of explicit priors as it is: an explicit prior given BEFORE
    `set_boundary` (…) is still the parameter's prior afterwards, and no compilation adds a derived default to it. -/
theorem explicit_priors_changed_by_set_prior_only (s : St String ℝ) (op : Op String ℝ)
    (h : ∀ n p, op ≠ .setPrior n p) : (step s op).1.userPriors = s.userPriors := by
  cases op with
  | setPrior n p => exact absurd rfl (h n p)
  | enableFit n => simp only [step, withParam]; split <;> cases ownerOf s n <;> rfl
  | disableFit n => simp only [step, withParam]; split <;> cases ownerOf s n <;> rfl
  | setBoundary n a b => simp only [step, withParam]; split <;> cases ownerOf s n <;> rfl
  | setFactorBoundary n a b => simp only [step, withParam]; split <;> cases ownerOf s n <;> rfl
  | setMode n m =>
    simp only [step]
    split
    · split
      · rfl
      · cases ownerOf s n <;> rfl
    · rfl
  | enableDerived n => simp only [step, withDerived]; split <;> [rfl; (split <;> rfl)]
  | disableDerived n => simp only [step, withDerived]; split <;> [rfl; (split <;> rfl)]
  | compile =>
    simp only [step, compile]
    split
    · rfl
    · split <;> rfl
  | updateModel v =>
    simp only [step, updateModel]
    split
    · rfl
    · have := frame_applyUpdate s.compiled s s.compiledPriors v
      simp only [frame, Prod.mk.injEq] at this
      exact this.2.2.2.2.1

/-- **The model receives `prior.prior(x)` — `10 ** x` for the log-space classes, `x` for the others — whatever the
    parameter's declared mode.**  After any history from a fresh optimizer, a vector of the right length writes to the
    parameter of row `i` the back-transform of ITS PRIOR (`Prior.back`), not of its tuple's mode. -/
theorem api_back_through_prior (model obs : List (Param String ℝ)) (hwf : WF (initSt model obs [] []))
    (ops : List (Op String ℝ)) (v : List ℝ)
    (hlen : v.length = (run (initSt model obs [] []) ops).compiled.length) :
    let s := run (initSt model obs [] []) ops
    (step s (.updateModel v)).2 = .ok ∧
    ∀ epx ∈ s.compiled.zip (s.compiledPriors.zip v),
      getValue (step s (.updateModel v)).1 epx.1.owner epx.1.name = some (epx.2.1.back epx.2.2) := by
  intro s
  obtain ⟨_, hk, hex⟩ := Inv_run ops (initSt model obs [] []) hwf (by simp [C07.Inv, initSt, keys])
  simp only [step, updateModel]
  have : ¬ v.length ≠ s.compiled.length := by simpa using hlen
  simp only [this, if_false, true_and]
  exact getValue_applyUpdate_set s.compiled s s.compiledPriors v hk hex

/-- `set_mode` accepts any spelling of the two modes and stores the mode it names -/
example : parseMode "LOG" = some FitMode.log ∧ parseMode "Log" = some FitMode.log ∧ parseMode "Linear" = some FitMode.linear ∧
    parseMode "lg" = none := by decide +kernel

/-- non-vacuity: `T` is given a Gaussian prior and its boundaries are set AFTERWARDS, `H2O` is switched to log space with
    the spelling `LOG`; the history is well-formed, `T` still has its explicit prior (second rule of
    `api_prior_after_history`), `H2O` has none (first rule: `LogUniform(lin_bounds=(1, 100))`), and no call but `set_prior`
    is excluded by `explicit_priors_changed_by_set_prior_only` -/
noncomputable def exApiInit : St String ℝ :=
  initSt [⟨"T", .linear, true, 100, 2000, 1500⟩] [⟨"H2O", .linear, true, 1, 100, 10⟩] [] []

noncomputable def exApiOps : List (Op String ℝ) :=
  [.setPrior "T" (.gaussian 1500 100), .setBoundary "T" 5 50, .setMode "H2O" "LOG"]

example : WF exApiInit ∧
    tget (run exApiInit exApiOps).userPriors "T" = some (.gaussian 1500 100) ∧
    tget (run exApiInit exApiOps).userPriors "H2O" = none ∧
    (run exApiInit exApiOps).model = [⟨"T", .linear, true, 5, 50, 1500⟩] ∧
    (run exApiInit exApiOps).obs = [⟨"H2O", .log, true, 1, 100, 10⟩] := by
  have m1 : parseMode "LOG" = some FitMode.log := by decide +kernel
  simp [WF, exApiInit, exApiOps, initSt, names, run, step, withParam, ownerOf, hasName, table, setTable, modifyParam, tset,
    tget, m1]

example : ∀ n p, (Op.setBoundary "T" (5 : ℝ) 50 : Op String ℝ) ≠ .setPrior n p := by intro n p h; cases h

/-- non-vacuity of `api_back_through_prior`: a log-space prior on a linear-mode row hands `10 ** x` to the model -/
example : (Prior.logUniform (2 : ℝ) 4).back 3 = pow10 3 := by simp [Prior.back, Prior.mode]

end api

/-! ### prior text -/

/-- print/parse round trip at token level: for every call (any name, any keyword list, numbers carried as literal
    tokens) the parser recovers exactly the call from its printed token sequence -/
theorem parse_print_tokens (c : Call String) : parseToks (printToks c) = some c := by
  unfold parseToks printToks
  simp only
  rw [parseArgs_printArgs c.args _ (length_printArgs_ge c.args)]

/-- **Print/parse round trip on text.**  For every prior description whose class name and keywords are identifiers
    and whose numbers are literals of the documented form `[+-](digits[.[digits]] | .digits)[(e|E)[+-]digits]`
    (`WFCall`, numbers carried as their literal text), parsing the printed text gives back the description. -/
theorem parse_print (c : Call String) (h : WFCall c) : parsePrior (printPrior c) = some c := by
  unfold parsePrior printPrior parseChars
  rw [String.toList_ofList, lex_render_printToks c h]
  exact parse_print_tokens c

/-! ### non-vacuity -/

example : (mkUniform (5 : ℝ) (-2)).boundaries id = (-2, 5) := by
  rw [(uniform_boundaries 5 (-2) id).1]; norm_num

example : (mkUniform (5 : ℝ) (-2)).sample id 0.25 = -0.25 := by
  rw [(uniform_sample 5 (-2) 0.25 id).1]; norm_num

example : StrictMono ((mkUniform (5 : ℝ) (-2)).sample id) := (uniform_mono 5 (-2) id).2.1 (by norm_num)

example : mkLogUniformLin (1 : ℝ) 100 = some (mkLogUniform (log10 1) (log10 100)) :=
  (log_lin_equiv 1 100).1 (by norm_num) (by norm_num)

example : mkLogUniformLin (-1 : ℝ) 100 = none := (log_lin_equiv (-1) 100).2 (by norm_num)

example : ∃ p, mkLogUniformLin (1e-12 : ℝ) 1e-2 = some p ∧ p.back (p.sample id 1) = max 1e-12 1e-2 := by
  obtain ⟨p, h1, _, h3, _⟩ := log_uniform_linear_range 1e-12 1e-2 (by norm_num) (by norm_num) id
  exact ⟨p, h1, h3⟩

/-- a monotone `ppf` exists (the hypotheses of `gaussian_mono` / `gaussian_inverse_cdf` are satisfiable) -/
example : StrictMono ((mkGaussian (1 : ℝ) 2).sample id) := (gaussian_mono 1 2 (by norm_num) id).2.1 strictMono_id

example : (id : ℝ → ℝ) ((id : ℝ → ℝ) 0.3) = 0.3 := rfl

example : (Prior.logUniform (0 : ℝ) 1).back (log10 100) = 100 :=
  ((prior_back (.logUniform 0 1) 0 100 (by norm_num)).2 rfl).2

example : defaultPrior FitMode.log (1 : ℝ) 100 ≠ none := by
  rw [(default_from_bounds 1 100).2.1 (by norm_num) (by norm_num)]; simp

/-- `default_from_declaration` is not vacuous: a log parameter declared through the decorator with bounds [1e-6, 1e6],
    narrowed by `modify_bounds` to [2000, 20] (the order the caller gave), next to a linear one left alone -/
example : declaredTable (α := ℝ) [⟨"scale", some .log, none, some (1e-6, 1e6)⟩, ⟨"offset", none, none, none⟩]
    [("scale", 2000, 20)] = some [⟨"scale", .log, false, 2000, 20⟩, ⟨"offset", .linear, false, 0, 1⟩] := by
  simp [declaredTable, declareAll, addParam, runHist, modifyBounds, Decl.entry]

example : lastBounds (α := ℝ) "scale" [("scale", 2000, 20), ("offset", 3, 4)] (1e-6, 1e6) = (2000, 20) := by
  simp [lastBounds]

/-- the documented example `LogUniform(lin_bounds=(1e-12, 1e-2))` round-trips through the token printer -/
example : parseToks (printToks ⟨"LogUniform", [("lin_bounds", .tuple ["1e-12", "1e-2"])]⟩) =
    some ⟨"LogUniform", [("lin_bounds", .tuple ["1e-12", "1e-2"])]⟩ := parse_print_tokens _

/-- …and the text itself lexes and parses to that call -/
example : parsePrior "LogUniform(lin_bounds=(1e-12, 1e-2))" =
    some ⟨"LogUniform", [("lin_bounds", .tuple ["1e-12", "1e-2"])]⟩ := by decide +kernel

/-- `parse_print` is not vacuous: a call with two keywords, a tuple and a list, signed / fractional / exponent literals
    is well formed -/
example : WFCall ⟨"LogUniform", [("lin_bounds", .tuple ["1e-12", "-.5E+2"]), ("bounds", .list ["3.", "+0.25"])]⟩ := by
  refine ⟨⟨'L', "ogUniform".toList, by decide, by decide, by decide⟩, ?_⟩
  intro a ha
  simp only [List.mem_cons, List.not_mem_nil, or_false] at ha
  rcases ha with rfl | rfl
  · refine ⟨⟨'l', "in_bounds".toList, by decide, by decide, by decide⟩, ?_⟩
    intro x hx
    simp only [List.mem_cons, List.not_mem_nil, or_false] at hx
    rcases hx with rfl | rfl
    · exact ⟨⟨[], ['1'], none, some ('e', ['-'], ['1', '2'])⟩,
        ⟨Or.inl rfl, by decide, by decide, by decide, Or.inr (Or.inr rfl), by decide, by decide⟩, by decide⟩
    · exact ⟨⟨['-'], [], some ['5'], some ('E', ['+'], ['2'])⟩,
        ⟨Or.inr (Or.inr rfl), by decide, ⟨by decide, Or.inr (by decide)⟩, by decide, Or.inr (Or.inl rfl), by decide,
          by decide⟩, by decide⟩
  · refine ⟨⟨'b', "ounds".toList, by decide, by decide, by decide⟩, ?_⟩
    intro x hx
    simp only [List.mem_cons, List.not_mem_nil, or_false] at hx
    rcases hx with rfl | rfl
    · exact ⟨⟨[], ['3'], some [], none⟩, ⟨Or.inl rfl, by decide, ⟨by decide, Or.inl (by decide)⟩, trivial⟩, by decide⟩
    · exact ⟨⟨['+'], ['0'], some ['2', '5'], none⟩,
        ⟨Or.inr (Or.inl rfl), by decide, ⟨by decide, Or.inl (by decide)⟩, trivial⟩, by decide⟩

end Taurex.C08
