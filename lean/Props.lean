import Props.C04
