import Proofs.RealInst
