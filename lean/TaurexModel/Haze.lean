/-
  Model of the cloud and haze contributions:
    taurex/contributions/simpleclouds.py: prepare_each, contribute   (`cloudSigma`, `cloudyTau`)
    taurex/contributions/flatmie.py: prepare_each                     (`flatSigma`; the code after the two fix commits)
    taurex/contributions/leemie.py: prepare_each                      (`leeSigma`)
  The cloud's opacity is `np.inf`: `Ext α` carries it (`fin x | inf`), so that "opaque" is a statement about the
  value the code returns (`exp(-inf) = 0`) and not about a large finite number.
-/
import TaurexModel.Num
import TaurexModel.Interp
import TaurexModel.Transmission

namespace Taurex.Haze
open Taurex.Transmission

section
variable {α : Type} [Add α] [Sub α] [Mul α] [Div α] [Neg α] [LT α] [LE α]
  [DecidableLT α] [DecidableLE α] [OfNat α 0] [OfNat α 1] [OfNat α 2] [OfNat α 10] [Transc α]

/-! ### optically thick cloud deck -/

/-- an optical depth that may be `np.inf` -/
inductive Ext (α : Type) where
  | fin (x : α)
  | inf
  deriving Repr

/-- `contrib[pressureProfile >= cloud_pressure, :] = np.inf`, zero elsewhere (same at every wavenumber) -/
def cloudSigma (P : Nat → α) (p0 : α) (l : Nat) : Ext α := if p0 ≤ P l then .inf else .fin 0

/-- row `tau[l]` of `path_integral` when the contribution list is `[SimpleClouds] ++ rest` (the cloud has
    `order` 3, every other built-in contribution 5, and `build()` sorts by order, so the cloud is added first):
    cloudy layer: `0 + inf = inf`, then `tau[l].min() > 10` breaks out;
    clear layer: `0 + 0`, then the loop over `rest` as usual -/
def cloudyTau (n nwn : Nat) (path dens : Nat → α) (l : Nat) (P : Nat → α) (p0 : α) (rest : List (Contrib α)) :
    Nat → Ext α :=
  match cloudSigma P p0 l with
  | .inf => fun _ => .inf
  | .fin s => fun wn => .fin (tauCutFrom n nwn path dens l rest (fun _ => 0 + s) wn)

/-- `np.exp(-tau)` with `exp(-inf) = 0` -/
def Ext.trans : Ext α → α
  | .fin x => Transmission.trans x
  | .inf => 0

/-- transmittance `exp(-tau)[l, wn]` returned by a model whose contributions are a cloud deck and `rest` -/
def cloudyTrans (newMethod : Bool) (rp : α) (n nwn : Nat) (zb z dz dens : Nat → α) (P : Nat → α) (p0 : α)
    (rest : List (Contrib α)) (l wn : Nat) : α :=
  (cloudyTau n nwn (chord newMethod rp zb z dz l) dens l P p0 rest wn).trans

/-- its depth -/
def cloudyDepth (newMethod : Bool) (rp rs : α) (n nwn : Nat) (zb z dz dens : Nat → α) (P : Nat → α) (p0 : α)
    (rest : List (Contrib α)) (wn : Nat) : α :=
  depth rp rs n z dz (fun l => cloudyTrans newMethod rp n nwn zb z dz dens P p0 rest l wn)

/-! ### grey haze between two pressures (FlatMie) -/

/-- `np.maximum` / `np.minimum` on finite numbers -/
def fmax (a b : α) : α := if a < b then b else a
def fmin (a b : α) : α := if b < a then b else a

/-- `pressure_levels = np.log10(pressure_profile_levels[::-1])`: index 0 is the top of the atmosphere -/
def flatLevel (n : Nat) (plev : Nat → α) (i : Nat) : α := log10 (plev (n - i))

/-- `arr.max()` / `arr.min()` of `f 0 … f n` -/
def maxTo (n : Nat) (f : Nat → α) : α := (List.range n).foldl (fun m i => fmax m (f (i + 1))) (f 0)
def minTo (n : Nat) (f : Nat → α) : α := (List.range n).foldl (fun m i => fmin m (f (i + 1))) (f 0)

/-- a bound: negative means "unset" (→ the extreme level), otherwise `log10` of the pressure in Pa -/
def flatBound (raw dflt : α) : α := if raw < 0 then dflt else log10 raw

/-- `weight = max(min(hi, P_right) - max(lo, P_left), 0)`: overlap (in log10 P) of layer `i` with `[lo, hi]` -/
def flatOverlap (lev : Nat → α) (lo hi : α) (i : Nat) : α :=
  fmax (fmin hi (lev (i + 1)) - fmax lo (lev i)) 0

/-- `np.searchsorted(P_right, lo, side='right')` -/
def flatStart (n : Nat) (lev : Nat → α) (lo : α) : Nat :=
  Interp.searchRight ((List.range n).map fun i => lev (i + 1)) lo

/-- `np.searchsorted(P_left[1:], hi, side='right')` -/
def flatStop (n : Nat) (lev : Nat → α) (hi : α) : Nat :=
  Interp.searchRight ((List.range (n - 1)).map fun i => lev (i + 1)) hi

/-- `weight.max()` over the slice `[s : t+1]` (`s ≤ t`) -/
def flatWmax (lev : Nat → α) (lo hi : α) (s t : Nat) : α :=
  (List.range (t - s)).foldl (fun m j => fmax m (flatOverlap lev lo hi (s + j + 1))) (flatOverlap lev lo hi s)

/-- `sigma_xsec` before the final `[::-1]`, index `i` counted from the top of the atmosphere; given the
    sorted window `[lo, hi]` in log10 Pa -/
def flatSigmaRevW (n : Nat) (lev : Nat → α) (lo hi mix : α) (i : Nat) : α :=
  let s := flatStart n lev lo
  let t := flatStop n lev hi
  let wmax := flatWmax lev lo hi s t
  if s ≤ i ∧ i ≤ t ∧ i < n ∧ 0 < wmax then flatOverlap lev lo hi i / wmax * mix else 0

/-- `FlatMieContribution.prepare_each`: `sigma_xsec[l, :]` (the same at every wavenumber), layer 0 = surface -/
def flatSigma (n : Nat) (plev : Nat → α) (bottomRaw topRaw mix : α) (l : Nat) : α :=
  let lev := flatLevel n plev
  let bottom := flatBound bottomRaw (maxTo n lev)
  let top := flatBound topRaw (minTo n lev)
  let lo := if top ≤ bottom then top else bottom
  let hi := if top ≤ bottom then bottom else top
  flatSigmaRevW n lev lo hi mix (n - 1 - l)

/-! ### Lee et al. haze (LeeMie) -/

variable [OfNat α 4] [OfNat α 5] [OfNat α 10000] [OfNat α 1000000]

/-- `x ** y` for `x > 0` (numpy `power`; written through exp/log, agreeing to rounding) -/
def powr (x y : α) : α := exp (y * log x)

/-- `Qext * pi * am**2`: `wltmp = 10000/wn`, `x = 2 pi a / wltmp`, `Qext = 5/(Q x^-4 + x^0.2)`, `am = a*1e-6` -/
def leeLaw (pi a q wn : α) : α :=
  let wl := 10000 / wn
  let x := 2 * pi * a / wl
  let qext := 5 / (q * powr x (-4) + powr x (1 / 5))
  let am := a * (1 / 1000000)
  qext * pi * (am * am)

/-- a bound: negative means "unset" (→ the given layer pressure), otherwise the pressure in Pa as is -/
def leeBound (raw dflt : α) : α := if raw < 0 then dflt else raw

/-- `LeeMieContribution.prepare_each`: `sigma_xsec[l, wn]`; `P` are the layer pressures (surface first) -/
def leeSigma (n : Nat) (P : Nat → α) (bottomRaw topRaw pi a q mix : α) (wnv : Nat → α) (l wn : Nat) : α :=
  let bottom := leeBound bottomRaw (P 0)
  let top := leeBound topRaw (P (n - 1))
  if P l ≤ bottom ∧ top ≤ P l then leeLaw pi a q (wnv wn) * mix else 0

end

/-! ### a contribution declared in an input file

`taurex/parameter/factory.py: create_klass(config, klass, is_mixin)` — the route every `[[FlatMie]]`, `[[LeeMie]]`,
`[[SimpleClouds]]` sub-section of an input file takes (`create_model` → `generate_contributions` → `create_klass`):
the constructor's keywords with their defaults (`get_keywordarg_dict`), every keyword the section declares replaced by
the declared value AS IT IS, every other keyword left at its default; a declared keyword the constructor does not have
is a `KeyError` (`none`).  The rule is a function of the two lists only: what was created before plays no role. -/

/-- keyword arguments handed to the constructor: `defaults` = the constructor's keywords (in signature order) with
    their default values, `config` = the declared `key = value` pairs of the section -/
def declaredArgs {β : Type} (defaults config : List (String × β)) : Option (List (String × β)) :=
  if config.all (fun kv => (defaults.lookup kv.1).isSome) then
    some (defaults.map (fun kd => (kd.1, (config.lookup kd.1).getD kd.2)))
  else none

end Taurex.Haze
