import TaurexModel.Emission

/-! ### orchestration of `model_contrib` (the per-contribution break-down of an emission / direct-image spectrum)

`SimpleForwardModel.model_contrib(wngrid, cutoff_grid)`: profiles, the star ONCE on the grid in use, then for every
contribution in list order `prepare` on that grid and one `path_integral(grid, False)` over the one-element contribution list —
hence one `compute_final_flux` (one division by the star's stored SED) per contribution after a single `Star.initialize`. -/
namespace Taurex.Emission

/-- what `model_contrib` asks of the model, its star and its contributions, in order.  Grids are named:
    0 = `self.nativeWavenumberGrid`, 1 = `clip_native_to_wngrid(native_grid, wngrid)` -/
inductive BStep where
  | initProfiles
  | starInit (grid : Nat)
  | prepare (contrib grid : Nat)
  | integrate (contrib grid : Nat)
  deriving DecidableEq, Repr

/-- one contribution of the break-down: prepared, then integrated alone -/
def contribBlock (g i : Nat) : List BStep := [BStep.prepare i g, BStep.integrate i g]

def contribModelSteps (ncontrib : Nat) (clip : Bool) : List BStep :=
  let g := if clip then 1 else 0
  [BStep.initProfiles, BStep.starInit g] ++ (List.range ncontrib).flatMap (contribBlock g)

/-- the star's stored SED along a list of steps (named by the grid `Star.initialize` last stored the blackbody on; nothing else
    writes it): for every `integrate`, the contribution, the grid it is integrated on and the grid of the SED its flux is divided
    by (`none`: no SED stored yet) -/
def normalisedBy : Option Nat → List BStep → List (Nat × Nat × Option Nat)
  | _, [] => []
  | _, BStep.starInit g :: r => normalisedBy (some g) r
  | s, BStep.integrate i g :: r => (i, g, s) :: normalisedBy s r
  | s, BStep.initProfiles :: r => normalisedBy s r
  | s, BStep.prepare _ _ :: r => normalisedBy s r

/-- how many times the star is initialised -/
def starInits (l : List BStep) : Nat := l.countP (fun s => match s with | BStep.starInit _ => true | _ => false)

end Taurex.Emission
