/-
  Model of loading an observed spectrum:
    taurex/data/spectrum/array.py:ArraySpectrum.__init__, _sort_spectrum, _process_spectrum, manual_binning,
        wavenumberGrid, spectrum, errorBar, binWidths, binEdges
    taurex/data/spectrum/taurex.py:TaurexSpectrum._load_from_hdf5 (wn, spectrum, noise, wn width → rows)
    taurex/data/spectrum/observed.py:ObservedSpectrum (np.loadtxt → ArraySpectrum; the container is external)
    taurex/util/util.py:wnwidth_to_wlwidth, compute_bin_edges
    taurex/data/spectrum/spectrum.py:BaseSpectrum.create_binner (→ FluxBinner.__init__, `Binning.targetBins`)
-/
import TaurexModel.Num
import TaurexModel.Binning

namespace Taurex.Observation
open Taurex.Binning

section
variable {α : Type} [Add α] [Sub α] [Mul α] [Div α] [Neg α] [LT α] [LE α]
  [DecidableLT α] [DecidableLE α] [OfNat α 0] [OfNat α 1] [OfNat α 2] [OfNat α 10000]

/-- one row of the observation array: wavelength (µm), value, error, bin width (µm; unused for 3 columns) -/
structure ORow (α : Type) where
  wl : α
  v : α
  e : α
  bw : α

/-- `obs[obs[:,0].argsort()[::-1]]`: rows by descending wavelength -/
def sortRowsDesc (rows : List (ORow α)) : List (ORow α) := (sortBy ORow.wl rows).reverse

/-- 4-column edges: `bin_edges[0::2] = wl[::-1] - bw[::-1]/2; bin_edges[1::2] = wl[::-1] + bw[::-1]/2;
    bin_edges[::-1]` (argument: the rows sorted by descending wavelength) -/
def edges4 (sorted : List (ORow α)) : List α :=
  (sorted.reverse.flatMap (fun r => [r.wl - r.bw / 2, r.wl + r.bw / 2])).reverse

/-- `wnwidth_to_wlwidth(grid, width) = 10000*width/grid**2` -/
def widthConv (grid width : α) : α := 10000 * width / (grid * grid)

/-- what `ArraySpectrum` holds after construction -/
structure Obs (α : Type) where
  rows : List (ORow α)       -- `_obs_spectrum` (sorted)
  bw : List α                -- `_bin_widths` (µm)
  edgesWl : List α           -- `_bin_edges` (µm)
  wnWidths : List α          -- `_wnwidths` (cm-1)

/-- `ArraySpectrum.__init__` -/
def load (fourCol : Bool) (rows : List (ORow α)) : Obs α :=
  let sorted := sortRowsDesc rows
  let ew : List α × List α :=
    if fourCol then (edges4 sorted, sorted.map ORow.bw) else computeBinEdges (sorted.map ORow.wl)
  { rows := sorted, bw := ew.2, edgesWl := ew.1,
    wnWidths := List.zipWith widthConv (sorted.map ORow.wl) ew.2 }

/-- `wavenumberGrid = 10000/wavelengthGrid` -/
def Obs.wavenumberGrid (o : Obs α) : List α := o.rows.map (fun r => 10000 / r.wl)
/-- `spectrum` -/
def Obs.spectrum (o : Obs α) : List α := o.rows.map ORow.v
/-- `errorBar` -/
def Obs.errorBar (o : Obs α) : List α := o.rows.map ORow.e
/-- `binWidths` -/
def Obs.binWidths (o : Obs α) : List α := o.wnWidths
/-- `binEdges = 10000/_bin_edges` -/
def Obs.binEdges (o : Obs α) : List α := o.edgesWl.map (fun x => 10000 / x)

/-- `create_binner()`: `FluxBinner(wngrid=wavenumberGrid, wngrid_width=binWidths)`; the result is the
    binner's `(_wngrid, _wngrid_width)` as sorted target bins -/
def Obs.createBinner (o : Obs α) : List (TBin α) :=
  targetBins WidthMode.array (List.zipWith (fun c w => ({ c := c, w := w } : TBin α)) o.wavenumberGrid o.binWidths)

/-- `TaurexSpectrum._load_from_hdf5`: `(wn, spectrum, noise, wn width)` → array rows
    `(10000/wn, spectrum, noise, wnwidth_to_wlwidth(wn, wnwidth))` -/
def fromTaurex (r : ORow α) : ORow α :=
  { wl := 10000 / r.wl, v := r.v, e := r.e, bw := widthConv r.wl r.bw }

/-- a forward model `(native grid, native spectrum)` binned to the observation:
    `obs.create_binner().bin_model(model)[1]` -/
def Obs.binModel (o : Obs α) (native : List (Row α)) : List α :=
  fluxBindown false Row.s native o.createBinner

end

end Taurex.Observation
