/-
  Model of the emission / direct-image forward models (cross-section mode):
    taurex/util/emission.py:black_body_numba (+ _convert_lamb, _black_body_vec)
    taurex/contributions/contribution.py:contribute_tau, taurex/contributions/cia.py:contribute_cia
    taurex/model/emission.py:set_num_gauss, evaluate_emission (intensity and contribution function), path_integral,
      compute_final_flux
    taurex/model/directimage.py:compute_final_flux
    taurex/data/stellar/star.py:Star.initialize (stellar black body)
  The code is point-wise in the wavenumber except for the saturation clamp (`x.min() < 10`, minimum over
  the wavenumber axis).  A *column* is everything that belongs to one wavenumber; the clamp flags are
  computed from all columns and handed to the per-column kernel `intensityRows`.
-/
import TaurexModel.Num

namespace Taurex.Emission

/-- how a contribution's cross-section is weighted: `contribute_tau` (σ·dz·ρ) or `contribute_cia` (σ·dz·ρ·ρ) -/
inductive Kind where
  | lin
  | sq
  deriving DecidableEq, Repr

/-- the numbers `black_body_numba` uses: `PI, PLANCK, SPDLIGT, KBOLTZ` (taurex.constants, read from the repo at
    run time), the literal `10000*1e-6` of `_convert_lamb` and the literal `1e-6` of `_black_body_vec` -/
structure PC (α : Type) where
  pi : α
  h : α
  c : α
  kb : α
  conv : α
  scale : α

/-- one atmospheric layer as seen by one (wavenumber, angle): `b = B(T_l)/π`, `lt = layer_tau`, `dt = dtau`,
    and the two clamp decisions `layer_tau.min() < clamp`, `dtau.min() < clamp` -/
structure Row (α : Type) where
  b : α
  lt : α
  keepL : Bool
  dt : α
  keepD : Bool

/-- one wavenumber: `nu` (cm⁻¹) and, per contribution in list order, its kind and `sigma_xsec[:, wn]` -/
structure Col (α : Type) where
  nu : α
  sig : List (Kind × List α)

section
variable {α : Type} [Add α] [Sub α] [Mul α] [Div α] [Neg α] [LT α] [LE α]
  [DecidableLT α] [DecidableLE α] [OfNat α 0] [OfNat α 1] [OfNat α 2] [OfNat α 4] [OfNat α 10]

/-- `set_num_gauss`: `_mu_quads = (mu+1)/2` -/
def muOf (x : α) : α := (x + 1) / 2
/-- `set_num_gauss`: `_wi_quads = weight/2` -/
def wOf (wt : α) : α := wt / 2
/-- `_mu = 1.0/self._mu_quads` -/
def muInvOf (x : α) : α := 1 / muOf x

/-- one term of the kernels' inner loop: `sigma[k,wn]*_path*_density` (`*_density` once more for CIA) -/
def elem (kind : Kind) (s dz rho : α) : α :=
  match kind with
  | .lin => s * dz * rho
  | .sq => s * dz * rho * rho

/-- `contribute_tau(startK=lo, endK=hi, 0, sigma, density, path=dz, …, layer=0, tau)` for one wavenumber:
    `for k in range(lo, hi): tau += sigma[k]*path[k]*density[k]`, starting from `acc` -/
def tauAcc (c : Kind × List α) (dz dens : List α) (lo hi : Nat) (acc : α) : α :=
  (List.range' lo (hi - lo)).foldl
    (fun a k => a + elem c.1 (c.2.getD k 0) (dz.getD k 0) (dens.getD k 0)) acc

/-- `for contrib in self.contribution_list: contrib.contribute(self, lo, hi, 0, 0, density, tau, path_length=dz)`
    on a zeroed buffer -/
def tauRange (cs : List (Kind × List α)) (dz dens : List α) (lo hi : Nat) : α :=
  cs.foldl (fun a c => tauAcc c dz dens lo hi a) 0

/-- `layer_tau` of layer `l` (everything above it) -/
def layerTau (cs : List (Kind × List α)) (dz dens : List α) (n l : Nat) : α :=
  tauRange cs dz dens (l + 1) n

/-- `dtau` of layer `l`: the layer itself, then `dtau += layer_tau` -/
def dTau (cs : List (Kind × List α)) (dz dens : List α) (n l : Nat) : α :=
  tauRange cs dz dens l (l + 1) + layerTau cs dz dens n l

/-- `ndarray.min()` of a non-empty vector -/
def vmin (l : List α) : α :=
  match l with
  | [] => 0
  | x :: xs => xs.foldl (fun m y => if y < m then y else m) x

/-- `layer_tau.min() < self._clamp` (minimum over all wavenumbers) -/
def keepLOf (cols : List (Col α)) (dz dens : List α) (n l : Nat) : Bool :=
  decide (vmin (cols.map (fun c => layerTau c.sig dz dens n l)) < 10)

/-- `dtau.min() < self._clamp` -/
def keepDOf (cols : List (Col α)) (dz dens : List α) (n l : Nat) : Bool :=
  decide (vmin (cols.map (fun c => dTau c.sig dz dens n l)) < 10)

variable [Transc α]

/-- `black_body_numba(lamb=nu, temp)`:
    `wl = 10000*1e-6/lamb`; `(PI*(2.0*PLANCK*SPDLIGT**2)/(wl)**5) * (1.0/(exp((PLANCK*SPDLIGT)/(wl*KBOLTZ*temp))-1))*1e-6` -/
def planck (k : PC α) (nu t : α) : α :=
  let wl := k.conv / nu
  (k.pi * (2 * k.h * (k.c * k.c)) / (wl * wl * wl * wl * wl))
    * (1 / (exp ((k.h * k.c) / (wl * k.kb * t)) - 1)) * k.scale

/-- `dtau_calc = 0.0; if dtau.min() < clamp: dtau_calc = np.exp(-dtau*_mu)` -/
def trans (keep : Bool) (tau muInv : α) : α :=
  if keep then exp ((-tau) * muInv) else 0

/-- the intensity recursion of `evaluate_emission` for one wavenumber and one angle:
    `I = BB0*exp(-surface_tau*_mu)`; per layer `I += BB*(layer_tau_calc - dtau_calc)` -/
def intensityRows (b0 surf muInv : α) (rows : List (Row α)) : α :=
  rows.foldl (fun i r => i + r.b * (trans r.keepL r.lt muInv - trans r.keepD r.dt muInv))
    (b0 * exp ((-surf) * muInv))

/-- the clamp decisions of every layer, `(layer_tau.min() < clamp, dtau.min() < clamp)` -/
def flagsOf (cols : List (Col α)) (dz dens : List α) (n : Nat) : List (Bool × Bool) :=
  (List.range n).map (fun l => (keepLOf cols dz dens n l, keepDOf cols dz dens n l))

/-- the rows `evaluate_emission` builds for one column (`n` layers, clamp decisions `fl`) -/
def rowsWith (k : PC α) (fl : List (Bool × Bool)) (dz dens temps : List α) (col : Col α) : List (Row α) :=
  let n := temps.length
  (List.range n).map (fun l =>
    { b := planck k col.nu (temps.getD l 0) / k.pi
      lt := layerTau col.sig dz dens n l
      keepL := (fl.getD l (true, true)).1
      dt := dTau col.sig dz dens n l
      keepD := (fl.getD l (true, true)).2 })

/-- the rows of the code: clamp decisions taken over all columns -/
def rowsOf (k : PC α) (cols : List (Col α)) (dz dens temps : List α) (col : Col α) : List (Row α) :=
  rowsWith k (flagsOf cols dz dens temps.length) dz dens temps col

/-- same rows with every clamp decision forced to "keep": the documented integral without the cut-off -/
def rowsUncut (k : PC α) (dz dens temps : List α) (col : Col α) : List (Row α) :=
  rowsWith k [] dz dens temps col

/-- `surface_tau` of a column (never clamped) -/
def surfTau (dz dens temps : List α) (col : Col α) : α :=
  tauRange col.sig dz dens 0 temps.length

/-- `BB = black_body(wngrid, temperature[0])/PI` -/
def b0Of (k : PC α) (temps : List α) (col : Col α) : α :=
  planck k col.nu (temps.getD 0 0) / k.pi

/-- `evaluate_emission(...)[0][q, wn]`: intensity of column `col` at the angle with `_mu = muInv` -/
def intensity (k : PC α) (cols : List (Col α)) (dz dens temps : List α) (muInv : α) (col : Col α) : α :=
  intensityRows (b0Of k temps col) (surfTau dz dens temps col) muInv (rowsOf k cols dz dens temps col)

/-- the uncut documented integral (spec side of the licensed clamp deviation) -/
def intensityUncut (k : PC α) (dz dens temps : List α) (muInv : α) (col : Col α) : α :=
  intensityRows (b0Of k temps col) (surfTau dz dens temps col) muInv (rowsUncut k dz dens temps col)

/-- what the driver evaluates: the rows of a column are built once and reused for every angle
    (`colIntensities … = muInvs.map (intensity …)` when `fl = flagsOf cols …`, by `rfl`) -/
def colIntensities (k : PC α) (fl : List (Bool × Bool)) (dz dens temps : List α) (muInvs : List α)
    (col : Col α) : List α :=
  let rows := rowsWith k fl dz dens temps col
  let b0 := b0Of k temps col
  let s := surfTau dz dens temps col
  muInvs.map (fun m => intensityRows b0 s m rows)

/-- the pair of `evaluate_emission` that feeds the contribution function (no emission angle):
    `dtau_calc = 0.0; if dtau.min() < self._clamp: dtau_calc = np.exp(-dtau)` -/
def cut (keep : Bool) (tau : α) : α :=
  if keep then exp (-tau) else 0

/-- entry `[layer, wn]` of the contribution function `evaluate_emission(...)[3]` (the `tau` that `model()` returns):
    `_tau = layer_tau_calc - dtau_calc; tau[layer] += _tau[0]` on the zeroed table -/
def contribOf (r : Row α) : α :=
  0 + (cut r.keepL r.lt - cut r.keepD r.dt)

/-- column `wn` of the contribution function: one entry per layer -/
def contribFn (k : PC α) (cols : List (Col α)) (dz dens temps : List α) (col : Col α) : List α :=
  (rowsOf k cols dz dens temps col).map contribOf

/-- what the driver evaluates (`= contribFn` when `fl = flagsOf cols …`, by `rfl`) -/
def colContrib (k : PC α) (fl : List (Bool × Bool)) (dz dens temps : List α) (col : Col α) : List α :=
  (rowsWith k fl dz dens temps col).map contribOf

/-- `sum(I*(_w/_mu))` over the angles (Python `sum`: `0 + …` left to right); `q = (I_q, w_q, _mu_q)` -/
def angleSum (qs : List (α × α × α)) : α :=
  qs.foldl (fun a q => a + q.1 * (q.2.1 / q.2.2)) 0

/-- `path_integral`: `flux_total = 2.0*np.pi*sum(I*(_w/_mu))` -/
def fluxTotal (npPi : α) (qs : List (α × α × α)) : α :=
  2 * npPi * angleSum qs

/-- `EmissionModel.compute_final_flux`: `(f_total/star_sed) * (planet_radius/star_radius)**2` -/
def eclipse (f starSed rp rs : α) : α :=
  (f / starSed) * ((rp / rs) * (rp / rs))

/-- `DirectImageModel.compute_final_flux`:
    `((f_total * (planet_radius**2) * 2.0 * PI) / (4 * PI * (star_distance_meters**2))) * SDR`, `SDR = 1.0`,
    `star_distance_meters = distance*3.08567758e16` -/
def direct (pi f rp dist pc : α) : α :=
  let d := dist * pc
  ((f * (rp * rp) * 2 * pi) / (4 * pi * (d * d))) * 1

/-- `path_integral` for one column from its per-angle intensities `is` and the `leggauss` nodes/weights -/
def fluxOf (npPi : α) (is xs wts : List α) : α :=
  fluxTotal npPi ((is.zip (xs.zip wts)).map (fun q => (q.1, wOf q.2.2, muInvOf q.2.1)))

/-- flux of one column for the angles `xs`/`wts` as returned by `leggauss` -/
def fluxCol (k : PC α) (npPi : α) (cols : List (Col α)) (dz dens temps : List α) (xs wts : List α)
    (col : Col α) : α :=
  fluxOf npPi (xs.map (fun x => intensity k cols dz dens temps (muInvOf x) col)) xs wts

/-- the uncut flux -/
def fluxColUncut (k : PC α) (npPi : α) (dz dens temps : List α) (xs wts : List α) (col : Col α) : α :=
  fluxOf npPi (xs.map (fun x => intensityUncut k dz dens temps (muInvOf x) col)) xs wts

end

section
variable {α : Type}

/-- consecutive layers share an interface: `dtau` of a layer is `layer_tau` of the layer below it (same clamp
    decision), the bottom layer's `dtau` is the surface column `t`, the top layer's `layer_tau` is an empty sum -/
def Chain [OfNat α 0] (t : α) (k : Bool) : List (Row α) → Prop
  | [] => t = 0 ∧ k = true
  | r :: rs => r.dt = t ∧ r.keepD = k ∧ Chain r.lt r.keepL rs

/-- the clamp only drops transmittances of optical depth `≥ 10`, and optical depth grows downwards -/
def RowsOk [OfNat α 10] [LE α] (rows : List (Row α)) : Prop :=
  ∀ r ∈ rows, r.lt ≤ r.dt ∧ (r.keepL = false → (10 : α) ≤ r.lt) ∧ (r.keepD = false → (10 : α) ≤ r.dt)
    ∧ (r.keepL = false → r.keepD = false)

end

/-! ### orchestration of `partial_model` -/

/-- what `EmissionModel.partial_model` asks of the model, its star and its contributions, in order.  Grids are named:
    0 = `self.nativeWavenumberGrid`, 1 = `clip_native_to_wngrid(native_grid, wngrid)` -/
inductive Step where
  | initProfiles
  | starInit (grid : Nat)
  | prepare (contrib grid : Nat)
  | evaluate (grid : Nat)
  deriving DecidableEq, Repr

/-- `partial_model(wngrid, cutoff_grid)`: profiles, then the star on the grid in use, then `prepare` of every contribution
    in list order on that grid, then `evaluate_emission(grid, False)`; the grid in use is the clipped one exactly when a
    `wngrid` is passed and `cutoff_grid` is true (`clip`) -/
def partialModelSteps (ncontrib : Nat) (clip : Bool) : List Step :=
  let g := if clip then 1 else 0
  [Step.initProfiles, Step.starInit g] ++ (List.range ncontrib).map (fun i => Step.prepare i g) ++ [Step.evaluate g]

end Taurex.Emission
