/-
  Model of the free-chemistry mixture and the built-in abundance profiles (C10):
    taurex/data/profiles/chemistry/taurexchemistry.py : TaurexChemistry.__init__ (ratio count check),
        initialize_chemistry, fill_atmosphere, gases
    taurex/data/profiles/chemistry/autochemistry.py   : determine_active_inactive, compute_mu_profile,
        activeGasMixProfile, inactiveGasMixProfile
    taurex/data/profiles/chemistry/chemistry.py       : __init__ (available molecules), get_gas_mix_profile
    taurex/data/profiles/chemistry/gas/constantgas.py, twopointgas.py, arraygas.py, powergas.py, twolayergas.py
        : initialize_profile
  Externals: np.interp / np.linspace / movingaverage (TaurexModel/NpInterp.lean); molecular masses
  (`get_molecular_weight`) are inputs.
-/
import TaurexModel.NpInterp

namespace Taurex.Chemistry
open Taurex.NpInterp

section
variable {α : Type} [Add α] [Sub α] [Mul α] [Div α] [Neg α] [LT α] [LE α]
  [DecidableLT α] [DecidableLE α] [OfNat α 0] [OfNat α 1]

/-! ### gas profiles -/

/-- `ConstantGas`: `mix_ratio * np.ones(nlayers)` -/
def constantGas (mix : α) (n : Nat) : List α := List.replicate n (mix * 1)

variable [Transc α]

/-- `TwoPointGas.initialize_profile`: straight line in (log10 P, log10 X) through the end layers;
    the end layers themselves are set to the control values. -/
def twoPointGas (surf top : α) (pressure : List α) : List α :=
  let n := pressure.length
  let pSurf := pressure.getD 0 0
  let pTop := pressure.getD (n - 1) 0
  let a := (log10 surf - log10 top) / (log10 pSurf - log10 pTop)
  let b := log10 surf - a * log10 pSurf
  (List.range n).map (fun i =>
    if i = n - 1 then top
    else if i = 0 then surf
    else pow10 (a * log10 (pressure.getD i 0) + b))

/-- `PowerGas.initialize_profile` with resolved coefficients; `barFactor = 1e-5` (Pa → bar) -/
def powerGas (mixSurface alpha beta gamma barFactor : α) (pressure temperature : List α) : List α :=
  List.zipWith (fun p t =>
    let pb := p * barFactor
    let ad := pow10 (gamma * (-1)) * exp (alpha * log pb) * pow10 (beta / t)
    let m := 1 / sqrt mixSurface + 1 / sqrt ad
    (1 / m) * (1 / m)) pressure temperature

/-- `PowerGas.initialize_profile`, the coefficient look-up: a constructor argument left `None` is replaced by the
    coefficient `check_known` tabulates for the molecule (`none` when the molecule is not tabulated) -/
def powerCoeff (given known : Option α) : Option α :=
  match given with
  | some v => some v
  | none => known

/-- `PowerGas(mix_ratio_surface, alpha, beta, gamma)` with optional arguments; `known = (a, b, g, A)` is the tuple
    `check_known(profile_type)` returns (four `None` for an unknown molecule).  A coefficient that is neither given nor
    tabulated makes `initialize_profile` raise ValueError (`error`). -/
def powerGasAuto (ms alpha beta gamma : Option α) (known : Option α × Option α × Option α × Option α)
    (barFactor : α) (pressure temperature : List α) : Outcome (List α) :=
  match powerCoeff ms known.2.2.2, powerCoeff alpha known.1, powerCoeff beta known.2.1,
      powerCoeff gamma known.2.2.1 with
  | some m, some a, some b, some g => .ok (powerGas m a b g barFactor pressure temperature)
  | _, _, _, _ => .error

variable [NatConv α]

/-- `ArrayGas.initialize_profile`:
    `np.interp(linspace(0,1,nlayers), linspace(0,1,len(arr)), arr)` -/
def arrayGas (arr : List α) (n : Nat) : List α :=
  (linspace (0 : α) 1 n).map (npInterp (linspace (0 : α) 1 arr.length) arr)

variable [OfNat α 2] [OfNat α 100]

/-- the unsmoothed two-layer profile in np.interp order (top of the atmosphere first):
    `10**np.interp(log(P[::-1]), log(Pnodes[::-1]), log10(Cnodes[::-1]))` -/
def twoLayerRaw (surf top pBoundary window : α) (nlayers : Nat) (pressure : List α) : List α :=
  let pLayer := argminAbs pressure pBoundary
  let startLayer := truncNat (ofNat' pLayer - window / 2)            -- max(int(·), 0)
  let endLayer := min (truncNat (ofNat' pLayer + window / 2)) (nlayers - 1)
  let pN (i : Nat) := pressure.getD i 0
  let xp := [log (pN (pressure.length - 1)), log (pN endLayer), log (pN startLayer), log (pN 0)]
  let fp := [log10 top, log10 top, log10 surf, log10 surf]
  pressure.reverse.map (fun p => pow10 (npInterp xp fp (log p)))

/-- `TwoLayerGas.initialize_profile` (after the `fix:` commits: `int`, odd window ≥ 1, empty border allowed) -/
def twoLayerGas (surf top pBoundary window : α) (nlayers : Nat) (pressure : List α) : Outcome (List α) :=
  let chem := twoLayerRaw surf top pBoundary window nlayers pressure
  let wsize := oddWindow nlayers window
  let smooth := (movingAverage (chem.map log10) wsize).map pow10
  assembleSmoothed chem smooth

/-- the built-in `Gas` classes with their constructor arguments -/
inductive Gas (α : Type) where
  | constant (mix : α)
  | twoLayer (surf top pBoundary window : α)
  | twoPoint (surf top : α)
  | array (arr : List α)
  | power (mixSurface alpha beta gamma barFactor : α)

/-- `gas.initialize_profile(nlayers, T, P, z); gas.mixProfile` -/
def Gas.profile (g : Gas α) (nlayers : Nat) (pressure temperature : List α) : Outcome (List α) :=
  match g with
  | .constant mix => .ok (constantGas mix nlayers)
  | .twoLayer s t pb w => twoLayerGas s t pb w nlayers pressure
  | .twoPoint s t => .ok (twoPointGas s t pressure)
  | .array arr => .ok (arrayGas arr nlayers)
  | .power ms a b c bf => .ok (powerGas ms a b c bf pressure temperature)

/-- all trace profiles, in order; the first failure wins (the loop of `initialize_chemistry`) -/
def traceProfiles (gases : List (Gas α)) (nlayers : Nat) (pressure temperature : List α) :
    Outcome (List (List α)) :=
  match gases with
  | [] => .ok []
  | g :: gs =>
    match g.profile nlayers pressure temperature with
    | .ok row =>
      match traceProfiles gs nlayers pressure temperature with
      | .ok rows => .ok (row :: rows)
      | .invalid => .invalid
      | .error => .error
    | .invalid => .invalid
    | .error => .error

end

/-! ### mixture -/

section
variable {α : Type} [Add α] [Sub α] [Mul α] [Div α] [Neg α] [LT α] [LE α]
  [DecidableLT α] [DecidableLE α] [OfNat α 0] [OfNat α 1]

/-- `sum(mix_profile)` (element-wise, starting from 0) -/
def totalMix (traces : List (List α)) (n : Nat) : List α :=
  traces.foldl (fun acc row => List.zipWith (· + ·) acc row) (List.replicate n 0)

/-- `fill_atmosphere(mixratio_remainder)` -/
def fillAtmosphere (nFill : Nat) (ratios : List α) (rem : List α) : List (List α) :=
  if nFill = 1 then [rem]
  else
    let main := rem.map (fun r => r * (1 / (1 + sumL ratios)))
    main :: (ratios.take (nFill - 1)).map (fun ratio => main.map (fun m => ratio * m))

/-- `TaurexChemistry(fill_gases, ratio)` + `initialize_chemistry`: rows of `mixProfile` (fill gases first),
    `invalid` = `InvalidChemistryException`. -/
def mixProfile (nFill : Nat) (ratios : List α) (traces : List (List α)) (n : Nat) : Outcome (List (List α)) :=
  if 1 < nFill ∧ ratios.length ≠ nFill - 1 then .invalid
  else
    let total := totalMix traces n
    if total.any (fun t => decide (1 < t)) then .invalid
    else .ok (fillAtmosphere nFill ratios (total.map (fun t => 1 - t)) ++ traces)

/-- `TaurexChemistry` with real gas objects: profiles, then the mixture -/
def chemistry [Transc α] [NatConv α] [OfNat α 2] [OfNat α 100] (nFill : Nat) (ratios : List α)
    (gases : List (Gas α)) (nlayers : Nat) (pressure temperature : List α) : Outcome (List (List α)) :=
  if 1 < nFill ∧ ratios.length ≠ nFill - 1 then .invalid
  else
    match traceProfiles gases nlayers pressure temperature with
    | .ok traces => mixProfile nFill ratios traces nlayers
    | .invalid => .invalid
    | .error => .error

/-- `compute_mu_profile`: `mu += mix[idx] * mass(gas)` over all gases -/
def muProfile (mix : List (List α)) (masses : List α) (n : Nat) : List α :=
  (mix.zip masses).foldl (fun acc rm => List.zipWith (· + ·) acc (rm.1.map (fun x => x * rm.2)))
    (List.replicate n 0)

end

/-! ### molecular mass from the formula (taurex/util/util.py: tokenize_molecule, split_molecule_elements,
     calculate_weight, get_molecular_weight) — bracket-free formulas; a bracket gives `none` (not modelled) -/

/-- tokens of the regex `[A-Z][a-z]?|\d+|.` -/
inductive Tok where
  | elem (s : String)
  | num (n : Nat)
  | other (c : Char)
  deriving Repr, DecidableEq

def takeDigits : List Char → Nat → Nat × List Char
  | c :: cs, acc => if c.isDigit then takeDigits cs (acc * 10 + (c.toNat - '0'.toNat)) else (acc, c :: cs)
  | [], acc => (acc, [])

theorem takeDigits_length_le : ∀ (cs : List Char) (acc : Nat), (takeDigits cs acc).2.length ≤ cs.length
  | [], _ => by simp [takeDigits]
  | c :: cs, acc => by
    unfold takeDigits
    split
    · exact Nat.le_trans (takeDigits_length_le cs _) (Nat.le_succ _)
    · exact Nat.le_refl _

/-- `tokenize_molecule` -/
def tokenize : List Char → List Tok
  | [] => []
  | c :: cs =>
    if c.isUpper then
      match cs with
      | d :: ds => if d.isLower then Tok.elem (String.ofList [c, d]) :: tokenize ds
                   else Tok.elem (String.ofList [c]) :: tokenize (d :: ds)
      | [] => [Tok.elem (String.ofList [c])]
    else if c.isDigit then
      let r := takeDigits cs (c.toNat - '0'.toNat)
      Tok.num r.1 :: tokenize r.2
    else Tok.other c :: tokenize cs
termination_by l => l.length
decreasing_by
  all_goals simp_wf
  all_goals first
    | omega
    | exact Nat.lt_succ_of_le (takeDigits_length_le _ _)

/-- `elems[token] += peek` with first-occurrence (dict insertion) order -/
def bump (el : String) (k : Nat) : List (String × Nat) → List (String × Nat)
  | [] => [(el, k)]
  | (e, n) :: rest => if e = el then (e, n + k) :: rest else (e, n) :: bump el k rest

/-- the loop of `split_molecule_elements` on bracket-free token lists -/
def splitGo (known : String → Bool) : List Tok → List (String × Nat) → Option (List (String × Nat))
  | [], acc => some acc
  | Tok.elem s :: Tok.num k :: rest, acc =>
      if known s then splitGo known rest (bump s k acc) else splitGo known rest acc
  | Tok.elem s :: rest, acc =>
      if known s then splitGo known rest (bump s 1 acc) else splitGo known rest acc
  | Tok.num _ :: rest, acc => splitGo known rest acc
  | Tok.other c :: rest, acc =>
      if c = '{' ∨ c = '(' ∨ c = '[' ∨ c = '}' ∨ c = ')' ∨ c = ']' then none else splitGo known rest acc

/-- `split_molecule_elements(molecule)` -/
def splitElements {α : Type} (table : List (String × α)) (formula : String) : Option (List (String × Nat)) :=
  splitGo (fun s => (table.lookup s).isSome) (tokenize formula.toList) []

/-- `get_molecular_weight`: `calculate_weight(formula) * AMU` with `mass` = `table` -/
def molecularWeight {α : Type} [Add α] [Mul α] [OfNat α 0] [NatConv α] (table : List (String × α)) (amu : α)
    (formula : String) : Option α :=
  match splitElements table formula with
  | none => none
  | some elems =>
    some (elems.foldl (fun acc ec =>
      match table.lookup ec.1 with
      | some m => acc + m * ofNat' ec.2
      | none => acc) 0 * amu)

/-! ### active / inactive split (names only) -/

/-- `Chemistry.__init__`: registered molecules minus `deactive_molecules` -/
def availableActive (registered : List String) (deactive : Option (List String)) : List String :=
  match deactive with
  | none => registered
  | some d => registered.filter (fun k => !d.contains k)

/-- indices `i` (from `start`) of the gases satisfying `keep` -/
def maskFrom (keep : String → Bool) : List String → Nat → List Nat
  | [], _ => []
  | g :: gs, i => if keep g then i :: maskFrom keep gs (i + 1) else maskFrom keep gs (i + 1)

/-- `_active_mask` -/
def activeMask (gases avail : List String) : List Nat := maskFrom (fun g => avail.contains g) gases 0
/-- `_inactive_mask` -/
def inactiveMask (gases avail : List String) : List Nat := maskFrom (fun g => !avail.contains g) gases 0
/-- `activeGases` -/
def activeGases (gases avail : List String) : List String := gases.filter (fun g => avail.contains g)
/-- `inactiveGases` -/
def inactiveGases (gases avail : List String) : List String := gases.filter (fun g => !avail.contains g)

/-- `mixProfile[mask]` -/
def selectRows {β : Type} (mix : List (List β)) (mask : List Nat) : List (List β) :=
  mask.map (fun i => mix.getD i [])

/-- `get_gas_mix_profile(name)`; `none` = `KeyError` -/
def getGasMixProfile {β : Type} (gases avail : List String) (mix : List (List β)) (name : String) :
    Option (List β) :=
  let act := activeGases gases avail
  let inact := inactiveGases gases avail
  if act.contains name then
    some ((selectRows mix (activeMask gases avail)).getD (act.idxOf name) [])
  else if inact.contains name then
    some ((selectRows mix (inactiveMask gases avail)).getD (inact.idxOf name) [])
  else none

/-! ### which molecules have opacity data: the session state of `OpacityCache`

`Chemistry.__init__` asks `OpacityCache().find_list_of_molecules()` every time a chemistry is constructed.  The answer is
a function of the state of the session AT THAT MOMENT: the cross-section files of the directory the opacity path points to
now (`GlobalCache()['xsec_path']`, every `Opacity.discover()` lists it afresh) together with the tables held in memory
(`opacity_dict`: registered with `add_opacity`, or loaded from the path by `OpacityCache()[molecule]`) and the molecules
declared absorbing by the last `force_active(list)` (the hook for external radiative codes).  Directories are
numbered; a directory is the list of molecules it holds a file for. -/

structure CacheState where
  /-- the directory the opacity path points to (`none`: no path set) -/
  path : Option Nat
  /-- directory `i` holds a cross-section file for these molecules -/
  dirs : List (List String)
  /-- keys of `opacity_dict`, insertion order -/
  loaded : List String
  /-- the list handed to the last `force_active` (initially empty) -/
  forced : List String := []
  deriving Repr

inductive CacheOp where
  /-- `set_opacity_path(dir_i)` -/
  | setPath (i : Nat)
  /-- a cross-section file for molecule `m` is put into directory `i` -/
  | addFile (i : Nat) (m : String)
  /-- the file of molecule `m` is taken out of directory `i` -/
  | removeFile (i : Nat) (m : String)
  /-- `add_opacity(table of m)`: kept unless a table of that molecule is held already -/
  | register (m : String)
  /-- `OpacityCache()[m]`: loads the table from the current path when it is not in memory (an exception, the state
      unchanged, when the path has no file for it) -/
  | load (m : String)
  /-- `clear_cache()` -/
  | clear
  /-- `find_list_of_molecules()` — what every `Chemistry` construction does -/
  | ask
  /-- `force_active(ms)`: the molecules `ms` — these and no others — are declared absorbing from now on; it replaces the
      list of an earlier call -/
  | force (ms : List String)
  deriving Repr

/-- the molecules the cross-section files of the current path name (`discover()` of the opacity classes) -/
def CacheState.discovered (s : CacheState) : List String :=
  match s.path with
  | none => []
  | some i => s.dirs.getD i []

/-- `find_list_of_molecules()` (a set in Python: order and repetitions are immaterial) -/
def CacheState.molecules (s : CacheState) : List String := s.discovered ++ s.forced ++ s.loaded

def CacheState.step (s : CacheState) : CacheOp → CacheState
  | .setPath i => { s with path := some i }
  | .addFile i m => { s with dirs := s.dirs.modify i (fun d => if d.contains m then d else d ++ [m]) }
  | .removeFile i m => { s with dirs := s.dirs.modify i (fun d => d.filter (fun x => x != m)) }
  | .register m => if s.loaded.contains m then s else { s with loaded := s.loaded ++ [m] }
  | .load m =>
    if s.loaded.contains m then s
    else if s.discovered.contains m then { s with loaded := s.loaded ++ [m] } else s
  | .clear => { s with loaded := [] }
  | .ask => s
  | .force ms => { s with forced := ms }

/-- the state after a history of operations -/
def CacheState.run (s : CacheState) (ops : List CacheOp) : CacheState := ops.foldl CacheState.step s

end Taurex.Chemistry
