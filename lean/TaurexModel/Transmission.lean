/-
  Model of the transmission forward model:
    taurex/model/transmission.py: compute_path_length_old, compute_path_length (closed form of the 3-D
        line/sphere geometry of taurex/util/geometry.py: it is *not* modelled, it must equal `chordNew`),
        path_integral (incl. the `tau[layer].min() > 10` early exit), compute_absorption
    taurex/contributions/contribution.py: contribute_tau          (kind `lin`)
    taurex/contributions/cia.py: contribute_cia                   (kind `sq`, density squared)
    taurex/contributions/simpleclouds.py: contribute              (kind `layerOnly`)
  Arrays are functions of their index (`z l`, `sigma l wn`, …) together with explicit lengths; the driver
  feeds `fun i => arr.getD i 0`.  Carrier-polymorphic (Float: executed; ℝ: proved about).
-/
import TaurexModel.Num

namespace Taurex.Transmission

section
variable {α : Type} [Add α] [Sub α] [Mul α] [Div α] [Neg α] [LT α] [LE α]
  [DecidableLT α] [DecidableLE α] [OfNat α 0] [OfNat α 1] [OfNat α 2] [OfNat α 10] [Transc α]

/-- `x**2` -/
def sq (x : α) : α := x * x

/-- the accumulation loop `for k in range(n): acc += f(k)` -/
def accFrom (a : α) (n : Nat) (f : Nat → α) : α := (List.range n).foldl (fun acc k => acc + f k) a

/-! ### chord lengths -/

/-- old method: `planet_radius + dz[0]/2 + z[j] + dz[j]/2` -/
def oldMid (rp : α) (z dz : Nat → α) (j : Nat) : α := rp + dz 0 / 2 + z j + dz j / 2

/-- old method: `p = (planet_radius + dz[0]/2 + z[layer])**2` -/
def oldP (rp : α) (z dz : Nat → α) (l : Nat) : α := sq (rp + dz 0 / 2 + z l)

/-- old method: `sqrt((…mid of layer j…)**2 - p)` : half chord of tangent layer `l` out to the middle of layer `j` -/
def oldHalf (rp : α) (z dz : Nat → α) (l j : Nat) : α := sqrt (sq (oldMid rp z dz j) - oldP rp z dz l)

/-- `compute_path_length_old(dz)[l][k]`, `k < nLayers - l` -/
def chordOld (rp : α) (z dz : Nat → α) (l k : Nat) : α :=
  (if k = 0 then oldHalf rp z dz l l
   else oldHalf rp z dz l (l + k) - oldHalf rp z dz l (l + k - 1)) * 2

/-- new method: impact parameter of the ray through the middle of layer `l`: `R + (z[l] + dz[l]/2)` -/
def newB (rp : α) (z dz : Nat → α) (l : Nat) : α := rp + (z l + dz l / 2)

/-- new method: length of the chord the ray of layer `l` cuts out of the sphere of radius `R + zb[i]` -/
def newD (rp : α) (zb z dz : Nat → α) (l i : Nat) : α := 2 * sqrt (sq (rp + zb i) - sq (newB rp z dz l))

/-- `compute_path_length()[l][k]`, `k < nLayers - l` (what `compute_path_length_3d` must return) -/
def chordNew (rp : α) (zb z dz : Nat → α) (l k : Nat) : α :=
  if k = 0 then newD rp zb z dz l (l + 1)
  else newD rp zb z dz l (l + 1 + k) - newD rp zb z dz l (l + k)

/-! ### optical depth -/

inductive Kind where
  | lin        -- contribute_tau
  | sq         -- contribute_cia
  | layerOnly  -- SimpleCloudsContribution.contribute
  deriving DecidableEq, Repr

/-- a prepared contribution: its kernel and its `sigma_xsec[layer, wn]` -/
structure Contrib (α : Type) where
  kind : Kind
  sigma : Nat → Nat → α

/-- the `k`-th summand the kernel adds to `tau[layer, wn]` -/
def term (c : Contrib α) (path dens : Nat → α) (l wn k : Nat) : α :=
  match c.kind with
  | .lin => c.sigma (k + l) wn * path k * dens (k + l)
  | .sq => c.sigma (k + l) wn * path k * dens (k + l) * dens (k + l)
  | .layerOnly => c.sigma l wn

/-- number of summands: `endK - startK = nLayers - layer`; the cloud adds its own layer only -/
def nTerms (c : Contrib α) (n l : Nat) : Nat :=
  match c.kind with
  | .layerOnly => 1
  | _ => n - l

/-- `contrib.contribute(model, 0, n-l, l, l, density, tau, path_length=dl)` on row `tau[l]` -/
def addContrib (c : Contrib α) (n : Nat) (path dens : Nat → α) (l : Nat) (acc : Nat → α) : Nat → α :=
  fun wn => accFrom (acc wn) (nTerms c n l) (term c path dens l wn)

/-- `tau[layer].min() > 10` (row of `nwn ≥ 1` finite-or-inf values) -/
def saturated (nwn : Nat) (row : Nat → α) : Bool := (List.range nwn).all fun wn => decide (10 < row wn)

/-- all contributions added, no early exit (the documented integral) -/
def tauFullFrom (n : Nat) (path dens : Nat → α) (l : Nat) (cs : List (Contrib α)) (acc : Nat → α) : Nat → α :=
  cs.foldl (fun a c => addContrib c n path dens l a) acc

/-- the loop of `path_integral` over the contribution list, with its `break` -/
def tauCutFrom (n nwn : Nat) (path dens : Nat → α) (l : Nat) : List (Contrib α) → (Nat → α) → Nat → α
  | [], acc => acc
  | c :: cs, acc =>
    if saturated nwn acc then acc else tauCutFrom n nwn path dens l cs (addContrib c n path dens l acc)

def tauFull (n : Nat) (path dens : Nat → α) (l : Nat) (cs : List (Contrib α)) : Nat → α :=
  tauFullFrom n path dens l cs (fun _ => 0)

def tauCut (n nwn : Nat) (path dens : Nat → α) (l : Nat) (cs : List (Contrib α)) : Nat → α :=
  tauCutFrom n nwn path dens l cs (fun _ => 0)

/-! ### transit depth -/

/-- `np.exp(-tau)` -/
def trans (tau : α) : α := exp (-tau)

/-- `(pradius+ap)*(1.0-tau)*_dz*2.0` for one layer (`tr` is the transmittance `exp(-tau)`) -/
def depthTerm (rp : α) (z dz tr : Nat → α) (l : Nat) : α := (rp + z l) * (1 - tr l) * dz l * 2

/-- `compute_absorption`: `((pradius**2.0) + integral)/(sradius**2)` at one wavenumber -/
def depth (rp rs : α) (n : Nat) (z dz tr : Nat → α) : α :=
  (sq rp + accFrom 0 n (depthTerm rp z dz tr)) / sq rs

/-- path of tangent layer `l` by either method -/
def chord (newMethod : Bool) (rp : α) (zb z dz : Nat → α) (l k : Nat) : α :=
  if newMethod then chordNew rp zb z dz l k else chordOld rp z dz l k

/-- `TransmissionModel.path_integral`: transmittance `exp(-tau)[l, wn]` -/
def modelTrans (cut : Bool) (newMethod : Bool) (rp : α) (n nwn : Nat) (zb z dz dens : Nat → α)
    (cs : List (Contrib α)) (l wn : Nat) : α :=
  let path := chord newMethod rp zb z dz l
  trans ((if cut then tauCut n nwn path dens l cs else tauFull n path dens l cs) wn)

/-- `TransmissionModel.path_integral`: depth at wavenumber `wn` -/
def modelDepth (cut : Bool) (newMethod : Bool) (rp rs : α) (n nwn : Nat) (zb z dz dens : Nat → α)
    (cs : List (Contrib α)) (wn : Nat) : α :=
  depth rp rs n z dz (fun l => modelTrans cut newMethod rp n nwn zb z dz dens cs l wn)

end

end Taurex.Transmission
