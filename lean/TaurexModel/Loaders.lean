/-
  Model of the opacity / CIA / k-table file readers: abstract file contents (lists of numbers, strings and
  attributes — what the container libraries hand to the reader), one decoder `dec*` per format mirroring
    taurex/opacity/pickleopacity.py:_load_pickle_file          (decPickle)
    taurex/opacity/hdf5opacity.py:_load_hdf_file               (decHdf)
    taurex/opacity/exotransmit.py:_load_exo_transmit           (decExo)
    taurex/cia/picklecia.py:_load_pickle_file, compute_cia     (decPickleC, ciaCompute)
    taurex/cia/hitrancia.py:load_hitran_file, HitranCiaGrid.fill_temperature, fill_gaps,
                            compute_final_grid                 (decHitran)
    taurex/opacity/ktables/picklektable.py:_load_pickle_file   (decPickleK)
    taurex/opacity/ktables/hdfktable.py:_load_pickle_file      (decHdfK)
  and one encoder `enc*` per format that *defines* the container layout of a physical table (the harness
  writes its real files exactly like this).  The decoded "physical table" is the loaded state every
  `InterpolatingOpacity` shares: axes as stored, pressures in Pa, the table in cm² indexed [P][T][wn]
  (`compute_opacity` divides by 10000, see Interp.computeOpacity).
  Carrier-polymorphic and import-free: run on `Float` by the driver, proved over any ordered field.
-/
import TaurexModel.Num
import TaurexModel.Interp

namespace Taurex.Loaders
open Taurex.Interp

/-! ## tables and file contents -/

/-- loaded cross-section table: `wavenumberGrid`, `temperatureGrid`, `pressureGrid` (Pa), `xsecGrid` [P][T][wn] -/
structure XTab (α : Type) where
  wn : List α
  t : List α
  p : List α
  x : List (List (List α))
  deriving Repr, DecidableEq

/-- `.pickle` cross-sections: dict with keys `wno`, `t`, `p` (bar), `xsecarr` -/
structure PickleX (α : Type) where
  wno : List α
  t : List α
  p : List α
  xsecarr : List (List (List α))
  deriving Repr, DecidableEq

/-- HDF5 cross-sections: datasets `bin_edges`, `t`, `p` (+ attribute `units`), `xsecarr`, `mol_name` -/
structure HdfX (α : Type) where
  binEdges : List α
  t : List α
  p : List α
  units : String
  xsecarr : List (List (List α))
  molName : String
  deriving Repr, DecidableEq

/-- Exo-Transmit text file: the numbers of line 0 (temperatures), of line 1 (pressures, bar) and of each
    further line (`body`): a one-number line is a wavelength in m, any other line is `P xsec(T₀) xsec(T₁) …` in m² -/
structure ExoFile (α : Type) where
  trow : List α
  prow : List α
  body : List (List α)
  deriving Repr, DecidableEq

/-- loaded CIA table: wavenumber grid, temperature grid, table [T][wn] -/
structure CTab (α : Type) where
  wn : List α
  t : List α
  x : List (List α)
  deriving Repr, DecidableEq

/-- `.db` CIA pickle: dict with keys `wno`, `t`, `xsecarr` -/
structure PickleC (α : Type) where
  wno : List α
  t : List α
  xsecarr : List (List α)
  deriving Repr, DecidableEq

/-- one block of a HITRAN `.cia` file: the header fields and the `npts` data lines `wn sigma` -/
structure HBlock (α : Type) where
  pair : String
  wn0 : α
  wn1 : α
  temp : α
  maxcia : α
  pts : List (α × α)
  deriving Repr, DecidableEq

/-- loaded k-table: axes, `xsecGrid` [P][T][wn][g], quadrature weights -/
structure KTab (α : Type) where
  wn : List α
  t : List α
  p : List α
  k : List (List (List (List α)))
  weights : List α
  deriving Repr, DecidableEq

/-- pickle k-table: `bin_centers`, `ngauss`, `t`, `p` (bar), `kcoeff`, `weights`, `name` -/
structure PickleK (α : Type) where
  binCenters : List α
  ngauss : Nat
  t : List α
  p : List α
  kcoeff : List (List (List (List α)))
  weights : List α
  name : String
  deriving Repr, DecidableEq

/-- HDF5 k-table: `bin_centers`, `ngauss`, `t`, `p` (+ `units`), `kcoeff`, `weights` -/
structure HdfK (α : Type) where
  binCenters : List α
  ngauss : Nat
  t : List α
  p : List α
  units : String
  kcoeff : List (List (List (List α)))
  weights : List α
  deriving Repr, DecidableEq

section
variable {α : Type} [Add α] [Sub α] [Mul α] [Div α] [Neg α] [LT α] [LE α]
  [DecidableLT α] [DecidableLE α]
  [OfNat α 0] [OfNat α 1] [OfNat α 10] [OfNat α 100] [OfNat α 760] [OfNat α 1000] [OfNat α 10000]
  [OfNat α 100000] [OfNat α 101325] [OfNat α 1000000] [OfNat α 1000000000] [OfNat α 10000000000]
  [OfNat α 133322387415]

/-! ## small list helpers (numpy calls) -/

/-- `np.argsort(keys)` for pairwise distinct keys (merge sort of the indexed keys; stable) -/
def argsort (keys : List α) : List Nat :=
  ((keys.zipIdx).mergeSort (fun a b => decide (a.1 ≤ b.1))).map (·.2)

/-- fancy indexing `l[perm]` -/
def gather (l : List α) (perm : List Nat) : List α := perm.map (fun i => l.getD i 0)

/-- `min(l)` / `l.min()` -/
def lmin (l : List α) : α := l.foldl (fun a b => if b < a then b else a) (l.headD 0)
/-- `max(l)` / `l.max()` -/
def lmax (l : List α) : α := l.foldl (fun a b => if a < b then b else a) (l.headD 0)

/-- `a == b` on the carrier, through the order (IEEE `==` on `Float`) -/
def eqv (a b : α) : Bool := decide (a ≤ b) && decide (b ≤ a)

/-- `x in l` -/
def memv (x : α) (l : List α) : Bool := l.any (fun y => eqv x y)

/-! ## pressure units (astropy `u.Unit(name).to(u.Pa)`; `cds` = the fall-back parser `format="cds"`) -/

/-- factor to Pa of the unit names the default astropy parser accepts -/
def unitDirect (name : String) : Option α :=
  if name = "Pa" then some 1
  else if name = "bar" then some 100000
  else if name = "mbar" then some 100
  else if name = "hPa" then some 100
  else if name = "kPa" then some 1000
  else if name = "MPa" then some 1000000
  else if name = "Torr" then some (101325 / 760)
  else if name = "Ba" then some (1 / 10)
  else none

/-- names only the CDS parser knows -/
def unitCds (name : String) : Option α :=
  if name = "atm" then some 101325
  else if name = "mmHg" then some (133322387415 / 1000000000)
  else none

/-- the conversion the reader ends up with: `try Unit(name) except <E>: Unit(name, format="cds")`.
    `fallback` says whether the `except` clause catches the parse failure (`ValueError`): both readers do
    (hdfktable.py: bare `except`; hdf5opacity.py: `except (UnitConversionError, ValueError)` since the fix). -/
def unitFactor (fallback : Bool) (name : String) : Option α :=
  match unitDirect name with
  | some f => some f
  | none => if fallback then unitCds name else none

/-! ## cross-sections -/

/-- `PickleOpacity._load_pickle_file`: `p*1e5`, everything else as stored -/
def decPickle (f : PickleX α) : XTab α :=
  { wn := f.wno, t := f.t, p := f.p.map (fun v => v * 100000), x := f.xsecarr }

def encPickle (tab : XTab α) : PickleX α :=
  { wno := tab.wn, t := tab.t, p := tab.p.map (fun v => v / 100000), xsecarr := tab.x }

/-- `HDF5Opacity._load_hdf_file`: `bin_edges` is the wavenumber grid, `p[:]*p_conversion`;
    `none` when the unit does not convert (the reader raises) -/
def decHdf (f : HdfX α) : Option (XTab α) :=
  match unitFactor true f.units with
  | none => none
  | some c => some { wn := f.binEdges, t := f.t, p := f.p.map (fun v => v * c), x := f.xsecarr }

/-- the layout for a unit whose factor is `c` -/
def encHdf (units : String) (c : α) (molName : String) (tab : XTab α) : HdfX α :=
  { binEdges := tab.wn, t := tab.t, p := tab.p.map (fun v => v / c), units := units, xsecarr := tab.x,
    molName := molName }

/-- group `lines[2:]`: a one-number line opens the block of a wavelength, every other line is a row of it -/
def exoGroupStep (l : List α) (acc : List (List α) × List (α × List (List α))) :
    List (List α) × List (α × List (List α)) :=
  match l with
  | [lam] => ([], (lam, acc.1) :: acc.2)
  | row => (row :: acc.1, acc.2)

def exoGroup (body : List (List α)) : List (α × List (List α)) :=
  (body.foldr exoGroupStep ([], [])).2

/-- `wn = 10000*1e-6/lambda` -/
def exoWn (lam : α) : α := (10000 * (1 / 1000000)) / lam

/-- `ExoTransmitOpacity._load_exo_transmit`; `tiny` is the `1e-60` added to every entry -/
def decExo (tiny : α) (f : ExoFile α) : XTab α :=
  let blocks := exoGroup f.body
  let wn0 := blocks.map (fun b => exoWn b.1)
  let perm := argsort wn0
  let raw : Nat → Nat → Nat → α := fun i j k =>
    (((blocks.getD k (0, [])).2.getD i []).getD (j + 1) 0) + tiny
  { wn := gather wn0 perm
    t := f.trow
    p := f.prow.map (fun v => v * 100000)
    x := (List.range f.prow.length).map fun i =>
           (List.range f.trow.length).map fun j =>
             perm.map fun k => raw i j k * 10000 }

/-- Exo-Transmit layout of a table: wavelengths ascending (wavenumbers descending), rows `P(bar) xsec(T)…` in m² -/
def encExo (tab : XTab α) : ExoFile α :=
  { trow := tab.t
    prow := tab.p.map (fun v => v / 100000)
    body := ((List.range tab.wn.length).reverse).flatMap fun k =>
      [exoWn (tab.wn.getD k 0)] ::
        (List.range tab.p.length).map fun i =>
          (tab.p.getD i 0 / 100000) ::
            (List.range tab.t.length).map fun j => (((tab.x.getD i []).getD j []).getD k 0) / 10000 }

/-- the P×T table of wavenumber index `k` -/
def XTab.slice (tab : XTab α) (k : Nat) : List (List α) :=
  tab.x.map fun row => row.map fun col => col.getD k 0

variable [Transc α]

/-- `Opacity.opacity(T, P)` on the native grid: one value per wavenumber (m²) -/
def XTab.opacity (tab : XTab α) (mode : Mode) (t p : α) : List α :=
  (List.range tab.wn.length).map fun k => computeOpacity mode tab.t tab.p (tab.slice k) t p

/-! ## k-tables -/

def decPickleK (f : PickleK α) : KTab α :=
  { wn := f.binCenters, t := f.t, p := f.p.map (fun v => v * 100000), k := f.kcoeff, weights := f.weights }

def encPickleK (name : String) (tab : KTab α) : PickleK α :=
  { binCenters := tab.wn, ngauss := tab.weights.length, t := tab.t, p := tab.p.map (fun v => v / 100000),
    kcoeff := tab.k, weights := tab.weights, name := name }

def decHdfK (f : HdfK α) : Option (KTab α) :=
  match unitFactor true f.units with
  | none => none
  | some c => some { wn := f.binCenters, t := f.t, p := f.p.map (fun v => v * c), k := f.kcoeff,
                     weights := f.weights }

def encHdfK (units : String) (c : α) (tab : KTab α) : HdfK α :=
  { binCenters := tab.wn, ngauss := tab.weights.length, t := tab.t, p := tab.p.map (fun v => v / c),
    units := units, kcoeff := tab.k, weights := tab.weights }

/-- the P×T table of wavenumber index `k`, g-point `g` -/
def KTab.slice (tab : KTab α) (k g : Nat) : List (List α) :=
  tab.k.map fun row => row.map fun col => (col.getD k []).getD g 0

/-- `KTable.opacity(T, P)` on the native grid: `[wn][g]` -/
def KTab.opacity (tab : KTab α) (mode : Mode) (t p : α) : List (List α) :=
  (List.range tab.wn.length).map fun k =>
    (List.range tab.weights.length).map fun g => computeOpacity mode tab.t tab.p (tab.slice k g) t p

/-! ## collision-induced absorption -/

omit [Transc α] in
def decPickleC (f : PickleC α) : CTab α := { wn := f.wno, t := f.t, x := f.xsecarr }

omit [Transc α] in
def encPickleC (tab : CTab α) : PickleC α := { wno := tab.wn, t := tab.t, xsecarr := tab.x }

/-- `_sig = float(s)*1e-10; if _sig < 0: _sig = 0` -/
def clipSigma (s : α) : α :=
  let v := s * (1 / 10000000000)
  if v < 0 then 0 else v

/-- a `HitranCiaGrid`: its hash key (start, end), the wavenumbers of the block read last, the `Tsigma` list -/
structure HGrid (α : Type) where
  key : α × α
  wn : List α
  ts : List (α × List α)

def keyEq (a b : α × α) : Bool := eqv a.1 b.1 && eqv a.2 b.2

/-- `wn_obj.add_temperature(T, sigma); wn_obj.wn = wn` on the grid with this key (appended when new) -/
def upsert (grids : List (HGrid α)) (key : α × α) (wn : List α) (e : α × List α) : List (HGrid α) :=
  if grids.any (fun g => keyEq g.key key) then
    grids.map fun g => if keyEq g.key key then { g with wn := wn, ts := g.ts ++ [e] } else g
  else grids ++ [{ key := key, wn := wn, ts := [e] }]

/-- the reading loop of `load_hitran_file`: (temp_list in order of first appearance, the grids) -/
def hLoad (blocks : List (HBlock α)) : List α × List (HGrid α) :=
  blocks.foldl (fun (acc : List α × List (HGrid α)) b =>
    let tl := if memv b.temp acc.1 then acc.1 else acc.1 ++ [b.temp]
    (tl, upsert acc.2 (b.wn0, b.wn1) (b.pts.map (·.1)) (b.temp, b.pts.map (fun q => clipSigma q.2)))) ([], [])

/-- `Tsigma.sort(key=itemgetter(0))` -/
def sortTs (ts : List (α × List α)) : List (α × List α) :=
  ts.mergeSort (fun a b => decide (a.1 ≤ b.1))

/-- one iteration of the loop of `HitranCiaGrid.fill_temperature`; `tmin`, `tmax` are the extremes of the
    range's own temperatures, taken once before the loop -/
def fillOne (wn : List α) (tmin tmax : α) (ts : List (α × List α)) (t : α) : List (α × List α) :=
  let temps := ts.map (·.1)
  if memv t temps then ts
  else if t < tmin || tmax < t then sortTs (ts ++ [(t, wn.map (fun _ => 0))])
  else
    let i := searchRight temps t - 1
    let a := ts.getD i (0, [])
    let b := ts.getD (i + 1) (0, [])
    sortTs (ts ++ [(t, List.zipWith (fun u v => interpLin u v t a.1 b.1) a.2 b.2)])

/-- `fill_temperature(master grid)` on a grid whose `Tsigma` is already sorted -/
def fillTemperature (wn : List α) (ts : List (α × List α)) (temps : List α) : List (α × List α) :=
  let own := ts.map (·.1)
  temps.foldl (fillOne wn (lmin own) (lmax own)) ts

/-- `fill_gaps`: per grid `sortTempSigma` then `fill_temperature(master grid)` -/
def fillGaps (temps : List α) (grids : List (HGrid α)) : List (HGrid α) :=
  grids.map fun g => { g with ts := fillTemperature g.wn (sortTs g.ts) temps }

/-- `compute_final_grid` -/
def finalGrid (temps : List α) (grids : List (HGrid α)) : CTab α :=
  let wnAll := grids.flatMap (·.wn)
  let perm := argsort wnAll
  { wn := gather wnAll perm
    t := temps
    x := (List.range temps.length).map fun idx =>
      gather (grids.flatMap fun g => (g.ts.getD idx (0, [])).2) perm }

/-- `HitranCIA.load_hitran_file` -/
def decHitran (blocks : List (HBlock α)) : CTab α :=
  let (tl, grids) := hLoad blocks
  let temps := tl.mergeSort (fun a b => decide (a ≤ b))
  finalGrid temps (fillGaps temps grids)

/-! ### specification: the documented unified table of a HITRAN file with several wavenumber ranges -/

/-- the documented cross-sections of ONE wavenumber range at temperature `T`, computed from the range's OWN tabulated
    rows `own` (sorted by temperature) only: the tabulated row if `T` is one of the range's temperatures; zero outside
    the range's temperature span; otherwise the linear interpolation in `T` between the two tabulated rows whose
    temperatures bracket `T` -/
def rangeRow (wn : List α) (own : List (α × List α)) (T : α) : List α :=
  let temps := own.map (·.1)
  let i := searchRight temps T - 1
  let a := own.getD i (0, [])
  if memv T temps then a.2
  else if T < lmin temps || lmax temps < T then wn.map (fun _ => 0)
  else
    let b := own.getD (i + 1) (0, [])
    List.zipWith (fun u v => interpLin u v T a.1 b.1) a.2 b.2

/-- the documented unified table of the ranges `grids` on the master temperature list `temps`: wavenumber axis = the
    ranges' wavenumbers concatenated (order of first appearance in the file) and sorted; the row of temperature `T` =
    the ranges' documented rows at `T` concatenated and permuted alike -/
def unifiedTable (temps : List α) (grids : List (HGrid α)) : CTab α :=
  let wnAll := grids.flatMap (·.wn)
  let perm := argsort wnAll
  { wn := gather wnAll perm
    t := temps
    x := temps.map fun T => gather (grids.flatMap fun g => rangeRow g.wn (sortTs g.ts) T) perm }

/-- the documented table of a HITRAN file: master temperature list = the sorted union of the block temperatures, the
    ranges = the blocks grouped by their `(start, end)` header (`hLoad`) -/
def hitranUnified (blocks : List (HBlock α)) : CTab α :=
  let (tl, grids) := hLoad blocks
  unifiedTable (tl.mergeSort (fun a b => decide (a ≤ b))) grids

/-- HITRAN layout of a CIA table: one block per temperature over the whole wavenumber range, values in
    cm⁵/molecule² ×1e10 -/
def encHitran (pair : String) (tab : CTab α) : List (HBlock α) :=
  List.zipWith (fun T row =>
    { pair := pair, wn0 := tab.wn.headD 0, wn1 := tab.wn.getLastD 0, temp := T, maxcia := lmax row,
      pts := List.zip tab.wn (row.map (fun s => s / (1 / 10000000000))) }) tab.t tab.x

/-- `PickleCIA.compute_cia` = `HitranCIA.compute_cia`: clamp outside the temperature grid, else linear in T -/
def ciaCompute (c : CTab α) (T : α) : List α :=
  if lmax c.t < T then c.x.getLastD []
  else if T < lmin c.t then c.x.headD []
  else
    let (l, r) := findClosestPair c.t T
    List.zipWith (fun u v => interpLin u v T (c.t.getD l 0) (c.t.getD r 0)) (c.x.getD l []) (c.x.getD r [])

end

end Taurex.Loaders
