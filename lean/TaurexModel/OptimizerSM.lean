/-
  State-machine model of the retrieval set-up in `taurex/optimizer/optimizer.py` (class `Optimizer` and the
  module-level `compile_params`), as the code is after the three `fix:` commits for C07:

    enable_fit / disable_fit / set_mode / set_boundary / set_factor_boundary / set_prior /
    enable_derived / disable_derived / compile_params / update_model
    fit_names / fit_values / fit_boundaries / fitting_priors / derived_names

  What is state:
    * the two parameter tables (`model.fittingParameters`, `observed.fittingParameters`): per parameter
      name, mode, fit flag, bounds, and the current value behind its getter/setter;
    * the two derived-parameter tables (name, compute flag);
    * `_user_priors` (priors set with `set_prior`), `_fit_priors` (name -> prior used by `fit_names`);
    * the result of the last compilation: `fitting_parameters` (snapshots of the tuples; getter/setter stay
      live), `fitting_priors`, `derived_parameters`.
  Names are an arbitrary type with decidable equality (`String` in the driver); values are carrier-polymorphic.
  Errors are outputs (`Out`), the state is returned as the code leaves it.

  `stepPinned` is the pre-fix behaviour of `compile_params` / `set_prior` (default priors cached in `_fit_priors`
  across compilations), kept only to state the regression witness.
-/
import TaurexModel.Priors

namespace Taurex.OptimizerSM
open Taurex.Priors

inductive Owner where
  | model
  | obs
  deriving DecidableEq, Repr

inductive Out where
  | ok
  | keyError
  | valueError
  deriving DecidableEq, Repr

/-- one entry of a `fittingParameters` dict: `(name, latex, fget, fset, mode, to_fit, bounds)`;
    `value` is what `fget()` returns / `fset` stores -/
structure Param (ν α : Type) where
  name : ν
  mode : FitMode
  fit : Bool
  b0 : α
  b1 : α
  value : α
  deriving Repr, DecidableEq

/-- one entry of a `derivedParameters` dict: `(name, latex, fget, compute)` -/
structure Derived (ν : Type) where
  name : ν
  compute : Bool
  deriving Repr, DecidableEq

/-- one element of `Optimizer.fitting_parameters`: the tuple as it was when compiled (mode and bounds are
    snapshots) together with the object that owns its getter and setter -/
structure Entry (ν α : Type) where
  owner : Owner
  name : ν
  mode : FitMode
  b0 : α
  b1 : α
  deriving Repr, DecidableEq

/-- a `dict` name -> prior (insertion ordered) -/
abbrev Table (ν α : Type) := List (ν × Prior α)

structure St (ν α : Type) where
  model : List (Param ν α)
  obs : List (Param ν α)
  dmodel : List (Derived ν)
  dobs : List (Derived ν)
  userPriors : Table ν α
  fitPriors : Table ν α
  compiled : List (Entry ν α)
  compiledPriors : List (Prior α)
  derivedCompiled : List ν
  deriving Repr, DecidableEq

/-- the operations of the property's quantifier -/
inductive Op (ν α : Type) where
  | enableFit (n : ν)
  | disableFit (n : ν)
  | setMode (n : ν) (m : String)
  | setBoundary (n : ν) (b0 b1 : α)
  | setFactorBoundary (n : ν) (f0 f1 : α)
  | setPrior (n : ν) (p : Prior α)
  | enableDerived (n : ν)
  | disableDerived (n : ν)
  | compile
  | updateModel (v : List α)
  deriving Repr

section
variable {ν α : Type} [DecidableEq ν]

/-- `dict.get` -/
def tget : Table ν α → ν → Option (Prior α)
  | [], _ => none
  | (k, p) :: t, n => if k = n then some p else tget t n

/-- `dict[n] = p` -/
def tset : Table ν α → ν → Prior α → Table ν α
  | [], n, p => [(n, p)]
  | (k, q) :: t, n, p => if k = n then (k, p) :: t else (k, q) :: tset t n p

/-- `n in table` -/
def hasName (ps : List (Param ν α)) (n : ν) : Bool := ps.any (fun p => decide (p.name = n))

def hasDerived (ds : List (Derived ν)) (n : ν) : Bool := ds.any (fun d => decide (d.name = n))

/-- `obj = self._model if parameter in self._model.fittingParameters else self._observed` -/
def ownerOf (s : St ν α) (n : ν) : Owner := if hasName s.model n then .model else .obs

def table (s : St ν α) : Owner → List (Param ν α)
  | .model => s.model
  | .obs => s.obs

def setTable (s : St ν α) (o : Owner) (ps : List (Param ν α)) : St ν α :=
  match o with
  | .model => { s with model := ps }
  | .obs => { s with obs := ps }

/-- rewrite the tuple stored under `n` -/
def modifyParam (ps : List (Param ν α)) (n : ν) (f : Param ν α → Param ν α) : List (Param ν α) :=
  ps.map (fun p => if p.name = n then f p else p)

/-- the common shape of enable_fit / disable_fit / set_boundary / set_factor_boundary:
    pick the owner, `obj.fittingParameters[parameter]` (KeyError if absent), store the rewritten tuple -/
def withParam (s : St ν α) (n : ν) (f : Param ν α → Param ν α) : St ν α × Out :=
  let o := ownerOf s n
  if hasName (table s o) n then (setTable s o (modifyParam (table s o) n f), .ok)
  else (s, .keyError)

/-- enable_derived / disable_derived -/
def withDerived (s : St ν α) (n : ν) (c : Bool) : St ν α × Out :=
  let f : Derived ν → Derived ν := fun d => if d.name = n then { d with compute := c } else d
  if hasDerived s.dmodel n then ({ s with dmodel := s.dmodel.map f }, .ok)
  else if hasDerived s.dobs n then ({ s with dobs := s.dobs.map f }, .ok)
  else (s, .keyError)

/-- `new_mode.lower()` followed by the membership test in `('log', 'linear')` -/
def parseMode (m : String) : Option FitMode :=
  let l := m.toLower
  if l == "log" then some .log else if l == "linear" then some .linear else none

/-- `fget()` of a compiled entry -/
def getValue (s : St ν α) (o : Owner) (n : ν) : Option α :=
  ((table s o).find? (fun p => decide (p.name = n))).map (·.value)

/-- `fset(x)` of a compiled entry -/
def setValue (s : St ν α) (o : Owner) (n : ν) (x : α) : St ν α :=
  setTable s o (modifyParam (table s o) n (fun p => { p with value := x }))

def entryOf (o : Owner) (p : Param ν α) : Entry ν α := ⟨o, p.name, p.mode, p.b0, p.b1⟩

/-- names of the derived parameters with `compute` set, in table order -/
def derivedOf (ds : List (Derived ν)) : List ν := (ds.filter (·.compute)).map (·.name)

variable [LT α] [DecidableLT α] [OfNat α 0] [Mul α] [Transc α]

/-- module-level `compile_params(fitparams, driveparams, fit_priors)`, fitting part: walk the table in order,
    keep the parameters with the fit flag, take the prior from `tbl` or build the default one (and record it).
    `none` = the `ValueError` of `math.log10` inside `LogUniform(lin_bounds=bounds)`. -/
def compileTable (o : Owner) : List (Param ν α) → Table ν α →
    Option (List (Entry ν α) × List (Prior α) × Table ν α)
  | [], tbl => some ([], [], tbl)
  | p :: ps, tbl =>
    if p.fit then
      match tget tbl p.name with
      | some pr =>
        (compileTable o ps tbl).map (fun r => (entryOf o p :: r.1, pr :: r.2.1, r.2.2))
      | none =>
        match defaultPrior p.mode p.b0 p.b1 with
        | none => none
        | some pr =>
          (compileTable o ps (tset tbl p.name pr)).map (fun r => (entryOf o p :: r.1, pr :: r.2.1, r.2.2))
    else compileTable o ps tbl

/-- `Optimizer.compile_params()`: reset, start from the user priors only, model table then observation table.
    On a `ValueError` the attributes are left as assigned so far. -/
def compile (s : St ν α) : St ν α × Out :=
  let s0 : St ν α := { s with compiled := [], compiledPriors := [], derivedCompiled := [],
                              fitPriors := s.userPriors }
  match compileTable .model s.model s.userPriors with
  | none => (s0, .valueError)
  | some (es, ps, t) =>
    let s1 : St ν α := { s0 with compiled := es, compiledPriors := ps, derivedCompiled := derivedOf s.dmodel,
                                 fitPriors := t }
    match compileTable .obs s.obs t with
    | none => (s1, .valueError)
    | some (es', ps', t') =>
      ({ s1 with compiled := es ++ es', compiledPriors := ps ++ ps',
                 derivedCompiled := derivedOf s.dmodel ++ derivedOf s.dobs, fitPriors := t' }, .ok)

/-- the loop of `update_model`: `fset(priors.prior(value))` over `zip(fit_params, fitting_parameters, fitting_priors)` -/
def applyUpdate : St ν α → List (Entry ν α) → List (Prior α) → List α → St ν α
  | s, e :: es, p :: ps, x :: xs => applyUpdate (setValue s e.owner e.name (p.back x)) es ps xs
  | s, _, _, _ => s

/-- `Optimizer.update_model(fit_params)` -/
def updateModel (s : St ν α) (v : List α) : St ν α × Out :=
  if v.length ≠ s.compiled.length then (s, .valueError)
  else (applyUpdate s s.compiled s.compiledPriors v, .ok)

/-- one operation on the repaired code -/
def step (s : St ν α) : Op ν α → St ν α × Out
  | .enableFit n => withParam s n (fun p => { p with fit := true })
  | .disableFit n => withParam s n (fun p => { p with fit := false })
  | .setMode n m =>
    let o := ownerOf s n
    if hasName (table s o) n then
      match parseMode m with
      | none => (s, .valueError)
      | some md => (setTable s o (modifyParam (table s o) n (fun p => { p with mode := md })), .ok)
    else (s, .keyError)
  | .setBoundary n b0 b1 => withParam s n (fun p => { p with b0 := b0, b1 := b1 })
  | .setFactorBoundary n f0 f1 => withParam s n (fun p => { p with b0 := f0 * p.value, b1 := f1 * p.value })
  | .setPrior n p =>
    let o := ownerOf s n
    if hasName (table s o) n then
      ({ s with userPriors := tset s.userPriors n p, fitPriors := tset s.fitPriors n p }, .ok)
    else (s, .valueError)
  | .enableDerived n => withDerived s n true
  | .disableDerived n => withDerived s n false
  | .compile => compile s
  | .updateModel v => updateModel s v

/-- a whole history -/
def run (s : St ν α) : List (Op ν α) → St ν α
  | [] => s
  | op :: ops => run (step s op).1 ops

/-! ### observers -/

/-- value of a compiled entry in the space of its prior; `none` = `ValueError` of `math.log10` -/
def reportValue (s : St ν α) (e : Entry ν α) (p : Prior α) : Option α :=
  match getValue s e.owner e.name with
  | none => none
  | some v =>
    match p.mode with
    | .linear => some v
    | .log => log10? v

/-- `Optimizer.fit_values` -/
def fitValuesAux (s : St ν α) : List (Entry ν α) → List (Prior α) → Option (List α)
  | e :: es, p :: ps =>
    match reportValue s e p, fitValuesAux s es ps with
    | some v, some vs => some (v :: vs)
    | _, _ => none
  | _, _ => some []

def fitValues (s : St ν α) : Option (List α) := fitValuesAux s s.compiled s.compiledPriors

/-- bounds of a compiled entry in the space of its prior -/
def reportBounds (e : Entry ν α) (p : Prior α) : Option (α × α) :=
  match p.mode with
  | .linear => some (e.b0, e.b1)
  | .log =>
    match log10? e.b0, log10? e.b1 with
    | some a, some b => some (a, b)
    | _, _ => none

/-- `Optimizer.fit_boundaries` -/
def fitBoundariesAux : List (Entry ν α) → List (Prior α) → Option (List (α × α))
  | e :: es, p :: ps =>
    match reportBounds e p, fitBoundariesAux es ps with
    | some v, some vs => some (v :: vs)
    | _, _ => none
  | _, _ => some []

def fitBoundaries (s : St ν α) : Option (List (α × α)) := fitBoundariesAux s.compiled s.compiledPriors

/-- `Optimizer.fit_names`: `(is-log, name)` stands for `'log_' + name` / `name`; `none` = KeyError of `_fit_priors[name]` -/
def fitNamesAux (t : Table ν α) : List (Entry ν α) → Option (List (Bool × ν))
  | [] => some []
  | e :: es =>
    match tget t e.name, fitNamesAux t es with
    | some p, some r => some ((decide (p.mode = .log), e.name) :: r)
    | _, _ => none

def fitNames (s : St ν α) : Option (List (Bool × ν)) := fitNamesAux s.fitPriors s.compiled

/-! ### the specification: what the current settings imply -/

/-- the settings: everything the user can set, nothing that a compilation produced -/
structure Settings (ν α : Type) where
  model : List (Param ν α)
  obs : List (Param ν α)
  dmodel : List (Derived ν)
  dobs : List (Derived ν)
  userPriors : Table ν α

def settings (s : St ν α) : Settings ν α := ⟨s.model, s.obs, s.dmodel, s.dobs, s.userPriors⟩

/-- what a compilation produces -/
structure View (ν α : Type) where
  entries : List (Entry ν α)
  priors : List (Prior α)
  derived : List ν

def view (s : St ν α) : View ν α := ⟨s.compiled, s.compiledPriors, s.derivedCompiled⟩

/-- the row a fitted parameter must get: its own tuple, and the user's prior if one was set,
    otherwise the default prior of its *current* mode and bounds -/
def impliedRow (user : Table ν α) (o : Owner) (p : Param ν α) : Option (Entry ν α × Prior α) :=
  match tget user p.name with
  | some pr => some (entryOf o p, pr)
  | none => (defaultPrior p.mode p.b0 p.b1).map (fun pr => (entryOf o p, pr))

def impliedRows (user : Table ν α) (o : Owner) : List (Param ν α) → Option (List (Entry ν α × Prior α))
  | [] => some []
  | p :: ps =>
    if p.fit then
      match impliedRow user o p, impliedRows user o ps with
      | some r, some rs => some (r :: rs)
      | _, _ => none
    else impliedRows user o ps

/-- `implied`: names, order, bounds snapshots, priors and derived names as a function of the settings alone
    (model table first, then the observation table; a default prior that cannot be built is a `ValueError`
    and leaves what was assigned before it) -/
def implied (σ : Settings ν α) : View ν α × Out :=
  match impliedRows σ.userPriors .model σ.model with
  | none => (⟨[], [], []⟩, .valueError)
  | some rm =>
    match impliedRows σ.userPriors .obs σ.obs with
    | none => (⟨rm.map (·.1), rm.map (·.2), derivedOf σ.dmodel⟩, .valueError)
    | some ro => (⟨rm.map (·.1) ++ ro.map (·.1), rm.map (·.2) ++ ro.map (·.2),
                   derivedOf σ.dmodel ++ derivedOf σ.dobs⟩, .ok)

/-- reported names implied by a view: the `log_` prefix follows the prior of the same row -/
def impliedNames (v : View ν α) : List (Bool × ν) :=
  List.zipWith (fun e p => (decide (Prior.mode p = .log), e.name)) v.entries v.priors

/-! ### the pre-fix behaviour (regression witness only) -/

/-- pinned `compile_params`: `_fit_priors` is *not* reset, so defaults cached by an earlier compilation win -/
def compilePinned (s : St ν α) : St ν α × Out :=
  let s0 : St ν α := { s with compiled := [], compiledPriors := [], derivedCompiled := [] }
  match compileTable .model s.model s.fitPriors with
  | none => (s0, .valueError)
  | some (es, ps, t) =>
    let s1 : St ν α := { s0 with compiled := es, compiledPriors := ps, derivedCompiled := derivedOf s.dmodel,
                                 fitPriors := t }
    match compileTable .obs s.obs t with
    | none => (s1, .valueError)
    | some (es', ps', t') =>
      ({ s1 with compiled := es ++ es', compiledPriors := ps ++ ps',
                 derivedCompiled := derivedOf s.dmodel ++ derivedOf s.dobs, fitPriors := t' }, .ok)

def stepPinned (s : St ν α) : Op ν α → St ν α × Out
  | .compile => compilePinned s
  | op => step s op

def runPinned (s : St ν α) : List (Op ν α) → St ν α
  | [] => s
  | op :: ops => runPinned (stepPinned s op).1 ops

end

/-- a fresh optimizer over the two objects -/
def initSt {ν α : Type} (model obs : List (Param ν α)) (dmodel dobs : List (Derived ν)) : St ν α :=
  ⟨model, obs, dmodel, dobs, [], [], [], [], []⟩

end Taurex.OptimizerSM
