/-
  Model of the opacity interpolation in (T, P):
    taurex/util/util.py:find_closest_pair
    taurex/util/math.py:interp_lin_numba, intepr_bilin_numba_II, interp_exp_numpy, interp_exp_and_lin_numpy
    taurex/opacity/interpolateopacity.py:interp_bilinear_grid, compute_opacity
  One wavenumber (and, for k-tables, one g-point) at a time: the code is point-wise in those axes.
-/
import TaurexModel.Num

namespace Taurex.Interp

section
variable {α : Type} [Add α] [Sub α] [Mul α] [Div α] [Neg α] [LT α] [LE α]
  [DecidableLT α] [DecidableLE α]

/-- `np.searchsorted(arr, v)` (side = 'left') on a sorted array: the number of elements `< v`. -/
def searchLeft (arr : List α) (v : α) : Nat := arr.countP (fun a => decide (a < v))

/-- `np.searchsorted(arr, v, side='right')` on a sorted array: the number of elements `≤ v`. -/
def searchRight (arr : List α) (v : α) : Nat := arr.countP (fun a => decide (a ≤ v))

/-- `find_closest_pair`: `right = max(min(n-1, searchsorted), 1)`, `left = max(0, right-1)`. -/
def findClosestPair (arr : List α) (v : α) : Nat × Nat :=
  let r := max (min (arr.length - 1) (searchLeft arr v)) 1
  (r - 1, r)

/-- `interp_lin_numba(x11, x12, P, Pmin, Pmax)` -/
def interpLin (x11 x12 p pmin pmax : α) : α :=
  x11 - ((p - pmin) / (pmax - pmin)) * (x11 - x12)

/-- `intepr_bilin_numba_II`; `x11`=(Pmin,Tmin) `x12`=(Pmin,Tmax) `x21`=(Pmax,Tmin) `x22`=(Pmax,Tmax) -/
def interpBilin (x11 x12 x21 x22 t tmin tmax p pmin pmax : α) : α :=
  let ps := (p - pmin) / (pmax - pmin)
  let ts := (t - tmin) / (tmax - tmin)
  x11 - ps * (x11 - x21) - ps * ts * (x21 - x11 + x12 - x22) - ts * (x11 - x12)

variable [Transc α]

/-- `interp_exp_numpy(x11, x12, T, Tmin, Tmax)` -/
def interpExp (x11 x12 t tmin tmax : α) : α :=
  x11 * exp (tmax * (-t + tmin) * log (x11 / x12) / (t * (tmax - tmin)))

/-- `interp_exp_and_lin_numpy` -/
def interpExpLin (x11 x12 x21 x22 t tmin tmax p pmin pmax : α) : α :=
  let a := x11 * (pmax - pmin) - (p - pmin) * (x11 - x21)
  let b := x12 * (pmax - pmin) - (p - pmin) * (x12 - x22)
  a * exp (tmax * (-t + tmin) * log (a / b) / (t * (tmax - tmin))) / (pmax - pmin)

inductive Mode where
  | linear
  | exp
  deriving DecidableEq, Repr

variable [OfNat α 0]

/-- table entry `xsecGrid[i, j]` (pressure index, temperature index) -/
def at2 (tab : List (List α)) (i j : Nat) : α := (tab.getD i []).getD j 0

/-- `interp_temp_only(T, tl, tr, P_index)` -/
def interpTempOnly (mode : Mode) (tg : List α) (tab : List (List α)) (t : α) (tl tr pi : Nat) : α :=
  match mode with
  | .linear => interpLin (at2 tab pi tl) (at2 tab pi tr) t (tg.getD tl 0) (tg.getD tr 0)
  | .exp => interpExp (at2 tab pi tl) (at2 tab pi tr) t (tg.getD tl 0) (tg.getD tr 0)

/-- `interp_pressure_only(P, pl, pr, T_index)` (always linear in log10 P) -/
def interpPressOnly (pg : List α) (tab : List (List α)) (p : α) (pl pr ti : Nat) : α :=
  interpLin (at2 tab pl ti) (at2 tab pr ti) p (pg.getD pl 0) (pg.getD pr 0)

/-- `interp_bilinear_grid` with the indices from `find_closest_index`; `p` and `pg` are log10 pressures.
    Branch order is the code's (after the `fix:` commit that clamps the mixed corners). -/
def bilinearGrid (mode : Mode) (tg pg : List α) (tab : List (List α)) (t p : α) : α :=
  let tl := (findClosestPair tg t).1
  let tr := (findClosestPair tg t).2
  let pl := (findClosestPair pg p).1
  let pr := (findClosestPair pg p).2
  let nT := tg.length
  let nP := pg.length
  let pMaxC : Bool := decide (pg.getD (nP - 1) 0 ≤ p)
  let tMaxC : Bool := decide (tg.getD (nT - 1) 0 ≤ t)
  let pMinC : Bool := decide (p < pg.getD 0 0)
  let tMinC : Bool := decide (t < tg.getD 0 0)
  if pMaxC && tMaxC then at2 tab (nP - 1) (nT - 1)
  else if pMinC && tMinC then 0
  else if pMaxC then
    if tMinC then at2 tab (nP - 1) 0 else interpTempOnly mode tg tab t tl tr (nP - 1)
  else if tMaxC then
    if pMinC then at2 tab 0 (nT - 1) else interpPressOnly pg tab p pl pr (nT - 1)
  else if pMinC then interpTempOnly mode tg tab t tl tr 0
  else if tMinC then interpPressOnly pg tab p pl pr 0
  else
    match mode with
    | .linear => interpBilin (at2 tab pl tl) (at2 tab pl tr) (at2 tab pr tl) (at2 tab pr tr)
                  t (tg.getD tl 0) (tg.getD tr 0) p (pg.getD pl 0) (pg.getD pr 0)
    | .exp => interpExpLin (at2 tab pl tl) (at2 tab pl tr) (at2 tab pr tl) (at2 tab pr tr)
                  t (tg.getD tl 0) (tg.getD tr 0) p (pg.getD pl 0) (pg.getD pr 0)

/-- the pre-fix dispatch (pinned tree), kept to state and replay defect F1 -/
def bilinearGridPinned (mode : Mode) (tg pg : List α) (tab : List (List α)) (t p : α) : α :=
  let tl := (findClosestPair tg t).1
  let tr := (findClosestPair tg t).2
  let pl := (findClosestPair pg p).1
  let pr := (findClosestPair pg p).2
  let nT := tg.length
  let nP := pg.length
  let pMaxC : Bool := decide (pg.getD (nP - 1) 0 ≤ p)
  let tMaxC : Bool := decide (tg.getD (nT - 1) 0 ≤ t)
  let pMinC : Bool := decide (p < pg.getD 0 0)
  let tMinC : Bool := decide (t < tg.getD 0 0)
  if pMaxC && tMaxC then at2 tab (nP - 1) (nT - 1)
  else if pMinC && tMinC then 0
  else if pMaxC then interpTempOnly mode tg tab t tl tr (nP - 1)
  else if tMaxC then interpPressOnly pg tab p pl pr (nT - 1)
  else if pMinC then interpTempOnly mode tg tab t tl tr 0
  else if tMinC then interpPressOnly pg tab p pl pr 0
  else
    match mode with
    | .linear => interpBilin (at2 tab pl tl) (at2 tab pl tr) (at2 tab pr tl) (at2 tab pr tr)
                  t (tg.getD tl 0) (tg.getD tr 0) p (pg.getD pl 0) (pg.getD pr 0)
    | .exp => interpExpLin (at2 tab pl tl) (at2 tab pl tr) (at2 tab pr tl) (at2 tab pr tr)
                  t (tg.getD tl 0) (tg.getD tr 0) p (pg.getD pl 0) (pg.getD pr 0)

variable [OfNat α 10000]

/-- `compute_opacity(T, P)`: `interp_bilinear_grid(T, log10 P, …) / 10000`;
    `pgPa` is the pressure grid in Pa as stored (the code takes log10 of it). -/
def computeOpacity (mode : Mode) (tg pgPa : List α) (tab : List (List α)) (t pPa : α) : α :=
  bilinearGrid mode tg (pgPa.map log10) tab t (log10 pPa) / 10000

end

end Taurex.Interp
