/-
  Where the target bins of a `FluxBinner` come from when it is not handed a grid directly (C05, observation route):
    taurex/data/spectrum/spectrum.py:BaseSpectrum.create_binner      (ArraySpectrum / ObservedSpectrum / IraclisSpectrum)
    taurex/data/spectrum/taurex.py:TaurexSpectrum._load_from_hdf5     (instrument section of a TauREx output file)
    taurex/instruments/instrumentfile.py:InstrumentFile.__init__     (file of wavelength, noise, wavelength width)
  Each route turns ROWS of a file into the `(wngrid, wngrid_width)` handed to `FluxBinner.__init__`
  (`Binning.targetBins`).  The loading of an observation array itself is `Observation.load` (the model of C17); this file
  adds the instrument file and names the routes.  `rowBin` is the bin a single row declares: centre `10000/wl`, width
  `10000·w/wl²` (`wnwidth_to_wlwidth`, the conversion at the bin centre).
-/
import TaurexModel.Num
import TaurexModel.Binning
import TaurexModel.Observation

namespace Taurex.ObsTargets
open Taurex.Binning Taurex.Observation

section
variable {α : Type} [Add α] [Sub α] [Mul α] [Div α] [Neg α] [LT α] [LE α]
  [DecidableLT α] [DecidableLE α] [OfNat α 0] [OfNat α 1] [OfNat α 2] [OfNat α 10000]

/-- the wavenumber bin one row `(wavelength, …, wavelength width)` declares -/
def rowBin (r : ORow α) : TBin α := { c := 10000 / r.wl, w := 10000 * r.bw / (r.wl * r.wl) }

/-- `InstrumentFile.__init__` for a file with a width column; `ORow.e` holds the noise column, `ORow.bw` the width column:
    `sortedwl = wl.argsort()[::-1]`, `_wngrid = 10000/_wlgrid`, `_wlwidths = spectrum[sortedwl, 2]`,
    `_wnwidths = wnwidth_to_wlwidth(_wlgrid, _wlwidths)`, `FluxBinner(_wngrid, wngrid_width=_wnwidths)` -/
def instrumentBinner (rows : List (ORow α)) : List (TBin α) :=
  let sorted := sortRowsDesc rows
  let wl := sorted.map ORow.wl
  let wn := wl.map (fun x => 10000 / x)
  let wnw := List.zipWith widthConv wl (sorted.map ORow.bw)
  targetBins WidthMode.array (List.zipWith (fun c w => ({ c := c, w := w } : TBin α)) wn wnw)

/-- the noise `model_noise` returns next to the binned model: the noise column in the order of the binner's bins -/
def instrumentNoise (rows : List (ORow α)) : List α := (sortRowsDesc rows).map ORow.e

/-- the route by which a binner gets its target bins from file rows -/
inductive Route where
  | array3       -- `ArraySpectrum` / `ObservedSpectrum`, columns (wl, value, error): mid-point widths of the sorted grid
  | array4       -- …, columns (wl, value, error, width)
  | taurex       -- `TaurexSpectrum`: rows `(wn, value, noise, wn width)` of Output/Spectra/instrument_*
  | instrument   -- `InstrumentFile`: rows (wl, noise, width)

/-- the `(_wngrid, _wngrid_width)` of the binner each route builds -/
def routeTargets (rt : Route) (rows : List (ORow α)) : List (TBin α) :=
  match rt with
  | .array3 => (load false rows).createBinner
  | .array4 => (load true rows).createBinner
  | .taurex => (load true (rows.map fromTaurex)).createBinner
  | .instrument => instrumentBinner rows

end

end Taurex.ObsTargets
