/-
  Model of the output layer (property C16).

  Storage part (plain data, polymorphic in the float payload `α`, no arithmetic on it except the
  int→float cast numpy performs when it builds an array from a mixed list):
    taurex/util/util.py : recursively_save_dict_contents_to_output, store_thing, decode_string_array
    taurex/output/output.py : Output.store_dictionary, OutputGroup.write_list
    taurex/output/hdf5.py : HDF5OutputGroup.write_scalar / write_array (incl. the list branch) /
                            write_string / write_string_array (UTF-8, 'S<max(64, longest)>', shape (n,1)) /
                            create_group
    taurex/util/hdf5.py : load_generic_profile_from_hdf5 (how one stored entry is turned back into a value,
                          how constructor keywords are collected), get_klass_args
  Spectrum part (carrier-polymorphic numerics):
    taurex/binning/binner.py : Binner.generate_spectrum_output
    taurex/binning/fluxbinner.py, simplebinner.py, nativebinner.py : generate_spectrum_output overrides
    taurex/util/util.py : compute_bin_edges, wnwidth_to_wlwidth
    taurex/taurexdefs.py : OutputSize (heavy = 6, light = 3, lighter = 1)

  External behaviour assumed (validated by the correspondence on every run):
  * `np.array(list)` builds a numeric array exactly when all elements have the same shape (recursively) and
    are numbers / numeric arrays; the element kind is the widest of bool < int64 < float64; an empty list
    gives a float64 array of shape (0,); everything else either raises ValueError (ragged) or gives an
    object / unicode array that h5py refuses with TypeError — in both cases `store_thing` falls back to
    the `key0, key1, …` expansion;
  * h5py stores a Python `str` as a variable-length UTF-8 string and returns it unchanged; a fixed-width `S<n>`
    cell returns its bytes without trailing NUL bytes; Python's UTF-8 codec is a bijection between strings
    (lists of code points here) and their encodings, a NUL byte being the encoding of U+0000 only — so the
    model keeps the cells as code points and only computes their encoded lengths;
  * names created in one group are distinct (h5py refuses duplicates; a clash between an expansion name
    `key0` and a sibling key is outside the model and goes to the malformed stream).
-/
namespace Taurex.Output

/-- the int → float64 conversion numpy applies when a list mixes ints and floats -/
class OfInt (α : Type) where
  ofInt : Int → α

instance : OfInt Float := ⟨Float.ofInt⟩

/-! ## values and file nodes -/

/-- element storage of a numeric ndarray: the three dtypes the writer meets (bool, int64, float64) -/
inductive ArrData (α : Type) where
  | bools (l : List Bool)
  | ints (l : List Int)
  | floats (l : List α)

/-- a numeric `np.ndarray`: shape and the flattened (C-order) elements -/
structure Arr (α : Type) where
  shape : List Nat
  data : ArrData α

/-- what a result dictionary can hold. Strings are lists of Unicode code points. -/
inductive Value (α : Type) where
  | int (i : Int)                      -- `int`, `np.int64`
  | float (x : α)                      -- `float`, `np.float64`
  | bool (b : Bool)                    -- Python `bool` (an `int` subclass)
  | array (a : Arr α)                  -- numeric `np.ndarray`
  | str (s : List Nat)                 -- `str`
  | list (l : List (Value α))
  | tuple (l : List (Value α))
  | dict (d : List (String × Value α))
  | unsupported                        -- `None`, `np.float32`, `np.bool_`, object/str ndarrays, arbitrary objects

/-- what an HDF5 file holds -/
inductive Node (α : Type) where
  | num (a : Arr α)                    -- numeric dataset; shape `[]` is a scalar dataset
  | vstr (s : List Nat)                -- variable-length UTF-8 string dataset
  | sfix (width : Nat) (rows : List (List Nat))   -- dataset of shape (n,1), dtype 'S<width>' (UTF-8 cells, as
                                       -- the code points they decode to)
  | group (children : List (String × Node α))

inductive Err where
  | unsupported      -- `raise TypeError` in store_thing → `ValueError('Cannot save …')`
  | mixedStringList  -- a list with a `str` and a non-`str`: `AttributeError` (`.encode` of a non-string)
  | notDict          -- store_dictionary called with something that is not a dictionary
  deriving DecidableEq, Repr

/-! ## `np.array(list)` -/

section store
variable {α : Type}

def ArrData.length : ArrData α → Nat
  | .bools l => l.length
  | .ints l => l.length
  | .floats l => l.length

/-- dtype rank: bool < int64 < float64 -/
def ArrData.rank : ArrData α → Nat
  | .bools _ => 0
  | .ints _ => 1
  | .floats _ => 2

def boolToInt (b : Bool) : Int := if b then 1 else 0

/-- `astype`: widen the elements to the dtype of rank `r` (never narrows) -/
def ArrData.widen [OfInt α] (r : Nat) : ArrData α → ArrData α
  | .bools l => if r = 0 then .bools l else if r = 1 then .ints (l.map boolToInt)
                else .floats (l.map (fun b => OfInt.ofInt (boolToInt b)))
  | .ints l => if r ≤ 1 then .ints l else .floats (l.map OfInt.ofInt)
  | .floats l => .floats l

/-- concatenation of element blocks of the same dtype (blocks of another dtype are skipped — never happens
after `widen`) -/
def catData (r : Nat) (ds : List (ArrData α)) : ArrData α :=
  if r = 0 then .bools (ds.flatMap (fun d => match d with | .bools l => l | _ => []))
  else if r = 1 then .ints (ds.flatMap (fun d => match d with | .ints l => l | _ => []))
  else .floats (ds.flatMap (fun d => match d with | .floats l => l | _ => []))

/-- `np.array([a0, a1, …])` of numeric arrays: all shapes equal → shape `n :: s`, widest dtype;
an empty list gives `float64` of shape `(0,)`; differing shapes → `none` (numpy raises ValueError) -/
def stack [OfInt α] (as : List (Arr α)) : Option (Arr α) :=
  match as with
  | [] => some ⟨[0], .floats []⟩
  | a :: rest =>
    if rest.all (fun b => b.shape == a.shape) then
      let r := (as.map (fun b => b.data.rank)).foldl max 0
      some ⟨as.length :: a.shape, catData r (as.map (fun b => b.data.widen r))⟩
    else none

mutual
/-- `np.array(v)` as a numeric array, `none` when numpy raises or produces an object/unicode array -/
def toNd [OfInt α] : Value α → Option (Arr α)
  | .int i => some ⟨[], .ints [i]⟩
  | .float x => some ⟨[], .floats [x]⟩
  | .bool b => some ⟨[], .bools [b]⟩
  | .array a => some a
  | .list l => (toNdList l).bind stack
  | .tuple l => (toNdList l).bind stack
  | .str _ => none
  | .dict _ => none
  | .unsupported => none
def toNdList [OfInt α] : List (Value α) → Option (List (Arr α))
  | [] => some []
  | v :: vs =>
    match toNd v with
    | none => none
    | some a =>
      match toNdList vs with
      | none => none
      | some as => some (a :: as)
end

/-! ## the writer -/

def isStr : Value α → Bool
  | .str _ => true
  | _ => false

/-- number of bytes of the UTF-8 encoding of one code point -/
def utf8Len (c : Nat) : Nat := if c < 128 then 1 else if c < 2048 then 2 else if c < 65536 then 3 else 4

/-- `len(n.encode("utf-8"))` -/
def utf8Size (s : List Nat) : Nat := (s.map utf8Len).sum

/-- `n.encode("utf-8")` stored in a fixed-width cell and read back with `decode_string_array`: trailing NUL
bytes (= trailing U+0000) are not returned -/
def sCell (s : List Nat) : List Nat := (s.reverse.dropWhile (fun c => c == 0)).reverse

/-- the strings of `write_string_array`; `none` when an element is not a string (`AttributeError`) -/
def stringList : List (Value α) → Option (List (List Nat))
  | [] => some []
  | .str s :: vs => (stringList vs).map (fun rows => s :: rows)
  | _ :: _ => none

/-- `width = max([64] + [len(n) for n in encoded])` -/
def cellWidth (strs : List (List Nat)) : Nat := (strs.map utf8Size).foldl max 64

/-- the dataset `write_string_array` creates -/
def stringNode (strs : List (List Nat)) : Node α := .sfix (cellWidth strs) (strs.map sCell)

/-- `'{}{}'.format(key, idx)` -/
def subKey (key : String) (idx : Nat) : String := key ++ toString idx

mutual
/-- `store_thing(output, key, item)`: the entries created in the current group -/
def storeThing [OfInt α] (key : String) : Value α → Except Err (List (String × Node α))
  | .int i => .ok [(key, .num ⟨[], .ints [i]⟩)]             -- write_scalar
  | .float x => .ok [(key, .num ⟨[], .floats [x]⟩)]
  | .bool b => .ok [(key, .num ⟨[], .bools [b]⟩)]
  | .array a => .ok [(key, .num a)]                          -- write_array
  | .str s => .ok [(key, .vstr s)]                           -- write_string
  | .list l =>
    if l.any isStr then
      match stringList l with
      | some strs => .ok [(key, stringNode strs)]            -- write_string_array
      | none => .error .mixedStringList
    else
      match (toNdList l).bind stack with
      | some a => .ok [(key, .num a)]                        -- write_array(key, np.array(item))
      | none => storeSeq key 0 l                             -- key0, key1, …
  | .tuple l =>
    if l.any isStr then
      match stringList l with
      | some strs => .ok [(key, stringNode strs)]
      | none => .error .mixedStringList
    else
      match (toNdList l).bind stack with
      | some a => .ok [(key, .num a)]
      | none => storeSeq key 0 l
  | .dict d =>
    match storeEntries d with
    | .ok ch => .ok [(key, .group ch)]                       -- create_group + recursion
    | .error e => .error e
  | .unsupported => .error .unsupported
/-- `for idx, val in enumerate(item): store_thing(output, key+str(idx), val)` -/
def storeSeq [OfInt α] (key : String) (idx : Nat) : List (Value α) → Except Err (List (String × Node α))
  | [] => .ok []
  | v :: vs =>
    match storeThing (subKey key idx) v with
    | .error e => .error e
    | .ok a =>
      match storeSeq key (idx + 1) vs with
      | .error e => .error e
      | .ok b => .ok (a ++ b)
/-- `recursively_save_dict_contents_to_output(output, dic)` -/
def storeEntries [OfInt α] : List (String × Value α) → Except Err (List (String × Node α))
  | [] => .ok []
  | (k, v) :: rest =>
    match storeThing k v with
    | .error e => .error e
    | .ok a =>
      match storeEntries rest with
      | .error e => .error e
      | .ok b => .ok (a ++ b)
end

/-- `Output.store_dictionary(dictionary, group_name)`: the group that is created -/
def store [OfInt α] : Value α → Except Err (Node α)
  | .dict d =>
    match storeEntries d with
    | .ok ch => .ok (.group ch)
    | .error e => .error e
  | _ => .error .notDict

/-- `HDF5OutputGroup.write_array(name, array)` called directly (component `write` methods): a Python list is
written element by element under `name0, name1, …` (recursively), anything else must be an ndarray -/
def writeArray (name : String) : Value α → Option (List (String × Node α))
  | .array a => some [(name, .num a)]
  | .list l =>
    let rec go (idx : Nat) : List (Value α) → Option (List (String × Node α))
      | [] => some []
      | .array a :: vs => (go (idx + 1) vs).map (fun r => (subKey name idx, .num a) :: r)
      | _ :: _ => none
    go 0 l
  | _ => none

/-- `OutputGroup.write_list(name, l)`: `write_array(name, np.array(l))` -/
def writeList [OfInt α] (name : String) (l : List (Value α)) : Option (List (String × Node α)) :=
  ((toNdList l).bind stack).map (fun a => [(name, .num a)])

/-! ## reading back -/

/-- value of a scalar dataset `ds[()]` -/
def scalarOf : ArrData α → Option (Value α)
  | .bools [b] => some (.bool b)
  | .ints [i] => some (.int i)
  | .floats [x] => some (.float x)
  | _ => none

mutual
/-- what `loc[name][()]` + the decoding in `load_generic_profile_from_hdf5` return for one entry:
0-d dataset → scalar, array → array, string → `str`, 'S<n>' (n,1) → list of `str` (`decode_string_array`),
group → dictionary of its entries -/
def load : Node α → Value α
  | .num a =>
    match a.shape with
    | [] => (scalarOf a.data).getD (.array a)
    | _ :: _ => .array a
  | .vstr s => .str s
  | .sfix _ rows => .list (rows.map .str)
  | .group ch => .dict (loadEntries ch)
def loadEntries : List (String × Node α) → List (String × Value α)
  | [] => []
  | (k, n) :: rest => (k, load n) :: loadEntries rest
end

/-! ## what survives unchanged -/

/-- a string-array element that a fixed-width cell returns unchanged: not ending in NUL -/
def cleanStr (s : List Nat) : Bool := (s.getLast?.map (fun c => c != 0)).getD true

def isCleanStr : Value α → Bool
  | .str s => cleanStr s
  | _ => false

mutual
/-- entry values that are read back unchanged: scalars, arrays of dimension ≥ 1, strings, non-empty lists of
clean strings, dictionaries of such values. (Numeric lists and tuples come back as arrays: see `canon`.) -/
def wfVal : Value α → Bool
  | .int _ => true
  | .float _ => true
  | .bool _ => true
  | .array a => a.shape != []
  | .str _ => true
  | .list l => !l.isEmpty && l.all isCleanStr
  | .tuple _ => false
  | .dict d => wfEntries d
  | .unsupported => false
def wfEntries : List (String × Value α) → Bool
  | [] => true
  | (_, v) :: rest => wfVal v && wfEntries rest
end

/-- well-formed result dictionary -/
def WF : Value α → Bool
  | .dict d => wfEntries d
  | _ => false

mutual
/-- values that are stored without the `key0, key1, …` expansion: as `wfVal` plus tuples, homogeneous numeric
lists/tuples (stored as the array numpy builds) and 0-d arrays (stored as scalars) -/
def regVal [OfInt α] : Value α → Bool
  | .int _ => true
  | .float _ => true
  | .bool _ => true
  | .array _ => true
  | .str _ => true
  | .list l => if l.any isStr then l.all isCleanStr else ((toNdList l).bind stack).isSome
  | .tuple l => if l.any isStr then l.all isCleanStr else ((toNdList l).bind stack).isSome
  | .dict d => regEntries d
  | .unsupported => false
def regEntries [OfInt α] : List (String × Value α) → Bool
  | [] => true
  | (_, v) :: rest => regVal v && regEntries rest
end

mutual
/-- the value a regular entry is read back as: tuple → list, numeric list → ndarray, 0-d array → scalar -/
def canon [OfInt α] : Value α → Value α
  | .int i => .int i
  | .float x => .float x
  | .bool b => .bool b
  | .array a => load (.num a)
  | .str s => .str s
  | .list l => if l.any isStr then .list l else
      match (toNdList l).bind stack with
      | some a => load (.num a)
      | none => .list l
  | .tuple l => if l.any isStr then .list l else
      match (toNdList l).bind stack with
      | some a => load (.num a)
      | none => .tuple l
  | .dict d => .dict (canonEntries d)
  | .unsupported => .unsupported
def canonEntries [OfInt α] : List (String × Value α) → List (String × Value α)
  | [] => []
  | (k, v) :: rest => (k, canon v) :: canonEntries rest
end

/-! ## which values the writer accepts -/

mutual
/-- the writer's traversal reaches no unsupported type and no string list with a non-string element -/
def supported [OfInt α] : Value α → Bool
  | .int _ => true
  | .float _ => true
  | .bool _ => true
  | .array _ => true
  | .str _ => true
  | .list l =>
    if l.any isStr then l.all isStr
    else ((toNdList l).bind stack).isSome || supportedList l
  | .tuple l =>
    if l.any isStr then l.all isStr
    else ((toNdList l).bind stack).isSome || supportedList l
  | .dict d => supportedEntries d
  | .unsupported => false
def supportedList [OfInt α] : List (Value α) → Bool
  | [] => true
  | v :: vs => supported v && supportedList vs
def supportedEntries [OfInt α] : List (String × Value α) → Bool
  | [] => true
  | (_, v) :: rest => supported v && supportedEntries rest
end

def isDict : Value α → Bool
  | .dict _ => true
  | _ => false

/-! ## component records: `write()` and `load_generic_profile_from_hdf5` -/

/-- `for kw in klass_kwargs: if kw in loc.keys(): args[kw] = decode(loc[kw][()])` -/
def loadKwargs (ch : List (String × Node α)) : List String → List (String × Value α)
  | [] => []
  | kw :: rest =>
    match ch.lookup kw with
    | some n => (kw, load n) :: loadKwargs ch rest
    | none => loadKwargs ch rest

/-- a component's `write`: its type string under `typeKey` and the listed entries -/
def writeComponent (typeKey : String) (klass : List Nat) (entries : List (String × Value α)) : Value α :=
  .dict ((typeKey, .str klass) :: entries)

/-- the constructor call of the reloaded component: class name and keyword arguments -/
def reloadComponent [OfInt α] (typeKey : String) (ctorKw : List String) (written : Value α) :
    Except Err (Option (Value α) × List (String × Value α)) :=
  match store written with
  | .error e => .error e
  | .ok (.group ch) => .ok ((ch.lookup typeKey).map load, loadKwargs ch ctorKw)
  | .ok _ => .error .notDict

end store

/-! ## spectrum dictionaries -/

section spectrum
variable {α : Type} [Add α] [Sub α] [Mul α] [Div α] [Neg α] [LT α] [DecidableLT α]
  [OfNat α 0] [OfNat α 2] [OfNat α 10000]

/-- `10000/wngrid` -/
def wlOfWn (wn : List α) : List α := wn.map (fun x => 10000 / x)

/-- `wnwidth_to_wlwidth(wngrid, wnwidth) = 10000*wnwidth/(wngrid**2)` -/
def wlwidthAt (wn w : α) : α := 10000 * w / (wn * wn)

def wnwidthToWlwidth (wn w : List α) : List α := List.zipWith wlwidthAt wn w

def absv (x : α) : α := if x < 0 then -x else x

/-- `np.diff` -/
def diff : List α → List α
  | a :: b :: rest => (b - a) :: diff (b :: rest)
  | _ => []

/-- `compute_bin_edges(wngrid)`: (edges, |diff(edges)|); needs at least two points (the code indexes
`wngrid[1]`, `wngrid[-2]`) -/
def computeBinEdges (g : List α) : List α × List α :=
  match g with
  | g0 :: g1 :: _ =>
    let d := (diff g).map (fun x => x / 2)
    let gl := g.getLastD g0
    let gl2 := (g.dropLast).getLastD g0
    let edges := [g0 - (g1 - g0) / 2] ++ List.zipWith (fun a b => a + b) g.dropLast d ++ [(gl - gl2) / 2 + gl]
    (edges, (diff edges).map absv)
  | _ => ([], [])

inductive BinnerKind where
  | flux | simple | native
  deriving DecidableEq, Repr

/-- entries of a spectrum dictionary: 1-D arrays and 2-D arrays (optical depths, layer × wavenumber) -/
inductive Entry (α : Type) where
  | vec (v : List α)
  | mat (m : List (List α))

/-- `OutputSize` values -/
def sizeHeavy : Nat := 6
def sizeLight : Nat := 3
def sizeLighter : Nat := 1

/-- `Binner.generate_spectrum_output` (base class; `bd` = `self.bindown(wngrid, ·)[1]` on a 1-D spectrum,
`bdTau` the same on the 2-D optical depth) -/
def baseOutput (bd : List α → List α → List α) (bdTau : List α → List (List α) → List (List α))
    (size : Nat) (wn flux : List α) (tau : List (List α)) : List (String × Entry α) :=
  [("native_wngrid", .vec wn),
   ("native_wlgrid", .vec (wlOfWn wn)),
   ("native_spectrum", .vec flux),
   ("binned_spectrum", .vec (bd wn flux)),
   ("native_wnwidth", .vec (computeBinEdges wn).2),
   ("native_wlwidth", .vec (computeBinEdges (wlOfWn wn)).2)]
  ++ (if size > sizeLighter then
        [("binned_tau", Entry.mat (bdTau wn tau))]
        ++ (if size > sizeLight then [("native_tau", Entry.mat tau)] else [])
      else [])

/-- `generate_spectrum_output` of `FluxBinner` / `SimpleBinner` (base + the binner's own grid, `grid` and
`width` being `self._wngrid`, `self._wngrid_width`) and of `NativeBinner` (own dictionary) -/
def spectrumOutput (kind : BinnerKind) (grid width : List α)
    (bd : List α → List α → List α) (bdTau : List α → List (List α) → List (List α))
    (size : Nat) (wn flux : List α) (tau : List (List α)) : List (String × Entry α) :=
  match kind with
  | .native =>
    [("native_wngrid", .vec wn), ("native_wlgrid", .vec (wlOfWn wn)), ("native_spectrum", .vec flux)]
    ++ (if size > sizeLight then [("native_tau", Entry.mat tau)] else [])
  | _ =>
    baseOutput bd bdTau size wn flux tau ++
    [("binned_wngrid", .vec grid),
     ("binned_wlgrid", .vec (wlOfWn grid)),
     ("binned_wnwidth", .vec width),
     ("binned_wlwidth", .vec (wnwidthToWlwidth grid width))]

def keysOf (d : List (String × Entry α)) : List String := d.map Prod.fst

end spectrum

end Taurex.Output
