import TaurexModel.CacheSM
/-
  Configuration events that reach the opacity caches by OTHER ROUTES than the caches' own setters, and settings that are
  TAKEN BACK to "not configured":
    taurex/parameter/parameterparser.py: ParameterParser.setup_globals — the [Global] keys `xsec_path`
        (`OpacityCache().set_opacity_path`, whose NotADirectoryError leaves setup_globals), `xsec_interpolation`
        (`OpacityCache().set_interpolation`), `xsec_in_memory` (`OpacityCache().set_memory_mode`), in this order; then
        every [Global] key is copied into GlobalCache (same values; `ktable_path` reaches GlobalCache only by this copy)
    taurex/cache/opacitycache.py: set_interpolation(None)   (GlobalCache()['xsec_interpolation'] = None, both caches cleared)
    taurex/cache/globalcache.py: GlobalCache()[key] = None  (the key reads back as None = not configured;
        `xsec_path` / `ktable_path` taken back: `discover()` of every class then finds nothing)
  The machine `stepX` extends `CacheSM.step` (same state, same responses); `stepXK` is the k-table reading (`stepK`).
-/
namespace Taurex.CacheSM

inductive XOp where
  /-- an operation of the cache itself -/
  | base (op : COp)
  /-- `OpacityCache().set_interpolation(None)`: back to the default (read as 'linear'); clears -/
  | unsetInterp
  /-- `GlobalCache()['xsec_path'] = None` (`ktable_path` in the k-table reading): no path configured; does not clear -/
  | unsetPath
  /-- `ParameterParser.read(file); setup_globals()` of a file whose [Global] section holds the path `p`, the interpolation
      mode `k`, the memory mode `mem` (each optional) -/
  | parfile (p : Option Nat) (k : Option Nat) (mem : Option Bool)
  deriving DecidableEq, Repr

/-- the setter calls `setup_globals` makes after the path: `set_interpolation`, then `set_memory_mode` -/
def parCalls (k : Option Nat) (mem : Option Bool) : List COp :=
  (k.map COp.setInterp).toList ++ (mem.map COp.setMem).toList

def stepX (fs : List Dir) (s : CSt) : XOp → CSt × Resp
  | .base op => step fs s op
  | .unsetInterp => ({ s with interp := none, dict := [] }, .done)
  | .unsetPath => ({ s with path := none }, .done)
  | .parfile none k mem => (run fs s (parCalls k mem), .done)
  | .parfile (some p) k mem =>
    -- `set_opacity_path` stores the path and raises for a path that is not a directory: nothing else is set up then
    if (step fs s (.setPath p)).2 = .notADir then step fs s (.setPath p)
    else (run fs (step fs s (.setPath p)).1 (parCalls k mem), .done)

def runX (fs : List Dir) (s : CSt) (ops : List XOp) : CSt := ops.foldl (fun s op => (stepX fs s op).1) s

def traceX (fs : List Dir) : CSt → List XOp → List Resp
  | _, [] => []
  | s, op :: ops => (stepX fs s op).2 :: traceX fs (stepX fs s op).1 ops

/-- what the event makes of the interpolation setting (`none`: it leaves the setting alone) -/
def XOp.modeAfter : XOp → Option (Option Nat)
  | .base (.setInterp k) => some (some k)
  | .unsetInterp => some none
  | .parfile _ (some k) _ => some (some k)
  | _ => none

/-- the k-table reading: a parameter file reaches the k-table cache through `set_interpolation` (which clears both caches)
    and through the copy of `ktable_path` into GlobalCache at the end (no directory test, nothing raised, no clear);
    `xsec_in_memory` does not concern this cache -/
def stepXK (fs : List Dir) (s : CSt) : XOp → CSt × Resp
  | .base op => stepK fs s op
  | .parfile p k _ =>
    let s1 := run fs s (k.map COp.setInterp).toList
    ({ s1 with path := match p with | some p => some p | none => s1.path }, .done)
  | op => stepX fs s op

def runXK (fs : List Dir) (s : CSt) (ops : List XOp) : CSt := ops.foldl (fun s op => (stepXK fs s op).1) s

def traceXK (fs : List Dir) : CSt → List XOp → List Resp
  | _, [] => []
  | s, op :: ops => (stepXK fs s op).2 :: traceXK fs (stepXK fs s op).1 ops

/-! ## histories in which the loaded objects and the global setting drift apart, and loads from a named directory

  taurex/opacity/interpolateopacity.py: InterpolatingOpacity.set_interpolation_mode — the public method of a SERVED object:
      it switches that object only; neither the cache nor GlobalCache hears of it
  taurex/cache/globalcache.py: GlobalCache()['xsec_interpolation'] = k written directly (not through the cache): the key is
      stored, nothing is cleared — objects already loaded keep their mode, later loads take the new one
  taurex/cache/opacitycache.py: load_opacity(opacity_path=<directory>, molecule_filter=[m]) — the `path` argument of
      load_opacity_from_path is not used by the scan (every `discover()` reads GlobalCache()['xsec_path']): the molecule is
      loaded from the CONFIGURED path exactly as a lookup would load it, the named directory is never opened, the configured
      path stays what it was.
  `stepY` extends `stepX` / `stepXK` (same state, same responses). -/

inductive YOp where
  | x (op : XOp)
  /-- `cache[m].set_interpolation_mode(k)` on the object now in the dictionary (nothing if there is none) -/
  | objMode (m : String) (k : Nat)
  /-- `GlobalCache()['xsec_interpolation'] = k` -/
  | gcInterp (k : Option Nat)
  /-- `load_opacity(opacity_path = directory p, molecule_filter = [m])` -/
  | loadOther (p : Nat) (m : String)
  deriving DecidableEq, Repr

def setMode (d : List (String × Obj)) (m : String) (k : Nat) : List (String × Obj) :=
  d.map (fun e => if e.1 == m then (e.1, { e.2 with mode := k }) else e)

def stepY (fs : List Dir) (s : CSt) : YOp → CSt × Resp
  | .x op => stepX fs s op
  | .objMode m k => ({ s with dict := setMode s.dict m k }, .done)
  | .gcInterp k => ({ s with interp := k }, .done)
  | .loadOther _ m => ((step fs s (.get m)).1, .done)

def runY (fs : List Dir) (s : CSt) (ops : List YOp) : CSt := ops.foldl (fun s op => (stepY fs s op).1) s

def traceY (fs : List Dir) : CSt → List YOp → List Resp
  | _, [] => []
  | s, op :: ops => (stepY fs s op).2 :: traceY fs (stepY fs s op).1 ops

/-- the k-table reading (`KTableCache.load_opacity` has the same unused `path`; its scan runs whether or not the molecule is
    cached — `loadStepK` has no dictionary test — where the cross-section scan of a cached molecule constructs nothing, so
    that `(step fs s (.get m)).1` above is that scan in either case) -/
def stepYK (fs : List Dir) (s : CSt) : YOp → CSt × Resp
  | .x op => stepXK fs s op
  | .loadOther _ m => (loadFromK fs m s, .done)
  | op => stepY fs s op

def runYK (fs : List Dir) (s : CSt) (ops : List YOp) : CSt := ops.foldl (fun s op => (stepYK fs s op).1) s

end Taurex.CacheSM
