/-
  Model of the vertical structure of the atmosphere:
    taurex/data/profiles/pressure/pressureprofile.py:SimplePressureProfile.compute_pressure_profile
    taurex/data/profiles/pressure/arraypressure.py:ArrayPressureProfile.compute_pressure_profile
    taurex/data/planet.py:BasePlanet.gravity, gravity_at_height, calculate_scale_properties
    taurex/model/simplemodel.py:_compute_altitude_gravity_scaleheight_profile, densityProfile
  Physical constants (KBOLTZ, G) are arguments: the harness reads them from taurex.constants at run time.
-/
import TaurexModel.Num

namespace Taurex.Structure

section
variable {α : Type} [Add α] [Sub α] [Mul α] [Div α] [Neg α] [OfNat α 0] [OfNat α 1] [OfNat α 2] [Transc α]

/-- an integer loop counter as a float (`np.arange(0, num)`), built by repeated `+ 1` (exact on doubles) -/
def natTo : Nat → α
  | 0 => 0
  | n + 1 => natTo n + 1

/-- `np.linspace(a, b, n+1)` for `n ≥ 1`: `step = (b-a)/n`, `y_i = i*step + a`, and `y[-1] = b` -/
def linspace (n : Nat) (a b : α) : List α :=
  let step := (b - a) / natTo n
  (List.range (n + 1)).map (fun i => if i = n then b else natTo i * step + a)

/-- `np.logspace(log10 pmin, log10 pmax, nLevels)[::-1]` with `nLevels = n + 1` -/
def logLevels (n : Nat) (pmin pmax : α) : List α :=
  ((linspace n (log10 pmin) (log10 pmax)).map pow10).reverse

/-- layer pressures `levels[:-1] * sqrt(levels[1:] / levels[:-1])` -/
def layerPressures (levels : List α) : List α :=
  List.zipWith (fun lo up => lo * sqrt (up / lo)) levels levels.tail

/-- `np.gradient(l)` (unit spacing) at index `i` of a list with at least two entries -/
def gradientAt (l : List α) (i : Nat) : α :=
  let n := l.length
  if i = 0 then l.getD 1 0 - l.getD 0 0
  else if i = n - 1 then l.getD (n - 1) 0 - l.getD (n - 2) 0
  else (l.getD (i + 1) 0 - l.getD (i - 1) 0) / 2

/-- `ArrayPressureProfile.compute_pressure_profile`: levels from a given layer-pressure array;
    `none` where `np.gradient` raises (fewer than two layers) -/
def arrayLevels (profile : List α) : Option (List α) :=
  let logp := profile.map log10
  let n := logp.length
  if n < 2 then none
  else
    let lower := (List.range n).map (fun i => logp.getD i 0 - gradientAt logp i / 2)
    let top := logp.getD (n - 1) 0 + gradientAt logp (n - 1) / 2
    some ((lower ++ [top]).map pow10)

/-- `Planet.gravity_at_height(h) = G M / (R + h)**2` -/
def gravityAt (gm r h : α) : α := gm / ((r + h) * (r + h))

/-- `Planet.gravity = G M / R**2` -/
def surfaceGravity (gm r : α) : α := gm / (r * r)

/-- what `calculate_scale_properties` computes for one layer -/
structure Layer (α : Type) where
  /-- altitude of the lower boundary -/
  z : α
  /-- scale height -/
  H : α
  /-- gravity at the lower boundary -/
  g : α
  /-- thickness -/
  dz : α
  deriving Repr

/-- the bottom-up loop of `calculate_scale_properties`, one layer per step.
    State: altitude `z` and gravity `g` at the bottom of the current layer; `pl` are the remaining levels
    (current bottom first).  Returns the layers and the altitude of the top boundary. -/
def scaleLoop (kb gm r : α) : α → α → List α → List α → List α → List (Layer α) × α
  | z, g, t :: ts, m :: ms, p0 :: p1 :: ps =>
    let h := (kb * t) / (m * g)                       -- H[i] = (KBOLTZ*T[i])/(mu[i]*g[i])
    let dz := (-1) * h * log (p1 / p0)                -- deltaz[i+1] = (-1.)*H[i]*np.log(Pl[i+1]/Pl[i])
    let z' := z + dz                                  -- z[i+1] = z[i] + deltaz[i+1]
    let rest := scaleLoop kb gm r z' (gravityAt gm r z') ts ms (p1 :: ps)
    (⟨z, h, g, dz⟩ :: rest.1, rest.2)
  | z, _, _, _, _ => ([], z)

/-- result of `calculate_scale_properties(T, Pl, mu)` (length unit metres, factor 1) -/
structure ScaleProps (α : Type) where
  z : List α
  H : List α
  g : List α
  dz : List α

def scaleProps (kb bigG mass r : α) (T pl mu : List α) : ScaleProps α :=
  let gm := bigG * mass
  let res := scaleLoop kb gm r 0 (surfaceGravity gm r) T mu pl
  { z := res.1.map (·.z) ++ [res.2], H := res.1.map (·.H), g := res.1.map (·.g), dz := res.1.map (·.dz) }

/-- the per-layer views `SimpleForwardModel._compute_altitude_gravity_scaleheight_profile` stores -/
structure Views (α : Type) where
  altitudeProfile : List α        -- z[:-1]
  scaleheightProfile : List α     -- H
  gravityProfile : List α         -- g
  altitudeBoundaries : List α     -- z
  deltaz : List α

def views (s : ScaleProps α) : Views α :=
  { altitudeProfile := s.z.dropLast, scaleheightProfile := s.H, gravityProfile := s.g,
    altitudeBoundaries := s.z, deltaz := s.dz }

/-- `densityProfile = P / (KBOLTZ * T)` -/
def density (kb : α) (p t : List α) : List α := List.zipWith (fun pi ti => pi / (kb * ti)) p t

/-! ### length units (`taurex.util.util.conversion_factor` between multiples of the metre)

`calculate_scale_properties(T, Pl, mu, length_units=u)` multiplies altitudes, scale heights, gravities and thicknesses by
`conversion_factor('m', u)`; `get_planet_radius(u)` / `set_planet_radius(v, u)` convert with the same function. -/

/-- the size of a metre multiple in metres (`none`: not a metre multiple) -/
def metresPer [OfNat α 10] : String → Option α
  | "m" => some 1
  | "km" => some (10 * 10 * 10)
  | "cm" => some (1 / (10 * 10))
  | "mm" => some (1 / (10 * 10 * 10))
  | "um" => some (1 / (10 * 10 * 10 * (10 * 10 * 10)))
  | _ => none

/-- `conversion_factor(from, to)`: a length of `x` units `from` is `x * factor` units `to` -/
def lengthFactor [OfNat α 10] (fromU toU : String) : Option α :=
  match metresPer (α := α) fromU, metresPer (α := α) toU with
  | some a, some b => some (a / b)
  | _, _ => none

end

/-! ### the dictionary of stored profiles (`taurex/util/output.py: generate_profile_dict`,
     `SimpleForwardModel.generate_profiles`) -/

/-- a value of the profile dictionary: a per-layer array, a (species × layer) table, or `None` -/
inductive ProfVal (α : Type) where
  | arr (l : List α)
  | arr2 (rows : List (List α))
  | none
  deriving Repr

/-- an optional table as a dictionary value -/
def ProfVal.ofTable {α : Type} : Option (List (List α)) → ProfVal α
  | some rows => .arr2 rows
  | .none => .none

/-- one value per layer: a 1-D entry has `n` values, every row of a table has `n` values -/
def ProfVal.PerLayer {α : Type} (n : Nat) : ProfVal α → Prop
  | .arr l => l.length = n
  | .arr2 rows => ∀ r ∈ rows, r.length = n
  | .none => True

/-- `SimpleForwardModel.generate_profiles()`: the dictionary `generate_profile_dict(model)` builds — temperature, the two
    gas-mix tables (`None` when the chemistry has no such gases), density, the stored views scale height / altitude /
    gravity, the layer pressures, the condensate table when the chemistry has condensates (`cond = some …`) — plus the mean
    molecular weight; an association list in insertion order -/
def profileDict {α : Type} (v : Views α) (temp press dens mu : List α) (act inact cond : Option (List (List α))) :
    List (String × ProfVal α) :=
  [("temp_profile", .arr temp), ("active_mix_profile", .ofTable act), ("inactive_mix_profile", .ofTable inact),
   ("density_profile", .arr dens), ("scaleheight_profile", .arr v.scaleheightProfile),
   ("altitude_profile", .arr v.altitudeProfile), ("gravity_profile", .arr v.gravityProfile),
   ("pressure_profile", .arr press)]
  ++ (match cond with
      | some c => [("condensate_profile", ProfVal.arr2 c)]
      | .none => [])
  ++ [("mu_profile", .arr mu)]

end Taurex.Structure
