/-
  Model of how `AbsorptionContribution` builds its `sigma_xsec[layer, wn]` on the grid of a run when the active molecules
  are tabulated on DIFFERENT wavenumber grids (C01: the cross-section entering the optical depth at a wavenumber is the
  molecule's cross-section AT THAT wavenumber):
    taurex/contributions/absorption.py: prepare_each / prepare   — `absSigma` (= `Sigma.sumComps` of `Sigma.compAbs`)
    taurex/opacity/opacity.py: Opacity.opacity(T, P, wngrid)      — `Grid.opacityOnGrid` (own points: selection;
                                                                     any other request: np.interp between the bracketing points)
  The values of a molecule on its own native grid at the layer's `(T, P)` (`compute_opacity`, the C04 model) are inputs.
-/
import TaurexModel.Grid
import TaurexModel.Sigma

namespace Taurex.AbsorptionGrid
open Taurex.Grid Taurex.Sigma

section
variable {α : Type} [Add α] [Sub α] [Mul α] [Div α] [Neg α] [LT α] [LE α]
  [DecidableLT α] [DecidableLE α] [OfNat α 0] [OfNat α 1] [OfNat α 2] [OfNat α 4] [OfNat α 5]

/-- one active molecule as `prepare_each` sees it: the wavenumber grid of its table (`xsec.wavenumberGrid`), per layer `l`
    its cross-sections on that grid at `(T_l, P_l)` (`compute_opacity`), and its mixing ratio per layer -/
structure Gas (α : Type) where
  wn : List α
  vals : Nat → List α
  mix : Nat → α

/-- `xsec.opacity(T_l, P_l, wngrid)[w]` -/
def gasOnGrid (g : Gas α) (req : List α) : Nat → Nat → α :=
  fun l w => (opacityOnGrid g.wn (g.vals l) req).getD w 0

/-- `AbsorptionContribution.prepare`: the sum over the active gases of
    `sigma_xsec[l] += xsec.opacity(T_l, P_l, wngrid) * gas_mix[l]` on the grid `req` of the run -/
def absSigma (gases : List (Gas α)) (req : List α) : Nat → Nat → α :=
  sumComps (gases.map fun g => compAbs (gasOnGrid g req) g.mix)

end

/-! The other two contributions whose weighted opacity is "cross-section of the species x its abundance in the layer"
    (C01: the cross-section entering the optical depth of a layer is weighted with the abundance IN THAT LAYER — a species
    that vanishes in some layers still acts in the others):
      taurex/contributions/rayleigh.py: prepare_each / Contribution.prepare   — `scaledSigma`
      taurex/contributions/cia.py: prepare_each / Contribution.prepare        — `ciaSigma`
    The per-molecule Rayleigh laws (a function of the wavenumber) and the per-pair CIA cross-sections at the layer's
    temperature are inputs. -/
section
variable {α : Type} [Add α] [Mul α] [OfNat α 0]

/-- `RayleighContribution`: the sum over the molecules of the atmosphere that have a Rayleigh law of
    `law[None, :] * mix[:, None]` (a molecule whose abundance is zero in EVERY layer is skipped by the code: it adds zero) -/
def scaledSigma (gases : List ((Nat → α) × (Nat → α))) : Nat → Nat → α :=
  sumComps (gases.map fun g => compScaled g.1 g.2)

/-- `CIAContribution`: the sum over the pairs of `cia(T_l)[wn] * (mix_one[l] * mix_two[l])` -/
def ciaSigma (pairs : List ((Nat → Nat → α) × (Nat → α) × (Nat → α))) : Nat → Nat → α :=
  sumComps (pairs.map fun p => compCIA p.1 p.2.1 p.2.2)

end

end Taurex.AbsorptionGrid
