/-
  Model of the prior functions and of the prior text syntax:
    taurex/core/priors.py          : PriorMode, Prior.prior, Uniform(.set_bounds/.sample/.boundaries), LogUniform,
                                     Gaussian(.sample/.boundaries), LogGaussian
    taurex/optimizer/optimizer.py  : the default prior built by compile_params from a parameter's mode and bounds
    taurex/util/fitting.py         : parse_priors   (text -> (function name, keyword arguments))
    taurex/parameter/factory.py    : create_prior   (look the class up by name, call it with the keywords)

  Externals (parameters / assumed, validated numerically by harness/c08.py):
    scipy.stats.uniform.ppf(q, loc, scale) = q*scale + loc        (0 <= q <= 1, scale > 0)
    scipy.stats.norm.ppf(q, loc, scale)    = ndtri(q)*scale + loc (scale > 0); `ndtri` is the parameter `ppf`
    math.log10(x): ValueError unless 0 < x
  Numerical code is carrier-polymorphic (Float in the driver, ℝ in the theorems).  The text syntax is plain
  `List Char` code.
-/
import TaurexModel.Num

namespace Taurex.Priors

/-- `taurex.core.priors.PriorMode` -/
inductive PriorMode where
  | linear
  | log
  deriving DecidableEq, Repr

/-- the `mode` slot of a fitting-parameter tuple (`'linear'` / `'log'`) -/
inductive FitMode where
  | linear
  | log
  deriving DecidableEq, Repr

/-- a constructed prior object: its class and the attributes it stores
    (`_low_bounds`, `_up_bounds` — `_scale` is always `up - low` — or `_loc`, `_scale`) -/
inductive Prior (α : Type) where
  | uniform (low up : α)
  | logUniform (low up : α)
  | gaussian (loc scale : α)
  | logGaussian (loc scale : α)
  deriving Repr, DecidableEq

section
variable {α : Type}

/-- `Prior.priorMode` (`_prior_mode` is set to LOG by the two `Log…` constructors only) -/
def Prior.mode : Prior α → PriorMode
  | .uniform _ _ => .linear
  | .logUniform _ _ => .log
  | .gaussian _ _ => .linear
  | .logGaussian _ _ => .log

section order
variable [LT α] [DecidableLT α]

/-- Python `min(a, b)`: the first minimal argument -/
def pyMin (a b : α) : α := if b < a then b else a

/-- Python `max(a, b)`: the first maximal argument -/
def pyMax (a b : α) : α := if a < b then b else a

/-- `Uniform(bounds=[b0, b1])` : `set_bounds` stores `min(*bounds)`, `max(*bounds)` -/
def mkUniform (b0 b1 : α) : Prior α := .uniform (pyMin b0 b1) (pyMax b0 b1)

/-- `LogUniform(bounds=[b0, b1])` (bounds already in log10 space) -/
def mkLogUniform (b0 b1 : α) : Prior α := .logUniform (pyMin b0 b1) (pyMax b0 b1)

/-- `Gaussian(mean, std)` -/
def mkGaussian (mean std : α) : Prior α := .gaussian mean std

variable [OfNat α 0] [Transc α]

/-- `math.log10(x)`; `none` is the `ValueError: math domain error` raised unless `0 < x` -/
def log10? (x : α) : Option α := if 0 < x then some (log10 x) else none

/-- `LogUniform(lin_bounds=[l0, l1])` : `bounds = [math.log10(x) for x in lin_bounds]` -/
def mkLogUniformLin (l0 l1 : α) : Option (Prior α) := do
  let b0 ← log10? l0
  let b1 ← log10? l1
  pure (mkLogUniform b0 b1)

/-- `LogGaussian(mean, std, lin_mean, lin_std)` : a given `lin_mean` / `lin_std` replaces `mean` / `std` by its log10 -/
def mkLogGaussian (mean std : α) (linMean linStd : Option α) : Option (Prior α) := do
  let mean ← match linMean with
    | some m => log10? m
    | none => pure mean
  let std ← match linStd with
    | some s => log10? s
    | none => pure std
  pure (.logGaussian mean std)

/-- the prior `compile_params` builds for a fitted parameter without a user prior:
    `LogUniform(lin_bounds=bounds)` if `mode == 'log'` else `Uniform(bounds=bounds)` -/
def defaultPrior (mode : FitMode) (b0 b1 : α) : Option (Prior α) :=
  match mode with
  | .log => mkLogUniformLin b0 b1
  | .linear => some (mkUniform b0 b1)

end order

/-- `Prior.prior(value)`: what is handed to the model for the sampled coordinate `x` -/
def Prior.back [Transc α] (p : Prior α) (x : α) : α :=
  match p.mode with
  | .linear => x
  | .log => pow10 x

variable [Add α] [Sub α] [Mul α]

/-- `scipy.stats.uniform.ppf(u, loc, scale)` -/
def uniformPpf (loc scale u : α) : α := u * scale + loc

/-- `scipy.stats.norm.ppf(u, loc, scale)`; `ppf` is the standard normal quantile function (`scipy.special.ndtri`) -/
def normPpf (ppf : α → α) (loc scale u : α) : α := ppf u * scale + loc

/-- `Prior.sample(u)`: unit interval -> prior space -/
def Prior.sample (ppf : α → α) (p : Prior α) (u : α) : α :=
  match p with
  | .uniform lo up => uniformPpf lo (up - lo) u
  | .logUniform lo up => uniformPpf lo (up - lo) u
  | .gaussian loc sc => normPpf ppf loc sc u
  | .logGaussian loc sc => normPpf ppf loc sc u

/-- `Prior.boundaries()`; the Gaussian ones are `sample(0.1), sample(0.9)` -/
def Prior.boundaries [OfScientific α] (ppf : α → α) (p : Prior α) : α × α :=
  match p with
  | .uniform lo up => (lo, up)
  | .logUniform lo up => (lo, up)
  | .gaussian _ _ => (p.sample ppf 0.1, p.sample ppf 0.9)
  | .logGaussian _ _ => (p.sample ppf 0.1, p.sample ppf 0.9)

end

/-! ## Prior text: `Name(key=value, …)` -/

/-- a keyword value: a number, a tuple `( … )` or a list `[ … ]` of numbers; `τ` is how numbers are carried
    (the literal text in the parser, the carrier once the harness has converted the literals) -/
inductive ArgVal (τ : Type) where
  | num (x : τ)
  | tuple (xs : List τ)
  | list (xs : List τ)
  deriving Repr, DecidableEq

/-- the result of `parse_priors`: function name and keyword arguments in source order -/
structure Call (τ : Type) where
  fn : String
  args : List (String × ArgVal τ)
  deriving Repr, DecidableEq

def ArgVal.map {τ σ : Type} (f : τ → σ) : ArgVal τ → ArgVal σ
  | .num x => .num (f x)
  | .tuple xs => .tuple (xs.map f)
  | .list xs => .list (xs.map f)

inductive Tok where
  | ident (s : String)
  | num (s : String)
  | lpar | rpar | lbr | rbr | comma | eq
  deriving Repr, DecidableEq

def isIdentStart (c : Char) : Bool := c.isAlpha || c == '_'
def isIdentChar (c : Char) : Bool := c.isAlphanum || c == '_'
def isNumStart (c : Char) : Bool := c.isDigit || c == '.' || c == '+' || c == '-'
def isDigitsChar (c : Char) : Bool := ['0', '1', '2', '3', '4', '5', '6', '7', '8', '9'].contains c
def isSign (c : Char) : Bool := c == '+' || c == '-'
def isExpMark (c : Char) : Bool := c == 'e' || c == 'E'

/-- longest prefix satisfying `p`, and the rest -/
def spanP (p : Char → Bool) : List Char → List Char × List Char
  | [] => ([], [])
  | c :: cs => if p c then ((c :: (spanP p cs).1), (spanP p cs).2) else ([], c :: cs)

/-- optional sign -/
def takeSign : List Char → List Char × List Char
  | [] => ([], [])
  | c :: r => if isSign c then ([c], r) else ([], c :: r)

/-- exponent part after the marker `e`: `[+-] digits`; `pre` is the literal text so far -/
def lexExpTail (pre : List Char) (e : Char) (r : List Char) : Option (List Char × List Char) :=
  let sg := takeSign r
  let ds := spanP isDigitsChar sg.2
  if ds.1.isEmpty then none else some (pre ++ e :: sg.1 ++ ds.1, ds.2)

/-- mantissa `digits [. [digits]] | . digits` -/
def lexMantissa (cs : List Char) : Option (List Char × List Char) :=
  let ip := spanP isDigitsChar cs
  match ip.2 with
  | [] => if ip.1.isEmpty then none else some (ip.1, [])
  | c :: r =>
    if c == '.' then
      let fp := spanP isDigitsChar r
      if ip.1.isEmpty && fp.1.isEmpty then none else some (ip.1 ++ '.' :: fp.1, fp.2)
    else if ip.1.isEmpty then none else some (ip.1, c :: r)

/-- lex one number literal of the documented form
    `[+-] (digits [. [digits]] | . digits) [(e|E) [+-] digits]`; returns literal text and rest -/
def lexNumber (cs : List Char) : Option (List Char × List Char) :=
  let sg := takeSign cs
  match lexMantissa sg.2 with
  | none => none
  | some (m, rest) =>
    match rest with
    | [] => some (sg.1 ++ m, [])
    | c :: r => if isExpMark c then lexExpTail (sg.1 ++ m) c r else some (sg.1 ++ m, c :: r)

def punctOf (c : Char) : Option Tok :=
  if c == '(' then some .lpar else if c == ')' then some .rpar else if c == '[' then some .lbr
  else if c == ']' then some .rbr else if c == ',' then some .comma else if c == '=' then some .eq else none

/-- the lexer; `fuel` bounds the number of steps (the input length + 1 suffices) -/
def lexAux : Nat → List Char → Option (List Tok)
  | _, [] => some []
  | 0, _ :: _ => none
  | fuel + 1, c :: cs =>
    if c == ' ' then lexAux fuel cs
    else match punctOf c with
      | some t => (lexAux fuel cs).map (t :: ·)
      | none =>
        if isIdentStart c then
          let w := spanP isIdentChar (c :: cs)
          (lexAux fuel w.2).map (Tok.ident (String.ofList w.1) :: ·)
        else if isNumStart c then
          match lexNumber (c :: cs) with
          | none => none
          | some (w, r) =>
            -- a literal must not run into an identifier character or a second dot (`1x`, `1.2.3`): Python rejects that too
            match r with
            | d :: _ =>
              if isIdentChar d || d == '.' then none else (lexAux fuel r).map (Tok.num (String.ofList w) :: ·)
            | [] => (lexAux fuel r).map (Tok.num (String.ofList w) :: ·)
        else none

/-- a leading blank is an IndentationError in `ast.parse` -/
def lex (s : List Char) : Option (List Tok) :=
  if s.head? == some ' ' then none else lexAux (s.length + 1) s

/-- numbers separated by commas up to the closing token `close`; returns the elements, whether a comma was seen,
    and the rest -/
def parseSeq (close : Tok) : List Tok → Option (List String × Bool × List Tok)
  | [] => none
  | t :: ts =>
    if t = close then some ([], false, ts)
    else match t with
      | .num x =>
        match ts with
        | [] => none
        | t' :: ts' =>
          if t' = close then some ([x], false, ts')
          else if t' = Tok.comma then
            (parseSeq close ts').map (fun (xs, _, r) => (x :: xs, true, r))
          else none
      | _ => none

/-- one value -/
def parseVal : List Tok → Option (ArgVal String × List Tok)
  | .num x :: ts => some (.num x, ts)
  | .lpar :: ts =>
    match parseSeq .rpar ts with
    | some ([x], false, r) => some (.num x, r)       -- `(x)` is just `x`
    | some (xs, _, r) => some (.tuple xs, r)
    | none => none
  | .lbr :: ts =>
    match parseSeq .rbr ts with
    | some (xs, _, r) => some (.list xs, r)
    | none => none
  | _ => none

/-- `key=value` items separated by commas up to `)`; a trailing comma is allowed -/
def parseArgs : Nat → List Tok → Option (List (String × ArgVal String) × List Tok)
  | 0, _ => none
  | _ + 1, .rpar :: ts => some ([], ts)
  | fuel + 1, .ident k :: .eq :: ts =>
    match parseVal ts with
    | none => none
    | some (v, r) =>
      match r with
      | .rpar :: r' => some ([(k, v)], r')
      | .comma :: r' => (parseArgs fuel r').map (fun (as, r'') => ((k, v) :: as, r''))
      | _ => none
  | _ + 1, _ => none

def parseToks (ts : List Tok) : Option (Call String) :=
  match ts with
  | .ident f :: .lpar :: r =>
    match parseArgs (r.length + 1) r with
    | some (as, []) => some ⟨f, as⟩
    | _ => none
  | _ => none

/-- `parse_priors` on the documented syntax (keyword arguments only), on the characters of the text -/
def parseChars (cs : List Char) : Option (Call String) :=
  match lex cs with
  | none => none
  | some ts => parseToks ts

def parsePrior (s : String) : Option (Call String) := parseChars s.toList

/-! printing -/

def printSeq : List String → List Tok
  | [] => []
  | [x] => [.num x]
  | x :: y :: r => .num x :: .comma :: printSeq (y :: r)

def printVal : ArgVal String → List Tok
  | .num x => [.num x]
  | .tuple [] => [.lpar, .rpar]
  | .tuple [x] => [.lpar, .num x, .comma, .rpar]
  | .tuple xs => .lpar :: printSeq xs ++ [.rpar]
  | .list xs => .lbr :: printSeq xs ++ [.rbr]

def printArgs : List (String × ArgVal String) → List Tok
  | [] => [.rpar]
  | [(k, v)] => .ident k :: .eq :: printVal v ++ [.rpar]
  | (k, v) :: a :: r => .ident k :: .eq :: printVal v ++ .comma :: printArgs (a :: r)

def printToks (c : Call String) : List Tok := .ident c.fn :: .lpar :: printArgs c.args

/-- text of one token; a comma is followed by one blank -/
def tokChars : Tok → List Char
  | .ident s => s.toList
  | .num s => s.toList
  | .lpar => ['(']
  | .rpar => [')']
  | .lbr => ['[']
  | .rbr => [']']
  | .comma => [',', ' ']
  | .eq => ['=']

def render : List Tok → List Char
  | [] => []
  | t :: ts => tokChars t ++ render ts

def printChars (c : Call String) : List Char := render (printToks c)

/-- canonical text of a call -/
def printPrior (c : Call String) : String := String.ofList (printChars c)

/-! construction from a parsed call (`create_prior`) -/

/-- the four classes `ClassFactory().priorKlasses` holds in the base installation, by `__name__` -/
def klassNames : List String := ["Uniform", "LogUniform", "Gaussian", "LogGaussian"]

/-- `prior_name in (p.__name__, p.__name__.lower(), p.__name__.upper())` -/
def resolveKlass (n : String) : Option String :=
  klassNames.find? (fun k => n == k || n == k.toLower || n == k.toUpper)

section
variable {α : Type} [LT α] [DecidableLT α] [OfNat α 0] [OfNat α 1] [Transc α]

def pairOf : ArgVal α → Option (α × α)
  | .tuple [a, b] => some (a, b)
  | .list [a, b] => some (a, b)
  | _ => none

def numOf : ArgVal α → Option α
  | .num x => some x
  | _ => none

/-- outcome of `create_prior` -/
inductive Created (α : Type) where
  | ok (p : Prior α)
  | unknownKlass          -- ValueError('Unknown Prior Type in input file')
  | badKeyword            -- TypeError: unexpected keyword argument
  | domain                -- ValueError: math domain error (log10 of a non-positive lin_* argument)
  | unsupported           -- argument shapes outside the documented syntax (not judged)
  deriving Repr

/-- keyword look-up with Python's "last duplicate wins"?  No: a repeated keyword is a SyntaxError, so calls with
    duplicate keys never reach `create_prior`; `lookupArg` takes the first. -/
def lookupArg (args : List (String × ArgVal α)) (k : String) : Option (ArgVal α) := (args.find? (·.1 == k)).map (·.2)

/-- `create_prior`: `p(**args)` for the class matching the name; `half quarter` are the default `mean=0.5, std=0.25` -/
def createPrior (half quarter : α) (c : Call α) : Created α :=
  match resolveKlass c.fn with
  | none => .unknownKlass
  | some k =>
    let allowed : List String :=
      if k == "Uniform" then ["bounds"]
      else if k == "LogUniform" then ["bounds", "lin_bounds"]
      else if k == "Gaussian" then ["mean", "std"]
      else ["mean", "std", "lin_mean", "lin_std"]
    if c.args.any (fun a => !(allowed.contains a.1)) then .badKeyword
    else if k == "Uniform" || k == "LogUniform" then
      let bounds : Option (α × α) := match lookupArg c.args "bounds" with
        | none => some (0, 1)
        | some v => pairOf v
      let lin : Option (Option (α × α)) := match lookupArg c.args "lin_bounds" with
        | none => some none
        | some v => (pairOf v).map some
      match bounds, lin with
      | some (b0, b1), some none =>
        if k == "Uniform" then .ok (mkUniform b0 b1) else .ok (mkLogUniform b0 b1)
      | some _, some (some (l0, l1)) =>
        match mkLogUniformLin l0 l1 with
        | some p => .ok p
        | none => .domain
      | _, _ => .unsupported
    else
      let getNum (key : String) (dflt : Option α) : Option (Option α) := match lookupArg c.args key with
        | none => some dflt
        | some v => (numOf v).map some
      match getNum "mean" (some half), getNum "std" (some quarter), getNum "lin_mean" none, getNum "lin_std" none with
      | some (some m), some (some s), some lm, some ls =>
        if k == "Gaussian" then .ok (mkGaussian m s)
        else match mkLogGaussian m s lm ls with
          | some p => .ok p
          | none => .domain
      | _, _, _, _ => .unsupported

end

end Taurex.Priors
