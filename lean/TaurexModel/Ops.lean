import TaurexModel.Ops.C04

namespace Taurex.Ops
open Taurex.Proto

def all : List Op :=
  C04.ops

end Taurex.Ops
