/-
  Model of spectral binning:
    taurex/util/util.py:compute_bin_edges, bindown (histogram mean)
    taurex/binning/fluxbinner.py:FluxBinner.__init__, FluxBinner.bindown
    taurex/binning/simplebinner.py:SimpleBinner.bindown
    taurex/binning/nativebinner.py:NativeBinner.bindown
    taurex/binning/binner.py:Binner.bin_model
  The spectrum axis is the last one and the code is point-wise in all leading axes, so the model bins one
  1-D spectrum at a time: the spectrum (and error) enter as functions `val err : Row α → α` evaluated where the
  Python indexes `old_spect_flux[..., i]` (the driver passes the stored fields `Row.s`, `Row.e`).
  `argsort` is modelled as a stable insertion sort by key (numpy's default sort is not stable; the theorems
  that depend on the order assume distinct keys).
-/
import TaurexModel.Num
import TaurexModel.Interp

namespace Taurex.Binning
open Taurex.Interp (searchRight)

section
variable {α : Type} [Add α] [Sub α] [Mul α] [Div α] [Neg α] [LT α] [LE α]
  [DecidableLT α] [DecidableLE α] [OfNat α 0] [OfNat α 1] [OfNat α 2]

/-- `np.sum` of a 1-D array (summation order is not modelled: rounding is outside the model) -/
def sumL (l : List α) : α := l.foldr (fun x acc => x + acc) 0

/-- `np.minimum(a, b)` -/
def mn (a b : α) : α := if a ≤ b then a else b
/-- `np.maximum(a, b)` -/
def mx (a b : α) : α := if a ≤ b then b else a
/-- `np.abs` -/
def absv (x : α) : α := if x < 0 then -x else x

/-- `np.diff` -/
def diffs : List α → List α
  | a :: b :: t => (b - a) :: diffs (b :: t)
  | _ => []

/-- `wngrid[:-1] + np.diff(wngrid)/2` -/
def midEdges : List α → List α
  | a :: b :: t => (a + (b - a) / 2) :: midEdges (b :: t)
  | _ => []

/-- `compute_bin_edges(wngrid)`: `(edges, |diff edges|)`; the code needs at least two grid points -/
def computeBinEdges (g : List α) : List α × List α :=
  let n := g.length
  let first := g.getD 0 0 - (g.getD 1 0 - g.getD 0 0) / 2
  let last := (g.getD (n - 1) 0 - g.getD (n - 2) 0) / 2 + g.getD (n - 1) 0
  let edges := first :: (midEdges g ++ [last])
  (edges, (diffs edges).map absv)

/-! ### argsort -/

/-- insert `x` before the first element whose key is not smaller (stable) -/
def insertBy {β : Type} (key : β → α) (x : β) : List β → List β
  | [] => [x]
  | y :: t => if key x ≤ key y then x :: y :: t else y :: insertBy key x t

/-- `a[a_key.argsort()]` as a stable insertion sort by key -/
def sortBy {β : Type} (key : β → α) (l : List β) : List β := l.foldr (insertBy key) []

/-! ### native bins -/

/-- one native spectral point: centre, full width, spectrum value, error -/
structure Row (α : Type) where
  c : α
  w : α
  s : α
  e : α

/-- `old_spect_min = old_spect_wn - old_spect_width/2` -/
def Row.lo (r : Row α) : α := r.c - r.w / 2
/-- `old_spect_max = old_spect_wn + old_spect_width/2` -/
def Row.hi (r : Row α) : α := r.c + r.w / 2

/-- attach the widths `compute_bin_edges(old_spect_wn)[-1]` to the sorted rows -/
def withWidths (rows : List (Row α)) (ws : List α) : List (Row α) :=
  List.zipWith (fun r w => { r with w := w }) rows ws

/-- the head of `FluxBinner.bindown`: sort grid, spectrum, error and explicit widths by wavenumber;
    without explicit widths take the mid-point widths of the sorted grid -/
def nativeBins (explicit : Bool) (rows : List (Row α)) : List (Row α) :=
  let sorted := sortBy Row.c rows
  if explicit then sorted else withWidths sorted (computeBinEdges (sorted.map Row.c)).2

/-! ### target bins -/

/-- one target bin: centre and full width -/
structure TBin (α : Type) where
  c : α
  w : α

/-- `new_spec_wn_min` -/
def TBin.lo (t : TBin α) : α := t.c - t.w / 2
/-- `new_spec_wn_max` -/
def TBin.hi (t : TBin α) : α := t.c + t.w / 2

/-- how `FluxBinner.__init__` was given the target widths -/
inductive WidthMode (α : Type) where
  | none                      -- `wngrid_width=None`: mid-point widths of the sorted grid
  | scalar (w : α)            -- a single number
  | array                     -- one width per grid point (carried in `TBin.w`)

/-- `FluxBinner.__init__`: grid sorted, widths permuted with it / computed from it / broadcast -/
def targetBins (mode : WidthMode α) (ts : List (TBin α)) : List (TBin α) :=
  let sorted := sortBy TBin.c ts
  match mode with
  | .array => sorted
  | .scalar w => sorted.map (fun t => { t with w := w })
  | .none => List.zipWith (fun t w => { t with w := w }) sorted (computeBinEdges (sorted.map TBin.c)).2

/-! ### the loop body of `FluxBinner.bindown` -/

/-- the two `searchsorted` calls, the two clamps and the skip test; `none` = `continue` -/
def window (rows : List (Row α)) (a b : α) : Option (Nat × Nat) :=
  let n := rows.length
  let start0 := searchRight (rows.map Row.hi) a
  let stop0 := searchRight ((rows.map Row.lo).drop 1) b
  let stop := min stop0 (n - 1)
  let start := min start0 (n - 1)
  if a ≤ (rows.map Row.hi).getD start 0 ∧ (rows.map Row.lo).getD stop 0 ≤ b then some (start, stop) else none

/-- `[save_start:save_stop+1]` -/
def slice {β : Type} (l : List β) (start stop : Nat) : List β := (l.drop start).take (stop + 1 - start)

/-- `(np.minimum(wn_max, spect_max) - np.maximum(spect_min, wn_min))/(wn_max-wn_min)` -/
def weight (a b : α) (r : Row α) : α := (mn b r.hi - mx r.lo a) / (b - a)

/-- binned value of one target bin `[a, b]` -/
def fluxBinVal (val : Row α → α) (rows : List (Row α)) (a b : α) : α :=
  match window rows a b with
  | none => 0
  | some (start, stop) =>
    let sl := slice rows start stop
    let sw := sumL (sl.map (weight a b))
    sumL (sl.map (fun r => weight a b r / sw * val r))

/-- `Σ weight·weight·err**2` and `Σ weight` over the window (or `none` when the bin is skipped) -/
def fluxBinNoise (err : Row α → α) (rows : List (Row α)) (a b : α) : Option (α × α) :=
  match window rows a b with
  | none => none
  | some (start, stop) =>
    let sl := slice rows start stop
    some (sumL (sl.map (fun r => weight a b r * weight a b r * (err r * err r))), sumL (sl.map (weight a b)))

/-- `FluxBinner.bindown(...)[1]` for one 1-D spectrum, in the order of the sorted target grid -/
def fluxBindown (explicit : Bool) (val : Row α → α) (rows : List (Row α)) (targets : List (TBin α)) : List α :=
  targets.map (fun t => fluxBinVal val (nativeBins explicit rows) t.lo t.hi)

/-! ### specification: overlap-weighted mean over *all* native bins -/

/-- length of `[a,b] ∩ [lo,hi]` -/
def overlap (a b : α) (r : Row α) : α := mx 0 (mn b r.hi - mx r.lo a)

/-- `Σ overlap·s / Σ overlap` -/
def overlapMeanSpec (val : Row α → α) (rows : List (Row α)) (a b : α) : α :=
  sumL (rows.map (fun r => overlap a b r * val r)) / sumL (rows.map (overlap a b))

/-- "ordered bins": lower edges and upper edges are each non-decreasing -/
def OrderedBins (rows : List (Row α)) : Prop :=
  rows.Pairwise (fun r r' => r.lo ≤ r'.lo) ∧ rows.Pairwise (fun r r' => r.hi ≤ r'.hi)

/-! ### histogram binner (`util.bindown`, used by `SimpleBinner`) -/

/-- `(new_bin[1:] + new_bin[:-1])/2` -/
def midPts : List α → List α
  | a :: b :: t => ((b + a) / 2) :: midPts (b :: t)
  | _ => []

/-- `filter_lhs` -/
def histEdges (nb : List α) : List α :=
  let n := nb.length
  let first := nb.getD 0 0 - (nb.getD 1 0 - nb.getD 0 0) / 2
  let last := nb.getD (n - 1) 0 + (nb.getD (n - 1) 0 - nb.getD (n - 2) 0) / 2
  first :: (midPts nb ++ [last])

/-- consecutive pairs `(e_i, e_{i+1}, i is the last bin)` -/
def edgePairs : List α → List (α × α × Bool)
  | a :: b :: [] => [(a, b, true)]
  | a :: b :: t => (a, b, false) :: edgePairs (b :: t)
  | _ => []

/-- membership of `np.histogram`: `[lo, hi)`, the last bin `[lo, hi]` -/
def inHist (lo hi : α) (last : Bool) (x : α) : Bool :=
  decide (lo ≤ x) && (if last then decide (x ≤ hi) else decide (x < hi))

/-- membership of `np.digitize(..., right=True)`: `(lo, hi]` -/
def inDigit (lo hi : α) (x : α) : Bool := decide (lo < x) && decide (x ≤ hi)

/-- mean of the selected points as the code forms it: sum of values / number of points -/
def meanOf (val : Row α → α) (sel : List (Row α)) : α :=
  sumL (sel.map val) / sumL (sel.map (fun _ => (1 : α)))

/-- 1-D path: `np.histogram(x, edges, weights=s)[0] / np.histogram(x, edges)[0]` -/
def histMean1 (val : Row α → α) (rows : List (Row α)) (nb : List α) : List α :=
  (edgePairs (histEdges nb)).map (fun p => meanOf val (rows.filter (fun r => inHist p.1 p.2.1 p.2.2 r.c)))

/-- N-D path: `original_data[..., digitized == i].mean(axis)` -/
def histMeanN (val : Row α → α) (rows : List (Row α)) (nb : List α) : List α :=
  (edgePairs (histEdges nb)).map (fun p => meanOf val (rows.filter (fun r => inDigit p.1 p.2.1 r.c)))

/-- `NativeBinner.bindown`: returns its arguments -/
def nativeBindown {β : Type} (x : β) : β := x

end

section
variable {α : Type} [Add α] [Sub α] [Mul α] [Div α] [Neg α] [LT α] [LE α]
  [DecidableLT α] [DecidableLE α] [OfNat α 0] [OfNat α 1] [OfNat α 2] [Transc α]

/-- `np.sqrt(sum_noise / sum_weight/sum_weight)`; 0 for a skipped bin -/
def fluxBinErr (err : Row α → α) (rows : List (Row α)) (a b : α) : α :=
  match fluxBinNoise err rows a b with
  | none => 0
  | some (sn, sw) => sqrt (sn / sw / sw)

/-- `FluxBinner.bindown(...)[2]` -/
def fluxBindownErr (explicit : Bool) (err : Row α → α) (rows : List (Row α)) (targets : List (TBin α)) :
    List α :=
  targets.map (fun t => fluxBinErr err (nativeBins explicit rows) t.lo t.hi)

/-- `sqrt(Σ overlap²·e²) / Σ overlap` -/
def quadErrSpec (err : Row α → α) (rows : List (Row α)) (a b : α) : α :=
  sqrt (sumL (rows.map (fun r => overlap a b r * overlap a b r * (err r * err r)))) /
    sumL (rows.map (overlap a b))

end

end Taurex.Binning
