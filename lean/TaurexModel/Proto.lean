/-
  Line protocol between the Python harness and the model driver.
  A request is one line of space-separated tokens: `<op> <args…>`.
  * naturals are decimal; * floats are the decimal value of their IEEE-754 bit pattern (u64);
  * ints are `n<k>` for negatives or plain naturals; * a list is its length followed by its elements;
  * strings are tokens without spaces (the harness escapes where necessary).
  A response is `ok <tokens…>` or `err <reason>`.
-/
namespace Taurex.Proto

abbrev P := StateT (List String) Option

def tok : P String := fun s =>
  match s with
  | [] => none
  | t :: ts => some (t, ts)

def nat : P Nat := do
  let t ← tok
  match t.toNat? with
  | some n => pure n
  | none => failure

def int : P Int := do
  let t ← tok
  match t.toInt? with
  | some n => pure n
  | none => failure

def flt : P Float := do
  let n ← nat
  pure (Float.ofBits (UInt64.ofNat n))

def bool : P Bool := do
  let n ← nat
  pure (n != 0)

def listOf {β : Type} (p : P β) : P (List β) := do
  let n ← nat
  let rec go : Nat → List β → P (List β)
    | 0, acc => pure acc.reverse
    | k + 1, acc => do
        let x ← p
        go k (x :: acc)
  go n []

def optOf {β : Type} (p : P β) : P (Option β) := do
  let n ← nat
  if n == 0 then pure none else do
    let x ← p
    pure (some x)

/-- run a parser on the argument tokens; all tokens must be consumed -/
def run {β : Type} (p : P β) (args : List String) : Option β :=
  match p args with
  | some (x, []) => some x
  | _ => none

def fF (x : Float) : String := toString x.toBits.toNat
def fN (n : Nat) : String := toString n
def fI (n : Int) : String := toString n
def fB (b : Bool) : String := if b then "1" else "0"

def fList {β : Type} (f : β → String) (l : List β) : String :=
  match l with
  | [] => "0"
  | _ => toString l.length ++ " " ++ " ".intercalate (l.map f)

def fOpt {β : Type} (f : β → String) (o : Option β) : String :=
  match o with
  | none => "0"
  | some x => "1 " ++ f x

/-- an operation: name and handler from argument tokens to response payload -/
abbrev Op := String × (List String → Option String)

end Taurex.Proto
