/-
  Model of the built-in temperature profiles (C12):
    taurex/data/profiles/temperature/isothermal.py : Isothermal.profile
    taurex/data/profiles/temperature/npoint.py     : NPoint.check_profile, NPoint.profile
    taurex/data/profiles/temperature/rodgers.py    : Rodgers2000.gen_covariance, correlate_temp, profile
    taurex/data/profiles/temperature/temparray.py  : TemperatureArray.__init__, profile  (file.py feeds it)
    taurex/data/profiles/temperature/guillot.py    : Guillot2010._check_values, profile
  Externals: np.interp / np.linspace / movingaverage (TaurexModel/NpInterp.lean),
  scipy.interpolate.interp1d(kind='linear', bounds_error=False, fill_value=(lo, hi)) = stable sort of the
  nodes by abscissa + np.interp + the two fill values outside the node range,
  scipy.special.expn(2, x) = the list `e2` handed in by the harness.
-/
import TaurexModel.NpInterp

namespace Taurex.Temperature
open Taurex.NpInterp

section
variable {α : Type} [Add α] [Sub α] [Mul α] [Div α] [Neg α] [LT α] [LE α]
  [DecidableLT α] [DecidableLE α] [OfNat α 0]

/-- `Isothermal.profile`: `T = np.zeros(nlayers); T[:] = T_iso` -/
def isothermal (t : α) (n : Nat) : List α := List.replicate n t

/-! ### NPoint -/

/-- `P = self._P_surface; if P is None or P < 0: P = pressure_profile[0]` (same for the top) -/
def resolveP (given : Option α) (dflt : α) : α :=
  match given with
  | none => dflt
  | some v => if v < 0 then dflt else v

/-- `any(Ppt[i] <= Ppt[i+1] for i in range(len(Ppt)-1))` -/
def pressureInverted : List α → Bool
  | p0 :: p1 :: ps => decide (p0 ≤ p1) || pressureInverted (p1 :: ps)
  | _ => false

variable [Transc α]

/-- `any(abs((Tpt[i+1]-Tpt[i])/(log10(Ppt[i+1])-log10(Ppt[i]))) >= limit for i in range(len(Ppt)-1))` -/
def slopeTooHigh (limit : α) : List α → List α → Bool
  | p0 :: p1 :: ps, t0 :: t1 :: ts =>
      decide (limit ≤ absv ((t1 - t0) / (log10 p1 - log10 p0))) || slopeTooHigh limit (p1 :: ps) (t1 :: ts)
  | _, _ => false

/-- constructor arguments of `NPoint` -/
structure NPointParams (α : Type) where
  tSurface : α
  tTop : α
  pSurface : Option α
  pTop : Option α
  tPoints : List α
  pPoints : List α
  window : α
  limitSlope : α

/-- `Tnodes = [T_surface, *t_points, T_top]` -/
def NPointParams.tNodes (q : NPointParams α) : List α := q.tSurface :: (q.tPoints ++ [q.tTop])

/-- `Pnodes = [Psurface, *p_points, Ptop]` with unset / negative ends taken from the pressure grid -/
def NPointParams.pNodes (q : NPointParams α) (pressure : List α) : List α :=
  resolveP q.pSurface (pressure.getD 0 0) ::
    (q.pPoints ++ [resolveP q.pTop (pressure.getD (pressure.length - 1) 0)])

/-- `check_profile`: `true` when `InvalidTemperatureException` is raised -/
def NPointParams.rejected (q : NPointParams α) (pressure : List α) : Bool :=
  pressureInverted (q.pNodes pressure) || slopeTooHigh q.limitSlope (q.pNodes pressure) q.tNodes

variable [NatConv α] [OfNat α 100]

/-- `TP = np.interp(log10(pressure[::-1]), log10(Pnodes[::-1]), Tnodes[::-1])` -/
def NPointParams.interpolated (q : NPointParams α) (pressure : List α) : List α :=
  let xp := (q.pNodes pressure).reverse.map log10
  let fp := q.tNodes.reverse
  pressure.reverse.map (fun p => npInterp xp fp (log10 p))

/-- `NPoint.profile` after `initialize_profile(planet, nlayers, pressure)`.
    (The shortcut `np.all(Tnodes == Tnodes[0])` compares a Python list with a float and is never taken.) -/
def nPoint (q : NPointParams α) (nlayers : Nat) (pressure : List α) : Outcome (List α) :=
  if q.rejected pressure then .invalid
  else
    let tp := q.interpolated pressure
    let wsize := oddWindow nlayers q.window
    assembleSmoothed tp (movingAverage tp wsize)

/-! ### Rodgers 2000 -/

variable [OfNat α 1]

/-- `gen_covariance`: `exp(-1.0 * |log(p_i / p_j)| / h)` -/
def genCovariance (h : α) (p : List α) : List (List α) :=
  p.map (fun pi => p.map (fun pj => exp (-1 * absv (log (pi / pj)) / h)))

/-- `np.sum(cov, axis=0)` -/
def colSums (cov : List (List α)) : List α :=
  (List.range ((cov.getD 0 []).length)).map (fun j => sumL (cov.map (fun row => row.getD j 0)))

/-- `correlate_temp`: `weights = cov / cov.sum(axis=0)[:, None]; weights.dot(T)`
    (row `i` is divided by the sum of COLUMN `i`) -/
def correlateTemp (cov : List (List α)) (t : List α) : List α :=
  List.zipWith (fun row s => sumL (List.zipWith (fun c tj => c / s * tj) row t)) cov (colSums cov)

/-- `Rodgers2000.profile` -/
def rodgers (tLayers : List α) (h : α) (userCov : Option (List (List α))) (pressure : List α) : List α :=
  match userCov with
  | some cov => correlateTemp cov tLayers
  | none => correlateTemp (genCovariance h pressure) tLayers

/-! ### TemperatureArray (and TemperatureFile, which only loads the two columns) -/

/-- stable insertion by abscissa (`np.argsort(x, kind='mergesort')` inside `interp1d`) -/
def insertByKey (kv : α × α) : List (α × α) → List (α × α)
  | [] => [kv]
  | h :: t => if kv.1 ≤ h.1 then kv :: h :: t else h :: insertByKey kv t

def sortByKey (l : List (α × α)) : List (α × α) := l.foldr insertByKey []

/-- `TemperatureArray.profile` without pressure points -/
def tempArrayPlain (tp : List α) (nlayers : Nat) : List α :=
  if tp.length = nlayers then tp
  else
    let interpTemp := linspace (1 : α) 0 tp.length
    let interpArray := linspace (1 : α) 0 nlayers
    interpArray.reverse.map (npInterp interpTemp.reverse tp.reverse)

/-- `TemperatureArray.profile` with pressure points:
    `interp1d(log10(p_points), tp, bounds_error=False, fill_value=(tp[-1], tp[0]))(log10(pressure))` -/
def tempArrayPressure (tp pp pressure : List α) : List α :=
  let nodes := sortByKey ((pp.map log10).zip tp)
  let sx := nodes.map (·.1)
  let sy := nodes.map (·.2)
  pressure.map (fun p =>
    let x := log10 p
    if x < sx.getD 0 0 then tp.getD (tp.length - 1) 0
    else if sx.getD (sx.length - 1) 0 < x then tp.getD 0 0
    else npInterp sx sy x)

/-- `TemperatureArray(tp_array, p_points, reverse)` + `profile` -/
def tempArray (tp : List α) (pp : Option (List α)) (rev : Bool) (nlayers : Nat) (pressure : List α) : List α :=
  let tp' := if rev then tp.reverse else tp
  match pp with
  | none => tempArrayPlain tp' nlayers
  | some pts => tempArrayPressure tp' (if rev then pts.reverse else pts) pressure

/-! ### TempScaler (the temperature mixin `tempscalar+<profile>`)

`TempScaler.profile` is `super().profile * self._scale_factor`: a NEW array, every entry of the wrapped profile times the scale
factor; the wrapped profile (its stored control temperatures included) is what it was. -/

/-- `TempScaler.profile` over the wrapped class's profile `prof` -/
def tempScaler (scale : α) (prof : List α) : List α := prof.map (fun t => t * scale)

/-- `k` successive evaluations of `.profile` of a scaled TemperatureArray: each one evaluates the wrapped profile from the
    stored controls and scales the result -/
def tempScalerReads (scale : α) (tp : List α) (pp : Option (List α)) (rev : Bool) (nlayers : Nat) (pressure : List α)
    (k : Nat) : List (List α) :=
  List.replicate k (tempScaler scale (tempArray tp pp rev nlayers pressure))

/-! ### Guillot 2010 -/

variable [OfNat α 2] [OfNat α 3] [OfNat α 4]

structure GuillotParams (α : Type) where
  tIrr : α
  kappaIr : α
  kappaV1 : α
  kappaV2 : α
  alpha : α
  tInt : α

/-- `x == 0.0` -/
def isZero (x : α) : Bool := !(decide (x < 0)) && !(decide (0 < x))

/-- `_check_values`: `true` when `InvalidModelException` is raised -/
def GuillotParams.rejected (q : GuillotParams α) : Bool :=
  if isZero q.kappaIr then true
  else if isZero (q.kappaV1 / q.kappaIr) || isZero (q.kappaV2 / q.kappaIr) then true
  else if decide (q.tIrr < 0) || decide (q.tInt < 0) then true
  else false

/-- `eta(gamma, tau)` with `e2 = scipy.special.expn(2, gamma*tau)` -/
def eta (gamma tau e2 : α) : α :=
  let part1 := 2 / 3 + 2 / (3 * gamma) * (1 + (gamma * tau / 2 - 1) * exp (-1 * gamma * tau))
  let part2 := 2 * gamma / 3 * (1 - tau * tau / 2) * e2
  part1 + part2

def pow4 (x : α) : α := x * x * x * x

/-- `T4` of `Guillot2010.profile` for one layer (`tau = kappa_ir * P / g`) -/
def guillotT4 (q : GuillotParams α) (tau e21 e22 : α) : α :=
  let g1 := q.kappaV1 / q.kappaIr
  let g2 := q.kappaV2 / q.kappaIr
  3 * pow4 q.tInt / 4 * (2 / 3 + tau) + 3 * pow4 q.tIrr / 4 * (1 - q.alpha) * eta g1 tau e21
    + 3 * pow4 q.tIrr / 4 * q.alpha * eta g2 tau e22

/-- `Guillot2010.profile`: `T = T4 ** 0.25`; `e21[l] = E2(gamma_1 tau_l)`, `e22[l] = E2(gamma_2 tau_l)` -/
def guillot (q : GuillotParams α) (gravity : α) (pressure e21 e22 : List α) : Outcome (List α) :=
  if q.rejected then .invalid
  else
    .ok (List.zipWith (fun p (e : α × α) =>
          let tau := q.kappaIr * p / gravity
          sqrt (sqrt (guillotT4 q tau e.1 e.2))) pressure (e21.zip e22))

end

end Taurex.Temperature
