/-
  Which abundance profile a contribution weights a species' cross-section with (C03: "each component's opacity is its
  cross-section weighted by THAT SPECIES' mixing ratio layer by layer"):
    taurex/data/profiles/chemistry/chemistry.py: Chemistry.get_gas_mix_profile     — `gasMix` (the look-up rule)
    taurex/mixin/mixins.py: MakeFreeMixin (activeGases / inactiveGases / activeGasMixProfile / inactiveGasMixProfile /
      initialize_chemistry: a tabulated or computed chemistry in which molecules are REPLACED by, or new molecules added as,
      free `Gas` objects; everything renormalised by the column sum)                  — `freedActive`, `freedInactive`
  A table of the chemistry (`activeGases` with `activeGasMixProfile`, `inactiveGases` with `inactiveGasMixProfile`) is the
  list of (name, row) pairs in the order of the name list; `names.index(name)` followed by `rows[idx]` is the first pair
  with that name.
-/
import TaurexModel.Num

namespace Taurex.MixLookup

section
variable {α : Type}

/-- `names.index(name)`; `rows[idx]` -/
def rowOf (tbl : List (String × (Nat → α))) (name : String) : Option (Nat → α) :=
  (tbl.find? (fun p => p.1 == name)).map (·.2)

/-- `Chemistry.get_gas_mix_profile(gas_name)`: the row of `activeGasMixProfile` if the gas is active, else the row of
    `inactiveGasMixProfile` if it is inactive, else `KeyError` (`none`) -/
def gasMix (active inactive : List (String × (Nat → α))) (name : String) : Option (Nat → α) :=
  match rowOf active name with
  | some r => some r
  | none => rowOf inactive name

/-- a free gas handed to `MakeFreeMixin.addGas`: molecule, its mixing profile (`Gas.mixProfile`) and whether an opacity is
    available for it (`molecule in availableActive`: decides active / inactive for a molecule that is NEW to the chemistry) -/
structure Free (α : Type) where
  mol : String
  prof : Nat → α
  canAbsorb : Bool

def hasName (tbl : List (String × (Nat → α))) (name : String) : Bool := tbl.any (fun p => p.1 == name)

/-- `for g, idx in self.active_exist: mix_profile[idx] = g.mixProfile` (the names are kept, the rows of freed molecules
    replaced) -/
def replaceRows (tbl : List (String × (Nat → α))) (free : List (Free α)) : List (String × (Nat → α)) :=
  tbl.map fun p => match free.find? (fun f => f.mol == p.1) with
    | some f => (p.1, f.prof)
    | none => p

/-- `active_nonexist` / `inactive_nonexist` of `determine_new_mix_mask`: free gases in neither list of the wrapped chemistry -/
def newGases (active inactive : List (String × (Nat → α))) (free : List (Free α)) (absorbing : Bool) :
    List (String × (Nat → α)) :=
  (free.filter fun f => !hasName active f.mol && !hasName inactive f.mol && (f.canAbsorb == absorbing)).map
    fun f => (f.mol, f.prof)

/-- the un-normalised active table: wrapped rows with the freed ones replaced, then the new absorbing molecules -/
def rawActive (active inactive : List (String × (Nat → α))) (free : List (Free α)) : List (String × (Nat → α)) :=
  replaceRows active free ++ newGases active inactive free true

def rawInactive (active inactive : List (String × (Nat → α))) (free : List (Free α)) : List (String × (Nat → α)) :=
  replaceRows inactive free ++ newGases active inactive free false

variable [Add α] [Div α] [OfNat α 0]

/-- `np.sum(table, axis=0)` in layer `l` -/
def colSum (tbl : List (String × (Nat → α))) (l : Nat) : α := tbl.foldl (fun a p => a + p.2 l) 0

/-- `norm_factor = np.sum(activeGasMixProfile, axis=0) + np.sum(inactiveGasMixProfile, axis=0)` (taken with
    `norm_factor = 1`) -/
def normFactor (active inactive : List (String × (Nat → α))) (free : List (Free α)) (l : Nat) : α :=
  colSum (rawActive active inactive free) l + colSum (rawInactive active inactive free) l

/-- `MakeFreeMixin.activeGases` with `activeGasMixProfile` after `initialize_chemistry` -/
def freedActive (active inactive : List (String × (Nat → α))) (free : List (Free α)) : List (String × (Nat → α)) :=
  (rawActive active inactive free).map fun p => (p.1, fun l => p.2 l / normFactor active inactive free l)

/-- `MakeFreeMixin.inactiveGases` with `inactiveGasMixProfile` -/
def freedInactive (active inactive : List (String × (Nat → α))) (free : List (Free α)) : List (String × (Nat → α)) :=
  (rawInactive active inactive free).map fun p => (p.1, fun l => p.2 l / normFactor active inactive free l)

end

section
variable {α : Type} [Add α] [Mul α] [OfNat α 0]

/-- weight of one table in layer `l`: `sum_i mix_i[l] * mass(name_i)` -/
def tableWeight (mass : String → α) (tbl : List (String × (Nat → α))) (l : Nat) : α :=
  tbl.foldl (fun a p => a + p.2 l * mass p.1) 0

/-- taurex/mixin/mixins.py: `MakeFreeMixin.compute_mu_profile` (as repaired): the mean molecular weight of the mixture the
    chemistry PUBLISHES — the active table plus the inactive table, each row times the molecule's mass -/
def muOf (mass : String → α) (active inactive : List (String × (Nat → α))) (l : Nat) : α :=
  tableWeight mass active l + tableWeight mass inactive l

end

end Taurex.MixLookup
