/-
  Model of the table of fitting parameters an object DECLARES (taurex/data/fittable.py), i.e. of everything that happens
  to a parameter before the optimizer reads its tuple:
    fitparam(f=None, param_name, param_latex, default_mode='linear', default_fit=False, default_bounds=[0.0, 1.0])
        — the decorator, in its keyword-only form `@fitparam(param_name=…, …)` (a `functools.partial` that must forward
          every keyword) and in its direct form `fitparam(f, param_name=…, …)`;
    Fittable.compile_fitparams / add_fittable_param — the tuple
          (param_name, param_latex, fget, fset, default_mode, default_fit, default_bounds)
          stored under `param_name`; a second declaration of a name is an AttributeError;
    Fittable.modify_bounds(parameter, new_bounds) — re-packs the tuple with the new bounds and nothing else changed
          (KeyError for a name that is not declared);
    ForwardModel.fittingParameters — the LIVE table of the object (`self._fitting_parameters = self.fitting_parameters()`),
          so declarations and boundary changes made after `ForwardModel.__init__` returned are seen by the optimizer.
  Only the settings slots of the tuple are modelled (name, mode, fit flag, bounds); latex, getter and setter are opaque.
  The default prior `compile_params` derives from an entry is `Priors.defaultPrior` of ITS mode and ITS bounds.
  Import-free (no Mathlib).
-/
import TaurexModel.Priors

namespace Taurex.FittableTable
open Taurex.Priors

/-- the settings slots of one parameter tuple -/
structure Entry (α : Type) where
  name : String
  mode : FitMode
  fit : Bool
  b0 : α
  b1 : α
  deriving Repr, DecidableEq

/-- one declaration as written: the keywords `default_mode`, `default_fit`, `default_bounds` may be left out
    (decorator only; `add_fittable_param` takes all of them) -/
structure Decl (α : Type) where
  name : String
  mode : Option FitMode
  fit : Option Bool
  bounds : Option (α × α)

section
variable {α : Type}

/-- declaration → tuple: a keyword left out takes the signature default `'linear'`, `False`, `[0.0, 1.0]`;
    a keyword given is stored as given -/
def Decl.entry [OfNat α 0] [OfNat α 1] (d : Decl α) : Entry α :=
  { name := d.name
    mode := d.mode.getD .linear
    fit := d.fit.getD false
    b0 := (d.bounds.getD (0, 1)).1
    b1 := (d.bounds.getD (0, 1)).2 }

/-- `self._param_dict[name]` (`none` = KeyError) -/
def lookup (t : List (Entry α)) (n : String) : Option (Entry α) := t.find? (fun e => e.name == n)

/-- `add_fittable_param`: AttributeError (`none`) when the name exists, else a new last entry of the dictionary -/
def addParam (t : List (Entry α)) (e : Entry α) : Option (List (Entry α)) :=
  if t.any (fun x => x.name == e.name) then none else some (t ++ [e])

/-- `compile_fitparams` + later `add_fittable_param` calls: the declarations in order -/
def declareAll [OfNat α 0] [OfNat α 1] : List (Entry α) → List (Decl α) → Option (List (Entry α))
  | t, [] => some t
  | t, d :: ds =>
    match addParam t d.entry with
    | some t' => declareAll t' ds
    | none => none

/-- `modify_bounds(parameter, new_bounds)`: KeyError (`none`) for an undeclared name; the entry keeps its place in
    the dictionary, its name, mode and fit flag, and gets the new bounds -/
def modifyBounds (t : List (Entry α)) (n : String) (b0 b1 : α) : Option (List (Entry α)) :=
  if t.any (fun x => x.name == n) then
    some (t.map (fun e => if e.name == n then { e with b0 := b0, b1 := b1 } else e))
  else none

/-- a history of `modify_bounds` calls -/
def runHist : List (Entry α) → List (String × α × α) → Option (List (Entry α))
  | t, [] => some t
  | t, h :: hs =>
    match modifyBounds t h.1 h.2.1 h.2.2 with
    | some t' => runHist t' hs
    | none => none

/-- the bounds a parameter has after a history: those of the last call naming it, else the ones it had -/
def lastBounds (n : String) : List (String × α × α) → α × α → α × α
  | [], d => d
  | h :: hs, d => lastBounds n hs (if h.1 == n then h.2 else d)

/-- the table the optimizer sees for an object: its declarations, then its boundary changes -/
def declaredTable [OfNat α 0] [OfNat α 1] (decls : List (Decl α)) (hist : List (String × α × α)) :
    Option (List (Entry α)) :=
  match declareAll [] decls with
  | some t => runHist t hist
  | none => none

/-- the prior `compile_params` builds for a declared parameter without a user prior
    (outer `none`: KeyError, inner `none`: the ValueError of `LogUniform(lin_bounds=…)` on a non-positive bound) -/
def defaultOf [LT α] [DecidableLT α] [OfNat α 0] [Transc α] (t : List (Entry α)) (n : String) :
    Option (Option (Prior α)) :=
  (lookup t n).map (fun e => defaultPrior e.mode e.b0 e.b1)

end

end Taurex.FittableTable
