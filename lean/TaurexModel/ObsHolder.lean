/-
  Model of the consumer that holds the binner created from an observation:
    taurex/optimizer/optimizer.py:Optimizer.__init__ (→ set_observed), set_observed, chisq_trans
  `Optimizer` keeps `_observed` and the `_binner` made by `observed.create_binner()`; `set_observed(None)` only
  replaces `_observed`.  `chisq_trans` bins the forward model with the HELD binner and compares it element by element
  with the HELD observation's values: `nansum(((observed.spectrum - binned)/datastd)**2)`.
-/
import TaurexModel.Observation

namespace Taurex.Observation
open Taurex.Binning

section
variable {α : Type} [Add α] [Sub α] [Mul α] [Div α] [Neg α] [LT α] [LE α]
  [DecidableLT α] [DecidableLE α] [OfNat α 0] [OfNat α 1] [OfNat α 2] [OfNat α 10000]

/-- what an optimizer holds of the observation it is fitted to (`binner = none`: attribute not set yet) -/
structure Holder (α : Type) where
  observed : Option (Obs α)
  binner : Option (List (TBin α))

/-- `Optimizer.set_observed(observed)` -/
def Holder.setObserved (h : Holder α) (o : Option (Obs α)) : Holder α :=
  match o with
  | none => { h with observed := none }
  | some ob => { observed := some ob, binner := some ob.createBinner }

/-- `Optimizer(observed=o)`: `__init__` calls `set_observed(o)` on the blank object -/
def Holder.new (o : Option (Obs α)) : Holder α :=
  Holder.setObserved { observed := none, binner := none } o

/-- a history of `set_observed` calls on one object -/
def Holder.after (h : Holder α) (ops : List (Option (Obs α))) : Holder α := ops.foldl Holder.setObserved h

/-- `self._binner.bin_model(model)[1]`: the forward model binned with the held binner -/
def Holder.binModel (h : Holder α) (native : List (Row α)) : Option (List α) :=
  h.binner.map (fun b => fluxBindown false Row.s native b)

/-- `sum(((v - m)/e)**2)`, accumulated from the left -/
def chiSquared (v m e : List α) : α :=
  (List.zipWith (fun vm e => ((vm.1 - vm.2) / e) * ((vm.1 - vm.2) / e)) (List.zip v m) e).foldl (· + ·) 0

/-- `chisq_trans([], _, observed.errorBar)`; `none` where the real code raises (no observation / no binner) -/
def Holder.chisq (h : Holder α) (native : List (Row α)) : Option α :=
  match h.observed, h.binModel native with
  | some o, some m => some (chiSquared o.spectrum m o.errorBar)
  | _, _ => none


/-! The command-line program as a holder: `taurex/taurex.py:main`.  It reads an `[Observation]` (a file, or `self` = "observe
    my own forward model through the `[Instrument]`"), a `[Binning]` section, picks a binner, runs the instrument and writes
    the forward model binned with the binner it then holds next to the observation (`Output/Spectra/binned_*`, `Observed/*`).
    Wherever the program binds its output to the observation (no `[Binning]` section or `bin_type = observed` with an
    observation file; `taurex_spectrum = self` with whatever `[Binning]`) the binner is the one created from THAT observation. -/

/-- the `[Binning]` section as `main` sees it (`ParameterParser.generate_binning`) -/
inductive BinDecl where
  | absent | native | observed | manual
  deriving DecidableEq, Repr

/-- the `[Observation]` section as `main` sees it (`ParameterParser.generate_observation`) -/
inductive ObsDecl (α : Type) where
  | absent
  | given (o : Obs α)
  | self

/-- the binner `main` holds: the forward model's native binner, the grid declared in `[Binning]` (its content is not the
    observation's business), or a binner created from an observation -/
inductive ProgBinner (α : Type) where
  | native
  | manual
  | ofObs (bins : List (TBin α))

/-- what `main` holds when it writes the output -/
structure Program (α : Type) where
  observed : Option (Obs α)
  binner : ProgBinner α

/-- the binner chosen before the instrument runs (`none`: the program stops — `bin_type = observed` without an observation
    object) -/
def Program.choose (b : BinDecl) (o : ObsDecl α) : Option (ProgBinner α) :=
  match b, o with
  | .absent, .given ob => some (.ofObs ob.createBinner)
  | .absent, _ => some .native
  | .native, _ => some .native
  | .observed, .given ob => some (.ofObs ob.createBinner)
  | .observed, _ => none
  | .manual, _ => some .manual

/-- `main` up to the output.  `inst`: the rows `(wn, spectrum, noise, wn width)` the instrument returned (`none`: no
    `[Instrument]`).  With `taurex_spectrum = self` the observation becomes
    `ArraySpectrum([10000/wn, spectrum, noise, wnwidth_to_wlwidth(wn, width)])` and the binner is re-created from it. -/
def Program.run (b : BinDecl) (o : ObsDecl α) (inst : Option (List (ORow α))) : Option (Program α) :=
  match Program.choose b o with
  | none => none
  | some chosen =>
    match o, inst with
    | .self, none => none
    | .self, some rows =>
      let ob := load true (rows.map fromTaurex)
      some { observed := some ob, binner := .ofObs ob.createBinner }
    | .given ob, _ => some { observed := some ob, binner := chosen }
    | .absent, _ => some { observed := none, binner := chosen }

/-- `binning.bin_model(model.model())[1]` of the output (`none`: native / declared grid, not an observation's) -/
def Program.binModel (p : Program α) (native : List (Row α)) : Option (List α) :=
  match p.binner with
  | .ofObs b => some (fluxBindown false Row.s native b)
  | _ => none

end

end Taurex.Observation
