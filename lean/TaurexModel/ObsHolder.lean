/-
  Model of the consumer that holds the binner created from an observation:
    taurex/optimizer/optimizer.py:Optimizer.__init__ (→ set_observed), set_observed, chisq_trans
  `Optimizer` keeps `_observed` and the `_binner` made by `observed.create_binner()`; `set_observed(None)` only
  replaces `_observed`.  `chisq_trans` bins the forward model with the HELD binner and compares it element by element
  with the HELD observation's values: `nansum(((observed.spectrum - binned)/datastd)**2)`.
-/
import TaurexModel.Observation

namespace Taurex.Observation
open Taurex.Binning

section
variable {α : Type} [Add α] [Sub α] [Mul α] [Div α] [Neg α] [LT α] [LE α]
  [DecidableLT α] [DecidableLE α] [OfNat α 0] [OfNat α 1] [OfNat α 2] [OfNat α 10000]

/-- what an optimizer holds of the observation it is fitted to (`binner = none`: attribute not set yet) -/
structure Holder (α : Type) where
  observed : Option (Obs α)
  binner : Option (List (TBin α))

/-- `Optimizer.set_observed(observed)` -/
def Holder.setObserved (h : Holder α) (o : Option (Obs α)) : Holder α :=
  match o with
  | none => { h with observed := none }
  | some ob => { observed := some ob, binner := some ob.createBinner }

/-- `Optimizer(observed=o)`: `__init__` calls `set_observed(o)` on the blank object -/
def Holder.new (o : Option (Obs α)) : Holder α :=
  Holder.setObserved { observed := none, binner := none } o

/-- a history of `set_observed` calls on one object -/
def Holder.after (h : Holder α) (ops : List (Option (Obs α))) : Holder α := ops.foldl Holder.setObserved h

/-- `self._binner.bin_model(model)[1]`: the forward model binned with the held binner -/
def Holder.binModel (h : Holder α) (native : List (Row α)) : Option (List α) :=
  h.binner.map (fun b => fluxBindown false Row.s native b)

/-- `sum(((v - m)/e)**2)`, accumulated from the left -/
def chiSquared (v m e : List α) : α :=
  (List.zipWith (fun vm e => ((vm.1 - vm.2) / e) * ((vm.1 - vm.2) / e)) (List.zip v m) e).foldl (· + ·) 0

/-- `chisq_trans([], _, observed.errorBar)`; `none` where the real code raises (no observation / no binner) -/
def Holder.chisq (h : Holder α) (native : List (Row α)) : Option α :=
  match h.observed, h.binModel native with
  | some o, some m => some (chiSquared o.spectrum m o.errorBar)
  | _, _ => none

end

end Taurex.Observation
