/-
  Carrier classes for the numerical model.

  Every numerical definition of the model is written once, polymorphic in the carrier `α`,
  using only the *standard* operator classes (`Add`, `Sub`, `Mul`, `Div`, `Neg`, `LT`, `LE`,
  `OfNat α n`) plus the small class `Transc` below for the transcendental functions.
  Instantiated at `Float` the definitions are executed by the driver (correspondence check);
  instantiated at `ℝ` (Mathlib's instances are found by ordinary instance resolution, so the
  unfolded term is literally Mathlib's `a + b`, `a < b`, …) they are what the theorems talk about;
  instantiated at `Rat` they give kernel-decidable counter-examples.

  This file is import-free (no Mathlib), so that the driver links as a `lean_exe`.
-/

namespace Taurex

/-- transcendental functions used by the kernels -/
class Transc (α : Type) where
  exp : α → α
  log : α → α
  log10 : α → α
  sqrt : α → α
  /-- `pow10 x = 10 ** x` -/
  pow10 : α → α

export Transc (exp log log10 sqrt pow10)

instance : Transc Float where
  exp := Float.exp
  log := Float.log
  log10 := Float.log10
  sqrt := Float.sqrt
  pow10 := fun x => Float.pow 10.0 x

/-- extended value: what a Python float can be, as far as the properties care -/
inductive Val (α : Type) where
  | fin (x : α)
  | nan
  | posInf
  deriving Repr, DecidableEq

end Taurex
