/-
  State machine of the lazy opacity cache:
    taurex/cache/opacitycache.py: __getitem__, load_opacity, load_opacity_from_path, add_opacity,
                                  set_opacity_path, set_interpolation, set_memory_mode, clear_cache
    taurex/cache/globalcache.py (keys xsec_path, xsec_interpolation, xsec_in_memory), singleton.py
    the `discover()` class methods of PickleOpacity / HDF5Opacity / ExoTransmitOpacity.
  The file system is a parameter: each directory is the list of files in the order the cache visits them
  (classes sorted by `priority()`, HDF5 first; glob order inside a class).  Object identity is a counter
  incremented at every constructor call made to load a molecule; `log` records these calls.

  taurex/cache/ktablecache.py (KTableCache: __getitem__, load_opacity_from_path, add_opacity, set_ktable_path, clear_cache) is
  the variant `stepK` below under the reading dict = KTableCache().opacity_dict, path = GlobalCache()['ktable_path'],
  files = pickle / HDF5 k-tables, `setInterp` = OpacityCache().set_interpolation (which clears BOTH caches since the fix),
  `clear` = KTableCache().clear_cache(); `setMem` is not an operation of that cache.  KTableCache's loop lacks the
  `mol not in self.opacity_dict` test of `loadStep` (`loadStepK`); the two machines coincide when a directory holds one k-table
  file per molecule (`UniqueDisc`, Props/C14.lean: ktable_same_machine).  taurex/cache/ciaacache.py is `CiaSM` at the end of
  this file.
-/
namespace Taurex.CacheSM

inductive Fmt where
  | hdf
  | pickle
  | exo
  | kpickle
  | khdf
  deriving DecidableEq, Repr

/-- one discoverable file -/
structure FileEntry where
  fmt : Fmt
  fileId : Nat
  /-- molecule name advertised by `discover()` -/
  disc : String
  /-- `moleculeName` of the object the constructor builds from it -/
  obj : String
  deriving DecidableEq, Repr

/-- a directory: does it exist, and its files in visiting order -/
structure Dir where
  isDir : Bool
  files : List FileEntry
  deriving DecidableEq, Repr

/-- an opacity object as far as the cache property cares -/
structure Obj where
  id : Nat
  mol : String
  /-- interpolation mode handed to the constructor (0 = 'linear', 1 = 'exp') -/
  mode : Nat
  /-- `in_memory` of an HDF5 opacity (`none` for the other classes) -/
  inMem : Option Bool
  /-- file it was loaded from; `none` = put into the cache by the user (`add_opacity`) -/
  src : Option Nat
  deriving DecidableEq, Repr

structure CSt where
  /-- `opacity_dict` (insertion order) -/
  dict : List (String × Obj)
  /-- `GlobalCache()['xsec_path']` (index into the file system) -/
  path : Option Nat
  /-- `GlobalCache()['xsec_interpolation']` -/
  interp : Option Nat
  /-- `GlobalCache()['xsec_in_memory']` -/
  memMode : Option Bool
  /-- every constructor call made by `load_opacity_from_path`: (molecule asked for, file) -/
  log : List (String × Nat)
  nextId : Nat
  deriving DecidableEq, Repr

def init : CSt := { dict := [], path := none, interp := none, memMode := none, log := [], nextId := 0 }

inductive COp where
  | get (m : String)
  | setPath (p : Nat)
  | setInterp (k : Nat)
  | setMem (b : Bool)
  | clear
  | add (m : String) (k : Nat)
  deriving DecidableEq, Repr

inductive Resp where
  | served (o : Obj)
  /-- `Exception('Opacity could not be loaded')` -/
  | missing
  | done
  /-- `NotADirectoryError` of `set_opacity_path` (the path is stored nevertheless) -/
  | notADir
  deriving DecidableEq, Repr

def hasKey (d : List (String × Obj)) (m : String) : Bool := d.any (fun e => e.1 == m)

def lookup (d : List (String × Obj)) (m : String) : Option Obj := (d.find? (fun e => e.1 == m)).map (·.2)

/-- `GlobalCache()['xsec_interpolation'] or 'linear'` -/
def interpOr (s : CSt) : Nat := s.interp.getD 0

/-- `GlobalCache()['xsec_in_memory'] or True` -/
def memOrTrue (b : Option Bool) : Bool :=
  match b with
  | some true => true
  | _ => true

/-- `add_opacity(opacity, molecule_filter)` -/
def addOpacity (s : CSt) (o : Obj) (filter : Option String) : CSt :=
  if hasKey s.dict o.mol then s
  else match filter with
    | some f => if o.mol == f then { s with dict := s.dict ++ [(o.mol, o)] } else s
    | none => { s with dict := s.dict ++ [(o.mol, o)] }

/-- body of the double loop of `load_opacity_from_path(path, molecule_filter=[m])` for one discovered file -/
def loadStep (m : String) (s : CSt) (e : FileEntry) : CSt :=
  if e.disc == m && !hasKey s.dict e.disc then
    let o : Obj := { id := s.nextId, mol := e.obj, mode := interpOr s,
                     inMem := if e.fmt = Fmt.hdf then some (memOrTrue s.memMode) else none,
                     src := some e.fileId }
    let s1 := { s with nextId := s.nextId + 1, log := s.log ++ [(m, e.fileId)] }
    if !hasKey s1.dict o.mol then addOpacity s1 o (some m) else s1
  else s

/-- the files `discover()` finds under the configured path -/
def curFiles (fs : List Dir) (s : CSt) : List FileEntry :=
  match s.path with
  | none => []
  | some p => match fs[p]? with
    | none => []
    | some d => if d.isDir then d.files else []

def loadFrom (fs : List Dir) (m : String) (s : CSt) : CSt := (curFiles fs s).foldl (loadStep m) s

def step (fs : List Dir) (s : CSt) : COp → CSt × Resp
  | .get m =>
    match lookup s.dict m with
    | some o => (s, .served o)
    | none =>
      let s' := loadFrom fs m s
      match lookup s'.dict m with
      | some o => (s', .served o)
      | none => (s', .missing)
  | .setPath p =>
    let s' := { s with path := some p }
    match fs[p]? with
    | some d => if d.isDir then (s', .done) else (s', .notADir)
    | none => (s', .notADir)
  | .setInterp k => ({ s with interp := some k, dict := [] }, .done)
  | .setMem b => ({ s with memMode := some b, dict := [] }, .done)
  | .clear => ({ s with dict := [] }, .done)
  | .add m k =>
    let o : Obj := { id := s.nextId, mol := m, mode := k, inMem := none, src := none }
    (addOpacity { s with nextId := s.nextId + 1 } o none, .done)

/-- operations that empty `opacity_dict` -/
def COp.clears : COp → Bool
  | .setInterp _ => true
  | .setMem _ => true
  | .clear => true
  | _ => false

def run (fs : List Dir) (s : CSt) (ops : List COp) : CSt := ops.foldl (fun s op => (step fs s op).1) s

/-- the responses of a history, in order -/
def trace (fs : List Dir) : CSt → List COp → List Resp
  | _, [] => []
  | s, op :: ops => (step fs s op).2 :: trace fs (step fs s op).1 ops

/-- number of constructor calls made so far to load molecule `m` -/
def loadsOf (s : CSt) (m : String) : Nat := (s.log.filter (fun e => e.1 == m)).length

/-- every file names its object by the name its discovery advertises -/
def consistent (fs : List Dir) : Prop := ∀ d ∈ fs, ∀ e ∈ d.files, e.obj = e.disc

/-! ## the k-table cache (taurex/cache/ktablecache.py)

  `KTableCache.load_opacity_from_path` differs from the cross-section cache in one test: it constructs an object for EVERY
  discovered file that advertises the molecule (`if mol in molecule_filter:` without `and mol not in self.opacity_dict`);
  an object whose name is already cached is dropped after construction.  Everything else (`__getitem__`, `add_opacity`,
  `set_ktable_path`, `clear_cache`; `set_interpolation` of the cross-section cache clears both) is the same machine under
  the reading of the header. -/

/-- body of the double loop of `KTableCache.load_opacity_from_path(path, molecule_filter=[m])` for one discovered file -/
def loadStepK (m : String) (s : CSt) (e : FileEntry) : CSt :=
  if e.disc == m then
    let o : Obj := { id := s.nextId, mol := e.obj, mode := interpOr s,
                     inMem := if e.fmt = Fmt.hdf then some (memOrTrue s.memMode) else none,
                     src := some e.fileId }
    let s1 := { s with nextId := s.nextId + 1, log := s.log ++ [(m, e.fileId)] }
    if !hasKey s1.dict o.mol then addOpacity s1 o (some m) else s1
  else s

def loadFromK (fs : List Dir) (m : String) (s : CSt) : CSt := (curFiles fs s).foldl (loadStepK m) s

/-- one operation on the k-table cache -/
def stepK (fs : List Dir) (s : CSt) : COp → CSt × Resp
  | .get m =>
    match lookup s.dict m with
    | some o => (s, .served o)
    | none =>
      let s' := loadFromK fs m s
      match lookup s'.dict m with
      | some o => (s', .served o)
      | none => (s', .missing)
  | op => step fs s op

def runK (fs : List Dir) (s : CSt) (ops : List COp) : CSt := ops.foldl (fun s op => (stepK fs s op).1) s

def traceK (fs : List Dir) : CSt → List COp → List Resp
  | _, [] => []
  | s, op :: ops => (stepK fs s op).2 :: traceK fs (stepK fs s op).1 ops

/-- no directory holds two files that advertise the same molecule -/
def UniqueDisc (fs : List Dir) : Prop := ∀ d ∈ fs, (d.files.map (·.disc)).Nodup

end Taurex.CacheSM

/-! ## the CIA cache (taurex/cache/ciaacache.py: __getitem__, load_cia, load_cia_from_path, add_cia, set_cia_path)

  Keys are pair names.  `_cia_path` holds a directory or a list of directories (or nothing).  Loading a pair visits, per
  directory, the `*.db` files (glob order) and then the `*.cia` files; a file whose stem up to the first `_` is the pair
  asked for AND NOT YET CACHED (fix d5856f4: the first container found for a pair is the one served) is constructed
  (`PickleCIA(file, pairname)` / `HitranCIA(file)`) and handed to `add_cia`, which RAISES when the name the OBJECT reports is
  already cached (only possible for a `.cia` file whose block headers carry another pair than its name) — the exception leaves
  `load_cia` and `__getitem__`, with the cache as it was when it was raised.  `…Pinned`: the scan before the fix.  There is no clearing operation; `set_cia_path` only stores the path. -/
namespace Taurex.CiaSM

inductive CFmt where
  | db
  | cia
  deriving DecidableEq, Repr

/-- one `*.db` / `*.cia` file -/
structure CFile where
  fmt : CFmt
  fileId : Nat
  /-- pair name read off the file name (`Path(f).stem.split('_')[0]`) -/
  disc : String
  /-- `pairName` of the object the constructor builds from it (`.db`: the name handed over, i.e. `disc`; `.cia`: the name in
      the file's block headers) -/
  obj : String
  deriving DecidableEq, Repr

/-- a directory: its files in glob order (a path that is not a directory has none) -/
abbrev CDir := List CFile

/-- what `_cia_path` holds -/
inductive CPath where
  | single (p : Nat)
  | many (ps : List Nat)
  deriving DecidableEq, Repr

structure CObj where
  id : Nat
  pair : String
  /-- file it was loaded from; `none` = handed to `add_cia` by the user -/
  src : Option Nat
  deriving DecidableEq, Repr

structure St where
  /-- `cia_dict` (insertion order) -/
  dict : List (String × CObj)
  /-- `_cia_path` -/
  path : Option CPath
  /-- every constructor call made by `load_cia_from_path`: (pair asked for, file) -/
  log : List (String × Nat)
  nextId : Nat
  deriving DecidableEq, Repr

def init : St := { dict := [], path := none, log := [], nextId := 0 }

inductive Op where
  | get (pair : String)
  | setPath (p : CPath)
  | add (pair : String)
  deriving DecidableEq, Repr

inductive Resp where
  | served (o : CObj)
  /-- `Exception('cia could notn be loaded')` -/
  | missing
  | done
  /-- the exception of `add_cia`: an object of that name is already cached -/
  | dup
  deriving DecidableEq, Repr

def hasKey (d : List (String × CObj)) (m : String) : Bool := d.any (fun e => e.1 == m)

def lookup (d : List (String × CObj)) (m : String) : Option CObj := (d.find? (fun e => e.1 == m)).map (·.2)

/-- `add_cia(cia)`: `true` = it raised -/
def addCia (s : St) (o : CObj) : St × Bool :=
  if hasKey s.dict o.pair then (s, true) else ({ s with dict := s.dict ++ [(o.pair, o)] }, false)

/-- `pairName` of the object built from a file: `PickleCIA(file, pairname)` is named by the caller, `HitranCIA(file)` by the
    file's content -/
def objPair (e : CFile) : String :=
  match e.fmt with
  | .db => e.disc
  | .cia => e.obj

/-- `for x in l: body` where the body may raise (`true`): the loop stops at the first raise -/
def forB {σ β : Type} (f : σ → β → σ × Bool) : σ → List β → σ × Bool
  | s, [] => (s, false)
  | s, x :: xs =>
    match f s x with
    | (s', true) => (s', true)
    | (s', false) => forB f s' xs

/-- one pass of a loop of `load_cia_from_path(path, pair_filter=[m])`: a file whose pair (as read off its name) is already
    cached is skipped — the first container found for a pair is the one served -/
def loadStep (m : String) (s : St) (e : CFile) : St × Bool :=
  if e.disc == m && !hasKey s.dict e.disc then
    addCia { s with nextId := s.nextId + 1, log := s.log ++ [(m, e.fileId)] }
           { id := s.nextId, pair := objPair e, src := some e.fileId }
  else (s, false)

/-- the pass as it was before the fix d5856f4: every file of the pair is constructed and handed to `add_cia` -/
def loadStepPinned (m : String) (s : St) (e : CFile) : St × Bool :=
  if e.disc == m then
    addCia { s with nextId := s.nextId + 1, log := s.log ++ [(m, e.fileId)] }
           { id := s.nextId, pair := objPair e, src := some e.fileId }
  else (s, false)

def dirFiles (fs : List CDir) (p : Nat) (f : CFmt) : List CFile := (fs.getD p []).filter (fun e => decide (e.fmt = f))

/-- `load_cia_from_path(path, pair_filter=[m])` with the per-file pass `ls`: the `.db` files, then the `.cia` files -/
def loadDirWith (ls : String → St → CFile → St × Bool) (fs : List CDir) (m : String) (s : St) (p : Nat) : St × Bool :=
  match forB (ls m) s (dirFiles fs p .db) with
  | (s', true) => (s', true)
  | (s', false) => forB (ls m) s' (dirFiles fs p .cia)

def loadDir (fs : List CDir) (m : String) (s : St) (p : Nat) : St × Bool := loadDirWith loadStep fs m s p

/-- `load_cia(pair_filter=[m])` -/
def loadCiaWith (ls : String → St → CFile → St × Bool) (fs : List CDir) (m : String) (s : St) : St × Bool :=
  match s.path with
  | none => (s, false)
  | some (.single p) => loadDirWith ls fs m s p
  | some (.many ps) => forB (loadDirWith ls fs m) s ps

def loadCia (fs : List CDir) (m : String) (s : St) : St × Bool := loadCiaWith loadStep fs m s

def stepWith (ls : String → St → CFile → St × Bool) (fs : List CDir) (s : St) : Op → St × Resp
  | .get m =>
    match lookup s.dict m with
    | some o => (s, .served o)
    | none =>
      match loadCiaWith ls fs m s with
      | (s', true) => (s', .dup)
      | (s', false) =>
        match lookup s'.dict m with
        | some o => (s', .served o)
        | none => (s', .missing)
  | .setPath p => ({ s with path := some p }, .done)
  | .add m =>
    match addCia { s with nextId := s.nextId + 1 } { id := s.nextId, pair := m, src := none } with
    | (s', true) => (s', .dup)
    | (s', false) => (s', .done)

/-- one operation on the CIA cache -/
def step (fs : List CDir) (s : St) (op : Op) : St × Resp := stepWith loadStep fs s op

/-- one operation on the CIA cache as it was before the fix d5856f4 -/
def stepPinned (fs : List CDir) (s : St) (op : Op) : St × Resp := stepWith loadStepPinned fs s op

def tracePinned (fs : List CDir) : St → List Op → List Resp
  | _, [] => []
  | s, op :: ops => (stepPinned fs s op).2 :: tracePinned fs (stepPinned fs s op).1 ops

def runPinned (fs : List CDir) (s : St) (ops : List Op) : St := ops.foldl (fun s op => (stepPinned fs s op).1) s

/-- every `.cia` file names its object by the pair its file name advertises (a `.db` object is named by the caller) -/
def consistent (fs : List CDir) : Prop := ∀ d ∈ fs, ∀ e ∈ d, objPair e = e.disc

def run (fs : List CDir) (s : St) (ops : List Op) : St := ops.foldl (fun s op => (step fs s op).1) s

def trace (fs : List CDir) : St → List Op → List Resp
  | _, [] => []
  | s, op :: ops => (step fs s op).2 :: trace fs (step fs s op).1 ops

/-- number of constructor calls made so far to load the pair `m` -/
def loadsOf (s : St) (m : String) : Nat := (s.log.filter (fun e => e.1 == m)).length

end Taurex.CiaSM
