/-
  State machine of the lazy opacity cache:
    taurex/cache/opacitycache.py: __getitem__, load_opacity, load_opacity_from_path, add_opacity,
                                  set_opacity_path, set_interpolation, set_memory_mode, clear_cache
    taurex/cache/globalcache.py (keys xsec_path, xsec_interpolation, xsec_in_memory), singleton.py
    the `discover()` class methods of PickleOpacity / HDF5Opacity / ExoTransmitOpacity.
  The file system is a parameter: each directory is the list of files in the order the cache visits them
  (classes sorted by `priority()`, HDF5 first; glob order inside a class).  Object identity is a counter
  incremented at every constructor call made to load a molecule; `log` records these calls.

  The same machine is the model of taurex/cache/ktablecache.py (KTableCache: __getitem__, load_opacity_from_path,
  add_opacity, set_ktable_path, clear_cache) under the reading dict = KTableCache().opacity_dict,
  path = GlobalCache()['ktable_path'], files = pickle / HDF5 k-tables, `setInterp` = OpacityCache().set_interpolation
  (which clears BOTH caches since the fix), `clear` = KTableCache().clear_cache(); `setMem` is not an operation of
  that cache.  KTableCache's loop lacks the `mol not in self.opacity_dict` test of `loadStep`, which is unobservable
  as long as a directory holds one k-table file per molecule (assumed by the harness).
-/
namespace Taurex.CacheSM

inductive Fmt where
  | hdf
  | pickle
  | exo
  | kpickle
  | khdf
  deriving DecidableEq, Repr

/-- one discoverable file -/
structure FileEntry where
  fmt : Fmt
  fileId : Nat
  /-- molecule name advertised by `discover()` -/
  disc : String
  /-- `moleculeName` of the object the constructor builds from it -/
  obj : String
  deriving DecidableEq, Repr

/-- a directory: does it exist, and its files in visiting order -/
structure Dir where
  isDir : Bool
  files : List FileEntry
  deriving DecidableEq, Repr

/-- an opacity object as far as the cache property cares -/
structure Obj where
  id : Nat
  mol : String
  /-- interpolation mode handed to the constructor (0 = 'linear', 1 = 'exp') -/
  mode : Nat
  /-- `in_memory` of an HDF5 opacity (`none` for the other classes) -/
  inMem : Option Bool
  /-- file it was loaded from; `none` = put into the cache by the user (`add_opacity`) -/
  src : Option Nat
  deriving DecidableEq, Repr

structure CSt where
  /-- `opacity_dict` (insertion order) -/
  dict : List (String × Obj)
  /-- `GlobalCache()['xsec_path']` (index into the file system) -/
  path : Option Nat
  /-- `GlobalCache()['xsec_interpolation']` -/
  interp : Option Nat
  /-- `GlobalCache()['xsec_in_memory']` -/
  memMode : Option Bool
  /-- every constructor call made by `load_opacity_from_path`: (molecule asked for, file) -/
  log : List (String × Nat)
  nextId : Nat
  deriving DecidableEq, Repr

def init : CSt := { dict := [], path := none, interp := none, memMode := none, log := [], nextId := 0 }

inductive COp where
  | get (m : String)
  | setPath (p : Nat)
  | setInterp (k : Nat)
  | setMem (b : Bool)
  | clear
  | add (m : String) (k : Nat)
  deriving DecidableEq, Repr

inductive Resp where
  | served (o : Obj)
  /-- `Exception('Opacity could not be loaded')` -/
  | missing
  | done
  /-- `NotADirectoryError` of `set_opacity_path` (the path is stored nevertheless) -/
  | notADir
  deriving DecidableEq, Repr

def hasKey (d : List (String × Obj)) (m : String) : Bool := d.any (fun e => e.1 == m)

def lookup (d : List (String × Obj)) (m : String) : Option Obj := (d.find? (fun e => e.1 == m)).map (·.2)

/-- `GlobalCache()['xsec_interpolation'] or 'linear'` -/
def interpOr (s : CSt) : Nat := s.interp.getD 0

/-- `GlobalCache()['xsec_in_memory'] or True` -/
def memOrTrue (b : Option Bool) : Bool :=
  match b with
  | some true => true
  | _ => true

/-- `add_opacity(opacity, molecule_filter)` -/
def addOpacity (s : CSt) (o : Obj) (filter : Option String) : CSt :=
  if hasKey s.dict o.mol then s
  else match filter with
    | some f => if o.mol == f then { s with dict := s.dict ++ [(o.mol, o)] } else s
    | none => { s with dict := s.dict ++ [(o.mol, o)] }

/-- body of the double loop of `load_opacity_from_path(path, molecule_filter=[m])` for one discovered file -/
def loadStep (m : String) (s : CSt) (e : FileEntry) : CSt :=
  if e.disc == m && !hasKey s.dict e.disc then
    let o : Obj := { id := s.nextId, mol := e.obj, mode := interpOr s,
                     inMem := if e.fmt = Fmt.hdf then some (memOrTrue s.memMode) else none,
                     src := some e.fileId }
    let s1 := { s with nextId := s.nextId + 1, log := s.log ++ [(m, e.fileId)] }
    if !hasKey s1.dict o.mol then addOpacity s1 o (some m) else s1
  else s

/-- the files `discover()` finds under the configured path -/
def curFiles (fs : List Dir) (s : CSt) : List FileEntry :=
  match s.path with
  | none => []
  | some p => match fs[p]? with
    | none => []
    | some d => if d.isDir then d.files else []

def loadFrom (fs : List Dir) (m : String) (s : CSt) : CSt := (curFiles fs s).foldl (loadStep m) s

def step (fs : List Dir) (s : CSt) : COp → CSt × Resp
  | .get m =>
    match lookup s.dict m with
    | some o => (s, .served o)
    | none =>
      let s' := loadFrom fs m s
      match lookup s'.dict m with
      | some o => (s', .served o)
      | none => (s', .missing)
  | .setPath p =>
    let s' := { s with path := some p }
    match fs[p]? with
    | some d => if d.isDir then (s', .done) else (s', .notADir)
    | none => (s', .notADir)
  | .setInterp k => ({ s with interp := some k, dict := [] }, .done)
  | .setMem b => ({ s with memMode := some b, dict := [] }, .done)
  | .clear => ({ s with dict := [] }, .done)
  | .add m k =>
    let o : Obj := { id := s.nextId, mol := m, mode := k, inMem := none, src := none }
    (addOpacity { s with nextId := s.nextId + 1 } o none, .done)

/-- operations that empty `opacity_dict` -/
def COp.clears : COp → Bool
  | .setInterp _ => true
  | .setMem _ => true
  | .clear => true
  | _ => false

def run (fs : List Dir) (s : CSt) (ops : List COp) : CSt := ops.foldl (fun s op => (step fs s op).1) s

/-- the responses of a history, in order -/
def trace (fs : List Dir) : CSt → List COp → List Resp
  | _, [] => []
  | s, op :: ops => (step fs s op).2 :: trace fs (step fs s op).1 ops

/-- number of constructor calls made so far to load molecule `m` -/
def loadsOf (s : CSt) (m : String) : Nat := (s.log.filter (fun e => e.1 == m)).length

/-- every file names its object by the name its discovery advertises -/
def consistent (fs : List Dir) : Prop := ∀ d ∈ fs, ∀ e ∈ d.files, e.obj = e.disc

end Taurex.CacheSM
