/-
  Model of how a contribution's `sigma_xsec[layer, wn]` is put together from its components:
    taurex/contributions/contribution.py: Contribution.prepare            (`sumComps`)
    taurex/contributions/absorption.py: prepare_each / prepare             (`compAbs`, `sumComps`)
    taurex/contributions/cia.py: prepare_each                               (`compCIA`)
    taurex/contributions/rayleigh.py: prepare_each                          (`compScaled`)
  The per-species cross-sections `xsec l wn` (= `opacity(T_l, P_l, wngrid)`, `cia(T_l, wngrid)`, the Rayleigh law)
  are inputs: their interpolation is C04's model.
-/
import TaurexModel.Num

namespace Taurex.Sigma

section
variable {α : Type} [Add α] [Mul α] [OfNat α 0]

/-- one molecule of `AbsorptionContribution`: the shared buffer is zeroed, then
    `sigma_xsec[idx_layer] += xsec.opacity(T, P, wngrid) * gas_mix[idx_layer]` -/
def compAbs (xsec : Nat → Nat → α) (mix : Nat → α) : Nat → Nat → α := fun l wn => 0 + xsec l wn * mix l

/-- one pair of `CIAContribution`: `cia_factor = mix(pairOne) * mix(pairTwo)`, buffer zeroed, then
    `sigma_cia[idx_layer] += cia(T) * cia_factor[idx_layer]` -/
def compCIA (xsec : Nat → Nat → α) (mix1 mix2 : Nat → α) : Nat → Nat → α :=
  fun l wn => 0 + xsec l wn * (mix1 l * mix2 l)

/-- one molecule of `RayleighContribution`: `sigma[None, :] * mix[:, None]` -/
def compScaled (law : Nat → α) (mix : Nat → α) : Nat → Nat → α := fun l wn => law wn * mix l

/-- `prepare`: `sigma_xsec = zeros; for component: sigma_xsec += component` -/
def sumComps (comps : List (Nat → Nat → α)) : Nat → Nat → α :=
  fun l wn => comps.foldl (fun a c => a + c l wn) 0

end

end Taurex.Sigma
