import TaurexModel.Proto

namespace Taurex
open Taurex.Proto

def handleLine (ops : List Op) (line : String) : String :=
  match (line.trimAscii.toString.splitOn " ").filter (· ≠ "") with
  | [] => "err empty"
  | op :: args =>
    match ops.lookup op with
    | none => "err unknown-op " ++ op
    | some h =>
      match h args with
      | some r => "ok " ++ r
      | none => "err bad-args " ++ op

partial def driverLoop (ops : List Op) (hin hout : IO.FS.Stream) : IO Unit := do
  let line ← hin.getLine
  if line.isEmpty then return ()
  hout.putStrLn (handleLine ops line)
  hout.flush
  driverLoop ops hin hout

def driverMain (ops : List Op) : IO Unit := do
  driverLoop ops (← IO.getStdin) (← IO.getStdout)

end Taurex
