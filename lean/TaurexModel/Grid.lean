/-
  Model of the spectral-grid restriction (C13):
    taurex/util/util.py:clip_native_to_wngrid
    taurex/opacity/opacity.py:Opacity.opacity  (selection / interpolation of cross-sections on a requested grid)
  `compute_bin_edges` is the C05 model's (`Binning.computeBinEdges`), `np.interp` the shared `NpInterp.npInterp`.
-/
import TaurexModel.Interp
import TaurexModel.Binning
import TaurexModel.NpInterp

namespace Taurex.Grid
open Taurex.Binning (computeBinEdges)
open Taurex.NpInterp (npInterp)

section
variable {α : Type} [Add α] [Sub α] [Mul α] [Div α] [Neg α] [LT α] [LE α]
  [DecidableLT α] [DecidableLE α] [OfNat α 0] [OfNat α 1] [OfNat α 2] [OfNat α 4] [OfNat α 5]

/-- `arr.max()` (first element as seed; the code never calls it on an empty array) -/
def maxL (l : List α) : α := l.foldl (fun a b => if a ≤ b then b else a) (l.getD 0 0)

/-- `arr.min()` -/
def minL (l : List α) : α := l.foldl (fun a b => if b ≤ a then b else a) (l.getD 0 0)

/-- the widest requested bin `wnwidths.max()`, `wnwidths = compute_bin_edges(wngrid)[-1]` -/
def widestBin (wngrid : List α) : α := maxL (computeBinEdges wngrid).2

/-- the margin of the clip, `1.25*wnwidths.max()` (`1.25` is written `5/4`: the same number on every carrier).
    The outermost kept native points get their bin widths re-derived from one neighbour; with native spacing below
    half the widest bin `W` those bins reach up to `3/4·W` into the clip interval, a requested bin sticks out of the
    requested range by up to `W/2`: hence `5/4·W` (`Props/C13.lean:bin_clip_eq_property`). -/
def clipMargin (wngrid : List α) : α := 5 / 4 * widestBin wngrid

/-- membership test of the clip: `(native >= wn_min) & (native <= wn_max)` -/
def inClip (wngrid : List α) (x : α) : Bool :=
  decide (minL wngrid - clipMargin wngrid ≤ x) && decide (x ≤ maxL wngrid + clipMargin wngrid)

/-- `clip_native_to_wngrid(native_grid, wngrid)` -/
def clipNative (native wngrid : List α) : List α := native.filter (inClip wngrid)

/-- the pre-fix margin (pinned tree): the widest bin itself, kept to state and replay the defect repaired by the
    /repo commit "fix: clip the native grid with a margin of 1.25 times the widest requested bin"
    (`Props/C13.lean:bin_clip_condition_sharp`) -/
def clipMarginPinned (wngrid : List α) : α := widestBin wngrid

/-- the pre-fix membership test -/
def inClipPinned (wngrid : List α) (x : α) : Bool :=
  decide (minL wngrid - clipMarginPinned wngrid ≤ x) && decide (x ≤ maxL wngrid + clipMarginPinned wngrid)

/-- the pre-fix `clip_native_to_wngrid` -/
def clipNativePinned (native wngrid : List α) : List α := native.filter (inClipPinned wngrid)

/-- `np.array_equal` on 1-D arrays -/
def eqL : List α → List α → Bool
  | [], [] => true
  | a :: as, b :: bs => decide (a ≤ b) && decide (b ≤ a) && eqL as bs
  | _, _ => false

/-- selection of the native points inside the requested range: `np.where((wn >= req.min()) & (wn <= req.max()))` -/
def inRange (req : List α) (x : α) : Bool := decide (minL req ≤ x) && decide (x ≤ maxL req)

/-- `Opacity.opacity(T, P, wngrid=req)` given the values `vals` computed on the molecule's native grid:
    the values on the native points inside the requested range if those points *are* the request; otherwise
    `np.interp(req, sel, their values)` where `sel` is the native points from the last one `≤ req.min()` to the
    first one `≥ req.max()` (the bracketing points are kept so that the ends of the request are interpolated,
    not clamped — /repo fix "interpolate a request between the native points that bracket it"). -/
def opacityOnGrid (nativeWn vals req : List α) : List α :=
  let sel := (nativeWn.zip vals).filter (fun p => inRange req p.1)
  if eqL (sel.map (·.1)) req then sel.map (·.2)
  else
    let lo := Interp.searchRight nativeWn (minL req) - 1
    let hi := min (Interp.searchLeft nativeWn (maxL req)) (nativeWn.length - 1)
    let wnSel := (nativeWn.drop lo).take (hi + 1 - lo)
    let vSel := (vals.drop lo).take (hi + 1 - lo)
    req.map (npInterp wnSel vSel)

end

end Taurex.Grid
