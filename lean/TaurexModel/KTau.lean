/-
  Model of the correlated-k code paths:
    taurex/contributions/absorption.py:contribute_ktau            (transmission, and the emission surface term)
    taurex/contributions/contribution.py:contribute_tau           (the cross-section counterpart, minimal copy)
    taurex/model/transmission.py:path_integral (absorption contribution only), compute_absorption
    taurex/model/emission.py:contribute_ktau_emission, evaluate_emission_ktables
  One wavenumber at a time (the k-path has no cross-wavenumber coupling: `evaluate_emission_ktables` applies no
  saturation clamp to the intensity).  `sigma3` is `sigma_xsec[:, wn, :]`, indexed `[layer][g]`.
-/
import TaurexModel.Num
import TaurexModel.Emission

namespace Taurex.KTau
open Taurex.Emission

section
variable {α : Type} [Add α] [Sub α] [Mul α] [Div α] [Neg α] [LT α] [LE α]
  [DecidableLT α] [DecidableLE α] [OfNat α 0] [OfNat α 1] [OfNat α 2] [OfNat α 4] [OfNat α 10]

/-- `sigma[k, wn, g]` -/
def at3 (sigma3 : List (List α)) (k g : Nat) : α := (sigma3.getD k []).getD g 0

/-- `contribute_tau(0, n-l, l, sigma, density, path, …, layer=l, tau)` for one wavenumber:
    `for k in range(0, n-l): tau += sigma[k+l]*path[k]*density[k+l]` starting from `acc` -/
def tauRowX (sigma path dens : List α) (n l : Nat) (acc : α) : α :=
  (List.range (n - l)).foldl (fun a k => a + sigma.getD (k + l) 0 * path.getD k 0 * dens.getD (k + l) 0) acc

/-- `tau_temp[wn, g]` of `contribute_ktau(0, n-l, l, sigma, density, path, …, layer=l, …)` -/
def tauG (sigma3 : List (List α)) (path dens : List α) (n l g : Nat) : α :=
  (List.range (n - l)).foldl (fun a k => a + at3 sigma3 (k + l) g * path.getD k 0 * dens.getD (k + l) 0) 0

/-- `tau_temp[wn, g]` of `contribute_ktau_emission(lo, hi, 0, sigma, density, dz, …, layer=0, …)` -/
def kRange (sigma3 : List (List α)) (dz dens : List α) (lo hi g : Nat) : α :=
  (List.range' lo (hi - lo)).foldl (fun a k => a + at3 sigma3 k g * dz.getD k 0 * dens.getD k 0) 0

/-- the same with the path scaled, `path_length = dz*m` (surface term of the emission k-path) -/
def kRangeScaled (sigma3 : List (List α)) (dz dens : List α) (m : α) (lo hi g : Nat) : α :=
  (List.range' lo (hi - lo)).foldl (fun a k => a + at3 sigma3 k g * (dz.getD k 0 * m) * dens.getD k 0) 0

/-- `compute_absorption`: `((pradius**2.0) + Σ_l (pradius+ap_l)*(1.0-tau_l)*dz_l*2.0)/(sradius**2)`;
    `rows = (ap_l, dz_l, transmittance_l)` -/
def depth (rp rs : α) (rows : List (α × α × α)) : α :=
  (rp * rp + rows.foldl (fun a r => a + (rp + r.1) * (1 - r.2.2) * r.2.1 * 2) 0) / (rs * rs)

variable [Transc α]

/-- `transtemp = Σ_g exp(-tau_temp[g])*weights[g]` -/
def transK (taus ws : List α) : α :=
  (taus.zip ws).foldl (fun a p => a + exp (-p.1) * p.2) 0

/-- `-math.log(transtemp)` -/
def ktau (taus ws : List α) : α := -log (transK taus ws)

/-- `contribute_ktau` for tangent layer `l`, one wavenumber: `tau[l,wn] += -log(transtemp)` -/
def ktauRow (sigma3 : List (List α)) (path dens ws : List α) (n l : Nat) (acc : α) : α :=
  acc + ktau ((List.range ws.length).map (tauG sigma3 path dens n l)) ws

/-- `np.sum(np.exp(-k*_mu) * wg, axis=-1)` -/
def transKmu (taus ws : List α) (m : α) : α :=
  (taus.zip ws).foldl (fun a p => a + exp ((-p.1) * m) * p.2) 0

/-- `evaluate_emission_ktables` for one wavenumber and one angle (`m = _mu = 1/μ`); `nonmol` are the
    contributions that are not the molecular absorption (their `sigma_xsec[:, wn]`), `sigma3` the k-coefficients
    of the molecular absorption, `ws` its weights.  No clamp enters the intensity on this path. -/
def emissionK (k : PC α) (nonmol : List (Kind × List α)) (sigma3 : List (List α)) (ws dz dens temps : List α)
    (nu m : α) : α :=
  let n := temps.length
  let gs := List.range ws.length
  let surface := tauRange nonmol dz dens 0 n * m + ktau (gs.map (kRangeScaled sigma3 dz dens m 0 n)) ws
  let i0 := (planck k nu (temps.getD 0 0) / k.pi) * exp (-surface)
  (List.range n).foldl (fun i l =>
    let layerTau := tauRange nonmol dz dens (l + 1) n
    let dtau := tauRange nonmol dz dens l (l + 1) + layerTau
    let kLayer := gs.map (kRange sigma3 dz dens (l + 1) n)
    let kDtau := gs.map (fun g => kRange sigma3 dz dens l (l + 1) g + kRange sigma3 dz dens (l + 1) n g)
    let dtauCalc := exp ((-dtau) * m) * transKmu kDtau ws m
    let layerCalc := exp ((-layerTau) * m) * transKmu kLayer ws m
    i + (planck k nu (temps.getD l 0) / k.pi) * (layerCalc - dtauCalc)) i0

/-- `evaluate_emission_ktables` when the contribution list holds NO molecular absorption (`molecule_absorption is None`:
    a model built from scattering / haze / CIA contributions only, and every non-molecular entry of `model_contrib()`, which
    evaluates the contributions one at a time): every `if molecule_absorption is not None:` block is skipped; what is left is
    the plain intensity recursion over the contributions `nonmol` -- the surface column, and per layer
    `layer_tau` (everything above), `dtau` (the layer itself) `+= layer_tau`.  No clamp enters the intensity. -/
def emissionKNoMol (k : PC α) (nonmol : List (Kind × List α)) (dz dens temps : List α) (nu m : α) : α :=
  let n := temps.length
  let surface := tauRange nonmol dz dens 0 n * m
  let i0 := (planck k nu (temps.getD 0 0) / k.pi) * exp (-surface)
  (List.range n).foldl (fun i l =>
    let layerTau := tauRange nonmol dz dens (l + 1) n
    let dtau := tauRange nonmol dz dens l (l + 1) + layerTau
    let dtauCalc := exp ((-dtau) * m)
    let layerCalc := exp ((-layerTau) * m)
    i + (planck k nu (temps.getD l 0) / k.pi) * (layerCalc - dtauCalc)) i0

end

end Taurex.KTau
