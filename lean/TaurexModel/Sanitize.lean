/-
  Molecule-name handling of the opacity / CIA loaders (plain `List Char` code, no numerics):
    taurex/util/util.py:sanitize_molecule_string
        ''.join(''.join(s) for s in re.findall('([A-Z][a-z]?)([0-9]*)', molecule))
    pathlib.Path(f).stem, `.split(sep)[0]`, `stem[4:]` as used by
    pickleopacity.py / exotransmit.py / hdf5opacity.py / picklektable.py / hdfktable.py (discover, __init__,
    clean_molecule_name) and cache/ciaacache.py:load_cia_from_path.
-/
namespace Taurex.Sanitize

/-- `[A-Z]` -/
def isUp (c : Char) : Bool := decide (65 ≤ c.toNat) && decide (c.toNat ≤ 90)
/-- `[a-z]` -/
def isLo (c : Char) : Bool := decide (97 ≤ c.toNat) && decide (c.toNat ≤ 122)
/-- `[0-9]` -/
def isDg (c : Char) : Bool := decide (48 ≤ c.toNat) && decide (c.toNat ≤ 57)

/-- scanner state of `re.findall('([A-Z][a-z]?)([0-9]*)', ·)`:
    `out` = between matches, `up` = just consumed `[A-Z]`, `dg` = inside `[a-z]?[0-9]*` after the optional lower-case letter -/
inductive St where
  | out
  | up
  | dg
  deriving DecidableEq, Repr

/-- the concatenation of all (non-overlapping, leftmost) matches; a character that ends a match is looked at
    again as the possible start of the next one -/
def go : St → List Char → List Char
  | _, [] => []
  | s, c :: cs =>
    if s = St.up && isLo c then c :: go St.dg cs
    else if (s = St.up || s = St.dg) && isDg c then c :: go St.dg cs
    else if isUp c then c :: go St.up cs
    else go St.out cs

/-- `sanitize_molecule_string` -/
def sanitize (s : List Char) : List Char := go St.out s

def sanitizeStr (s : String) : String := String.ofList (sanitize s.toList)

/-- `x.split(sep)[0]` -/
def firstPart (sep : Char) (s : List Char) : List Char := s.takeWhile (fun c => c != sep)

/-- `x.split(sep)[-1]` -/
def lastPart (sep : Char) (s : List Char) : List Char := (s.reverse.takeWhile (fun c => c != sep)).reverse

/-- taurex/cia/cia.py: `CIA.pairOne` / `CIA.pairTwo` — the collision partners `pairName.split('-')[0]` / `[-1]` of the pair name
    the object reports NOW (for a HITRAN file: the name read from the block headers while loading, not the placeholder the
    base class was constructed with) -/
def pairOne (pair : List Char) : List Char := firstPart '-' pair
def pairTwo (pair : List Char) : List Char := lastPart '-' pair

/-- `pathlib.Path(name).stem` (Python 3.12) for a bare file name: `i = name.rfind('.')`,
    `name[:i] if 0 < i < len(name)-1 else name` -/
def stem (name : List Char) : List Char :=
  let r := name.reverse
  let suf := r.takeWhile (fun c => c != '.')          -- reversed last suffix (without the dot)
  let rest := (r.dropWhile (fun c => c != '.')).drop 1 -- reversed part before the last dot
  if r.length = suf.length then name                   -- no dot at all
  else if suf.isEmpty then name                        -- trailing dot
  else if rest.isEmpty then name                       -- the last dot is the first character
  else rest.reverse

/-- the file formats whose names are modelled -/
inductive NameFmt where
  | pickleXsec   -- PickleOpacity
  | exo          -- ExoTransmitOpacity
  | hdfK         -- HDF5KTable
  | pickleK      -- PickleKTable (object name is stored in the file)
  | cia          -- CIACache.load_cia_from_path (pair name)
  deriving DecidableEq, Repr

/-- the name `discover()` advertises for a file (what the cache filters on) -/
def discName (f : NameFmt) (fname : List Char) : List Char :=
  match f with
  | .pickleXsec => sanitize (firstPart '.' (stem fname))
  | .exo => sanitize ((stem fname).drop 4)
  | .hdfK => sanitize (firstPart '_' (stem fname))
  | .pickleK => sanitize (firstPart '.' (stem fname))
  | .cia => firstPart '_' (stem fname)

/-- `moleculeName` / `pairName` of the object constructed from the file (`stored` = name kept inside the
    container, used by the pickle k-table only) -/
def objName (f : NameFmt) (fname stored : List Char) : List Char :=
  match f with
  | .pickleXsec => firstPart '_' (sanitize (firstPart '.' (stem fname)))   -- clean_molecule_name
  | .exo => sanitize ((stem fname).drop 4)
  | .hdfK => firstPart '_' (sanitize (firstPart '_' (stem fname)))
  | .pickleK => firstPart '_' stored
  | .cia => firstPart '_' (stem fname)

end Taurex.Sanitize
