/-
  Vector primitives of the LIST MODE of the source translator (harness/translate_list.py).

  A numpy 1-D array is a `List`; every primitive below states the documented behaviour of one numpy operation on 1-D
  arrays, once, for every carrier.  The generated files `TaurexModel/Gen/Src<Cxx>.lean` refer to them as `Np.<name>`.
  Import-free (core only).  What numpy rejects with an exception is totalised (documented at each definition); the tie
  theorems carry the corresponding guards where they matter.  Numerical caveats (the same as the hand-written models'
  ASSUMPTIONS): summation order and rounding are not modelled; `searchsorted` is the count of smaller (or equal)
  elements, which is what numpy returns on a SORTED array; `argsort` is a stable sort (numpy's default sort is not
  stable: results agree whenever the keys are distinct).
-/
namespace Taurex.Gen.Np

section
variable {α : Type} {β γ δ : Type}

/-- element-wise binary operation with numpy's broadcasting rule for 1-D operands: equal lengths pair up, an operand of
    length 1 is repeated; any other combination raises in numpy (totalised to `[]`) -/
def zip2 (f : β → γ → δ) (a : List β) (b : List γ) : List δ :=
  if a.length = b.length then List.zipWith f a b
  else match a, b with
    | [x], _ => b.map (f x)
    | _, [y] => a.map (fun x => f x y)
    | _, _ => []

/-- `np.diff(a)`: `a[i+1] - a[i]` -/
def diff [Sub α] : List α → List α
  | a :: b :: t => (b - a) :: diff (b :: t)
  | _ => []

/-- `np.sum(a)` of a 1-D array (summation order is not modelled) -/
def sum [Add α] [OfNat α 0] (l : List α) : α := l.foldr (fun x acc => x + acc) 0

/-- `np.minimum(a, b)` on two numbers (equal numbers: either) -/
def minimum [LE α] [DecidableLE α] (a b : α) : α := if a ≤ b then a else b

/-- `np.maximum(a, b)` on two numbers -/
def maximum [LE α] [DecidableLE α] (a b : α) : α := if a ≤ b then b else a

/-- `a.max()` of a non-empty 1-D array (numpy raises on an empty one; totalised by the seed `d`, which the translator
    passes as `0`) -/
def amax [LE α] [DecidableLE α] (d : α) (l : List α) : α := l.foldl (fun a b => if a ≤ b then b else a) (l.getD 0 d)

/-- `a.min()` -/
def amin [LE α] [DecidableLE α] (d : α) (l : List α) : α := l.foldl (fun a b => if b ≤ a then b else a) (l.getD 0 d)

/-- `np.searchsorted(a, v)` (`side='left'`) on a sorted array: the number of elements `< v` -/
def searchsortedLeft [LT α] [DecidableLT α] (l : List α) (v : α) : Nat := l.countP (fun a => decide (a < v))

/-- `np.searchsorted(a, v, side='right')` on a sorted array: the number of elements `≤ v` -/
def searchsortedRight [LE α] [DecidableLE α] (l : List α) (v : α) : Nat := l.countP (fun a => decide (a ≤ v))

/-- `a[lo:hi]` for non-negative bounds -/
def slice (l : List β) (lo hi : Nat) : List β := (l.drop lo).take (hi - lo)

/-- `a[idx]` / `a.take(idx)` for an index array (an out-of-range index raises in numpy; totalised by the default `d`) -/
def take (d : β) (l : List β) (idx : List Nat) : List β := idx.map (fun i => l.getD i d)

/-- `a[mask]` for a boolean array of the same length (numpy raises on a different length; totalised by truncation) -/
def compress (l : List β) (mask : List Bool) : List β :=
  (l.zip mask).filterMap (fun p => if p.2 then some p.1 else none)

/-- indices `k, k+1, …` of the `true` entries -/
def whereFrom : Nat → List Bool → List Nat
  | _, [] => []
  | k, b :: t => if b then k :: whereFrom (k + 1) t else whereFrom (k + 1) t

/-- `np.where(mask)[0]` -/
def where_ (mask : List Bool) : List Nat := whereFrom 0 mask

/-- `np.array_equal(a, b)` on 1-D arrays: same length and element-wise equal (equality of two numbers is written with
    the carrier's order, `a ≤ b ∧ b ≤ a`, so that no decidable equality is required) -/
def arrayEqual [LE α] [DecidableLE α] : List α → List α → Bool
  | [], [] => true
  | a :: as, b :: bs => decide (a ≤ b) && decide (b ≤ a) && arrayEqual as bs
  | _, _ => false

/-- insertion of `x` before the first element whose key is not smaller -/
def insertBy [LE α] [DecidableLE α] (key : β → α) (x : β) : List β → List β
  | [] => [x]
  | y :: t => if key x ≤ key y then x :: y :: t else y :: insertBy key x t

/-- `a.argsort()`: the permutation that sorts `a` (stable) -/
def argsort [LE α] [DecidableLE α] (d : α) (l : List α) : List Nat :=
  (List.range l.length).foldr (insertBy (fun i => l.getD i d)) []

/-- `a[lo:hi] = v` (numpy requires `len(v) = hi - lo`, or broadcasts a single value; totalised: the splice) -/
def setSlice (l : List β) (lo hi : Nat) (v : List β) : List β := l.take lo ++ v ++ l.drop hi

/-- element `i` of `a[start::step] = v` -/
def strideElem (start step : Nat) (v : List β) (x : β) (i : Nat) : β :=
  if start ≤ i ∧ (i - start) % step = 0 then v.getD ((i - start) / step) x else x

/-- `a[start::step] = v` (numpy requires `len(v)` = number of selected positions; totalised: missing values leave
    the old entry) -/
def setStride (l : List β) (start step : Nat) (v : List β) : List β :=
  l.zipIdx.map (fun p => strideElem start step v p.1 p.2)

/-- `M.T` of a 2-D array given by its rows (`np.vstack((a, b, …)).T`: one output row per position, holding that
    position of `a`, `b`, …).  A 2-D numpy array is rectangular; on ragged input (where `np.vstack` raises) the first
    row fixes the number of output rows and missing entries are the default `d` -/
def transpose (d : β) (m : List (List β)) : List (List β) :=
  (List.range (m.headD []).length).map (fun i => m.map (fun r => r.getD i d))

/-- `a.mean()` of a 1-D array: the sum divided by the number of elements, the count formed in the carrier as a sum of ones
    (for floats: exactly `float(n)`); an empty array gives `0/0` (numpy: nan with a warning) -/
def mean [Add α] [Div α] [OfNat α 0] [OfNat α 1] (l : List α) : α := sum l / sum (l.map (fun _ => (1 : α)))

end
end Taurex.Gen.Np
