/-
  Primitives of the dialect `seq` of the source translator (harness/translate_seq.py), on top of the list-mode prelude
  `TaurexModel/Gen/Prelude.lean` (same namespace `Np`): Python ints that may be negative (`Int`), basic slices with
  arbitrary int bounds, slice stores and element-wise operations WITH the shape test numpy performs at run time (the
  generated text raises `ValueError` where numpy does), `np.cumsum`, `argmin`.  Import-free apart from that prelude.
-/
import TaurexModel.Gen.Prelude

namespace Taurex.Gen.Np

/-! ### Python ints, general basic slices, checked slice stores (dialect `seq`, harness/translate_seq.py)

  A Python `int` that may be negative is a Lean `Int`.  A basic slice `a[lo:hi]` (step 1) with arbitrary int bounds follows
  CPython's `PySlice_AdjustIndices`: a negative bound counts from the end, then both bounds are clamped to `[0, len]`; the
  slice is empty when the adjusted stop is not beyond the adjusted start.  In particular `a[b:-b]` with `b = 0` is `a[0:0]`,
  the EMPTY slice.  An omitted bound is `none`. -/
section
variable {α : Type} {β : Type}

/-- one adjusted bound of a basic slice of a sequence of length `n` -/
def sliceBound (n : Nat) (b : Int) : Nat := if b < 0 then (b + n).toNat else min b.toNat n

/-- adjusted start of `a[lo:hi]` -/
def sliceStart (n : Nat) : Option Int → Nat
  | none => 0
  | some b => sliceBound n b

/-- adjusted stop of `a[lo:hi]` -/
def sliceStop (n : Nat) : Option Int → Nat
  | none => n
  | some b => sliceBound n b

/-- number of elements of `a[lo:hi]` (`0` when the stop is not beyond the start) -/
def sliceLen (n : Nat) (lo hi : Option Int) : Nat := sliceStop n hi - sliceStart n lo

/-- `a[lo:hi]` for Python int bounds -/
def pySlice (l : List β) (lo hi : Option Int) : List β :=
  (l.drop (sliceStart l.length lo)).take (sliceLen l.length lo hi)

/-- does numpy accept `a[lo:hi] = v` for a 1-D value of `m` elements (`n = len(a)`): the value must have as many elements
    as the slice or exactly one (which is broadcast); otherwise numpy raises ValueError -/
def storeOk (n : Nat) (lo hi : Option Int) (m : Nat) : Bool := m == sliceLen n lo hi || m == 1

/-- `a[lo:hi] = v` when `storeOk` holds: the selected entries are replaced (a single value is repeated) -/
def storeSlice (l : List β) (lo hi : Option Int) (v : List β) : List β :=
  let s := sliceStart l.length lo
  let k := sliceLen l.length lo hi
  l.take s ++ (if v.length = k then v else match v with
    | [x] => List.replicate k x
    | _ => []) ++ l.drop (s + k)

/-- `a[i]` for a Python int index: a negative index counts from the end (IndexError is totalised by the default `d`) -/
def getInt (d : β) (l : List β) (i : Int) : β :=
  if i < 0 then (if (-i).toNat ≤ l.length then l.getD (l.length - (-i).toNat) d else d) else l.getD i.toNat d

/-- can two 1-D operands of `m` and `n` elements be combined element-wise (numpy broadcasting: equal lengths, or one
    operand of length 1); otherwise numpy raises ValueError -/
def bcastOk (m n : Nat) : Bool := m == n || m == 1 || n == 1

/-- running sums from the accumulator `acc` -/
def cumsumFrom [Add α] : α → List α → List α
  | _, [] => []
  | acc, x :: t => (acc + x) :: cumsumFrom (acc + x) t

/-- `np.cumsum(a)` of a 1-D array: `a[0], a[0]+a[1], …`, accumulated from the left -/
def cumsum [Add α] : List α → List α
  | [] => []
  | x :: t => x :: cumsumFrom x t

/-- first minimum from position `i` on (`best`, `bv`: position and value of the minimum so far) -/
def argminFrom [LT α] [DecidableLT α] : List α → Nat → Nat → α → Nat
  | [], _, best, _ => best
  | v :: t, i, best, bv => if v < bv then argminFrom t (i + 1) i v else argminFrom t (i + 1) best bv

/-- `a.argmin()`: the index of the FIRST minimum (numpy raises on an empty array: totalised to `0`; NaN is not modelled) -/
def argmin [LT α] [DecidableLT α] : List α → Nat
  | [] => 0
  | v :: t => argminFrom t 1 0 v

end

/-! ### dicts with string keys and array values (the profile dictionaries of the output code) -/

/-- a value stored in such a dict: a 1-D array, a 2-D array (row major), or `None` -/
inductive PyVal (α : Type) where
  | arr (l : List α)
  | arr2 (rows : List (List α))
  | none

/-- python `d[k] = v` on a dict kept in insertion order: an existing key keeps its position and gets the new value, a new
    key is appended -/
def dictSet {β : Type} (d : List (String × β)) (k : String) (v : β) : List (String × β) :=
  if d.any (fun e => e.1 == k) then d.map (fun e => if e.1 == k then (k, v) else e) else d ++ [(k, v)]

/-- `M[i, :] = v` for a 2-D array (row major) and a 1-D value: the row is replaced when `v` has the row's length, filled
    with the single entry of a `v` of length 1 (numpy's broadcast); otherwise numpy raises ValueError — totalised: `M` is
    left as it is.  A row index beyond the array (IndexError in numpy) changes nothing either. -/
def setRow {β : Type} (M : List (List β)) (i : Nat) (v : List β) : List (List β) :=
  match M[i]? with
  | .none => M
  | some row =>
    if v.length = row.length then M.set i v
    else match v with
      | [x] => M.set i (List.replicate row.length x)
      | _ => M

end Taurex.Gen.Np
