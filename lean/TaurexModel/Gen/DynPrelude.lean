/-
  Primitives of the `dyn` dialect of the source translator (harness/translate_dyn.py): DYNAMICALLY TYPED Python.

  The dialect is used for the glue code of /repo (input-file parsing, class factories, output writers) whose logic is a
  dispatch on the run-time type of a value (`isinstance`), on exceptions (`try/except`), on dictionary membership and on
  string content.  Nothing is typed statically: every Python value is a `Val φ ω`

      None | bool | int | float (payload `φ`) | str | list | tuple | dict (insertion-ordered association list) | object `ω`

  and every operation is the TOTAL function "what CPython does on these operands": the result, or the exception class it
  raises (`Exc`), in a monad `m` with `MonadExceptOf Exc m` (the generated definitions are polymorphic in `m`: `Except Exc`
  for code without side effects, `Eff σ` below for code that acts on external objects).  What Python delegates to objects
  that are not built-in values (classes, modules, numpy arrays, file handles: attribute access, calls, method calls,
  iteration, truth, arithmetic) is delegated to the ORACLE `Ext m φ ω`, a parameter of every generated definition; the tie
  theorems instantiate it with the model's description of those objects and say so.

  Restrictions (documented, the same as the hand-written models'): `str.lower()/upper()` change ASCII letters only,
  `str.strip()` strips ASCII white space, a float is only compared / converted through the `FloatLike φ` operations,
  exception MESSAGES are not represented (only the class), a `dict` key must be hashable (`TypeError` otherwise) and keys
  are compared with `==` (CPython: hash, then `==`; for the built-in values here the two agree).
  Import-free (core only).  Nothing here is specific to a translated function.
-/
namespace Taurex.Gen.Dyn

/-! ## exceptions -/

/-- the class of a raised exception (`other`: a class outside this list, known by name; it derives from `Exception`) -/
inductive Exc where
  | Exception | TypeError | ValueError | KeyError | IndexError | LookupError | AttributeError | NotImplementedError
  | RuntimeError | RecursionError | UnicodeError | UnicodeDecodeError | ZeroDivisionError | ArithmeticError
  | NameError | OSError | ImportError | AssertionError | StopIteration
  | other (name : String)
  deriving DecidableEq, Repr, Inhabited

/-- the direct base class (`none` for `Exception`) -/
def Exc.base : Exc → Option Exc
  | .Exception => none
  | .KeyError => some .LookupError
  | .IndexError => some .LookupError
  | .NotImplementedError => some .RuntimeError
  | .RecursionError => some .RuntimeError
  | .UnicodeError => some .ValueError
  | .UnicodeDecodeError => some .UnicodeError
  | .ZeroDivisionError => some .ArithmeticError
  | _ => some .Exception

/-- `isinstance(e, c)` for exception classes: `c` is `e` or one of its (at most three) ancestors -/
def Exc.isa (e c : Exc) : Bool :=
  e == c ||
  match e.base with
  | none => false
  | some b1 => b1 == c ||
    match b1.base with
    | none => false
    | some b2 => b2 == c ||
      match b2.base with
      | none => false
      | some b3 => b3 == c

/-- `except (c1, c2, …)` -/
def Exc.isaAny (e : Exc) (cs : List Exc) : Bool := cs.any (e.isa ·)

/-! ## values -/

/-- what the code needs of Python floats -/
class FloatLike (φ : Type) where
  ofInt : Int → φ
  beq : φ → φ → Bool
  lt : φ → φ → Bool
  isZero : φ → Bool

/-- a Python value; `φ` = float payload, `ω` = objects that are not built-in values -/
inductive Val (φ ω : Type) where
  | none
  | bool (b : Bool)
  | int (i : Int)
  | float (x : φ)
  | str (s : String)
  | list (l : List (Val φ ω))
  | tuple (l : List (Val φ ω))
  | dict (d : List (Val φ ω × Val φ ω))
  | obj (o : ω)
  deriving Inhabited

/-- built-in types that `isinstance` is asked about -/
inductive Ty where
  | bool | int | float | str | list | tuple | dict | noneType
  deriving DecidableEq, Repr

/-- how a block of statements ends: it falls through with the values of the variables it assigns, or it executes
    `return r` -/
inductive Flow (σ ρ : Type) where
  | next (s : σ)
  | ret (r : ρ)

/-- how one pass through a loop body (or a statement inside it) ends: as `Flow`, or with `break` / `continue` (with the
    values of the loop's variables at that point) -/
inductive LFlow (σ ρ : Type) where
  | next (s : σ)
  | ret (r : ρ)
  | brk (s : σ)
  | cont (s : σ)

/-- a monad for code that acts on the outside world: state `σ` (what the external objects hold), exceptions `Exc`; the
    state reached when an exception is raised stays (Python does not roll anything back) -/
def Eff (σ α : Type) : Type := σ → Except Exc α × σ

instance {σ : Type} : Monad (Eff σ) where
  pure a := fun s => (.ok a, s)
  bind x f := fun s =>
    match x s with
    | (.ok a, s') => f a s'
    | (.error e, s') => (.error e, s')

instance {σ : Type} : MonadExceptOf Exc (Eff σ) where
  throw e := fun s => (.error e, s)
  tryCatch x h := fun s =>
    match x s with
    | (.ok a, s') => (.ok a, s')
    | (.error e, s') => h e s'

section
variable {m : Type → Type} [Monad m] [MonadExceptOf Exc m] {φ ω : Type}

/-- the oracle: everything Python delegates to objects that are not built-in values -/
structure Ext (m : Type → Type) (φ ω : Type) where
  /-- a module-level / imported / built-in name that the translation does not define itself -/
  global : String → m (Val φ ω)
  /-- `o.name` -/
  getattr : ω → String → m (Val φ ω)
  /-- `o(*args, **kwargs)` -/
  call : ω → List (Val φ ω) → List (String × Val φ ω) → m (Val φ ω)
  /-- `o.name(*args, **kwargs)` -/
  method : ω → String → List (Val φ ω) → List (String × Val φ ω) → m (Val φ ω)
  /-- `isinstance(v, o)` for a class object `o` -/
  isinst : Val φ ω → ω → Bool
  /-- `list(o)` / iterating `o` -/
  iter : ω → m (List (Val φ ω))
  /-- `bool(o)` -/
  truthy : ω → m Bool
  /-- an operator (`+ - * / % < <= > >= == len str float getitem setitem delitem contains neg`) with an operand that is
      an object, or arithmetic on floats -/
  op : String → List (Val φ ω) → m (Val φ ω)
  /-- `float(s)` for a string: `none` = ValueError -/
  parseFloat : String → Option φ

/-! ## strings -/

def lowerChar (c : Char) : Char := if 65 ≤ c.toNat ∧ c.toNat ≤ 90 then Char.ofNat (c.toNat + 32) else c
def upperChar (c : Char) : Char := if 97 ≤ c.toNat ∧ c.toNat ≤ 122 then Char.ofNat (c.toNat - 32) else c
/-- `s.lower()` (ASCII) -/
def strLower (s : String) : String := String.ofList (s.toList.map lowerChar)
/-- `s.upper()` (ASCII) -/
def strUpper (s : String) : String := String.ofList (s.toList.map upperChar)
def isSpace (c : Char) : Bool := c = ' ' || c = '\t' || c = '\n' || c = '\r' || c.toNat = 11 || c.toNat = 12
/-- `s.strip()` (ASCII white space) -/
def strStrip (s : String) : String :=
  String.ofList ((s.toList.dropWhile isSpace).reverse.dropWhile isSpace).reverse

/-- `l.split(c)` on characters: always at least one part, empty parts kept -/
def splitOnC (c : Char) : List Char → List (List Char)
  | [] => [[]]
  | x :: xs =>
    if x = c then [] :: splitOnC c xs
    else match splitOnC c xs with
      | [] => [[x]]
      | h :: t => (x :: h) :: t

/-- `s.split(sep)` for a non-empty separator -/
def strSplit (s sep : String) : List String :=
  match sep.toList with
  | [c] => (splitOnC c s.toList).map String.ofList
  | _ => s.splitOn sep

/-- `str(i)` -/
def intStr (i : Int) : String := toString i

/-! ## equality, hashing, types -/

def boolInt (b : Bool) : Int := if b then 1 else 0

mutual
/-- Python `a == b` on built-in values (objects: the `BEq ω` instance, i.e. identity for the opaque objects here) -/
def Val.beq [FloatLike φ] [BEq ω] : Val φ ω → Val φ ω → Bool
  | .none, b => match b with | .none => true | _ => false
  | .bool a, b => match b with
    | .bool b => a == b | .int b => boolInt a == b | .float b => FloatLike.beq (FloatLike.ofInt (boolInt a)) b | _ => false
  | .int a, b => match b with
    | .bool b => a == boolInt b | .int b => a == b | .float b => FloatLike.beq (FloatLike.ofInt a) b | _ => false
  | .float a, b => match b with
    | .bool b => FloatLike.beq a (FloatLike.ofInt (boolInt b)) | .int b => FloatLike.beq a (FloatLike.ofInt b)
    | .float b => FloatLike.beq a b | _ => false
  | .str a, b => match b with | .str b => a == b | _ => false
  | .list a, b => match b with | .list b => beqList a b | _ => false
  | .tuple a, b => match b with | .tuple b => beqList a b | _ => false
  | .dict a, b => match b with | .dict b => a.length == b.length && beqDict a b | _ => false
  | .obj a, b => match b with | .obj b => a == b | _ => false
def beqList [FloatLike φ] [BEq ω] : List (Val φ ω) → List (Val φ ω) → Bool
  | [], b => b.isEmpty
  | x :: xs, b => match b with
    | [] => false
    | y :: ys => Val.beq x y && beqList xs ys
/-- every entry of the first dictionary has an equal entry in the second -/
def beqDict [FloatLike φ] [BEq ω] : List (Val φ ω × Val φ ω) → List (Val φ ω × Val φ ω) → Bool
  | [], _ => true
  | (k, v) :: rest, b => beqEntry k v b && beqDict rest b
def beqEntry [FloatLike φ] [BEq ω] : Val φ ω → Val φ ω → List (Val φ ω × Val φ ω) → Bool
  | _, _, [] => false
  | k, v, (k', v') :: t => if Val.beq k k' then Val.beq v v' else beqEntry k v t
end

mutual
/-- `hash(v)` does not raise -/
def Val.hashable : Val φ ω → Bool
  | .list _ => false
  | .dict _ => false
  | .tuple l => hashableList l
  | _ => true
def hashableList : List (Val φ ω) → Bool
  | [] => true
  | x :: xs => Val.hashable x && hashableList xs
end

/-- `isinstance(v, T)` for a built-in type (`bool` is a subclass of `int`) -/
def Val.isTy : Ty → Val φ ω → Bool
  | .noneType, .none => true
  | .bool, .bool _ => true
  | .int, .bool _ => true
  | .int, .int _ => true
  | .float, .float _ => true
  | .str, .str _ => true
  | .list, .list _ => true
  | .tuple, .tuple _ => true
  | .dict, .dict _ => true
  | _, _ => false

def Val.isNone : Val φ ω → Bool
  | .none => true
  | _ => false

/-- `isinstance(v, c)` for a class given as a value (an object, or a tuple of classes) -/
def isinstObj (ext : Ext m φ ω) (v : Val φ ω) : Val φ ω → Bool
  | .obj o => ext.isinst v o
  | _ => false

/-! ## truth, length, iteration -/

/-- `bool(v)` -/
def truthy [FloatLike φ] (ext : Ext m φ ω) : Val φ ω → m Bool
  | .none => pure false
  | .bool b => pure b
  | .int i => pure (i != 0)
  | .float x => pure (!FloatLike.isZero x)
  | .str s => pure (s != "")
  | .list l => pure (!l.isEmpty)
  | .tuple l => pure (!l.isEmpty)
  | .dict d => pure (!d.isEmpty)
  | .obj o => ext.truthy o

/-- `len(v)` -/
def len (ext : Ext m φ ω) : Val φ ω → m (Val φ ω)
  | .str s => pure (.int s.length)
  | .list l => pure (.int l.length)
  | .tuple l => pure (.int l.length)
  | .dict d => pure (.int d.length)
  | .obj o => ext.op "len" [.obj o]
  | _ => throw Exc.TypeError

/-- the elements `for x in v` visits (a dictionary: its keys; a string: its characters) -/
def iter (ext : Ext m φ ω) : Val φ ω → m (List (Val φ ω))
  | .str s => pure (s.toList.map (fun c => .str (String.singleton c)))
  | .list l => pure l
  | .tuple l => pure l
  | .dict d => pure (d.map (·.1))
  | .obj o => ext.iter o
  | _ => throw Exc.TypeError

/-- `for x in xs: body` — `body st x` is one pass: it falls through / `continue`s with the new state (next element),
    `break`s (the loop is left with that state) or returns; an exception ends the loop -/
def forIn {σ ρ ι : Type} : List ι → σ → (σ → ι → m (LFlow σ ρ)) → m (Flow σ ρ)
  | [], s, _ => pure (.next s)
  | x :: xs, s, body => do
    match ← body s x with
    | .ret r => pure (.ret r)
    | .brk s' => pure (.next s')
    | .next s' => forIn xs s' body
    | .cont s' => forIn xs s' body

/-- a loop whose body contains no `return` -/
def forM {σ ι : Type} : List ι → σ → (σ → ι → m σ) → m σ
  | [], s, _ => pure s
  | x :: xs, s, body => do
    let s' ← body s x
    forM xs s' body

/-- `[f(x) for x in xs]` -/
def mapM {ι β : Type} (f : ι → m β) : List ι → m (List β)
  | [] => pure []
  | x :: xs => do
    let y ← f x
    let ys ← mapM f xs
    pure (y :: ys)

/-! ## subscripts -/

/-- the position a (possibly negative) index denotes in a sequence of length `n` -/
def normIndex (n : Nat) (i : Int) : Option Nat :=
  if 0 ≤ i then (if i.toNat < n then some i.toNat else none)
  else if (-i).toNat ≤ n then some (n - (-i).toNat) else none

def dictGet? [FloatLike φ] [BEq ω] : List (Val φ ω × Val φ ω) → Val φ ω → Option (Val φ ω)
  | [], _ => none
  | (k', v) :: t, k => if Val.beq k' k then some v else dictGet? t k

def dictHas [FloatLike φ] [BEq ω] (d : List (Val φ ω × Val φ ω)) (k : Val φ ω) : Bool := d.any (fun e => Val.beq e.1 k)

/-- `d[k] = v`: an existing key keeps its place, a new key is appended -/
def dictSet [FloatLike φ] [BEq ω] : List (Val φ ω × Val φ ω) → Val φ ω → Val φ ω → List (Val φ ω × Val φ ω)
  | [], k, v => [(k, v)]
  | (k', w) :: t, k, v => if Val.beq k' k then (k', v) :: t else (k', w) :: dictSet t k v

def dictDel [FloatLike φ] [BEq ω] (d : List (Val φ ω × Val φ ω)) (k : Val φ ω) : List (Val φ ω × Val φ ω) :=
  d.filter (fun e => !Val.beq e.1 k)

def indexOf (i : Val φ ω) : Option Int :=
  match i with
  | .int i => some i
  | .bool b => some (boolInt b)
  | _ => none

/-- `c[k]` -/
def getItem [FloatLike φ] [BEq ω] (ext : Ext m φ ω) (c k : Val φ ω) : m (Val φ ω) :=
  match c with
  | .dict d =>
    if k.hashable then
      match dictGet? d k with
      | some v => pure v
      | none => throw Exc.KeyError
    else throw Exc.TypeError
  | .list l =>
    match indexOf k with
    | some i => match (normIndex l.length i).bind (l[·]?) with
      | some v => pure v
      | none => throw Exc.IndexError
    | none => throw Exc.TypeError
  | .tuple l =>
    match indexOf k with
    | some i => match (normIndex l.length i).bind (l[·]?) with
      | some v => pure v
      | none => throw Exc.IndexError
    | none => throw Exc.TypeError
  | .str s =>
    match indexOf k with
    | some i => match (normIndex s.length i).bind (s.toList[·]?) with
      | some ch => pure (.str (String.singleton ch))
      | none => throw Exc.IndexError
    | none => throw Exc.TypeError
  | .obj _ => ext.op "getitem" [c, k]
  | _ => throw Exc.TypeError

/-- `c[k] = v`: the container afterwards -/
def setItem [FloatLike φ] [BEq ω] (ext : Ext m φ ω) (c k v : Val φ ω) : m (Val φ ω) :=
  match c with
  | .dict d => if k.hashable then pure (.dict (dictSet d k v)) else throw Exc.TypeError
  | .list l =>
    match indexOf k with
    | some i => match normIndex l.length i with
      | some n => pure (.list (l.set n v))
      | none => throw Exc.IndexError
    | none => throw Exc.TypeError
  | .obj _ => do
    let _ ← ext.op "setitem" [c, k, v]
    pure c
  | _ => throw Exc.TypeError

/-- `del c[k]`: the container afterwards -/
def delItem [FloatLike φ] [BEq ω] (ext : Ext m φ ω) (c k : Val φ ω) : m (Val φ ω) :=
  match c with
  | .dict d =>
    if k.hashable then (if dictHas d k then pure (.dict (dictDel d k)) else throw Exc.KeyError) else throw Exc.TypeError
  | .list l =>
    match indexOf k with
    | some i => match normIndex l.length i with
      | some n => pure (.list (l.eraseIdx n))
      | none => throw Exc.IndexError
    | none => throw Exc.TypeError
  | .obj _ => do
    let _ ← ext.op "delitem" [c, k]
    pure c
  | _ => throw Exc.TypeError

/-- the bound of a slice: clipped into `0..n` -/
def clipIndex (n : Nat) (i : Int) : Nat :=
  if 0 ≤ i then min i.toNat n else n - min (-i).toNat n

/-- `l[lo:hi]` on a list of anything -/
def sliceList {β : Type} (l : List β) (lo hi : Option Int) : List β :=
  let a := match lo with | some i => clipIndex l.length i | none => 0
  let b := match hi with | some i => clipIndex l.length i | none => l.length
  (l.drop a).take (b - a)

def sliceBound (b : Val φ ω) : m (Option Int) :=
  match b with
  | .none => pure none
  | .int i => pure (some i)
  | .bool b => pure (some (boolInt b))
  | _ => throw Exc.TypeError

/-- `c[lo:hi]` (`Val.none` for an omitted bound) -/
def getSlice (ext : Ext m φ ω) (c lo hi : Val φ ω) : m (Val φ ω) :=
  match c with
  | .list l => do pure (.list (sliceList l (← sliceBound lo) (← sliceBound hi)))
  | .tuple l => do pure (.tuple (sliceList l (← sliceBound lo) (← sliceBound hi)))
  | .str s => do pure (.str (String.ofList (sliceList s.toList (← sliceBound lo) (← sliceBound hi))))
  | .obj _ => ext.op "getslice" [c, lo, hi]
  | _ => throw Exc.TypeError

/-- `x in c` -/
def contains [FloatLike φ] [BEq ω] (ext : Ext m φ ω) (x c : Val φ ω) : m Bool :=
  match c with
  | .dict d => if x.hashable then pure (dictHas d x) else throw Exc.TypeError
  | .list l => pure (l.any (fun y => Val.beq y x))
  | .tuple l => pure (l.any (fun y => Val.beq y x))
  | .str s =>
    match x with
    | .str t => pure ((s.splitOn t).length > 1 || t == "")
    | _ => throw Exc.TypeError
  | .obj _ => do truthy ext (← ext.op "contains" [c, x])
  | _ => throw Exc.TypeError

/-- `a, b, … = v` with `n` targets: the `n` values -/
def unpack (ext : Ext m φ ω) (n : Nat) (v : Val φ ω) : m (List (Val φ ω)) := do
  match v with
  | .none => throw Exc.TypeError
  | .bool _ => throw Exc.TypeError
  | .int _ => throw Exc.TypeError
  | .float _ => throw Exc.TypeError
  | _ =>
    let l ← iter ext v
    if l.length = n then pure l else throw Exc.ValueError

def unpack2 (ext : Ext m φ ω) (v : Val φ ω) : m (Val φ ω × Val φ ω) := do
  match ← unpack ext 2 v with
  | [a, b] => pure (a, b)
  | _ => throw Exc.ValueError

def unpack3 (ext : Ext m φ ω) (v : Val φ ω) : m (Val φ ω × Val φ ω × Val φ ω) := do
  match ← unpack ext 3 v with
  | [a, b, c] => pure (a, b, c)
  | _ => throw Exc.ValueError

def unpack4 (ext : Ext m φ ω) (v : Val φ ω) : m (Val φ ω × Val φ ω × Val φ ω × Val φ ω) := do
  match ← unpack ext 4 v with
  | [a, b, c, d] => pure (a, b, c, d)
  | _ => throw Exc.ValueError

/-! ## attributes and calls -/

/-- `v.name` (the built-in values have no data attributes the translated code reads) -/
def getAttr (ext : Ext m φ ω) (v : Val φ ω) (name : String) : m (Val φ ω) :=
  match v with
  | .obj o => ext.getattr o name
  | _ => throw Exc.AttributeError

/-- `f(*args, **kwargs)` for a value `f` -/
def call (ext : Ext m φ ω) (f : Val φ ω) (args : List (Val φ ω)) (kwargs : List (String × Val φ ω)) : m (Val φ ω) :=
  match f with
  | .obj o => ext.call o args kwargs
  | _ => throw Exc.TypeError

/-- `v.name(*args, **kwargs)` where `name` is not a method of a built-in type -/
def callMethod (ext : Ext m φ ω) (v : Val φ ω) (name : String) (args : List (Val φ ω))
    (kwargs : List (String × Val φ ω)) : m (Val φ ω) :=
  match v with
  | .obj o => ext.method o name args kwargs
  | _ => throw Exc.AttributeError

/-- `v.name(*args, **kwargs)` where `name` is a method of some built-in type that this prelude does not define: the
    oracle's for every receiver -/
def callMethodB (ext : Ext m φ ω) (v : Val φ ω) (name : String) (args : List (Val φ ω))
    (kwargs : List (String × Val φ ω)) : m (Val φ ω) :=
  match v with
  | .obj o => ext.method o name args kwargs
  | _ => ext.op ("method:" ++ name) (v :: args ++ kwargs.map (·.2))

/-- `**d`: the keyword arguments a dictionary stands for (keys must be strings) -/
def starStar : Val φ ω → m (List (String × Val φ ω))
  | .dict d => mapM (fun e => match e.1 with | .str s => pure (s, e.2) | _ => throw Exc.TypeError) d
  | _ => throw Exc.TypeError

/-- `getattr(v, name)` -/
def getattrDyn (ext : Ext m φ ω) (v name : Val φ ω) : m (Val φ ω) :=
  match name with
  | .str s => getAttr ext v s
  | _ => throw Exc.TypeError

/-! ## built-in functions -/

/-- `float(v)` -/
def float_ [FloatLike φ] (ext : Ext m φ ω) : Val φ ω → m (Val φ ω)
  | .float x => pure (.float x)
  | .int i => pure (.float (FloatLike.ofInt i))
  | .bool b => pure (.float (FloatLike.ofInt (boolInt b)))
  | .str s =>
    match ext.parseFloat s with
    | some x => pure (.float x)
    | none => throw Exc.ValueError
  | .obj o => ext.op "float" [.obj o]
  | _ => throw Exc.TypeError

/-- `list(v)` -/
def list_ (ext : Ext m φ ω) (v : Val φ ω) : m (Val φ ω) := do pure (.list (← iter ext v))

/-- `tuple(v)` -/
def tuple_ (ext : Ext m φ ω) (v : Val φ ω) : m (Val φ ω) := do pure (.tuple (← iter ext v))

/-- `str(v)` -/
def str_ (ext : Ext m φ ω) : Val φ ω → m (Val φ ω)
  | .str s => pure (.str s)
  | .int i => pure (.str (intStr i))
  | .bool b => pure (.str (if b then "True" else "False"))
  | .none => pure (.str "None")
  | v => ext.op "str" [v]

/-- `zip(a, b)` consumed as a whole -/
def zip_ (ext : Ext m φ ω) (a b : Val φ ω) : m (List (Val φ ω)) := do
  let la ← iter ext a
  let lb ← iter ext b
  pure (List.zipWith (fun x y => Val.tuple [x, y]) la lb)

def enumFrom (i : Nat) : List (Val φ ω) → List (Val φ ω)
  | [] => []
  | x :: xs => Val.tuple [.int i, x] :: enumFrom (i + 1) xs

/-- `enumerate(a)` consumed as a whole -/
def enumerate_ (ext : Ext m φ ω) (a : Val φ ω) : m (List (Val φ ω)) := do
  pure (enumFrom 0 (← iter ext a))

/-- `reversed(a)` consumed as a whole -/
def reversed_ (ext : Ext m φ ω) (a : Val φ ω) : m (List (Val φ ω)) :=
  match a with
  | .list l => pure l.reverse
  | .tuple l => pure l.reverse
  | .str s => pure (s.toList.reverse.map (fun c => .str (String.singleton c)))
  | .obj _ => do iter ext (← ext.op "reversed" [a])
  | _ => throw Exc.TypeError

/-- `max(l)` of a non-empty list of ints (what the translated code uses it for); anything else is the oracle's -/
def maxInts : List (Val φ ω) → Option Int
  | [] => none
  | [.int i] => some i
  | .int i :: rest => (maxInts rest).map (fun j => if j > i then j else i)
  | _ => none

def max_ (ext : Ext m φ ω) (v : Val φ ω) : m (Val φ ω) :=
  match v with
  | .list [] => throw Exc.ValueError
  | .list l => match maxInts l with
    | some i => pure (.int i)
    | none => ext.op "max" [v]
  | _ => ext.op "max" [v]

/-! ## operators -/

/-- `a + b` -/
def add (ext : Ext m φ ω) (a b : Val φ ω) : m (Val φ ω) :=
  match a, b with
  | .int x, .int y => pure (.int (x + y))
  | .str x, .str y => pure (.str (x ++ y))
  | .list x, .list y => pure (.list (x ++ y))
  | .tuple x, .tuple y => pure (.tuple (x ++ y))
  | _, _ => ext.op "+" [a, b]

/-- `a - b` -/
def sub (ext : Ext m φ ω) (a b : Val φ ω) : m (Val φ ω) :=
  match a, b with
  | .int x, .int y => pure (.int (x - y))
  | _, _ => ext.op "-" [a, b]

/-- `a * b` -/
def mul (ext : Ext m φ ω) (a b : Val φ ω) : m (Val φ ω) :=
  match a, b with
  | .int x, .int y => pure (.int (x * y))
  | _, _ => ext.op "*" [a, b]

/-- `a / b` (true division: the result is a float or an array, never a built-in int) -/
def truediv (ext : Ext m φ ω) (a b : Val φ ω) : m (Val φ ω) := ext.op "/" [a, b]

/-- `a ** b` -/
def pow (ext : Ext m φ ω) (a b : Val φ ω) : m (Val φ ω) := ext.op "**" [a, b]

/-- `-a` -/
def neg (ext : Ext m φ ω) (a : Val φ ω) : m (Val φ ω) :=
  match a with
  | .int x => pure (.int (-x))
  | .bool b => pure (.int (-(boolInt b)))
  | _ => ext.op "neg" [a]

/-- `a == b` as a truth value (an object operand decides itself what `==` means: the oracle) -/
def eqB [FloatLike φ] [BEq ω] (ext : Ext m φ ω) (a b : Val φ ω) : m Bool :=
  match a, b with
  | .obj _, _ => do truthy ext (← ext.op "==" [a, b])
  | _, .obj _ => do truthy ext (← ext.op "==" [a, b])
  | _, _ => pure (Val.beq a b)

/-- `a == b` as a value -/
def eqV [FloatLike φ] [BEq ω] (ext : Ext m φ ω) (a b : Val φ ω) : m (Val φ ω) :=
  match a, b with
  | .obj _, _ => ext.op "==" [a, b]
  | _, .obj _ => ext.op "==" [a, b]
  | _, _ => pure (.bool (Val.beq a b))

/-- `a is b`: identity of objects and of the singletons None / True / False; two built-in values of different types
    are never identical; whether two equal strings / numbers / containers are the same object is the oracle's -/
def is_ [FloatLike φ] [BEq ω] (ext : Ext m φ ω) (a b : Val φ ω) : m Bool :=
  match a, b with
  | .obj x, .obj y => pure (x == y)
  | .none, .none => pure true
  | .bool x, .bool y => pure (x == y)
  | .obj _, _ => pure false
  | _, .obj _ => pure false
  | .none, _ => pure false
  | _, .none => pure false
  | .bool _, _ => pure false
  | _, .bool _ => pure false
  | _, _ => do truthy ext (← ext.op "is" [a, b])

/-- `a < b`, `a <= b`, `a > b`, `a >= b` (`name` is the operator) as a truth value -/
def compare (ext : Ext m φ ω) (name : String) (a b : Val φ ω) : m (Val φ ω) :=
  match indexOf a, indexOf b with
  | some x, some y =>
    pure (.bool (if name == "<" then x < y else if name == "<=" then x ≤ y else if name == ">" then x > y else x ≥ y))
  | _, _ => ext.op name [a, b]

/-! ## methods of built-in types (an object receiver: the oracle) -/

def m_lower (ext : Ext m φ ω) : Val φ ω → m (Val φ ω)
  | .str s => pure (.str (strLower s))
  | v => callMethod ext v "lower" [] []

def m_upper (ext : Ext m φ ω) : Val φ ω → m (Val φ ω)
  | .str s => pure (.str (strUpper s))
  | v => callMethod ext v "upper" [] []

def m_strip (ext : Ext m φ ω) : Val φ ω → m (Val φ ω)
  | .str s => pure (.str (strStrip s))
  | v => callMethod ext v "strip" [] []

/-- `s.split(sep)` -/
def m_split (ext : Ext m φ ω) (v sep : Val φ ω) : m (Val φ ω) :=
  match v with
  | .str s =>
    match sep with
    | .str t => if t == "" then throw Exc.ValueError else pure (.list ((strSplit s t).map .str))
    | _ => throw Exc.TypeError
  | _ => callMethod ext v "split" [sep] []

/-- `sep.join(l)` -/
def m_join (ext : Ext m φ ω) (v l : Val φ ω) : m (Val φ ω) :=
  match v with
  | .str sep => do
    let parts ← mapM (fun x => match x with | .str s => pure s | _ => throw Exc.TypeError) (← iter ext l)
    pure (.str (sep.intercalate parts))
  | _ => callMethod ext v "join" [l] []

/-- `template.format(a0, a1, …)` for a template whose replacement fields are all `{}` (the translator checks that):
    `parts` = the literal text around the fields -/
def formatParts : List String → List String → String
  | [], _ => ""
  | [p], _ => p
  | p :: ps, [] => p ++ formatParts ps []
  | p :: ps, a :: as => p ++ a ++ formatParts ps as

def m_format (ext : Ext m φ ω) (parts : List String) (args : List (Val φ ω)) : m (Val φ ω) := do
  if args.length + 1 < parts.length then throw Exc.IndexError
  let strs ← mapM (fun a => do match ← str_ ext a with | .str s => pure s | _ => throw Exc.TypeError) args
  pure (.str (formatParts parts strs))

/-- `d.items()` consumed as a whole -/
def m_items (ext : Ext m φ ω) : Val φ ω → m (List (Val φ ω))
  | .dict d => pure (d.map (fun e => .tuple [e.1, e.2]))
  | v => do iter ext (← callMethod ext v "items" [] [])

/-- `d.keys()` consumed as a whole -/
def m_keys (ext : Ext m φ ω) : Val φ ω → m (List (Val φ ω))
  | .dict d => pure (d.map (·.1))
  | v => do iter ext (← callMethod ext v "keys" [] [])

/-- `d.values()` consumed as a whole -/
def m_values (ext : Ext m φ ω) : Val φ ω → m (List (Val φ ω))
  | .dict d => pure (d.map (·.2))
  | v => do iter ext (← callMethod ext v "values" [] [])

/-- `d.pop(k)`: the value and the dictionary afterwards -/
def m_pop [FloatLike φ] [BEq ω] (ext : Ext m φ ω) (c k : Val φ ω) : m (Val φ ω × Val φ ω) :=
  match c with
  | .dict d =>
    if k.hashable then
      match dictGet? d k with
      | some v => pure (v, .dict (dictDel d k))
      | none => throw Exc.KeyError
    else throw Exc.TypeError
  | .list l =>
    match indexOf k with
    | some i => match normIndex l.length i with
      | some n => match l[n]? with
        | some v => pure (v, .list (l.eraseIdx n))
        | none => throw Exc.IndexError
      | none => throw Exc.IndexError
    | none => throw Exc.TypeError
  | _ => do
    let r ← callMethod ext c "pop" [k] []
    pure (r, c)

/-- `l.append(x)`: the list afterwards -/
def m_append (ext : Ext m φ ω) (c x : Val φ ω) : m (Val φ ω) :=
  match c with
  | .list l => pure (.list (l ++ [x]))
  | _ => do
    let _ ← callMethod ext c "append" [x] []
    pure c

/-- `l.extend(xs)`: the list afterwards -/
def m_extend (ext : Ext m φ ω) (c xs : Val φ ω) : m (Val φ ω) :=
  match c with
  | .list l => do pure (.list (l ++ (← iter ext xs)))
  | _ => do
    let _ ← callMethod ext c "extend" [xs] []
    pure c

/-- `d.update(e)` for a dictionary `e`: the dictionary afterwards -/
def m_update [FloatLike φ] [BEq ω] (ext : Ext m φ ω) (c e : Val φ ω) : m (Val φ ω) :=
  match c, e with
  | .dict d, .dict e => pure (.dict (e.foldl (fun acc kv => dictSet acc kv.1 kv.2) d))
  | .dict _, _ => throw Exc.TypeError
  | _, _ => do
    let _ ← callMethod ext c "update" [e] []
    pure c

/-- `l.index(x)` -/
def m_index [FloatLike φ] [BEq ω] (ext : Ext m φ ω) (c x : Val φ ω) : m (Val φ ω) :=
  match c with
  | .list l =>
    match l.findIdx? (fun y => Val.beq y x) with
    | some i => pure (.int i)
    | none => throw Exc.ValueError
  | _ => callMethod ext c "index" [x] []

/-! ## `c[...]` and the `with` statement -/

/-- `c[...]` (an `Ellipsis` subscript): numpy arrays / h5py datasets answer it (the oracle's `getitem[...]`); no built-in
    sequence accepts it, and no dictionary of values has it as a key -/
def getItemEllipsis (ext : Ext m φ ω) (c : Val φ ω) : m (Val φ ω) :=
  match c with
  | .obj _ => ext.op "getitem[...]" [c]
  | .dict _ => throw Exc.KeyError
  | _ => throw Exc.TypeError

/-- the name of an exception class -/
def Exc.name : Exc → String
  | .Exception => "Exception" | .TypeError => "TypeError" | .ValueError => "ValueError" | .KeyError => "KeyError"
  | .IndexError => "IndexError" | .LookupError => "LookupError" | .AttributeError => "AttributeError"
  | .NotImplementedError => "NotImplementedError" | .RuntimeError => "RuntimeError"
  | .RecursionError => "RecursionError" | .UnicodeError => "UnicodeError" | .UnicodeDecodeError => "UnicodeDecodeError"
  | .ZeroDivisionError => "ZeroDivisionError" | .ArithmeticError => "ArithmeticError" | .NameError => "NameError"
  | .OSError => "OSError" | .ImportError => "ImportError" | .AssertionError => "AssertionError"
  | .StopIteration => "StopIteration" | .other n => n

/-- leaving a `with cm:` block: `cm.__exit__(None, None, None)` when the block completed (the result is ignored),
    `cm.__exit__(type, value, traceback)` when it raised — the exception is represented by the name of its class, and a
    true result means the context manager SUPPRESSES it.  An exception raised by `__exit__` itself propagates. -/
def withExit [FloatLike φ] (ext : Ext m φ ω) (cm : Val φ ω) : Option Exc → m Bool
  | none => do
    let _ ← callMethod ext cm "__exit__" [.none, .none, .none] []
    pure false
  | some e => do
    let r ← callMethod ext cm "__exit__" [.str e.name, .str e.name, .none] []
    truthy ext r

end

end Taurex.Gen.Dyn
