/-
  Primitives of the `py` dialect of the source translator (harness/translate_py.py): Python's built-in containers and
  control flow as total, import-free Lean definitions.  The generated files `TaurexModel/Gen/Src<Cxx>.lean` refer to
  them as `Py.<name>`.

    dict   an insertion-ordered association list `List (κ × β)` whose keys are pairwise distinct (every `dict` the
           translated code builds with these primitives from `[]` has that invariant; a dict received as a parameter has it
           because it is a Python dict — the tie theorems state it as a `Nodup` hypothesis where they need it);
    list   `List β`;   tuple  a right-nested product;   str  `String`;   None  `()` or `Option.none`;
    raise  a value `Except.error e` with `e : Py.Err` naming the exception class.

  Nothing here is specific to a translated function.
-/
namespace Taurex.Gen.Py

/-- the class of a raised exception -/
inductive Err where
  | keyError
  | valueError
  | typeError
  | indexError
  | exception
  | other (cls : String)
  deriving DecidableEq, Repr

section
variable {κ β γ σ : Type}

/-- `k in d` -/
def dhas [DecidableEq κ] (d : List (κ × β)) (k : κ) : Bool := d.any (fun e => decide (e.1 = k))

/-- `d.get(k)` -/
def dget [DecidableEq κ] : List (κ × β) → κ → Option β
  | [], _ => none
  | (k', v) :: t, k => if k' = k then some v else dget t k

/-- `d[k]` (KeyError when absent) -/
def dgetE [DecidableEq κ] (d : List (κ × β)) (k : κ) : Except Err β :=
  match dget d k with
  | some v => .ok v
  | none => .error .keyError

/-- `d[k] = v`: an existing key keeps its position (and its key object), a new key is appended -/
def dset [DecidableEq κ] : List (κ × β) → κ → β → List (κ × β)
  | [], k, v => [(k, v)]
  | (k', w) :: t, k, v => if k' = k then (k', v) :: t else (k', w) :: dset t k v

/-- `d.update(e)` for a dict `e`: its items are stored in its order -/
def dupdate [DecidableEq κ] (d e : List (κ × β)) : List (κ × β) := e.foldl (fun acc kv => dset acc kv.1 kv.2) d

/-- `d.values()` -/
def values (d : List (κ × β)) : List β := d.map (·.2)

/-- `d.keys()` / iterating a dict -/
def keys (d : List (κ × β)) : List κ := d.map (·.1)

/-- `l[i]` for `0 ≤ i` (IndexError when out of range) -/
def lgetE (l : List β) (i : Nat) : Except Err β :=
  match l[i]? with
  | some v => .ok v
  | none => .error .indexError

/-- `x in l` for a list (tuple) `l`: `==` against the elements in order -/
def lhas [DecidableEq β] (l : List β) (x : β) : Bool := l.any (fun y => decide (x = y))

/-- what happens after an expression that may raise: `onErr e` when it raised `e`, `onOk v` with its value otherwise.
    (A named eliminator instead of `match`, so that generated definitions and lemmas about them share one constant.) -/
def caseE {ε : Type} (x : Except ε β) (onErr : ε → γ) (onOk : β → γ) : γ :=
  match x with
  | .error e => onErr e
  | .ok v => onOk v

/-- after a loop whose body may raise: `onErr e` when it raised, `onDone` otherwise -/
def caseO (x : Option β) (onErr : β → γ) (onDone : γ) : γ :=
  match x with
  | some e => onErr e
  | none => onDone

/-- `for x in l: body` where the body may raise: `f st x` returns the new loop state and `some e` when it raised `e`;
    the loop stops at the first raise, with the state as it was when the exception left the body -/
def forE (l : List β) (init : σ) (f : σ → β → σ × Option Err) : σ × Option Err :=
  match l with
  | [] => (init, none)
  | x :: xs =>
    match f init x with
    | (s, none) => forE xs s f
    | (s, some e) => (s, some e)

/-- `while True: body` — `f st` is one pass: the new loop state and `none` (next pass), `some none` (`break`) or
    `some (some e)` (the body raised `e`).  `fuel` bounds the number of passes; a loop still running when it is used up ends in
    the error `nontermination` (the Python loop would not return) -/
def whileE (fuel : Nat) (init : σ) (f : σ → σ × Option (Option Err)) : σ × Option Err :=
  match fuel with
  | 0 => (init, some (.other "nontermination"))
  | n + 1 =>
    match f init with
    | (s, none) => whileE n s f
    | (s, some none) => (s, none)
    | (s, some (some e)) => (s, some e)

/-- `[f(x) for x in l]` where `f` may raise: elements are evaluated in order, the first exception wins -/
def mapE (f : β → Except Err γ) : List β → Except Err (List γ)
  | [] => .ok []
  | x :: xs =>
    match f x with
    | .error e => .error e
    | .ok y =>
      match mapE f xs with
      | .error e => .error e
      | .ok ys => .ok (y :: ys)

/-- `np.searchsorted(a, v, side='left')` / `a.searchsorted(v)` on a SORTED 1-D array: the number of elements `< v` -/
def searchsortedLeft {α : Type} [LT α] [DecidableLT α] (l : List α) (v : α) : Nat := l.countP (fun a => decide (a < v))

/-- `a.searchsorted(v, side='right')` on a SORTED 1-D array: the number of elements `≤ v` -/
def searchsortedRight {α : Type} [LE α] [DecidableLE α] (l : List α) (v : α) : Nat := l.countP (fun a => decide (a ≤ v))

/-- `max(l)` / `l.max()`: the first maximal element (`ValueError` on an empty sequence; a NaN element is not modelled) -/
def maxE {α : Type} [LT α] [DecidableLT α] : List α → Except Err α
  | [] => .error .valueError
  | h :: t => .ok (t.foldl (fun a b => if a < b then b else a) h)

/-- `min(l)` / `l.min()` -/
def minE {α : Type} [LT α] [DecidableLT α] : List α → Except Err α
  | [] => .error .valueError
  | h :: t => .ok (t.foldl (fun a b => if b < a then b else a) h)

/-- `l.sort(key=…)`: a stable sort by the key with Python's `<` (`lt`).  (Every stable sort gives the same list when `lt`
    is a strict weak order on the keys; otherwise the result of Python's algorithm is not modelled.) -/
def sortOn {κ : Type} (lt : κ → κ → Bool) (key : β → κ) (l : List β) : List β :=
  l.mergeSort (fun a b => !(lt (key b) (key a)))

/-- the dict after the object stored at position `i` (in insertion order) was mutated into `v`: same keys, same order -/
def setVal (d : List (κ × β)) (i : Nat) (v : β) : List (κ × β) := d.modify i (fun kv => (kv.1, v))

/-- `enumerate(l)` -/
def enumerate (l : List β) : List (Nat × β) := (List.range l.length).zip l

end

/-- the pieces between the occurrences of the character `sep` (at least one piece) -/
def splitChars (sep : Char) : List Char → List (List Char)
  | [] => [[]]
  | c :: cs =>
    if c = sep then [] :: splitChars sep cs
    else match splitChars sep cs with
      | h :: t => (c :: h) :: t
      | [] => [[c]]

/-- `s.split(sep)` for a separator of one character -/
def split1 (sep : Char) (s : String) : List String := (splitChars sep s.toList).map String.ofList

/-- `s[k:]` for a string and `0 ≤ k` -/
def strDrop (k : Nat) (s : String) : String := String.ofList (s.toList.drop k)

/-- `s.lower()` (Lean's `String.toLower` maps A–Z only: equal to Python's on ASCII text) -/
abbrev lower (s : String) : String := s.toLower

/-- Python's reading of an index `i` into a sequence of length `n`: `i` for `0 ≤ i < n`, `n + i` for `-n ≤ i < 0`, else out of
    range -/
def normIdx (n : Nat) (i : Int) : Option Nat :=
  if 0 ≤ i then (if i.toNat < n then some i.toNat else none)
  else if 0 ≤ i + (n : Int) then some (i + (n : Int)).toNat else none

/-- `A[i, :, k] = v` on a 3-D array `A[i][j][k]` (list of planes, each a list of rows), TOTALISED: nothing is written where an
    index is out of range (numpy: IndexError); a `v` of length 1 is broadcast; row `j` stays as it is when `v` has no element
    `j` (numpy: ValueError unless the lengths agree) -/
def setCol3 {α : Type} (A : List (List (List α))) (i k : Int) (v : List α) : List (List (List α)) :=
  match normIdx A.length i with
  | none => A
  | some i' => A.modify i' (fun plane => plane.zipIdx.map (fun rj =>
      match normIdx rj.1.length k, (if v.length = 1 then v[0]? else v[rj.2]?) with
      | some k', some x => rj.1.set k' x
      | _, _ => rj.1))

/-- `A[:, :, idx]` for an index array `idx` (totalised: a position out of range reads `d`) -/
def takeLast3 {α : Type} (d : α) (A : List (List (List α))) (idx : List Nat) : List (List (List α)) :=
  A.map (fun plane => plane.map (fun row => idx.map (fun i => row.getD i d)))

@[simp] theorem caseE_ok {ε β γ : Type} (v : β) (f : ε → γ) (g : β → γ) : caseE (Except.ok v) f g = g v := rfl
@[simp] theorem caseE_error {ε β γ : Type} (e : ε) (f : ε → γ) (g : β → γ) : caseE (Except.error e : Except ε β) f g = f e := rfl
@[simp] theorem caseO_some {β γ : Type} (e : β) (f : β → γ) (g : γ) : caseO (some e) f g = f e := rfl
@[simp] theorem caseO_none {β γ : Type} (f : β → γ) (g : γ) : caseO (none : Option β) f g = g := rfl

@[simp] theorem forE_nil {β σ : Type} (init : σ) (f : σ → β → σ × Option Err) : forE [] init f = (init, none) := rfl

theorem forE_cons {β σ : Type} (x : β) (xs : List β) (init : σ) (f : σ → β → σ × Option Err) :
    forE (x :: xs) init f = match f init x with
      | (s, none) => forE xs s f
      | (s, some e) => (s, some e) := rfl

@[simp] theorem mapE_nil {β γ : Type} (f : β → Except Err γ) : mapE f [] = .ok [] := rfl

theorem mapE_cons {β γ : Type} (f : β → Except Err γ) (x : β) (xs : List β) :
    mapE f (x :: xs) = match f x with
      | .error e => .error e
      | .ok y => match mapE f xs with
        | .error e => .error e
        | .ok ys => .ok (y :: ys) := rfl

end Taurex.Gen.Py
