/-
  Shared model of the numpy helpers behind the abundance and temperature profiles (C10, C12):

    np.interp(x, xp, fp)            -> `npInterp xp fp x`     (external; documented behaviour)
    np.linspace(start, stop, n)     -> `linspace start stop n`
    taurex/util/util.py:movingaverage (cumsum trick) -> `movingAverage a n` (exact window means)
    the "odd window / keep the borders" assembly shared by
      taurex/data/profiles/temperature/npoint.py:NPoint.profile and
      taurex/data/profiles/chemistry/gas/twolayergas.py:TwoLayerGas.initialize_profile
                                    -> `oddWindow`, `assembleSmoothed`

  Import-free (only `TaurexModel.Num`), carrier-polymorphic.
-/
import TaurexModel.Num

namespace Taurex.NpInterp

/-- conversions between layer counts / indices and the carrier (`float(n)`, `int(x)` for `x ≥ 0`) -/
class NatConv (α : Type) where
  /-- `float(n)` -/
  ofNat' : Nat → α
  /-- `int(x)` for `x ≥ 0` (truncation); `0` for negative `x` (callers clamp with `max(…, 0)`) -/
  truncNat : α → Nat

export NatConv (ofNat' truncNat)

instance : NatConv Float where
  ofNat' := Float.ofNat
  truncNat := fun x => x.toUInt64.toNat

/-- what a profile computation can end in: a value, the model being rejected as invalid
    (`InvalidModelException` and subclasses), or any other exception (numpy shape errors …) -/
inductive Outcome (β : Type) where
  | ok (v : β)
  | invalid
  | error
  deriving Repr

section
variable {α : Type} [Add α] [Sub α] [Mul α] [Div α] [Neg α] [LT α] [LE α]
  [DecidableLT α] [DecidableLE α] [OfNat α 0]

/-- Python's `sum(list)`: left fold starting from `0` -/
def sumL (l : List α) : α := l.foldl (· + ·) 0

/-- `np.abs` -/
def absv (x : α) : α := if x < 0 then -x else x

/-- `np.interp(x, xp, fp)` for one abscissa (numpy `compiled_base.c:arr_interp`):
    left of `xp[0]` → `fp[0]`; right of `xp[-1]` → `fp[-1]`; otherwise with `j` the LAST index such that
    `xp[j] ≤ x` (binary search = number of elements `≤ x`, minus one): `fp[j]` when `j` is the last node or
    `xp[j] = x`, else `slope·(x − xp[j]) + fp[j]` with `slope = (fp[j+1] − fp[j]) / (xp[j+1] − xp[j])`. -/
def npInterp (xp fp : List α) (x : α) : α :=
  let n := xp.length
  if x < xp.getD 0 0 then fp.getD 0 0
  else if xp.getD (n - 1) 0 < x then fp.getD (n - 1) 0
  else
    let j := xp.countP (fun a => decide (a ≤ x)) - 1
    if j = n - 1 then fp.getD j 0
    else if ¬ (xp.getD j 0 < x) then fp.getD j 0
    else
      let slope := (fp.getD (j + 1) 0 - fp.getD j 0) / (xp.getD (j + 1) 0 - xp.getD j 0)
      slope * (x - xp.getD j 0) + fp.getD j 0

variable [NatConv α]

/-- `np.linspace(start, stop, n)` (endpoint included): `i·step + start`, the last element set to `stop` -/
def linspace (start stop : α) (n : Nat) : List α :=
  if n ≤ 1 then List.replicate n start
  else
    let step := (stop - start) / ofNat' (n - 1)
    (List.range n).map (fun i => if i = n - 1 then stop else ofNat' i * step + start)

/-- mean of the window of `n` consecutive values starting at index `i` -/
def windowMean (a : List α) (n i : Nat) : α := sumL ((a.drop i).take n) / ofNat' n

/-- `movingaverage(a, n)`: the `len(a) − n + 1` window means (`cumsum` trick = exact window mean up to
    rounding); empty when the window is longer than the array -/
def movingAverage (a : List α) (n : Nat) : List α :=
  if n = 0 ∨ a.length < n then []
  else (List.range (a.length - n + 1)).map (windowMean a n)

variable [OfNat α 100]

/-- `wsize = int(nlayers * (window / 100.0)); if wsize % 2 == 0: wsize += 1` -/
def oddWindow (nlayers : Nat) (window : α) : Nat :=
  let w := truncNat (ofNat' nlayers * (window / 100))
  if w % 2 = 0 then w + 1 else w

/-- the assembly after smoothing (`raw` is in np.interp order, i.e. reversed layer order):
    ```
    border = int((len(raw) - len(sm)) / 2)
    foo = raw[::-1]
    if len(sm) == len(foo): foo = sm[::-1]
    else: foo[border:-border] = sm[::-1]
    ```
    `error` when numpy would refuse the slice assignment (length mismatch). -/
def assembleSmoothed (raw sm : List α) : Outcome (List α) :=
  let border := (raw.length - sm.length) / 2
  let foo := raw.reverse
  if sm.length = foo.length then .ok sm.reverse
  else if border = 0 then (if sm.length ≤ 1 then .ok foo else .error)
  else if border + sm.length + border = foo.length then
    .ok (foo.take border ++ sm.reverse ++ foo.drop (border + sm.length))
  else .error

/-- index of the first minimum of `|p − target|` (`np.abs(p - target).argmin()`) -/
def argminAbs (p : List α) (target : α) : Nat :=
  let rec go : List α → Nat → Nat → α → Nat
    | [], _, best, _ => best
    | v :: rest, i, best, bestv =>
      let d := absv (v - target)
      if d < bestv then go rest (i + 1) i d else go rest (i + 1) best bestv
  match p with
  | [] => 0
  | v :: rest => go rest 1 0 (absv (v - target))

end

end Taurex.NpInterp
