/-
  C15 — model of the input-file → object-graph path of TauREx 3:
    taurex/parameter/parameterparser.py : ParameterParser.transform / read / generate_*
    taurex/parameter/factory.py         : *_factory, generic_factory, mixin_factory, determine_klass,
                                          get_keywordarg_dict, create_klass, create_profile, create_chemistry,
                                          create_planet/star/optimizer/observation/instrument, create_model,
                                          generate_contributions, create_prior, detect_and_return_klass
    taurex/mixin/core.py                : determine_mixin_args, build_new_mixed_class, mixed_init
  The class tables (`Klass` lists per section) are DATA: `Gen/Registry.lean` is regenerated from /repo on every
  run.  `ConfigObj` parsing itself is not modelled: an input file is the tree of raw strings / string lists that
  ConfigObj hands to `ParameterParser.read`.  Strings are processed as character lists (kernel-reducible).
-/
namespace Taurex.Factory

/-! ## strings -/

/-- `str.lower()` restricted to ASCII (the built-in keywords are ASCII) -/
def lowerChar (c : Char) : Char :=
  if 65 ≤ c.toNat ∧ c.toNat ≤ 90 then Char.ofNat (c.toNat + 32) else c

def lowerL (l : List Char) : List Char := l.map lowerChar

def lower (s : String) : String := String.ofList (lowerL s.toList)

/-- `l.split(c)` on character lists: always at least one part, empty parts kept -/
def splitOnC (c : Char) : List Char → List (List Char)
  | [] => [[]]
  | x :: xs =>
    if x = c then [] :: splitOnC c xs
    else match splitOnC c xs with
      | [] => [[x]]
      | h :: t => (x :: h) :: t

/-- `klass_field.split('+')` -/
def splitPlus (s : String) : List String := (splitOnC '+' s.toList).map String.ofList

def isSpace (c : Char) : Bool :=
  c = ' ' || c = '\t' || c = '\n' || c = '\r' || c.toNat = 11 || c.toNat = 12

/-- `str.strip()` (ASCII white space) -/
def stripL (l : List Char) : List Char :=
  ((l.dropWhile isSpace).reverse.dropWhile isSpace).reverse

/-! ## values -/

/-- a scalar as it reaches a constructor: a constructor default (`none`, `int`, …) or a typed config value -/
inductive Scalar where
  | none
  | bool (b : Bool)
  | int (i : Int)
  /-- the real number `(-1)^neg * mant * 10^exp` (a Python float given by its decimal literal) -/
  | dec (neg : Bool) (mant : Nat) (exp : Int)
  | inf (neg : Bool)
  | nan
  | str (s : String)
  deriving DecidableEq, Repr, Inhabited

inductive Value where
  | scalar (s : Scalar)
  | list (l : List Scalar)
  /-- a default that is neither a scalar nor a flat list: its `repr` -/
  | other (repr : String)
  /-- another component of the graph (`planet`, `star`, `chemistry`, …) handed to the model constructor -/
  | ref (what : String)
  deriving DecidableEq, Repr, Inhabited

abbrev Config := List (String × Value)

/-! ## Python `float(str)` : the literal grammar -/

def isDigit (c : Char) : Bool := 48 ≤ c.toNat && c.toNat ≤ 57

def digitVal (c : Char) : Nat := c.toNat - 48

def digitsToNat (l : List Char) : Nat := l.foldl (fun acc c => acc * 10 + digitVal c) 0

/-- PEP 515: an underscore is allowed exactly between two digits; such underscores are dropped, any other
    underscore stays (and makes the literal invalid) -/
def rmUnderscore (prevDigit : Bool) : List Char → List Char
  | [] => []
  | c :: tl =>
    if c = '_' && prevDigit && (match tl with | d :: _ => isDigit d | [] => false) then rmUnderscore false tl
    else c :: rmUnderscore (isDigit c) tl

def takeSign : List Char → Bool × List Char
  | '-' :: r => (true, r)
  | '+' :: r => (false, r)
  | r => (false, r)

/-- `[digits] ['.' [digits]] [(e|E) [sign] digits]` with at least one mantissa digit → (mantissa, exponent) -/
def parsePlain (l : List Char) : Option (Nat × Int) :=
  let ip := l.takeWhile isDigit
  let r1 := l.dropWhile isDigit
  let (fp, r2) := match r1 with
    | '.' :: r => (r.takeWhile isDigit, r.dropWhile isDigit)
    | _ => ([], r1)
  if ip.isEmpty && fp.isEmpty then none
  else
    let mant := digitsToNat (ip ++ fp)
    match r2 with
    | [] => some (mant, - (fp.length : Int))
    | e :: r3 =>
      if e = 'e' || e = 'E' then
        let (eneg, r4) := takeSign r3
        let ed := r4.takeWhile isDigit
        let r5 := r4.dropWhile isDigit
        if ed.isEmpty || !r5.isEmpty then none
        else
          let ev : Int := digitsToNat ed
          some (mant, (if eneg then -ev else ev) - (fp.length : Int))
      else none

/-- Python `float(s)` for an ASCII string: `none` where Python raises `ValueError` -/
def parseNumberL (l : List Char) : Option Scalar :=
  let (neg, body) := takeSign (stripL l)
  let lb := lowerL body
  if lb = ['i', 'n', 'f'] || lb = ['i', 'n', 'f', 'i', 'n', 'i', 't', 'y'] then some (.inf neg)
  else if lb = ['n', 'a', 'n'] then some .nan
  else match parsePlain (rmUnderscore false body) with
    | some (m, e) => some (.dec neg m e)
    | none => none

def parseNumber (s : String) : Option Scalar := parseNumberL s.toList

/-! ## `ParameterParser.transform` -/

def trueWords : List String := ["true", "yes", "yeah", "yup", "certainly", "uh-huh"]
def falseWords : List String := ["false", "no", "nope", "no-way", "hell-no"]

/-- Python `float(x)` on an element of a config list -/
def toFloat : Scalar → Option Scalar
  | .str s => parseNumber s
  | .dec n m e => some (.dec n m e)
  | .inf n => some (.inf n)
  | .nan => some .nan
  | .int i => some (.dec (i < 0) i.natAbs 0)
  | .bool b => some (.dec false (if b then 1 else 0) 0)
  | .none => none

/-- `transform(section, key)`: a list becomes a list of floats if every element converts (else it is left
    alone); a string becomes a bool by the word lists, else a float if it parses, else stays a string;
    anything else is left alone -/
def transform : Value → Value
  | .list l => match l.mapM toFloat with
    | some ns => .list ns
    | none => .list l
  | .scalar (.str s) =>
    if trueWords.contains (lower s) then .scalar (.bool true)
    else if falseWords.contains (lower s) then .scalar (.bool false)
    else match parseNumber s with
      | some n => .scalar n
      | none => .scalar (.str s)
  | v => v

/-- one section of the file: its scalar entries, then its sub-sections (the order ConfigObj iterates in) -/
structure Sec where
  scalars : Config
  subs : List (String × Config)
  deriving Repr, Inhabited

abbrev InputFile := List (String × Sec)

/-- `ParameterParser.read`: `walk(transform)` over every scalar of every (sub)section -/
def readSec (s : Sec) : Sec :=
  { scalars := s.scalars.map (fun kv => (kv.1, transform kv.2)),
    subs := s.subs.map (fun ss => (ss.1, ss.2.map (fun kv => (kv.1, transform kv.2)))) }

def readFile (f : InputFile) : InputFile := f.map (fun s => (s.1, readSec s.2))

/-! ## the class registry -/

/-- what the factory sees of one class (generated by introspection of /repo) -/
structure Klass where
  /-- `module.qualname` -/
  path : String
  /-- `__name__` -/
  name : String
  /-- `input_keywords()`; `[]` when the class has none (AttributeError / NotImplementedError → skipped) -/
  keywords : List String
  /-- every name `klass(**kw)` accepts: positional-or-keyword and keyword-only parameters without `self` -/
  args : List String
  /-- parameters without a default -/
  required : List String
  /-- `get_keywordarg_dict(klass)`: trailing positional parameters with their defaults -/
  kwargs : Config
  /-- the constructor has `**kwargs` -/
  varkw : Bool
  /-- subclass of `taurex.mixin.core.Mixin` -/
  isMixin : Bool
  /-- for mixins: parameter names of `__init_mixin__` (without `self`) and their defaults -/
  mixinArgs : List String
  mixinKwargs : Config
  /-- the class has an `addGas` method (create_chemistry adds the gas profiles only then) -/
  hasAddGas : Bool
  /-- factory sections whose base class this class derives from (used for custom files) -/
  sections : List String
  deriving Repr, Inhabited, DecidableEq

structure SectionReg where
  classes : List Klass
  mixins : List Klass
  deriving Repr, Inhabited

abbrev Registry := List (String × SectionReg)

def Registry.sec (r : Registry) (name : String) : SectionReg := (r.lookup name).getD ⟨[], []⟩

def claims (k : Klass) (kw : String) : Bool := k.keywords.contains kw

/-- the `for klass in cf.<x>Klasses: if kw in klass.input_keywords(): return klass` loop of every factory -/
def lookup (cls : List Klass) (kw : String) : Option Klass := cls.find? (claims · kw)

/-- all classes that claim a keyword -/
def candidates (cls : List Klass) (kw : String) : List Klass := cls.filter (claims · kw)

/-- no keyword is claimed by two different entries of the list -/
def disjointFrom (k : Klass) (rest : List Klass) : Bool :=
  k.keywords.all (fun w => rest.all (fun k' => !claims k' w))

def pairwiseDisjoint : List Klass → Bool
  | [] => true
  | k :: rest => disjointFrom k rest && pairwiseDisjoint rest

/-! ## dictionaries (insertion ordered, unique keys) -/

def hasKey (c : Config) (k : String) : Bool := c.any (·.1 == k)

/-- `d[k] = v` -/
def dictSet (c : Config) (k : String) (v : Value) : Config :=
  if hasKey c k then c.map (fun kv => if kv.1 == k then (k, v) else kv) else c ++ [(k, v)]

/-- `d.pop(k)` -/
def popKey (c : Config) (k : String) : Option (Value × Config) :=
  match c.lookup k with
  | some v => some (v, c.filter (·.1 != k))
  | none => none

/-- `dict(zip(keys, values))` -/
def dictOfPairs (l : Config) : Config := l.foldl (fun d kv => dictSet d kv.1 kv.2) []

/-! ## errors -/

inductive Err where
  /-- `KeyError`: selector field missing, `python_file` missing, or a key the class does not have (strict) -/
  | keyError (what : String)
  /-- `NotImplementedError`: no class claims the selector -/
  | notImplemented (what : String)
  /-- `TypeError`: `klass(**config)` with an unexpected keyword or without a required one -/
  | typeError (what : String)
  /-- `AttributeError`: `.lower()` on a selector that was typed as number / bool / list -/
  | attrError (what : String)
  /-- plain `Exception`: unknown contributions, no class in the custom file, file problems -/
  | generic (what : String)
  /-- `ValueError`: unknown prior -/
  | valueError (what : String)
  deriving DecidableEq, Repr, Inhabited

/-! ## `determine_klass` -/

inductive Resolved where
  | plain (k : Klass)
  | mixed (mixins : List Klass) (base : Klass)
  deriving Repr, Inhabited, DecidableEq

/-- insertion sort by class name (`inspect.getmembers` returns members sorted by name) -/
def insertByName (k : Klass) : List Klass → List Klass
  | [] => [k]
  | x :: xs => if k.name ≤ x.name then k :: x :: xs else x :: insertByName k xs

def sortByName (l : List Klass) : List Klass := l.foldr insertByName []

/-- `detect_and_return_klass`: first (by name) class of the file that derives from the section's base -/
def detectKlass (members : List Klass) (sec : String) : Except Err Klass :=
  match sortByName (members.filter (fun k => k.sections.contains sec)) with
  | [] => .error (.generic "no class in custom file")
  | k :: _ => .ok k

/-- the files named by `python_file` and the classes defined in (or imported into) each -/
abbrev Customs := List (String × List Klass)

def factory (sr : SectionReg) (kw : String) : Except Err Klass :=
  match lookup sr.classes kw with
  | some k => .ok k
  | none => .error (.notImplemented kw)

def mixinFactory (sr : SectionReg) (kw : String) : Except Err Klass :=
  match lookup sr.mixins kw with
  | some k => .ok k
  | none => .error (.notImplemented kw)

def hasDup : List String → Bool
  | [] => false
  | x :: xs => xs.contains x || hasDup xs

def initOf : List String → List String
  | [] => []
  | [_] => []
  | x :: xs => x :: initOf xs

def lastOf : List String → String
  | [] => ""
  | [x] => x
  | _ :: xs => lastOf xs

/-- `determine_klass(config, field, factory, baseclass)` -/
def determineKlass (sr : SectionReg) (customs : Customs) (sec : String) (field : String) (cfg : Config) :
    Except Err (Config × Resolved) :=
  match popKey cfg field with
  | none => .error (.keyError field)
  | some (.scalar (.str sel), cfg1) =>
    let kf := lower sel
    if kf = "custom" then
      match popKey cfg1 "python_file" with
      | none => .error (.keyError "python_file")
      | some (.scalar (.str file), cfg2) =>
        match customs.lookup file with
        | none => .error (.generic "python_file")
        | some members => (detectKlass members sec).map (fun k => (cfg2, .plain k))
      | some _ => .error (.generic "python_file")
    else
      match splitPlus kf with
      | [one] => (factory sr one).map (fun k => (cfg1, .plain k))
      | parts => do
        let base ← factory sr (lastOf parts)
        let ms ← (initOf parts).mapM (mixinFactory sr)
        -- `type(name, bases, …)` in build_new_mixed_class: a repeated mixin is "duplicate base class"
        if hasDup (ms.map (·.path)) then throw (.typeError "duplicate base class")
        pure (cfg1, .mixed ms base)
  | some (_, _) => .error (.attrError field)

/-! ## `get_keywordarg_dict`, `create_klass`, the constructor call -/

/-- `determine_mixin_args(bases)`: classes without defaults are skipped; later names override earlier values -/
def determineMixinArgs (bases : List Klass) : Config :=
  dictOfPairs (bases.flatMap (fun k => if k.isMixin then k.mixinKwargs else k.kwargs))

def kwargDict : Resolved → Config
  | .plain k => k.kwargs
  | .mixed ms b => determineMixinArgs (ms ++ [b])

/-- the loop of `create_klass`: every config key must be a constructor keyword -/
def createKlass (defaults : Config) (cfg : Config) : Except Err Config :=
  cfg.foldlM (fun kw kv => if hasKey kw kv.1 then .ok (dictSet kw kv.1 kv.2) else .error (.keyError kv.1)) defaults

structure Component where
  /-- class path (for a mixed class: the base class) -/
  cls : String
  /-- keyword arguments received by the (base) constructor -/
  kwargs : Config
  /-- for a mixed class: the mixins in the order their `__init_mixin__` runs, with the keywords each receives -/
  mixins : List (String × Config)
  deriving Repr, Inhabited, DecidableEq

/-- `klass(**kw)` as far as argument binding goes -/
def bindArgs (k : Klass) (kw : Config) : Except Err Unit :=
  match kw.find? (fun kv => !(k.varkw || k.args.contains kv.1)) with
  | some kv => .error (.typeError kv.1)
  | none =>
    match k.required.find? (fun a => !hasKey kw a) with
    | some a => .error (.typeError a)
    | none => .ok ()

/-- `klass(**kw)`; for a mixed class `mixed_init`: the base gets the keywords it knows, then every mixin
    (last listed first) gets the keywords its `__init_mixin__` knows; everything else is dropped -/
def instantiate : Resolved → Config → Except Err Component
  | .plain k, kw => (bindArgs k kw).map (fun _ => { cls := k.path, kwargs := kw, mixins := [] })
  | .mixed ms b, kw =>
    let bkw := kw.filter (fun kv => b.args.contains kv.1)
    (bindArgs b bkw).map (fun _ =>
      { cls := b.path, kwargs := bkw,
        mixins := ms.reverse.map (fun m => (m.path, kw.filter (fun kv => m.mixinArgs.contains kv.1))) })

/-- `create_profile`: strict key check, used for temperature, pressure, chemistry and gas profiles -/
def createProfile (sr : SectionReg) (customs : Customs) (sec field : String) (cfg : Config) :
    Except Err Component := do
  let (cfg1, r) ← determineKlass sr customs sec field cfg
  let kw ← createKlass (kwargDict r) cfg1
  instantiate r kw

/-- `create_star / planet / optimizer / observation / instrument`: `klass(**config)` -/
def createLenient (sr : SectionReg) (customs : Customs) (sec field : String) (cfg : Config) :
    Except Err Component := do
  let (cfg1, r) ← determineKlass sr customs sec field cfg
  instantiate r cfg1

def resolvedHasAddGas : Resolved → Bool
  | .plain k => k.hasAddGas
  | .mixed ms b => b.hasAddGas || ms.any (·.hasAddGas)

structure ChemistryGraph where
  chemistry : Component
  gases : List Component
  /-- `hasattr(obj, 'addGas')`: the gas profiles are added to the chemistry (otherwise dropped) -/
  added : Bool
  deriving Repr, Inhabited

/-- `create_chemistry`: every sub-section is a gas named by its header, the rest is the chemistry -/
def createChemistry (reg : Registry) (customs : Customs) (s : Sec) : Except Err ChemistryGraph := do
  let gases ← s.subs.mapM (fun sub =>
    createProfile (reg.sec "gas") customs "gas" "gas_type" (dictSet sub.2 "molecule_name" (.scalar (.str sub.1))))
  let (cfg1, r) ← determineKlass (reg.sec "chemistry") customs "chemistry" "chemistry_type" s.scalars
  let kw ← createKlass (kwargDict r) cfg1
  let c ← instantiate r kw
  pure { chemistry := c, gases := gases, added := resolvedHasAddGas r }

/-- `create_planet`: `planet_type` defaults to `simple` -/
def createPlanet (reg : Registry) (customs : Customs) (cfg : Config) : Except Err Component :=
  createLenient (reg.sec "planet") customs "planet" "planet_type"
    (if hasKey cfg "planet_type" then cfg else cfg ++ [("planet_type", .scalar (.str "simple"))])

/-- `generate_contributions`: every sub-section must be claimed by a contribution class (case sensitive);
    its keys are checked strictly -/
def contribsOf (sr : SectionReg) : List (String × Config) → Except Err (List Component)
  | [] => .ok []
  | sub :: rest =>
    match lookup sr.classes sub.1 with
    | some k => do
      let kw ← createKlass k.kwargs sub.2
      let c ← instantiate (.plain k) kw
      let cs ← contribsOf sr rest
      pure (c :: cs)
    | none => contribsOf sr rest

def generateContributions (sr : SectionReg) (subs : List (String × Config)) : Except Err (List Component) := do
  let found ← contribsOf sr subs
  if subs.all (fun sub => (lookup sr.classes sub.1).isSome) then pure found
  else .error (.generic "unknown contributions")

structure ModelGraph where
  model : Component
  contributions : List Component
  deriving Repr, Inhabited

def modelRefs : List (String × String) :=
  [("planet", "planet"), ("star", "star"), ("chemistry", "chemistry"),
   ("temperature_profile", "temperature"), ("pressure_profile", "pressure"), ("observation", "observation")]

/-- `create_model` once the components exist (`hasChemistry`: a `[Chemistry]` section was given): the component keywords the class knows are filled in,
    every scalar key of `[Model]` is passed on, then the contributions are generated -/
def createModel (reg : Registry) (customs : Customs) (hasChemistry : Bool) (s : Sec) : Except Err ModelGraph := do
  let (cfg1, r) ← determineKlass (reg.sec "model") customs "model" "model_type" s.scalars
  let kw0 := kwargDict r
  -- `log.debug('…'.format(gas, gas.activeGases))` is evaluated eagerly: without a [Chemistry] section `gas` is None
  if !hasChemistry then throw (.attrError "activeGases")
  let kw1 := modelRefs.foldl (fun kw p => if hasKey kw p.1 then dictSet kw p.1 (.ref p.2) else kw) kw0
  let kw2 := cfg1.foldl (fun kw kv => dictSet kw kv.1 kv.2) kw1
  let m ← instantiate r kw2
  let cs ← generateContributions (reg.sec "contribution") s.subs
  pure { model := m, contributions := cs }

/-- class paths that `ParameterParser` names directly (not through the registry) -/
def obsKeyClasses : List (String × String) :=
  [("lightcurve", "taurex.data.spectrum.lightcurve.ObservedLightCurve"),
   ("observed_spectrum", "taurex.data.spectrum.observed.ObservedSpectrum"),
   ("taurex_spectrum", "taurex.data.spectrum.taurex.TaurexSpectrum"),
   ("iraclis_spectrum", "taurex.data.spectrum.iraclis.IraclisSpectrum")]

inductive ObsGraph where
  | self
  | comp (c : Component)
  deriving Repr, Inhabited

/-- `generate_observation`: a file key (in their order of precedence) must be the only key of the section
    (otherwise `KeyError`); without a file key `create_observation` -/
def generateObservation (reg : Registry) (customs : Customs) (cfg : Config) : Except Err ObsGraph :=
  match obsKeyClasses.find? (fun p => hasKey cfg p.1) with
  | some (key, cls) =>
    if cfg.length > 1 then .error (.keyError key)
    else
      let v := (cfg.lookup key).getD (.scalar .none)
      if key = "taurex_spectrum" && v = .scalar (.str "self") then .ok .self
      else .ok (.comp { cls := cls, kwargs := [("filename", v)], mixins := [] })
  | none => (createLenient (reg.sec "observation") customs "observation" "observation" cfg).map .comp

structure InstrumentGraph where
  instrument : Component
  numObs : Value
  deriving Repr, Inhabited

/-- `generate_instrument`: `num_observations` is popped; `snr` / `signalnoise` are built by `create_snr`
    from the key `SNR` (any key other than `instrument` / `SNR` is a `KeyError`); otherwise `create_instrument` -/
def generateInstrument (reg : Registry) (customs : Customs) (cfg : Config) : Except Err InstrumentGraph :=
  let (nobs, cfg1) := match popKey cfg "num_observations" with
    | some (v, c) => (v, c)
    | none => (.scalar (.int 1), cfg)
  match cfg1.lookup "instrument" with
  | some (.scalar (.str sel)) =>
    if lower sel = "snr" || lower sel = "signalnoise" then
      match cfg1.find? (fun kv => kv.1 != "instrument" && kv.1 != "SNR") with
      | some kv => .error (.keyError kv.1)
      | none =>
      .ok { instrument := { cls := "taurex.instruments.snr.SNRInstrument",
                            kwargs := [("SNR", (cfg1.lookup "SNR").getD (.scalar (.int 10))), ("binner", .ref "binner")],
                            mixins := [] },
            numObs := nobs }
    else (createLenient (reg.sec "instrument") customs "instrument" "instrument" cfg1).map
      (fun c => { instrument := c, numObs := nobs })
  | some _ => .error (.attrError "instrument")
  | none => (createLenient (reg.sec "instrument") customs "instrument" "instrument" cfg1).map
      (fun c => { instrument := c, numObs := nobs })

/-- `create_prior`: the class whose name equals the given name as written, lower-cased or upper-cased -/
def upperChar (c : Char) : Char :=
  if 97 ≤ c.toNat ∧ c.toNat ≤ 122 then Char.ofNat (c.toNat - 32) else c

def upper (s : String) : String := String.ofList (s.toList.map upperChar)

def priorClaims (k : Klass) (name : String) : Bool :=
  name = k.name || name = lower k.name || name = upper k.name

def lookupPrior (cls : List Klass) (name : String) : Except Err Klass :=
  match cls.find? (priorClaims · name) with
  | some k => .ok k
  | none => .error (.valueError name)

/-! ## the whole file -/

structure Graph where
  chemistry : Option (Except Err ChemistryGraph)
  temperature : Option (Except Err Component)
  pressure : Option (Except Err Component)
  planet : Option (Except Err Component)
  star : Option (Except Err Component)
  model : Option (Except Err ModelGraph)
  observation : Option (Except Err ObsGraph)
  instrument : Option (Except Err InstrumentGraph)
  optimizer : Option (Except Err Component)

def sectionOf (f : InputFile) (name : String) : Option Sec := f.lookup name

/-- what `ParameterParser.generate_*` build from a file (each absent section gives `None`) -/
def expected (reg : Registry) (customs : Customs) (file : InputFile) : Graph :=
  let f := readFile file
  { chemistry := (sectionOf f "Chemistry").map (createChemistry reg customs),
    temperature := (sectionOf f "Temperature").map
      (fun s => createProfile (reg.sec "temperature") customs "temperature" "profile_type" s.scalars),
    pressure := (sectionOf f "Pressure").map
      (fun s => createProfile (reg.sec "pressure") customs "pressure" "profile_type" s.scalars),
    planet := (sectionOf f "Planet").map (fun s => createPlanet reg customs s.scalars),
    star := (sectionOf f "Star").map (fun s => createLenient (reg.sec "star") customs "star" "star_type" s.scalars),
    model := (sectionOf f "Model").map (createModel reg customs (sectionOf f "Chemistry").isSome),
    observation := (sectionOf f "Observation").map (fun s => generateObservation reg customs s.scalars),
    instrument := (sectionOf f "Instrument").map (fun s => generateInstrument reg customs s.scalars),
    optimizer := (sectionOf f "Optimizer").map
      (fun s => createLenient (reg.sec "optimizer") customs "optimizer" "optimizer" s.scalars) }

/-! ## documentation tables (`Gen/Docs.lean`) -/

/-- one selector keyword named in `doc/source/user/taurex/*.rst` -/
structure DocSel where
  /-- factory section -/
  sec : String
  keyword : String
  /-- the class path the documentation gives (resolved to the class's own `module.qualname`), if any -/
  cls : Option String
  /-- some class anywhere in the `taurex` package derives from the section's base and claims the keyword
      (false: the documentation describes a plugin that is not part of the package) -/
  inPackage : Bool
  deriving Repr, Inhabited, DecidableEq

/-- one key of a "Keywords" table of the documentation, with the selector it is documented under -/
structure DocKey where
  sec : String
  keyword : String
  key : String
  deriving Repr, Inhabited, DecidableEq

/-- a documented selector resolves: exactly one class of its section claims it, and it is the documented one
    (priors are looked up by class name, `create_prior`) -/
def resolvesTo (reg : Registry) (d : DocSel) : Bool :=
  let cs := if d.sec = "prior" then (reg.sec d.sec).classes.filter (priorClaims · d.keyword)
            else candidates (reg.sec d.sec).classes d.keyword
  match cs with
  | [k] => match d.cls with
    | some p => k.path == p
    | none => true
  | _ => false

/-- keys of a section that `ParameterParser` itself consumes before the class sees the section -/
def parserKeys : List (String × String) := [("instrument", "num_observations")]

/-- a documented key is accepted: it is a constructor keyword of the class its selector resolves to, a key the
    parser consumes, or (for `[Observation]`, `keyword = ""`) one of the four file keys -/
def keyAccepted (reg : Registry) (d : DocKey) : Bool :=
  if d.keyword = "" then d.sec = "observation" && obsKeyClasses.any (·.1 == d.key)
  else parserKeys.contains (d.sec, d.key) ||
    match lookup (reg.sec d.sec).classes d.keyword with
    | some k => hasKey k.kwargs d.key
    | none => false

end Taurex.Factory
