/-
  Model of the streaming / pooled weighted variance used by the parallel post-processing:
    taurex/util/math.py:OnlineVariance.{reset, update, variance, combine_variance, parallelVariance}
    taurex/mpi.py:allgather                      (an exchange = pickling every element: `ser`)
    taurex/optimizer/optimizer.py:generate_profiles   (`sample_list[rank::size]`)
    taurex/optimizer/optimizer.py:compute_derived_trace (`range(rank, n, size)`, allreduce of the trace
                                                   and sample-index lists, `argsort` of the gathered indices)
  The Python operates element-wise on numpy arrays (profiles, spectra); the model is one element.

  Python objects that matter to the property:
  * `np.nan` is ONE float object.  `variance` returns *that object* when a rank holds fewer than two samples,
    `parallelVariance` substitutes it for a `None` mean.  Pickling (every mpi4py object exchange) produces a
    different float object with the same value.  `Obj` = value + "is the np.nan object" tag; `ser` forgets the tag.
  * a value that is a NaN, or `None` arithmetic that raises: the result type of the pooled computation is
    `Option (Val α)`: `none` = the Python raises, `some Val.nan` = a NaN comes out, `some (Val.fin v)` = a number.
    Arithmetic on `Val` propagates non-finite values as `nan` (infinities never arise inside the quantified domain).
-/
import TaurexModel.Num

namespace Taurex.Variance

/-- a Python float object as far as C18 cares: its value and whether it *is* the `np.nan` singleton -/
structure Obj (α : Type) where
  val : Val α
  isNpNan : Bool
  deriving Repr, DecidableEq

/-- the `np.nan` object -/
def npNan {α : Type} : Obj α := ⟨Val.nan, true⟩

/-- a freshly computed number -/
def Obj.ofNum {α : Type} (x : α) : Obj α := ⟨Val.fin x, false⟩

/-- what one pickle round trip (mpi4py `allgather`, `bcast`, `allreduce` of objects) does to a float:
    the value survives, the identity does not. -/
def ser {α : Type} (o : Obj α) : Obj α := ⟨o.val, false⟩

/-- `var != var` for a 0-d value (the repaired test in `combine_variance`) -/
def nanByValue {α : Type} (o : Obj α) : Bool :=
  match o.val with
  | Val.nan => true
  | _ => false

/-- `var is np.nan` (the test before commit 02e0331; kept to show what the model distinguishes) -/
def nanByIdentity {α : Type} (o : Obj α) : Bool := o.isNpNan

/-- element-wise arithmetic of possibly-NaN values -/
def Val.lift2 {α : Type} (f : α → α → α) : Val α → Val α → Val α
  | Val.fin a, Val.fin b => Val.fin (f a b)
  | _, _ => Val.nan

/-- per-rank streaming accumulators (`OnlineVariance`); `mean is None` ⇔ `count = 0` is an invariant of
    the Python (`reset` clears both, `update` sets both), so `mean`/`m2` are plain numbers here. -/
structure Acc (α : Type) where
  count : Nat
  wcount : α
  mean : α
  m2 : α
  deriving Repr

/-- rank-local slice `xs[r::size]`: the elements at indices `r, r+size, r+2 size, …` in order -/
def strided {β : Type} (r size : Nat) (xs : List β) : List β :=
  (xs.zipIdx.filter (fun p => decide (r ≤ p.2) && (p.2 - r) % size == 0)).map (·.1)

/-- the blocks held by ranks `0 … size-1` -/
def partition {β : Type} (size : Nat) (xs : List β) : List (List β) :=
  (List.range size).map (fun r => strided r size xs)

/-- `allreduce(list, SUM)`: mpi4py's object reduction applies `+`, i.e. concatenates in rank order -/
def gatherLists {β : Type} (blocks : List (List β)) : List β := blocks.flatten

section
variable {α : Type} [Add α] [Sub α] [Mul α] [Div α] [LT α] [DecidableLT α] [BEq α] [OfNat α 0]

def vadd : Val α → Val α → Val α := Val.lift2 (· + ·)
def vsub : Val α → Val α → Val α := Val.lift2 (· - ·)
def vmul : Val α → Val α → Val α := Val.lift2 (· * ·)
def vdiv : Val α → Val α → Val α := Val.lift2 (· / ·)

/-- `OnlineVariance.reset` -/
def Acc.empty : Acc α := ⟨0, 0, 0, 0⟩

/-- `OnlineVariance.update(value, weight)`.  (The `ZeroDivisionError` branch needs a Python-float zero weight
    as first sample; the optimizer adds 1e-300 to every weight, the theorems assume positive weights.) -/
def update (a : Acc α) (x w : α) : Acc α :=
  let wcount := a.wcount + w
  let meanOld := if a.count = 0 then x * 0 else a.mean      -- `if self.mean is None: self.mean = value*0.0`
  let m2Old := if a.count = 0 then x * 0 else a.m2
  let mean := meanOld + (w / wcount) * (x - meanOld)
  { count := a.count + 1, wcount := wcount, mean := mean,
    m2 := m2Old + w * (x - meanOld) * (x - mean) }

/-- all samples of one rank, in order -/
def accOf (l : List (α × α)) : Acc α := l.foldl (fun a p => update a p.1 p.2) Acc.empty

/-- `OnlineVariance.variance` -/
def variance (a : Acc α) : Obj α :=
  if a.count < 2 then npNan else Obj.ofNum (a.m2 / a.wcount)

/-- the mean as sent by `parallelVariance` (`if mean is None: mean = np.nan`) -/
def meanObj (a : Acc α) : Obj α :=
  if a.count = 0 then npNan else Obj.ofNum a.mean

/-- `np.sum` of a short Python list -/
def sumList (l : List α) : α := l.foldl (· + ·) 0

/-- first loop of `combine_variance`: `average` starts as `None` -/
def loop1 : List (Obj α × α) → Option (Val α) → Option (Val α)
  | [], acc => acc
  | (avg, cnt) :: rest, acc =>
    if cnt == 0 then loop1 rest acc
    else if avg.isNpNan then loop1 rest acc        -- `avg is not None and not avg is np.nan`
    else
      let t := vmul avg.val (Val.fin cnt)
      loop1 rest (some (match acc with
        | none => t
        | some s => vadd s t))

/-- second loop of `combine_variance`; outer `none` = `None += …` raises `TypeError` -/
def loop2 (isNan : Obj α → Bool) (average : Val α) :
    List (Obj α × α × Obj α) → Option (Val α) → Option (Option (Val α))
  | [], acc => some acc
  | (avg, cnt, var) :: rest, acc =>
    if cnt == 0 then loop2 isNan average rest acc
    else
      let d := vsub average avg.val
      let t := vmul (Val.fin cnt) (vmul d d)                  -- `cnt*(average - avg)**2`
      let acc1 := if 0 < cnt then some (match acc with
                                        | none => t
                                        | some s => vadd s t)
                  else acc
      if isNan var then loop2 isNan average rest acc1
      else match acc1 with
        | none => none
        | some s => loop2 isNan average rest (some (vadd s (vmul (Val.fin cnt) var.val)))

/-- `OnlineVariance.combine_variance(averages, variance, counts)` → `(average, squares/size)`;
    `none` = raises (`None /= size`) -/
def combine (isNan : Obj α → Bool) (avgs vars : List (Obj α)) (counts : List α) :
    Option (Val α × Val α) :=
  let size := sumList counts
  match loop1 (avgs.zip counts) none with
  | none => none
  | some s =>
    let average := vdiv s (Val.fin size)
    let counts' := counts.map (fun c => c * (size / sumList counts))   -- `np.array(counts) * (size/np.sum(counts))`
    match loop2 isNan average (avgs.zip (counts'.zip vars)) none with
    | some (some sq) => some (average, vdiv sq (Val.fin size))
    | _ => none

/-- `OnlineVariance.parallelVariance()` as seen by every rank: `exch` is what one `allgather` does to each
    gathered float object (`ser` under MPI, `id` without mpi4py, where the only rank is the caller). -/
def parallelVariance (isNan : Obj α → Bool) (exch : Obj α → Obj α) (ranks : List (Acc α)) :
    Option (Val α) :=
  let variances := ranks.map (fun a => exch (variance a))
  let averages := ranks.map (fun a => exch (meanObj a))
  let counts : List α := ranks.map (·.wcount)
  let allCounts : List Nat := ranks.map (·.count)
  if allCounts.sum < 2 then some Val.nan
  else (combine isNan averages variances counts).map (·.2)

/-- the pooled mean computed on the way (first component of `combine_variance`) -/
def parallelMean (isNan : Obj α → Bool) (exch : Obj α → Obj α) (ranks : List (Acc α)) :
    Option (Val α) :=
  (combine isNan (ranks.map (fun a => exch (meanObj a))) (ranks.map (fun a => exch (variance a)))
    (ranks.map (·.wcount))).map (·.1)

/-- blocks of `(value, weight)` samples → the result every rank reports (current code: NaN by value) -/
def pooledVariance (exch : Obj α → Obj α) (blocks : List (List (α × α))) : Option (Val α) :=
  parallelVariance nanByValue exch (blocks.map accOf)

/-- the post-processing loop of `generate_profiles` run on `size` ranks over the sample list `xs` -/
def splitVariance (size : Nat) (xs : List (α × α)) : Option (Val α) :=
  pooledVariance ser (partition size xs)

/-! which posterior samples the post-processing uses: `Optimizer.sample_parameters` / `taurex.util.util.random_int_iter`
    and the route of the option `sigma_fraction` from a concrete optimizer's constructor to the base class -/

/-- what a concrete optimizer (`NestleOptimizer`, `MultiNestOptimizer`, `PolyChordOptimizer`, …) built with its own
    constructor holds as `_sigma_fraction`: the `sigma_fraction` it was given (keyword or `[Optimizer]` entry of the par
    file), the documented default (0.1) when none was given -/
def heldFraction (dflt : α) (given : Option α) : α := given.getD dflt

/-- `random_int_iter(total, fraction)`: `n_points = int(total*fraction)` (`ofNat` = int → float, `toInt` = `int(·)` on a
    non-negative float: both external) -/
def drawCount (ofNat : Nat → α) (toInt : α → Nat) (total : Nat) (fraction : α) : Nat := toInt (ofNat total * fraction)

/-- `Optimizer.sample_parameters(solution)`: `draw` = `random.sample(range(n), n_points)` (an external random draw of
    distinct indices); every drawn sample is yielded once, its weight raised by the floor `1e-300` -/
def sampleParameters (draw : List Nat) (floor : α) (samples : List (α × α)) : List (α × α) :=
  draw.filterMap (fun i => samples[i]?.map (fun p => (p.1, p.2 + floor)))

/-- `generate_profiles` of one quantity on `size` ranks: the list drawn on rank 0 and broadcast, strided over the ranks,
    streamed, pooled -/
def postProcess (size : Nat) (draw : List Nat) (floor : α) (samples : List (α × α)) : Option (Val α) :=
  splitVariance size (sampleParameters draw floor samples)

/-! two-pass reference statistics of a sample list -/

def sumBy (f : α × α → α) (l : List (α × α)) : α := l.foldl (fun s p => s + f p) 0

def wsum (l : List (α × α)) : α := sumBy (fun p => p.2) l

def wmean (l : List (α × α)) : α := sumBy (fun p => p.2 * p.1) l / wsum l

def twoPassVar (l : List (α × α)) : α :=
  sumBy (fun p => p.2 * ((p.1 - wmean l) * (p.1 - wmean l))) l / wsum l

end

/-! `compute_derived_trace`: restoring sample order after the rank-ordered gather -/

section
variable {α : Type} [LT α] [DecidableLT α] [OfNat α 0]

/-- stable insertion of index `i` into an index list sorted by `key` -/
def insertIdx (key : Nat → α) (i : Nat) : List Nat → List Nat
  | [] => [i]
  | j :: js => if key i < key j then i :: j :: js else j :: insertIdx key i js

/-- `np.argsort(keys)`; ties are resolved stably here, numpy's default sort leaves them unspecified -/
def argsort (keys : List α) : List Nat :=
  (List.range keys.length).foldl (fun acc i => insertIdx (fun k => keys.getD k 0) i acc) []

/-- `a[idx]` (fancy indexing with an index array) -/
def takeIdx {β : Type} (xs : List β) (idx : List Nat) : List β := idx.filterMap (fun i => xs[i]?)

/-- `a[idx] = vals` -/
def scatter {β : Type} (base : List β) (idx : List Nat) (vals : List β) : List β :=
  (idx.zip vals).foldl (fun b p => b.set p.1 p.2) base

/-- the re-ordering of the PINNED tree (before a42c6e3), kept as a regression model:
    `all_trace[weights.argsort()] = all_trace[all_weight.argsort()]` -/
def restoreOrderPinned {β : Type} (weights : List α) (gw : List α) (gt : List β) : List β :=
  let sw := argsort weights
  let gs := argsort gw
  scatter gt sw (takeIdx gt gs)

/-- pinned tree: gathered `(trace, weight)` lists on `size` ranks, re-ordered by matching sorted weights -/
def derivedTraceGatherPinned {β : Type} (size : Nat) (weights : List α) (trace : List β) : List β :=
  let gt := gatherLists (partition size trace)
  let gw := gatherLists (partition size weights)
  restoreOrderPinned weights gw gt

end

/-- the re-ordering in `compute_derived_trace` (current code):
    `restore = all_index.argsort(); all_trace = gathered[restore]` -/
def restoreOrder {β : Type} (allIndex : List Nat) (gt : List β) : List β :=
  takeIdx gt (argsort allIndex)

/-- `compute_derived_trace` on `size` ranks: rank `r` evaluates the samples `range(r, n, size)`; the per-rank
    index lists and traces are concatenated in rank order (`allreduce(…, SUM)`) and put back into sample order -/
def derivedTraceGather {β : Type} (size : Nat) (trace : List β) : List β :=
  let allIndex := gatherLists (partition size (List.range trace.length))
  let gt := gatherLists (partition size trace)
  restoreOrder allIndex gt

end Taurex.Variance
