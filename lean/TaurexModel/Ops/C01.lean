import TaurexModel.Proto
import TaurexModel.Transmission
import TaurexModel.Geometry
import TaurexModel.AbsorptionGrid

namespace Taurex.Ops.C01
open Taurex.Proto Taurex.Transmission

/-- array-backed index functions (out of range → 0, never reached by the model on well-formed requests) -/
def fn1 (xs : List Float) : Nat → Float :=
  let a := xs.toArray
  fun i => a.getD i 0

def fn2 (xss : List (List Float)) : Nat → Nat → Float :=
  let a := (xss.map List.toArray).toArray
  fun i j => (a.getD i #[]).getD j 0

def kindP : P Kind := do
  let k ← nat
  match k with
  | 0 => pure Kind.lin
  | 1 => pure Kind.sq
  | 2 => pure Kind.layerOnly
  | _ => failure

def contribP : P (Contrib Float) := do
  let k ← kindP
  let s ← listOf (listOf flt)
  pure { kind := k, sigma := fn2 s }

def tab2 (n m : Nat) (f : Nat → Nat → Float) : List (List Float) :=
  (List.range n).map fun i => (List.range m).map fun j => f i j

/-- `c01.paths method rp z dz zb` → rows `l = 0..n-1`, row `l` has `n-l` chord segments -/
def pathsOp (args : List String) : Option String :=
  run (do
    let m ← nat
    let rp ← flt
    let z ← listOf flt
    let dz ← listOf flt
    let zb ← listOf flt
    let n := z.length
    if dz.length ≠ n ∨ zb.length ≠ n + 1 then failure
    let rows := (List.range n).map fun l =>
      (List.range (n - l)).map fun k => chord (m != 0) rp (fn1 zb) (fn1 z) (fn1 dz) l k
    pure (fList (fList fF) rows)) args

/-- `c01.paths3d rp z dz zb` → rows `l = 0..n-1` of the 3-D geometric model (`Geometry.pathRow3d`): one entry per
    boundary sphere the line of sight of layer `l` hits -/
def paths3dOp (args : List String) : Option String :=
  run (do
    let rp ← flt
    let z ← listOf flt
    let dz ← listOf flt
    let zb ← listOf flt
    let n := z.length
    if dz.length ≠ n ∨ zb.length ≠ n + 1 then failure
    let rows := (List.range n).map fun l => Taurex.Geometry.pathRow3d rp n (fn1 zb) (fn1 z) (fn1 dz) l
    pure (fList (fList fF) rows)) args

/-- `c01.spectrum method rp rs z dz zb dens nwn contribs`
    → transCut[n][nwn] transFull[n][nwn] depthCut[nwn] depthFull[nwn] bare opaque -/
def spectrumOp (args : List String) : Option String :=
  run (do
    let m ← nat
    let rp ← flt
    let rs ← flt
    let z ← listOf flt
    let dz ← listOf flt
    let zb ← listOf flt
    let dens ← listOf flt
    let nwn ← nat
    let cs ← listOf contribP
    let n := z.length
    if dz.length ≠ n ∨ zb.length ≠ n + 1 ∨ dens.length ≠ n then failure
    let (fz, fdz, fzb, fd) := (fn1 z, fn1 dz, fn1 zb, fn1 dens)
    let nm := m != 0
    let tc := tab2 n nwn fun l wn => modelTrans true nm rp n nwn fzb fz fdz fd cs l wn
    let tf := tab2 n nwn fun l wn => modelTrans false nm rp n nwn fzb fz fdz fd cs l wn
    let ftc := fn2 tc
    let ftf := fn2 tf
    let dc := (List.range nwn).map fun wn => depth rp rs n fz fdz (fun l => ftc l wn)
    let df := (List.range nwn).map fun wn => depth rp rs n fz fdz (fun l => ftf l wn)
    let bare := depth rp rs n fz fdz (fun _ => 1)
    let opq := depth rp rs n fz fdz (fun _ => 0)
    pure (fList (fList fF) tc ++ " " ++ fList (fList fF) tf ++ " " ++ fList fF dc ++ " " ++ fList fF df
          ++ " " ++ fF bare ++ " " ++ fF opq)) args

def gasP : P (Taurex.AbsorptionGrid.Gas Float) := do
  let wn ← listOf flt
  let vals ← listOf (listOf flt)
  let mix ← listOf flt
  let a := vals.toArray
  pure { wn := wn, vals := fun l => a.getD l [], mix := fn1 mix }

/-- `c01.abssigma nlayers req gases` (gas = its native wavenumbers, per layer its values on them, per layer its mixing
    ratio) → sigma_xsec[nlayers][req.length] of `AbsorptionContribution` on the grid `req` (`AbsorptionGrid.absSigma`) -/
def absSigmaOp (args : List String) : Option String :=
  run (do
    let n ← nat
    let req ← listOf flt
    let gs ← listOf gasP
    if req.isEmpty then failure
    pure (fList (fList fF) (tab2 n req.length (Taurex.AbsorptionGrid.absSigma gs req)))) args

/-- `c01.scaledsigma nlayers nwn laws[mol][wn] mixes[mol][layer]` → sigma_xsec[nlayers][nwn] of `RayleighContribution`
    (`AbsorptionGrid.scaledSigma`) -/
def scaledSigmaOp (args : List String) : Option String :=
  run (do
    let n ← nat
    let nwn ← nat
    let ls ← listOf (listOf flt)
    let ms ← listOf (listOf flt)
    if ls.length ≠ ms.length then failure
    pure (fList (fList fF) (tab2 n nwn (Taurex.AbsorptionGrid.scaledSigma
      ((ls.zip ms).map fun (x, m) => (fn1 x, fn1 m)))))) args

/-- `c01.ciasigma nlayers nwn xsecs[pair][layer][wn] mix1[pair][layer] mix2[pair][layer]` → sigma_xsec[nlayers][nwn] of
    `CIAContribution` (`AbsorptionGrid.ciaSigma`) -/
def ciaSigmaOp (args : List String) : Option String :=
  run (do
    let n ← nat
    let nwn ← nat
    let xs ← listOf (listOf (listOf flt))
    let m1 ← listOf (listOf flt)
    let m2 ← listOf (listOf flt)
    if xs.length ≠ m1.length ∨ xs.length ≠ m2.length then failure
    pure (fList (fList fF) (tab2 n nwn (Taurex.AbsorptionGrid.ciaSigma
      ((xs.zip (m1.zip m2)).map fun (x, a, b) => (fn2 x, fn1 a, fn1 b)))))) args

def ops : List Op := [("c01.paths", pathsOp), ("c01.paths3d", paths3dOp), ("c01.spectrum", spectrumOp),
  ("c01.abssigma", absSigmaOp), ("c01.scaledsigma", scaledSigmaOp), ("c01.ciasigma", ciaSigmaOp)]

end Taurex.Ops.C01
