import TaurexModel.Proto

namespace Taurex.Ops.C01
open Taurex.Proto

/-- operations of the C01 model served by `driver_c01` (filled in by the C01 check) -/
def ops : List Op := []

end Taurex.Ops.C01
