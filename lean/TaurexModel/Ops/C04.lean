import TaurexModel.Proto
import TaurexModel.Interp

namespace Taurex.Ops.C04
open Taurex.Proto Taurex.Interp

def modeP : P Mode := do
  let n ← nat
  pure (if n == 0 then Mode.linear else Mode.exp)

/-- `c04.pair arr v` → `l r` -/
def pairOp (args : List String) : Option String :=
  run (do
    let arr ← listOf flt
    let v ← flt
    let (l, r) := findClosestPair arr v
    pure s!"{l} {r}") args

/-- `c04.opacity mode tg pgPa tabs t pPa` → list (one value per table) -/
def opacityOp (pinned : Bool) (args : List String) : Option String :=
  run (do
    let mode ← modeP
    let tg ← listOf flt
    let pg ← listOf flt
    let tabs ← listOf (listOf (listOf flt))
    let t ← flt
    let p ← flt
    let f := if pinned then
        fun tab => bilinearGridPinned mode tg (pg.map log10) tab t (log10 p) / 10000
      else fun tab => computeOpacity mode tg pg tab t p
    pure (fList fF (tabs.map f))) args

def ops : List Op :=
  [("c04.pair", pairOp), ("c04.opacity", opacityOp false), ("c04.opacity_pinned", opacityOp true)]

end Taurex.Ops.C04
