import TaurexModel.Proto
import TaurexModel.Priors
import TaurexModel.FittableTable
import TaurexModel.PriorObjects
import TaurexModel.FittingSection

namespace Taurex.Ops.C08
open Taurex.Proto Taurex.Priors Taurex.FittableTable

/-- inverse of `harness.common.S` -/
def unescAux : List Char → List Char
  | '%' :: '2' :: '0' :: r => ' ' :: unescAux r
  | '%' :: '0' :: 'A' :: r => '\n' :: unescAux r
  | '%' :: '0' :: '9' :: r => '\t' :: unescAux r
  | '%' :: '2' :: '5' :: r => '%' :: unescAux r
  | c :: r => c :: unescAux r
  | [] => []

def unesc (s : String) : String := if s == "%e" then "" else String.ofList (unescAux s.toList)

def esc (s : String) : String :=
  if s == "" then "%e"
  else String.join (s.toList.map (fun c =>
    if c == '%' then "%25" else if c == ' ' then "%20" else if c == '\n' then "%0A" else if c == '\t' then "%09"
    else String.singleton c))

def str : P String := do
  let t ← tok
  pure (unesc t)

/-- constructor call: 0 `Uniform(bounds=(a,b))` 1 `LogUniform(bounds=(a,b))` 2 `LogUniform(lin_bounds=(a,b))`
    3 `Gaussian(mean=a,std=b)` 4 `LogGaussian(mean=a,std=b,lin_mean=?,lin_std=?)`
    5 default prior of `compile_params` for mode `m` (0 linear / 1 log) and bounds `(a,b)` -/
def ctorP : P (Option (Prior Float)) := do
  let k ← nat
  match k with
  | 0 => do let a ← flt; let b ← flt; pure (some (mkUniform a b))
  | 1 => do let a ← flt; let b ← flt; pure (some (mkLogUniform a b))
  | 2 => do let a ← flt; let b ← flt; pure (mkLogUniformLin a b)
  | 3 => do let a ← flt; let b ← flt; pure (some (mkGaussian a b))
  | 4 => do
    let a ← flt; let b ← flt
    let lm ← optOf flt
    let ls ← optOf flt
    pure (mkLogGaussian a b lm ls)
  | 5 => do
    let m ← nat
    let a ← flt; let b ← flt
    pure (defaultPrior (if m == 0 then FitMode.linear else FitMode.log) a b)
  | _ => failure

def kindOf : Prior Float → Nat × Float × Float
  | .uniform a b => (0, a, b)
  | .logUniform a b => (1, a, b)
  | .gaussian a b => (2, a, b)
  | .logGaussian a b => (3, a, b)

/-- `kind mode a b lo hi samples backs` -/
def fPriorEval (p : Prior Float) (z10 z90 : Float) (us zs xs : List Float) : String :=
  let ppfB : Float → Float := fun u => if u == 0.1 then z10 else z90
  let (lo, hi) := p.boundaries ppfB
  let (k, a, b) := kindOf p
  let samples := List.zipWith (fun u z => p.sample (fun _ => z) u) us zs
  let backs := xs.map p.back
  let m : Nat := if p.mode = PriorMode.log then 1 else 0
  s!"{k} {m} {fF a} {fF b} {fF lo} {fF hi} {fList fF samples} {fList fF backs}"

/-- `c08.prior <ctor> z10 z90 us zs xs` → `0` when the constructor raises, else `1` + evaluation;
    `zs[i]` is `ndtri(us[i])` -/
def priorOp (args : List String) : Option String :=
  run (do
    let p ← ctorP
    let z10 ← flt
    let z90 ← flt
    let us ← listOf flt
    let zs ← listOf flt
    let xs ← listOf flt
    match p with
    | none => pure "0"
    | some p => pure ("1 " ++ fPriorEval p z10 z90 us zs xs)) args

def fVal (f : String → String) : ArgVal String → String
  | .num x => "0 " ++ fList f [x]
  | .tuple xs => "1 " ++ fList f xs
  | .list xs => "2 " ++ fList f xs

def fCall (c : Call String) : String :=
  esc c.fn ++ " " ++ fList (fun a => esc a.1 ++ " " ++ fVal esc a.2) c.args

/-- `c08.parse text` → `0` (rejected) or `1 fn args canonical-text reparsed-equal` -/
def parseOp (args : List String) : Option String :=
  run (do
    let s ← str
    match parsePrior s with
    | none => pure "0"
    | some c =>
      let t := printPrior c
      let again : Bool := match parsePrior t with
        | some c' => decide (c' = c)
        | none => false
      pure ("1 " ++ fCall c ++ " " ++ esc t ++ " " ++ fB again)) args

def valP {β : Type} (p : P β) : P (ArgVal β) := do
  let k ← nat
  let xs ← listOf p
  match k, xs with
  | 0, [x] => pure (.num x)
  | 1, xs => pure (.tuple xs)
  | 2, xs => pure (.list xs)
  | _, _ => failure

def callP {β : Type} (p : P β) : P (Call β) := do
  let fn ← str
  let as ← listOf (do let k ← str; let v ← valP p; pure (k, v))
  pure ⟨fn, as⟩

/-- `c08.print fn args` → canonical text of a call whose numbers are literal tokens -/
def printOp (args : List String) : Option String :=
  run (do
    let c ← callP str
    pure (esc (printPrior c))) args

/-- `c08.create z10 z90 half quarter fn args us zs xs` → code (0 ok, 1 unknown class, 2 bad keyword, 3 domain error,
    4 unsupported shape) and, when ok, the evaluation as in `c08.prior` -/
def createOp (args : List String) : Option String :=
  run (do
    let z10 ← flt
    let z90 ← flt
    let half ← flt
    let quarter ← flt
    let c ← callP flt
    let us ← listOf flt
    let zs ← listOf flt
    let xs ← listOf flt
    match createPrior half quarter c with
    | .ok p => pure ("0 " ++ fPriorEval p z10 z90 us zs xs)
    | .unknownKlass => pure "1"
    | .badKeyword => pure "2"
    | .domain => pure "3"
    | .unsupported => pure "4") args

/-- one declaration on the wire: `name optMode optFit optBounds` (mode 0 linear / 1 log); an absent keyword is `0` -/
def declP : P (Decl Float) := do
  let name ← str
  let m ← optOf nat
  let f ← optOf bool
  let b ← optOf (do let a ← flt; let b ← flt; pure (a, b))
  pure { name := name, mode := m.map (fun k => if k == 0 then FitMode.linear else FitMode.log), fit := f, bounds := b }

/-- `c08.declared decls hist z10 z90 us zs xs` → `0` when a declaration / `modify_bounds` raises, else `1` + for every
    entry of the table `name mode fit b0 b1` + (`0` when no default prior exists | `1` + its evaluation as in `c08.prior`):
    the default prior of every DECLARED parameter after the object's `modify_bounds` history -/
def declaredOp (args : List String) : Option String :=
  run (do
    let decls ← listOf declP
    let hist ← listOf (do let n ← str; let a ← flt; let b ← flt; pure (n, a, b))
    let z10 ← flt
    let z90 ← flt
    let us ← listOf flt
    let zs ← listOf flt
    let xs ← listOf flt
    match declaredTable decls hist with
    | none => pure "0"
    | some t =>
      pure ("1 " ++ fList (fun (e : Entry Float) =>
        let m : Nat := if e.mode = FitMode.log then 1 else 0
        let d := match defaultOf t e.name with
          | some (some p) => "1 " ++ fPriorEval p z10 z90 us zs xs
          | _ => "0"
        s!"{esc e.name} {m} {fB e.fit} {fF e.b0} {fF e.b1} {d}") t)) args

/-! ### prior objects (identity, in-place `set_bounds`) -/

/-- one operation on the wire: `0 <call>` = `create_prior` of a text that parses to the call (numbers converted by the
    harness), `1 i b0 b1` = `set_bounds([b0, b1])` on the object created `i`-th -/
def objOpP : P (PriorObjects.Op Float) := do
  let k ← nat
  match k with
  | 0 => do let c ← callP flt; pure (.create c)
  | 1 => do let i ← nat; let a ← flt; let b ← flt; pure (.setBounds i a b)
  | _ => failure

/-- `c08.objects half quarter ops z10 z90 us zs xs` → for every operation of the history the evaluation (as in `c08.prior`)
    of EVERY object alive after it, in creation order (`PriorObjects.trace`) -/
def objectsOp (args : List String) : Option String :=
  run (do
    let half ← flt
    let quarter ← flt
    let ops ← listOf objOpP
    let z10 ← flt
    let z90 ← flt
    let us ← listOf flt
    let zs ← listOf flt
    let xs ← listOf flt
    let tr := PriorObjects.trace half quarter [] ops
    pure (fList (fun (h : PriorObjects.Heap Float) => fList (fun p => fPriorEval p z10 z90 us zs xs) h) tr)) args

/-! ### the input-file route: `[Fitting]` section → `setup_optimizer` → `enable_fit` … → `compile_params` -/

open Taurex.OptimizerSM Taurex.FittingSection in
def paramP : P (Param String Float) := do
  let name ← str
  let m ← nat
  let fit ← bool
  let b0 ← flt
  let b1 ← flt
  let v ← flt
  pure ⟨name, if m == 0 then FitMode.linear else FitMode.log, fit, b0, b1, v⟩

open Taurex.FittingSection in
def optValP : P (OptVal Float) := do
  let k ← nat
  match k with
  | 0 => do let b ← bool; pure (.bool b)
  | 1 => do let x ← flt; pure (.num x)
  | 2 => do let s ← str; pure (.str s)
  | 3 => do let xs ← listOf flt; pure (.nums xs)
  | 4 => do let xs ← listOf str; pure (.strs xs)
  | _ => failure

/-- the numbers of a parsed call replaced, in order of appearance, by the values the harness got from `float()` -/
def fillArgs : List (String × ArgVal String) → List Float → Option (List (String × ArgVal Float))
  | [], _ => some []
  | (k, .num _) :: r, x :: xs => (fillArgs r xs).map ((k, ArgVal.num x) :: ·)
  | (_, .num _) :: _, [] => none
  | (k, .tuple ts) :: r, xs =>
    if xs.length < ts.length then none
    else (fillArgs r (xs.drop ts.length)).map ((k, ArgVal.tuple (xs.take ts.length)) :: ·)
  | (k, .list ts) :: r, xs =>
    if xs.length < ts.length then none
    else (fillArgs r (xs.drop ts.length)).map ((k, ArgVal.list (xs.take ts.length)) :: ·)

open Taurex.FittingSection in
/-- `create_prior(value)` on a typed section value: the text is parsed by `parsePrior`, its number literals take the values
    of `tbl` (text ↦ `float()` of its literals), the call is built by `createPrior` -/
def mkPriorTbl (half quarter : Float) (tbl : List (String × List Float)) : OptVal Float → Option (Prior Float)
  | .str s =>
    match parsePrior s, tbl.find? (fun e => e.1 == s) with
    | some c, some e =>
      match fillArgs c.args e.2 with
      | some as =>
        match createPrior half quarter ⟨c.fn, as⟩ with
        | .ok p => some p
        | _ => none
      | none => none
    | _, _ => none
  | _ => none

open Taurex.OptimizerSM Taurex.FittingSection in
/-- `c08.file z10 z90 half quarter params fitting numbers phases us zs xs`: a fresh optimizer over a model with the declared
    `params` (name mode fit b0 b1 value), `setup_optimizer` with the `[Fitting]` entries (key, typed value), then per phase
    `enable_fit` of its names followed by `compile_params` →
    outcome of the set-up (0 ok, 1 KeyError, 2 ValueError, 3 prior error, 4 unsupported shape), then per phase
    `compile outcome (0 ok / 2 ValueError)`, the reported names (`log_` prefix by the prior's space) and the evaluation of
    every compiled prior as in `c08.prior` -/
def fileOp (args : List String) : Option String :=
  run (do
    let z10 ← flt
    let z90 ← flt
    let half ← flt
    let quarter ← flt
    let params ← listOf paramP
    let fitting ← listOf (do let k ← str; let v ← optValP; pure (k, v))
    let numbers ← listOf (do let t ← str; let xs ← listOf flt; pure (t, xs))
    let phases ← listOf (listOf str)
    let us ← listOf flt
    let zs ← listOf flt
    let xs ← listOf flt
    let s0 : St String Float := initSt params [] [] []
    let r := setupOptimizer (mkPriorTbl half quarter numbers) s0 fitting []
    let code : Nat := match r.2.1 with
      | .ok => 0 | .keyError => 1 | .valueError => 2 | .priorError => 3 | .unsupported => 4
    let rec go (s : St String Float) : List (List String) → List String
      | [] => []
      | en :: rest =>
        let c := step (OptimizerSM.run s (en.map Op.enableFit)) .compile
        let o : Nat := match c.2 with | .ok => 0 | .keyError => 1 | .valueError => 2
        let names := match fitNames c.1 with
          | some ns => fList (fun (x : Bool × String) => esc (if x.1 then "log_" ++ x.2 else x.2)) ns
          | none => "0"
        (s!"{o} {names} " ++ fList (fun p => fPriorEval p z10 z90 us zs xs) c.1.compiledPriors) :: go c.1 rest
    pure (s!"{code} " ++ fList id (go r.1 phases))) args

/-! ### the scripting route: the optimizer's own setters in any order, `compile_params`, `update_model` -/

open Taurex.OptimizerSM in
/-- one call of the history: 0 `enable_fit n` 1 `disable_fit n` 2 `set_mode n text` 3 `set_boundary n (a, b)`
    4 `set_factor_boundary n (a, b)` 5 `set_prior n <constructor call as in c08.prior>` 8 `compile_params()`
    9 `update_model v` -/
def sessOpP : P (OptimizerSM.Op String Float) := do
  let k ← nat
  match k with
  | 0 => do let n ← str; pure (.enableFit n)
  | 1 => do let n ← str; pure (.disableFit n)
  | 2 => do let n ← str; let m ← str; pure (.setMode n m)
  | 3 => do let n ← str; let a ← flt; let b ← flt; pure (.setBoundary n a b)
  | 4 => do let n ← str; let a ← flt; let b ← flt; pure (.setFactorBoundary n a b)
  | 5 => do
    let n ← str
    let p ← ctorP
    match p with
    | some pr => pure (.setPrior n pr)
    | none => failure
  | 8 => pure .compile
  | 9 => do let v ← listOf flt; pure (.updateModel v)
  | _ => failure

open Taurex.OptimizerSM in
/-- `c08.session z10 z90 model obs ops us zs xs`: a fresh optimizer over a model and an observation with the declared
    parameters (name mode fit b0 b1 value), then the calls of `ops` one after the other (`OptimizerSM.step`) → per call its
    outcome (0 ok / 1 KeyError / 2 ValueError) and: after `compile_params` `1`, the reported names and the evaluation of every
    compiled prior as in `c08.prior`; after `update_model` `2` and the value of every parameter (model's, then the
    observation's, in table order); otherwise `0` -/
def sessionOp (args : List String) : Option String :=
  run (do
    let z10 ← flt
    let z90 ← flt
    let model ← listOf paramP
    let obs ← listOf paramP
    let ops ← listOf sessOpP
    let us ← listOf flt
    let zs ← listOf flt
    let xs ← listOf flt
    let rec go (s : St String Float) : List (OptimizerSM.Op String Float) → List String
      | [] => []
      | op :: rest =>
        let c := step s op
        let o : Nat := match c.2 with | .ok => 0 | .keyError => 1 | .valueError => 2
        let payload : String := match op with
          | .compile =>
            let names := match fitNames c.1 with
              | some ns => fList (fun (x : Bool × String) => esc (if x.1 then "log_" ++ x.2 else x.2)) ns
              | none => "0"
            s!"1 {names} " ++ fList (fun p => fPriorEval p z10 z90 us zs xs) c.1.compiledPriors
          | .updateModel _ => "2 " ++ fList (fun (p : Param String Float) => fF p.value) (c.1.model ++ c.1.obs)
          | _ => "0"
        s!"{o} {payload}" :: go c.1 rest
    pure (fList id (go (initSt model obs [] []) ops))) args

def ops : List Op :=
  [("c08.prior", priorOp), ("c08.parse", parseOp), ("c08.print", printOp), ("c08.create", createOp),
   ("c08.declared", declaredOp), ("c08.objects", objectsOp), ("c08.file", fileOp), ("c08.session", sessionOp)]

end Taurex.Ops.C08
