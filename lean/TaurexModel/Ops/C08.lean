import TaurexModel.Proto

namespace Taurex.Ops.C08
open Taurex.Proto

/-- operations of the C08 model served by `driver_c08` (filled in by the C08 check) -/
def ops : List Op := []

end Taurex.Ops.C08
