import TaurexModel.Proto
import TaurexModel.OptimizerSM

namespace Taurex.Ops.C07
open Taurex.Proto Taurex.Priors Taurex.OptimizerSM

abbrev S := St String Float

def modeP : P FitMode := do
  let n ← nat
  pure (if n == 0 then FitMode.linear else FitMode.log)

def paramP : P (Param String Float) := do
  let name ← tok
  let mode ← modeP
  let fit ← bool
  let b0 ← flt
  let b1 ← flt
  let v ← flt
  pure ⟨name, mode, fit, b0, b1, v⟩

def derivedP : P (Derived String) := do
  let name ← tok
  let c ← bool
  pure ⟨name, c⟩

/-- a prior given by the constructor call the harness made:
    0 `Uniform(bounds)` 1 `LogUniform(bounds)` 2 `LogUniform(lin_bounds)` 3 `Gaussian(mean,std)`
    4 `LogGaussian(mean,std)` 5 `LogGaussian(lin_mean,std)`; fails where the Python constructor raises -/
def priorCtorP : P (Prior Float) := do
  let k ← nat
  let a ← flt
  let b ← flt
  match k with
  | 0 => pure (mkUniform a b)
  | 1 => pure (mkLogUniform a b)
  | 2 => match mkLogUniformLin a b with
    | some p => pure p
    | none => failure
  | 3 => pure (mkGaussian a b)
  | 4 => match mkLogGaussian a b none none with
    | some p => pure p
    | none => failure
  | 5 => match mkLogGaussian 0 b (some a) none with
    | some p => pure p
    | none => failure
  | _ => failure

def opP : P (Op String Float) := do
  let k ← nat
  match k with
  | 0 => do let n ← tok; pure (.enableFit n)
  | 1 => do let n ← tok; pure (.disableFit n)
  | 2 => do let n ← tok; let m ← tok; pure (.setMode n m)
  | 3 => do let n ← tok; let a ← flt; let b ← flt; pure (.setBoundary n a b)
  | 4 => do let n ← tok; let a ← flt; let b ← flt; pure (.setFactorBoundary n a b)
  | 5 => do let n ← tok; let p ← priorCtorP; pure (.setPrior n p)
  | 6 => do let n ← tok; pure (.enableDerived n)
  | 7 => do let n ← tok; pure (.disableDerived n)
  | 8 => pure .compile
  | 9 => do let v ← listOf flt; pure (.updateModel v)
  | _ => failure

def fOut : Out → String
  | .ok => "0"
  | .keyError => "1"
  | .valueError => "2"

def fMode : FitMode → String
  | .linear => "0"
  | .log => "1"

def fParam (p : Param String Float) : String :=
  s!"{fMode p.mode} {fB p.fit} {fF p.b0} {fF p.b1} {fF p.value}"

def fPrior (z10 z90 : Float) (p : Prior Float) : String :=
  let ppf : Float → Float := fun u => if u == 0.1 then z10 else z90
  let (lo, hi) := p.boundaries ppf
  let (k, a, b) : Nat × Float × Float := match p with
    | .uniform a b => (0, a, b)
    | .logUniform a b => (1, a, b)
    | .gaussian a b => (2, a, b)
    | .logGaussian a b => (3, a, b)
  s!"{k} {fF a} {fF b} {fF lo} {fF hi}"

/-- `'log_{}'.format(name)` -/
def fName (x : Bool × String) : String := if x.1 then "log_" ++ x.2 else x.2

/-- everything the harness compares after a step -/
def fObs (z10 z90 : Float) (s : S) (o : Out) : String :=
  " ".intercalate [
    fOut o,
    fList fParam s.model,
    fList fParam s.obs,
    fList (fun d => fB d.compute) s.dmodel,
    fList (fun d => fB d.compute) s.dobs,
    fOpt (fList fName) (fitNames s),
    fOpt (fList fF) (fitValues s),
    fOpt (fList (fun b => fF b.1 ++ " " ++ fF b.2)) (fitBoundaries s),
    fList (fPrior z10 z90) s.compiledPriors,
    fList id s.derivedCompiled ]

def trace (stepF : S → Op String Float → S × Out) (z10 z90 : Float) : S → List (Op String Float) → List String
  | _, [] => []
  | s, op :: ops =>
    let r := stepF s op
    fObs z10 z90 r.1 r.2 :: trace stepF z10 z90 r.1 ops

/-- `c07.run z10 z90 model obs dmodel dobs ops` → number of steps + 1, then one observation per state
    (the initial one first) -/
def runOp (pinned : Bool) (args : List String) : Option String :=
  run (do
    let z10 ← flt
    let z90 ← flt
    let model ← listOf paramP
    let obs ← listOf paramP
    let dmodel ← listOf derivedP
    let dobs ← listOf derivedP
    let ops ← listOf opP
    let s0 : S := initSt model obs dmodel dobs
    let stepF := if pinned then stepPinned else step
    let obsv := fObs z10 z90 s0 .ok :: trace stepF z10 z90 s0 ops
    pure (fList id obsv)) args

/-- `c07.implied z10 z90 model obs dmodel dobs userpriors(list of name ctor)` → out, entries (owner name mode b0 b1),
    priors, derived names, implied names — the specification evaluated on given settings -/
def impliedOp (args : List String) : Option String :=
  run (do
    let z10 ← flt
    let z90 ← flt
    let model ← listOf paramP
    let obs ← listOf paramP
    let dmodel ← listOf derivedP
    let dobs ← listOf derivedP
    let user ← listOf (do let n ← tok; let p ← priorCtorP; pure (n, p))
    let tbl : Table String Float := user.foldl (fun t np => tset t np.1 np.2) []
    let (v, o) := implied (⟨model, obs, dmodel, dobs, tbl⟩ : Settings String Float)
    let fEntry : Entry String Float → String := fun e =>
      s!"{if e.owner = Owner.model then 0 else 1} {e.name} {fMode e.mode} {fF e.b0} {fF e.b1}"
    pure (" ".intercalate [fOut o, fList fEntry v.entries, fList (fPrior z10 z90) v.priors, fList id v.derived,
                           fList fName (impliedNames v)])) args

def ops : List Taurex.Proto.Op :=
  [("c07.run", runOp false), ("c07.run_pinned", runOp true), ("c07.implied", impliedOp)]

end Taurex.Ops.C07
